#!/bin/bash
# runs the repo's pinned suite (guard off) and compares the passing set with BASELINE.json
cd /repo && /venv/bin/python -m pytest -q -p no:cacheprovider --timeout=900 --continue-on-collection-errors --junitxml=/tmp/cola_junit.xml >/dev/null 2>&1
/venv/bin/python - <<'PY'
import json, xml.etree.ElementTree as ET
base = json.load(open('/root/.vp/BASELINE.json'))
want = set(base['stable_pass'])
t = ET.parse('/tmp/cola_junit.xml')
passed = 0; failed_names = []
names = set()
for tc in t.iter('testcase'):
    ok = not any(c.tag in ('failure', 'error', 'skipped') for c in tc)
    if ok:
        passed += 1
        names.add(tc.get('classname') + '::' + tc.get('name'))
missing = [w for w in want if w not in names]
print(f"passed={passed} baseline={len(want)} missing_from_baseline={len(missing)}")
for m in missing[:10]: print("  MISSING", m)
PY
rm -f /tmp/cola_junit.xml
