#!/usr/bin/env python3
"""Build the root library repeatedly; on 'environment already contains X from A' while importing B, rename X (and
identifiers having X as a prefix) inside B's family of files."""
import re, subprocess, glob, sys, os
os.chdir('/verif/lean')
FAM = {  # module stem prefix -> files of the family
 'DiagTrace': 'ColaVerif/Model/DiagTrace.lean ColaVerif/Lemmas/DiagTrace*.lean ColaVerif/Properties/C08.lean DriverC08.lean',
 'Decomp': 'ColaVerif/Model/Decomp*.lean ColaVerif/Lemmas/Decomp*.lean ColaVerif/Properties/C11.lean DriverC11.lean',
 'LogDet': 'ColaVerif/Model/LogDet.lean ColaVerif/Lemmas/LogDet*.lean ColaVerif/Properties/C07.lean DriverC07.lean',
 'Svd': 'ColaVerif/Model/Svd.lean ColaVerif/Lemmas/Svd*.lean ColaVerif/Properties/C16.lean DriverC16.lean',
 'Unary': 'ColaVerif/Model/Unary.lean ColaVerif/Lemmas/Unary*.lean ColaVerif/Properties/C09.lean DriverC09.lean',
 'Inv': 'ColaVerif/Model/Inv.lean ColaVerif/Lemmas/Inv*.lean ColaVerif/Properties/C06.lean DriverC06.lean',
 'Eig': 'ColaVerif/Model/Eig.lean ColaVerif/Lemmas/Eig*.lean ColaVerif/Properties/C10.lean DriverC10.lean',
 'Cost': 'ColaVerif/Model/Cost.lean ColaVerif/Model/Structural.lean ColaVerif/Model/RuleSkeleton.lean ColaVerif/Lemmas/Cost*.lean ColaVerif/Lemmas/SkeletonTie.lean ColaVerif/Properties/C19.lean ColaVerif/Properties/C19/*.lean DriverC19.lean',
 'Arnoldi': 'ColaVerif/Model/Arnoldi.lean ColaVerif/Model/NumOpsA.lean ColaVerif/Model/GMRES.lean ColaVerif/Lemmas/Arnoldi*.lean ColaVerif/Lemmas/GMRES*.lean ColaVerif/Properties/C13.lean ColaVerif/Properties/C15.lean DriverArnoldi.lean',
 'Lanczos': 'ColaVerif/Model/Lanczos.lean ColaVerif/Model/NumOpsL.lean ColaVerif/Lemmas/Lanczos*.lean ColaVerif/Properties/C14.lean DriverLanczos.lean',
 'CG': 'ColaVerif/Model/CG.lean ColaVerif/Lemmas/CG*.lean ColaVerif/Properties/C12.lean DriverCG.lean',
 'Rng': 'ColaVerif/Model/Rng.lean ColaVerif/Model/Hutch.lean ColaVerif/Lemmas/Rng*.lean ColaVerif/Properties/C17.lean DriverC17.lean',
 'Persist': 'ColaVerif/Model/Heap.lean ColaVerif/Model/Registry.lean ColaVerif/Lemmas/Persist*.lean ColaVerif/Properties/C18.lean DriverC18.lean',
}
TAG = {'DiagTrace':'dt','Decomp':'dc','LogDet':'ld','Svd':'sv','Unary':'un','Inv':'iv','Eig':'eg','Cost':'cs','Arnoldi':'ar','Lanczos':'lz','CG':'cg','Rng':'rg','Persist':'ps'}
def family(mod):
    stem = mod.split('.')[-1]
    for k in FAM:
        if stem.startswith(k) or (k=='Cost' and stem in ('Structural','RuleSkeleton','SkeletonTie')) or (k=='Arnoldi' and stem.startswith(('GMRES','NumOpsA'))) or (k=='Persist' and stem in ('Heap','Registry')) or (k=='Rng' and stem=='Hutch'):
            return k
    return None
for it in range(40):
    out = subprocess.run('flock .build.lock lake build', shell=True, capture_output=True, text=True).stdout
    m = re.search(r"import (\S+) failed, environment already contains '([^']+)' from (\S+)", out)
    if not m:
        print('no more clashes' if 'success' in out else out[-1500:]); break
    mod, name, other = m.groups()
    fam = family(mod)
    short = name.split('.')[-1]
    print(f"clash {name}: {mod} vs {other} -> renaming in family {fam}")
    if fam is None: print('unknown family'); break
    files = [f for pat in FAM[fam].split() for f in glob.glob(pat)]
    new = TAG[fam] + short[0].upper() + short[1:]
    for f in files:
        s = open(f).read()
        s2 = re.sub(r'(?<![A-Za-z0-9_.\'])' + re.escape(short) + r'(?![A-Za-z0-9_\'])', new, s)
        s2 = re.sub(r'(?<=\.)' + re.escape(short) + r'(?![A-Za-z0-9_\'])', new, s2)
        if s2 != s: open(f, 'w').write(s2)
