#!/bin/bash
# usage: tools/run_all.sh [tier] [seed] [jobs] [ids...]   — runs the registered checks on /repo's working tree, prints rc / time / verdict lines
TIER=${1:-quick}; SEED=${2:-0}; JOBS=${3:-4}; shift 3 2>/dev/null
IDS=${@:-C01 C02 C03 C04 C05 C06 C07 C08 C09 C10 C11 C12 C13 C14 C15 C16 C17 C18 C19 C20}
cd "$(dirname "$0")/.."
mkdir -p work/runall
run_one() {
  id=$1; t0=$(date +%s)
  VERIF_SEED=$SEED ./check $id $TIER > work/runall/${id}_${TIER}_${SEED}.out 2>&1; rc=$?
  t1=$(date +%s)
  echo "$id rc=$rc wall=$((t1-t0))s viol=$(grep -c '^VIOLATION' work/runall/${id}_${TIER}_${SEED}.out) known=$(grep -c '^KNOWN-FINDING' work/runall/${id}_${TIER}_${SEED}.out)"
}
export -f run_one; export TIER SEED
echo $IDS | tr ' ' '\n' | xargs -P $JOBS -I{} bash -c 'run_one {}'
