#!/usr/bin/env python3
"""usage: confirm_seeded.py <worktree> <mdir> <name> <PROP> [extra PROP ...]
Confirms a seeded change in the scratch worktree (tests 130 pass with/without, demo passes without / fails with),
runs the registered checks against a private patched copy, stores it under /verif/seeded/<name>/."""
import json, os, shutil, subprocess, sys, re
wt, mdir, name, props = sys.argv[1], sys.argv[2], sys.argv[3], sys.argv[4:]
patch = os.path.join(mdir, "patch.diff"); demo = os.path.join(mdir, "demo.py")
def sh(cmd, cwd=None):
    p = subprocess.run(cmd, shell=True, cwd=cwd, capture_output=True, text=True)
    return p.returncode, p.stdout + p.stderr
def tests():
    rc, out = sh("/venv/bin/python -m pytest -q -p no:cacheprovider --timeout=900 --continue-on-collection-errors 2>&1 | tail -1", wt)
    m = re.search(r"(\d+) passed", out); return int(m.group(1)) if m else -1
sh("git checkout -- .", wt)
shutil.copy(demo, os.path.join(wt, "_demo.py"))
res = {}
res["tests_pristine"] = tests()
res["demo_pristine_rc"] = sh("/venv/bin/python _demo.py", wt)[0]
rc, out = sh(f"git apply {patch}", wt); assert rc == 0, out
res["tests_patched"] = tests()
res["demo_patched_rc"] = sh("/venv/bin/python _demo.py", wt)[0]
sh("git checkout -- .", wt); os.remove(os.path.join(wt, "_demo.py"))
ok = res["tests_pristine"] == 130 and res["tests_patched"] == 130 and res["demo_pristine_rc"] == 0 and res["demo_patched_rc"] != 0
res["confirmed"] = ok
checks = {}
for p in props:
    rc, out = sh(f"/verif/tools/run_seeded.sh {p} {patch} quick {name}_{p}")
    m = re.search(r"rc=(\d+) violations=(\d+)", out)
    checks[p] = {"rc": int(m.group(1)), "violations": int(m.group(2))} if m else {"raw": out[-300:]}
res["checks"] = checks
dst = f"/verif/seeded/{name}"
os.makedirs(dst, exist_ok=True)
shutil.copy(patch, dst); shutil.copy(demo, dst)
readme = os.path.join(mdir, "README.txt")
meta = {"property": props[0], "name": name, "needs": open(readme).read()[:1500] if os.path.exists(readme) else "",
        "ran": ["pytest in scratch worktree with and without patch", "demo.py with and without patch"] + [f"tools/run_seeded.sh {p} patch.diff" for p in props],
        "result": res}
json.dump(meta, open(os.path.join(dst, "meta.json"), "w"), indent=1)
print(json.dumps(res))
