#!/usr/bin/env python3
"""usage: tools/seeded_matrix.py [-j N] [name ...]
Runs, for every seeded change under /verif/seeded (or the named ones), the quick check of the property it was
written against plus the checks listed under "also" in its meta.json, each against private patched copies
(tools/run_seeded.sh).  Writes seeded/RESULTS.json and seeded/RESULTS.md (the table of DESIGN.md section 8)."""
import concurrent.futures as cf
import json
import os
import re
import subprocess
import sys

ROOT = os.path.abspath(os.path.join(os.path.dirname(os.path.abspath(__file__)), ".."))
SEEDED = os.path.join(ROOT, "seeded")


def run(name, prop):
    tag = f"matrix_{name}_{prop}"
    p = subprocess.run([os.path.join(ROOT, "tools", "run_seeded.sh"), prop, os.path.join(SEEDED, name, "patch.diff"), "quick", tag],
                       capture_output=True, text=True)
    m = re.search(r"rc=(\d+) violations=(\d+)", p.stdout)
    out = open(os.path.join(ROOT, "work", f"seeded_{tag}.out")).read() if os.path.exists(os.path.join(ROOT, "work", f"seeded_{tag}.out")) else ""
    first = next((l for l in out.split("\n") if l.startswith("VIOLATION")), "")
    res = {"rc": int(m.group(1)), "violations": int(m.group(2))} if m else {"rc": -1, "violations": 0, "raw": (p.stdout + p.stderr)[-300:]}
    res["no_failing_input"] = bool(first) and first.rstrip().endswith("no-failing-input-found") and \
        all(l.rstrip().endswith("no-failing-input-found") for l in out.split("\n") if l.startswith("VIOLATION"))
    res["caught"] = res["rc"] == 1 and res["violations"] > 0
    return name, prop, res


def main():
    args = sys.argv[1:]
    jobs = 3
    if args[:1] == ["-j"]:
        jobs = int(args[1])
        args = args[2:]
    names = args or sorted(d for d in os.listdir(SEEDED) if os.path.isdir(os.path.join(SEEDED, d)))
    tasks = []
    metas = {}
    for n in names:
        meta = json.load(open(os.path.join(SEEDED, n, "meta.json")))
        metas[n] = meta
        for p in [meta["property"]] + [q for q in meta.get("also", []) if q != meta["property"]]:
            tasks.append((n, p))
    path = os.path.join(SEEDED, "RESULTS.json")
    results = json.load(open(path)) if os.path.exists(path) else {}
    with cf.ThreadPoolExecutor(jobs) as ex:
        for name, prop, res in ex.map(lambda t: run(*t), tasks):
            results.setdefault(name, {})[prop] = res
            print(name, prop, res, flush=True)
            json.dump(results, open(path, "w"), indent=1, sort_keys=True)
    lines = ["| change | written against | what it changes | first run | now (check: violations) |", "|---|---|---|---|---|"]
    for n in sorted(results):
        mp = os.path.join(SEEDED, n, "meta.json")
        if not os.path.exists(mp):
            continue
        meta = json.load(open(mp))
        first = ", ".join(f"{p}: {'caught' if c.get('rc') == 1 else 'missed'}" for p, c in meta.get("result", {}).get("checks", {}).items())
        now = ", ".join(f"{p}: {'caught (' + str(r['violations']) + ('; no-failing-input-found' if r.get('no_failing_input') else '') + ')' if r['caught'] else 'MISSED'}"
                        for p, r in sorted(results[n].items()))
        what = meta.get("summary") or meta.get("needs", "").strip().split("\n")[0][:140]
        lines.append(f"| {n} | {meta['property']} | {what} | {first} | {now} |")
    open(os.path.join(SEEDED, "RESULTS.md"), "w").write("\n".join(lines) + "\n")


if __name__ == "__main__":
    main()
