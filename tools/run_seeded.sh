#!/bin/bash
# usage: tools/run_seeded.sh <ID> <patch.diff> [tier]  — runs ./check <ID> against a private copy of /repo with the patch applied
# (used while other work is going on in /repo; the final confirmation applies the patch to /repo itself with git apply)
set -e
ID=$1; PATCH=$(realpath $2); TIER=${3:-quick}; TAG=${4:-$ID}
D=$(mktemp -d /tmp/seedrepo.XXXXXX)
cp -r /repo/cola $D/cola
(cd $D && patch -p1 -s < $PATCH)
cd /verif
set +e
COLA_SRC_ROOT=$D PYTHONPATH=$D ./check $ID $TIER > /verif/work/seeded_$TAG.out 2>&1
RC=$?
set -e
echo "rc=$RC violations=$(grep -c '^VIOLATION' /verif/work/seeded_$TAG.out)"
grep '^VIOLATION' /verif/work/seeded_$TAG.out | head -3
rm -rf $D
exit 0
