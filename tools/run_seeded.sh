#!/bin/bash
# usage: tools/run_seeded.sh <ID> <patch.diff> [tier] [tag]
# Runs ./check <ID> against a private copy of /repo's working tree with the patch applied, from a private copy of
# /verif (so generated Lean files, build outputs, evidence and replays of the mutated run never touch /verif).
# The output of the run is kept as /verif/work/seeded_<tag>.out.  Both copies are removed afterwards.
# The final confirmation of a seeded change applies the patch to /repo itself (git -C /repo apply; ./check; git checkout).
set -e
ID=$1; PATCH=$(realpath $2); TIER=${3:-quick}; TAG=${4:-$ID}
D=$(mktemp -d /tmp/seedrepo.XXXXXX)
V=$(mktemp -d /tmp/seedverif.XXXXXX)
trap 'rm -rf $D $V' EXIT
cp -r /repo/cola $D/cola
(cd $D && patch -p1 -s < $PATCH)
# the COMMITTED state of /verif (builders may be editing the working tree), plus the build cache
if [ "${SEEDED_LIVE:-0}" = 1 ]; then
  rsync -a --exclude .git --exclude work --exclude seeded /verif/ $V/
else
  git -C /verif archive HEAD | tar -x -C $V
  rm -rf $V/seeded
  mkdir -p $V/lean/.lake && rsync -a /verif/lean/.lake/ $V/lean/.lake/
fi
mkdir -p /verif/work
set +e
(cd $V && COLA_SRC_ROOT=$D PYTHONPATH=$D VERIF_SEED=${VERIF_SEED:-0} ./check $ID $TIER) > /verif/work/seeded_$TAG.out 2>&1
RC=$?
set -e
# keep the replays of the mutated run next to the output
if [ -d $V/work/replays ]; then mkdir -p /verif/work/seeded_replays/$TAG && cp -r $V/work/replays/. /verif/work/seeded_replays/$TAG/ 2>/dev/null || true; fi
echo "rc=$RC violations=$(grep -c '^VIOLATION' /verif/work/seeded_$TAG.out)"
grep '^VIOLATION' /verif/work/seeded_$TAG.out | head -3
exit 0
