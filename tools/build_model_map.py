#!/usr/bin/env python3
"""Regenerates harness/model_map.json and docs/MODEL_COVERAGE.md from /repo's working tree and /verif's sources.

For every function / method of /repo/cola (harness/translators/fingerprint.py) it records
  * its normalised-AST hash at this commit of /repo,
  * which Lean files and harness modules CITE it (by `Class.method`, by a distinctive function name, or by a
    `file.py:line` reference that falls inside it) — a mechanical search, so "cited" means the text of the model
    names the code it mirrors, nothing more,
  * which properties depend on it: `props` (direct) = F is cited in `Properties/P*`, in a Lean file those import
    directly, in `DriverP.lean` or in `harness/props/p.py`, or P's anchors in properties.jsonl name a `where` range
    overlapping F; `props_closure` = the same over the whole import closure of `Properties/P*` (C06 builds on C01's model …),
  * how it is tied: `rule-table` (plum overloads: regenerated into Gen/RuleTable.lean every run, C04/C19),
    `site-scan` (every function: AST scan for in-place and RNG sites, C17/C18), `correspondence` (cited by a model that a
    differential stream runs), `none`.
Run after model or /repo changes (`fix:` commits): tools/build_model_map.py ; commit the two files."""
import glob
import json
import os
import re
import subprocess
import sys

ROOT = os.path.dirname(os.path.dirname(os.path.abspath(__file__)))
sys.path.insert(0, os.path.join(ROOT, "harness", "translators"))
import fingerprint  # noqa: E402

LEAN = os.path.join(ROOT, "lean")
COMMON_NAMES = {"run", "init", "cond", "body", "step", "solve", "get", "set", "main", "wrapper", "matmat", "update", "export",
                "shape", "dtype", "device", "size", "copy", "add", "mul", "sum", "dot", "norm", "sqrt", "exp", "log", "pow",
                "abs", "conj", "where", "zeros", "ones", "eye", "diag", "trace", "inv", "eig", "svd", "kron", "cond_fun",
                "body_fun", "to", "flatten", "__init__", "fn", "f", "T", "H", "cg", "lanczos", "arnoldi", "gmres", "cholesky"}


def lean_files():
    fs = glob.glob(os.path.join(LEAN, "ColaVerif", "**", "*.lean"), recursive=True) + glob.glob(os.path.join(LEAN, "Driver*.lean"))
    return sorted(f for f in fs if "/Gen/" not in f)


def import_closure(files):
    imp = {}
    for f in files:
        mod = os.path.relpath(f, LEAN)[:-5].replace("/", ".")
        imp[mod] = set(re.findall(r"^import (ColaVerif\.\S+)", open(f).read(), flags=re.M))
    clo = {}

    def go(m):
        if m in clo:
            return clo[m]
        clo[m] = set()
        acc = set()
        for d in imp.get(m, ()):
            acc.add(d)
            acc |= go(d)
        clo[m] = acc
        return acc
    for m in imp:
        go(m)
    return clo


def main():
    funcs = fingerprint.functions("/repo")
    files = lean_files()
    text = {os.path.relpath(f, ROOT): open(f).read() for f in files}
    for f in sorted(glob.glob(os.path.join(ROOT, "harness", "props", "c*.py"))):
        text[os.path.relpath(f, ROOT)] = open(f).read()
    clo = import_closure(files)
    props = [f"C{i:02d}" for i in range(1, 21)]
    # which files "belong" to a property
    owner = {p: set() for p in props}      # direct: the property files, what they import directly, driver, harness module
    owner_clo = {p: set() for p in props}  # whole import closure
    direct_imp = {}
    for f in files:
        mod = os.path.relpath(f, LEAN)[:-5].replace("/", ".")
        direct_imp[mod] = set(re.findall(r"^import (ColaVerif\.\S+)", open(f).read(), flags=re.M))
    for p in props:
        roots = [m for m in clo if re.match(rf"ColaVerif\.Properties\.{p}(\.|$)", m)]
        mods = set(roots)
        near = set(roots)
        for r in roots:
            mods |= clo[r]
            near |= direct_imp.get(r, set())
        for m in mods:
            owner_clo[p].add("lean/" + m.replace(".", "/") + ".lean")
        for m in near:
            owner[p].add("lean/" + m.replace(".", "/") + ".lean")
        owner[p].add(f"harness/props/{p.lower()}.py")
        for d in glob.glob(os.path.join(LEAN, "Driver*.lean")):
            rel = os.path.relpath(d, ROOT)
            src = open(d).read()
            if re.search(rf"Properties\.{p}\b|Driver{p}\b", src) or os.path.basename(d) == f"Driver{p}.lean":
                owner[p].add(rel)
    # anchors
    anchors = {}
    file_props = {}
    for line in open(os.path.join(ROOT, "properties.jsonl")):
        d = json.loads(line)
        for f in d["anchors"].get("files", []):
            file_props.setdefault(f, []).append(d["id"])
        for m in d["anchors"].get("mechanism", []):
            for fm in re.finditer(r"(cola/[\w/]+\.py):(\d+)(?:-(\d+))?", m.get("where", "")):
                anchors.setdefault(fm.group(1), []).append((int(fm.group(2)), int(fm.group(3) or fm.group(2)), d["id"]))
    # citation patterns per function
    line_refs = {}  # file basename -> [(lo, hi, where)]
    for rel, src in text.items():
        for m in re.finditer(r"((?:cola/)?[\w/]*?(\w+\.py)):(\d+)(?:-(\d+))?", src):
            line_refs.setdefault(m.group(2), []).append((int(m.group(3)), int(m.group(4) or m.group(3)), rel))
    file_cites = {}
    for rel, src in text.items():
        if not rel.startswith("lean/"):
            continue
        for m in set(re.findall(r"\b(\w+\.py)\b", src)):
            file_cites.setdefault(m, set()).add(rel)
    out = {}
    for name, info in funcs.items():
        f, q = name.split("::")
        short = re.sub(r"\[.*$", "", q)
        base = short.split(".")[-1]
        pats = []
        if "." in short and not short.endswith("<class>"):
            pats.append(re.escape(short))
        if short.endswith(".<class>"):
            pats.append(r"\b" + re.escape(short[:-8]) + r"\b")
        elif "." not in short and base not in COMMON_NAMES and len(base) >= 6 and not base.startswith("__"):
            pats.append(r"\b" + re.escape(base) + r"\b")
        cited = set()
        for rel, src in text.items():
            if any(re.search(p, src) for p in pats):
                cited.add(rel)
        for lo, hi, rel in line_refs.get(os.path.basename(f), []):
            if lo <= info["end_lineno"] and hi >= info["lineno"] and info["lineno"] > 0 and not q.endswith("<module>"):
                cited.add(rel)
        ps = set()
        ps_clo = set()
        for p in props:
            if cited & owner[p]:
                ps.add(p)
            if cited & (owner[p] | owner_clo[p]):
                ps_clo.add(p)
        for lo, hi, pid in anchors.get(f, []):
            if lo <= info["end_lineno"] and hi >= info["lineno"]:
                ps.add(pid)
        ties = ["site-scan"] if f not in fingerprint.OUT_OF_SCOPE else []
        if info["dispatch"]:
            ties.append("rule-table")
            ps |= {"C04"}
        if any(c.startswith("lean/") for c in cited):
            ties.append("correspondence")
        fc = sorted(file_cites.get(os.path.basename(f), set()))
        if not any(c.startswith("lean/") for c in cited) and fc and not q.endswith("<module>"):
            # weaker: some Lean file names the Python FILE (e.g. "after inv.py"): the function may be modelled there without being named
            for p in props:
                if set(fc) & owner[p]:
                    ps.add(p)
                if set(fc) & (owner[p] | owner_clo[p]):
                    ps_clo.add(p)
        out[name] = {"hash": info["hash"], "lineno": info["lineno"], "cited_by": sorted(cited), "file_cited_by": fc[:12],
                     "props": sorted(ps), "props_closure": sorted(ps_clo | ps), "ties": ties}
        if f in fingerprint.OUT_OF_SCOPE:
            out[name]["out_of_scope"] = fingerprint.OUT_OF_SCOPE[f]
    head = subprocess.run(["git", "-C", "/repo", "rev-parse", "--short", "HEAD"], capture_output=True, text=True).stdout.strip()
    mm = {"recorded_at": head, "file_props": file_props, "functions": out}
    json.dump(mm, open(os.path.join(ROOT, "harness", "model_map.json"), "w"), indent=0, sort_keys=True)
    # coverage document
    rows = []
    byfile = {}
    for name, r in sorted(out.items()):
        byfile.setdefault(name.split("::")[0], []).append((name.split("::")[1], r))
    n_all = n_cited = n_scope = n_file = 0
    lines = ["# Model coverage of /repo/cola, function by function (GENERATED by tools/build_model_map.py — do not edit)",
             "",
             f"/repo at {head}.  One row per function / method / class header / module body.  **cited by** = Lean model, lemma, property or",
             "driver files and harness modules whose text names the function (`Class.method`, a distinctive function name, or a",
             "`file.py:line` reference inside it): a mechanical search, so it says which model *claims* to mirror the code; that the model",
             "behaves like the code is what the correspondence streams of the listed properties check on every run.  **ties**:",
             "`rule-table` = plum overload regenerated into `Gen/RuleTable.lean` every run (C04, C19); `site-scan` = scanned on every run",
             "for in-place and random-draw sites (C17, C18); `correspondence` = cited by a Lean file.  A function with no Lean citation is",
             "NOT modelled: its behaviour is seen only through the public calls the streams make (or not at all).  Every run hashes all",
             "functions again (`harness/translators/fingerprint.py`); a changed function is reported in the evidence of the properties in its row",
             "and makes their quick tier sample more (it is never by itself a violation).", ""]
    for f, items in sorted(byfile.items()):
        scope = fingerprint.OUT_OF_SCOPE.get(f)
        lines.append(f"## {f}" + (f" — out of scope: {scope}" if scope else ""))
        if scope:
            lines.append(f"{len(items)} entries, not hashed against models.")
            lines.append("")
            continue
        lines.append("| function | props | ties | cited by |")
        lines.append("|---|---|---|---|")
        for q, r in items:
            n_all += 1
            lean_c = [c for c in r["cited_by"] if c.startswith("lean/")]
            if lean_c:
                n_cited += 1
            cb = ", ".join(c.replace("lean/ColaVerif/", "").replace("lean/", "").replace("harness/props/", "props/") for c in r["cited_by"][:6])
            if len(r["cited_by"]) > 6:
                cb += f", … (+{len(r['cited_by']) - 6})"
            if not lean_c and r.get("file_cited_by"):
                n_file += 1
                cb = (cb + "; " if cb else "") + "file named by: " + ", ".join(c.replace("lean/ColaVerif/", "").replace("lean/", "") for c in r["file_cited_by"][:4])
            lines.append(f"| `{q}` | {' '.join(r['props'])} | {' '.join(r['ties'])} | {cb or '— (not modelled)'} |")
        lines.append("")
    unm = [n for n, r in sorted(out.items()) if not any(c.startswith("lean/") for c in r["cited_by"]) and not r.get("file_cited_by")
           and n.split("::")[0] not in fingerprint.OUT_OF_SCOPE]
    lines.insert(12, f"**Totals**: {n_all} in-scope entries; {n_cited} named by at least one Lean file; {n_file} more whose Python FILE is named by a Lean "
                     f"model (weaker: e.g. the plum overloads of `inv.py`, modelled rule by rule in `Model/Inv.lean` without being named one by one); "
                     f"{n_all - n_cited - n_file} neither (listed at the end: not modelled).")
    lines.insert(13, "")
    lines.append("## Neither named nor in a file named by any Lean file (not modelled)")
    lines.append("")
    for n in unm:
        r = out[n]
        lines.append(f"* `{n}` — props by anchor/harness: {' '.join(r['props']) or 'none'}; ties: {' '.join(r['ties'])}")
    open(os.path.join(ROOT, "docs", "MODEL_COVERAGE.md"), "w").write("\n".join(lines) + "\n")
    print(f"{len(out)} entries; in scope {n_all}; named {n_cited}; file-named {n_file}; neither {n_all - n_cited - n_file}")


if __name__ == "__main__":
    main()
