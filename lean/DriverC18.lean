import Lean.Data.Json
import ColaVerif.Model.Registry

/-!
Line-protocol driver of the registry model (C18): one JSON case per input line,
  {"id": .., "log": [ev...], "query": [objId...], "rank": [alphabetical rank of attribute id 0, 1, ...]}
  ev = ["sub", c, parent]                      subclass creation
     | ["set", c, objId, attr, val]            one `self.attr = val` on object objId of class c
  val = ["a", n] | ["t", n] | ["tup", [val...]] | ["obj", objId]
The log is folded with the model's `step` (subclass) and `setattr`; the answer lists, for every queried
object, the model's flatten leaves, its arrays, its dynamic attributes and the clauses it violates.
Run with `lake env lean --run DriverC18.lean < cases.jsonl`.
-/

open Lean (Json)
open ColaVerif.Registry

abbrev E := Except String

def jNat (j : Json) : E Nat :=
  match j.getNat? with | .ok n => pure n | .error e => throw s!"nat expected: {e}"
def jArr (j : Json) : E (Array Json) :=
  match j with | .arr a => pure a | _ => throw s!"array expected, got {j.compress}"

structure DSt where
  reg : Reg
  objs : List (Nat × Class × Fields)

def DSt.find (s : DSt) (oid : Nat) : Option (Class × Fields) :=
  (s.objs.find? (fun e => e.1 == oid)).map (·.2)

def valsOfList : List Val → Vals
  | [] => .nil
  | v :: vs => .cons v (valsOfList vs)

partial def jVal (s : DSt) (j : Json) : E Val := do
  let a ← jArr j
  match a[0]? with
  | some (.str "a") => pure (.arr (← jNat (a.getD 1 .null)))
  | some (.str "t") => pure (.atom (← jNat (a.getD 1 .null)))
  | some (.str "tup") => do
      let xs ← (← jArr (a.getD 1 .null)).toList.mapM (jVal s)
      pure (.tup (valsOfList xs))
  | some (.str "obj") => do
      let oid ← jNat (a.getD 1 .null)
      match s.find oid with
      | some (c, fs) => pure (.obj c fs)
      | none => throw s!"unknown object {oid}"
  | _ => throw s!"bad value {j.compress}"

def applyEv (s : DSt) (j : Json) : E DSt := do
  let a ← jArr j
  match a[0]? with
  | some (.str "sub") => do
      let c ← jNat (a.getD 1 .null)
      let p ← jNat (a.getD 2 .null)
      pure { s with reg := (step { reg := s.reg, objs := [] } (.subclass c p)).reg }
  | some (.str "set") => do
      let c ← jNat (a.getD 1 .null)
      let oid ← jNat (a.getD 2 .null)
      let att ← jNat (a.getD 3 .null)
      let v ← jVal s (a.getD 4 .null)
      let fs := match s.find oid with | some (_, fs) => fs | none => Fields.nil
      let res := setattr s.reg c fs att v
      pure { reg := res.1, objs := (oid, c, res.2) :: s.objs.filter (fun e => e.1 != oid) }
  | _ => throw s!"bad event {j.compress}"

def valsToList : Vals → List Val
  | .nil => []
  | .cons v vs => v :: valsToList vs

def fieldsOfList : List (Attr × Val) → Fields
  | [] => .nil
  | (a, v) :: r => .cons a v (fieldsOfList r)

/-- `tree_flatten` enumerates `sorted(vars(self))`: reorder every attribute dict by the alphabetical rank of
    its names (sent by the harness) before the model's `leaves` walks it.  Presentation only: the model's
    insertion order is an arbitrary fixed enumeration. -/
partial def sortVal (rank : Nat → Nat) : Val → Val
  | .tup vs => .tup (valsOfList ((valsToList vs).map (sortVal rank)))
  | .obj c fs =>
      let l := (Fields.toList fs).map (fun e => (e.1, sortVal rank e.2))
      .obj c (fieldsOfList (l.mergeSort (fun x y => rank x.1 ≤ rank y.1)))
  | v => v

def showVal : Val → String
  | .arr n => s!"[\"a\",{n}]"
  | .atom n => s!"[\"t\",{n}]"
  | _ => "[\"?\"]"

def showList (xs : List String) : String := "[" ++ ",".intercalate xs ++ "]"

def handle (j : Json) : E String := do
  let id := (j.getObjVal? "id").toOption.getD .null
  let log ← jArr ((j.getObjVal? "log").toOption.getD .null)
  let query ← jArr ((j.getObjVal? "query").toOption.getD .null)
  let ranks ← (← jArr ((j.getObjVal? "rank").toOption.getD (.arr #[]))).mapM jNat
  let rank : Nat → Nat := fun a => ranks.getD a a
  let mut s : DSt := { reg := Reg.base, objs := [] }
  for ev in log do
    s ← applyEv s ev
  let mut outs : List String := []
  for q in query do
    let oid ← jNat q
    match s.find oid with
    | none => throw s!"unknown object {oid}"
    | some (c, fs) =>
      let o : Obj := ⟨c, fs⟩
      let leaves := (Val.leaves s.reg (sortVal rank (.obj c fs))).map showVal
      let arrays := (Val.arrays (.obj c fs)).map showVal
      let dyn := (dynAttrs s.reg o).map (fun e => toString e.1)
      let arrA := (arrAttrs s.reg o).map (fun e => toString e.1)
      let flat := match flatten s.reg o with | some (ch, _) => toString ch.length | none => "null"
      let cl := (clauses s.reg o).map (fun c => "\"" ++ c ++ "\"")
      outs := outs ++ [s!"\{\"obj\":{oid},\"leaves\":{showList leaves},\"arrays\":{showList arrays},\"dyn\":{showList dyn},\"arrAttrs\":{showList arrA},\"children\":{flat},\"clauses\":{showList cl}}"]
  return "{\"id\":" ++ id.compress ++ ",\"objs\":" ++ showList outs ++ "}"

partial def loop (inp out : IO.FS.Stream) : IO Unit := do
  let line ← inp.getLine
  if line.isEmpty then return
  let t := line.trimAscii.toString
  if !t.isEmpty then
    let ans := match Json.parse t with
      | .error e => "{\"error\":" ++ (Json.str e).compress ++ "}"
      | .ok j => match handle j with
          | .ok s => s
          | .error e => "{\"id\":" ++ ((j.getObjVal? "id").toOption.getD .null).compress ++ ",\"error\":" ++ (Json.str e).compress ++ "}"
    out.putStrLn ans
  loop inp out

def main : IO Unit := do
  let out ← IO.getStdout
  loop (← IO.getStdin) out
  out.flush
