/-  C04, part D: per-function kernel evaluations (split over several modules only so that lake
    checks them in parallel; statement and reading guide are in Properties/C04.lean). -/
import ColaVerif.Model.Dispatch
import ColaVerif.Gen.RuleTable

namespace ColaVerif.Properties.C04
open ColaVerif.Dispatch ColaVerif.Gen.RuleTable

theorem C04_dot : ∀ t ∈ lattice_dot, okOn hier table_dot clauses_dot t = true := by decide +kernel
theorem C04_eig : ∀ t ∈ lattice_eig, okOn hier table_eig clauses_eig t = true := by decide +kernel
theorem C04_svd : ∀ t ∈ lattice_svd, okOn hier table_svd clauses_svd t = true := by decide +kernel

end ColaVerif.Properties.C04
