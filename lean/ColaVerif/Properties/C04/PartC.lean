/-  C04, part C: per-function kernel evaluations (split over several modules only so that lake
    checks them in parallel; statement and reading guide are in Properties/C04.lean). -/
import ColaVerif.Model.Dispatch
import ColaVerif.Gen.RuleTable

namespace ColaVerif.Properties.C04
open ColaVerif.Dispatch ColaVerif.Gen.RuleTable

theorem C04_kronsum : ∀ t ∈ lattice_kronsum, okOn hier table_kronsum clauses_kronsum t = true := by decide +kernel
theorem C04_pinv : ∀ t ∈ lattice_pinv, okOn hier table_pinv clauses_pinv t = true := by decide +kernel
theorem C04_trace : ∀ t ∈ lattice_trace, okOn hier table_trace clauses_trace t = true := by decide +kernel
theorem C04_diag : ∀ t ∈ lattice_diag, okOn hier table_diag clauses_diag t = true := by decide +kernel

end ColaVerif.Properties.C04
