/-  C04, part G: checks on the generated tables themselves. -/
import ColaVerif.Model.Dispatch
import ColaVerif.Gen.RuleTable

namespace ColaVerif.Properties.C04
open ColaVerif.Dispatch ColaVerif.Gen.RuleTable

/-- the packed subclass table used by the evaluator is the readable list `anc` -/
theorem C04_hier_wf : hier.wf = true := by decide +kernel

/-- the theorems are about every function in the live registry (a function added to cola's
    dispatcher shows up in `allFunctions` and breaks this until it gets its own theorem) -/
theorem C04_covers_registry : allFunctions.map (·.1) =
    ["add", "adjoint", "apply_unary", "cholesky", "diag", "dot", "eig", "exp", "get_annotations", "inv",
     "inverse", "isqrt", "kron", "kronsum", "log", "mul", "nullspace", "pinv", "plu", "pow", "slogdet",
     "sqrt", "svd", "trace", "transpose"] := by decide +kernel

/-- every active clause class is witnessed: some lattice tuple in it is really not resolved
    (so a clause cannot silently outlive the defect it names) -/
def clauseWitnessed (e : String × List Sig × List String × List Tup × List Clause) : Bool :=
  e.2.2.2.2.all fun c => e.2.2.2.1.any fun t => c.has hier t && !(resolve hier e.2.1 t).isUnique

theorem C04_clauses_witnessed : allFunctions.all clauseWitnessed = true := by decide +kernel

/-- on every live table `≤` is a preorder, so `resolve_minimal` applies -/
theorem C04_tables_preorder : allFunctions.all (fun e => preorderOn hier e.2.1) = true := by decide +kernel

end ColaVerif.Properties.C04
