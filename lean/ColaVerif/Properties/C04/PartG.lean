/-  C04, part G: checks on the generated tables themselves. -/
import ColaVerif.Model.Dispatch
import ColaVerif.Gen.RuleTable

namespace ColaVerif.Properties.C04
open ColaVerif.Dispatch ColaVerif.Gen.RuleTable

/-- the packed subclass table used by the evaluator is the readable list `anc` -/
theorem C04_hier_wf : hier.wf = true := by decide +kernel

/-- the theorems are about every function in the live registry (a function added to cola's
    dispatcher shows up in `allFunctions` and breaks this until it gets its own theorem) -/
theorem C04_covers_registry : allFunctions.map (·.1) =
    ["add", "adjoint", "apply_unary", "cholesky", "diag", "dot", "eig", "exp", "get_annotations", "inv",
     "inverse", "isqrt", "kron", "kronsum", "log", "mul", "nullspace", "pinv", "plu", "pow", "slogdet",
     "sqrt", "svd", "trace", "transpose"] := by decide +kernel

/-- **No recorded exception.**  The generated table carries NO clause for any function: every ambiguity that was
    ever recorded has been repaired in /repo, so the `excluded` disjunct of `okOn` is `false` everywhere and
    `C04_f` reads `(resolve hier table_f t).isUnique = true` (see `C04_total_unambiguous_noexcept` in
    Properties/C04.lean).  Deliberately brittle: when a clause of `CLAUSES` (harness/translators/dump_rules.py)
    becomes active again, `clauses_f` is non-empty, this theorem fails and the gate breaks — recording an
    exception then needs an explicit restatement here, it cannot happen silently. -/
theorem C04_no_recorded_exception : ∀ e ∈ allFunctions, e.2.2.2.2 = [] := by
  intro e he
  simp only [allFunctions, List.mem_cons, List.not_mem_nil, or_false] at he
  rcases he with rfl | rfl | rfl | rfl | rfl | rfl | rfl | rfl | rfl | rfl | rfl | rfl | rfl | rfl | rfl
    | rfl | rfl | rfl | rfl | rfl | rfl | rfl | rfl | rfl | rfl <;> rfl

/-- every active clause class is witnessed: some lattice tuple in it is really not resolved
    (so a clause cannot silently outlive the defect it names) -/
def clauseWitnessed (e : String × List Sig × List String × List Tup × List Clause) : Bool :=
  e.2.2.2.2.all fun c => e.2.2.2.1.any fun t => c.has hier t && !(resolve hier e.2.1 t).isUnique

/-- NOT in the audited list of Properties/C04.lean (trivially true on the current tables).  Kept for its name only: with `C04_no_recorded_exception` there is no active clause, so this is a
    corollary (it says something only for a table with a recorded clause; the non-vacuous facts are
    `C04_no_recorded_exception` and the regression examples of PartH). -/
theorem C04_clauses_witnessed : allFunctions.all clauseWitnessed = true := by
  refine List.all_eq_true.mpr fun e he => ?_
  simp [clauseWitnessed, C04_no_recorded_exception e he]

/-- on every live table `≤` is a preorder, so `resolve_minimal` applies -/
theorem C04_tables_preorder : allFunctions.all (fun e => preorderOn hier e.2.1) = true := by decide +kernel

end ColaVerif.Properties.C04
