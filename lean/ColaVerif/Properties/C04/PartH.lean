/-  C04, part H: REGRESSION examples.  The generated table of today has no ambiguous tuple (PartG:
    `C04_no_recorded_exception`), so nothing in Parts A–G shows that the model resolver CAN answer
    `.ambiguous` on signatures cola really had.  Here the pre-fix rows of three dispatched functions
    are kept as literals (they are NOT regenerated; the rows are copied from /repo's history):

    * `inv_pre`  = all 14 rules of `cola/linalg/inverse/inv.py` at /repo commit f0220bc^ (the parent of
      "fix: inv(A, GMRES()) on structured operators no longer ties with the structural rules");
      `inv_post` = the same file at f0220bc (row 0 gets `precedence=-1`, nothing else changes);
    * `dot_pre`  = all 6 rules of `dot` in `cola/fns.py` at 1c4ad9a^ (parent of "fix: products with Identity
      resolve to a unique rule"); `dot_post` = the 7 rules at 1c4ad9a (= today's `table_dot` up to class ids);
    * `kron_pre` = all 5 rules of `kron` in `cola/fns.py` at b369c4a^ (parent of "fix: kron(Kronecker, Kronecker)
      and kronsum(KronSum, KronSum) resolve to a unique rule"); `kron_post` = the 6 rules at b369c4a.

    The class hierarchy `rhier` is a hand-reduced but faithful part of cola's: the classes the three
    tables mention, plus `Dense` and one runtime parametrisation each of the `@parametric` kinds
    `Kronecker` and `Product` (instances have class `Kronecker[Dense, Dense] ≤ Kronecker`).
    Everything is closed by kernel evaluation of the same `resolve` that Parts A–F evaluate. -/
import ColaVerif.Model.Dispatch

namespace ColaVerif.Properties.C04
open ColaVerif.Dispatch

/-- ancestor mask from the list of super-classes (incl. the class itself and `Any` = 0) -/
def Regression.maskOf (supers : List Nat) : Nat := supers.foldl (fun a j => a ||| (1 <<< j)) 0

open Regression in
/-- reduced class table (same conventions as `Gen/RuleTable.lean: anc`) -/
def Regression.ranc : List Nat := [
  maskOf [0],            -- 0  Any
  maskOf [0, 1],         -- 1  LinearOperator
  maskOf [0, 1, 2],      -- 2  Dense
  maskOf [0, 1, 3],      -- 3  Identity
  maskOf [0, 1, 4],      -- 4  ScalarMul
  maskOf [0, 1, 5],      -- 5  Permutation
  maskOf [0, 1, 6],      -- 6  Product            (@parametric wrapper)
  maskOf [0, 1, 7],      -- 7  BlockDiag
  maskOf [0, 1, 8],      -- 8  Kronecker          (@parametric wrapper)
  maskOf [0, 1, 9],      -- 9  Diagonal
  maskOf [0, 1, 10],     -- 10 Triangular
  maskOf [0, 1, 8, 11],  -- 11 Kronecker[Dense, Dense]
  maskOf [0, 1, 6, 12],  -- 12 Product[Dense, Dense]
  maskOf [0, 13],        -- 13 Algorithm
  maskOf [0, 13, 14],    -- 14 Auto
  maskOf [0, 13, 15],    -- 15 Cholesky
  maskOf [0, 13, 16],    -- 16 LU
  maskOf [0, 13, 17],    -- 17 CG
  maskOf [0, 13, 18]     -- 18 GMRES
]

def Regression.rhier : Hier := ⟨Regression.ranc, 19, packMasks 19 Regression.ranc⟩

namespace Regression

/-- `inv` at f0220bc^: `inv(A: LinearOperator, alg: GMRES)` (row 0) has the default precedence 0 while its
    siblings for CG / Auto / Cholesky / LU have -1.  Condition bit 0: `A.isa(Unitary)` (row 5),
    bit 1: all factors of the Product are square (row 9). -/
def inv_pre : List Sig := [
  ⟨[[1], [18]], none, 0, none⟩,        -- 0: (LinearOperator, GMRES)          inv.py:61   @dispatch
  ⟨[[1], [17]], none, (-1), none⟩,     -- 1: (LinearOperator, CG)             inv.py:66   precedence=-1
  ⟨[[1], [14]], none, (-1), none⟩,     -- 2: (LinearOperator, Auto)           inv.py:73   precedence=-1
  ⟨[[1], [15]], none, (-1), none⟩,     -- 3: (LinearOperator, Cholesky)       inv.py:95   precedence=-1
  ⟨[[1], [16]], none, (-1), none⟩,     -- 4: (LinearOperator, LU)             inv.py:102  precedence=-1
  ⟨[[1], [13]], none, 0, (some 0)⟩,    -- 5: (LinearOperator, Algorithm)      inv.py:108  cond Unitary
  ⟨[[3], [13]], none, 0, none⟩,        -- 6: (Identity, Algorithm)            inv.py:113
  ⟨[[4], [13]], none, 0, none⟩,        -- 7: (ScalarMul, Algorithm)           inv.py:118
  ⟨[[5], [13]], none, 0, none⟩,        -- 8: (Permutation, Algorithm)         inv.py:123
  ⟨[[6], [13]], none, 0, (some 1)⟩,    -- 9: (Product, Algorithm)             inv.py:128  cond square factors
  ⟨[[7], [13]], none, 0, none⟩,        -- 10: (BlockDiag, Algorithm)          inv.py:134
  ⟨[[8], [13]], none, 0, none⟩,        -- 11: (Kronecker, Algorithm)          inv.py:139
  ⟨[[9], [13]], none, 0, none⟩,        -- 12: (Diagonal, Algorithm)           inv.py:144
  ⟨[[10], [13]], none, 0, none⟩        -- 13: (Triangular, Algorithm)         inv.py:149
]

/-- `inv` at f0220bc: the fix is `@dispatch(precedence=-1)` on row 0 -/
def inv_post : List Sig := (⟨[[1], [18]], none, (-1), none⟩ : Sig) :: inv_pre.tail

/-- runtime classes with a structural `inv` rule (for the @parametric Kronecker both the wrapper and the
    class of an actual instance) -/
def structured : List Nat := [3, 4, 5, 7, 8, 9, 10, 11]

/-- `dot` at 1c4ad9a^ -/
def dot_pre : List Sig := [
  ⟨[[1], [1]], none, 0, none⟩,   -- 0: (LinearOperator, LinearOperator)  fns.py:63
  ⟨[[6], [1]], none, 0, none⟩,   -- 1: (Product, LinearOperator)         fns.py:68
  ⟨[[1], [6]], none, 0, none⟩,   -- 2: (LinearOperator, Product)         fns.py:73
  ⟨[[6], [6]], none, 0, none⟩,   -- 3: (Product, Product)                fns.py:78
  ⟨[[0], [3]], none, 0, none⟩,   -- 4: (Any, Identity)                   fns.py:83
  ⟨[[3], [0]], none, 0, none⟩    -- 5: (Identity, Any)                   fns.py:88
]

/-- `dot` at 1c4ad9a: the Identity rules are typed, get `precedence=1`, and (Identity, Identity) is added -/
def dot_post : List Sig := [
  ⟨[[1], [1]], none, 0, none⟩,
  ⟨[[6], [1]], none, 0, none⟩,
  ⟨[[1], [6]], none, 0, none⟩,
  ⟨[[6], [6]], none, 0, none⟩,
  ⟨[[1], [3]], none, 1, none⟩,   -- 4: (LinearOperator, Identity)  precedence=1
  ⟨[[3], [1]], none, 1, none⟩,   -- 5: (Identity, LinearOperator)  precedence=1
  ⟨[[3], [3]], none, 1, none⟩    -- 6: (Identity, Identity)        precedence=1
]

/-- every operator class of `rhier` -/
def kinds : List Nat := [1, 2, 3, 4, 5, 7, 8, 9, 10, 11, 12]

/-- `kron` at b369c4a^ -/
def kron_pre : List Sig := [
  ⟨[[0], [0]], none, 0, none⟩,   -- 0: (Any, Any)                        fns.py:203
  ⟨[[1], [1]], none, 0, none⟩,   -- 1: (LinearOperator, LinearOperator)  fns.py:209
  ⟨[[9], [9]], none, 0, none⟩,   -- 2: (Diagonal, Diagonal)              fns.py:214
  ⟨[[8], [1]], none, 0, none⟩,   -- 3: (Kronecker, LinearOperator)       fns.py:220
  ⟨[[1], [8]], none, 0, none⟩    -- 4: (LinearOperator, Kronecker)       fns.py:225
]

/-- `kron` at b369c4a: the pair rule is appended -/
def kron_post : List Sig := kron_pre ++ [⟨[[8], [8]], none, 0, none⟩]

end Regression

open Regression

/-- the reduced hierarchy is well formed (packed table = readable table) -/
theorem C04_regression_hier_wf : rhier.wf = true := by decide +kernel

/-- **f0220bc^**: `inv(<structured>, GMRES())` is ambiguous for every structured kind, whatever the value of the
    Unitary condition: rows 0 (LinearOperator, GMRES) and the structural (kind, Algorithm) row are incomparable
    and both have precedence 0.  (For a Product with square factors the `cond` bonus of row 9 decided, so that
    case was never ambiguous: last conjunct.) -/
theorem C04_regression_inv_ambiguous :
    (∀ k ∈ structured, ∀ c ∈ [0, 1], resolve rhier inv_pre ⟨[k, 18], c⟩ = .ambiguous) ∧
    resolve rhier inv_pre ⟨[12, 18], 2⟩ = .unique 9 := by decide +kernel

/-- **f0220bc**: with `precedence=-1` on the GMRES base rule every one of those tuples selects a unique rule — the
    structural one (`Identity` → row 6, an actual `Kronecker[Dense, Dense]` instance → row 11); the other
    algorithms were unaffected in both tables. -/
theorem C04_regression_inv_fixed :
    resolve rhier inv_post ⟨[3, 18], 0⟩ = .unique 6 ∧ resolve rhier inv_post ⟨[11, 18], 0⟩ = .unique 11 ∧
    (∀ k ∈ structured, ∀ c ∈ [0, 1], (resolve rhier inv_post ⟨[k, 18], c⟩).isUnique = true) ∧
    (∀ k ∈ structured, ∀ a ∈ [14, 15, 16, 17], ∀ c ∈ [0, 1],
      (resolve rhier inv_pre ⟨[k, a], c⟩).isUnique = true ∧
      resolve rhier inv_post ⟨[k, a], c⟩ = resolve rhier inv_pre ⟨[k, a], c⟩) := by decide +kernel

/-- **1c4ad9a^**: `A @ Identity` and `Identity @ A` are ambiguous for EVERY operator class `A` (incl. `I @ I`):
    (Any, Identity) and (LinearOperator, LinearOperator) are incomparable. -/
theorem C04_regression_dot_ambiguous :
    ∀ k ∈ kinds, resolve rhier dot_pre ⟨[k, 3], 0⟩ = .ambiguous ∧ resolve rhier dot_pre ⟨[3, k], 0⟩ = .ambiguous := by
  decide +kernel

/-- **1c4ad9a**: the typed Identity rules with precedence 1 and the (Identity, Identity) tie-breaker make every pair
    of operator classes resolve uniquely; `Dense @ I` → row 4, `I @ Dense` → row 5, `I @ I` → row 6. -/
theorem C04_regression_dot_fixed :
    resolve rhier dot_post ⟨[2, 3], 0⟩ = .unique 4 ∧ resolve rhier dot_post ⟨[3, 2], 0⟩ = .unique 5 ∧
    resolve rhier dot_post ⟨[3, 3], 0⟩ = .unique 6 ∧
    ∀ a ∈ kinds, ∀ b ∈ kinds, (resolve rhier dot_post ⟨[a, b], 0⟩).isUnique = true := by decide +kernel

/-- **b369c4a^**: `kron(Kronecker, Kronecker)` is ambiguous (wrapper class and actual instance class alike) -/
theorem C04_regression_kron_ambiguous :
    ∀ a ∈ [8, 11], ∀ b ∈ [8, 11], resolve rhier kron_pre ⟨[a, b], 0⟩ = .ambiguous := by decide +kernel

/-- **b369c4a**: the appended pair rule (row 5) is selected; every pair of operator classes resolves uniquely -/
theorem C04_regression_kron_fixed :
    (∀ a ∈ [8, 11], ∀ b ∈ [8, 11], resolve rhier kron_post ⟨[a, b], 0⟩ = .unique 5) ∧
    ∀ a ∈ kinds, ∀ b ∈ kinds, (resolve rhier kron_post ⟨[a, b], 0⟩).isUnique = true := by decide +kernel

end ColaVerif.Properties.C04
