/-  C04, part H: REGRESSION examples.  The generated table of today has no ambiguous tuple (PartG:
    `C04_no_recorded_exception`), so nothing in Parts A–G shows that the model resolver CAN answer
    `.ambiguous` on signatures cola really had.  Here the pre-fix rows of three dispatched functions
    are evaluated.  Since round 5 the tables are NOT hand copies any more: `PartHTables.lean` is GENERATED on
    every run of `./check C04` by `harness/translators/dump_rules.py: regression_history` from /repo's git
    history (`git archive <commit>^ cola` / `git archive <commit> cola`, plum's own registration run on the
    extracted tree), and `harness/props/c04.py` compares the `_post` tables with today's generated
    `Gen/RuleTable.lean` data up to class ids (evidence key `regression_tables.post_equals_today`):

    * `inv_pre`  = all 14 rules of `cola/linalg/inverse/inv.py` at /repo commit f0220bc^ (the parent of
      "fix: inv(A, GMRES()) on structured operators no longer ties with the structural rules");
      `inv_post` = the same file at f0220bc (row 0 gets `precedence=-1`, nothing else changes);
    * `dot_pre`  = all 6 rules of `dot` in `cola/fns.py` at 1c4ad9a^ (parent of "fix: products with Identity
      resolve to a unique rule"); `dot_post` = the 7 rules at 1c4ad9a;
    * `kron_pre` = all 5 rules of `kron` in `cola/fns.py` at b369c4a^ (parent of "fix: kron(Kronecker, Kronecker)
      and kronsum(KronSum, KronSum) resolve to a unique rule"); `kron_post` = the 6 rules at b369c4a.

    The class hierarchy `rhier` (generated too: `issubclass` on the historical trees) is the part of cola's on the
    classes the three tables mention, plus `Dense` and one runtime parametrisation each of the `@parametric` kinds
    `Kronecker` and `Product` (instances have class `Kronecker[Dense, Dense] ≤ Kronecker`).  Hand-written here:
    the index lists `structured` / `kinds` and the statements.
    Everything is closed by kernel evaluation of the same `resolve` that Parts A–F evaluate.  That plum's REAL
    resolver answered the same on the historical trees is `PartI.lean`. -/
import ColaVerif.Model.Dispatch
import ColaVerif.Properties.C04.PartHTables

namespace ColaVerif.Properties.C04
open ColaVerif.Dispatch

namespace Regression

/-- runtime classes with a structural `inv` rule (for the @parametric Kronecker both the wrapper and the
    class of an actual instance); ids = positions in `rnames` -/
def structured : List Nat := [3, 4, 5, 7, 8, 9, 10, 11]

/-- every operator class of `rhier` -/
def kinds : List Nat := [1, 2, 3, 4, 5, 7, 8, 9, 10, 11, 12]

end Regression

open Regression

/-- the reduced hierarchy is well formed (packed table = readable table) -/
theorem C04_regression_hier_wf : rhier.wf = true := by decide +kernel

/-- **f0220bc^**: `inv(<structured>, GMRES())` is ambiguous for every structured kind, whatever the value of the
    Unitary condition: rows 0 (LinearOperator, GMRES) and the structural (kind, Algorithm) row are incomparable
    and both have precedence 0.  (For a Product with square factors the `cond` bonus of row 9 decided, so that
    case was never ambiguous: last conjunct.) -/
theorem C04_regression_inv_ambiguous :
    (∀ k ∈ structured, ∀ c ∈ [0, 1], resolve rhier inv_pre ⟨[k, 18], c⟩ = .ambiguous) ∧
    resolve rhier inv_pre ⟨[12, 18], 2⟩ = .unique 9 := by decide +kernel

/-- **f0220bc**: with `precedence=-1` on the GMRES base rule every one of those tuples selects a unique rule — the
    structural one (`Identity` → row 6, an actual `Kronecker[Dense, Dense]` instance → row 11); the other
    algorithms were unaffected in both tables. -/
theorem C04_regression_inv_fixed :
    resolve rhier inv_post ⟨[3, 18], 0⟩ = .unique 6 ∧ resolve rhier inv_post ⟨[11, 18], 0⟩ = .unique 11 ∧
    (∀ k ∈ structured, ∀ c ∈ [0, 1], (resolve rhier inv_post ⟨[k, 18], c⟩).isUnique = true) ∧
    (∀ k ∈ structured, ∀ a ∈ [14, 15, 16, 17], ∀ c ∈ [0, 1],
      (resolve rhier inv_pre ⟨[k, a], c⟩).isUnique = true ∧
      resolve rhier inv_post ⟨[k, a], c⟩ = resolve rhier inv_pre ⟨[k, a], c⟩) := by decide +kernel

/-- **1c4ad9a^**: `A @ Identity` and `Identity @ A` are ambiguous for EVERY operator class `A` (incl. `I @ I`):
    (Any, Identity) and (LinearOperator, LinearOperator) are incomparable. -/
theorem C04_regression_dot_ambiguous :
    ∀ k ∈ kinds, resolve rhier dot_pre ⟨[k, 3], 0⟩ = .ambiguous ∧ resolve rhier dot_pre ⟨[3, k], 0⟩ = .ambiguous := by
  decide +kernel

/-- **1c4ad9a**: the typed Identity rules with precedence 1 and the (Identity, Identity) tie-breaker make every pair
    of operator classes resolve uniquely; `Dense @ I` → row 4, `I @ Dense` → row 5, `I @ I` → row 6. -/
theorem C04_regression_dot_fixed :
    resolve rhier dot_post ⟨[2, 3], 0⟩ = .unique 4 ∧ resolve rhier dot_post ⟨[3, 2], 0⟩ = .unique 5 ∧
    resolve rhier dot_post ⟨[3, 3], 0⟩ = .unique 6 ∧
    ∀ a ∈ kinds, ∀ b ∈ kinds, (resolve rhier dot_post ⟨[a, b], 0⟩).isUnique = true := by decide +kernel

/-- **b369c4a^**: `kron(Kronecker, Kronecker)` is ambiguous (wrapper class and actual instance class alike) -/
theorem C04_regression_kron_ambiguous :
    ∀ a ∈ [8, 11], ∀ b ∈ [8, 11], resolve rhier kron_pre ⟨[a, b], 0⟩ = .ambiguous := by decide +kernel

/-- **b369c4a**: the appended pair rule (row 5) is selected; every pair of operator classes resolves uniquely -/
theorem C04_regression_kron_fixed :
    (∀ a ∈ [8, 11], ∀ b ∈ [8, 11], resolve rhier kron_post ⟨[a, b], 0⟩ = .unique 5) ∧
    ∀ a ∈ kinds, ∀ b ∈ kinds, (resolve rhier kron_post ⟨[a, b], 0⟩).isUnique = true := by decide +kernel

end ColaVerif.Properties.C04
