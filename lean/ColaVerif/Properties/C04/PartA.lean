/-  C04, part A: per-function kernel evaluations (split over several modules only so that lake
    checks them in parallel; statement and reading guide are in Properties/C04.lean). -/
import ColaVerif.Model.Dispatch
import ColaVerif.Gen.RuleTable

namespace ColaVerif.Properties.C04
open ColaVerif.Dispatch ColaVerif.Gen.RuleTable

theorem C04_add : ∀ t ∈ lattice_add, okOn hier table_add clauses_add t = true := by decide +kernel
theorem C04_adjoint : ∀ t ∈ lattice_adjoint, okOn hier table_adjoint clauses_adjoint t = true := by decide +kernel
theorem C04_cholesky : ∀ t ∈ lattice_cholesky, okOn hier table_cholesky clauses_cholesky t = true := by decide +kernel
theorem C04_plu : ∀ t ∈ lattice_plu, okOn hier table_plu clauses_plu t = true := by decide +kernel
theorem C04_get_annotations : ∀ t ∈ lattice_get_annotations, okOn hier table_get_annotations clauses_get_annotations t = true := by decide +kernel
theorem C04_inverse : ∀ t ∈ lattice_inverse, okOn hier table_inverse clauses_inverse t = true := by decide +kernel

end ColaVerif.Properties.C04
