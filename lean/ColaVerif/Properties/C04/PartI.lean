/-  C04, part I (round 5): the regression tables of `PartHTables.lean` against plum's REAL resolver on the
    HISTORICAL trees.  `<fn>_pre_observed` / `<fn>_post_observed` (generated, see `PartHTables.lean`) list, for every
    distinct (argument classes, condition bits) that a call with real instances reached on the tree extracted from
    /repo's history, what plum answered there (`.unique i` = the i-th registered signature, `.ambiguous` =
    `AmbiguousLookupError`, `.notFound`).  The theorems say the Lean model resolver gives the same answer on every one
    of them, before and after each repair — so the `.ambiguous` of `C04_regression_*_ambiguous` is not only what the
    MODEL says about rows copied from history, it is what cola DID at that commit. -/
import ColaVerif.Model.Dispatch
import ColaVerif.Properties.C04.PartH

namespace ColaVerif.Properties.C04
open ColaVerif.Dispatch Regression

/-- model = real plum on every observed tuple of a table -/
def Regression.agrees (table : List Sig) (obs : List (Tup × Res)) : Bool :=
  obs.all fun p => resolve rhier table p.1 == p.2

/-- number of observed tuples plum could not resolve uniquely -/
def Regression.failures (obs : List (Tup × Res)) : Nat := (obs.filter fun p => !p.2.isUnique).length

/-- **f0220bc^ / f0220bc, real resolver**: on all observed `inv` tuples the model answers what plum answered on the
    historical tree; before the repair plum raised `AmbiguousLookupError` on some of them (e.g. `inv(Identity, GMRES())`,
    `inv(Kronecker[Dense, Dense], GMRES())`), after it on none. -/
theorem C04_regression_inv_observed :
    agrees inv_pre inv_pre_observed = true ∧ agrees inv_post inv_post_observed = true ∧
    (⟨[3, 18], 1⟩, Res.ambiguous) ∈ inv_pre_observed ∧ (⟨[11, 18], 0⟩, Res.ambiguous) ∈ inv_pre_observed ∧
    0 < failures inv_pre_observed ∧ failures inv_post_observed = 0 ∧
    inv_post_observed.map (·.1) = inv_pre_observed.map (·.1) := by decide +kernel

/-- **1c4ad9a^ / 1c4ad9a, real resolver**: the same for `dot` (`Dense @ Identity`, `Identity @ Identity` raised before). -/
theorem C04_regression_dot_observed :
    agrees dot_pre dot_pre_observed = true ∧ agrees dot_post dot_post_observed = true ∧
    (⟨[2, 3], 0⟩, Res.ambiguous) ∈ dot_pre_observed ∧ (⟨[3, 3], 0⟩, Res.ambiguous) ∈ dot_pre_observed ∧
    0 < failures dot_pre_observed ∧ failures dot_post_observed = 0 ∧
    dot_post_observed.map (·.1) = dot_pre_observed.map (·.1) := by decide +kernel

/-- **b369c4a^ / b369c4a, real resolver**: the same for `kron` (`kron(Kronecker[Dense, Dense], Kronecker[Dense, Dense])`
    raised before). -/
theorem C04_regression_kron_observed :
    agrees kron_pre kron_pre_observed = true ∧ agrees kron_post kron_post_observed = true ∧
    (⟨[11, 11], 0⟩, Res.ambiguous) ∈ kron_pre_observed ∧
    0 < failures kron_pre_observed ∧ failures kron_post_observed = 0 ∧
    kron_post_observed.map (·.1) = kron_pre_observed.map (·.1) := by decide +kernel

end ColaVerif.Properties.C04

open ColaVerif.Properties.C04 in
#print axioms C04_regression_inv_observed
open ColaVerif.Properties.C04 in
#print axioms C04_regression_dot_observed
open ColaVerif.Properties.C04 in
#print axioms C04_regression_kron_observed
