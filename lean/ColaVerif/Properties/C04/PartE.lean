/-  C04, part E: per-function kernel evaluations (split over several modules only so that lake
    checks them in parallel; statement and reading guide are in Properties/C04.lean). -/
import ColaVerif.Model.Dispatch
import ColaVerif.Gen.RuleTable

namespace ColaVerif.Properties.C04
open ColaVerif.Dispatch ColaVerif.Gen.RuleTable

theorem C04_slogdet : ∀ t ∈ lattice_slogdet, okOn hier table_slogdet clauses_slogdet t = true := by decide +kernel
theorem C04_inv : ∀ t ∈ lattice_inv, okOn hier table_inv clauses_inv t = true := by decide +kernel

end ColaVerif.Properties.C04
