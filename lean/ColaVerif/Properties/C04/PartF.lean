/-  C04, part F: per-function kernel evaluations (split over several modules only so that lake
    checks them in parallel; statement and reading guide are in Properties/C04.lean). -/
import ColaVerif.Model.Dispatch
import ColaVerif.Gen.RuleTable

namespace ColaVerif.Properties.C04
open ColaVerif.Dispatch ColaVerif.Gen.RuleTable

theorem C04_pow : ∀ t ∈ lattice_pow, okOn hier table_pow clauses_pow t = true := by decide +kernel
theorem C04_apply_unary : ∀ t ∈ lattice_apply_unary, okOn hier table_apply_unary clauses_apply_unary t = true := by decide +kernel
theorem C04_exp : ∀ t ∈ lattice_exp, okOn hier table_exp clauses_exp t = true := by decide +kernel
theorem C04_log : ∀ t ∈ lattice_log, okOn hier table_log clauses_log t = true := by decide +kernel
theorem C04_sqrt : ∀ t ∈ lattice_sqrt, okOn hier table_sqrt clauses_sqrt t = true := by decide +kernel
theorem C04_isqrt : ∀ t ∈ lattice_isqrt, okOn hier table_isqrt clauses_isqrt t = true := by decide +kernel

end ColaVerif.Properties.C04
