/-  C04, part B: per-function kernel evaluations (split over several modules only so that lake
    checks them in parallel; statement and reading guide are in Properties/C04.lean). -/
import ColaVerif.Model.Dispatch
import ColaVerif.Gen.RuleTable

namespace ColaVerif.Properties.C04
open ColaVerif.Dispatch ColaVerif.Gen.RuleTable

theorem C04_kron : ∀ t ∈ lattice_kron, okOn hier table_kron clauses_kron t = true := by decide +kernel
theorem C04_transpose : ∀ t ∈ lattice_transpose, okOn hier table_transpose clauses_transpose t = true := by decide +kernel
theorem C04_mul : ∀ t ∈ lattice_mul, okOn hier table_mul clauses_mul t = true := by decide +kernel
theorem C04_nullspace : ∀ t ∈ lattice_nullspace, okOn hier table_nullspace clauses_nullspace t = true := by decide +kernel

end ColaVerif.Properties.C04
