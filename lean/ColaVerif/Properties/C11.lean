import ColaVerif.Lemmas.DecompTotal
import ColaVerif.Lemmas.DecompExecSound
import ColaVerif.Lemmas.ExactFactorInstances
import Mathlib.Data.Real.Star

/-!
# C11 — `cholesky` and `plu` return structured factors that reproduce the operator

Code model: `Op.cholRule P A`, `Op.pluRule P A` (`Model/Decomp.lean`, one equation per dispatch
rule of `cola/linalg/decompositions/decompositions.py:147-211`, class taken through declaration
wrappers).  Specification: the represented matrix `A.den` and Mathlib's matrix product, `ᴴ` and
permutation matrices through the bridge `MatF.toMatrix`.

The numerical primitives are parameters `P` with contracts `Op.Contracts P pos`
(`x ** 0.5` squares back to `x` and is real on positive reals; LAPACK `potrf` returns a lower
triangular `L` with `L Lᴴ` = the Hermitian matrix given by the lower triangle; `scipy.linalg.lu`
returns a permutation, a lower and an upper triangular factor with `A = L[p,:] U`).
`C11_contracts_instance`: the exact instance the driver runs satisfies them;
`C11_chol_dense_witness`, `C11_chol_kron_witness`, `C11_plu_dense_witness` evaluate that instance at
dense fallback nodes of concrete non-diagonal inputs (`Lemmas/ExactFactorInstances.lean`, shared
with C06) and apply the theorems through it.

Hypotheses on the input (all named):
* `Op.CholPre pos A` — Diagonal / ScalarMul entries reached by the structural rules are positive
  reals (`pos`), nodes handled by the dense fallback are `Good` (C01's hypotheses: `to_dense` is
  the represented matrix) and Hermitian.  This is "positive definite, factor by factor": a
  positive-definite Kronecker product of two negative-definite factors is NOT covered
  (`C11_chol_hereditary_needed`), and positivity cannot be dropped (`C11_chol_pos_needed`).
* `Op.PluPre A` — nodes handled by the dense fallback are `Good`.
* totality: `C11_plu_total` — `plu` returns as soon as the dense LUs return; no condition on
  Diagonal / ScalarMul entries (after fix 7421396 `plu(Diagonal | ScalarMul) = (I, I, A)`; before
  it the rule took `√A`, NaN for a negative entry under a real dtype — `C11_plu_negative_entry` is
  the regression witness).  `C11_chol_total_partial` — `cholesky` returns when in addition every
  Diagonal / ScalarMul entry reached has a square root under its dtype (`Op.RootsDefined`, an
  input-domain condition: the entries of a positive-definite diagonal are positive).
-/

open Matrix

namespace C11
variable {R : Type} [CommRing R] [StarRing R] [DecidableEq R]

/-! ## cholesky -/

/-- **`cholesky(A)`**: whenever the rule returns `L`, `L` has the shape of `A`, is lower
triangular and `L Lᴴ` is the matrix `A` represents — for every operator tree (Dense and every
other class through the dense rule; Identity, Diagonal, ScalarMul, Kronecker of any number of
factors, BlockDiag with any multiplicities, and all their nestings through the structural
rules). -/
theorem C11_chol {P : Op.DecompParams R} {pos : R → Prop} (hP : Op.Contracts P pos) (A L : Op R)
    (hpre : Op.CholPre pos A) (h : Op.cholRule P A = .ok L) :
    A.cols = A.rows ∧ L.rows = A.rows ∧ L.cols = A.rows ∧ LowerTri A.rows L.den.f ∧
      MatF.toMatrix A.rows A.rows L.den.f * (MatF.toMatrix A.rows A.rows L.den.f)ᴴ
        = MatF.toMatrix A.rows A.rows A.den.f := by
  obtain ⟨h1, h2, h3, h4, h5⟩ := Op.cholRule_ok hP A L hpre h
  exact ⟨h1, h2, h3, h4, h5⟩

/-- the same identity entry by entry, in the model's own product -/
theorem C11_chol_entrywise {P : Op.DecompParams R} {pos : R → Prop} (hP : Op.Contracts P pos)
    (A L : Op R) (hpre : Op.CholPre pos A) (h : Op.cholRule P A = .ok L) :
    EqOn A.rows A.rows (mmul A.rows L.den.f (conjM (transposeM L.den.f))) A.den.f :=
  (Op.cholRule_ok hP A L hpre h).2.2.2.eqOn

/-! ## plu -/

/-- **`plu(A)`**: whenever the rule returns `(P, L, U)`, all three have the shape of `A`, the
window of `P` is a permutation matrix (Mathlib's `Equiv.Perm.permMatrix`), `L` is lower and `U`
upper triangular, and `P (L U)` is the matrix `A` represents — for every operator tree. -/
theorem C11_plu {P : Op.DecompParams R} {pos : R → Prop} (hP : Op.Contracts P pos) (A Pm L U : Op R)
    (hpre : Op.PluPre A) (h : Op.pluRule P A = .ok (Pm, L, U)) :
    A.cols = A.rows ∧ (Pm.rows = A.rows ∧ Pm.cols = A.rows) ∧ (L.rows = A.rows ∧ L.cols = A.rows) ∧
      (U.rows = A.rows ∧ U.cols = A.rows) ∧
      (∃ σ : Equiv.Perm (Fin A.rows), MatF.toMatrix A.rows A.rows Pm.den.f = σ.permMatrix R) ∧
      LowerTri A.rows L.den.f ∧ UpperTri A.rows U.den.f ∧
      MatF.toMatrix A.rows A.rows Pm.den.f *
          (MatF.toMatrix A.rows A.rows L.den.f * MatF.toMatrix A.rows A.rows U.den.f)
        = MatF.toMatrix A.rows A.rows A.den.f := by
  obtain ⟨h1, h2, h3, h4, h5, h6, h7, h8⟩ := Op.pluRule_ok hP A (Pm, L, U) hpre h
  exact ⟨h1, h2, h3, h4, isPermMat_iff.mp h5, h6, h7, h8⟩

theorem C11_plu_entrywise {P : Op.DecompParams R} {pos : R → Prop} (hP : Op.Contracts P pos)
    (A Pm L U : Op R) (hpre : Op.PluPre A) (h : Op.pluRule P A = .ok (Pm, L, U)) :
    EqOn A.rows A.rows (mmul A.rows Pm.den.f (mmul A.rows L.den.f U.den.f)) A.den.f :=
  (Op.pluRule_ok hP A (Pm, L, U) hpre h).2.2.2.2.eqOn

/-! ## the factors keep the structure of the input -/

/-- the kind tree of the Cholesky factor is the one promised for the input: Identity ↦ Identity,
Diagonal ↦ Diagonal, ScalarMul ↦ scalar · Identity, Kronecker ↦ Kronecker factor-wise,
BlockDiag ↦ BlockDiag block-wise with the same multiplicities, any other class ↦ one lower
`Triangular` (no hypothesis on the parameters). -/
theorem C11_structure_chol {P : Op.DecompParams R} (A L : Op R) (h : Op.cholRule P A = .ok L) :
    Op.skelOf L = Op.promisedSkel true A := Op.cholRule_skel A L h

/-- kind trees of the three factors of `plu`: `P` and `L` are Identity on the structured leaves
(one `Permutation` / lower `Triangular` on dense nodes), `U` is the structured leaf itself (one
upper `Triangular` on dense nodes); Kronecker / BlockDiag factor-wise with the same
multiplicities. -/
theorem C11_structure_plu {P : Op.DecompParams R} {pos : R → Prop} (hP : Op.Contracts P pos)
    (A Pm L U : Op R) (h : Op.pluRule P A = .ok (Pm, L, U)) :
    Op.skelOf Pm = Op.promisedPermSkel A ∧ Op.skelOf L = Op.promisedLSkel A ∧
      Op.skelOf U = Op.promisedUSkel A := Op.pluRule_skel hP A (Pm, L, U) h

/-- a tree built from the structured kinds only (Identity, Diagonal, ScalarMul, Kronecker,
BlockDiag, declarations) gets factors that contain no dense array at all. -/
theorem C11_structure_denseFree {P : Op.DecompParams R} (A : Op R) (hs : A.structOnly = true) :
    (∀ L, Op.cholRule P A = .ok L → L.denseFree = true) ∧
      (∀ Pm L U, Op.pluRule P A = .ok (Pm, L, U) →
        Pm.denseFree = true ∧ L.denseFree = true ∧ U.denseFree = true) :=
  ⟨fun L h => Op.cholRule_denseFree A L hs h, fun Pm L U h => Op.pluRule_denseFree A (Pm, L, U) hs h⟩

/-! ## totality -/

/-- `plu` returns factors whenever the dense LUs of its fallback nodes return (scipy's always
does for a square array): no condition on Diagonal / ScalarMul entries. -/
theorem C11_plu_total {P : Op.DecompParams R} (A : Op R) (hlu : Op.LuReturns P A) :
    ∃ F, Op.pluRule P A = .ok F := Op.pluRule_total A hlu

/-- `cholesky` returns when in addition the entries it takes roots of have roots (positive
entries: an input-domain condition). -/
theorem C11_chol_total_partial {P : Op.DecompParams R} (A : Op R) (hroots : Op.RootsDefined P A)
    (hch : Op.CholReturns P A) : ∃ L, Op.cholRule P A = .ok L := Op.cholRule_total A hroots hch

/-! ## witnesses: the clause and the hypotheses exclude real failures -/

/-- the operator `Diagonal([-1.])` of dtype float64 -/
def negDiag : Op ℝ := .diag .f64 1 (fun _ => -1)

/-- **regression witness of fix 7421396**: `plu(Diagonal([-1.]))` returns `(I, I, A)` whatever
the numerical primitives are (no square root is taken), and this is a PLU factorisation.  Before
the fix the rule returned `(I, √A, √A)`, NaN over a real dtype. -/
theorem C11_plu_negative_entry [DecidableEq ℝ] (P : Op.DecompParams ℝ) :
    Op.pluRule P negDiag = .ok (.eye .f64 1, .eye .f64 1, negDiag) ∧
      PLUFact 1 (eyeM : MatF ℝ) eyeM negDiag.den.f negDiag.den.f := by
  refine ⟨by simp only [negDiag, Op.pluRule], ?_⟩
  simp only [negDiag, Op.den, MatV.of_f]
  exact pluFact_self 1 _ (upperTri_diagM 1 _)

/-- the 1 × 1 operator `Kronecker(ScalarMul(-1), ScalarMul(-1))` = the identity -/
def negKron : Op ℝ := .kron [.scalar .f64 (-1) 1, .scalar .f64 (-1) 1]

/-- **"positive definite factor by factor" (`CholPre`) is needed**: a positive-definite Kronecker
product of two negative-definite factors has the Cholesky factor `1`, but the factor-wise rule
cannot return over a real scalar type. -/
theorem C11_chol_hereditary_needed [DecidableEq ℝ] :
    CholFact 1 (eyeM : MatF ℝ) negKron.den.f ∧
    ∀ (P : Op.DecompParams ℝ), (∀ dt x s, P.sqrtS dt x = .ok s → s * s = x) →
      ∀ L, Op.cholRule P negKron ≠ .ok L := by
  refine ⟨?_, fun P hsq L h => ?_⟩
  · refine (cholFact_eyeM (R := ℝ) 1).congr (EqOn.refl _ _ _) ?_
    intro i j hi hj
    have hi0 : i = 0 := by omega
    have hj0 : j = 0 := by omega
    subst hi0 hj0
    simp [negKron, Op.den, Op.rows, Op.cols, kronDen, kronEntry, unravel, eyeM]
  · have hno : ∀ s : ℝ, P.sqrtS .f64 (-1) ≠ .ok s := by
      intro s hs
      have := hsq _ _ _ hs
      nlinarith [mul_self_nonneg s]
    simp only [negKron, Op.cholRule] at h
    split at h
    · rename_i Ls hLs
      have hf := Op.seqE_map_ok hLs
      cases hf with
      | cons h1 _ =>
        simp only [Op.cholRule] at h1
        split at h1
        · rename_i t ht
          exact hno t ht
        · exact absurd h1 (by simp)
    · exact absurd h (by simp)

/-- **positivity of the entries (`pos`) is needed for `cholesky`**: with the complex root `i` of
`-1` (a legitimate value of `x ** 0.5` under a complex dtype) the Diagonal rule returns
`L = [i]`, and `L Lᴴ = [1] ≠ [-1]`. -/
theorem C11_chol_pos_needed :
    ∃ L, Op.cholRule GDecomp.params (.diag .c128 1 (fun _ => (-1 : GRat))) = .ok L ∧
      mmul 1 L.den.f (conjM (transposeM L.den.f)) 0 0 ≠ (-1 : GRat) := by
  have hs : GDecomp.gsqrt .c128 (-1 : GRat) = .ok GRat.I := by decide +kernel
  refine ⟨.diag .c128 1 (fun i => ([GRat.I].getD i 0)), ?_, ?_⟩
  · simp only [Op.cholRule, Op.sqrtVec, Op.seqE, Op.collectOk, GDecomp.params, List.range_one,
      List.map_cons, List.map_nil, hs, Option.map_some]
  · simp only [Op.den, MatV.of_f, mmul, sumTo, diagM, conjM, transposeM]
    decide +kernel

/-! ## the hypotheses are satisfiable -/

/-- the exact Gaussian-rational primitives the driver runs satisfy every contract, so all the
theorems above apply literally to the values the correspondence stream compares with cola -/
theorem C11_contracts_instance : Op.Contracts GDecomp.params GDecomp.gpos :=
  GDecomp.params_contracts

/-- the theorems instantiated at the driver's primitives -/
theorem C11_chol_driver (A L : Op GRat) (hpre : Op.CholPre GDecomp.gpos A)
    (h : Op.cholRule GDecomp.params A = .ok L) :
    LowerTri A.rows L.den.f ∧
      EqOn A.rows A.rows (mmul A.rows L.den.f (conjM (transposeM L.den.f))) A.den.f :=
  ⟨(C11_chol C11_contracts_instance A L hpre h).2.2.2.1,
    C11_chol_entrywise C11_contracts_instance A L hpre h⟩

theorem C11_plu_driver (A Pm L U : Op GRat) (hpre : Op.PluPre A)
    (h : Op.pluRule GDecomp.params A = .ok (Pm, L, U)) :
    IsPermMat A.rows Pm.den.f ∧ LowerTri A.rows L.den.f ∧ UpperTri A.rows U.den.f ∧
      EqOn A.rows A.rows (mmul A.rows Pm.den.f (mmul A.rows L.den.f U.den.f)) A.den.f := by
  have h0 := Op.pluRule_ok C11_contracts_instance A (Pm, L, U) hpre h
  exact ⟨h0.2.2.2.2.1, h0.2.2.2.2.2.1, h0.2.2.2.2.2.2.1, h0.2.2.2.2.eqOn⟩

/-- a structured positive-definite tree satisfies the precondition:
`Kronecker(Diagonal([4, 9]), PSD(Identity(3)), BlockDiag(ScalarMul(4, 2), multiplicities=[2]))` -/
example : Op.CholPre GDecomp.gpos
    (.kron [.diag .f64 2 (fun i => if i = 0 then 4 else 9), .annot .psd (.eye .f64 3),
      .bdiag [.scalar .c128 4 2] [2]] : Op GRat) := by
  simp only [Op.CholPre, List.mem_cons, List.mem_nil_iff, or_false, forall_eq_or_imp, forall_eq,
    true_and]
  refine ⟨?_, ?_⟩
  · intro i _
    by_cases h : i = 0 <;> simp [h, GDecomp.gpos] <;> decide
  · simp only [GDecomp.gpos]; decide

/-! ## the dense fallback on concrete non-diagonal inputs (round 3)

The contracts `Op.Contracts.chol` / `.lu` are used at the nodes that fall to the dense rule.  The
witnesses below RUN the exact primitives (`Lemmas/ExactFactorInstances.lean`: kernel evaluation of
`GDecomp.gcholDense` / `gluDense`) at such nodes and apply `C11_chol` / `C11_plu` through the
instance `C11_contracts_instance`: the hypothesis bundles `hP`, `CholPre`, `PluPre`, `CholReturns`,
`LuReturns` and `… = .ok _` are jointly satisfiable on trees with a dense node. -/

open ExactFactor in
/-- `PSD(Dense([[4, 2i], [-2i, 5]]))`, complex128: Hermitian positive definite, non-real
off-diagonal entries -/
def hpdDense : Op GRat := .annot .psd (.dense .c128 2 2 cholA2c)

open ExactFactor in
/-- `Dense([[0,1,1],[2,1,0],[2,2,3]])`, float64: the first pivot is 0, partial pivoting swaps -/
def swapDense : Op GRat := .dense .f64 3 3 luA3

/-- `Kronecker(PSD(Dense([[4, 2i], [-2i, 5]])), Diagonal([4, 9]))`, 4 × 4 -/
def hpdKron : Op GRat := .kron [hpdDense, .diag .f64 2 (fun i => if i = 0 then 4 else 9)]

private theorem good_dense (dt : DType) (n : Nat) (a : MatF GRat) (h : Op.HermOn n a) :
    Op.Good (.dense dt n n a : Op GRat) := by
  refine ⟨by simp [Op.wf], by simp [Op.dupSlice], ?_⟩
  simp only [Op.HermOK, Op.HermNode, Op.rows, Op.cols, Op.den, MatV.of_f]
  intro _
  exact ⟨trivial, h⟩

private theorem hermOn_cholA2c : Op.HermOn 2 ExactFactor.cholA2c := by
  intro i j hi hj
  interval_cases i <;> interval_cases j <;> decide +kernel

private theorem cholPre_hpdDense : Op.CholPre GDecomp.gpos hpdDense := by
  simp only [hpdDense, Op.CholPre, Op.rows, Op.den, MatV.of_f]
  exact ⟨good_dense _ _ _ hermOn_cholA2c, hermOn_cholA2c⟩

open ExactFactor in
/-- **`cholesky` at a dense fallback node, evaluated**: for `A = PSD(Dense([[4, 2i], [-2i, 5]]))`
the hypotheses `CholPre`, `CholReturns` hold, the rule returns the lower `Triangular`
`[[2, 0], [-i, 2]]` (the exact `potrf` instance, evaluated), and `C11_chol_driver` applied to this
run gives `L Lᴴ = A`. -/
theorem C11_chol_dense_witness :
    Op.CholPre GDecomp.gpos hpdDense ∧ Op.CholReturns GDecomp.params hpdDense ∧
    Op.cholRule GDecomp.params hpdDense = .ok (.tri .c128 2 2 true cholL2c) ∧
    LowerTri 2 cholL2c ∧ EqOn 2 2 (mmul 2 cholL2c (conjM (transposeM cholL2c))) cholA2c := by
  have hrule : Op.cholRule GDecomp.params hpdDense = .ok (.tri .c128 2 2 true cholL2c) := by
    simp [hpdDense, Op.cholRule, Op.core, Op.cholFallback, Op.rows, Op.cols, Op.td, Op.dtype,
      GDecomp.params, gchol_cholA2c]
  refine ⟨cholPre_hpdDense, ?_, hrule, ?_⟩
  · simp only [hpdDense, Op.CholReturns, Op.rows, Op.cols, Op.td, MatV.of_f, GDecomp.params]
    exact ⟨trivial, _, gchol_cholA2c⟩
  · have h := C11_chol_driver hpdDense _ cholPre_hpdDense hrule
    simpa [hpdDense, Op.rows, Op.den] using h

open ExactFactor in
/-- **`cholesky` of a nested tree with a dense node, evaluated**: the Kronecker rule calls the
dense rule on the first factor and the Diagonal rule on the second; `C11_chol` (Mathlib form)
applies to the run. -/
theorem C11_chol_kron_witness :
    Op.CholPre GDecomp.gpos hpdKron ∧ hpdKron.rows = 4 ∧
    ∃ L, Op.cholRule GDecomp.params hpdKron = .ok L ∧
      L = .kron [.tri .c128 2 2 true cholL2c, .diag .f64 2 (fun i => ([2, 3] : List GRat).getD i 0)] ∧
      MatF.toMatrix hpdKron.rows hpdKron.rows L.den.f * (MatF.toMatrix hpdKron.rows hpdKron.rows L.den.f)ᴴ
        = MatF.toMatrix hpdKron.rows hpdKron.rows hpdKron.den.f := by
  have hpre : Op.CholPre GDecomp.gpos hpdKron := by
    simp only [hpdKron, Op.CholPre, List.mem_cons, List.mem_nil_iff, or_false, forall_eq_or_imp,
      forall_eq]
    refine ⟨cholPre_hpdDense, ?_⟩
    intro i _
    by_cases h : i = 0 <;> simp [h, GDecomp.gpos] <;> decide
  have h4 : GDecomp.gsqrt .f64 (4 : GRat) = .ok 2 := by decide +kernel
  have h9 : GDecomp.gsqrt .f64 (9 : GRat) = .ok 3 := by decide +kernel
  have hrule : Op.cholRule GDecomp.params hpdKron
      = .ok (.kron [.tri .c128 2 2 true cholL2c, .diag .f64 2 (fun i => ([2, 3] : List GRat).getD i 0)]) := by
    simp [hpdKron, hpdDense, Op.cholRule, Op.core, Op.cholFallback, Op.rows, Op.cols, Op.td, Op.dtype,
      GDecomp.params, gchol_cholA2c, Op.seqE, Op.collectOk, Op.sqrtVec, List.range_succ, h4, h9]
  refine ⟨hpre, by simp [hpdKron, hpdDense, Op.rows], _, hrule, rfl, ?_⟩
  exact (C11_chol C11_contracts_instance hpdKron _ hpre hrule).2.2.2.2

open ExactFactor in
/-- **`plu` at a dense fallback node, evaluated**: for `A = Dense([[0,1,1],[2,1,0],[2,2,3]])`
`PluPre`, `LuReturns` hold, the rule returns `Permutation([1,0,2])` (a genuine row swap),
`L = [[1,0,0],[0,1,0],[1,1,1]]`, `U = [[2,1,0],[0,1,1],[0,0,2]]` (the exact
`scipy.linalg.lu` instance, evaluated), and `C11_plu_driver` applied to this run gives
`P L U = A`. -/
theorem C11_plu_dense_witness :
    Op.PluPre swapDense ∧ Op.LuReturns GDecomp.params swapDense ∧
    Op.pluRule GDecomp.params swapDense
      = .ok (.perm .f32 luP3, .tri .f64 3 3 true luL3, .tri .f64 3 3 false luU3) ∧
    luP3 ≠ List.range 3 ∧
    IsPermMat 3 (permDen luP3 : MatF GRat) ∧ LowerTri 3 luL3 ∧ UpperTri 3 luU3 ∧
      EqOn 3 3 (mmul 3 (permDen luP3) (mmul 3 luL3 luU3)) luA3 := by
  have hpre : Op.PluPre swapDense := by
    simp only [swapDense, Op.PluPre]
    refine ⟨by simp [Op.wf], by simp [Op.dupSlice], ?_⟩
    simp [Op.HermOK, Op.HermNode, Op.isa, Op.anns, AnnSet.isa]
  have hrule : Op.pluRule GDecomp.params swapDense
      = .ok (.perm .f32 luP3, .tri .f64 3 3 true luL3, .tri .f64 3 3 false luU3) := by
    simp [swapDense, Op.pluRule, Op.pluFallback, Op.rows, Op.cols, Op.td, Op.dtype,
      GDecomp.params, glu_luA3]
  refine ⟨hpre, ?_, hrule, nontrivial.2.2.2, ?_⟩
  · simp only [swapDense, Op.LuReturns, Op.rows, Op.cols, Op.td, MatV.of_f, GDecomp.params]
    exact ⟨trivial, _, glu_luA3⟩
  · have h := C11_plu_driver swapDense _ _ _ hpre hrule
    simpa [swapDense, Op.rows, Op.den] using h

end C11

#print axioms C11.C11_chol
#print axioms C11.C11_chol_entrywise
#print axioms C11.C11_plu
#print axioms C11.C11_plu_entrywise
#print axioms C11.C11_structure_chol
#print axioms C11.C11_structure_plu
#print axioms C11.C11_structure_denseFree
#print axioms C11.C11_plu_total
#print axioms C11.C11_chol_total_partial
#print axioms C11.C11_plu_negative_entry
#print axioms C11.C11_chol_hereditary_needed
#print axioms C11.C11_chol_pos_needed
#print axioms C11.C11_contracts_instance
#print axioms C11.C11_chol_driver
#print axioms C11.C11_plu_driver
#print axioms C11.C11_chol_dense_witness
#print axioms C11.C11_chol_kron_witness
#print axioms C11.C11_plu_dense_witness
