import ColaVerif.Properties.C10

/-!
# C10, round 5 — iteration caps BELOW `n`: what `eig(A, k, which, Lanczos(max_iters = m))` claims for `m < n`

`Properties/C10.lean` states eigenpairs of `A` only for runs that exhaust the Krylov space (`exhausted`,
`ran_dim_steps`, caps at or above `n`).  The property quantifies over every `max_iters`; for a cap below `n` (more
precisely: below the grade of the start vector) the run stops with a non-zero last column `r` of `A Q - Q T`, the
returned values are RITZ values and no eigenpair of `A` is claimed.  `C10_lanczos_any_cap` says exactly what IS
claimed then, with NO hypothesis about the run (no `exhausted`, no `ran_n_steps`), for every cap `max_iters ≥ 1`:

* at most `min(max_iters, n)` Ritz pairs are computed (so at most `max_iters` when `max_iters < n`), `min(k, ·)` are
  returned, and the returned values are the extreme-magnitude members of the COMPUTED Ritz values;
* every returned vector is a unit vector, every returned value is real and is the Rayleigh quotient `⟪x, A x⟫` of
  its vector (a Ritz value), and `A x - θ x` is a multiple of the ONE vector `r` (all residuals are parallel).

The `eigh` contract is C14's `eigh_contract_unit` (what `numpy.linalg.eigh` documents: `T y = θ y`, orthonormal
columns) — ASSUMED of LAPACK, witnessed by `C14_eigh_contract_unit_witness`, and since round 5 OBSERVED on the real
runs by `harness/props/c10.py` (`eigh_observe`: the projected `T` is read from the call, the same `eigh` is called
again, `‖Yᴴ Y - 1‖ ≤ 1e-10`, `‖T Y - Y diag θ‖ ≤ 1e-10 ‖T‖`).

The hypothesis bundle is shown satisfiable by an `example` on the exact `3 × 3` run of
`C14_eigh_contract_unit_witness` (cap `5 ≥ n = 3`); NO exact run of the loop model with a cap below `n` is evaluated
in Lean (below `n` the statement is tied to /repo by the stream `lanczos-d` / `lanczos/d` of the harness only).

`C10_lanczos_cap_one_ritz_not_eigen`: for `[[2,1],[1,2]]` and the unit vector `e₀` the Rayleigh quotient is `2`
while the eigenvalues are `1, 3` — a Ritz value of a one-step run is no eigenvalue: the hypothesis `exhausted` of
`C10_lanczos_path` cannot be dropped from the eigenpair claim.
-/

open Eig Finset
open scoped InnerProductSpace ComplexConjugate

namespace C10

section capsBelow
variable {𝕜 E κ : Type} [RCLike 𝕜] [NormedAddCommGroup E] [InnerProductSpace 𝕜 E] [LinearOrder κ]
open Lanczos
attribute [local instance] exactNum exactVec

/-- **Lanczos rule, EVERY iteration cap (in particular `max_iters < n`), no hypothesis about the run.** -/
theorem C10_lanczos_any_cap (eigh : Array (Array 𝕜) → Array 𝕜 × Array (Array 𝕜))
    (A : E →ₗ[𝕜] E) (A_hermitian : A.IsSymmetric) (n max_iters : ℕ) (v : E) (tol : ℝ)
    (start_nonzero : v ≠ 0) (tol_nonneg : 0 ≤ tol) (cap_pos : 1 ≤ min max_iters n)
    (eigh_contract_unit :
      let o := lanczosExact A n #[v] max_iters tol
      let e := eigh (tridiagDense (K := 𝕜) (o.alpha.getD 0 #[]) (o.beta.getD 0 #[]))
      e.1.size = o.iters ∧
      (∀ j a, j < o.iters → a < o.iters →
        ∑ c ∈ range o.iters, o.T 0 a c * (e.2.getD j #[]).getD c 0 =
          e.1.getD j 0 * (e.2.getD j #[]).getD a 0) ∧
      ∀ i j, i < o.iters → j < o.iters →
        ∑ c ∈ range o.iters, conj ((e.2.getD i #[]).getD c 0) * (e.2.getD j #[]).getD c 0 =
          if i = j then 1 else 0)
    (key : 𝕜 → κ) (k : Nat) (w : Which) (k_pos : 0 < k) :
    let o := lanczosExact A n #[v] max_iters tol
    let res := lanczosEigs (K := 𝕜) eigh (⇑A) n 0 v max_iters (tol : 𝕜)
    let out := selectPairs (fun a b => decide (a ≤ b)) key k w (res.1.toList.zip res.2.toList)
    o.iters ≤ min max_iters n ∧ (max_iters < n → o.iters ≤ max_iters) ∧
    out.length = min k o.iters ∧
    IsExtreme w key k res.1.toList (out.map (·.1)) ∧
    ∀ p ∈ out, ‖p.2‖ = 1 ∧ (∃ t : ℝ, p.1 = (t : 𝕜)) ∧ p.1 = ⟪p.2, A p.2⟫_𝕜 ∧
      ∃ c : 𝕜, A p.2 - p.1 • p.2 = c • o.resid A 0 := by
  intro o res out
  obtain ⟨idx, θ, y, x, _, _, _, _, _, _, _, _, hs1, hs2, horth, hpos, _, _⟩ :=
    C14_lanczos_eigs_unit eigh A A_hermitian n max_iters v tol start_nonzero tol_nonneg cap_pos
      eigh_contract_unit
  obtain ⟨s1, s2, _, s4⟩ := selectPairs_spec key k w (res.1.toList.zip res.2.toList) k_pos
  have hl1 : res.1.toList.length = o.iters := by rw [Array.length_toList]; exact hs1
  have hl2 : res.2.toList.length = o.iters := by rw [Array.length_toList]; exact hs2
  have hzl : (res.1.toList.zip res.2.toList).length = o.iters := by
    rw [List.length_zip, hl1, hl2, Nat.min_self]
  have hcap : o.iters ≤ min max_iters n :=
    (C14_lanczos A A_hermitian n max_iters v tol start_nonzero tol_nonneg cap_pos).1.2.1
  refine ⟨hcap, fun _ => le_trans hcap (min_le_left _ _), by rw [s1, hzl], ?_, ?_⟩
  · rwa [List.map_fst_zip (le_of_eq (hl1.trans hl2.symm))] at s4
  · intro p hp
    obtain ⟨i, hi, rfl⟩ := List.mem_iff_getElem.mp (s2.subset hp)
    have hik : i < o.iters := hzl ▸ hi
    have h1i : i < res.1.size := hs1 ▸ hik
    have h2i : i < res.2.size := hs2 ▸ hik
    have e1 : ((res.1.toList.zip res.2.toList)[i]).1 = res.1.getD i 0 := by
      rw [List.getElem_zip]; simp [Array.getD, h1i]
    have e2 : ((res.1.toList.zip res.2.toList)[i]).2 = res.2.getD i 0 := by
      rw [List.getElem_zip]; simp [Array.getD, h2i]
    rw [e1, e2]
    obtain ⟨_, hreal, hray, hres⟩ := hpos i hik
    exact ⟨horth.1 ⟨i, hik⟩, hreal, hray, hres⟩

/-- the hypothesis bundle of `C10_lanczos_any_cap` is satisfiable (the exact `3 × 3` run of
`C14_eigh_contract_unit_witness`: `[[2,1,0],[1,2,1],[0,1,2]]`, `v = e₀`, exact eigensolver `eigh3`), here with the
magnitude key `|·|`, `k = 2`, `'SM'` -/
example :
    let A := Matrix.toEuclideanLin exM3
    let res := lanczosEigs (K := ℝ) eigh3 (⇑A) 3 0 exv3 5 ((0 : ℝ) : ℝ)
    let out := selectPairs (fun a b => decide (a ≤ b)) (fun x : ℝ => |x|) 2 .SM (res.1.toList.zip res.2.toList)
    out.length = 2 ∧ ∀ p ∈ out, ‖p.2‖ = 1 ∧ p.1 = ⟪p.2, A p.2⟫_ℝ := by
  intro A res out
  obtain ⟨hs, hv, ht, hc, hcon, hrun⟩ := C14_eigh_contract_unit_witness
  obtain ⟨_, _, h3, _, h5⟩ :=
    C10_lanczos_any_cap eigh3 A hs 3 5 exv3 0 hv ht hc hcon (fun x : ℝ => |x|) 2 .SM (by decide)
  refine ⟨?_, fun p hp => ⟨(h5 p hp).1, (h5 p hp).2.2.1⟩⟩
  exact h3.trans (by rw [hrun.1]; decide)

end capsBelow

section notEigen
open Matrix

/-- **A one-step Ritz value is no eigenvalue** (why `exhausted` cannot be dropped from the eigenpair claim of
`C10_lanczos_path`, and why nothing but `C10_lanczos_any_cap` is claimed below the grade): for
`M = [[2,1],[1,2]]` and the unit start vector `e₀` (what a run with `max_iters = 1 < n = 2` returns as its only
Ritz vector) the Rayleigh quotient `e₀ᵀ M e₀` is `2`, `M e₀ - 2 e₀ = e₁ ≠ 0`, and `2` is no eigenvalue of `M`
(`det (M - 2) = -1`). -/
theorem C10_lanczos_cap_one_ritz_not_eigen :
    let M : Matrix (Fin 2) (Fin 2) ℚ := !![2, 1; 1, 2]
    let e0 : Fin 2 → ℚ := ![1, 0]
    e0 ⬝ᵥ (M *ᵥ e0) = 2 ∧ M *ᵥ e0 - (2 : ℚ) • e0 = ![0, 1] ∧ (M - (2 : ℚ) • (1 : Matrix (Fin 2) (Fin 2) ℚ)).det = -1 ∧
      ∀ u : Fin 2 → ℚ, M *ᵥ u = (2 : ℚ) • u → u = 0 := by
  intro M e0
  refine ⟨?_, ?_, ?_, ?_⟩
  · simp [M, e0, Matrix.mulVec, dotProduct, Fin.sum_univ_two]
  · ext i; fin_cases i <;> simp [M, e0]
  · rw [Matrix.det_fin_two]
    simp [M, Matrix.sub_apply, Matrix.smul_apply]
  · intro u hu
    have h0 := congrFun hu 0
    have h1 := congrFun hu 1
    simp [M, Matrix.mulVec, dotProduct, Fin.sum_univ_two] at h0 h1
    ext i; fin_cases i
    · simpa using h1
    · simpa using h0

end notEigen

end C10

#print axioms C10.C10_lanczos_any_cap
#print axioms C10.C10_lanczos_cap_one_ritz_not_eigen
