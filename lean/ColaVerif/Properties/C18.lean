/-
  C18 — Operators are persistent values: inputs never mutated, flatten round-trips.

  Two mechanisms, two models:
  * in-place writes: Model/Heap.lean (buffer-event IR + ownership, incl. the interprocedural edge
    `call`), the GENERATED table Gen/InplaceSites.lean with the reasons the scanner established by
    analysis, the acceptance rule Lemmas/PersistSites.lean (no prose allow-list, no named clause left);
  * the class-level attribute registry behind flatten/unflatten: Model/Registry.lean.
  The correspondence (harness/props/c18.py) compares bytes of every caller-owned array and operator
  after every operation of exhaustive short histories, and runs flatten/unflatten in fresh
  interpreters with permuted construction orders.
-/
import ColaVerif.Lemmas.PersistHeap
import ColaVerif.Lemmas.PersistRegistry
import ColaVerif.Lemmas.PersistSites
import ColaVerif.Gen.InplaceSites

namespace C18
open ColaVerif ColaVerif.Heap ColaVerif.Registry

/-! ## inputs are never mutated -/

/-- Soundness of the write discipline: a program in which every in-place write goes to a buffer the
    program allocated itself leaves every caller-owned buffer unchanged (contents and ownership), in
    EVERY execution — whatever values are stored and whichever operand `A @ x` aliases. -/
theorem C18_safe (prog : Prog) (h : writesOnlyFresh prog = true) :
    ∀ s s' : St, s.WF → Exec prog s s' →
      ∀ b, s.own b = Owner.caller → s'.heap b = s.heap b ∧ s'.own b = Owner.caller := by
  intro s s' hwf hex b hb
  unfold writesOnlyFresh at h
  cases hr : absRun prog [] with
  | none => rw [hr] at h; cases h
  | some L' =>
    obtain ⟨_, _, hp⟩ := exec_sound hr (sound_nil s) hwf hex
    exact ⟨(hp b hb).2, (hp b hb).1⟩

/-- The discipline is needed: one write through a parameter, or into the result of `A @ x` with a
    caller-owned `x`, has an execution that changes a caller-owned buffer. -/
theorem C18_safe_discipline_needed :
    (∃ s s' : St, s.WF ∧ Exec [.write 0] s s' ∧ ∃ b, s.own b = Owner.caller ∧ s'.heap b ≠ s.heap b) ∧
    (∃ s s' : St, s.WF ∧ Exec [.mayAlias 1 [0], .write 1] s s' ∧ ∃ b, s.own b = Owner.caller ∧ s'.heap b ≠ s.heap b) :=
  ⟨write_param_can_change, write_matmul_result_can_change⟩

/-- Every in-place site of the library (generated table, regenerated from the AST on every run) obeys
    the discipline, or carries a reason ESTABLISHED BY THE SCANNER whose data are checked here
    (`Reason.holds`, `Reason.wellFormed`: caller-side slices of every call site ending in `call`, defining
    slices of every store to an owned field, zero reads of a write-only attribute, class-level target),
    — the named-clause list (`allowList`) is empty, see `C18_clause_rows` / `C18_sites_no_exemption`.
    Round 1 accepted 14 rows by a prose allow-list. -/
theorem C18_sites : ∀ s ∈ Gen.InplaceSites.sites, s.inScope = true → s.ok = true := by
  have h : Gen.InplaceSites.sites.all (fun s => !s.inScope || s.ok) = true := by decide +kernel
  intro s hs hsc
  have := List.all_eq_true.mp h s hs
  simpa [hsc] using this

/-- the provenance class shown in the table agrees with the discipline: `param` / `unknown` targets are
    exactly the rejected ones -/
theorem C18_sites_classes : ∀ s ∈ Gen.InplaceSites.sites, s.classConsistent = true := by
  have h : Gen.InplaceSites.sites.all (fun s => s.classConsistent) = true := by decide +kernel
  exact fun s hs => List.all_eq_true.mp h s hs

/-- What is true of the named-clause list NOW: it is EMPTY, so no row of ANY table is accepted `byClause`
    (round 3; the list lost its last entry when `Identity.to` was repaired, /repo aef9931).  The substantive
    statement about the rows is `C18_sites_no_exemption`: discipline or checked reason, nothing else. -/
theorem C18_allow_list_empty : allowList = [] ∧ ∀ s : Site, s.byClause = false :=
  ⟨rfl, fun _ => rfl⟩

/-- (kept from rounds 1–2, NOT in the audited list any more: with `allowList = []` it holds vacuously; it is a
    corollary of `C18_allow_list_empty`.)  Every entry of the named-clause list matches a library row that the
    discipline rejects. -/
theorem C18_allow_list_tight :
    ∀ a ∈ allowList, Gen.InplaceSites.sites.any
      (fun s => s.inScope && !writesOnlyFresh s.prog && a.file == s.file && a.func == s.func && a.target == s.target) = true := by
  intro a ha
  rw [C18_allow_list_empty.1] at ha
  cases ha

/-- `C18_sites` + `C18_safe`: every library site that needs neither a reason nor the named clause
    (`allowed = false`) sits in a slice all of whose executions leave the caller's buffers alone.  The
    rows accepted through a reason are covered by `C18_reasons_safe` (the slices of ALL their callers /
    of ALL stores to the field). -/
theorem C18_sites_safe : ∀ site ∈ Gen.InplaceSites.sites, site.inScope = true → site.allowed = false →
    ∀ s s' : St, s.WF → Exec site.prog s s' →
      ∀ b, s.own b = Owner.caller → s'.heap b = s.heap b ∧ s'.own b = Owner.caller := by
  intro site hmem hsc hal
  have hok := C18_sites site hmem hsc
  simp only [Site.ok, hal, Bool.false_or] at hok
  exact C18_safe site.prog hok

/-! ### round 2: the reasons are checked data, the interprocedural edge `call` is exercised -/

/-- INTERPROCEDURAL part.  For every library row accepted through an established reason, every program
    the reason carries — the caller-side slice of EVERY call site of a private helper / of the backend
    primitive, ending in `call [arg] r [arg]` (the callee may store anything into the buffer of `arg`,
    `WritesOnly`), and the defining slice of EVERY store to an owned field, ending in `write` — leaves
    every caller-owned buffer unchanged in every execution. -/
theorem C18_reasons_safe : ∀ site ∈ Gen.InplaceSites.sites, site.inScope = true → site.reason.holds = true →
    ∀ p ∈ site.reason.progs, ∀ s s' : St, s.WF → Exec p s s' →
      ∀ b, s.own b = Owner.caller → s'.heap b = s.heap b ∧ s'.own b = Owner.caller := by
  intro site _ _ hh p hp
  exact C18_safe p (reason_progs_fresh site.reason hh p hp)

/-- every library row is accepted by the discipline, by a CHECKED reason (programs obey the discipline and
    have the shape `… call [arg] …` / `… write`, read counts are zero), or is one of the rows of the
    named-clause list — there is no fourth way. -/
theorem C18_sites_mechanical : ∀ s ∈ Gen.InplaceSites.sites, s.inScope = true →
    writesOnlyFresh s.prog = true ∨ (s.reason.holds = true ∧ s.reason.wellFormed = true) ∨ s.byClause = true := by
  intro s hs hsc
  have h := C18_sites s hs hsc
  simp only [Site.ok, Site.allowed, Bool.or_eq_true, Bool.and_eq_true] at h
  rcases h with (h | h) | h
  · exact Or.inr (Or.inr h)
  · exact Or.inr (Or.inl h)
  · exact Or.inl h

/-- NO library row rests on a named clause any more (the one that did, `Identity.to`, was repaired in /repo
    aef9931 and its store now obeys the discipline): together with `C18_sites_mechanical`, every in-place
    site of the library is accepted by the discipline or by a reason whose data are checked. -/
theorem C18_clause_rows :
    Gen.InplaceSites.sites.filter (fun s => s.inScope && s.byClause) = [] := by
  decide +kernel

/-- … spelled out: discipline or checked reason, nothing else -/
theorem C18_sites_no_exemption : ∀ s ∈ Gen.InplaceSites.sites, s.inScope = true →
    writesOnlyFresh s.prog = true ∨ (s.reason.holds = true ∧ s.reason.wellFormed = true) := by
  intro s hs hsc
  rcases C18_sites_mechanical s hs hsc with h | h | h
  · exact Or.inl h
  · exact Or.inr h
  · have hm : s ∈ Gen.InplaceSites.sites.filter (fun s => s.inScope && s.byClause) :=
      List.mem_filter.mpr ⟨hs, by simp [hsc, h]⟩
    rw [C18_clause_rows] at hm
    cases hm

/-- the interprocedural constructor of the IR is exercised by the generated table: some library row is
    accepted through caller-side slices ending in `call` -/
theorem C18_call_edges_present :
    (Gen.InplaceSites.sites.filter (fun s => s.inScope && !writesOnlyFresh s.prog && s.reason.holds &&
        !s.reason.progs.isEmpty && s.reason.progs.all endsInCall)).length ≥ 4 := by
  decide +kernel

/-- … and its discipline is needed: handing a buffer bound at entry (a parameter) to a callee that writes
    has an execution that changes a caller-owned buffer -/
theorem C18_call_discipline_needed :
    ∃ s s' : St, s.WF ∧ Exec [.call [0] 1 [0]] s s' ∧ ∃ b, s.own b = Owner.caller ∧ s'.heap b ≠ s.heap b := by
  let s : St := { env := fun _ => some 0, heap := fun _ => 0, own := fun b => if b = 0 then Owner.caller else Owner.localBuf, next := 1 }
  refine ⟨s, ((s.store 0 1).alloc 1 0), ?_, ?_, 0, ?_, ?_⟩
  · intro b hb
    by_cases e : b = 0
    · subst e; exact Nat.zero_lt_one
    · simp [s, e] at hb
  · refine Exec.cons _ _ _ _ _ (Step.callNew s (s.store 0 1) [0] 1 [0] 0 ?_ ?_) (Exec.nil _)
    · intro w _; exact ⟨0, rfl⟩
    · refine ⟨rfl, rfl, rfl, ?_⟩
      intro b hb
      have : b ≠ 0 := fun e => hb 0 (by simp) (by simp [s, e])
      simp [St.store, this]
  · simp [s]
  · simp [s, St.store, St.alloc]

/-! ## flatten / unflatten -/

/-- a history in which every constructor assigns `device` (LinearOperator.__new__ does) -/
def AssignsDevice (h : List Event) : Prop :=
  ∀ c as, Event.construct c as ∈ h → ∃ v, (Attr.device, v) ∈ as

/-- Round trip in EVERY reachable registry state: for every history of subclass creations and
    constructor calls and every operator built by it, `tree_flatten` succeeds and `tree_unflatten` of
    its output is an operator of the same class with the same value in every attribute, and leaves
    the registry unchanged. -/
theorem C18_roundtrip (h : List Event) (hd : AssignsDevice h) :
    ∀ o ∈ (run h).objs, ∃ children aux o',
      flatten (run h).reg o = some (children, aux) ∧
      unflatten (run h).reg o.cls aux children = some ((run h).reg, o') ∧ Obj.Same o' o := by
  intro o ho
  obtain ⟨hreg, hn⟩ := inv_run h o ho
  refine roundtrip_obj hreg hn ?_
  -- the object has a device: it was built by a constructor call of the history
  have key : ∀ (h : List Event) (s : State), (∀ o ∈ s.objs, (o.fields.get Attr.device).isSome) →
      (∀ c as, Event.construct c as ∈ h → ∃ v, (Attr.device, v) ∈ as) →
      ∀ o ∈ (h.foldl step s).objs, (o.fields.get Attr.device).isSome := by
    intro h
    induction h with
    | nil => intro s hs _ o ho; exact hs o ho
    | cons e h ih =>
      intro s hs hdv o ho
      refine ih (step s e) ?_ (fun c as hm => hdv c as (List.mem_cons_of_mem _ hm)) o ho
      intro o' ho'
      cases e with
      | subclass c p => exact hs o' ho'
      | construct c as =>
        simp only [step, List.mem_append, List.mem_singleton] at ho'
        cases ho' with
        | inl h' => exact hs o' h'
        | inr h' =>
          subst h'
          obtain ⟨v, hv⟩ := hdv c as List.mem_cons_self
          show ((assignAll s.reg c .nil as).2.get Attr.device).isSome
          rw [assignAll_get]
          have : (lastVal as Attr.device).isSome := by
            clear hdv ih hs ho
            induction as with
            | nil => cases hv
            | cons x as ih2 =>
              obtain ⟨a, w⟩ := x
              simp only [lastVal]
              cases hl : lastVal as Attr.device with
              | some _ => rfl
              | none =>
                cases hv with
                | head => simp
                | tail _ hm => have := ih2 hm; rw [hl] at this; cases this
          cases hl : lastVal as Attr.device with
          | some w => rfl
          | none => rw [hl] at this; cases this
  exact key h State.init (by intro o ho; cases ho) hd o ho

/-- The registry never revises a verdict: what a class decided about an attribute stays decided,
    whatever is constructed later ("regardless of which operators were constructed earlier" holds for
    the round trip, and FAILS for the leaves: see below). -/
theorem C18_verdict_fixed (h h2 : List Event) (c : Class) (a : Attr) (b : Bool)
    (hb : (run h).reg.get c a = some b) : (run (h ++ h2)).reg.get c a = some b := by
  rw [run_append]
  exact runFrom_le (run h) h2 c a b hb

/-- ... and the verdict is the one reached on the value of the FIRST assignment of that name in that
    class, under the registry of that moment. -/
theorem C18_verdict_is_first (r : Reg) (c : Class) (fs : Fields) (a : Attr) (v : Val) (h : r.get c a = none) :
    (setattr r c fs a v).1.get c a = some (cond r v) :=
  verdict_is_first r c fs a v h

/-- Leaves, attribute by attribute, as an IFF that makes the history dependence explicit: the
    attributes flatten hands out as children are exactly the attributes holding arrays
    **iff** the verdicts stored in the registry of the object's class — reached on the first instance
    that assigned each attribute (C18_verdict_is_first, C18_verdict_fixed) — are the verdicts this
    object's own values get (clause `first-instance-representative`). -/
theorem C18_leaves (r : Reg) (o : Obj) (hreg : Registered r o) (hn : o.fields.keys.Nodup) :
    dynAttrs r o = arrAttrs r o ↔ Representative r o := by
  unfold dynAttrs arrAttrs
  rw [filter_eq_filter_iff]
  have hn' : (o.fields.toList.map (·.1)).Nodup := by rw [keys_toList]; exact hn
  have hmem : ∀ a v, (a, v) ∈ o.fields.toList ↔ o.fields.get a = some v := by
    intro a v
    rw [← lookupKV_toList]
    generalize o.fields.toList = kv at hn'
    induction kv with
    | nil => simp [lookupKV]
    | cons x kv ih =>
      obtain ⟨a', v'⟩ := x
      simp only [List.map_cons, List.nodup_cons] at hn'
      simp only [List.mem_cons, lookupKV, Prod.mk.injEq]
      by_cases ha : a' = a
      · subst ha
        simp only [if_true, Option.some.injEq]
        constructor
        · intro h
          cases h with
          | inl h => obtain ⟨_, h2⟩ := h; exact h2.symm
          | inr h => exact absurd (List.mem_map_of_mem (f := (·.1)) h) hn'.1
        · intro h; left; simp [h]
      · have ha2 : ¬ a = a' := fun e => ha e.symm
        simp only [ha, ha2, if_false, false_and, false_or]
        exact ih hn'.2
  constructor
  · intro h a v hv
    have hx := h (a, v) ((hmem a v).mpr hv)
    have hs := hreg a v hv
    cases hg : r.get o.cls a with
    | none => rw [hg] at hs; cases hs
    | some b =>
      simp only [hg] at hx
      cases b <;> cases hc : cond r v <;> simp_all
  · intro h x hx
    obtain ⟨a, v⟩ := x
    have := h a v ((hmem a v).mp hx)
    simp only [this]
    cases cond r v <;> simp

/-- partial form: under the clause, the children of flatten are the array-holding attributes -/
theorem C18_leaves_partial (h : List Event) (o : Obj) (ho : o ∈ (run h).objs)
    (clause : Representative (run h).reg o) : dynAttrs (run h).reg o = arrAttrs (run h).reg o := by
  obtain ⟨hreg, hn⟩ := inv_run h o ho
  exact (C18_leaves _ o hreg hn).mpr clause

/-! ### the clause is needed: a reachable history breaks "leaves = array parameters"

  Classes: 0 = LinearOperator, 1 = Dense, 2 = Sliced, 3 = `Sliced[]` (the parametrised class of every
  `A[..., ...]`, whatever A and whatever the index objects).  Attributes: 5 = A, 6 = slices.
  `Dense(M)` has A = array 100.  `A[1:3, :]` has slices = (slice, slice) = two atoms;
  `A[idx, jdx]` has slices = (array 7, array 8). -/

def mkDense : Event :=
  .construct 1 [(Attr.device, .atom 0), (5, .arr 100), (Attr.dtype, .atom 1), (Attr.shape, .atom 2), (Attr.xnp, .atom 3),
                (Attr.annotations, .atom 4)]
def denseVal : Val :=
  .obj 1 (.cons Attr.device (.atom 0) (.cons 5 (.arr 100) (.cons Attr.dtype (.atom 1) (.cons Attr.shape (.atom 2)
    (.cons Attr.xnp (.atom 3) (.cons Attr.annotations (.atom 4) .nil))))))
def mkSliced (slices : Val) : Event :=
  .construct 3 [(Attr.device, .atom 0), (5, denseVal), (6, slices), (Attr.dtype, .atom 1), (Attr.shape, .atom 2),
                (Attr.xnp, .atom 3), (Attr.annotations, .atom 4), (Attr.device, .atom 0)]
def bySlices : Val := .tup (.cons (.atom 10) (.cons (.atom 11) .nil))
def byArrays : Val := .tup (.cons (.arr 7) (.cons (.arr 8) .nil))
def prelude : List Event := [.subclass 1 0, .subclass 2 0, .subclass 3 2, mkDense]

/-- the operator the LAST constructor call of a history built -/
def lastObj (h : List Event) : Option Obj := (run h).objs.getLast?

/-- history 1: `A[1:3, :]` first, then `A[idx, jdx]` -/
def slicesFirst : List Event := prelude ++ [mkSliced bySlices, mkSliced byArrays]
/-- history 2: `A[idx, jdx]` first, then `A[1:3, :]` -/
def arraysFirst : List Event := prelude ++ [mkSliced byArrays, mkSliced bySlices]

/-- Witness 1 (slice first): the index arrays 7 and 8 of `A[idx, jdx]` are NOT leaves — the leaves are
    only the array of A — although they are array parameters of the operator. -/
theorem C18_leaves_clause_needed :
    ∃ o, lastObj slicesFirst = some o ∧ o ∈ (run slicesFirst).objs ∧
      Val.leaves (run slicesFirst).reg (.obj o.cls o.fields) = [.arr 100] ∧
      Val.arrays (.obj o.cls o.fields) = [.arr 100, .arr 7, .arr 8] ∧
      dynAttrs (run slicesFirst).reg o ≠ arrAttrs (run slicesFirst).reg o ∧
      clauses (run slicesFirst).reg o = ["first-instance-representative"] := by
  refine ⟨⟨3, _⟩, rfl, ?_, ?_, ?_, ?_, ?_⟩ <;> decide

/-- Witness 2 (array first): the leaves of `A[1:3, :]` contain the two slice objects, which are not
    arrays. -/
theorem C18_leaves_clause_needed_arrays_first :
    ∃ o, lastObj arraysFirst = some o ∧ o ∈ (run arraysFirst).objs ∧
      Val.leaves (run arraysFirst).reg (.obj o.cls o.fields) = [.arr 100, .atom 10, .atom 11] ∧
      Val.arrays (.obj o.cls o.fields) = [.arr 100] ∧
      clauses (run arraysFirst).reg o = ["first-instance-representative"] := by
  refine ⟨⟨3, _⟩, rfl, ?_, ?_, ?_, ?_⟩ <;> decide

/-- History dependence proper: the SAME constructor call `A[idx, jdx]` yields an operator whose leaves
    are its three arrays when it is the first `Sliced[]` of the process, and only one of them when an
    `A[1:3, :]` was built before. -/
theorem C18_leaves_history_dependent :
    ∃ o1 o2, lastObj (prelude ++ [mkSliced byArrays]) = some o1 ∧ lastObj slicesFirst = some o2 ∧ o1 = o2 ∧
      Val.leaves (run (prelude ++ [mkSliced byArrays])).reg (.obj o1.cls o1.fields) = [.arr 100, .arr 7, .arr 8] ∧
      Val.leaves (run slicesFirst).reg (.obj o2.cls o2.fields) = [.arr 100] := by
  refine ⟨⟨3, _⟩, ⟨3, _⟩, rfl, rfl, ?_, ?_, ?_⟩ <;> decide

/-- the hypotheses are satisfiable: in the first history every operator satisfies the clause, is
    registered, and its leaves are its arrays -/
example : ∀ o ∈ (run (prelude ++ [mkSliced byArrays])).objs,
    clauses (run (prelude ++ [mkSliced byArrays])).reg o = [] ∧
    Val.leaves (run (prelude ++ [mkSliced byArrays])).reg (.obj o.cls o.fields) = Val.arrays (.obj o.cls o.fields) := by
  decide

example : AssignsDevice slicesFirst := by
  intro c as hm
  simp only [slicesFirst, prelude, mkDense, mkSliced, List.cons_append, List.nil_append, List.mem_cons,
    List.not_mem_nil, or_false, reduceCtorEq, false_or, Event.construct.injEq] at hm
  rcases hm with ⟨_, rfl⟩ | ⟨_, rfl⟩ | ⟨_, rfl⟩ <;> exact ⟨.atom 0, by simp⟩

end C18

#print axioms C18.C18_safe
#print axioms C18.C18_safe_discipline_needed
#print axioms C18.C18_sites
#print axioms C18.C18_sites_classes
#print axioms C18.C18_allow_list_empty
#print axioms C18.C18_sites_safe
#print axioms C18.C18_reasons_safe
#print axioms C18.C18_sites_mechanical
#print axioms C18.C18_clause_rows
#print axioms C18.C18_sites_no_exemption
#print axioms C18.C18_call_edges_present
#print axioms C18.C18_call_discipline_needed
#print axioms C18.C18_roundtrip
#print axioms C18.C18_verdict_fixed
#print axioms C18.C18_verdict_is_first
#print axioms C18.C18_leaves
#print axioms C18.C18_leaves_partial
#print axioms C18.C18_leaves_clause_needed
#print axioms C18.C18_leaves_clause_needed_arrays_first
#print axioms C18.C18_leaves_history_dependent
