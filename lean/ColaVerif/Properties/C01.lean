import ColaVerif.Lemmas.OpMatmat
import ColaVerif.Lemmas.OpDtype

/-!
# C01 — an operator acts on arrays exactly as the matrix it represents (property theorems)

`Op R` : operator expression trees over all modelled kinds (any depth, arity, shapes);
`A.den` : the represented matrix (specification);
`A.mm b X`, `A.td` : the code model of `A @ X` and `A.to_dense()` (cola/ops/operators.py).
Hypotheses: `A.wf` (the constructor preconditions), `A.dupSlice = false` (clause
`sliced-repeated-index`, a recorded defect: see `C01_clause_needed`), `A.HermOK` (every node that
reports SelfAdjoint is Hermitian — what C05 establishes for inferred annotations and what the user
promises for declared ones; it is only used by the default left-product shortcut).
-/

namespace C01
variable {R : Type} [CommRing R] [StarRing R] [DecidableEq R]

/-- `A @ X` is the represented matrix times `X`, for every tree, every number of columns. -/
theorem C01_matmat_partial (A : Op R) (hwf : A.wf = true) (hnd : A.dupSlice = false) (hh : A.HermOK)
    (b : Nat) (X : MatF R) :
    EqOn A.rows b (A.mm b X).f (mmul A.cols A.den.f X) := Op.mm_eq A hwf hnd hh b X

/-- a 1-D operand is reshaped to a column: the model of `A @ x` is the one-column case. -/
theorem C01_matvec_partial (A : Op R) (hwf : A.wf = true) (hnd : A.dupSlice = false) (hh : A.HermOK)
    (x : Nat → R) (i : Nat) (hi : i < A.rows) :
    (A.mm 1 (fun q _ => x q)).f i 0 = ∑ q ∈ Finset.range A.cols, A.den.f i q * x q := by
  have h := Op.mm_eq A hwf hnd hh 1 (fun q _ => x q) i 0 hi (by omega)
  rw [h, mmul_apply]

/-- `A.to_dense()` (kind-specific or through `A @ I` / `I @ A`) is the represented matrix. -/
theorem C01_toDense_partial (A : Op R) (hwf : A.wf = true) (hnd : A.dupSlice = false) (hh : A.HermOK) :
    EqOn A.rows A.cols A.td.f A.den.f := Op.td_eq A hwf hnd hh

/-! ## dtype -/

omit [CommRing R] [StarRing R] [DecidableEq R] in
/-- **C01 (dtype).**  The dtype every constructor computes (`Op.dtype`: `reduce(promote_types, …)`
over the members for Product / Sum / Kronecker / KronSum / BlockDiag / Concatenated, the parent's
dtype for Transpose / Adjoint / Sliced / `no_dispatch` / declaration wrappers) is the join of the
dtypes of the payload-carrying leaves of the tree (`Op.dtypeSpec`, Model/Dtype.lean: complex iff
some leaf is complex, double precision iff some leaf is) — for EVERY tree, no hypothesis. -/
theorem C01_dtype (A : Op R) : A.dtype = A.dtypeSpec := Op.dtype_eq_dtypeSpec A

omit [CommRing R] [StarRing R] [DecidableEq R] in
/-- **C01 (result dtype).**  `A @ X`, `X @ A` return an array of dtype
`promote_types(A.dtype, X.dtype)` (`Op.mmDtype`, what every `_matmat` / `_rmatmat` ends in); that is
the join of the leaf dtypes of `A` and the operand's dtype (`Op.mmDtypeSpec`): "the promoted dtype
of the dense computation".  `A.to_dense()` has dtype `A.dtype`, covered by `C01_dtype`. -/
theorem C01_result_dtype (A : Op R) (xdt : DType) : A.mmDtype xdt = A.mmDtypeSpec xdt :=
  Op.mmDtype_eq_spec A xdt

/-- the specification really is NumPy's promotion table on an example with all four dtypes:
`kron(f32, prod(c64, f64))` is complex128, and multiplying a float32 array into a
`sum(f32, c64)` gives complex64 -/
example :
    (Op.kron [.dense .f32 1 1 (fun _ _ => (1 : Int)),
      .prod [.diag .c64 1 (fun _ => 1), .eye .f64 1]]).dtypeSpec = .c128 ∧
    (Op.sum [.dense .f32 1 1 (fun _ _ => (1 : Int)), .diag .c64 1 (fun _ => 1)]).mmDtypeSpec .f32
      = .c64 := by
  simp [Op.dtypeSpec, Op.mmDtypeSpec, Op.leafDtypes, DType.join, DType.isComplex, DType.isDouble,
    DType.mk]

/-- the clause is needed: with a repeated index the scatter `Y[idx] = X` (last write wins) of
`Sliced._matmat` loses a contribution — kernel-level witness (a 1×2 parent `[1 2]`, columns
`[0, 0]`, operand `[1, 1]ᵀ`): the code gives 1, the represented matrix `[1 1]` gives 2. -/
theorem C01_clause_needed :
    let A : MatF Int := fun _ j => if j = 0 then 1 else 2
    let act : MatF Int → MatV Int := fun Y => MatV.of (mmul 2 A Y)
    (slicedMatmat act [0] [0, 0] (fun _ _ => 1)).f 0 0 = 1 ∧
      mmul 2 (slicedDen A [0] [0, 0]) (fun _ _ => 1) 0 0 = 2 := by
  decide

/-- non-vacuity: a nested tree satisfying the hypotheses. -/
example :
    let A : Op Int := .kron [.dense .f64 2 1 (fun i _ => i + 1), .prod [.eye .f64 2, .diag .f64 2 (fun i => i + 2)]]
    A.wf = true ∧ A.dupSlice = false := by
  simp [Op.wf, Op.dupSlice, Op.chainOk, Op.rows, Op.cols]

end C01

#print axioms C01.C01_matmat_partial
#print axioms C01.C01_matvec_partial
#print axioms C01.C01_toDense_partial
#print axioms C01.C01_dtype
#print axioms C01.C01_result_dtype
#print axioms C01.C01_clause_needed
#print axioms kronMatmat_eq
#print axioms kronSumMatmat_eq
#print axioms bdiagMatmat_eq
