import ColaVerif.Lemmas.OpMatmat
import ColaVerif.Lemmas.OpDtype
import ColaVerif.Lemmas.OpMatmatDtype
import ColaVerif.Lemmas.KernelOp
import ColaVerif.Lemmas.TreeWitnesses

/-!
# C01 — an operator acts on arrays exactly as the matrix it represents (property theorems)

`Op R` : operator expression trees over all modelled kinds (any depth, arity, shapes);
`A.den` : the represented matrix (specification);
`A.mm b X`, `A.td` : the code model of `A @ X` and `A.to_dense()` (cola/ops/operators.py).
Hypotheses: `A.wf` (the constructor preconditions), `A.dupSlice = false` (clause
`sliced-repeated-index`, a recorded defect: see `C01_clause_needed`), `A.HermOK` (every node that
reports SelfAdjoint is Hermitian — what C05 establishes for inferred annotations and what the user
promises for declared ones; it is only used by the default left-product shortcut).
-/

namespace C01
variable {R : Type} [CommRing R] [StarRing R] [DecidableEq R]

/-- `A @ X` is the represented matrix times `X`, for every tree, every number of columns. -/
theorem C01_matmat_partial (A : Op R) (hwf : A.wf = true) (hnd : A.dupSlice = false) (hh : A.HermOK)
    (b : Nat) (X : MatF R) :
    EqOn A.rows b (A.mm b X).f (mmul A.cols A.den.f X) := Op.mm_eq A hwf hnd hh b X

/-- a 1-D operand is reshaped to a column: the model of `A @ x` is the one-column case. -/
theorem C01_matvec_partial (A : Op R) (hwf : A.wf = true) (hnd : A.dupSlice = false) (hh : A.HermOK)
    (x : Nat → R) (i : Nat) (hi : i < A.rows) :
    (A.mm 1 (fun q _ => x q)).f i 0 = ∑ q ∈ Finset.range A.cols, A.den.f i q * x q := by
  have h := Op.mm_eq A hwf hnd hh 1 (fun q _ => x q) i 0 hi (by omega)
  rw [h, mmul_apply]

/-- `A.to_dense()` (kind-specific or through `A @ I` / `I @ A`) is the represented matrix. -/
theorem C01_toDense_partial (A : Op R) (hwf : A.wf = true) (hnd : A.dupSlice = false) (hh : A.HermOK) :
    EqOn A.rows A.cols A.td.f A.den.f := Op.td_eq A hwf hnd hh

/-! ## dtype -/

omit [CommRing R] [StarRing R] [DecidableEq R] in
/-- **C01 (dtype).**  The dtype every constructor computes (`Op.dtype`: `reduce(promote_types, …)`
over the members for Product / Sum / Kronecker / KronSum / BlockDiag / Concatenated, the parent's
dtype for Transpose / Adjoint / Sliced / `no_dispatch` / declaration wrappers) is the join of the
dtypes of the payload-carrying leaves of the tree (`Op.dtypeSpec`, Model/Dtype.lean: complex iff
some leaf is complex, double precision iff some leaf is) — for EVERY tree, no hypothesis. -/
theorem C01_dtype (A : Op R) : A.dtype = A.dtypeSpec := Op.dtype_eq_dtypeSpec A

omit [CommRing R] [StarRing R] [DecidableEq R] in
/-- **C01 (result dtype) — DEFINITIONAL, not in the audited list.**  `Op.mmDtype A x` is DEFINED as
`promote_types(A.dtype, X.dtype)`; it is not a model of what any `_matmat` does, so this is a lattice
identity (`promote` of a join = join), a corollary of `C01_dtype`.  The statement about the CODE is
`C01_result_dtype_model` (recursive model `Op.mmDt`), which is the audited one.  Original text:
`A @ X`, `X @ A` return an array of dtype
`promote_types(A.dtype, X.dtype)` (`Op.mmDtype`, what every `_matmat` / `_rmatmat` ends in); that is
the join of the leaf dtypes of `A` and the operand's dtype (`Op.mmDtypeSpec`): "the promoted dtype
of the dense computation".  `A.to_dense()` has dtype `A.dtype`, covered by `C01_dtype`. -/
theorem C01_result_dtype (A : Op R) (xdt : DType) : A.mmDtype xdt = A.mmDtypeSpec xdt :=
  Op.mmDtype_eq_spec A xdt

/-- **C01 (result dtype, code model).**  `Op.mmDt A x` (Model/MatmatDtype.lean) computes the dtype
of `A._matmat(X)` by recursion over the tree from what each class DOES with dtypes: Dense casts both
operands to the promoted dtype, Identity / Permutation cast the operand, Sliced allocates its
scatter buffer in the promoted dtype, KronSum accumulates in place into a buffer of the promoted
dtype, Sum / BlockDiag / Concatenated join their members' results, Product / Kronecker thread the
operand through the factors, Transpose / Adjoint go through `_rmatmat` (`Op.rmmDt`, with the default
of `operator_base.py`).  For every tree the constructors accept, the result is the join of the leaf
dtypes and the operand's dtype.  This is the value the driver prints as the code-model `resdt`. -/
theorem C01_result_dtype_model (A : Op R) (hwf : A.wf = true) (xdt : DType) :
    A.mmDt xdt = A.mmDtypeSpec xdt := Op.mmDt_eq_spec A hwf xdt

/-- … which is `promote_types(A.dtype, X.dtype)`, the round-2 definition `Op.mmDtype` -/
theorem C01_result_dtype_promote (A : Op R) (hwf : A.wf = true) (xdt : DType) :
    A.mmDt xdt = A.mmDtype xdt := (Op.mmDt_rmmDt_eq A hwf).1 xdt

/-- inside `KronSum._matmat` every member product already has the accumulator's dtype: the in-place
`out += …` never needs a cast (NumPy refuses a complex-to-real in-place cast) -/
theorem C01_kronsum_accumulator (Ms : List (Op R)) (hwf : (Op.kronsum Ms).wf = true) (xdt : DType) :
    ∀ M ∈ Ms, M.mmDt (DType.promote (Op.kronsum Ms).dtype xdt) = (Op.kronsum Ms).mmDt xdt :=
  Op.kronsum_member_dt Ms hwf xdt

/-- `wf` is needed for the result dtype: `BlockDiag(A_f32, B_c128, multiplicities=[1])` (not `wf`:
one multiplicity for two blocks) reports complex128, multiplies only the zipped prefix, and returns
float32 for a float32 operand -/
theorem C01_result_dtype_wf_needed :
    let A : Op Int := .bdiag [.dense .f32 1 1 (fun _ _ => 1), .dense .c128 1 1 (fun _ _ => 1)] [1]
    A.wf = false ∧ A.mmDt .f32 = .f32 ∧ DType.promote A.dtype .f32 = .c128 := Op.mmDt_wf_needed

/-- the recursion really follows the tree: a float32 operand into
`Sliced(Sum(Identity(f32), Diagonal(c64)))ᵀ` comes back complex64 through the Sliced buffer, the
Sum's join and the Transpose's `_rmatmat` -/
example :
    (Op.transpose (.sliced (.sum [.eye .f32 2, .diag .c64 2 (fun _ => (1 : Int))])
      (.slice none none none) (.slice none none none))).mmDt .f32 = .c64 := by
  simp [Op.mmDt, Op.rmmDt, Op.dtype, DType.npJoin, DType.npBin, DType.castTo, DType.promote,
    DType.mk, DType.isComplex, DType.isDouble]

/-- the specification really is NumPy's promotion table on an example with all four dtypes:
`kron(f32, prod(c64, f64))` is complex128, and multiplying a float32 array into a
`sum(f32, c64)` gives complex64 -/
example :
    (Op.kron [.dense .f32 1 1 (fun _ _ => (1 : Int)),
      .prod [.diag .c64 1 (fun _ => 1), .eye .f64 1]]).dtypeSpec = .c128 ∧
    (Op.sum [.dense .f32 1 1 (fun _ _ => (1 : Int)), .diag .c64 1 (fun _ => 1)]).mmDtypeSpec .f32
      = .c64 := by
  simp [Op.dtypeSpec, Op.mmDtypeSpec, Op.leafDtypes, DType.join, DType.isComplex, DType.isDouble,
    DType.mk]

/-- the clause is needed: with a repeated index the scatter `Y[idx] = X` (last write wins) of
`Sliced._matmat` loses a contribution — kernel-level witness (a 1×2 parent `[1 2]`, columns
`[0, 0]`, operand `[1, 1]ᵀ`): the code gives 1, the represented matrix `[1 1]` gives 2. -/
theorem C01_clause_needed :
    let A : MatF Int := fun _ j => if j = 0 then 1 else 2
    let act : MatF Int → MatV Int := fun Y => MatV.of (mmul 2 A Y)
    (slicedMatmat act [0] [0, 0] (fun _ _ => 1)).f 0 0 = 1 ∧
      mmul 2 (slicedDen A [0] [0, 0]) (fun _ _ => 1) 0 0 = 2 := by
  decide

/-! ## `Kernel` (not an `Op` constructor: its matrix is given by a callback) -/

omit [StarRing R] [DecidableEq R] in
/-- **C01 (Kernel).**  `Kernel._matmat` — two nested block loops, the last block of each running to
the end, also when the block size exceeds the extent — computes `K @ V`, `K i j = fn(x1_i, x2_j)`,
for all extents, all positive block sizes, every operand.  (`harness/props/c01.py: kernel_stream`
ties `kernelMatmat` to `cola.ops.Kernel`.) -/
theorem C01_kernel_matmat (K : MatF R) (n m bs1 bs2 : Nat) (h1 : 0 < bs1) (h2 : 0 < bs2)
    (V : MatF R) (b : Nat) :
    EqOn n b (kernelMatmat K n m bs1 bs2 V).f (mmul m K V) := by
  intro I j hI _
  rw [kernelMatmat_eq K n m bs1 bs2 h1 h2 V I j hI, mmul_apply]

/-- the blocks the loops visit are consecutive and cover `[0, n)` exactly -/
theorem C01_kernel_blocks_cover (n bs : Nat) (h : 0 < bs) : BlockChain 0 n (blockRanges n bs) :=
  blockRanges_cover n bs h

omit [StarRing R] [DecidableEq R] in
/-- one row block: the column blocks sum every column once -/
theorem C01_kernel_update (K : MatF R) (lo1 m bs2 : Nat) (h2 : 0 < bs2) (V : MatF R) (i j : Nat) :
    kernelUpdate K lo1 (blockRanges m bs2) V i j = ∑ q ∈ Finset.range m, K (lo1 + i) q * V q j :=
  kernelUpdate_eq K lo1 m bs2 h2 V i j

/-- non-trivial instances of the block structure: a ragged last block (5 = 2 + 3), a block size
larger than the extent (one short block, /repo cc511ed), an exact fit; and the hypothesis `0 < bs`
is what the Python needs as well (`n // 0` raises) -/
theorem C01_kernel_blocks_example :
    blockRanges 5 2 = [(0, 2), (2, 5)] ∧ blockRanges 2 3 = [(0, 2)] ∧
      blockRanges 6 3 = [(0, 3), (3, 6)] ∧ blockRanges 7 1 = (List.range 7).map (fun i => (i, i + 1)) := by
  decide

/-! ## the hypotheses are satisfiable, also with SelfAdjoint-reporting nodes -/

/-- **witness for `HermOK` with reporting nodes**: on `hermWitness` (a `Sum` of two declared
SelfAdjoint complex Hermitian 2 × 2 operators with non-real off-diagonal entries, the second one a
`no_dispatch` wrapper whose left product takes the conjugation shortcut) all hypotheses hold and
the root reports SelfAdjoint — so the main theorems apply to it -/
theorem C01_hermWitness :
    hermWitness.wf = true ∧ hermWitness.dupSlice = false ∧ hermWitness.HermOK ∧
      hermWitness.isa .selfAdjoint = true ∧
      (∀ b X, EqOn hermWitness.rows b (hermWitness.mm b X).f (mmul hermWitness.cols hermWitness.den.f X)) ∧
      EqOn hermWitness.rows hermWitness.cols hermWitness.td.f hermWitness.den.f :=
  have h := hermWitness_good
  ⟨h.1, h.2.1, h.2.2.1, hermWitness_reports.1,
    fun b X => C01_matmat_partial hermWitness h.1 h.2.1 h.2.2.1 b X,
    C01_toDense_partial hermWitness h.1 h.2.1 h.2.2.1⟩

/-- non-vacuity: a nested tree satisfying the hypotheses. -/
example :
    let A : Op Int := .kron [.dense .f64 2 1 (fun i _ => i + 1), .prod [.eye .f64 2, .diag .f64 2 (fun i => i + 2)]]
    A.wf = true ∧ A.dupSlice = false := by
  simp [Op.wf, Op.dupSlice, Op.chainOk, Op.rows, Op.cols]

end C01

#print axioms C01.C01_matmat_partial
#print axioms C01.C01_matvec_partial
#print axioms C01.C01_toDense_partial
#print axioms C01.C01_dtype
#print axioms C01.C01_result_dtype_model
#print axioms C01.C01_result_dtype_promote
#print axioms C01.C01_kronsum_accumulator
#print axioms C01.C01_result_dtype_wf_needed
#print axioms C01.C01_clause_needed
#print axioms C01.C01_kernel_matmat
#print axioms C01.C01_kernel_blocks_cover
#print axioms C01.C01_kernel_update
#print axioms C01.C01_kernel_blocks_example
#print axioms C01.C01_hermWitness
#print axioms kronMatmat_eq
#print axioms kronSumMatmat_eq
#print axioms bdiagMatmat_eq
