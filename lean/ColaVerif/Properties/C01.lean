import ColaVerif.Lemmas.OpMatmat

/-!
# C01 — an operator acts on arrays exactly as the matrix it represents (property theorems)

`Op R` : operator expression trees over all modelled kinds (any depth, arity, shapes);
`A.den` : the represented matrix (specification);
`A.mm b X`, `A.td` : the code model of `A @ X` and `A.to_dense()` (cola/ops/operators.py).
Hypotheses: `A.wf` (the constructor preconditions), `A.dupSlice = false` (clause
`sliced-repeated-index`, a recorded defect: see `C01_clause_needed`), `A.HermOK` (every node that
reports SelfAdjoint is Hermitian — what C05 establishes for inferred annotations and what the user
promises for declared ones; it is only used by the default left-product shortcut).
-/

namespace C01
variable {R : Type} [CommRing R] [StarRing R] [DecidableEq R]

/-- `A @ X` is the represented matrix times `X`, for every tree, every number of columns. -/
theorem C01_matmat_partial (A : Op R) (hwf : A.wf = true) (hnd : A.dupSlice = false) (hh : A.HermOK)
    (b : Nat) (X : MatF R) :
    EqOn A.rows b (A.mm b X).f (mmul A.cols A.den.f X) := Op.mm_eq A hwf hnd hh b X

/-- a 1-D operand is reshaped to a column: the model of `A @ x` is the one-column case. -/
theorem C01_matvec_partial (A : Op R) (hwf : A.wf = true) (hnd : A.dupSlice = false) (hh : A.HermOK)
    (x : Nat → R) (i : Nat) (hi : i < A.rows) :
    (A.mm 1 (fun q _ => x q)).f i 0 = ∑ q ∈ Finset.range A.cols, A.den.f i q * x q := by
  have h := Op.mm_eq A hwf hnd hh 1 (fun q _ => x q) i 0 hi (by omega)
  rw [h, mmul_apply]

/-- `A.to_dense()` (kind-specific or through `A @ I` / `I @ A`) is the represented matrix. -/
theorem C01_toDense_partial (A : Op R) (hwf : A.wf = true) (hnd : A.dupSlice = false) (hh : A.HermOK) :
    EqOn A.rows A.cols A.td.f A.den.f := Op.td_eq A hwf hnd hh

/-- the clause is needed: with a repeated index the scatter `Y[idx] = X` (last write wins) of
`Sliced._matmat` loses a contribution — kernel-level witness (a 1×2 parent `[1 2]`, columns
`[0, 0]`, operand `[1, 1]ᵀ`): the code gives 1, the represented matrix `[1 1]` gives 2. -/
theorem C01_clause_needed :
    let A : MatF Int := fun _ j => if j = 0 then 1 else 2
    let act : MatF Int → MatV Int := fun Y => MatV.of (mmul 2 A Y)
    (slicedMatmat act [0] [0, 0] (fun _ _ => 1)).f 0 0 = 1 ∧
      mmul 2 (slicedDen A [0] [0, 0]) (fun _ _ => 1) 0 0 = 2 := by
  decide

/-- non-vacuity: a nested tree satisfying the hypotheses. -/
example :
    let A : Op Int := .kron [.dense .f64 2 1 (fun i _ => i + 1), .prod [.eye .f64 2, .diag .f64 2 (fun i => i + 2)]]
    A.wf = true ∧ A.dupSlice = false := by
  simp [Op.wf, Op.dupSlice, Op.chainOk, Op.rows, Op.cols]

end C01

#print axioms C01.C01_matmat_partial
#print axioms C01.C01_matvec_partial
#print axioms C01.C01_toDense_partial
#print axioms C01.C01_clause_needed
#print axioms kronMatmat_eq
#print axioms kronSumMatmat_eq
#print axioms bdiagMatmat_eq
