import ColaVerif.Lemmas.BlockDiag
import ColaVerif.Lemmas.KronSum

/-!
# C01 — an operator acts on arrays exactly as the matrix it represents (property theorems)
-/

#print axioms kronMatmat_eq
#print axioms kronSumMatmat_eq
#print axioms bdiagMatmat_eq
#print axioms kronDense_eq
#print axioms kronSumDense_eq
