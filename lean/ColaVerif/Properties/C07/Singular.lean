import ColaVerif.Model.LogDetSing
import ColaVerif.Lemmas.LogDetLanczos
import ColaVerif.Properties.C07

/-!
# C07, round 5 — singular inputs (`det = 0`) and the tie of the Lanczos kernel to the driver's answers

(viii) Every theorem of `Properties/C07.lean` has `… = .ok _` as a hypothesis and was only exercised on non-singular
inputs.  Here the rule model `slogdetG` is instantiated a third time, over the IEEE outcome abstraction
`Op.IEEEOut = fin | sing | junk` (`Model/LogDetSing.lean`: `sing` = the pair `(nan, -inf)` that `0/0`, `log 0` produce and
that products / sums / positive powers preserve), and

* `C07_singular_outcome`   — any tree, any kernels under the contract `KernelsOK`: an answer `sing` means `det (den A) = 0`,
                             an answer `fin` means `det (den A) ≠ 0`;
* `C07_singular_same_errors` — the IEEE instance raises exactly where the exact instance `claimedDet` raises (same message):
                             singular inputs add no exception to the structural rules;
* `C07_singular_structural` — on a tree that reaches no base case (`structuralOnly`) the rules ANSWER (no exception, whatever the
                             kernels) with `sing` and `det = 0`, or with `fin` and `det ≠ 0`; `C07_singular_iff`: `sing ↔ det = 0`;
* `C07_singular_witness`, `C07_positive_multiplicity_needed` — a singular Kronecker tree answered `sing` with all hypotheses
                             discharged; a BlockDiag with multiplicity 0 of a singular block answers `junk` (`nan ** 0 = 1`,
                             `-inf * 0 = nan`) although the determinant is 1: the clause `structuralOnly` (positive multiplicities) is needed.

So in the model a singular operator gives `logabs = -inf` (the correct `log |0|`) and `sign = nan` through every structural rule
and through the LU rule (a zero on the diagonal of `U`), and the kernel's exception through the Cholesky rule; the harness
stream `singular` compares exactly this with the real code.  (NumPy's `slogdet` returns `sign = 0` for a singular matrix;
cola's `nan` is what the code does and what the model says — the phase of 0 is not defined by the property.)

(i) `C07_lanczos_kernel_value` — under the hypotheses the driver CHECKS on each case of the stream `kernel-tie` (square, `den A`
Hermitian, `det ≠ 0`, `1 ≤ n ≤ max_iters`, `tol = 0`) the theorem-side kernel `Op.lanczosKernels` answers, and EVERY answer `t` has
`exp t = det (den A)` — the number the driver's `trlogK` (exact Krylov model, represented by `exp` of the trace) is compared
with exactly, and the real kernel within tolerance.
-/

set_option linter.unusedSectionVars false

open Op

namespace C07

section singular
variable {R : Type} [CommRing R] [StarRing R] [DecidableEq R] [IsDomain R]

/-- an answer `sing` (`(nan, -inf)`) means the determinant is 0, an answer `fin` that it is not -/
theorem C07_singular_outcome (K : DetKernels R R) (hK : KernelsOK K) (la : LogAlg) (ta : TraceAlg) (A : Op R)
    (hwf : A.wf = true) (hnd : A.dupSlice = false) (hh : A.HermOK) (ht : A.triTrue = true)
    (hs : A.sqMembers = true) (o : IEEEOut) (h : slogdetG ieeeOps K la ta A = .ok o) :
    (o = .sing → Matrix.det (MatF.toMatrix A.rows A.rows A.den.f) = 0) ∧
    (o = .fin → Matrix.det (MatF.toMatrix A.rows A.rows A.den.f) ≠ 0) := by
  have hr := ieee_rel K la ta A
  rw [h] at hr
  cases hc : claimedDet K la ta A with
  | error e => rw [hc] at hr; simp [ExRel] at hr
  | ok d =>
    rw [hc] at hr
    have hd := C07_det K hK la ta A hwf hnd hh ht hs d hc
    simp only [ExRel] at hr
    rw [← hd]
    exact hr

/-- the IEEE instance raises exactly where the exact instance raises, with the same message -/
theorem C07_singular_same_errors (K : DetKernels R R) (la : LogAlg) (ta : TraceAlg) (A : Op R) (e : String) :
    slogdetG ieeeOps K la ta A = .error e ↔ claimedDet K la ta A = .error e := by
  have hr := ieee_rel K la ta A
  cases hc : claimedDet K la ta A <;> cases hi : slogdetG ieeeOps K la ta A <;>
    rw [hc, hi] at hr <;> simp_all [ExRel]

/-- structural rules only: answered, never an exception, `(nan, -inf)` with `det = 0` or a finite pair with `det ≠ 0` -/
theorem C07_singular_structural (K : DetKernels R R) (hK : KernelsOK K) (la : LogAlg) (ta : TraceAlg) (A : Op R)
    (hwf : A.wf = true) (hnd : A.dupSlice = false) (hh : A.HermOK) (ht : A.triTrue = true)
    (hs : A.sqMembers = true) (hst : A.structuralOnly = true) :
    ∃ o, slogdetG ieeeOps K la ta A = .ok o ∧
      ((o = .sing ∧ Matrix.det (MatF.toMatrix A.rows A.rows A.den.f) = 0) ∨
       (o = .fin ∧ Matrix.det (MatF.toMatrix A.rows A.rows A.den.f) ≠ 0)) := by
  obtain ⟨o, ho, hj⟩ := slogdetAt_structural K la ta A A hst
  have hout := C07_singular_outcome K hK la ta A hwf hnd hh ht hs o ho
  refine ⟨o, ho, ?_⟩
  cases o with
  | fin => exact Or.inr ⟨rfl, hout.2 rfl⟩
  | sing => exact Or.inl ⟨rfl, hout.1 rfl⟩
  | junk => exact absurd rfl hj

/-- … hence on such a tree the model returns `(nan, -inf)` exactly when the represented matrix is singular -/
theorem C07_singular_iff (K : DetKernels R R) (hK : KernelsOK K) (la : LogAlg) (ta : TraceAlg) (A : Op R)
    (hwf : A.wf = true) (hnd : A.dupSlice = false) (hh : A.HermOK) (ht : A.triTrue = true)
    (hs : A.sqMembers = true) (hst : A.structuralOnly = true) :
    slogdetG ieeeOps K la ta A = .ok .sing ↔ Matrix.det (MatF.toMatrix A.rows A.rows A.den.f) = 0 := by
  obtain ⟨o, ho, h⟩ := C07_singular_structural K hK la ta A hwf hnd hh ht hs hst
  rcases h with ⟨rfl, hd⟩ | ⟨rfl, hd⟩
  · exact ⟨fun _ => hd, fun _ => ho⟩
  · constructor
    · intro h'
      rw [ho] at h'
      cases h'
    · intro h'
      exact absurd h' hd

end singular

/-- witness: `Kronecker(Diagonal([2, 0, 3]), Permutation([1, 0]))` satisfies every hypothesis of `C07_singular_structural`
and the rules answer `sing` = `(nan, -inf)` -/
theorem C07_singular_witness :
    let A : Op ℤ := .kron [.diag .f64 3 (fun i => if i = 1 then 0 else 2), .perm .f64 [1, 0]]
    A.wf = true ∧ A.dupSlice = false ∧ A.HermOK ∧ A.triTrue = true ∧ A.sqMembers = true ∧ A.structuralOnly = true ∧
      slogdetG ieeeOps noKernels .auto .auto A = .ok .sing := by
  refine ⟨?_, ?_, ?_, ?_, ?_, ?_, ?_⟩
  · simp [Op.wf]
  · simp [Op.dupSlice]
  · simp [Op.HermOK, Op.HermNode, Op.isa, Op.anns, AnnSet.isa, AnnSet.inter, AnnSet.interAll, Ann.sub]
  · simp [Op.triTrue]
  · simp [Op.sqMembers, Op.rows, Op.cols]
  · simp [Op.structuralOnly, Op.cols]
  · simp [slogdetG, slogdetAt, allOk, Except.map, SLOps.diagFold, SLOps.mulAll, ieeeOps, IEEEOut.mul, IEEEOut.pow,
      Op.cols, List.range, List.range.loop]

/-- positive multiplicities are needed: `BlockDiag([Diagonal([0])], multiplicities = [0])` is the empty matrix (determinant 1);
the rule computes `nan ** 0 = 1`, `-inf * 0 = nan` — the model's `junk`, neither a finite pair nor the singular pair -/
theorem C07_positive_multiplicity_needed :
    let A : Op ℤ := .bdiag [.diag .f64 1 (fun _ => 0)] [0]
    A.wf = true ∧ A.structuralOnly = false ∧ slogdetG ieeeOps noKernels .auto .auto A = .ok .junk ∧
      claimedDet noKernels .auto .auto A = .ok 1 := by
  refine ⟨?_, ?_, ?_, ?_⟩
  · simp [Op.wf]
  · simp [Op.structuralOnly]
  · simp [slogdetG, slogdetAt, allOk, Except.map, SLOps.diagFold, SLOps.mulAll, ieeeOps, IEEEOut.mul, IEEEOut.pow,
      List.range, List.range.loop]
  · simp [claimedDet, slogdetG, slogdetAt, allOk, Except.map, SLOps.diagFold, SLOps.mulAll, detOps,
      List.range, List.range.loop]

/-! ## (i) the theorem-side Lanczos kernel on the inputs of the stream `kernel-tie` -/

section tie
variable [DecidableEq ℂ]

/-- `tol = 0`, cap `≥ n`, `den A` Hermitian and non-singular (all CHECKED exactly by the driver on every case of the stream):
the kernel defined from the loop model of C14 answers, and every answer `t` satisfies `exp t = det (den A)` — the value the
driver's exact Krylov kernel `trlogK` (which represents the trace by `exp` of it) and the real kernel are compared with -/
theorem C07_lanczos_kernel_value (eigh : KrylovCompose.Eigh ℂ) (contract : KrylovCompose.EighContract eigh) (max_iters : ℕ)
    (la : LogAlg) (ta : TraceAlg) (A : Op ℂ) (sq : A.rows = A.cols)
    (herm : (MatF.toMatrix A.rows A.rows A.den.f).IsHermitian)
    (hdet : (MatF.toMatrix A.rows A.rows A.den.f).det ≠ 0) (hn : 1 ≤ A.rows) (hcap : A.rows ≤ max_iters) :
    (∃ t, (lanczosKernels eigh max_iters 0).trlog la ta A = .ok t) ∧
    ∀ t, (lanczosKernels eigh max_iters 0).trlog la ta A = .ok t →
      Complex.exp t = (MatF.toMatrix A.rows A.rows A.den.f).det := by
  obtain ⟨t, ht, he⟩ := lanczosKernels_answers eigh contract max_iters la ta A sq herm hdet hn hcap
  refine ⟨⟨t, ht⟩, ?_⟩
  intro t' ht'
  rw [ht] at ht'
  cases ht'
  exact he

end tie

end C07

#print axioms C07.C07_singular_outcome
#print axioms C07.C07_singular_same_errors
#print axioms C07.C07_singular_structural
#print axioms C07.C07_singular_iff
#print axioms C07.C07_singular_witness
#print axioms C07.C07_positive_multiplicity_needed
#print axioms C07.C07_lanczos_kernel_value
