import ColaVerif.Lemmas.OpIndex

/-!
# C20 — indexing and slicing an operator match indexing the represented matrix

`A.getitem ids` : the code model of `A[ids]` (`LinearOperator.__getitem__`,
cola/ops/operator_base.py:159-189, the `match` case by case: rows through `A.T @ e_i`, columns
through `A @ e_j`, sub-operators as lazy `Sliced`); `Op.npIndex r c D ids` : NumPy indexing of the
represented `r × c` matrix `D` (specification); `GRes.Agree code spec` : scalars equal, vectors
equal entrywise, operators of equal shape whose `to_dense()` (code side) equals the represented
matrix (spec side) on the window, errors of the same class.

Hypotheses: `A.wf`, `A.dupSlice = false`, `A.HermOK` (as in C01), `A.RealTyped` (as in C02: row
extraction goes through `A.T`), and the named clauses
* `NoArrPair ids`     — not both positions integer index arrays (`C20_arrayPair_clause_needed`);
* `NoDupIx A ids`     — the built `Sliced` operator repeats no index (`C20_dupIx_clause_needed`);
(the former clause `EqualLenLists` — finding `getitem-list-zip` — is gone: repaired in /repo dd36003,
`C20_listPair_regression`).
-/

namespace C20
variable {R : Type} [CommRing R] [StarRing R] [DecidableEq R]

open Op in
/-- `A[ids]` agrees with NumPy indexing of the represented matrix, for every index form of the
`match` of `__getitem__`: `A[i]`, `A[s]`, `A[b, j]`, `A[i, b]`, `A[s0, s1]`, `A[[i…], [j…]]`
(negative indices, strided / reversed slices, index arrays, non-square operators of every kind; for
two index lists: equal lengths, a single index broadcast against the other list, lists that cannot
be broadcast — IndexError on both sides —, empty lists),
and both sides answer `NotImplemented` for everything else. -/
theorem C20_getitem_partial (A : Op R) (ids : List GIx) (hwf : A.wf = true)
    (hnd : A.dupSlice = false) (hh : A.HermOK) (hr : A.RealTyped)
    (hp : NoArrPair ids) (hn : NoDupIx A ids) :
    GRes.Agree (A.getitem ids) (npIndex A.rows A.cols A.den.f ids) :=
  getitem_agree A ⟨hwf, hnd, hh⟩ hr ids hp hn

/-- readable special case `A[i, j]` (either sign): the entry of the represented matrix. -/
theorem C20_entry (A : Op R) (hwf : A.wf = true) (hnd : A.dupSlice = false) (hh : A.HermOK)
    (i j : Int) (p q : Nat) (hi : GRes.wrap A.rows i = some p) (hj : GRes.wrap A.cols j = some q) :
    A.getitem [.int i, .int j] = .scalar (A.colVec q p) ∧ A.colVec q p = A.den.f p q := by
  refine ⟨by simp [Op.getitem, GRes.indexVec, hi, hj], ?_⟩
  exact Op.colVec_eq A ⟨hwf, hnd, hh⟩ q p (GRes.wrap_lt _ _ _ hj) (GRes.wrap_lt _ _ _ hi)

/-- readable special case `A[i]` / `A[i, :]`-style row: entry `t` of the returned vector. -/
theorem C20_row (A : Op R) (hwf : A.wf = true) (hnd : A.dupSlice = false) (hh : A.HermOK)
    (hr : A.RealTyped) (i : Int) (p : Nat) (hi : GRes.wrap A.rows i = some p) :
    A.getitem [.int i] = .vec A.cols (A.rowVec p) ∧
      ∀ t, t < A.cols → A.rowVec p t = A.den.f p t := by
  refine ⟨by simp [Op.getitem, hi], fun t ht => ?_⟩
  exact Op.rowVec_eq A ⟨hwf, hnd, hh⟩ hr p t (GRes.wrap_lt _ _ _ hi) ht

/-! ## the clauses exclude real differences -/

/-- `NoArrPair` is needed: for two integer index arrays the code returns the 2 × 2 outer
sub-operator `A[[0,1]][:, [1,0]]`, NumPy pairs them into the vector `[A[0,1], A[1,0]]`. -/
theorem C20_arrayPair_clause_needed :
    let A : Op Int := .dense .f64 2 2 (fun i j => 2 * i + j)
    let ids : List GIx := [.ix (.arr [0, 1]), .ix (.arr [1, 0])]
    A.getitem ids = .op (.sliced A (.arr [0, 1]) (.arr [1, 0])) ∧
      (∃ v, Op.npIndex A.rows A.cols A.den.f ids = .vec 2 v) ∧
      ¬ GRes.Agree (A.getitem ids) (Op.npIndex A.rows A.cols A.den.f ids) := by
  simp [Op.getitem, Op.npIndex, Op.npPaired, Op.bcastIdx, Op.rows, Op.cols, Ix.resolve,
    GRes.wrapAll, GRes.wrap, GRes.Agree]

/-- `NoDupIx` is needed: `to_dense()` of a `Sliced` operator with a repeated column index goes
through the scatter `Y[idx] = X` (last write wins) — kernel-level witness: parent `[1 2]`,
columns `[0, 0]`, operand `I₂`: the code gives `[0 1]`, the represented matrix is `[1 1]`. -/
theorem C20_dupIx_clause_needed :
    let A : MatF Int := fun _ j => if j = 0 then 1 else 2
    let act : MatF Int → MatV Int := fun Y => MatV.of (mmul 2 A Y)
    (slicedMatmat act [0] [0, 0] eyeM).f 0 0 = 0 ∧ slicedDen A [0] [0, 0] 0 0 = 1 := by
  decide

/-- **regression for the repaired defect `getitem-list-zip`** (/repo dd36003; the code used to zip
the two lists): a single index is broadcast against the other list (`A[[0,1],[0]]` is the 2-vector
`[A[0,0], A[1,0]]`), lists that cannot be broadcast are rejected with `IndexError`, two empty lists
give the empty vector — each time exactly what NumPy indexing of the represented matrix gives -/
theorem C20_listPair_regression :
    let A : Op Int := .dense .f64 2 2 (fun i j => 2 * i + j)
    let bc : List GIx := [.list [0, 1], .list [0]]
    let mm : List GIx := [.list [0, 1, 0], .list [0, 1]]
    let em : List GIx := [.list [], .list []]
    (∃ v, A.getitem bc = .vec 2 v ∧ v 0 = 0 ∧ v 1 = 2) ∧
      GRes.Agree (A.getitem bc) (Op.npIndex A.rows A.cols A.den.f bc) ∧
      A.getitem mm = .err "index-error" ∧
      Op.npIndex A.rows A.cols A.den.f mm = .err "index-error" ∧
      (∃ v, A.getitem em = .vec 0 v) ∧ (∃ w, Op.npIndex A.rows A.cols A.den.f em = .vec 0 w) := by
  have hg : Op.Good (.dense .f64 2 2 (fun i j => 2 * i + j) : Op Int) :=
    ⟨by simp [Op.wf], by simp [Op.dupSlice], by
      simp [Op.HermOK, Op.HermNode, Op.isa, Op.anns, AnnSet.isa]⟩
  refine ⟨?_, Op.getitem_list_list _ hg _ _, ?_, ?_, ?_, ?_⟩
  · simp [Op.getitem, Op.listBcast, Op.rows, Op.cols, GRes.wrap, Op.colVec, Op.mm, Op.canonical,
      mmul, sumTo]
  · simp [Op.getitem, Op.listBcast]
  · simp [Op.npIndex, Op.npPaired, Op.bcastIdx]
  · simp [Op.getitem, Op.listBcast]
  · simp [Op.npIndex, Op.npPaired, Op.bcastIdx, GRes.wrapAll]

/-- non-vacuity: a nested non-square tree (4 × 2) with a reversed strided slice and an index
array satisfying all hypotheses and clauses. -/
example :
    let A : Op Int := .kron [.dense .f64 2 1 (fun i _ => i + 1),
      .prod [.dense .f64 2 2 (fun i j => i + j), .diag .f64 2 (fun i => i + 2)]]
    let ids : List GIx := [.ix (.slice (some (-1)) none (some (-2))), .ix (.arr [1, -2])]
    A.wf = true ∧ A.dupSlice = false ∧ A.HermOK ∧ A.RealTyped ∧ Op.NoArrPair ids ∧
      Op.NoDupIx A ids := by
  refine ⟨?_, ?_, ?_, ?_, ?_, ?_⟩
  · simp [Op.wf, Op.chainOk, Op.rows, Op.cols]
  · simp [Op.dupSlice]
  · simp [Op.HermOK, Op.HermNode, Op.isa, Op.anns, AnnSet.isa, AnnSet.inter, AnnSet.interAll,
      Op.isTA, Op.isT, Op.areTheSame, Op.core, Op.isScalarMul]
  · simp [Op.RealTyped]
  · simp [Op.NoArrPair]
  · simp [Op.NoDupIx, Op.rows, Op.cols, Ix.resolve, Ix.sliceIndices, Ix.rangeList]

end C20

#print axioms C20.C20_getitem_partial
#print axioms C20.C20_entry
#print axioms C20.C20_row
#print axioms C20.C20_arrayPair_clause_needed
#print axioms C20.C20_dupIx_clause_needed
#print axioms C20.C20_listPair_regression
