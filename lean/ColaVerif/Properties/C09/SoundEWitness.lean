import ColaVerif.Properties.C09
import ColaVerif.Model.UnaryWitness

/-!
# C09, round 5 (ii) — the `.inv` and `.product` clauses of `UnOp.SoundE` are witnessed

`UnOp.SoundE` (Lemmas/UnaryEig.lean) asks at an `.inv A alg` node that the oracle's `inv` matrix is a LEFT INVERSE of `A` (contract of
`cola.linalg.inv`, C06) and at a `.product A k B` node that `A` is `Op.Good` and every operator `reduce(dot, [A] * j)` builds is
`HermNode` (C05).  Round 3 witnessed the `EigOK` and (Lanczos) `KrylovOK` clauses only; the oracles used there return `zeroM` for `inv`.
Here, on `exA = Dense [[2,1],[1,2]]` with the scalar function `rpw α x = x ^ α` (`Real.rpow`) on `S = (0, ∞)`:

* `C09_inv_clause_witness` — `pow(A, -1, alg)`, every `alg`: the plan is `.inv A (invAlgOf alg)`, `SoundE` holds with `exInvOracle`
  (`inv` returns `[[2/3,-1/3],[-1/3,2/3]]`), and the conclusion of `C09_pow_eig` follows: the planned operator represents `A⁻¹`;
* `C09_product_clause_witness` — `pow(A, 2, alg)`, every `alg` and EVERY oracle: the plan is `.product A 2 (Product [A, A])`, `SoundE`
  holds (`Op.Good A`; `HermNode` of all products: they report no annotation, `Unary.exA_hermNode`), and the planned operator
  represents `A²`.

(Definitions and helper lemmas: `Model/UnaryWitness.lean`.)
-/

open Matrix MatFun Unary

namespace C09

/-- **the `.inv` clause of `SoundE` is witnessed, and the tree theorem applied to it** -/
theorem C09_inv_clause_witness (alg : Alg) :
    powRule rpw (-1) alg exA = .inv exA (invAlgOf alg) ∧
    (powRule rpw (-1) alg exA).SoundE exInvOracle (Set.Ioi 0) (rpw (-1)) ∧
    MatF.toMatrix exA.rows exA.rows (exInvOracle.inv exA (invAlgOf alg)) * mat exA = 1 ∧
    IsMatFunOn (Set.Ioi 0) (rpw (-1)) (mat exA)
      (MatF.toMatrix exA.rows exA.rows ((powRule rpw (-1) alg exA).toOp exInvOracle.params).den.f) :=
  ⟨(exA_inv_soundE alg).1, (exA_inv_soundE alg).2, exInvM_left,
    C09_pow_eig exInvOracle (Set.Ioi 0) rpw (-1) alg (rpw_hyps (-1)).1 (rpw_hyps (-1)).2.1 (rpw_hyps (-1)).2.2.1
      (rpw_hyps (-1)).2.2.2 exA (exA_inv_soundE alg).2⟩

/-- **the `.product` clause of `SoundE` is witnessed, and the tree theorem applied to it** (every oracle: a product needs none) -/
theorem C09_product_clause_witness (E : EigOracle ℝ) (alg : Alg) :
    powRule rpw 2 alg exA = .product exA 2 (.prod [exA, exA]) ∧
    (powRule rpw 2 alg exA).SoundE E (Set.Ioi 0) (rpw 2) ∧
    Op.Good exA ∧ (∀ j B, powProduct exA j = .ok B → Op.HermNode B) ∧
    IsMatFunOn (Set.Ioi 0) (rpw 2) (mat exA)
      (MatF.toMatrix exA.rows exA.rows ((powRule rpw 2 alg exA).toOp E.params).den.f) :=
  ⟨(exA_product_soundE E alg).1, (exA_product_soundE E alg).2, by unfold exA; exact ExprSound.good_dense _ _ _ _,
    exA_hermNode,
    C09_pow_eig E (Set.Ioi 0) rpw 2 alg (rpw_hyps 2).1 (rpw_hyps 2).2.1 (rpw_hyps 2).2.2.1 (rpw_hyps 2).2.2.2 exA
      (exA_product_soundE E alg).2⟩

end C09

#print axioms C09.C09_inv_clause_witness
#print axioms C09.C09_product_clause_witness
