import ColaVerif.Properties.C09
import ColaVerif.Model.UnaryArnoldi

/-!
# C09, round 5 (i) — the Arnoldi path instantiated; `KrylovOK` at an Arnoldi node derived for a model of C15's `Arnoldi.run`

`C09_arnoldi_path` (Properties/C09.lean) had free variables `(P, Pi, θ)` and was never applied to a concrete matrix; `KrylovOK` at an
Arnoldi node of a plan was a hypothesis.  Here (definitions and lemmas: `Model/UnaryArnoldi.lean`):

* the model `KrylovCompose.arnoldiUnaryVec eig M max_iters tol g v` of `ArnoldiUnary(A, g) @ v` is DEFINED from `Arnoldi.run` (C15) as
  `lanczosUnaryVec` was from `Lanczos.lanczosExact` (C14); `eig : EigS 𝕜` (`xnp.eig` + `xnp.solve`) is a parameter with the contract
  `EigContract` (on a diagonalisable input: `Pi P = 1`, `H P = P diag θ`), satisfiable for every size (`C09_eig_contract_satisfiable`);
* `C09_arnoldi_model_path` = `C09_arnoldi_path` applied to the model; `C09_arnoldi_model_poly`: for a polynomial `g = p` the model
  returns `p(A) v` — the value the DRIVER's exact Krylov model (`KrylovExact.applyPoly`, un-normalised Arnoldi over `ℚ[i]`, invariance
  re-checked at run time, `C09_krylov_poly`) computes and the stream `krylov-exact` compares with the exact `p(A) v`: on polynomial `f`
  the two definitions agree because both equal `p(A) v` (same statement for Lanczos: `C09_lanczos_model_poly`);
* `C09_krylov_ok_of_arnoldi` (clauses `noClip`, `stopExact`, `smallDiag` on every identity column) and
  `C09_krylov_ok_of_arnoldi_full` (runs to the full dimension: only `ranToDim`, `noClip` — `stopExact` is C15's dimension cap, the
  Hessenberg matrix `Qᴴ A Q` is diagonalisable because `A` is);
* witnesses on the non-symmetric `[[3,1],[2,2]] = V diag(4,1) V⁻¹`, `Arnoldi(max_iters = 5, tol = 1/10)`:
  `C09_arnoldi_path_closed` (closed value for every `g`, polynomial `g`, `log`), `C09_arnoldi_ok_witness` (`SoundE` at the Arnoldi base
  node + the conclusion of `C09_apply_unary_eig`).

All with `0 < tol` (C15's theorems about `Arnoldi.run` need it: the clipped normalisation divides by `max(norm, tol/2)`); `tol = 0` is
not covered.
-/

open Matrix KrylovPoly MatFun KrylovCompose Unary

namespace C09

section arnoldi
variable {𝕜 : Type} [RCLike 𝕜] {n : ℕ}

/-- the contract of the small eigensolver (`xnp.eig` + `xnp.solve`) is satisfiable for every size -/
theorem C09_eig_contract_satisfiable : EigContract (eigChoice (𝕜 := 𝕜)) := eigChoice_contract

/-- **`C09_arnoldi_path` applied to the MODEL** (`arnoldiUnaryVec`: `Arnoldi.run` of C15 on `v`, `eig` of the leading block of `H`,
`Q P (g(θ) ⊙ P⁻¹ ‖v‖e₁)`): under the contract of `eig`, C15's clauses `noClip` / `stopExact` on the run and a diagonalisable small
matrix (`smallDiag`), the returned vector is `g(M) v` for EVERY `g` -/
theorem C09_arnoldi_model_path (eig : EigS 𝕜) (contract : EigContract eig) (M : Matrix (Fin n) (Fin n) 𝕜)
    (max_iters : ℕ) (tol : ℝ) (tolPos : 0 < tol) (v : EuclideanSpace 𝕜 (Fin n)) (startNonzero : v ≠ 0)
    (noClip : ∀ i, i + 1 < aSteps M max_iters tol v → tol / 2 ≤ (aCol M max_iters tol v).beta i)
    (stopExact : 0 < aSteps M max_iters tol v ∧ (aCol M max_iters tol v).beta (aSteps M max_iters tol v - 1) = 0)
    (smallDiag : SmallDiag (blockMat (aCol M max_iters tol v).h (aSteps M max_iters tol v)))
    {V Vi : Matrix (Fin n) (Fin n) 𝕜} {d : Fin n → 𝕜} (hV : Vi * V = 1) (hA : M = V * Matrix.diagonal d * Vi)
    (g : 𝕜 → 𝕜) :
    arnoldiUnaryVec eig M max_iters tol g v = (V * Matrix.diagonal (fun i => g (d i)) * Vi) *ᵥ v.ofLp :=
  arnoldiUnaryVec_eq eig contract M max_iters tol tolPos v startNonzero noClip stopExact smallDiag hV hA g

/-- **polynomial `g`: the model returns `p(M) v`** — the value of the driver's exact Krylov model (`KrylovExact.applyPoly`) -/
theorem C09_arnoldi_model_poly (eig : EigS 𝕜) (contract : EigContract eig) (M : Matrix (Fin n) (Fin n) 𝕜)
    (max_iters : ℕ) (tol : ℝ) (tolPos : 0 < tol) (v : EuclideanSpace 𝕜 (Fin n)) (startNonzero : v ≠ 0)
    (noClip : ∀ i, i + 1 < aSteps M max_iters tol v → tol / 2 ≤ (aCol M max_iters tol v).beta i)
    (stopExact : 0 < aSteps M max_iters tol v ∧ (aCol M max_iters tol v).beta (aSteps M max_iters tol v - 1) = 0)
    (smallDiag : SmallDiag (blockMat (aCol M max_iters tol v).h (aSteps M max_iters tol v)))
    {S : Set 𝕜} (hdiag : DiagonalisableOn S M) (p : Polynomial 𝕜) :
    arnoldiUnaryVec eig M max_iters tol (fun x => p.eval x) v = Polynomial.aeval M p *ᵥ v.ofLp := by
  obtain ⟨V, Vi, d, hV, _, hA⟩ := hdiag
  rw [arnoldiUnaryVec_eq eig contract M max_iters tol tolPos v startNonzero noClip stopExact smallDiag hV hA]
  conv_rhs => rw [hA, KrylovPoly.aeval_conj_diagonal d hV]

attribute [local instance] Lanczos.exactNum Lanczos.exactVec in
/-- the same for the Lanczos model of round 3: for a polynomial `g = p` it returns `p(M) v` -/
theorem C09_lanczos_model_poly (eigh : Eigh 𝕜) (contract : EighContract eigh) (M : Matrix (Fin n) (Fin n) 𝕜)
    (herm : M.IsHermitian) (max_iters : ℕ) (tol : ℝ) (tol_nonneg : 0 ≤ tol) (cap_pos : 1 ≤ min max_iters n)
    (v : EuclideanSpace 𝕜 (Fin n)) (start_nonzero : v ≠ 0)
    (exhausted : (Lanczos.lanczosExact (Matrix.toEuclideanLin M) n #[v] max_iters tol).resid
      (Matrix.toEuclideanLin M) 0 = 0)
    {S : Set 𝕜} (hdiag : DiagonalisableOn S M) (p : Polynomial 𝕜) :
    lanczosUnaryVec eigh M max_iters tol (fun x => p.eval x) v = Polynomial.aeval M p *ᵥ v.ofLp := by
  obtain ⟨V, Vi, d, hV, _, hA⟩ := hdiag
  rw [lanczosUnaryVec_eq eigh contract M herm max_iters tol tol_nonneg cap_pos v start_nonzero exhausted hV hA]
  conv_rhs => rw [hA, KrylovPoly.aeval_conj_diagonal d hV]

end arnoldi

section tree
variable {𝕜 : Type} [RCLike 𝕜] [DecidableEq 𝕜]

/-- **`KrylovOK` at an ARNOLDI node is no longer only assumed**: for the Arnoldi MODEL (`Unary.arnoldiK`: `Arnoldi.run` of C15 on every
identity column, `eig` of the leading block of `H`, `Q P (g(θ) ⊙ P⁻¹ ‖v‖e₁)`) on a diagonalisable operand whose runs meet C15's clauses
`noClip`, `stopExact` and end with a diagonalisable Hessenberg block (`smallDiag`), `KrylovOK` HOLDS.  Remaining contract:
`EigContract eig` (LAPACK `eig` + `solve`), satisfiable (`C09_eig_contract_satisfiable`). -/
theorem C09_krylov_ok_of_arnoldi (eig : EigS 𝕜) (contract : EigContract eig) (S : Set 𝕜) (g : 𝕜 → 𝕜) (A : Op 𝕜)
    (sq : A.cols = A.rows) (hdiag : DiagonalisableOn S (mat A)) (max_iters : ℕ) (tol : ℝ) (tolPos : 0 < tol)
    (noClip : ∀ i : Fin A.rows, ∀ j, j + 1 < aSteps (mat A) max_iters tol (EuclideanSpace.single i (1 : 𝕜)) →
      tol / 2 ≤ (aCol (mat A) max_iters tol (EuclideanSpace.single i (1 : 𝕜))).beta j)
    (stopExact : ∀ i : Fin A.rows, 0 < aSteps (mat A) max_iters tol (EuclideanSpace.single i (1 : 𝕜)) ∧
      (aCol (mat A) max_iters tol (EuclideanSpace.single i (1 : 𝕜))).beta
        (aSteps (mat A) max_iters tol (EuclideanSpace.single i (1 : 𝕜)) - 1) = 0)
    (smallDiag : ∀ i : Fin A.rows, SmallDiag (blockMat (aCol (mat A) max_iters tol (EuclideanSpace.single i (1 : 𝕜))).h
      (aSteps (mat A) max_iters tol (EuclideanSpace.single i (1 : 𝕜))))) :
    KrylovOK S g A (arnoldiK eig max_iters tol g A) :=
  krylovOK_of_arnoldi eig contract S g A sq hdiag max_iters tol tolPos noClip stopExact smallDiag

/-- … and for runs to the FULL dimension (`ranToDim`: every identity column takes `n` steps) the only clause left is `noClip`:
`stopExact` is the dimension cap of C15 (`Inv.cap_column_zero`) and `H = Qᴴ A Q` is diagonalisable because `A` is -/
theorem C09_krylov_ok_of_arnoldi_full (eig : EigS 𝕜) (contract : EigContract eig) (S : Set 𝕜) (g : 𝕜 → 𝕜) (A : Op 𝕜)
    (sq : A.cols = A.rows) (hdiag : DiagonalisableOn S (mat A)) (max_iters : ℕ) (tol : ℝ) (tolPos : 0 < tol)
    (hn : 0 < A.rows)
    (ranToDim : ∀ i : Fin A.rows, aSteps (mat A) max_iters tol (EuclideanSpace.single i (1 : 𝕜)) = A.rows)
    (noClip : ∀ i : Fin A.rows, ∀ j, j + 1 < aSteps (mat A) max_iters tol (EuclideanSpace.single i (1 : 𝕜)) →
      tol / 2 ≤ (aCol (mat A) max_iters tol (EuclideanSpace.single i (1 : 𝕜))).beta j) :
    KrylovOK S g A (arnoldiK eig max_iters tol g A) :=
  krylovOK_of_arnoldi_full eig contract S g A sq hdiag max_iters tol tolPos hn ranToDim noClip

end tree

/-- **`C09_arnoldi_path` instantiated, closed statement** (`arnoldi_exN2_closed` applies `arnoldiUnaryVec_eq`, i.e.
`KrylovCompose.arnoldi_unary_exact` = `C09_arnoldi_path`, with every hypothesis discharged): the NON-symmetric `A = [[3,1],[2,2]]`,
`v = e₀`, cap `5 > n = 2`, `tol = 1/10`; both identity columns run `2 = n` steps (`exN2_runs`: `β₀ = 2` resp. `1 ≥ tol/2`, the stopping
test `β₀ > tol β₀` passes), `A = V diag(4,1) V⁻¹`; for EVERY `eig` meeting `EigContract` (one exists) the model's `ArnoldiUnary(A, g) @ e₀` is
* `((2 g 4 + g 1)/3, (2 g 4 - 2 g 1)/3)` for every `g`;
* `p(A) e₀` for a polynomial `g = p`;
* `(4 log 2 / 3, 4 log 2 / 3)` for `g = log`. -/
theorem C09_arnoldi_path_closed (eig : EigS ℝ) (contract : EigContract eig) :
    EigContract (eigChoice (𝕜 := ℝ)) ∧
    (∀ i : Fin 2, aSteps exN2 5 (1 / 10) (EuclideanSpace.single i (1 : ℝ)) = 2) ∧
    (∀ g : ℝ → ℝ, arnoldiUnaryVec eig exN2 5 (1 / 10) g (EuclideanSpace.single (0 : Fin 2) (1 : ℝ))
      = ![(2 * g 4 + g 1) / 3, (2 * g 4 - 2 * g 1) / 3]) ∧
    (∀ p : Polynomial ℝ, arnoldiUnaryVec eig exN2 5 (1 / 10) (fun x => p.eval x)
      (EuclideanSpace.single (0 : Fin 2) (1 : ℝ)) = Polynomial.aeval exN2 p *ᵥ ![1, 0]) ∧
    arnoldiUnaryVec eig exN2 5 (1 / 10) Real.log (EuclideanSpace.single (0 : Fin 2) (1 : ℝ))
      = ![4 * Real.log 2 / 3, 4 * Real.log 2 / 3] := by
  refine ⟨eigChoice_contract, fun i => (exN2_runs i).1, arnoldi_exN2_closed eig contract, ?_, ?_⟩
  · intro p
    obtain ⟨hstop, hsmall⟩ := arnoldi_full exN2 5 (1 / 10) (by norm_num) _ (single_ne_zero (0 : Fin 2))
      (by norm_num) (exN2_runs 0).1 (exN2_runs 0).2 exN2_diagonalisable
    rw [C09_arnoldi_model_poly eig contract exN2 5 (1 / 10) (by norm_num) _ (single_ne_zero (0 : Fin 2))
      (exN2_runs 0).2 hstop hsmall exN2_diagonalisable p]
    congr 1
    funext i
    fin_cases i <;> simp
  · rw [arnoldi_exN2_closed eig contract Real.log]
    have h4 : Real.log 4 = 2 * Real.log 2 := by
      rw [show (4 : ℝ) = 2 ^ 2 by norm_num, Real.log_pow]; norm_num
    funext i
    fin_cases i <;> simp [h4] <;> ring

/-- **witness of `KrylovOK` / `SoundE` at an ARNOLDI node, and the tree theorem applied to it**: for the non-symmetric
`A = Dense [[3,1],[2,2]]`, `Arnoldi()`, every `f`: the plan is the Arnoldi base node, `SoundE` holds with the oracle `exArnoldiOracle`
(= the model run of C15, cap 5, tol 1/10, `eig` = `eigChoice`), and so the planned operator represents `f(A)` (conclusion of
`C09_apply_unary_eig`) -/
theorem C09_arnoldi_ok_witness (f : ℝ → ℝ) :
    applyUnary f .arnoldi exN = .base .arnoldi f exN ∧
    (applyUnary f .arnoldi exN).SoundE exArnoldiOracle (Set.Ioi 0) f ∧ exN.rows = 2 ∧
    IsMatFunOn (Set.Ioi 0) f (mat exN)
      (MatF.toMatrix exN.rows exN.rows ((applyUnary f .arnoldi exN).toOp exArnoldiOracle.params).den.f) :=
  ⟨(exN_arnoldi_soundE f).1, (exN_arnoldi_soundE f).2, exN_rows,
    (C09_apply_unary_eig exArnoldiOracle (Set.Ioi 0) f .arnoldi exN (exN_arnoldi_soundE f).2).2⟩

end C09

#print axioms C09.C09_eig_contract_satisfiable
#print axioms C09.C09_arnoldi_model_path
#print axioms C09.C09_arnoldi_model_poly
#print axioms C09.C09_lanczos_model_poly
#print axioms C09.C09_krylov_ok_of_arnoldi
#print axioms C09.C09_krylov_ok_of_arnoldi_full
#print axioms C09.C09_arnoldi_path_closed
#print axioms C09.C09_arnoldi_ok_witness
