import ColaVerif.Basic.GInt
import ColaVerif.Lemmas.ExprSound
import ColaVerif.Lemmas.ExprHerm
import ColaVerif.Lemmas.ExprClauses
import ColaVerif.Lemmas.ExprSdiv
import Mathlib.Algebra.Star.Rat
import Mathlib.Tactic.NormNum
import Mathlib.Tactic.IntervalCases
import Mathlib.Analysis.Complex.Basic

/-!
# C03 — operator algebra builds the operator of the corresponding matrix expression

`Ex R` : the algebraic expressions (sums, differences, negation, scalar multiples and quotients on
either side, products, Kronecker products, Kronecker sums, block-diagonal assembly, built-in
`sum`, `lazify` / `to_dense` / `no_dispatch`, operators mixed with plain arrays);
`Ex.eval re` : the code model of the Python overloads of `operator_base.py` and of the rewriting
rules of `cola/fns.py` (what operator tree / array / error class cola produces);
`Ex.meaning` : the matrix expression itself (`none` when the shapes do not fit).

Hypotheses of the main theorem (all named):
* `Ex.LeavesGood` — every operator leaf satisfies the hypotheses of C01 (`wf`, no repeated index
  in a `Sliced` node, `HermOK`);
* `Ex.NoScalarOverOp` — **clause** `scalar-divided-by-operator`: no `c / A` node
  (`__rtruediv__` builds `A * (1/c)`; `C03_clause_needed_sdiv`);
* `Ex.NoLossyComplex re` — **clause** `complex-scalar-real-operator`: wherever `mul(A, c)` is
  invoked by a scalar multiple / quotient, `c` is not complex or `A` has a complex dtype
  (`C03_clause_needed_complex`, `C03_clause_needed_complex_typeerror`);
* `Ex.HermClosed re` — the `Product` nodes that `mul` and `dot` build satisfy the Hermitian-node
  condition of C01 (`Op.HermNode`: *if* the node reports `SelfAdjoint`, it is Hermitian).  This is
  what C05 proves (under its own clause `scalar-times-annotated`); it is only about the
  `Product` nodes — for the `Sum`, `Kronecker`, `KronSum`, `BlockDiag`, `Diagonal`, `Dense`,
  `ScalarMul` and `no_dispatch` nodes the condition is proved here outright.
  `C03_clause_needed_herm` shows that without it the result of `c * A` need not satisfy `HermOK`.
  It is no longer only an assumption: `C03_hermClosed_of_leaves` DERIVES it (and `LeavesGood`)
  over ℝ and ℂ from C05's annotation soundness under leaf-level hypotheses — operator leaves
  satisfy the hypotheses of `C05_sound_realTyped` (`Ex.LeavesSound`), real-typed scalars and arrays
  are real (`Ex.ScalarsTyped`) — outside the recorded clause `scalar-times-annotated`
  (`Ex.NoScalarTimesAnnotated`, decidable); `C03_sound_leaves` / `C03_rejects_leaves` are the main
  theorems restated with these hypotheses (`Lemmas/ExprHerm.lean`).

For a division `x / c` the model (as the code) multiplies by the reciprocal `c.inv` supplied with
the literal, and `meaning` uses the same `c.inv`; `c.v * c.inv = 1` is not needed.
-/

namespace C03
open Ex ExprSound

variable {R : Type} [CommRing R] [StarRing R] [DecidableEq R]

/-- **C03 (main theorem).**  Outside the named clauses, whenever the operator algebra returns a
value (an operator, or an array where cola returns one), the matrix expression is defined, the
value has its shape and represents exactly that matrix, and the value satisfies the side
conditions (`wf`, no repeated `Sliced` index, `HermOK`) under which C01/C02 apply to it.  All
rewriting on the way — flattening of nested sums / products / Kronecker products / Kronecker
sums, dropping identities, merging scalars, fusing diagonal Kronecker factors — is covered. -/
theorem C03_sound_partial (re : R → R) (e : Ex R) (v : Val R)
    (hl : e.LeavesGood) (hs : e.NoScalarOverOp) (hc : e.NoLossyComplex re)
    (hh : e.HermClosed re) (h : eval re e = .ok v) :
    ∃ r c M, meaning e = some (r, c, M) ∧ v.Rep r c M ∧ v.Good :=
  sound_all re e (all_loc re e hl hs hc hh) v h

/-- **C03 (rejection).**  Under the same hypotheses, an expression whose shapes do not fit
(`meaning = none`: summands of different shape, inner dimensions of a product that differ, a
non-square operand of a Kronecker sum, an empty built-in `sum`) is rejected with an error; it
never yields an operator or an array. -/
theorem C03_rejects_partial (re : R → R) (e : Ex R)
    (hl : e.LeavesGood) (hs : e.NoScalarOverOp) (hc : e.NoLossyComplex re)
    (hh : e.HermClosed re) (h : meaning e = none) :
    ∃ msg, eval re e = .error msg := by
  cases hev : eval re e with
  | error msg => exact ⟨msg, rfl⟩
  | ok v =>
    obtain ⟨r, c, M, hm, _, _⟩ := C03_sound_partial re e v hl hs hc hh hev
    rw [h] at hm
    cases hm

/-- the clause list the driver prints for an expression (`Ex.clauses`, used by the harness to
match a code / specification difference with the recorded findings) is empty exactly when the two
clause hypotheses of the main theorem hold -/
theorem C03_clauses_decide (re : R → R) (e : Ex R) :
    Ex.clauses re e = [] ↔ e.NoScalarOverOp ∧ e.NoLossyComplex re :=
  Ex.clauses_nil_iff re e

/-- the clauses the harness attributes at a node (`Ex.rootClauses`: the node itself is a `c / A`;
the node itself multiplies / divides a real-dtype operator by a complex scalar) are clauses of the
expression in the sense of `C03_clauses_decide` — so an expression to which the harness attributes
a clause is outside the hypotheses of `C03_sound_partial` -/
theorem C03_rootClauses_sub (re : R → R) (e : Ex R) :
    ∀ c ∈ Ex.rootClauses re e, c ∈ Ex.clauses re e := Ex.rootClauses_sub re e

/-- the converse, and the exact relation: `Ex.clauses` is, clause by clause, "some node of the
expression has it as a root clause" -/
theorem C03_clauses_root_exact (re : R → R) (e : Ex R) :
    (∀ c ∈ Ex.clauses re e, Ex.anyNode (Ex.hasRootClause re c) e = true) ∧
    Ex.clauses re e =
      (if Ex.anyNode (Ex.hasRootClause re "scalar-divided-by-operator") e
        then ["scalar-divided-by-operator"] else []) ++
      (if Ex.anyNode (Ex.hasRootClause re "complex-scalar-real-operator") e
        then ["complex-scalar-real-operator"] else []) :=
  ⟨Ex.clauses_sub_root re e, Ex.clauses_eq_root re e⟩

/-! ## rejection, rule by rule (no hypothesis on annotations needed beyond `Op.Good`) -/

/-- `A @ B` with different inner dimensions is rejected (no hypothesis at all) -/
theorem C03_reject_matmul (A B : Op R) (h : A.cols ≠ B.rows) :
    dotRule A B = .error "error:AssertionError" := by
  rw [dotRule_eq, if_pos (by simpa using h)]

/-- `A + B` with different shapes is rejected -/
theorem C03_reject_add (A B : Op R) (hA : Op.Good A) (hB : Op.Good B)
    (h : A.rows ≠ B.rows ∨ A.cols ≠ B.cols) : ∃ msg, addRule A B = .error msg := by
  cases hev : addRule A B with
  | error msg => exact ⟨msg, rfl⟩
  | ok v =>
    obtain ⟨e1, e2, _⟩ := addRule_sound A B v hA hB hev
    rcases h with h | h
    · exact absurd e1 h
    · exact absurd e2 h

/-- a Kronecker sum with a non-square operand is rejected -/
theorem C03_reject_kronsum (A B : Op R) (hA : Op.Good A) (hB : Op.Good B)
    (h : A.rows ≠ A.cols ∨ B.rows ≠ B.cols) : ∃ msg, kronsumRule A B = .error msg := by
  cases hev : kronsumRule A B with
  | error msg => exact ⟨msg, rfl⟩
  | ok v =>
    obtain ⟨e1, e2, _⟩ := kronsumRule_sound A B v hA hB hev
    rcases h with h | h
    · exact absurd e1 h
    · exact absurd e2 h

/-! ## dtype -/

/-- **C03 (dtype).**  The value's dtype is the dtype of the matrix expression, `Ex.dtypeSpec`
(Model/Expr.lean, written without reference to `eval`): an operator leaf contributes the join of
the dtypes of its own leaves (`Op.dtypeSpec`, see `C01_dtype`); sums, differences, products,
Kronecker products / sums, block-diagonal assembly and built-in `sum` take the NumPy promotion of
the operand dtypes; negation, `lazify`, `to_dense`, `no_dispatch` keep the dtype; a scalar multiple
or quotient keeps the operator's dtype and, for a plain array, follows NumPy's own
array-times-scalar promotion (`Ex.arrScalDtype`).  For EVERY expression, operators mixed with plain
arrays: no hypothesis at all.

Strengthened (round 2): the former hypotheses `Ex.ScalarOnOperator` (scalar multiples only on
operators) and `Ex.IdentityDtypeAbsorbed` (clause `identity-drop-dtype`) are gone — the first is
now part of the specification (`Ex.yieldsArr`, `ExprSound.isArr_all`), the second was a defect of
`cola.fns.dot` repaired in /repo 9457777 (an `Identity` is dropped only if the other operand
already has the promoted dtype; `C03_identity_dtype_regression`). -/
theorem C03_dtype (re : R → R) (e : Ex R) (v : Val R) (h : eval re e = .ok v) :
    v.dtype = e.dtypeSpec :=
  dt_all re e v h

/-- whether the result is a plain array or an operator is determined by the form of the
expression (`Ex.yieldsArr`) -/
theorem C03_kind (re : R → R) (e : Ex R) (v : Val R) (h : eval re e = .ok v) :
    v.isArr = e.yieldsArr :=
  isArr_all re e v h

/-! ## the clauses are needed; the hypotheses are satisfiable -/

/-- real part of a Gaussian integer (what storing a complex scalar in a real array keeps) -/
def reG : GInt → GInt := fun z => ⟨z.re, 0⟩

/-- the `1 × 1` float64 `Dense` `[1]` -/
def one11 : Op GInt := .dense .f64 1 1 (fun _ _ => 1)

/-- **the clause `scalar-divided-by-operator` is needed** — SYNTACTIC half: `2 / A` satisfies every
other hypothesis and evaluates (to `A * (1/2)`), but is not a matrix expression of the ring.
`meaning (sdiv ..) = none` holds BY DEFINITION of `Ex.meaning`, so the last conjunct is
definitional; the semantic content (what `c / A` means and when the code's result has that
meaning) is `C03_sdiv_meaning`, `C03_sdiv_differs_witness`, `C03_sdiv_coincides_witness`. -/
theorem C03_clause_needed_sdiv :
    let e : Ex GInt := .sdiv ⟨2, 2, .pyint, false⟩ (.op one11)
    e.LeavesGood ∧ e.NoLossyComplex reG ∧ e.HermClosed reG ∧
      (∃ v, eval reG e = .ok v) ∧ meaning e = none := by
  refine ⟨?_, ?_, ?_, ?_, ?_⟩
  · simp [LeavesGood, All, locLeaves, one11, Op.wf, Op.dupSlice, Op.HermOK, Op.HermNode, Op.isa,
      Op.anns, AnnSet.isa]
  · simp [NoLossyComplex, All, locNoLossy]
  · simp [HermClosed, All, locHerm]
  · simp [Ex.eval, mulRule, one11, Op.core, bind, Except.bind]
  · simp [Ex.meaning]

/-! ## the meaning of `c / A` (relational: `M · A = c · 1 = A · M`) and what the code builds -/

/-- `c / A` on an operator runs the code of `A / c` (both build `self * (1 / c)`), so by
`C03_sound_partial` applied to `divs x c` the built operator represents `c⁻¹ · A` -/
theorem C03_sdiv_runs_divs (re : R → R) (c : Scal R) (x : Ex R) (A : Op R)
    (hx : eval re x = .ok (.op A)) : eval re (sdiv c x) = eval re (divs x c) :=
  eval_sdiv_eq_divs re c x A hx

/-- **the meaning of `c / A`**: `M` is `c · A⁻¹` iff `IsScalarOverOp n c A M` (`M · A = c · 1` and
`A · M = c · 1` on the `n × n` window; no inverse needed; unique up to the factor `c`:
`Ex.IsScalarOverOp.unique`).  The matrix `c⁻¹ · A` the code builds has this meaning iff
`A · A = c² · 1` — the decidable coincidence condition the harness's exact oracle
(`c03.py sdiv_oracle`, outcome `quotient_coincides_with_inverse`) evaluates. -/
theorem C03_sdiv_meaning {R : Type} [CommRing R] (n : Nat) (s : Scal R) (hs : s.v * s.inv = 1)
    (A : MatF R) :
    IsScalarOverOp n s.v A (smulM s.inv A) ↔ EqOn n n (mmul n A A) (smulM (s.v * s.v) eyeM) :=
  sdiv_code_meaning n s hs A

/-- `[[0,2],[2,0]]` over ℚ -/
def swap2 : MatF ℚ := fun i j => if i + j = 1 then 2 else 0

/-- non-trivial coincidence: `2 / [[0,2],[2,0]]` — the built `½ · A = [[0,1],[1,0]]` IS `2 · A⁻¹` -/
theorem C03_sdiv_coincides_witness :
    IsScalarOverOp 2 (2 : ℚ) swap2 (smulM (1/2 : ℚ) swap2) := by
  have := (sdiv_code_meaning 2 (⟨2, 1/2, .pyint, false⟩ : Scal ℚ) (by norm_num) swap2).mpr ?_
  · exact this
  · intro i j hi hj
    interval_cases i <;> interval_cases j <;> simp [mmul, sumTo, swap2, smulM, eyeM]

/-- **the clause is needed, SEMANTIC half**: for `2 / [1]` the code builds `[½]`, which is not
`2 · [1]⁻¹ = [2]` -/
theorem C03_sdiv_differs_witness :
    ¬ IsScalarOverOp 1 (2 : ℚ) (fun _ _ => 1) (smulM (1/2 : ℚ) (fun _ _ => 1)) := by
  intro h
  have := (sdiv_code_meaning 1 (⟨2, 1/2, .pyint, false⟩ : Scal ℚ) (by norm_num)
    (fun _ _ => 1)).mp h 0 0 (by norm_num) (by norm_num)
  simp [mmul, sumTo, smulM, eyeM] at this
  norm_num at this

/-- **the clause `complex-scalar-real-operator` is needed** (NumPy complex scalar on a real
`Dense`): every other hypothesis holds, the evaluation succeeds, and the built operator
`Product[ScalarMul(re i = 0), A]` does not represent `i · A` (the imaginary part is dropped) -/
theorem C03_clause_needed_complex :
    let e : Ex GInt := .smul ⟨GInt.I, -GInt.I, .npscalar, true⟩ (.op one11)
    let v : Val GInt := .op (.prod [.scalar .f64 (reG GInt.I) 1, one11])
    let M : MatF GInt := smulM GInt.I (fun _ _ => 1)
    e.LeavesGood ∧ e.NoScalarOverOp ∧ e.HermClosed reG ∧
      eval reG e = .ok v ∧ meaning e = some (1, 1, M) ∧ ¬ v.Rep 1 1 M := by
  refine ⟨?_, ?_, ?_, ?_, ?_, ?_⟩
  · simp [LeavesGood, All, locLeaves, one11, Op.wf, Op.dupSlice, Op.HermOK, Op.HermNode, Op.isa,
      Op.anns, AnnSet.isa]
  · simp [NoScalarOverOp, All, locNoSdiv]
  · simp [HermClosed, All, locHerm, Ex.eval, mulRule, one11, Op.core, bind, Except.bind,
      Op.dtype, DType.isComplex, Val.HermTop, Op.HermNode, Op.isa, Op.anns, AnnSet.isa,
      Op.isTA, Op.isT, Op.areTheSame, Op.isScalarMul]
  · simp [Ex.eval, mulRule, one11, Op.core, bind, Except.bind, Op.dtype, DType.isComplex,
      Op.rows]
  · simp [Ex.meaning, one11, Op.rows, Op.cols, Op.den]
  · intro h
    have := h.2.2 0 0 (by omega) (by omega)
    simp [Op.den, Op.rows, Op.cols, mmul, sumTo, eyeM, smulM, reG, GInt.I, one11] at this

/-- the same clause, Python `complex` literal: TypeError although the matrix expression is
defined -/
theorem C03_clause_needed_complex_typeerror :
    let e : Ex GInt := .smul ⟨GInt.I, -GInt.I, .pycomplex, true⟩ (.op one11)
    e.LeavesGood ∧ e.NoScalarOverOp ∧ e.HermClosed reG ∧
      eval reG e = .error "error:TypeError" ∧ (meaning e).isSome = true := by
  refine ⟨?_, ?_, ?_, ?_, ?_⟩
  · simp [LeavesGood, All, locLeaves, one11, Op.wf, Op.dupSlice, Op.HermOK, Op.HermNode, Op.isa,
      Op.anns, AnnSet.isa]
  · simp [NoScalarOverOp, All, locNoSdiv]
  · simp [HermClosed, All, locHerm, Ex.eval, mulRule, one11, Op.core, bind, Except.bind,
      Op.dtype, DType.isComplex]
  · simp [Ex.eval, mulRule, one11, Op.core, bind, Except.bind, Op.dtype, DType.isComplex]
  · simp [Ex.meaning]

/-- `block_diag()` without operands is rejected with IndexError, as in the code
(`BlockDiag.__init__` indexes `Ms[0]`) -/
theorem C03_bdiag_empty_rejected (re : R → R) :
    eval re (.bdiag [] : Ex R) = .error "error:IndexError" := by
  simp [Ex.eval, bind, Except.bind, List.mapM_nil, pure, Except.pure]

/-- **the hypothesis `HermClosed` is needed** for the `HermOK` part of the conclusion:
`i * A` for a declared-SelfAdjoint `A = [1]` of complex dtype satisfies every other hypothesis;
the built `Product[ScalarMul, A]` reports SelfAdjoint (finding `scalar-times-annotated` of C05)
but represents `[i]` -/
theorem C03_clause_needed_herm :
    let A : Op GInt := .annot .selfAdjoint (.dense .c128 1 1 (fun _ _ => 1))
    let e : Ex GInt := .smul ⟨GInt.I, -GInt.I, .pycomplex, true⟩ (.op A)
    let P : Op GInt := .prod [.scalar .c128 GInt.I 1, A]
    e.LeavesGood ∧ e.NoScalarOverOp ∧ e.NoLossyComplex reG ∧
      eval reG e = .ok (.op P) ∧ ¬ P.HermOK := by
  refine ⟨?_, ?_, ?_, ?_, ?_⟩
  · simp [LeavesGood, All, locLeaves, Op.wf, Op.dupSlice, Op.HermOK, Op.HermNode, Op.isa, Op.anns,
      AnnSet.isa, AnnSet.union, Ann.sub, Op.rows, Op.cols, Op.den]
  · simp [NoScalarOverOp, All, locNoSdiv]
  · simp [NoLossyComplex, All, locNoLossy, Ex.eval, Op.dtype, DType.isComplex]
  · simp [Ex.eval, mulRule, Op.core, bind, Except.bind, Op.dtype, DType.isComplex, Op.rows]
  · intro h
    have hn := h.node
    simp only [Op.HermNode] at hn
    have := (hn (by
      simp [Op.isa, Op.anns, AnnSet.isa, AnnSet.union, Ann.sub, Op.isTA, Op.isT, Op.areTheSame,
        Op.core, Op.isScalarMul])).2 0 0 (by simp [Op.rows]) (by simp [Op.rows])
    simp [Op.den, Op.cols, mmul, sumTo, eyeM, GInt.I] at this
    exact absurd this (by decide)

/-- **regression for the repaired defect `identity-drop-dtype`** (/repo 9457777):
`I(float64) @ A(float32)` is no longer `A` itself (float32) — the rule keeps
`Product[I, A]`, dtype float64 = dtype of the matrix expression; and `I(complex64) @ I(float64)`
is a fresh `Identity` of dtype complex128 -/
theorem C03_identity_dtype_regression :
    let A : Op GInt := .dense .f32 1 1 (fun _ _ => 1)
    let e : Ex GInt := .matmul (.op (.eye .f64 1)) (.op A)
    let e2 : Ex GInt := .matmul (.op (.eye .c64 2)) (.op (.eye .f64 2))
    eval reG e = .ok (.op (.prod [.eye .f64 1, A])) ∧ e.dtypeSpec = .f64 ∧
      (Val.op (.prod [.eye .f64 1, A]) : Val GInt).dtype = .f64 ∧
      eval reG e2 = .ok (.op (.eye .c128 2)) ∧ e2.dtypeSpec = .c128 := by
  refine ⟨?_, ?_, ?_, ?_, ?_⟩
  · simp [Ex.eval, matmulV, dotRule, isIdentity, absorbs, mkProd, Op.chainOk, Op.core, bind,
      Except.bind, Op.rows, Op.cols, Op.dtype, DType.promote, DType.isComplex, DType.isDouble,
      DType.mk]
  · simp [Ex.dtypeSpec, Op.dtypeSpec, Op.leafDtypes, DType.join, DType.promote, DType.isComplex,
      DType.isDouble, DType.mk]
  · simp [Val.dtype, Op.dtype, DType.promote, DType.isComplex, DType.isDouble, DType.mk]
  · simp [Ex.eval, matmulV, dotRule, isIdentity, absorbs, Op.core, bind, Except.bind, Op.rows,
      Op.cols, Op.dtype, DType.promote, DType.isComplex, DType.isDouble, DType.mk]
  · simp [Ex.dtypeSpec, Op.dtypeSpec, Op.leafDtypes, DType.join, DType.promote, DType.isComplex,
      DType.isDouble, DType.mk]

/-! ## non-vacuity -/

/-- `2 * A + I @ D` with `A` a `2 × 2` `Dense`, `I` the identity, `D = diag(1, 2)` -/
def exampleExpr : Ex GInt :=
  .add (.smul ⟨2, 0, .pyint, false⟩ (.op (.dense .f64 2 2 (fun i j => ⟨i, j⟩))))
    (.matmul (.op (.eye .f64 2)) (.op (.diag .f64 2 (fun i => ⟨i + 1, 0⟩))))

/-- all four hypotheses of the main theorem hold for it -/
theorem exampleExpr_hyps :
    exampleExpr.LeavesGood ∧ exampleExpr.NoScalarOverOp ∧ exampleExpr.NoLossyComplex reG ∧
      exampleExpr.HermClosed reG := by
  refine ⟨?_, ?_, ?_, ?_⟩
  · simp only [exampleExpr, LeavesGood, All, locLeaves, true_and]
    refine ⟨?_, ?_, ?_⟩
    · simp [Op.wf, Op.dupSlice, Op.HermOK, Op.HermNode, Op.isa, Op.anns, AnnSet.isa]
    · refine ⟨by simp [Op.wf], by simp [Op.dupSlice], ?_⟩
      simp only [Op.HermOK, Op.HermNode]
      intro _
      refine ⟨by simp [Op.rows, Op.cols], ?_⟩
      intro i j _ _
      simp only [Op.den, MatV.of_f, eyeM]
      by_cases h : i = j
      · subst h; simp
      · rw [if_neg h, if_neg (Ne.symm h)]; simp
    · simp [Op.wf, Op.dupSlice, Op.HermOK, Op.HermNode, Op.isa, Op.anns, AnnSet.isa]
  · simp [exampleExpr, NoScalarOverOp, All, locNoSdiv]
  · simp [exampleExpr, NoLossyComplex, All, locNoLossy]
  · simp [exampleExpr, HermClosed, All, locHerm, Ex.eval, mulRule, matmulV, dotRule, isIdentity, Op.core,
      absorbs, DType.promote, DType.isDouble, DType.mk,
      bind, Except.bind, Op.dtype, DType.isComplex, Op.rows, Op.cols, Val.HermTop, Op.HermNode,
      Op.isa, Op.anns, AnnSet.isa, Op.isTA, Op.isT, Op.areTheSame, Op.isScalarMul]

/-- and the algebra does build a value -/
theorem exampleExpr_eval : ∃ v, eval reG exampleExpr = .ok v := by
  simp [exampleExpr, Ex.eval, mulRule, matmulV, dotRule, isIdentity, Op.core, bind, Except.bind,
    absorbs, DType.promote, DType.isDouble, DType.mk,
    Op.dtype, DType.isComplex, Op.rows, Op.cols, addV, addRule, sumMembers, mkSum, lazifyV]

/-- … so the main theorems apply: the built operator has shape `2 × 2`, represents
`2·A + I·diag(1, 2)` entry by entry, satisfies the side conditions of C01, and has dtype f64 -/
example : ∃ v, eval reG exampleExpr = .ok v ∧
    v.Rep 2 2 (addM (smulM 2 (fun i j => ⟨i, j⟩)) (mmul 2 eyeM (diagM fun i => ⟨i + 1, 0⟩))) ∧
    v.Good ∧ v.dtype = .f64 := by
  obtain ⟨v, hv⟩ := exampleExpr_eval
  obtain ⟨h1, h2, h3, h4⟩ := exampleExpr_hyps
  obtain ⟨r, c, M, hm, hr, hg⟩ := C03_sound_partial reG exampleExpr v h1 h2 h3 h4 hv
  have hd := C03_dtype reG exampleExpr v hv
  refine ⟨v, hv, ?_, hg, ?_⟩
  · simp [exampleExpr, Ex.meaning, Op.rows, Op.cols, Op.den] at hm
    obtain ⟨rfl, rfl, rfl⟩ := hm
    exact hr
  · rw [hd]
    simp [exampleExpr, Ex.dtypeSpec, Ex.yieldsArr, Op.dtypeSpec, Op.leafDtypes, DType.join,
      DType.promote, DType.isComplex, DType.isDouble, DType.mk]

end C03

namespace C03
open Ex ExprSound ExprHerm

/-! ## `HermClosed` from C05: the main theorem with leaf-level hypotheses (ℝ and ℂ) -/

section leaves
variable {𝕜 : Type} [RCLike 𝕜] [DecidableEq 𝕜]

/-- **the semantic hypotheses of `C03_sound_partial` follow from C05.**  If
* every operator leaf satisfies the hypotheses of `C05_sound_realTyped` (`wf`, true declarations
  `LeavesTrue`, `RealTyped`) and has no repeated `Sliced` index, plain-array leaves and scalar
  literals of a real type are real (`LeavesSound`, `ScalarsTyped`; `re` keeps real parts), and
* the expression is outside the recorded clauses `scalar-divided-by-operator`,
  `complex-scalar-real-operator` and `scalar-times-annotated` (C05's defect, on the operators the
  evaluation produces — a decidable condition),
then every `Product` that `mul` / `dot` build is Hermitian whenever it reports `SelfAdjoint`
(`HermClosed`) and every leaf satisfies C01's hypotheses (`LeavesGood`). -/
theorem C03_hermClosed_of_leaves (re : 𝕜 → 𝕜) (hre : ∀ x, star (re x) = re x) (e : Ex 𝕜)
    (hl : e.LeavesSound) (hs : e.NoScalarOverOp) (hc : e.NoLossyComplex re)
    (ht : e.ScalarsTyped) (hsta : e.NoScalarTimesAnnotated re) :
    e.HermClosed re ∧ e.LeavesGood :=
  ⟨(full_all re hre e (all_locL re e hl hs hc ht hsta)).2.2,
    leavesGood_of_locL re e (all_locL re e hl hs hc ht hsta)⟩

/-- **C03 (main theorem, leaf-level hypotheses).**  `C03_sound_partial` with its semantic
hypothesis `HermClosed` discharged by C05: the conclusion holds for every expression over leaves
with true declarations, outside the three recorded clauses; in addition the value again satisfies
C05's payload hypotheses (`Val.Typed`: true declarations, real payloads under real dtypes), so the
theorem composes.  It is `C03_sound_partial ∘ C03_hermClosed_of_leaves`. -/
theorem C03_sound_leaves (re : 𝕜 → 𝕜) (hre : ∀ x, star (re x) = re x) (e : Ex 𝕜) (v : Val 𝕜)
    (hl : e.LeavesSound) (hs : e.NoScalarOverOp) (hc : e.NoLossyComplex re)
    (ht : e.ScalarsTyped) (hsta : e.NoScalarTimesAnnotated re) (h : eval re e = .ok v) :
    (∃ r c M, meaning e = some (r, c, M) ∧ v.Rep r c M ∧ v.Good) ∧ v.Typed := by
  obtain ⟨hh, hg⟩ := C03_hermClosed_of_leaves re hre e hl hs hc ht hsta
  exact ⟨C03_sound_partial re e v hg hs hc hh h,
    (full_all re hre e (all_locL re e hl hs hc ht hsta)).2.1 v h⟩

/-- rejection under the leaf-level hypotheses -/
theorem C03_rejects_leaves (re : 𝕜 → 𝕜) (hre : ∀ x, star (re x) = re x) (e : Ex 𝕜)
    (hl : e.LeavesSound) (hs : e.NoScalarOverOp) (hc : e.NoLossyComplex re)
    (ht : e.ScalarsTyped) (hsta : e.NoScalarTimesAnnotated re) (h : meaning e = none) :
    ∃ msg, eval re e = .error msg := by
  obtain ⟨hh, hg⟩ := C03_hermClosed_of_leaves re hre e hl hs hc ht hsta
  exact C03_rejects_partial re e hg hs hc hh h

end leaves

/-- non-vacuity of the leaf-level bundle: `P @ D + 2 * D` over ℝ with `P` a declared-PSD `2 × 2`
`Dense`, `D = diag(1, 2)` -/
noncomputable def leavesExample : Ex ℝ :=
  .add (.matmul (.op (.annot .psd (.dense .f64 2 2 eyeM))) (.op (.diag .f64 2 (fun i => (i : ℝ) + 1))))
    (.smul ⟨2, 0, .pyint, false⟩ (.op (.diag .f64 2 (fun i => (i : ℝ) + 1))))

theorem leavesExample_hyps :
    leavesExample.LeavesSound ∧ leavesExample.NoScalarOverOp ∧ leavesExample.NoLossyComplex id ∧
      leavesExample.ScalarsTyped ∧ leavesExample.NoScalarTimesAnnotated id := by
  refine ⟨?_, ?_, ?_, ?_, ?_⟩
  · have hP : locLeavesLR (Ex.op (.annot .psd (.dense .f64 2 2 eyeM)) : Ex ℝ) := by
      refine ⟨by simp [Op.wf], by simp [Op.dupSlice], ?_, ?_⟩
      · simp only [Op.LeavesTrue, Op.rows, Op.cols, Op.den, MatV.of_f, and_true]
        exact holds_eyeM .psd 2
      · simp only [Op.RealTyped]
        intro _ i j _ _
        simp only [eyeM]
        split <;> simp
    have hD : locLeavesLR (Ex.op (.diag .f64 2 (fun i => (i : ℝ) + 1)) : Ex ℝ) := by
      refine ⟨by simp [Op.wf], by simp [Op.dupSlice], by simp [Op.LeavesTrue], ?_⟩
      simp [Op.RealTyped]
    simp only [leavesExample, LeavesSound, All]
    exact ⟨trivial, ⟨trivial, hP, hD⟩, trivial, hD⟩
  · simp [leavesExample, NoScalarOverOp, All, locNoSdiv]
  · simp [leavesExample, NoLossyComplex, All, locNoLossy]
  · simp [leavesExample, ScalarsTyped, All, locScalTyped, Scal.Typed]
  · simp [leavesExample, NoScalarTimesAnnotated, All, locNoSTA, Ex.eval, mulRule, matmulV, dotRule,
      isIdentity, absorbs, prodMembers, mkProd, Op.chainOk, Op.core, bind, Except.bind, Op.dtype,
      DType.promote, DType.isComplex, DType.isDouble, DType.mk, Op.rows, Op.cols, addV, addRule,
      sumMembers, mkSum, lazifyV, Op.scalarTimesAnnotated, Op.prodScalarDefect, Op.isScalarMul,
      Op.anns]

/-- … the algebra builds a value for it … -/
theorem leavesExample_eval : ∃ v, eval id leavesExample = .ok v := by
  simp [leavesExample, Ex.eval, mulRule, matmulV, dotRule, isIdentity, absorbs, prodMembers, mkProd,
    Op.chainOk, Op.core, bind, Except.bind, Op.dtype, DType.promote, DType.isComplex,
    DType.isDouble, DType.mk, Op.rows, Op.cols, addV, addRule, sumMembers, mkSum, lazifyV]

/-- … so the leaf-level main theorem applies: the built operator represents `P · D + 2 · D`,
satisfies C01's side conditions and C05's payload hypotheses -/
example : ∃ v, eval id leavesExample = .ok v ∧
    (∃ r c M, meaning leavesExample = some (r, c, M) ∧ v.Rep r c M ∧ v.Good) ∧ v.Typed := by
  obtain ⟨v, hv⟩ := leavesExample_eval
  obtain ⟨h1, h2, h3, h4, h5⟩ := leavesExample_hyps
  exact ⟨v, hv, C03_sound_leaves id (fun x => by simp) leavesExample v h1 h2 h3 h4 h5 hv⟩

end C03


#print axioms C03.C03_sound_partial
#print axioms C03.C03_rejects_partial
#print axioms C03.C03_clauses_decide
#print axioms C03.C03_rootClauses_sub
#print axioms C03.C03_reject_matmul
#print axioms C03.C03_reject_add
#print axioms C03.C03_reject_kronsum
#print axioms C03.C03_dtype
#print axioms C03.C03_clause_needed_sdiv
#print axioms C03.C03_sdiv_runs_divs
#print axioms C03.C03_sdiv_meaning
#print axioms C03.C03_sdiv_coincides_witness
#print axioms C03.C03_sdiv_differs_witness
#print axioms C03.C03_clauses_root_exact
#print axioms C03.C03_clause_needed_complex
#print axioms C03.C03_clause_needed_complex_typeerror
#print axioms C03.C03_bdiag_empty_rejected
#print axioms C03.C03_clause_needed_herm
#print axioms C03.C03_kind
#print axioms C03.C03_identity_dtype_regression
#print axioms C03.exampleExpr_hyps
#print axioms C03.exampleExpr_eval
#print axioms C03.C03_hermClosed_of_leaves
#print axioms C03.C03_sound_leaves
#print axioms C03.C03_rejects_leaves
#print axioms C03.leavesExample_hyps
#print axioms C03.leavesExample_eval
