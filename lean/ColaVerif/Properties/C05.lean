import ColaVerif.Lemmas.AnnotSound
import ColaVerif.Lemmas.OpAlgebra
import ColaVerif.Lemmas.AnnotReal
import ColaVerif.Lemmas.AnnotClause
import ColaVerif.Lemmas.AnnotWitnesses
import Mathlib.Analysis.Complex.Basic

/-!
# C05 — reported structural annotations are true of the represented matrix

`A.anns` : the code model of the `annotations` attribute (`get_annotations` of
`cola/annotations.py` + declarations `cola.PSD(A)` … = `annot a A`); `A.den` : the represented
matrix; `Holds a n m D` : the `n × m` window of `D` is Hermitian / PSD / has orthonormal columns /
is unitary (Mathlib's `IsHermitian`, `PosSemidef`, `Dᴴ D = 1`, `D Dᴴ = 1` through the bridge
`MatF.toMatrix`).  Carrier: any `𝕜` with `[RCLike 𝕜]` (ℝ and ℂ at once).

Hypotheses of the main theorem (all named, all inherited by every node of the tree):
* `A.wf` — constructor preconditions;
* `A.LeavesTrue` — the user's own declarations are true;
* `A.NoScalarTimesAnnotated` — **clause** (defect of the inference, `C05_clause_needed`): no
  `Product` node has both a `ScalarMul` member and exactly one non-scalar member with a non-empty
  annotation set (the code returns that member's annotations unchanged, e.g. for `(-2) · PSD`);
* `A.GramTransposeReal` — at a Gram pattern `A.T @ A` / `A @ A.T` (accepted by the code only for
  a real dtype) the payload of the member really is real.  The carrier of the model is one field
  for all dtypes, so the dtype tag alone does not say this (`C05_gramReal_needed`); it follows
  from `Op.RealTyped` (`C05_sound_realTyped`), the typing hypothesis also used by C02.
-/

open scoped ComplexOrder

namespace C05
open Op
variable {𝕜 : Type} [RCLike 𝕜]

/-! ## the annotation subclass order used by `isa` -/

/-- PSD ≤ SelfAdjoint -/
theorem C05_psd_selfAdjoint {n m : Nat} {D : MatF 𝕜} (h : Holds .psd n m D) :
    Holds .selfAdjoint n m D := h.psd_selfAdjoint

/-- Unitary ≤ Stiefel -/
theorem C05_unitary_stiefel {n m : Nat} {D : MatF 𝕜} (h : Holds .unitary n m D) :
    Holds .stiefel n m D := h.unitary_stiefel

/-! ## soundness -/

variable [DecidableEq 𝕜]

/-- **C05 (main theorem).**  For every well-formed operator tree whose declared annotations are
true, outside the two named clauses, every annotation the operator reports — inferred for a
composite or attached by a library routine — holds of the represented matrix. -/
theorem C05_sound_partial (A : Op 𝕜) (hwf : A.wf = true) (hl : A.LeavesTrue)
    (hc : A.NoScalarTimesAnnotated) (hg : A.GramTransposeReal) :
    ∀ a ∈ A.anns, Holds a A.rows A.cols A.den.f :=
  anns_sound A ⟨hwf, hl, hc, hg⟩

/-- the same with the typing hypothesis `RealTyped` of C02 in place of `GramTransposeReal` -/
theorem C05_sound_realTyped (A : Op 𝕜) (hwf : A.wf = true) (hl : A.LeavesTrue)
    (hc : A.NoScalarTimesAnnotated) (hr : A.RealTyped) :
    ∀ a ∈ A.anns, Holds a A.rows A.cols A.den.f :=
  C05_sound_partial A hwf hl hc (gramTransposeReal_of_realTyped A hr hwf)

/-- what `isa` answers (through the subclass order PSD ≤ SelfAdjoint, Unitary ≤ Stiefel) is true -/
theorem C05_isa (A : Op 𝕜) (hwf : A.wf = true) (hl : A.LeavesTrue)
    (hc : A.NoScalarTimesAnnotated) (hg : A.GramTransposeReal) (a : Ann)
    (h : A.isa a = true) : Holds a A.rows A.cols A.den.f := by
  simp only [Op.isa, AnnSet.isa, List.any_eq_true] at h
  obtain ⟨x, hx, hsub⟩ := h
  have hxh := C05_sound_partial A hwf hl hc hg x hx
  cases x <;> cases a <;> simp [Ann.sub] at hsub
  · exact hxh
  · exact hxh.psd_selfAdjoint
  · exact hxh
  · exact hxh
  · exact hxh.unitary_stiefel
  · exact hxh

/-- **the hypothesis `HermOK` of C01 / C02 is discharged**: every node of the tree that reports
`SelfAdjoint` (directly or through `PSD`) is square and Hermitian on its window. -/
theorem C05_hermOK (A : Op 𝕜) (hwf : A.wf = true) (hl : A.LeavesTrue)
    (hc : A.NoScalarTimesAnnotated) (hg : A.GramTransposeReal) : A.HermOK :=
  hermOK_of_soundHyp A ⟨hwf, hl, hc, hg⟩

theorem C05_hermOK_realTyped (A : Op 𝕜) (hwf : A.wf = true) (hl : A.LeavesTrue)
    (hc : A.NoScalarTimesAnnotated) (hr : A.RealTyped) : A.HermOK :=
  C05_hermOK A hwf hl hc (gramTransposeReal_of_realTyped A hr hwf)

/-- **declaring** an annotation yields an operator with the same shape and the same action whose
annotation set is the union (the operand is a sub-term, it is not altered). -/
theorem C05_declare (a : Ann) (A : Op 𝕜) :
    (annot a A).den = A.den ∧ (annot a A).rows = A.rows ∧ (annot a A).cols = A.cols ∧
      ∀ x, x ∈ (annot a A).anns ↔ x ∈ A.anns ∨ x = a := by
  refine ⟨by simp only [Op.den], by simp only [Op.rows], by simp only [Op.cols], fun x => ?_⟩
  simp only [Op.anns]
  rw [AnnSet.mem_union, List.mem_singleton]

omit [DecidableEq 𝕜] in
/-- a true declaration keeps `LeavesTrue` -/
theorem C05_declare_leaves (a : Ann) (A : Op 𝕜) (hl : A.LeavesTrue)
    (ha : Holds a A.rows A.cols A.den.f) : (annot a A).LeavesTrue := by
  simp only [LeavesTrue]
  exact ⟨ha, hl⟩

/-! ## the clauses are needed -/

/-- `(-2) · PSD(1×1 [1])` as cola builds it: `Product[ScalarMul, PSD-declared Dense]` -/
noncomputable def scalarWitness : Op ℝ :=
  .prod [.scalar .f64 (-2) 1, .annot .psd (.dense .f64 1 1 (fun _ _ => 1))]

/-- **the clause `NoScalarTimesAnnotated` is needed**: on `scalarWitness` every other hypothesis
holds, the operator reports `PSD`, and the represented matrix `[-2]` is not PSD. -/
theorem C05_clause_needed :
    scalarWitness.wf = true ∧ scalarWitness.LeavesTrue ∧ scalarWitness.GramTransposeReal ∧
      scalarWitness.scalarTimesAnnotated = true ∧ Ann.psd ∈ scalarWitness.anns ∧
      ¬ Holds .psd scalarWitness.rows scalarWitness.cols scalarWitness.den.f := by
  refine ⟨?_, ?_, ?_, ?_, ?_, ?_⟩
  · simp [scalarWitness, Op.wf, Op.rows, Op.cols, chainOk]
  · simp only [scalarWitness, LeavesTrue, List.mem_cons, List.not_mem_nil, or_false,
      forall_eq_or_imp, forall_eq, true_and, and_true, Op.rows, Op.cols, Op.den, MatV.of_f]
    exact Holds.congr (fun i j hi hj => by simp [eyeM]; omega) (holds_eyeM .psd 1)
  · simp [scalarWitness, GramTransposeReal, gramViaTranspose, gramB, isTA, isT, core]
  · simp [scalarWitness, Op.scalarTimesAnnotated, prodScalarDefect, isScalarMul, core, Op.anns,
      AnnSet.union]
  · rw [scalarWitness, anns_prod]
    simp [gramB, isTA, isT, core, isScalarMul, Op.anns, AnnSet.union]
  · intro h
    have h0 := h.2.diag_nonneg (i := ⟨0, by simp [scalarWitness, Op.rows]⟩)
    simp [scalarWitness, Op.den, Op.rows, Op.cols, mmul, sumTo, eyeM] at h0
    linarith

/-- a `Dense` tagged `f64` whose payload is the complex number `i`, times its `Transpose` -/
noncomputable def gramWitness : Op ℂ :=
  .prod [.dense .f64 1 1 (fun _ _ => Complex.I),
    .transpose (.dense .f64 1 1 (fun _ _ => Complex.I))]

/-- **the clause `GramTransposeReal` is needed** (in the model, where the dtype tag does not
constrain the carrier): `gramWitness` satisfies every other hypothesis, reports `PSD` through the
Gram pattern, and represents `[i · i] = [-1]`. -/
theorem C05_gramReal_needed :
    gramWitness.wf = true ∧ gramWitness.LeavesTrue ∧ gramWitness.scalarTimesAnnotated = false ∧
      Ann.psd ∈ gramWitness.anns ∧
      ¬ Holds .psd gramWitness.rows gramWitness.cols gramWitness.den.f := by
  refine ⟨?_, ?_, ?_, ?_, ?_⟩
  · simp [gramWitness, Op.wf, Op.rows, Op.cols, chainOk]
  · simp [gramWitness, LeavesTrue]
  · simp [gramWitness, Op.scalarTimesAnnotated, prodScalarDefect, isScalarMul, core]
  · rw [gramWitness, anns_prod, if_pos (by
      simp [gramB, isTA, isT, core, areTheSame, sameObj, winEq, Op.dtype, DType.isComplex]),
      AnnSet.mem_union]
    exact Or.inr (by simp)
  · intro h
    have h0 := h.2.diag_nonneg (i := ⟨0, by simp [gramWitness, Op.rows]⟩)
    simp [gramWitness, Op.den, Op.rows, Op.cols, mmul, sumTo, eyeM, transposeM] at h0
    linarith

/-! ## the clause the driver prints is the negated hypothesis -/

omit [RCLike 𝕜] in
/-- `Op.scalarTimesAnn` (Model/Wf.lean — what the driver evaluates for its `clauses` output) and
`Op.scalarTimesAnnotated` (the hypothesis `NoScalarTimesAnnotated` of the theorems above) are the
same function on every tree -/
theorem C05_clause_defs_agree (A : Op 𝕜) : A.scalarTimesAnn = A.scalarTimesAnnotated :=
  Op.scalarTimesAnn_eq A

omit [RCLike 𝕜] in
/-- the driver prints `scalar-times-annotated` exactly for the trees the theorems exclude -/
theorem C05_clause_printed_iff (A : Op 𝕜) :
    "scalar-times-annotated" ∈ A.clauses ↔ ¬ A.NoScalarTimesAnnotated := Op.clauses_scalar_iff A

/-! ## the hypotheses are satisfiable on non-trivial trees -/

/-- **witness (declared PSD, Gram rule, Kronecker rule; complex, non-diagonal)**: `psdWitness` =
`PSD(Dense [[1, i], [-i, 2]]) ⊗ (Aᴴ @ A)` with a 3 × 2 complex `A` satisfies the whole hypothesis
bundle, reports PSD, and `C05_sound_partial` applies: the represented 4 × 4 matrix is PSD -/
theorem C05_witness_psd_gram :
    psdWitness.wf = true ∧ psdWitness.LeavesTrue ∧ psdWitness.NoScalarTimesAnnotated ∧
      psdWitness.GramTransposeReal ∧ Ann.psd ∈ psdWitness.anns ∧
      Holds .psd 4 4 psdWitness.den.f := by
  obtain ⟨h1, h2, h3, h4, h5, h6, h7⟩ := psdWitness_hyps
  refine ⟨h1, h2, h3, h4, h5, ?_⟩
  have := C05_sound_partial psdWitness h1 h2 h3 h4 _ h5
  rwa [h6, h7] at this

/-- **witness (Unitary composite)**: `unitaryWitness` = `Permutation([1, 0]) @
Unitary(Householder((3/5, 4/5), 2))` satisfies the bundle, reports Unitary through the Product rule,
and the theorem applies: the represented 2 × 2 matrix is orthogonal -/
theorem C05_witness_unitary :
    unitaryWitness.wf = true ∧ unitaryWitness.LeavesTrue ∧ unitaryWitness.NoScalarTimesAnnotated ∧
      unitaryWitness.GramTransposeReal ∧ Ann.unitary ∈ unitaryWitness.anns ∧
      Holds .unitary 2 2 unitaryWitness.den.f := by
  obtain ⟨h1, h2, h3, h4, h5, h6, h7⟩ := unitaryWitness_hyps
  refine ⟨h1, h2, h3, h4, h5, ?_⟩
  have := C05_sound_partial unitaryWitness h1 h2 h3 h4 _ h5
  rwa [h6, h7] at this

/-- … and `HermOK` of C01 / C02 follows for the PSD witness at every node (`C05_hermOK`) -/
theorem C05_witness_hermOK : psdWitness.HermOK ∧ psdWitness.isa .selfAdjoint = true := by
  obtain ⟨h1, h2, h3, h4, h5, _, _⟩ := psdWitness_hyps
  refine ⟨C05_hermOK psdWitness h1 h2 h3 h4, ?_⟩
  simp only [Op.isa, AnnSet.isa, List.any_eq_true]
  exact ⟨.psd, h5, by simp [Ann.sub]⟩

/-- Kronecker product of a declared-PSD `2 × 2` leaf and a declared-PSD (and, redundantly,
declared-SelfAdjoint) `1 × 1` leaf -/
noncomputable def kronExample : Op ℝ :=
  .kron [.annot .psd (.dense .f64 2 2 eyeM),
    .annot .selfAdjoint (.annot .psd (.dense .f64 1 1 eyeM))]

example : kronExample.wf = true ∧ kronExample.LeavesTrue ∧
    kronExample.NoScalarTimesAnnotated ∧ kronExample.GramTransposeReal ∧
    Ann.psd ∈ kronExample.anns := by
  refine ⟨?_, ?_, ?_, ?_, ?_⟩
  · simp [kronExample, Op.wf]
  · simp only [kronExample, LeavesTrue, List.mem_cons, List.not_mem_nil, or_false,
      forall_eq_or_imp, forall_eq, and_true, Op.rows, Op.cols, Op.den, MatV.of_f]
    exact ⟨holds_eyeM .psd 2, holds_eyeM .selfAdjoint 1, holds_eyeM .psd 1⟩
  · simp [kronExample, NoScalarTimesAnnotated, Op.scalarTimesAnnotated]
  · simp [kronExample, GramTransposeReal]
  · simp [kronExample, Op.anns, AnnSet.interAll, AnnSet.inter, AnnSet.union]

/-- … so the main theorem applies to it: the Kronecker product really is PSD -/
example : Holds .psd kronExample.rows kronExample.cols kronExample.den.f := by
  have h : kronExample.wf = true ∧ kronExample.LeavesTrue ∧
      kronExample.NoScalarTimesAnnotated ∧ kronExample.GramTransposeReal ∧
      Ann.psd ∈ kronExample.anns := by
    refine ⟨?_, ?_, ?_, ?_, ?_⟩
    · simp [kronExample, Op.wf]
    · simp only [kronExample, LeavesTrue, List.mem_cons, List.not_mem_nil, or_false,
        forall_eq_or_imp, forall_eq, and_true, Op.rows, Op.cols, Op.den, MatV.of_f]
      exact ⟨holds_eyeM .psd 2, holds_eyeM .selfAdjoint 1, holds_eyeM .psd 1⟩
    · simp [kronExample, NoScalarTimesAnnotated, Op.scalarTimesAnnotated]
    · simp [kronExample, GramTransposeReal]
    · simp [kronExample, Op.anns, AnnSet.interAll, AnnSet.inter, AnnSet.union]
  exact C05_sound_partial kronExample h.1 h.2.1 h.2.2.1 h.2.2.2.1 _ h.2.2.2.2

end C05

#print axioms C05.C05_psd_selfAdjoint
#print axioms C05.C05_unitary_stiefel
#print axioms C05.C05_sound_partial
#print axioms C05.C05_sound_realTyped
#print axioms C05.C05_isa
#print axioms C05.C05_hermOK
#print axioms C05.C05_hermOK_realTyped
#print axioms C05.C05_declare
#print axioms C05.C05_declare_leaves
#print axioms C05.C05_clause_needed
#print axioms C05.C05_gramReal_needed
#print axioms C05.C05_clause_defs_agree
#print axioms C05.C05_clause_printed_iff
#print axioms C05.C05_witness_psd_gram
#print axioms C05.C05_witness_unitary
#print axioms C05.C05_witness_hermOK
