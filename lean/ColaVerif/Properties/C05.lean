import ColaVerif.Lemmas.OpMatmat
#print axioms Op.rmm_eq
