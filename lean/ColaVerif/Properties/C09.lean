import ColaVerif.Lemmas.UnaryPow
import ColaVerif.Lemmas.UnaryEig
import ColaVerif.Lemmas.UnaryGood
import ColaVerif.Lemmas.UnaryBranch
import ColaVerif.Lemmas.KrylovCompose
import ColaVerif.Lemmas.UnaryKrylov
import ColaVerif.Lemmas.UnaryKronN
import ColaVerif.Lemmas.AnnotSound
import Mathlib.Analysis.Complex.Basic
import Mathlib.Analysis.SpecialFunctions.Pow.Real
import Mathlib.Analysis.SpecialFunctions.Exp

/-!
# C09 — matrix functions `exp / log / sqrt / isqrt / pow / apply_unary` equal `f` of the matrix

**Specification.**  `IsMatFunOn S f A F` (`Lemmas/UnaryMatFun.lean`): there is a diagonalisation
`A = V diag(d) V⁻¹` with every `d i ∈ S` (the domain the spectrum lies in) and `F = V diag(f ∘ d) V⁻¹`,
over `Matrix ι ι 𝕜`, `𝕜` any field (`StarRing` where an adjoint occurs).  It is well defined
(`C09_matFun_unique`: two diagonalisations give the same `F`, because `F = p(A)` for every polynomial
`p` that interpolates `f` on the spectrum — `C09_matFun_eq_poly`).

**Model.**  `Model/Unary.lean`: `applyUnary`, `expRule`, `logRule`, `powRule`, `sqrtRule`, `isqrtRule`
return the plan `UnOp` of the returned operator (rule selection through `Op.core`, the `Auto` choice,
`pow`'s shortcuts as the decision function `powPlan`); `UnOp.toOp P` is the operator, with the matrices
of the dense eigendecompositions / Krylov operators / `inv` supplied by the oracle `P`.

**Theorems.**  every rule preserves the specification (`C09_rule_*`, on Mathlib matrices, any index type);
the base cases are right under their contracts (`C09_eigh_base`, `C09_eig_base`, `C09_krylov_base`);
for EVERY operator tree the planned operator represents `f` of the represented matrix
(`C09_apply_unary`, `C09_exp`, `C09_log`, `C09_pow`, `C09_sqrt`, `C09_isqrt`) under `UnOp.Sound` = the
hypotheses at the leaves of the plan; `C09_action`: its action on every operand is that of `f(A)`;
identities `C09_int_pow`, `C09_pow_neg_one`, `C09_sqrt_twice`; the decisions of `pow` on the
exponents of the property (`C09_powPlan_exponents`, `C09_powPlan_nat`).

**Round 2 (contracts instead of assumed conclusions).**  `UnOp.SoundE` (`Lemmas/UnaryEig.lean`) states only
CONTRACTS at the leaves of a plan — LAPACK's eigendecomposition (`EigOK`: `A V = V diag d`, `Vi V = 1`, `Vi = Vᴴ`
for `Eigh`), complete Krylov factorisations with the small eigendecomposition (`KrylovOK`), `inv` a left inverse,
`Op.Good` operands of repeated products — and `C09_apply_unary_eig`, `C09_log_eig`, `C09_exp_eig`, `C09_pow_eig`
conclude as before; `f(A) := V f(D) Vi` is DEFINED from the decomposition and independent of it
(`C09_eig_defined`, `C09_eig_independent`), witness `C09_eig_witness`.  The Krylov paths: `C09_krylov_poly`,
`C09_krylov_quadrature`, `C09_krylov_poly_code` (commutative ring, every polynomial), `C09_krylov_weighted` (the code after
/repo 25c506e, partial `f`), and `C09_arnoldi_path` / `C09_lanczos_path` where the invariance `A Q = Q T` is no longer a
hypothesis but the theorem of C15 / C14 about the loop models (`Lemmas/KrylovCompose.lean`).  Over `ℂ` with numpy's
principal branches (`Lemmas/UnaryBranch.lean`): `C09_kron_pow_domain` (+ `_witness`, and `C09_kron_pow_counterexample`
OUTSIDE the domain — the recorded clause `kron-pow-principal-branch`), `C09_complex_rules`,
`C09_adjoint_cut_counterexample`.

**Round 3 (no unwitnessed contract).**  `KrylovOK` is DERIVED for the Lanczos model from the loop model of C14
(`C09_krylov_ok_of_lanczos`, `_cap`; `Lemmas/KrylovInst.lean`, `Lemmas/UnaryKrylov.lean`; remaining contract `EighContract`,
satisfiable by the spectral theorem) and witnessed on `SelfAdjoint([[2,1],[1,2]])` (`C09_krylov_ok_witness`);
`C09_lanczos_path` is instantiated with every hypothesis discharged and ends in closed statements
(`C09_lanczos_path_closed`: every `g`, polynomial `g`, `log` through its interpolant); `C09_pow_kron_complex` is
instantiated (`C09_pow_kron_complex_witness`) and extended to any number of members with the domain condition on partial
products (`C09_pow_kron_nary`, `_witness`, `C09_pow_kron_positive`; `Lemmas/UnaryKronN.lean`).

**Clause** (a modelled defect of the code, with a witness; the two earlier clauses `krylov-zero-mask`
and `pow-neg-one-krylov-alg` were repaired in /repo — a523921, 57e439f — and the model follows the repaired
code: no magnitude mask in the Krylov operators (`C09_zero_mask_would_fail` keeps the reason), `pow(·, −1,
Lanczos|Arnoldi)` hands `CG`/`GMRES` to `inv`):
* `scalar-times-annotated` (the recorded finding of C05 / C01 / C02, here through the rules of C09) — hypothesis
  `hg : Op.Good F` of `C09_action`: the ScalarMul / Identity rules return `f(c) * I_like(A)` =
  `Product[ScalarMul, Identity]`, which reports Identity's `PSD`/`Unitary` whatever `f(c)` is; its represented
  matrix is right (`C09_apply_unary`), but a `Transpose`/`Adjoint` of a BlockDiag/Kronecker holding it goes through
  the conjugation shortcut of the default `_rmatmat`; witness `C09_action_clause_needed` (`f(c) = i`).
Named hypotheses that are not defects: `f (conj z) = conj (f z)` on the spectrum for the Adjoint rule,
`f (a b) = f a · f b` on the spectra for `pow(Kronecker)`, `e (a + b) = e a · e b` for `exp(KronSum)`;
`C09_real_instances` shows they hold for the real `exp` and `x ↦ x ^ α` on the positive reals.
-/

open Matrix MatFun Unary KrylovCompose
open scoped Kronecker

namespace C09

section spec
variable {𝕜 : Type} [Field 𝕜] {ι κ : Type} [Fintype ι] [DecidableEq ι] [Fintype κ] [DecidableEq κ]

/-- **well-definedness**: `f` of a diagonalisable matrix does not depend on the diagonalisation -/
theorem C09_matFun_unique {S T : Set 𝕜} {f : 𝕜 → 𝕜} {A F F' : Matrix ι ι 𝕜}
    (h : IsMatFunOn S f A F) (h' : IsMatFunOn T f A F') : F = F' := IsMatFun.unique h h'

/-- `F = p(A)` for every polynomial that takes the values of `f` on the (finite) spectrum, and such
polynomials exist (Lagrange) -/
theorem C09_matFun_eq_poly {S : Set 𝕜} {f : 𝕜 → 𝕜} {A F : Matrix ι ι 𝕜} (h : IsMatFunOn S f A F) :
    ∃ p : Polynomial 𝕜, F = Polynomial.aeval A p := by
  classical
  obtain ⟨s, _, hs⟩ := h.eq_aeval
  obtain ⟨p, hp⟩ := exists_interpolant s f
  exact ⟨p, hs p hp⟩

/-- the specification in the textbook form `A = V D V⁻¹`, `F = V f(D) V⁻¹`, `V` invertible -/
theorem C09_spec_iff {S : Set 𝕜} {f : 𝕜 → 𝕜} {A F : Matrix ι ι 𝕜} :
    IsMatFunOn S f A F ↔ ∃ (V : Matrix ι ι 𝕜) (d : ι → 𝕜), IsUnit V.det ∧ (∀ i, d i ∈ S) ∧
      A = V * diagonal d * V⁻¹ ∧ F = V * diagonal (fun i => f (d i)) * V⁻¹ := isMatFunOn_iff_nonsingInv

/-! ## every rule preserves the specification -/

theorem C09_rule_diagonal {S : Set 𝕜} (f : 𝕜 → 𝕜) (d : ι → 𝕜) (hd : ∀ i, d i ∈ S) :
    IsMatFunOn S f (diagonal d) (diagonal (fun i => f (d i))) := IsMatFunOn.diagonal f d hd

theorem C09_rule_scalar {S : Set 𝕜} (f : 𝕜 → 𝕜) (c : 𝕜) (hc : c ∈ S) :
    IsMatFunOn S f (c • (1 : Matrix ι ι 𝕜)) (f c • (1 : Matrix ι ι 𝕜)) := IsMatFunOn.smul_one f c hc

theorem C09_rule_identity {S : Set 𝕜} (f : 𝕜 → 𝕜) (h1 : (1 : 𝕜) ∈ S) :
    IsMatFunOn S f (1 : Matrix ι ι 𝕜) (f 1 • (1 : Matrix ι ι 𝕜)) := IsMatFunOn.one f h1

theorem C09_rule_blockDiag {S : Set 𝕜} {f : 𝕜 → 𝕜} {A F : Matrix ι ι 𝕜} {B G : Matrix κ κ 𝕜}
    (hA : IsMatFunOn S f A F) (hB : IsMatFunOn S f B G) :
    IsMatFunOn S f (fromBlocks A 0 0 B) (fromBlocks F 0 0 G) := hA.fromBlocks hB

theorem C09_rule_transpose {S : Set 𝕜} {f : 𝕜 → 𝕜} {A F : Matrix ι ι 𝕜} (h : IsMatFunOn S f A F) :
    IsMatFunOn S f Aᵀ Fᵀ := h.transpose

/-- Adjoint rule, named hypothesis `hf` = `f` commutes with conjugation on the spectrum (true for
`exp`, and for `log`, `x ↦ x ^ α` (real `α`) on the principal branch away from the cut) -/
theorem C09_rule_adjoint [StarRing 𝕜] {S S' : Set 𝕜} {f : 𝕜 → 𝕜} {A F : Matrix ι ι 𝕜}
    (h : IsMatFunOn S f A F) (hS : ∀ z ∈ S, star z ∈ S') (hf : ∀ z ∈ S, f (star z) = star (f z)) :
    IsMatFunOn S' f Aᴴ Fᴴ := h.conjTranspose hS hf

/-- `exp(A ⊕ B) = exp A ⊗ exp B` (`V_A ⊗ V_B`, `e (a + b) = e a * e b`) -/
theorem C09_rule_kronSum_exp {S T U : Set 𝕜} {e : 𝕜 → 𝕜} {A F : Matrix ι ι 𝕜} {B G : Matrix κ κ 𝕜}
    (hA : IsMatFunOn S e A F) (hB : IsMatFunOn T e B G) (hU : ∀ a ∈ S, ∀ b ∈ T, a + b ∈ U)
    (he : ∀ a ∈ S, ∀ b ∈ T, e (a + b) = e a * e b) :
    IsMatFunOn U e (A ⊗ₖ (1 : Matrix κ κ 𝕜) + (1 : Matrix ι ι 𝕜) ⊗ₖ B) (F ⊗ₖ G) := hA.kronSum hB hU he

/-- `pow(A ⊗ B, α) = pow(A, α) ⊗ pow(B, α)`, named hypothesis `hf` = `(a b)^α = a^α b^α` on the two
spectra (positive reals, or integer `α`) -/
theorem C09_rule_kronecker_pow {S T U : Set 𝕜} {f : 𝕜 → 𝕜} {A F : Matrix ι ι 𝕜} {B G : Matrix κ κ 𝕜}
    (hA : IsMatFunOn S f A F) (hB : IsMatFunOn T f B G) (hU : ∀ a ∈ S, ∀ b ∈ T, a * b ∈ U)
    (hf : ∀ a ∈ S, ∀ b ∈ T, f (a * b) = f a * f b) : IsMatFunOn U f (A ⊗ₖ B) (F ⊗ₖ G) :=
  hA.kronecker hB hU hf

/-! ## base cases -/

/-- dense Hermitian path `V f(D) Vᴴ` under the contract of `eigh` -/
theorem C09_eigh_base [StarRing 𝕜] {S : Set 𝕜} (f : 𝕜 → 𝕜) {A V : Matrix ι ι 𝕜} {d : ι → 𝕜}
    (hV : Vᴴ * V = 1) (hA : A = V * diagonal d * Vᴴ) (hd : ∀ i, d i ∈ S) :
    IsMatFunOn S f A (V * diagonal (fun i => f (d i)) * Vᴴ) := eigh_contract f hV hA hd

/-- dense general path `V f(D) V⁻¹` under the contracts of `eig` (`A V = V D`) and `inv` (`Vi V = 1`) -/
theorem C09_eig_base {S : Set 𝕜} (f : 𝕜 → 𝕜) {A V Vi : Matrix ι ι 𝕜} {d : ι → 𝕜}
    (hVi : Vi * V = 1) (hA : A * V = V * diagonal d) (hd : ∀ i, d i ∈ S) :
    IsMatFunOn S f A (V * diagonal (fun i => f (d i)) * Vi) := eig_contract f hVi hA hd

/-- **Krylov paths** (`LanczosUnary`, `ArnoldiUnary`), one operand `v`: from a complete factorisation
`A Q = Q T` (full Krylov dimension, or early exit on an invariant subspace; the buffers trimmed to the
executed steps) started from `v = Q (‖v‖ e₁)`, with `T = P diag(θ) P⁻¹` the eigendecomposition the code
computes, the output `Q P (f(θ) ⊙ P⁻¹ (‖v‖ e₁))` is `f(A) v`. -/
theorem C09_krylov_base {S : Set 𝕜} {f : 𝕜 → 𝕜} {A F : Matrix ι ι 𝕜}
    {Q : Matrix ι κ 𝕜} {T P Pi : Matrix κ κ 𝕜} {θ u : κ → 𝕜} {v : ι → 𝕜} (hF : IsMatFunOn S f A F)
    (hfac : A * Q = Q * T) (hP : Pi * P = 1) (hT : T = P * diagonal θ * Pi) (hv : Q *ᵥ u = v) :
    krylovOut Q P Pi θ f u = F *ᵥ v :=
  krylov_apply hF hfac hP hT hv (fun _ => rfl)

/-- why the repaired code does not mask Ritz values by magnitude (the former clause `krylov-zero-mask`):
with `f(θ)` replaced by `0` at zero Ritz values, on the `1 × 1` zero matrix (`Q = P = 1`, `T = 0`,
`θ = 0`, `v = u = 1`) every hypothesis of `C09_krylov_base` holds and the output is `0`, not `f(0) v`. -/
theorem C09_zero_mask_would_fail [DecidableEq 𝕜] (f : 𝕜 → 𝕜) (hf0 : f 0 ≠ 0) :
    ∃ (A F Q T P Pi : Matrix (Fin 1) (Fin 1) 𝕜) (θ u v : Fin 1 → 𝕜),
      IsMatFun f A F ∧ A * Q = Q * T ∧ Pi * P = 1 ∧ T = P * diagonal θ * Pi ∧ Q *ᵥ u = v ∧
        krylovOut Q P Pi θ (maskZero f) u ≠ F *ᵥ v := by
  refine ⟨0, f 0 • 1, 1, 0, 1, 1, fun _ => 0, fun _ => 1, fun _ => 1, ?_, by simp, by simp, ?_, by simp, ?_⟩
  · have h := IsMatFunOn.smul_one (ι := Fin 1) (S := Set.univ) f 0 (Set.mem_univ _)
    simpa using h
  · ext i j
    simp
  · intro h
    have h0 := congrFun h 0
    simp [krylovOut, maskZero, Matrix.mulVec, dotProduct] at h0
    exact hf0 h0.symm

/-- the Krylov operator as a whole: if on EVERY operand it returns the Krylov formula of a complete
factorisation started from that operand, it is `f(A)` -/
theorem C09_krylov_operator {S : Set 𝕜} {f : 𝕜 → 𝕜} {A K : Matrix ι ι 𝕜}
    (hA : DiagonalisableOn S A)
    (hK : ∀ v : ι → 𝕜, ∃ (m : ℕ) (Q : Matrix ι (Fin m) 𝕜) (T P Pi : Matrix (Fin m) (Fin m) 𝕜)
      (θ u : Fin m → 𝕜), A * Q = Q * T ∧ Pi * P = 1 ∧ T = P * diagonal θ * Pi ∧ Q *ᵥ u = v ∧
        K *ᵥ v = krylovOut Q P Pi θ f u) :
    IsMatFunOn S f A K := by
  refine krylov_contract (fm := f) hA (fun v => ?_)
  obtain ⟨m, Q, T, P, Pi, θ, u, h1, h2, h3, h4, h6⟩ := hK v
  exact ⟨m, Q, T, P, Pi, θ, u, h1, h2, h3, h4, fun _ => rfl, h6⟩

/-! ## identities -/

/-- **integer powers equal repeated multiplication** (matrix level) -/
theorem C09_pow_nat_unique {S : Set 𝕜} {A F : Matrix ι ι 𝕜} (k : ℕ)
    (h : IsMatFunOn S (fun x => x ^ k) A F) : F = A ^ k := h.pow_nat k

/-- **power −1 equals the inverse** (spectrum away from `0`) -/
theorem C09_pow_neg_one {S : Set 𝕜} {A F : Matrix ι ι 𝕜} (h0 : (0 : 𝕜) ∉ S)
    (h : IsMatFunOn S (fun x => x⁻¹) A F) : F * A = 1 ∧ A * F = 1 :=
  ⟨h.inv_mul h0, mul_eq_one_comm.mp (h.inv_mul h0)⟩

/-- … and conversely what `inv` returns (contract `B A = 1`, C06) is the power −1 -/
theorem C09_inv_is_pow_neg_one {S : Set 𝕜} {A B : Matrix ι ι 𝕜} (hA : DiagonalisableOn S A)
    (h0 : (0 : 𝕜) ∉ S) (hB : B * A = 1) : IsMatFunOn S (fun x => x⁻¹) A B := hA.isMatFun_inv h0 hB

/-- **sqrt(A) applied twice acts as A** -/
theorem C09_sqrt_twice {S : Set 𝕜} {s : 𝕜 → 𝕜} {A F : Matrix ι ι 𝕜} (h : IsMatFunOn S s A F)
    (hs : ∀ a ∈ S, s a * s a = a) : F * F = A ∧ ∀ v : ι → 𝕜, F *ᵥ (F *ᵥ v) = A *ᵥ v := by
  have h2 := h.sqrt_twice hs
  exact ⟨h2, fun v => by rw [Matrix.mulVec_mulVec, h2]⟩

end spec

/-! ## the decisions of `pow` -/

/-- the eleven exponents of the property -/
theorem C09_powPlan_exponents :
    powPlan (-2) = .generic ∧ powPlan (-1) = .inverse ∧ powPlan (-1 / 2) = .generic ∧
    powPlan 0 = .identity ∧ powPlan (1 / 2) = .generic ∧ powPlan 1 = .product 1 ∧
    powPlan 2 = .product 2 ∧ powPlan 3 = .product 3 ∧ powPlan 9 = .product 9 ∧
    powPlan 10 = .generic ∧ powPlan (5 / 2) = .generic :=
  ⟨powPlan_neg_two, powPlan_neg_one, powPlan_neg_half, powPlan_zero, powPlan_half, powPlan_one,
    powPlan_two, powPlan_three, powPlan_nine, powPlan_ten, powPlan_five_halves⟩

/-- exactly the naturals `1 … 9` take the repeated product, with exactly `k` members -/
theorem C09_powPlan_nat (k : Nat) : powPlan (k : Rat) =
    if k = 0 then .identity else if k < 10 then .product k else .generic := powPlan_nat k

section trees
variable {𝕜 : Type} [Field 𝕜] [StarRing 𝕜] [DecidableEq 𝕜]

/-! ## every operator tree -/

/-- **`apply_unary(f, A, alg)`**: for every operator tree `A`, every `f`, every algorithm class, if the
hypotheses at the leaves of the plan hold (`UnOp.Sound`: spectra of the structured leaves in `S`, the
base cases satisfy their contracts, no node raises) the planned operator represents `f(⟦A⟧)`. -/
theorem C09_apply_unary (P : Params 𝕜) (S : Set 𝕜) (f : 𝕜 → 𝕜) (alg : Alg) (A : Op 𝕜)
    (h : (applyUnary f alg A).Sound P S f) :
    A.cols = A.rows ∧
      IsMatFunOn S f (mat A) (MatF.toMatrix A.rows A.rows ((applyUnary f alg A).toOp P).den.f) := by
  have := applyUnary_ok P S f alg A h
  exact ⟨this.1, this.2.2.2⟩

/-- **`log(A, alg)`** -/
theorem C09_log (P : Params 𝕜) (S : Set 𝕜) (l : 𝕜 → 𝕜) (alg : Alg) (A : Op 𝕜)
    (h : (logRule l alg A).Sound P S l) :
    IsMatFunOn S l (mat A) (MatF.toMatrix A.rows A.rows ((logRule l alg A).toOp P).den.f) :=
  (applyUnary_ok P S l alg A h).2.2.2

/-- **`exp(A, alg)`**, `exp(KronSum) = ⊗ exp` included; named hypotheses on the scalar function:
`e 0 = 1`, `e (a + b) = e a * e b` -/
theorem C09_exp (P : Params 𝕜) (S : Set 𝕜) (e : 𝕜 → 𝕜) (alg : Alg) (h0 : (0 : 𝕜) ∈ S) (he0 : e 0 = 1)
    (hSadd : ∀ a ∈ S, ∀ b ∈ S, a + b ∈ S) (he : ∀ a ∈ S, ∀ b ∈ S, e (a + b) = e a * e b) (A : Op 𝕜)
    (h : (expRule e alg A).Sound P S e) :
    IsMatFunOn S e (mat A) (MatF.toMatrix A.rows A.rows ((expRule e alg A).toOp P).den.f) :=
  (expRule_ok P S e alg h0 he0 hSadd he A h).2.2.2

/-- **`pow(A, α, alg)`**, shortcuts and `pow(Kronecker) = ⊗ pow` included; named hypotheses on the
scalar family: `1 ^ α = 1`, `(a b) ^ α = a ^ α b ^ α` on `S`.  (`Sound` excludes only the plans in which
`Eigh`/`Lanczos` reject an operand that is not declared `SelfAdjoint` — an inadmissible algorithm.) -/
theorem C09_pow (P : Params 𝕜) (S : Set 𝕜) (pw : Rat → 𝕜 → 𝕜) (α : Rat) (alg : Alg)
    (h1 : (1 : 𝕜) ∈ S) (hf1 : pw α 1 = 1) (hSmul : ∀ a ∈ S, ∀ b ∈ S, a * b ∈ S)
    (hmul : ∀ a ∈ S, ∀ b ∈ S, pw α (a * b) = pw α a * pw α b) (A : Op 𝕜)
    (h : (powRule pw α alg A).Sound P S (pw α)) :
    IsMatFunOn S (pw α) (mat A) (MatF.toMatrix A.rows A.rows ((powRule pw α alg A).toOp P).den.f) :=
  (powRule_ok P S pw α alg h1 hf1 hSmul hmul A h).2.2.2

/-- **`sqrt(A, alg) = pow(A, 1/2, alg)`** -/
theorem C09_sqrt (P : Params 𝕜) (S : Set 𝕜) (pw : Rat → 𝕜 → 𝕜) (alg : Alg)
    (h1 : (1 : 𝕜) ∈ S) (hf1 : pw (1 / 2) 1 = 1) (hSmul : ∀ a ∈ S, ∀ b ∈ S, a * b ∈ S)
    (hmul : ∀ a ∈ S, ∀ b ∈ S, pw (1 / 2) (a * b) = pw (1 / 2) a * pw (1 / 2) b) (A : Op 𝕜)
    (h : (sqrtRule pw alg A).Sound P S (pw (1 / 2))) :
    IsMatFunOn S (pw (1 / 2)) (mat A)
      (MatF.toMatrix A.rows A.rows ((sqrtRule pw alg A).toOp P).den.f) :=
  C09_pow P S pw (1 / 2) alg h1 hf1 hSmul hmul A h

/-- **`isqrt(A, alg) = pow(A, −1/2, alg)`** -/
theorem C09_isqrt (P : Params 𝕜) (S : Set 𝕜) (pw : Rat → 𝕜 → 𝕜) (alg : Alg)
    (h1 : (1 : 𝕜) ∈ S) (hf1 : pw (-1 / 2) 1 = 1) (hSmul : ∀ a ∈ S, ∀ b ∈ S, a * b ∈ S)
    (hmul : ∀ a ∈ S, ∀ b ∈ S, pw (-1 / 2) (a * b) = pw (-1 / 2) a * pw (-1 / 2) b) (A : Op 𝕜)
    (h : (isqrtRule pw alg A).Sound P S (pw (-1 / 2))) :
    IsMatFunOn S (pw (-1 / 2)) (mat A)
      (MatF.toMatrix A.rows A.rows ((isqrtRule pw alg A).toOp P).den.f) :=
  C09_pow P S pw (-1 / 2) alg h1 hf1 hSmul hmul A h

omit [StarRing 𝕜] in
/-- `pow(A, −1, alg)` is `inv(A, mapped algorithm)` for every algorithm class (operand not a Kronecker
product): `Auto → Auto`, `Eigh → Cholesky`, `Eig → LU`, `Lanczos → CG`, `Arnoldi → GMRES` -/
theorem C09_pow_neg_one_plan (pw : Rat → 𝕜 → 𝕜) (alg : Alg) (dt : DType) (n : Nat) (a : MatF 𝕜) :
    powRule pw (-1) alg (.dense dt n n a) = .inv (.dense dt n n a) (invAlgOf alg) ∧
      invAlgOf .lanczos = .cg ∧ invAlgOf .arnoldi = .gmres ∧ invAlgOf .eigh = .cholesky ∧
      invAlgOf .eig = .lu ∧ invAlgOf .auto = .auto := by
  refine ⟨?_, rfl, rfl, rfl, rfl, rfl⟩
  simp only [powRule, powGo, powBase, powPlan_neg_one]

/-- **integer powers equal repeated multiplication** (operator level): for `0 < k < 10` the generic rule
of `pow(A, k)` (every operand except a `Kronecker`, which is handled member-wise) returns the operator
`A @ … @ A` (`k` members, through `cola.fns.dot`) and it represents `⟦A⟧ ^ k`.  `hH`: the products built on
the way are Hermitian where they report `SelfAdjoint` (what C05 establishes). -/
theorem C09_int_pow (pw : Rat → 𝕜 → 𝕜) (alg : Alg) (A : Op 𝕜) (hg : Op.Good A) (hsq : A.cols = A.rows)
    (hH : ∀ j B, powProduct A j = .ok B → Op.HermNode B) (k : Nat) (hk : 0 < k) (hk10 : k < 10) :
    ∃ B, powBase pw (k : Rat) alg A = .product A k B ∧ B.rows = A.rows ∧ B.cols = A.rows ∧
      MatF.toMatrix A.rows A.rows B.den.f = (mat A) ^ k ∧ Op.Good B := by
  -- the fold of `dot` never fails on a square operand
  have hex : ∀ j, 0 < j → ∃ B, powProduct A j = .ok B := by
    intro j
    induction j with
    | zero => intro h; omega
    | succ j ih =>
      intro _
      cases j with
      | zero => exact ⟨A, by simp only [powProduct]⟩
      | succ j =>
        obtain ⟨Pj, hPj⟩ := ih (by omega)
        obtain ⟨⟨hr, hc, _⟩, hgP⟩ := powProduct_rep A hg hsq hH (j + 1) Pj (by omega) hPj
        have hdim : Pj.cols = A.rows := hc
        have hdot : ∃ B', Ex.dotRule Pj A = .ok (.op B') :=
          ExprSound.dotRule_total Pj A hgP hg hdim
        obtain ⟨B', hB'⟩ := hdot
        exact ⟨B', by simp only [powProduct, hPj, bind, Except.bind, hB']⟩
  obtain ⟨B, hB⟩ := hex k hk
  obtain ⟨⟨hr, hc, hden⟩, hgB⟩ := powProduct_rep A hg hsq hH k B hk hB
  have hplan : powBase pw (k : Rat) alg A = .product A k B := by
    unfold powBase
    rw [powPlan_nat, if_neg (by omega), if_pos hk10]
    simp only [hB]
  refine ⟨B, hplan, hr, hc, ?_, hgB⟩
  rw [← toMatrix_powM]
  exact MatF.toMatrix_congr hden

/-- **the action**: an operator that represents `F` acts on every operand (any number of columns) as
`F` — through C01 (`Op.mm_eq`), for the operator the plan builds -/
theorem C09_action {S : Set 𝕜} {f : 𝕜 → 𝕜} {A F : Op 𝕜} (h : MatFunOK S f A F) (hg : Op.Good F)
    (b : Nat) (X : MatF 𝕜) :
    ∃ Fm : Matrix (Fin A.rows) (Fin A.rows) 𝕜, IsMatFunOn S f (mat A) Fm ∧
      MatF.toMatrix A.rows b (F.mm b X).f = Fm * MatF.toMatrix A.rows b X := by
  obtain ⟨_, hr, hc, hW⟩ := h
  refine ⟨_, hW, ?_⟩
  have hmm := Op.mm_eq F hg.wf hg.nd hg.herm b X
  rw [hr, hc] at hmm
  rw [MatF.toMatrix_congr hmm, MatF.toMatrix_mmul]

end trees

/-! ## the clause of `C09_action` is needed -/

/-- the operator the ScalarMul rule returns when `f(c) = i` -/
noncomputable def badScaled (P : Params ℂ) : Op ℂ :=
  (UnOp.scaledEye .c128 1 (fun _ => Complex.I) 1).toOp P

/-- **the clause `scalar-times-annotated` is needed for the action**: `f(c) * I_like(A)` with `f(c) = i`
reports `SelfAdjoint` (inherited from `Identity`) and is not Hermitian, so the planned operator is not
`Op.Good` — its represented matrix is `f(A)`, but products through the `SelfAdjoint` shortcut are not. -/
theorem C09_action_clause_needed (P : Params ℂ) :
    (badScaled P).isa .selfAdjoint = true ∧ ¬ Op.HermNode (badScaled P) ∧ ¬ Op.Good (badScaled P) := by
  have hisa : (badScaled P).isa .selfAdjoint = true := by
    simp only [badScaled, UnOp.toOp, Op.isa]
    rw [Op.anns_prod]
    simp [Op.gramB, Op.isTA, Op.isT, Op.core, Op.isScalarMul, Op.anns, AnnSet.isa, Ann.sub]
  have hbad : ¬ Op.HermNode (badScaled P) := by
    intro h
    obtain ⟨_, hh⟩ := h hisa
    have h0 := hh 0 0 (by simp [badScaled, UnOp.toOp, Op.rows]) (by simp [badScaled, UnOp.toOp, Op.rows])
    simp [badScaled, UnOp.toOp, Op.den, Op.cols, mmul, sumTo, eyeM] at h0
    have := congrArg Complex.im h0
    simp at this
    norm_num at this
  refine ⟨hisa, hbad, fun hg => hbad ?_⟩
  have hh := hg.herm
  simp only [badScaled, UnOp.toOp, Op.HermOK] at hh
  simpa only [badScaled, UnOp.toOp] using hh.1

/-! ## the hypotheses are satisfiable: real instances and a concrete tree -/

section real

/-- the named hypotheses hold for the real exponential (on all of `ℝ`) and for `x ↦ x ^ α` on the
positive reals, for every rational `α`; conjugation is trivial on `ℝ`; `sqrt x * sqrt x = x`, and on
the shortcut exponents `x ^ α` is the natural power / the reciprocal -/
theorem C09_real_instances :
    (Real.exp 0 = 1 ∧ ∀ a b : ℝ, Real.exp (a + b) = Real.exp a * Real.exp b) ∧
    (∀ α : ℚ, (1 : ℝ) ^ (α : ℝ) = 1 ∧ ∀ a ∈ Set.Ioi (0 : ℝ), ∀ b ∈ Set.Ioi (0 : ℝ),
      (a * b) ^ (α : ℝ) = a ^ (α : ℝ) * b ^ (α : ℝ) ∧ a * b ∈ Set.Ioi (0 : ℝ)) ∧
    (∀ a ∈ Set.Ioi (0 : ℝ), a ^ (((1 / 2 : ℚ) : ℝ)) * a ^ (((1 / 2 : ℚ) : ℝ)) = a) ∧
    (∀ (k : ℕ) (a : ℝ), a ^ (((k : ℚ) : ℝ)) = a ^ k) ∧
    (∀ a ∈ Set.Ioi (0 : ℝ), a ^ (((-1 : ℚ) : ℝ)) = a⁻¹) := by
  refine ⟨⟨Real.exp_zero, Real.exp_add⟩, ?_, ?_, ?_, ?_⟩
  · intro α
    refine ⟨Real.one_rpow _, fun a ha b hb =>
      ⟨Real.mul_rpow (le_of_lt (Set.mem_Ioi.mp ha)) (le_of_lt (Set.mem_Ioi.mp hb)),
        Set.mem_Ioi.mpr (mul_pos (Set.mem_Ioi.mp ha) (Set.mem_Ioi.mp hb))⟩⟩
  · intro a ha
    rw [← Real.rpow_add ha]
    norm_num
  · intro k a
    rw [Rat.cast_natCast, Real.rpow_natCast]
  · intro a ha
    rw [Rat.cast_neg, Rat.cast_one, Real.rpow_neg_one]

/-- a nested tree over `ℝ`: `BlockDiag(Diagonal [1, 4] ×2, Transpose(ScalarMul 9))` -/
noncomputable def exampleTree : Op ℝ :=
  .bdiag [.diag .f64 2 (fun i => if i = 0 then 1 else 4), .transpose (.scalar .f64 9 1)] [2, 1]

/-- … its plan under `apply_unary(f, ·, Auto())` has no base case, and is sound for every oracle and
every `f` (spectrum in `S = univ`) -/
example (P : Params ℝ) (f : ℝ → ℝ) : (applyUnary f .auto exampleTree).Sound P Set.univ f := by
  simp [exampleTree, applyUnary, applyGo, UnOp.Sound]

/-- … so the main theorem applies: the planned operator represents `f` of the `5 × 5` matrix -/
example (P : Params ℝ) (f : ℝ → ℝ) :
    IsMatFunOn Set.univ f (mat exampleTree)
      (MatF.toMatrix exampleTree.rows exampleTree.rows ((applyUnary f .auto exampleTree).toOp P).den.f) :=
  (C09_apply_unary P Set.univ f .auto exampleTree
    (by simp [exampleTree, applyUnary, applyGo, UnOp.Sound])).2

end real

end C09

namespace C09

/-! ## base cases defined from the eigendecomposition; Krylov paths on the loop models -/

section eig
variable {𝕜 : Type} [Field 𝕜] [StarRing 𝕜] [DecidableEq 𝕜]

/-- **dense base cases, from the LAPACK contract only**: the matrix the code builds,
`V @ Diagonal(g(eigs)) @ Vi`, is `g(A)` for EVERY scalar function `g` (`hermitian = true`: `Eigh`,
`Vi = Vᴴ`; `false`: `Eig`, `Vi = inv(V)`). -/
theorem C09_eig_defined {S : Set 𝕜} {b : Bool} {A : Op 𝕜} {e : EigData 𝕜} (h : EigOK S b A e)
    (g : 𝕜 → 𝕜) : IsMatFunOn S g (mat A) (MatF.toMatrix A.rows A.rows (e.apply A.rows g)) := h.matFun g

/-- **… and it does not depend on the decomposition chosen** (any two eigendecompositions of the same
operand that meet the contract build the same matrix, for every `g`, also non-polynomial ones) -/
theorem C09_eig_independent {S T : Set 𝕜} {b b' : Bool} {A : Op 𝕜} {e e' : EigData 𝕜}
    (h : EigOK S b A e) (h' : EigOK T b' A e') (g : 𝕜 → 𝕜) :
    MatF.toMatrix A.rows A.rows (e.apply A.rows g) = MatF.toMatrix A.rows A.rows (e'.apply A.rows g) :=
  IsMatFun.unique (h.matFun g) (h'.matFun g)

/-- **`apply_unary(f, A, alg)` under contracts only** (`UnOp.SoundE`, Lemmas/UnaryEig.lean): LAPACK's
eigendecomposition at `Eigh` / `Eig` nodes, complete Krylov factorisations + small eigendecompositions at
`Lanczos` / `Arnoldi` nodes, `inv` a left inverse, `Op.Good` operands at repeated products — no oracle
matrix is assumed to be `f(A)`. -/
theorem C09_apply_unary_eig (E : EigOracle 𝕜) (S : Set 𝕜) (f : 𝕜 → 𝕜) (alg : Alg) (A : Op 𝕜)
    (h : (applyUnary f alg A).SoundE E S f) :
    A.cols = A.rows ∧
      IsMatFunOn S f (mat A) (MatF.toMatrix A.rows A.rows ((applyUnary f alg A).toOp E.params).den.f) :=
  C09_apply_unary E.params S f alg A (UnOp.SoundE.sound E S f _ h)

theorem C09_log_eig (E : EigOracle 𝕜) (S : Set 𝕜) (l : 𝕜 → 𝕜) (alg : Alg) (A : Op 𝕜)
    (h : (logRule l alg A).SoundE E S l) :
    IsMatFunOn S l (mat A) (MatF.toMatrix A.rows A.rows ((logRule l alg A).toOp E.params).den.f) :=
  C09_log E.params S l alg A (UnOp.SoundE.sound E S l _ h)

theorem C09_exp_eig (E : EigOracle 𝕜) (S : Set 𝕜) (e : 𝕜 → 𝕜) (alg : Alg) (h0 : (0 : 𝕜) ∈ S)
    (he0 : e 0 = 1) (hSadd : ∀ a ∈ S, ∀ b ∈ S, a + b ∈ S)
    (he : ∀ a ∈ S, ∀ b ∈ S, e (a + b) = e a * e b) (A : Op 𝕜) (h : (expRule e alg A).SoundE E S e) :
    IsMatFunOn S e (mat A) (MatF.toMatrix A.rows A.rows ((expRule e alg A).toOp E.params).den.f) :=
  C09_exp E.params S e alg h0 he0 hSadd he A (UnOp.SoundE.sound E S e _ h)

theorem C09_pow_eig (E : EigOracle 𝕜) (S : Set 𝕜) (pw : Rat → 𝕜 → 𝕜) (α : Rat) (alg : Alg)
    (h1 : (1 : 𝕜) ∈ S) (hf1 : pw α 1 = 1) (hSmul : ∀ a ∈ S, ∀ b ∈ S, a * b ∈ S)
    (hmul : ∀ a ∈ S, ∀ b ∈ S, pw α (a * b) = pw α a * pw α b) (A : Op 𝕜)
    (h : (powRule pw α alg A).SoundE E S (pw α)) :
    IsMatFunOn S (pw α) (mat A)
      (MatF.toMatrix A.rows A.rows ((powRule pw α alg A).toOp E.params).den.f) :=
  C09_pow E.params S pw α alg h1 hf1 hSmul hmul A (UnOp.SoundE.sound E S (pw α) _ h)

/-- the contracts are satisfiable by a genuine eigendecomposition of a `2 × 2` non-diagonal matrix
(`[[2,1],[1,2]] = V diag(3,1) V⁻¹`), for every `f` -/
theorem C09_eig_witness (f : ℝ → ℝ) :
    (applyUnary f .eig exA).SoundE exOracle (Set.Ioi 0) f ∧ exA.rows = 2 :=
  ⟨exA_soundE f, exA_rows⟩

end eig

/-! ## Krylov paths -/

section krylov
variable {R : Type} [CommRing R] {ι κ : Type} [Fintype ι] [DecidableEq ι] [Fintype κ] [DecidableEq κ]

/-- **`A Q = Q T ⇒ p(A) Q = Q p(T)` for every polynomial** (commutative ring; `Q` rectangular, no
orthogonality) and `p(A) v = c • Q (p(T) e)` for `v = c • Q e` -/
theorem C09_krylov_poly {A : Matrix ι ι R} {T : Matrix κ κ R} {Q : Matrix ι κ R} (h : A * Q = Q * T)
    (p : Polynomial R) :
    Polynomial.aeval A p * Q = Q * Polynomial.aeval T p ∧
      ∀ (e : κ → R) (c : R) (v : ι → R), v = c • Q *ᵥ e →
        Polynomial.aeval A p *ᵥ v = c • Q *ᵥ (Polynomial.aeval T p *ᵥ e) :=
  ⟨KrylovPoly.aeval_intertwine h p, fun e c v hv => KrylovPoly.aeval_mulVec_start h p e c v hv⟩

/-- **quadrature**: with `Qᴴ Q = 1`, `vᴴ p(A) v = c̄ c · p(T)₁₁` -/
theorem C09_krylov_quadrature [StarRing R] {A : Matrix ι ι R} {T : Matrix κ κ R} {Q : Matrix ι κ R}
    (h : A * Q = Q * T) (hQ : Qᴴ * Q = 1) (p : Polynomial R) (j : κ) (c : R) (v : ι → R)
    (hv : v = c • Q *ᵥ (Pi.single j (1 : R) : κ → R)) :
    star v ⬝ᵥ (Polynomial.aeval A p *ᵥ v) = star c * c * Polynomial.aeval T p j j :=
  KrylovPoly.quadrature_single h hQ p j c v hv

/-- **what the code computes for a polynomial `f`**: with the eigendecomposition contract on the small
matrix, `Q P f(Λ) P⁻¹ (c e) = p(A) v` whenever `f` agrees with `p` on the Ritz values — no
diagonalisability of `A` is needed for polynomial functions -/
theorem C09_krylov_poly_code {A : Matrix ι ι R} {T P Pi : Matrix κ κ R} {Q : Matrix ι κ R} {θ : κ → R}
    (hfac : A * Q = Q * T) (hP : Pi * P = 1) (hT : T * P = P * Matrix.diagonal θ)
    (p : Polynomial R) (f : R → R) (hf : ∀ j, p.eval (θ j) = f (θ j)) (e : κ → R) (c : R) (v : ι → R)
    (hv : v = c • Q *ᵥ e) :
    KrylovPoly.krylovVec Q P Pi θ f (c • e) = Polynomial.aeval A p *ᵥ v :=
  KrylovPoly.krylovVec_poly hfac hP hT p f hf e c v hv

end krylov

section krylovField
variable {𝕜 : Type} [Field 𝕜] {ι κ : Type} [Fintype ι] [DecidableEq ι] [Fintype κ] [DecidableEq κ]

/-- **the code after /repo 25c506e (`_weighted`)**, `f` a PARTIAL scalar function (`none` = `±inf`,
`nan`): it is enough that `f` is defined on the Ritz values that carry weight; then no `nan` arises and
the output is `f(A) v`.  (A Ritz value of zero weight — zero padding of a batch member that finished
early — may lie outside the domain of `f`.) -/
theorem C09_krylov_weighted [DecidableEq 𝕜] {A V Vi : Matrix ι ι 𝕜} {d : ι → 𝕜}
    {T P Pi : Matrix κ κ 𝕜} {Q : Matrix ι κ 𝕜} {θ : κ → 𝕜} (hV : Vi * V = 1)
    (hA : A = V * Matrix.diagonal d * Vi) (hfac : A * Q = Q * T) (hP : Pi * P = 1)
    (hT : T * P = P * Matrix.diagonal θ) (fp : 𝕜 → Option 𝕜) (f : 𝕜 → 𝕜) (e : κ → 𝕜) (c : 𝕜)
    (v : ι → 𝕜) (hv : v = c • Q *ᵥ e)
    (hdef : ∀ j, (Pi *ᵥ (c • e)) j ≠ 0 → fp (θ j) = some (f (θ j))) :
    (∀ j, KrylovPoly.weighted fp (θ j) ((Pi *ᵥ (c • e)) j) = some (f (θ j) * (Pi *ᵥ (c • e)) j)) ∧
      KrylovPoly.krylovVec Q P Pi θ f (c • e) = (V * Matrix.diagonal (fun i => f (d i)) * Vi) *ᵥ v :=
  KrylovPoly.krylovW_end_to_end hV hA hfac hP hT fp f e c v hv hdef

/-- why the guard is needed: WITHOUT it a zero-weight Ritz value outside the domain of `f` makes the
weighted term undefined (`nan`), whatever the weight -/
theorem C09_unweighted_would_fail (fp : 𝕜 → Option 𝕜) (x w : 𝕜) (h : fp x = none) :
    (fp x).map (· * w) = none ∧ ∀ [DecidableEq 𝕜], KrylovPoly.weighted fp x 0 = some 0 :=
  ⟨KrylovPoly.unweighted_undefined fp x w h, fun {_} => by simp [KrylovPoly.weighted]⟩

end krylovField

section models
variable {𝕜 : Type} [RCLike 𝕜] {n : ℕ}
open KrylovPoly

/-- **`ArnoldiUnary._matmat` on the loop model of C15** (`Arnoldi.run`, exact arithmetic): when the run
stops on an exact breakdown (`stopExact`, Krylov space exhausted) without clipping (`noClip`), the
returned vector — buffers trimmed to the executed steps `s = iterations - 1`, eigendecomposition
contract on the leading block of `H` — is `f(A) v` for EVERY `f`.  The invariance `A Q = Q H` is not a
hypothesis: it is `Arnoldi.Inv.invariant_relation` (C15). -/
theorem C09_arnoldi_path (Am : Matrix (Fin n) (Fin n) 𝕜) (nn M : ℕ) (tol : ℝ) (tolPos : 0 < tol)
    (v : EuclideanSpace 𝕜 (Fin n)) (startNonzero : v ≠ 0)
    (noClip : ∀ i, i + 1 < (Arnoldi.runE (Matrix.toEuclideanLin Am) nn M tol [v]).idx →
      tol / 2 ≤ (Arnoldi.colAt (Matrix.toEuclideanLin Am) M tol v
        (Arnoldi.runE (Matrix.toEuclideanLin Am) nn M tol [v]).idx).beta i)
    (stopExact : 0 < (Arnoldi.runE (Matrix.toEuclideanLin Am) nn M tol [v]).idx ∧
      (Arnoldi.colAt (Matrix.toEuclideanLin Am) M tol v
        (Arnoldi.runE (Matrix.toEuclideanLin Am) nn M tol [v]).idx).beta
        ((Arnoldi.runE (Matrix.toEuclideanLin Am) nn M tol [v]).idx - 1) = 0)
    {V Vi : Matrix (Fin n) (Fin n) 𝕜} {d : Fin n → 𝕜} (hV : Vi * V = 1)
    (hA : Am = V * Matrix.diagonal d * Vi)
    {P Pi : Matrix (Fin (Arnoldi.runE (Matrix.toEuclideanLin Am) nn M tol [v]).idx)
      (Fin (Arnoldi.runE (Matrix.toEuclideanLin Am) nn M tol [v]).idx) 𝕜}
    {θ : Fin (Arnoldi.runE (Matrix.toEuclideanLin Am) nn M tol [v]).idx → 𝕜} (hP : Pi * P = 1)
    (hT : blockMat (Arnoldi.colAt (Matrix.toEuclideanLin Am) M tol v
        (Arnoldi.runE (Matrix.toEuclideanLin Am) nn M tol [v]).idx).h
        (Arnoldi.runE (Matrix.toEuclideanLin Am) nn M tol [v]).idx * P = P * Matrix.diagonal θ)
    (f : 𝕜 → 𝕜) :
    krylovVec (colMat (Arnoldi.colAt (Matrix.toEuclideanLin Am) M tol v
          (Arnoldi.runE (Matrix.toEuclideanLin Am) nn M tol [v]).idx).q
          (Arnoldi.runE (Matrix.toEuclideanLin Am) nn M tol [v]).idx) P Pi θ f
        (((‖v‖ : ℝ) : 𝕜) • (_root_.Pi.single (⟨0, stopExact.1⟩ :
          Fin (Arnoldi.runE (Matrix.toEuclideanLin Am) nn M tol [v]).idx) (1 : 𝕜)))
      = (V * Matrix.diagonal (fun i => f (d i)) * Vi) *ᵥ v.ofLp :=
  KrylovCompose.arnoldi_unary_exact Am nn M tol tolPos v startNonzero noClip stopExact hV hA hP hT f

attribute [local instance] Lanczos.exactNum Lanczos.exactVec in
/-- **`LanczosUnary._matmat` on the loop model of C14** (`Lanczos.lanczosExact`): Hermitian operand,
zero residual (`exhausted`), contract of `eigh` on `T` (`T P = P diag θ`, `Pᴴ P = 1`): the returned
vector is `f(A) v` for EVERY `f`.  `A Q = Q T` is the conjunct `rel` of `C14_lanczos`. -/
theorem C09_lanczos_path (Am : Matrix (Fin n) (Fin n) 𝕜)
    (A_hermitian : (Matrix.toEuclideanLin Am).IsSymmetric) (nn max_iters : ℕ)
    (v : EuclideanSpace 𝕜 (Fin n)) (tol : ℝ) (start_nonzero : v ≠ 0) (tol_nonneg : 0 ≤ tol)
    (cap_pos : 1 ≤ min max_iters nn)
    (exhausted : (Lanczos.lanczosExact (Matrix.toEuclideanLin Am) nn #[v] max_iters tol).resid
      (Matrix.toEuclideanLin Am) 0 = 0)
    {V Vi : Matrix (Fin n) (Fin n) 𝕜} {d : Fin n → 𝕜} (hV : Vi * V = 1)
    (hA : Am = V * Matrix.diagonal d * Vi)
    {P : Matrix (Fin (Lanczos.lanczosExact (Matrix.toEuclideanLin Am) nn #[v] max_iters tol).iters)
      (Fin (Lanczos.lanczosExact (Matrix.toEuclideanLin Am) nn #[v] max_iters tol).iters) 𝕜}
    {θ : Fin (Lanczos.lanczosExact (Matrix.toEuclideanLin Am) nn #[v] max_iters tol).iters → 𝕜}
    (hP : Pᴴ * P = 1)
    (hT : blockMat ((Lanczos.lanczosExact (Matrix.toEuclideanLin Am) nn #[v] max_iters tol).T 0)
        (Lanczos.lanczosExact (Matrix.toEuclideanLin Am) nn #[v] max_iters tol).iters * P
          = P * Matrix.diagonal θ)
    (f : 𝕜 → 𝕜) :
    ∃ hk : 0 < (Lanczos.lanczosExact (Matrix.toEuclideanLin Am) nn #[v] max_iters tol).iters,
    krylovVec (colMat ((Lanczos.lanczosExact (Matrix.toEuclideanLin Am) nn #[v] max_iters tol).q 0)
          (Lanczos.lanczosExact (Matrix.toEuclideanLin Am) nn #[v] max_iters tol).iters) P Pᴴ θ f
        (((‖v‖ : ℝ) : 𝕜) • (_root_.Pi.single (⟨0, hk⟩ :
          Fin (Lanczos.lanczosExact (Matrix.toEuclideanLin Am) nn #[v] max_iters tol).iters) (1 : 𝕜)))
      = (V * Matrix.diagonal (fun i => f (d i)) * Vi) *ᵥ v.ofLp :=
  KrylovCompose.lanczos_unary_exact Am A_hermitian nn max_iters v tol start_nonzero tol_nonneg cap_pos
    exhausted hV hA hP hT f

end models

/-! ## the principal branches over `ℂ`: domains of the structural rules -/

section branches
variable {ι κ : Type} [Fintype ι] [DecidableEq ι] [Fintype κ] [DecidableEq κ]

/-- **`pow(A ⊗ B, α) = pow(A, α) ⊗ pow(B, α)` for numpy's principal power `z ↦ z ^ α`** on the explicit
domain `ArgSumOK S T` (arguments of the two spectra add inside `(-π, π]`), non-singular factors -/
theorem C09_kron_pow_domain {S T : Set ℂ} (α : ℚ) {A F : Matrix ι ι ℂ} {B G : Matrix κ κ ℂ}
    (hA : IsMatFunOn S (cpowQ α) A F) (hB : IsMatFunOn T (cpowQ α) B G)
    (hS0 : (0 : ℂ) ∉ S) (hT0 : (0 : ℂ) ∉ T) (hdom : ArgSumOK S T) :
    IsMatFunOn {c | ∃ a ∈ S, ∃ b ∈ T, c = a * b} (cpowQ α) (A ⊗ₖ B) (F ⊗ₖ G) :=
  kronecker_cpow α hA hB hS0 hT0 hdom

/-- the domain is inhabited: both spectra in the open right half plane (then the spectrum of `A ⊗ B`
stays off the branch cut); integer exponents need no domain -/
theorem C09_kron_pow_domain_witness :
    ArgSumOK {z : ℂ | 0 < z.re} {z : ℂ | 0 < z.re} ∧
      (∀ a b : ℂ, 0 < a.re → 0 < b.re → (a * b).arg ≠ Real.pi) ∧
      ∀ (k : ℤ) (a b : ℂ), (a * b) ^ k = a ^ k * b ^ k :=
  ⟨argSumOK_rhp, fun _ _ ha hb => rhp_mul_offCut ha hb, fun k a b => mul_zpow a b k⟩

/-- **OUTSIDE the domain the rule is FALSE** (clause `kron-pow-principal-branch`): for
`A = B = diag(-1, 1)` the Kronecker product of the principal square roots is a square root of `A ⊗ B`
but not the principal one (entry `-1` instead of `1`) — and `{-1, 1}` violates `ArgSumOK`. -/
theorem C09_kron_pow_counterexample :
    (∃ (A F : Matrix (Fin 2) (Fin 2) ℂ) (H : Matrix (Fin 2 × Fin 2) (Fin 2 × Fin 2) ℂ),
      IsMatFun (cpowQ (1 / 2)) A F ∧ IsMatFun (cpowQ (1 / 2)) (A ⊗ₖ A) H ∧ H ≠ F ⊗ₖ F ∧
      (F ⊗ₖ F) * (F ⊗ₖ F) = A ⊗ₖ A) ∧ ¬ ArgSumOK {z | z = -1 ∨ z = 1} {z | z = -1 ∨ z = 1} :=
  kronecker_sqrt_counterexample

/-- `exp(KronSum)` and the Adjoint rule for the complex functions: `exp` everywhere; `log` and
`z ↦ z ^ α` off the cut (`OffCut S`: no eigenvalue with `arg = π`); the Transpose rule needs nothing. -/
theorem C09_complex_rules {S T : Set ℂ} {A F : Matrix ι ι ℂ} {B G : Matrix κ κ ℂ} :
    (IsMatFunOn S Complex.exp A F → IsMatFunOn T Complex.exp B G →
      IsMatFunOn Set.univ Complex.exp (A ⊗ₖ (1 : Matrix κ κ ℂ) + (1 : Matrix ι ι ℂ) ⊗ₖ B) (F ⊗ₖ G)) ∧
    (IsMatFunOn S Complex.exp A F → IsMatFunOn Set.univ Complex.exp Aᴴ Fᴴ) ∧
    (IsMatFunOn S Complex.log A F → OffCut S → IsMatFunOn Set.univ Complex.log Aᴴ Fᴴ) ∧
    (∀ α : ℚ, IsMatFunOn S (cpowQ α) A F → OffCut S → IsMatFunOn Set.univ (cpowQ α) Aᴴ Fᴴ) ∧
    (∀ f : ℂ → ℂ, IsMatFunOn S f A F → IsMatFunOn S f Aᵀ Fᵀ) :=
  ⟨kronSum_exp, adjoint_exp, adjoint_log, fun α => adjoint_cpow α, fun _ h => h.transpose⟩

/-- on the cut the Adjoint rule for `log` is false: `log (conj (-1)) = iπ ≠ -iπ = conj (log (-1))` -/
theorem C09_adjoint_cut_counterexample :
    Complex.log ((starRingEnd ℂ) (-1)) ≠ (starRingEnd ℂ) (Complex.log (-1)) ∧ (-1 : ℂ).arg = Real.pi :=
  adjoint_log_counterexample

end branches

end C09

#print axioms C09.C09_matFun_unique
#print axioms C09.C09_matFun_eq_poly
#print axioms C09.C09_spec_iff
#print axioms C09.C09_rule_diagonal
#print axioms C09.C09_rule_scalar
#print axioms C09.C09_rule_identity
#print axioms C09.C09_rule_blockDiag
#print axioms C09.C09_rule_transpose
#print axioms C09.C09_rule_adjoint
#print axioms C09.C09_rule_kronSum_exp
#print axioms C09.C09_rule_kronecker_pow
#print axioms C09.C09_eigh_base
#print axioms C09.C09_eig_base
#print axioms C09.C09_krylov_base
#print axioms C09.C09_zero_mask_would_fail
#print axioms C09.C09_krylov_operator
#print axioms C09.C09_pow_nat_unique
#print axioms C09.C09_pow_neg_one
#print axioms C09.C09_inv_is_pow_neg_one
#print axioms C09.C09_sqrt_twice
#print axioms C09.C09_powPlan_exponents
#print axioms C09.C09_powPlan_nat
#print axioms C09.C09_apply_unary
#print axioms C09.C09_log
#print axioms C09.C09_exp
#print axioms C09.C09_pow
#print axioms C09.C09_sqrt
#print axioms C09.C09_isqrt
#print axioms C09.C09_pow_neg_one_plan
#print axioms C09.C09_int_pow
#print axioms C09.C09_action
#print axioms C09.C09_action_clause_needed
#print axioms C09.C09_real_instances
#print axioms C09.C09_eig_defined
#print axioms C09.C09_eig_independent
#print axioms C09.C09_apply_unary_eig
#print axioms C09.C09_log_eig
#print axioms C09.C09_exp_eig
#print axioms C09.C09_pow_eig
#print axioms C09.C09_eig_witness
#print axioms C09.C09_krylov_poly
#print axioms C09.C09_krylov_quadrature
#print axioms C09.C09_krylov_poly_code
#print axioms C09.C09_krylov_weighted
#print axioms C09.C09_unweighted_would_fail
#print axioms C09.C09_arnoldi_path
#print axioms C09.C09_lanczos_path
#print axioms C09.C09_kron_pow_domain
#print axioms C09.C09_kron_pow_domain_witness
#print axioms C09.C09_kron_pow_counterexample
#print axioms C09.C09_complex_rules
#print axioms C09.C09_adjoint_cut_counterexample

/-! ## the Kronecker rule of `pow` on operator trees, principal complex power -/

namespace C09

/-- **`pow(Kronecker(A, B), α)` for numpy's principal power on operator trees**: members whose results
represent `A ** α`, `B ** α` on spectrum sets `S`, `T` (from `C09_pow` / `C09_pow_eig` applied to each member) with
`ArgSumOK S T` (and non-singular): the rule returns `Kronecker(pow(A, α), pow(B, α))` and it represents the principal
`(A ⊗ B) ** α`.  No set has to be closed under multiplication.  Outside `ArgSumOK`: `C09_kron_pow_counterexample`. -/
theorem C09_pow_kron_complex (P : Params ℂ) (α : ℚ) (alg : Alg) {S T : Set ℂ} (A B : Op ℂ)
    (hA : MatFunOK S (cpowQ α) A ((powRule cpowQ α alg A).toOp P))
    (hB : MatFunOK T (cpowQ α) B ((powRule cpowQ α alg B).toOp P))
    (hS0 : (0 : ℂ) ∉ S) (hT0 : (0 : ℂ) ∉ T) (hdom : ArgSumOK S T) :
    powRule cpowQ α alg (.kron [A, B]) = .kron [powRule cpowQ α alg A, powRule cpowQ α alg B] ∧
      IsMatFunOn {c | ∃ a ∈ S, ∃ b ∈ T, c = a * b} (cpowQ α) (mat (.kron [A, B]))
        (MatF.toMatrix (Op.kron [A, B]).rows (Op.kron [A, B]).rows
          ((powRule cpowQ α alg (.kron [A, B])).toOp P).den.f) := by
  have h := powRule_kron2_ok P cpowQ α alg A B (by simp [cpowQ]) hA hB (fun a ha b hb => by
    have ha0 : a ≠ 0 := fun h => hS0 (h ▸ ha)
    have hb0 : b ≠ 0 := fun h => hT0 (h ▸ hb)
    exact cpow_mul_of_argSum _ ha0 hb0 (hdom a ha b hb ha0 hb0))
  exact ⟨h.1, h.2.2.2.2⟩

end C09

#print axioms C09.C09_pow_kron_complex

/-! ## the action of the PLANNED operator: `hg` of `C09_action` discharged for annotation-free plans -/

namespace C09
variable {𝕜 : Type} [Field 𝕜] [StarRing 𝕜] [DecidableEq 𝕜]

/-- **the planned operator of an annotation-free plan is `Op.Good`** (`UnOp.annFree`: no `f(c) * I`, no
`I_like`, no repeated product — the nodes that carry annotations of their own; Diagonal, dense base cases
and `inv` results under BlockDiag / Kronecker / Transpose / Adjoint are covered) -/
theorem C09_planned_good (P : Params 𝕜) (U : UnOp 𝕜) (h : U.annFree = true) : Op.Good (U.toOp P) :=
  toOp_good P U h

/-- **`apply_unary(f, A, alg) @ X` acts as `f(A)`**, for every annotation-free plan, with NO hypothesis on the
planned operator (`C09_action` with `hg` proved) -/
theorem C09_action_planned (P : Params 𝕜) (S : Set 𝕜) (f : 𝕜 → 𝕜) (alg : Alg) (A : Op 𝕜)
    (h : (applyUnary f alg A).Sound P S f) (hfree : (applyUnary f alg A).annFree = true)
    (b : Nat) (X : MatF 𝕜) :
    ∃ Fm : Matrix (Fin A.rows) (Fin A.rows) 𝕜, IsMatFunOn S f (mat A) Fm ∧
      MatF.toMatrix A.rows b (((applyUnary f alg A).toOp P).mm b X).f = Fm * MatF.toMatrix A.rows b X :=
  C09_action (applyUnary_ok P S f alg A h) (toOp_good P _ hfree) b X

/-- non-vacuity: the plan of `apply_unary(f, [[2,1],[1,2]], Eig())` is annotation-free (and `SoundE`:
`C09_eig_witness`) -/
example (f : ℝ → ℝ) : (applyUnary f .eig exA).annFree = true := by
  simp [applyUnary, exA, applyGo, baseRule, UnOp.annFree]

end C09

#print axioms C09.C09_planned_good
#print axioms C09.C09_action_planned

/-! ## round 3: the Krylov contract derived from the loop model and witnessed; n-ary Kronecker rule -/

namespace C09

section krylovInst
open Lanczos
attribute [local instance] Lanczos.exactNum Lanczos.exactVec

/-- **`KrylovOK` is no longer only assumed**: for the Lanczos MODEL (`Unary.lanczosK`: `Lanczos.lanczosExact` of C14 run
on every identity column, then `eigh` of the returned `T`, then `Q P (g(θ) ⊙ Pᴴ ‖v‖e₁)`) on a Hermitian, diagonalisable
operand with exhausted runs, `KrylovOK` HOLDS — the factorisation is the one `C09_lanczos_path` uses
(`KrylovCompose.lanczos_factorisation`, from `Lanczos.single_out`).  Remaining contract: `EighContract eigh` (LAPACK
`eigh`: unitary `P`, `T P = P diag θ` on Hermitian `T`), satisfiable for every size (`KrylovCompose.eighSpectral_contract`). -/
theorem C09_krylov_ok_of_lanczos {𝕜 : Type} [RCLike 𝕜] [DecidableEq 𝕜] (eigh : Eigh 𝕜)
    (contract : EighContract eigh) (S : Set 𝕜) (g : 𝕜 → 𝕜) (A : Op 𝕜)
    (sq : A.cols = A.rows) (herm : (mat A).IsHermitian) (hdiag : DiagonalisableOn S (mat A))
    (max_iters : ℕ) (tol : ℝ) (tol_nonneg : 0 ≤ tol) (cap_pos : 1 ≤ min max_iters A.rows)
    (exhausted : ∀ i : Fin A.rows, (lanczosExact (Matrix.toEuclideanLin (mat A)) A.rows
      #[EuclideanSpace.single i (1 : 𝕜)] max_iters tol).resid (Matrix.toEuclideanLin (mat A)) 0 = 0) :
    KrylovOK S g A (lanczosK eigh max_iters tol g A) :=
  krylovOK_of_lanczos eigh contract S g A sq herm hdiag max_iters tol tol_nonneg cap_pos exhausted

/-- … and with `tol = 0` and a cap `≥ n` nothing is assumed about the runs: they stop at the grade with zero residual
(`C14_grade`, `C14_grade_exists`) -/
theorem C09_krylov_ok_of_lanczos_cap {𝕜 : Type} [RCLike 𝕜] [DecidableEq 𝕜] (eigh : Eigh 𝕜)
    (contract : EighContract eigh) (S : Set 𝕜) (g : 𝕜 → 𝕜) (A : Op 𝕜)
    (sq : A.cols = A.rows) (herm : (mat A).IsHermitian) (hdiag : DiagonalisableOn S (mat A))
    (max_iters : ℕ) (hn : 1 ≤ A.rows) (hcap : A.rows ≤ max_iters) :
    KrylovOK S g A (lanczosK eigh max_iters 0 g A) :=
  krylovOK_of_lanczos_cap eigh contract S g A sq herm hdiag max_iters hn hcap

/-- **witness of `KrylovOK` / `SoundE` at a Lanczos node, and the tree theorem applied to it**: for
`A = SelfAdjoint(Dense [[2,1],[1,2]])`, `Lanczos()`, every `f`: the plan is the Lanczos base node, `SoundE` holds with the
oracle `exKrylovOracle` (= the model run, cap 5, tol 0, `eigh` = spectral theorem), and so the planned operator
represents `f(A)` (conclusion of `C09_apply_unary_eig`) -/
theorem C09_krylov_ok_witness (f : ℝ → ℝ) :
    applyUnary f .lanczos exS = .base .lanczos f exS ∧
    (applyUnary f .lanczos exS).SoundE exKrylovOracle (Set.Ioi 0) f ∧ exS.rows = 2 ∧
    IsMatFunOn (Set.Ioi 0) f (mat exS)
      (MatF.toMatrix exS.rows exS.rows ((applyUnary f .lanczos exS).toOp exKrylovOracle.params).den.f) :=
  ⟨(exS_krylov_soundE f).1, (exS_krylov_soundE f).2, exS_rows,
    (C09_apply_unary_eig exKrylovOracle (Set.Ioi 0) f .lanczos exS (exS_krylov_soundE f).2).2⟩

/-- **`C09_lanczos_path` instantiated, closed statement** (`KrylovCompose.lanczosUnaryVec_eq` applies
`KrylovCompose.lanczos_unary_exact` = `C09_lanczos_path` with every hypothesis discharged): `A = [[2,1],[1,2]]`,
`v = e₀`, cap `5 > n = 2`, `tol = 0`; the run is exhausted (`C14_grade`), `A = V diag(3,1) V⁻¹`; for EVERY eigensolver
meeting `EighContract` (one exists: `eighSpectral`) the model's `LanczosUnary(A, g) @ v` is
* `((g 3 + g 1)/2, (g 3 - g 1)/2)` for every `g`;
* `p(A) v` for a polynomial `g = p`;
* for the non-polynomial `g = log`: `p(A) v` with the interpolant `p = (log 3 / 2)(X - 1)` of `log` on the spectrum
  `{1, 3}`, `= (log 3 / 2, log 3 / 2)`. -/
theorem C09_lanczos_path_closed (eigh : Eigh ℝ) (contract : EighContract eigh) :
    EighContract (eighSpectral (𝕜 := ℝ)) ∧
    (∀ g : ℝ → ℝ, lanczosUnaryVec eigh exM2 5 0 g exv2 = ![(g 3 + g 1) / 2, (g 3 - g 1) / 2]) ∧
    (∀ p : Polynomial ℝ, lanczosUnaryVec eigh exM2 5 0 (fun x => p.eval x) exv2
      = Polynomial.aeval exM2 p *ᵥ ![1, 0]) ∧
    lanczosUnaryVec eigh exM2 5 0 Real.log exv2
      = Polynomial.aeval exM2 (Polynomial.C (Real.log 3 / 2) * (Polynomial.X - Polynomial.C 1)) *ᵥ ![1, 0] ∧
    lanczosUnaryVec eigh exM2 5 0 Real.log exv2 = ![Real.log 3 / 2, Real.log 3 / 2] :=
  ⟨eighSpectral_contract, lanczos_exM2_closed eigh contract, lanczos_exM2_poly eigh contract,
    (lanczos_exM2_log eigh contract).1, (lanczos_exM2_log eigh contract).2⟩

/-- the model's MATRIX is `g(M)` in the sense of the specification, for every Hermitian diagonalisable `M` (path theorem
applied to every identity column) -/
theorem C09_lanczos_model_matFun {𝕜 : Type} [RCLike 𝕜] {n : ℕ} (eigh : Eigh 𝕜) (contract : EighContract eigh)
    {S : Set 𝕜} (M : Matrix (Fin n) (Fin n) 𝕜) (herm : M.IsHermitian) (hdiag : DiagonalisableOn S M)
    (max_iters : ℕ) (tol : ℝ) (tol_nonneg : 0 ≤ tol) (cap_pos : 1 ≤ min max_iters n)
    (exhausted : ∀ i : Fin n, (lanczosExact (Matrix.toEuclideanLin M) n
      #[EuclideanSpace.single i (1 : 𝕜)] max_iters tol).resid (Matrix.toEuclideanLin M) 0 = 0)
    (g : 𝕜 → 𝕜) : IsMatFunOn S g M (lanczosUnaryMat eigh M max_iters tol g) :=
  lanczosUnaryMat_isMatFun eigh contract M herm hdiag max_iters tol tol_nonneg cap_pos exhausted g

end krylovInst

section kronN

/-- **`pow(Kronecker(A₁, …, A_m), α)`, numpy's principal power, ANY number of members**: members whose results
represent `Aᵢ ** α` on spectrum sets `Sᵢ` (`hM`), non-singular (`h0`), and the domain condition on PARTIAL PRODUCTS
`hdom : ArgChainOK Ss` — for every member the arguments of its eigenvalues and of the products of eigenvalues of the
members after it add inside `(-π, π]`.  Then the rule returns the Kronecker product of the members' results and it
represents the principal `(A₁ ⊗ ⋯ ⊗ A_m) ** α` on the set of products.  (`C09_pow_kron_complex` is `m = 2`.) -/
theorem C09_pow_kron_nary (P : Params ℂ) (α : ℚ) (alg : Alg) {Ms : List (Op ℂ)} {Ss : List (Set ℂ)}
    (hM : List.Forall₂ (fun M S => MatFunOK S (cpowQ α) M ((powRule cpowQ α alg M).toOp P)) Ms Ss)
    (h0 : ∀ S ∈ Ss, (0 : ℂ) ∉ S) (hdom : ArgChainOK Ss) :
    powRule cpowQ α alg (.kron Ms) = .kron (Ms.map (powRule cpowQ α alg)) ∧
      IsMatFunOn (prodSet Ss) (cpowQ α) (mat (.kron Ms))
        (MatF.toMatrix (Op.kron Ms).rows (Op.kron Ms).rows ((powRule cpowQ α alg (.kron Ms)).toOp P).den.f) := by
  have h := powRule_kronN_ok P cpowQ α alg (by simp [cpowQ]) hM (mulChain_of_argChain α h0 hdom)
  exact ⟨h.1, h.2.2.2.2⟩

/-- **positive spectra** (every `Sᵢ` on the positive real axis): the domain condition holds for every number of members
and the result lives on the positive axis again — the Kronecker case of `C09_pow` at `𝕜 = ℂ`, `S = posAxis` (its `hSmul`
is `posAxis_mul`, its `hmul` is this) -/
theorem C09_pow_kron_positive (P : Params ℂ) (α : ℚ) (alg : Alg) {Ms : List (Op ℂ)} {Ss : List (Set ℂ)}
    (hM : List.Forall₂ (fun M S => MatFunOK S (cpowQ α) M ((powRule cpowQ α alg M).toOp P)) Ms Ss)
    (hpos : ∀ S ∈ Ss, S ⊆ posAxis) :
    ArgChainOK Ss ∧
      IsMatFunOn posAxis (cpowQ α) (mat (.kron Ms))
        (MatF.toMatrix (Op.kron Ms).rows (Op.kron Ms).rows ((powRule cpowQ α alg (.kron Ms)).toOp P).den.f) :=
  ⟨argChain_posAxis hpos,
    (C09_pow_kron_nary P α alg hM (fun S hS h => posAxis_zero (hpos S hS h)) (argChain_posAxis hpos)).2.mono
      (prodSet_posAxis hpos)⟩

/-- **`C09_pow_kron_complex` instantiated**: `sqrt(Kronecker(diag(1+i, 2), diag(1-i, 3)))`, both spectra in the open
right half plane, every `alg` and oracle -/
theorem C09_pow_kron_complex_witness (P : Params ℂ) (alg : Alg) :
    powRule cpowQ (1 / 2) alg (.kron [cdiag (1 + Complex.I) 2, cdiag (1 - Complex.I) 3])
      = .kron [powRule cpowQ (1 / 2) alg (cdiag (1 + Complex.I) 2),
          powRule cpowQ (1 / 2) alg (cdiag (1 - Complex.I) 3)] ∧
    IsMatFunOn {c | ∃ a ∈ rhp, ∃ b ∈ rhp, c = a * b} (cpowQ (1 / 2))
      (mat (.kron [cdiag (1 + Complex.I) 2, cdiag (1 - Complex.I) 3]))
      (MatF.toMatrix (Op.kron [cdiag (1 + Complex.I) 2, cdiag (1 - Complex.I) 3]).rows
        (Op.kron [cdiag (1 + Complex.I) 2, cdiag (1 - Complex.I) 3]).rows
        ((powRule cpowQ (1 / 2) alg (.kron [cdiag (1 + Complex.I) 2, cdiag (1 - Complex.I) 3])).toOp P).den.f) :=
  C09_pow_kron_complex P (1 / 2) alg _ _
    (cdiag_sqrt_ok P alg _ _ (by simp [rhp]) (by simp [rhp]))
    (cdiag_sqrt_ok P alg _ _ (by simp [rhp]) (by simp [rhp])) rhp_zero rhp_zero argSumOK_rhp

/-- **the n-ary rule instantiated on three factors, two of them non-real**:
`sqrt(Kronecker(diag(1+i, 2), diag(1-i, 3), diag(2, 3)))` with `Ss = [rhp, rhp, posAxis]` -/
theorem C09_pow_kron_nary_witness (P : Params ℂ) (alg : Alg) :
    ArgChainOK [rhp, rhp, posAxis] ∧
    IsMatFunOn (prodSet [rhp, rhp, posAxis]) (cpowQ (1 / 2))
      (mat (.kron [cdiag (1 + Complex.I) 2, cdiag (1 - Complex.I) 3, cdiag 2 3]))
      (MatF.toMatrix (Op.kron [cdiag (1 + Complex.I) 2, cdiag (1 - Complex.I) 3, cdiag 2 3]).rows
        (Op.kron [cdiag (1 + Complex.I) 2, cdiag (1 - Complex.I) 3, cdiag 2 3]).rows
        ((powRule cpowQ (1 / 2) alg
          (.kron [cdiag (1 + Complex.I) 2, cdiag (1 - Complex.I) 3, cdiag 2 3])).toOp P).den.f) :=
  ⟨argChain_rhp3,
    (C09_pow_kron_nary P (1 / 2) alg
      (.cons (cdiag_sqrt_ok P alg _ _ (by simp [rhp]) (by simp [rhp]))
        (.cons (cdiag_sqrt_ok P alg _ _ (by simp [rhp]) (by simp [rhp]))
          (.cons (cdiag_sqrt_ok P alg _ _ (by simp [posAxis]) (by simp [posAxis])) .nil)))
      (by
        intro S hS
        simp only [List.mem_cons, List.not_mem_nil, or_false] at hS
        rcases hS with rfl | rfl | rfl
        · exact rhp_zero
        · exact rhp_zero
        · exact posAxis_zero)
      argChain_rhp3).2⟩

end kronN

end C09

#print axioms C09.C09_krylov_ok_of_lanczos
#print axioms C09.C09_krylov_ok_of_lanczos_cap
#print axioms C09.C09_krylov_ok_witness
#print axioms C09.C09_lanczos_path_closed
#print axioms C09.C09_lanczos_model_matFun
#print axioms C09.C09_pow_kron_nary
#print axioms C09.C09_pow_kron_positive
#print axioms C09.C09_pow_kron_complex_witness
#print axioms C09.C09_pow_kron_nary_witness
