import ColaVerif.Lemmas.GMRESWitness

/-!
# C13 — GMRES returns the residual-minimising iterate of its Krylov space

FULL STATEMENT (property text): for every invertible operator, right-hand side(s) and initial
guess, GMRES with at most `m` iterations returns, per column, the vector in `x₀` plus the
`m`-dimensional Krylov space of the initial residual whose residual norm is smallest;
consequently its residual never exceeds that of the initial guess, is non-increasing in `m`, and
is zero (to rounding) once `m` reaches the degree of the minimal polynomial or `n`.  It never
performs more than `m` products with the operator per column.

Code model: `GMRES.gmres = GMRES.gmresCore … dropLastRow`, `dropLastRow = false` mirrors /repo after
the repair of defect (b) (commit 9a9bf4d: all `m+1` rows of the Hessenberg matrix enter the normal
equations, column-wise padding mask).

Proved here (exact arithmetic; the dense `solve` is a parameter with its contract `solveContract`
as a hypothesis; one right-hand side — columns of a batch are stepped independently by
`C15_model_invariant`):
* `C13_partial` — `gmres` returns the residual minimiser over `x₀ + K_s` (`s` executed steps);
* `C13_le_initial` — consequently the residual never exceeds the initial one;
* `C13_exact_at_grade` — the residual is zero once the Krylov space is exhausted (exact breakdown
  in the last executed step), and at most `1 + min max_iters n` products with the operator per
  column for any batch (the `1` forms `b − A x₀`; the property's "m products" is read as the Krylov
  products);
* `C13_maskExact_clause_needed` — the clause `maskExact` excludes a genuine deviation.
Named clauses: `resNonzero` (`b − A x₀ ≠ 0`; the real code returns NaN otherwise — known finding
`zeroResidual`), `noBreakdown` / `exactBreakdown`, `maskExact` (the padding mask marks exactly the
unexecuted steps — known finding `maskExact`), `solveContract`, `krylovRegular`.
Why `_partial`: the clauses above; NOT proved (oracle-checked only): monotonicity in `m`, several
columns with different grades in one batch, floating point.
Lemmas about the former behaviour (`drop = true`): `C13_dropped_row_is_FOM`, `C13_dropped_row_witness`.
-/

open scoped InnerProductSpace
open Finset Arnoldi GMRES

variable {𝕜 E : Type} [RCLike 𝕜] [NormedAddCommGroup E] [InnerProductSpace 𝕜 E]

/-- **C13 (partial)**: `gmres` (the code model as /repo is: `dropLastRow = false`) returns the
residual minimiser over `x₀ + span{q₀,…,q_{s-1}} = x₀ + K_s(A, b − A x₀)`, `s` = executed Arnoldi
steps.  Named clauses: `resNonzero`, `noBreakdown`, `maskExact`, `solveContract`. -/
theorem C13_partial (solve : Array (Array 𝕜) → Array 𝕜 → Array 𝕜) (A : E →ₗ[𝕜] E)
    (n M : Nat) (tol : ℝ) (tolPos : 0 < tol) (b x0 : E) (resNonzero : b - A x0 ≠ 0)
    (noBreakdown : ∀ i, i < (runE A n M tol [b - A x0]).idx →
      tol / 2 ≤ (colAt A M tol (b - A x0) (runE A n M tol [b - A x0]).idx).beta i)
    (maskExact : MaskExact dropLastRow M tol (runE A n M tol [b - A x0]).idx
      (colAt A M tol (b - A x0) (runE A n M tol [b - A x0]).idx))
    (solveContract : SolvesSystem M
      (normalMatrix dropLastRow M (padding dropLastRow M ((tol : ℝ) : 𝕜)
        (colAt A M tol (b - A x0) (runE A n M tol [b - A x0]).idx))
        (colAt A M tol (b - A x0) (runE A n M tol [b - A x0]).idx))
      (normalRhs M (colAt A M tol (b - A x0) (runE A n M tol [b - A x0]).idx))
      (solve (normalMatrix dropLastRow M (padding dropLastRow M ((tol : ℝ) : 𝕜)
        (colAt A M tol (b - A x0) (runE A n M tol [b - A x0]).idx))
        (colAt A M tol (b - A x0) (runE A n M tol [b - A x0]).idx))
        (normalRhs M (colAt A M tol (b - A x0) (runE A n M tol [b - A x0]).idx)))) :
    ∃ x, (gmres solve (⇑A) n M ((tol : ℝ) : 𝕜) [b] [x0]).soln = [x] ∧
      ∀ y : Nat → 𝕜, ‖b - A x‖ ≤ ‖b - A (x0 + ∑ i ∈ range (runE A n M tol [b - A x0]).idx,
        y i • (colAt A M tol (b - A x0) (runE A n M tol [b - A x0]).idx).q i)‖ := by
  have hsM : (runE A n M tol [b - A x0]).idx ≤ M :=
    le_trans (run_spec (⇑A) n M ((tol : ℝ) : 𝕜) [b - A x0]).2.1 (min_le_left _ _)
  refine ⟨_, (gmresCore_single solve false A n M tol b x0).1, fun y => ?_⟩
  exact kept_row_minimal (solve := solve) tolPos resNonzero hsM noBreakdown maskExact solveContract
    b x0 rfl y

/-- consequently the residual never exceeds that of the initial guess -/
theorem C13_le_initial (solve : Array (Array 𝕜) → Array 𝕜 → Array 𝕜) (A : E →ₗ[𝕜] E)
    (n M : Nat) (tol : ℝ) (tolPos : 0 < tol) (b x0 : E) (resNonzero : b - A x0 ≠ 0)
    (noBreakdown : ∀ i, i < (runE A n M tol [b - A x0]).idx →
      tol / 2 ≤ (colAt A M tol (b - A x0) (runE A n M tol [b - A x0]).idx).beta i)
    (maskExact : MaskExact dropLastRow M tol (runE A n M tol [b - A x0]).idx
      (colAt A M tol (b - A x0) (runE A n M tol [b - A x0]).idx))
    (solveContract : SolvesSystem M
      (normalMatrix dropLastRow M (padding dropLastRow M ((tol : ℝ) : 𝕜)
        (colAt A M tol (b - A x0) (runE A n M tol [b - A x0]).idx))
        (colAt A M tol (b - A x0) (runE A n M tol [b - A x0]).idx))
      (normalRhs M (colAt A M tol (b - A x0) (runE A n M tol [b - A x0]).idx))
      (solve (normalMatrix dropLastRow M (padding dropLastRow M ((tol : ℝ) : 𝕜)
        (colAt A M tol (b - A x0) (runE A n M tol [b - A x0]).idx))
        (colAt A M tol (b - A x0) (runE A n M tol [b - A x0]).idx))
        (normalRhs M (colAt A M tol (b - A x0) (runE A n M tol [b - A x0]).idx)))) :
    ∃ x, (gmres solve (⇑A) n M ((tol : ℝ) : 𝕜) [b] [x0]).soln = [x] ∧ ‖b - A x‖ ≤ ‖b - A x0‖ := by
  obtain ⟨x, hx, hmin⟩ := C13_partial solve A n M tol tolPos b x0 resNonzero noBreakdown
    maskExact solveContract
  refine ⟨x, hx, ?_⟩
  have := hmin (fun _ => 0)
  simpa using this

/-- the hypotheses of `C13_partial` are satisfiable non-trivially
(`A = [[1,2],[0,1]]`, `b = e₂`, `x₀ = 0`, `max_iters = 1`, `tol = 1/100`) -/
example : (Complex.I - shear 0 ≠ 0) ∧
    MaskExact dropLastRow 1 (1 / 100) 1 (colAt shear 1 (1 / 100) Complex.I 1) ∧
    (runE shear 2 1 (1 / 100) [Complex.I]).idx = 1 ∧
    (1 / 100 : ℝ) / 2 ≤ (colAt shear 1 (1 / 100) Complex.I 1).beta 0 := by
  refine ⟨by simp, mask_shear_kept, idx_shear _, ?_⟩
  unfold Col.beta
  rw [h10_shear]; norm_num

/-- **zero residual once the Krylov space is exhausted** (`m ≥` grade of the initial residual: exact
breakdown in the last executed step; automatic at `steps = n`), and **products with the operator**:
at most `1 + min max_iters n` per column (the `1` forms `b − A x₀`), for any batch.
Clause `krylovRegular`: `H_s` invertible (true for invertible `A`: `H_s` represents `A` on the
invariant subspace `K_s`). -/
theorem C13_exact_at_grade (solve : Array (Array 𝕜) → Array 𝕜 → Array 𝕜) (A : E →ₗ[𝕜] E)
    (n M : Nat) (tol : ℝ) (tolPos : 0 < tol) (b x0 : E) (resNonzero : b - A x0 ≠ 0)
    (hs : 0 < (runE A n M tol [b - A x0]).idx)
    (noEarlierBreakdown : ∀ i, i + 1 < (runE A n M tol [b - A x0]).idx →
      tol / 2 ≤ (colAt A M tol (b - A x0) (runE A n M tol [b - A x0]).idx).beta i)
    (exactBreakdown : (colAt A M tol (b - A x0) (runE A n M tol [b - A x0]).idx).beta
      ((runE A n M tol [b - A x0]).idx - 1) = 0)
    (maskExact : MaskExact dropLastRow M tol (runE A n M tol [b - A x0]).idx
      (colAt A M tol (b - A x0) (runE A n M tol [b - A x0]).idx))
    (solveContract : SolvesSystem M
      (normalMatrix dropLastRow M (padding dropLastRow M ((tol : ℝ) : 𝕜)
        (colAt A M tol (b - A x0) (runE A n M tol [b - A x0]).idx))
        (colAt A M tol (b - A x0) (runE A n M tol [b - A x0]).idx))
      (normalRhs M (colAt A M tol (b - A x0) (runE A n M tol [b - A x0]).idx))
      (solve (normalMatrix dropLastRow M (padding dropLastRow M ((tol : ℝ) : 𝕜)
        (colAt A M tol (b - A x0) (runE A n M tol [b - A x0]).idx))
        (colAt A M tol (b - A x0) (runE A n M tol [b - A x0]).idx))
        (normalRhs M (colAt A M tol (b - A x0) (runE A n M tol [b - A x0]).idx))))
    (krylovRegular : ∀ z : Nat → 𝕜,
      (∀ a, a < (runE A n M tol [b - A x0]).idx → ∑ r ∈ range (runE A n M tol [b - A x0]).idx,
        (starRingEnd 𝕜) ((colAt A M tol (b - A x0) (runE A n M tol [b - A x0]).idx).h r a) * z r = 0) →
        ∀ r, r < (runE A n M tol [b - A x0]).idx → z r = 0) :
    (∃ x, (gmres solve (⇑A) n M ((tol : ℝ) : 𝕜) [b] [x0]).soln = [x] ∧ b - A x = 0) ∧
    ∀ (bs x0s : List E), (gmres solve (⇑A) n M ((tol : ℝ) : 𝕜) bs x0s).products ≤ 1 + min M n := by
  have hsM : (runE A n M tol [b - A x0]).idx ≤ M :=
    le_trans (run_spec (⇑A) n M ((tol : ℝ) : 𝕜) [b - A x0]).2.1 (min_le_left _ _)
  refine ⟨⟨_, (gmresCore_single solve false A n M tol b x0).1, ?_⟩,
    fun bs x0s => gmresCore_products solve false (⇑A) n M _ bs x0s⟩
  exact exact_at_breakdown (solve := solve) (drop := false) tolPos resNonzero hsM hs
    noEarlierBreakdown exactBreakdown maskExact solveContract krylovRegular b x0 rfl

/-- clause `maskExact` is needed (either switch, in particular the code as it is): the padding mask
`largest_vals < 10·tol·overall_max` is a magnitude heuristic tied to `tol`.  `1 × 1` system `2 x = 1`,
`x₀ = 0`, `max_iters = 1`, `tol = 1/5`: the only column (`|h₀₀| = 2 < 4`) is masked, the coefficient is
forced to `0` whatever the solver returns, `gmres` returns `x = 0` with residual `1` although
`x = 1/2 ∈ x₀ + K₁` has residual `0`.  (The harness observes the same clause on the real code with a
2×2 system at `tol = 1e-2`.) -/
theorem C13_maskExact_clause_needed (solve : Array (Array ℝ) → Array ℝ → Array ℝ) :
    (gmres solve (⇑dbl) 1 1 (RCLike.ofReal (1 / 5 : ℝ) : ℝ) [(1 : ℝ)] [0]).soln = [0] ∧
    ‖(1 : ℝ) - dbl 0‖ = 1 ∧ ‖(1 : ℝ) - dbl ((1 / 2 : ℝ) • (1 : ℝ))‖ = 0 ∧
    ¬ MaskExact dropLastRow 1 (1 / 5) 1 (colAt dbl 1 (1 / 5) (1 : ℝ) 1) :=
  mask_witness solve false

/-! ### the former defect (b): lemmas about the variant `drop = true` (last row of `H` dropped) -/

/-- the old code (`drop = true`) computed the Galerkin (FOM) iterate: residual
`−h_{s,s-1} y_{s-1} q_s`, orthogonal to `q₀,…,q_{s-1}`, of norm `h_{s,s-1} |y_{s-1}|` -/
theorem C13_dropped_row_is_FOM (solve : Array (Array 𝕜) → Array 𝕜 → Array 𝕜) (A : E →ₗ[𝕜] E)
    (n M : Nat) (tol : ℝ) (tolPos : 0 < tol) (b x0 : E) (resNonzero : b - A x0 ≠ 0)
    (ranToCap : (runE A n M tol [b - A x0]).idx = M) (hM : 0 < M)
    (noBreakdown : ∀ i, i < M → tol / 2 ≤ (colAt A M tol (b - A x0) M).beta i)
    (maskExact : MaskExact true M tol M (colAt A M tol (b - A x0) M))
    (solveContract : SolvesSystem M
      (normalMatrix true M (padding true M ((tol : ℝ) : 𝕜) (colAt A M tol (b - A x0) M))
        (colAt A M tol (b - A x0) M))
      (normalRhs M (colAt A M tol (b - A x0) M))
      (solve (normalMatrix true M (padding true M ((tol : ℝ) : 𝕜) (colAt A M tol (b - A x0) M))
        (colAt A M tol (b - A x0) M)) (normalRhs M (colAt A M tol (b - A x0) M))))
    (galerkinRegular : ∀ z : Nat → 𝕜,
      (∀ a, a < M → ∑ r ∈ range M,
        (starRingEnd 𝕜) ((colAt A M tol (b - A x0) M).h r a) * z r = 0) → ∀ r, r < M → z r = 0) :
    ∃ x, (gmresCore solve true (⇑A) n M ((tol : ℝ) : 𝕜) [b] [x0]).soln = [x] ∧
      b - A x = (-((colAt A M tol (b - A x0) M).h M (M - 1) *
        yOf M tol (b - A x0) solve true (colAt A M tol (b - A x0) M) (M - 1))) •
          (colAt A M tol (b - A x0) M).q M ∧
      (∀ l, l < M → ⟪(colAt A M tol (b - A x0) M).q l, b - A x⟫_𝕜 = 0) ∧
      ‖b - A x‖ = ‖(colAt A M tol (b - A x0) M).h M (M - 1)‖ *
        ‖yOf M tol (b - A x0) solve true (colAt A M tol (b - A x0) M) (M - 1)‖ := by
  have hs := (gmresCore_single solve true A n M tol b x0).1
  rw [ranToCap] at hs
  exact ⟨_, hs, dropped_row_galerkin (solve := solve) tolPos resNonzero hM rfl noBreakdown maskExact
    solveContract galerkinRegular b x0 rfl⟩

/-- regression witness of the former defect (b): for the invertible `A = [[1,2],[0,1]]`, `b = e₂`,
`x₀ = 0`, `max_iters = 1`, `tol = 1/100`, the variant `drop = true` returns — for every solver satisfying
its contract — an iterate with residual norm `2`, larger than the initial residual `1`, while
`x = b/5 ∈ x₀ + K₁` has residual norm `< 1` -/
theorem C13_dropped_row_witness (solve : Array (Array ℝ) → Array ℝ → Array ℝ)
    (solveContract : SolvesSystem 1
      (normalMatrix true 1 (padding true 1 (RCLike.ofReal (1 / 100 : ℝ) : ℝ)
        (colAt shear 1 (1 / 100) Complex.I 1)) (colAt shear 1 (1 / 100) Complex.I 1))
      (normalRhs 1 (colAt shear 1 (1 / 100) Complex.I 1))
      (solve (normalMatrix true 1 (padding true 1 (RCLike.ofReal (1 / 100 : ℝ) : ℝ)
        (colAt shear 1 (1 / 100) Complex.I 1)) (colAt shear 1 (1 / 100) Complex.I 1))
        (normalRhs 1 (colAt shear 1 (1 / 100) Complex.I 1)))) :
    ∃ x : ℂ, (gmresCore solve true (⇑shear) 2 1 (RCLike.ofReal (1 / 100 : ℝ) : ℝ) [Complex.I] [0]).soln = [x] ∧
      ‖Complex.I - shear x‖ = 2 ∧ ‖Complex.I - shear 0‖ = 1 ∧
      ‖Complex.I - shear ((1 / 5 : ℝ) • Complex.I)‖ < 1 :=
  C13_witness solve solveContract

#print axioms C13_partial
#print axioms C13_le_initial
#print axioms C13_exact_at_grade
#print axioms C13_maskExact_clause_needed
#print axioms C13_dropped_row_is_FOM
#print axioms C13_dropped_row_witness
#print axioms GMRES.lsq_of_orth
#print axioms GMRES.residual_norm_sq
#print axioms GMRES.minimal_of_normal_equations
