import ColaVerif.Lemmas.GMRESWitness
import ColaVerif.Lemmas.Hess3
import ColaVerif.Lemmas.GMRESBatch
import ColaVerif.Lemmas.Hess3Cap1

/-!
# C13 — GMRES returns the residual-minimising iterate of its Krylov space

FULL STATEMENT (property text): for every invertible operator, right-hand side(s) and initial
guess, GMRES with at most `m` iterations returns, per column, the vector in `x₀` plus the
`m`-dimensional Krylov space of the initial residual whose residual norm is smallest;
consequently its residual never exceeds that of the initial guess, is non-increasing in `m`, and
is zero (to rounding) once `m` reaches the degree of the minimal polynomial or `n`.  It never
performs more than `m` products with the operator per column.

Code model: `GMRES.gmres = GMRES.gmresCore … dropLastRow`, `dropLastRow = false` mirrors /repo after
the repair of defect (b) (commit 9a9bf4d: all `m+1` rows of the Hessenberg matrix enter the normal
equations, column-wise padding mask).

ROUND 1 (first part of this file; exact arithmetic; ONE right-hand side; the dense `solve` is a parameter with the
per-call contract `solveContract` as a hypothesis — rounds 2 and 3 below remove these restrictions, see there):
* `C13_partial` — `gmres` returns the residual minimiser over `x₀ + K_s` (`s` executed steps);
* `C13_le_initial` — consequently the residual never exceeds the initial one;
* `C13_exact_at_grade` — the residual is zero once the Krylov space is exhausted (exact breakdown
  in the last executed step), and at most `1 + min max_iters n` products with the operator per
  column for any batch (the `1` forms `b − A x₀`; the property's "m products" is read as the Krylov
  products);
* `C13_maskExact_clause_needed` — the clause `maskExact` excludes a genuine deviation.
Named clauses of THESE three statements: `resNonzero` (`b − A x₀ ≠ 0`; the real code returns NaN otherwise — known
finding `zeroResidual`), `noBreakdown` / `exactBreakdown`, `maskExact` (the padding mask marks exactly the unexecuted
steps — known finding `maskExact`), `solveContract`, `krylovRegular`.  Of these, `solveContract` and `krylovRegular` are
hypotheses of the round-1 statements ONLY: round 2 replaces the first by the uniform contract `SolverSound` and PROVES
the second (`C13_krylov_optimal`, `C13_exact_at_grade_injective`); `noBreakdown` / `exactBreakdown` are restated on the
inputs in rounds 2 and 3.
Current status of what round 1 left open: monotonicity in `m` is PROVED (`C13_monotone`, round 2); batches whose
columns have different grades are PROVED column-wise (`C13_batch_*`, round 3); `s` versus `m` is characterised
(`C13_steps`, round 3).  NOT proved (covered by the correspondence check only): floating point, and the clause
`maskExact`, which remains a condition on the computed `H`.
Lemmas about the former behaviour (`drop = true`, regression detector `keepLastRow` of the harness):
`C13_dropped_row_is_FOM`, `C13_dropped_row_witness`.

ROUND 2 (second half of this file; nothing above was changed):
* `C13_krylov_span` — without breakdown before step `s`, `span{q₀…q_{j-1}} = K_j(A, r₀)` (`Arnoldi.krylov`), `j ≤ s+1`;
* `C13_krylov_optimal` — `x − x₀ ∈ K_s(A, r₀)` and `‖b − A x‖ ≤ ‖b − A (x₀ + z)‖` for all `z ∈ K_s(A, r₀)`; the per-call
  hypothesis `solveContract` is replaced by the uniform contract `GMRES.SolverSound` (satisfiable:
  `C13_solverSound_witness`), the regularity of the system handed to the solver is PROVED;
  `C13_krylov_optimal_input`: clause `noBreakdown` stated on the inputs (`Arnoldi.krylovDist`);
* `C13_monotone` — residual norms are non-increasing in `max_iters`;
* `C13_exact_at_grade_injective` / `_input` / `C13_exact_at_dim` — zero residual at breakdown / at `m` = grade
  (`A^s r₀ ∈ K_s`) / at `s = n = dim E`, for an injective `A`; the former clause `krylovRegular` is proved;
* witnesses on the 3 × 3 non-symmetric system `[[1,1,0],[2,1,1],[0,3,1]]` (`Lemmas/Hess3.lean`):
  `C13_hypotheses_witness`, `C13_exact_witness`.
ROUND 3 (third part of this file; nothing above was changed):
* `s` versus `m = max_iters`: `C13_steps` — `s = min(max_iters, n, first index k ≥ 1 at which the tolerance test of the
  Arnoldi loop fires)` (`Arnoldi.StopAt`), uniquely; `C13_krylov_optimal_at_cap` — with input-level conditions (Krylov
  distances neither clip nor trigger the test) `s = min(max_iters, n)` and the iterate is the minimiser over
  `x₀ + K_{min(m,n)}(A, r₀)`: for `m ≤ n` the `m`-dimensional Krylov space of the property text;
  `C13_exact_at_grade_of_inputs` — if the grade `g` of `r₀` satisfies `g ≤ min(m, n)` then `s = g` and the residual is
  zero (every hypothesis except `maskExact` on the inputs).  When the tolerance test fires before `min(m, grade)` the
  iterate minimises over the smaller `K_s` only — the recorded finding `stopExact`.
* batches, column-wise: `C13_batch_steps` (the loop is SHARED: `S ≥ s_j` for every column, `S ≤ min(m, n)`),
  `C13_batch_krylov_optimal` (column `j` minimises over `x₀ⱼ + K_S(A, r₀ⱼ)` when ITS steps are unclipped and ITS mask
  is exact), `C13_batch_exact_at_grade` / `_of_inputs` (a column whose grade `g ≤ S` has zero residual: a column that
  keeps being stepped after its breakdown is frozen in exact arithmetic — `GMRES.colAt_views_after_breakdown`; in
  floating point that is the recorded clause `breakdownNotMasked`).  The columns are coupled ONLY through `S`.
  Witnesses: `C13_steps_witness`, `C13_batch_witness` (batch `[e₀, e₂]` on the 3 × 3 system),
  `C13_remaining_bundles_witness` (`C13_monotone` with caps 1 ≤ 2, `C13_exact_at_dim`, `C13_exact_at_grade_input`).
ROUND 4: `C13_batch_of_inputs_witness` — `C13_batch_exact_at_grade_of_inputs` applied to column 1 of the batch `[e₂, e₀]`
  on the 3 × 3 system (every hypothesis discharged on that column's inputs).
CONTRACTS that remain: `SolverSound solve` (LAPACK `gesv` in exact arithmetic: on a nonsingular system the returned
vector solves it); exact real/complex arithmetic.  Clause that remains a condition on the computed `H`: `maskExact`
(sufficient checkable condition: `GMRES.maskExact_of_entries`; counter-witness `C13_maskExact_clause_needed`).
-/

open scoped InnerProductSpace
open Finset Arnoldi GMRES

variable {𝕜 E : Type} [RCLike 𝕜] [NormedAddCommGroup E] [InnerProductSpace 𝕜 E]

/-- **C13 (partial)**: `gmres` (the code model as /repo is: `dropLastRow = false`) returns the
residual minimiser over `x₀ + span{q₀,…,q_{s-1}} = x₀ + K_s(A, b − A x₀)`, `s` = executed Arnoldi
steps.  Named clauses: `resNonzero`, `noBreakdown`, `maskExact`, `solveContract`. -/
theorem C13_partial (solve : Array (Array 𝕜) → Array 𝕜 → Array 𝕜) (A : E →ₗ[𝕜] E)
    (n M : Nat) (tol : ℝ) (tolPos : 0 < tol) (b x0 : E) (resNonzero : b - A x0 ≠ 0)
    (noBreakdown : ∀ i, i < (runE A n M tol [b - A x0]).idx →
      tol / 2 ≤ (colAt A M tol (b - A x0) (runE A n M tol [b - A x0]).idx).beta i)
    (maskExact : MaskExact dropLastRow M tol (runE A n M tol [b - A x0]).idx
      (colAt A M tol (b - A x0) (runE A n M tol [b - A x0]).idx))
    (solveContract : SolvesSystem M
      (normalMatrix dropLastRow M (padding dropLastRow M ((tol : ℝ) : 𝕜)
        (colAt A M tol (b - A x0) (runE A n M tol [b - A x0]).idx))
        (colAt A M tol (b - A x0) (runE A n M tol [b - A x0]).idx))
      (normalRhs M (colAt A M tol (b - A x0) (runE A n M tol [b - A x0]).idx))
      (solve (normalMatrix dropLastRow M (padding dropLastRow M ((tol : ℝ) : 𝕜)
        (colAt A M tol (b - A x0) (runE A n M tol [b - A x0]).idx))
        (colAt A M tol (b - A x0) (runE A n M tol [b - A x0]).idx))
        (normalRhs M (colAt A M tol (b - A x0) (runE A n M tol [b - A x0]).idx)))) :
    ∃ x, (gmres solve (⇑A) n M ((tol : ℝ) : 𝕜) [b] [x0]).soln = [x] ∧
      ∀ y : Nat → 𝕜, ‖b - A x‖ ≤ ‖b - A (x0 + ∑ i ∈ range (runE A n M tol [b - A x0]).idx,
        y i • (colAt A M tol (b - A x0) (runE A n M tol [b - A x0]).idx).q i)‖ := by
  have hsM : (runE A n M tol [b - A x0]).idx ≤ M :=
    le_trans (run_spec (⇑A) n M ((tol : ℝ) : 𝕜) [b - A x0]).2.1 (min_le_left _ _)
  refine ⟨_, (gmresCore_single solve false A n M tol b x0).1, fun y => ?_⟩
  exact kept_row_minimal (solve := solve) tolPos resNonzero hsM noBreakdown maskExact solveContract
    b x0 rfl y

/-- consequently the residual never exceeds that of the initial guess -/
theorem C13_le_initial (solve : Array (Array 𝕜) → Array 𝕜 → Array 𝕜) (A : E →ₗ[𝕜] E)
    (n M : Nat) (tol : ℝ) (tolPos : 0 < tol) (b x0 : E) (resNonzero : b - A x0 ≠ 0)
    (noBreakdown : ∀ i, i < (runE A n M tol [b - A x0]).idx →
      tol / 2 ≤ (colAt A M tol (b - A x0) (runE A n M tol [b - A x0]).idx).beta i)
    (maskExact : MaskExact dropLastRow M tol (runE A n M tol [b - A x0]).idx
      (colAt A M tol (b - A x0) (runE A n M tol [b - A x0]).idx))
    (solveContract : SolvesSystem M
      (normalMatrix dropLastRow M (padding dropLastRow M ((tol : ℝ) : 𝕜)
        (colAt A M tol (b - A x0) (runE A n M tol [b - A x0]).idx))
        (colAt A M tol (b - A x0) (runE A n M tol [b - A x0]).idx))
      (normalRhs M (colAt A M tol (b - A x0) (runE A n M tol [b - A x0]).idx))
      (solve (normalMatrix dropLastRow M (padding dropLastRow M ((tol : ℝ) : 𝕜)
        (colAt A M tol (b - A x0) (runE A n M tol [b - A x0]).idx))
        (colAt A M tol (b - A x0) (runE A n M tol [b - A x0]).idx))
        (normalRhs M (colAt A M tol (b - A x0) (runE A n M tol [b - A x0]).idx)))) :
    ∃ x, (gmres solve (⇑A) n M ((tol : ℝ) : 𝕜) [b] [x0]).soln = [x] ∧ ‖b - A x‖ ≤ ‖b - A x0‖ := by
  obtain ⟨x, hx, hmin⟩ := C13_partial solve A n M tol tolPos b x0 resNonzero noBreakdown
    maskExact solveContract
  refine ⟨x, hx, ?_⟩
  have := hmin (fun _ => 0)
  simpa using this

/-- the hypotheses of `C13_partial` are satisfiable non-trivially
(`A = [[1,2],[0,1]]`, `b = e₂`, `x₀ = 0`, `max_iters = 1`, `tol = 1/100`) -/
example : (Complex.I - shear 0 ≠ 0) ∧
    MaskExact dropLastRow 1 (1 / 100) 1 (colAt shear 1 (1 / 100) Complex.I 1) ∧
    (runE shear 2 1 (1 / 100) [Complex.I]).idx = 1 ∧
    (1 / 100 : ℝ) / 2 ≤ (colAt shear 1 (1 / 100) Complex.I 1).beta 0 := by
  refine ⟨by simp, mask_shear_kept, idx_shear _, ?_⟩
  unfold Col.beta
  rw [h10_shear]; norm_num

/-- **zero residual once the Krylov space is exhausted** (`m ≥` grade of the initial residual: exact
breakdown in the last executed step; automatic at `steps = n`), and **products with the operator**:
at most `1 + min max_iters n` per column (the `1` forms `b − A x₀`), for any batch.
Clause `krylovRegular`: `H_s` invertible (true for invertible `A`: `H_s` represents `A` on the
invariant subspace `K_s`). -/
theorem C13_exact_at_grade (solve : Array (Array 𝕜) → Array 𝕜 → Array 𝕜) (A : E →ₗ[𝕜] E)
    (n M : Nat) (tol : ℝ) (tolPos : 0 < tol) (b x0 : E) (resNonzero : b - A x0 ≠ 0)
    (hs : 0 < (runE A n M tol [b - A x0]).idx)
    (noEarlierBreakdown : ∀ i, i + 1 < (runE A n M tol [b - A x0]).idx →
      tol / 2 ≤ (colAt A M tol (b - A x0) (runE A n M tol [b - A x0]).idx).beta i)
    (exactBreakdown : (colAt A M tol (b - A x0) (runE A n M tol [b - A x0]).idx).beta
      ((runE A n M tol [b - A x0]).idx - 1) = 0)
    (maskExact : MaskExact dropLastRow M tol (runE A n M tol [b - A x0]).idx
      (colAt A M tol (b - A x0) (runE A n M tol [b - A x0]).idx))
    (solveContract : SolvesSystem M
      (normalMatrix dropLastRow M (padding dropLastRow M ((tol : ℝ) : 𝕜)
        (colAt A M tol (b - A x0) (runE A n M tol [b - A x0]).idx))
        (colAt A M tol (b - A x0) (runE A n M tol [b - A x0]).idx))
      (normalRhs M (colAt A M tol (b - A x0) (runE A n M tol [b - A x0]).idx))
      (solve (normalMatrix dropLastRow M (padding dropLastRow M ((tol : ℝ) : 𝕜)
        (colAt A M tol (b - A x0) (runE A n M tol [b - A x0]).idx))
        (colAt A M tol (b - A x0) (runE A n M tol [b - A x0]).idx))
        (normalRhs M (colAt A M tol (b - A x0) (runE A n M tol [b - A x0]).idx))))
    (krylovRegular : ∀ z : Nat → 𝕜,
      (∀ a, a < (runE A n M tol [b - A x0]).idx → ∑ r ∈ range (runE A n M tol [b - A x0]).idx,
        (starRingEnd 𝕜) ((colAt A M tol (b - A x0) (runE A n M tol [b - A x0]).idx).h r a) * z r = 0) →
        ∀ r, r < (runE A n M tol [b - A x0]).idx → z r = 0) :
    (∃ x, (gmres solve (⇑A) n M ((tol : ℝ) : 𝕜) [b] [x0]).soln = [x] ∧ b - A x = 0) ∧
    ∀ (bs x0s : List E), (gmres solve (⇑A) n M ((tol : ℝ) : 𝕜) bs x0s).products ≤ 1 + min M n := by
  have hsM : (runE A n M tol [b - A x0]).idx ≤ M :=
    le_trans (run_spec (⇑A) n M ((tol : ℝ) : 𝕜) [b - A x0]).2.1 (min_le_left _ _)
  refine ⟨⟨_, (gmresCore_single solve false A n M tol b x0).1, ?_⟩,
    fun bs x0s => gmresCore_products solve false (⇑A) n M _ bs x0s⟩
  exact exact_at_breakdown (solve := solve) (drop := false) tolPos resNonzero hsM hs
    noEarlierBreakdown exactBreakdown maskExact solveContract krylovRegular b x0 rfl

/-- clause `maskExact` is needed (either switch, in particular the code as it is): the padding mask
`largest_vals < 10·tol·overall_max` is a magnitude heuristic tied to `tol`.  `1 × 1` system `2 x = 1`,
`x₀ = 0`, `max_iters = 1`, `tol = 1/5`: the only column (`|h₀₀| = 2 < 4`) is masked, the coefficient is
forced to `0` whatever the solver returns, `gmres` returns `x = 0` with residual `1` although
`x = 1/2 ∈ x₀ + K₁` has residual `0`.  (The harness observes the same clause on the real code with a
2×2 system at `tol = 1e-2`.) -/
theorem C13_maskExact_clause_needed (solve : Array (Array ℝ) → Array ℝ → Array ℝ) :
    (gmres solve (⇑dbl) 1 1 (RCLike.ofReal (1 / 5 : ℝ) : ℝ) [(1 : ℝ)] [0]).soln = [0] ∧
    ‖(1 : ℝ) - dbl 0‖ = 1 ∧ ‖(1 : ℝ) - dbl ((1 / 2 : ℝ) • (1 : ℝ))‖ = 0 ∧
    ¬ MaskExact dropLastRow 1 (1 / 5) 1 (colAt dbl 1 (1 / 5) (1 : ℝ) 1) :=
  mask_witness solve false

/-! ### the former defect (b): lemmas about the variant `drop = true` (last row of `H` dropped) -/

/-- the old code (`drop = true`) computed the Galerkin (FOM) iterate: residual
`−h_{s,s-1} y_{s-1} q_s`, orthogonal to `q₀,…,q_{s-1}`, of norm `h_{s,s-1} |y_{s-1}|` -/
theorem C13_dropped_row_is_FOM (solve : Array (Array 𝕜) → Array 𝕜 → Array 𝕜) (A : E →ₗ[𝕜] E)
    (n M : Nat) (tol : ℝ) (tolPos : 0 < tol) (b x0 : E) (resNonzero : b - A x0 ≠ 0)
    (ranToCap : (runE A n M tol [b - A x0]).idx = M) (hM : 0 < M)
    (noBreakdown : ∀ i, i < M → tol / 2 ≤ (colAt A M tol (b - A x0) M).beta i)
    (maskExact : MaskExact true M tol M (colAt A M tol (b - A x0) M))
    (solveContract : SolvesSystem M
      (normalMatrix true M (padding true M ((tol : ℝ) : 𝕜) (colAt A M tol (b - A x0) M))
        (colAt A M tol (b - A x0) M))
      (normalRhs M (colAt A M tol (b - A x0) M))
      (solve (normalMatrix true M (padding true M ((tol : ℝ) : 𝕜) (colAt A M tol (b - A x0) M))
        (colAt A M tol (b - A x0) M)) (normalRhs M (colAt A M tol (b - A x0) M))))
    (galerkinRegular : ∀ z : Nat → 𝕜,
      (∀ a, a < M → ∑ r ∈ range M,
        (starRingEnd 𝕜) ((colAt A M tol (b - A x0) M).h r a) * z r = 0) → ∀ r, r < M → z r = 0) :
    ∃ x, (gmresCore solve true (⇑A) n M ((tol : ℝ) : 𝕜) [b] [x0]).soln = [x] ∧
      b - A x = (-((colAt A M tol (b - A x0) M).h M (M - 1) *
        yOf M tol (b - A x0) solve true (colAt A M tol (b - A x0) M) (M - 1))) •
          (colAt A M tol (b - A x0) M).q M ∧
      (∀ l, l < M → ⟪(colAt A M tol (b - A x0) M).q l, b - A x⟫_𝕜 = 0) ∧
      ‖b - A x‖ = ‖(colAt A M tol (b - A x0) M).h M (M - 1)‖ *
        ‖yOf M tol (b - A x0) solve true (colAt A M tol (b - A x0) M) (M - 1)‖ := by
  have hs := (gmresCore_single solve true A n M tol b x0).1
  rw [ranToCap] at hs
  exact ⟨_, hs, dropped_row_galerkin (solve := solve) tolPos resNonzero hM rfl noBreakdown maskExact
    solveContract galerkinRegular b x0 rfl⟩

/-- regression witness of the former defect (b): for the invertible `A = [[1,2],[0,1]]`, `b = e₂`,
`x₀ = 0`, `max_iters = 1`, `tol = 1/100`, the variant `drop = true` returns — for every solver satisfying
its contract — an iterate with residual norm `2`, larger than the initial residual `1`, while
`x = b/5 ∈ x₀ + K₁` has residual norm `< 1` -/
theorem C13_dropped_row_witness (solve : Array (Array ℝ) → Array ℝ → Array ℝ)
    (solveContract : SolvesSystem 1
      (normalMatrix true 1 (padding true 1 (RCLike.ofReal (1 / 100 : ℝ) : ℝ)
        (colAt shear 1 (1 / 100) Complex.I 1)) (colAt shear 1 (1 / 100) Complex.I 1))
      (normalRhs 1 (colAt shear 1 (1 / 100) Complex.I 1))
      (solve (normalMatrix true 1 (padding true 1 (RCLike.ofReal (1 / 100 : ℝ) : ℝ)
        (colAt shear 1 (1 / 100) Complex.I 1)) (colAt shear 1 (1 / 100) Complex.I 1))
        (normalRhs 1 (colAt shear 1 (1 / 100) Complex.I 1)))) :
    ∃ x : ℂ, (gmresCore solve true (⇑shear) 2 1 (RCLike.ofReal (1 / 100 : ℝ) : ℝ) [Complex.I] [0]).soln = [x] ∧
      ‖Complex.I - shear x‖ = 2 ∧ ‖Complex.I - shear 0‖ = 1 ∧
      ‖Complex.I - shear ((1 / 5 : ℝ) • Complex.I)‖ < 1 :=
  C13_witness solve solveContract

#print axioms C13_partial
#print axioms C13_le_initial
#print axioms C13_exact_at_grade
#print axioms C13_maskExact_clause_needed
#print axioms C13_dropped_row_is_FOM
#print axioms C13_dropped_row_witness
#print axioms GMRES.lsq_of_orth
#print axioms GMRES.residual_norm_sq
#print axioms GMRES.minimal_of_normal_equations

/-! ## Round 2: the Krylov space of the initial residual, the solver contract, monotonicity, witnesses -/

/-- **the Arnoldi columns GMRES works with span the Krylov spaces of the initial residual**: without breakdown
before step `s` (= executed steps), `span{q₀ … q_{j-1}} = K_j(A, b − A x₀) = span{r₀, A r₀, …, A^{j-1} r₀}` for every
`j ≤ s + 1` -/
theorem C13_krylov_span (A : E →ₗ[𝕜] E) (n M : Nat) (tol : ℝ) (tolPos : 0 < tol) (b x0 : E)
    (resNonzero : b - A x0 ≠ 0)
    (noBreakdown : ∀ i, i < (runE A n M tol [b - A x0]).idx →
      tol / 2 ≤ (colAt A M tol (b - A x0) (runE A n M tol [b - A x0]).idx).beta i) :
    ∀ j, j ≤ (runE A n M tol [b - A x0]).idx + 1 →
      qspan (𝕜 := 𝕜) (colAt A M tol (b - A x0) (runE A n M tol [b - A x0]).idx).q j = krylov A (b - A x0) j := by
  have hsM : (runE A n M tol [b - A x0]).idx ≤ M :=
    le_trans (run_spec (⇑A) n M ((tol : ℝ) : 𝕜) [b - A x0]).2.1 (min_le_left _ _)
  exact colAt_qspan_eq_krylov A M tol (b - A x0) tolPos resNonzero _ _ (le_refl _) hsM noBreakdown

/-- **C13, Krylov form**: `gmres` returns `x` with `x − x₀ ∈ K_s(A, r₀)`, `r₀ = b − A x₀`, and
`‖b − A x‖ ≤ ‖b − A (x₀ + z)‖` for every `z ∈ K_s(A, r₀)` (`s` = executed Arnoldi steps).
The per-call hypothesis `solveContract` of `C13_partial` is replaced by the uniform, satisfiable contract
`solverSound : GMRES.SolverSound solve` (witness `GMRES.exactSolve_sound`): that the system handed to the
solver is nonsingular is proved (`GMRES.normalMatrix_regular`).  Remaining clauses: `resNonzero`,
`noBreakdown`, `maskExact`. -/
theorem C13_krylov_optimal (solve : Array (Array 𝕜) → Array 𝕜 → Array 𝕜) (A : E →ₗ[𝕜] E)
    (n M : Nat) (tol : ℝ) (tolPos : 0 < tol) (b x0 : E) (resNonzero : b - A x0 ≠ 0)
    (noBreakdown : ∀ i, i < (runE A n M tol [b - A x0]).idx →
      tol / 2 ≤ (colAt A M tol (b - A x0) (runE A n M tol [b - A x0]).idx).beta i)
    (maskExact : MaskExact dropLastRow M tol (runE A n M tol [b - A x0]).idx
      (colAt A M tol (b - A x0) (runE A n M tol [b - A x0]).idx))
    (solverSound : SolverSound solve) :
    ∃ x, (gmres solve (⇑A) n M ((tol : ℝ) : 𝕜) [b] [x0]).soln = [x] ∧
      x - x0 ∈ krylov A (b - A x0) (runE A n M tol [b - A x0]).idx ∧
      ∀ z ∈ krylov A (b - A x0) (runE A n M tol [b - A x0]).idx, ‖b - A x‖ ≤ ‖b - A (x0 + z)‖ := by
  have hsM : (runE A n M tol [b - A x0]).idx ≤ M :=
    le_trans (run_spec (⇑A) n M ((tol : ℝ) : 𝕜) [b - A x0]).2.1 (min_le_left _ _)
  obtain ⟨h1, h2⟩ := krylov_optimal (solve := solve) tolPos resNonzero hsM noBreakdown maskExact solverSound
    b x0 rfl
  refine ⟨_, (gmresCore_single solve false A n M tol b x0).1, ?_, h2⟩
  rw [add_sub_cancel_left]
  exact h1

/-- the same with the clause `noBreakdown` stated on the INPUTS: the Krylov distances
`d_j = dist(A^j r₀, K_j(A, r₀))` grow by at least `tol/2` per executed step -/
theorem C13_krylov_optimal_input (solve : Array (Array 𝕜) → Array 𝕜 → Array 𝕜) (A : E →ₗ[𝕜] E)
    (n M : Nat) (tol : ℝ) (tolPos : 0 < tol) (b x0 : E) (resNonzero : b - A x0 ≠ 0)
    (noBreakdownInput : ∀ i, i < (runE A n M tol [b - A x0]).idx →
      tol / 2 * krylovDist A (b - A x0) i ≤ krylovDist A (b - A x0) (i + 1))
    (maskExact : MaskExact dropLastRow M tol (runE A n M tol [b - A x0]).idx
      (colAt A M tol (b - A x0) (runE A n M tol [b - A x0]).idx))
    (solverSound : SolverSound solve) :
    ∃ x, (gmres solve (⇑A) n M ((tol : ℝ) : 𝕜) [b] [x0]).soln = [x] ∧
      x - x0 ∈ krylov A (b - A x0) (runE A n M tol [b - A x0]).idx ∧
      ∀ z ∈ krylov A (b - A x0) (runE A n M tol [b - A x0]).idx, ‖b - A x‖ ≤ ‖b - A (x0 + z)‖ := by
  have hsM : (runE A n M tol [b - A x0]).idx ≤ M :=
    le_trans (run_spec (⇑A) n M ((tol : ℝ) : 𝕜) [b - A x0]).2.1 (min_le_left _ _)
  exact C13_krylov_optimal solve A n M tol tolPos b x0 resNonzero
    ((noBreakdown_iff_krylovDist A M tol (b - A x0) tolPos resNonzero _ hsM).mpr noBreakdownInput)
    maskExact solverSound

/-- **residual norms are non-increasing in `max_iters`**: the run with the larger cap executes at least as
many steps (`Arnoldi.run_idx_mono`), Krylov spaces are nested, and each iterate is the minimiser over its own -/
theorem C13_monotone (solve : Array (Array 𝕜) → Array 𝕜 → Array 𝕜) (A : E →ₗ[𝕜] E)
    (n M M' : Nat) (hMM : M ≤ M') (tol : ℝ) (tolPos : 0 < tol) (b x0 : E) (resNonzero : b - A x0 ≠ 0)
    (noBreakdown : ∀ i, i < (runE A n M tol [b - A x0]).idx →
      tol / 2 ≤ (colAt A M tol (b - A x0) (runE A n M tol [b - A x0]).idx).beta i)
    (maskExact : MaskExact dropLastRow M tol (runE A n M tol [b - A x0]).idx
      (colAt A M tol (b - A x0) (runE A n M tol [b - A x0]).idx))
    (noBreakdown' : ∀ i, i < (runE A n M' tol [b - A x0]).idx →
      tol / 2 ≤ (colAt A M' tol (b - A x0) (runE A n M' tol [b - A x0]).idx).beta i)
    (maskExact' : MaskExact dropLastRow M' tol (runE A n M' tol [b - A x0]).idx
      (colAt A M' tol (b - A x0) (runE A n M' tol [b - A x0]).idx))
    (solverSound : SolverSound solve) :
    ∃ x x', (gmres solve (⇑A) n M ((tol : ℝ) : 𝕜) [b] [x0]).soln = [x] ∧
      (gmres solve (⇑A) n M' ((tol : ℝ) : 𝕜) [b] [x0]).soln = [x'] ∧ ‖b - A x'‖ ≤ ‖b - A x‖ := by
  obtain ⟨x, hx, hmem, _⟩ := C13_krylov_optimal solve A n M tol tolPos b x0 resNonzero noBreakdown
    maskExact solverSound
  obtain ⟨x', hx', _, hmin'⟩ := C13_krylov_optimal solve A n M' tol tolPos b x0 resNonzero noBreakdown'
    maskExact' solverSound
  refine ⟨x, x', hx, hx', ?_⟩
  have hidx := run_idx_mono A tol tolPos n M M' hMM [b - A x0] (by simpa using resNonzero)
  have := hmin' (x - x0) (krylov_mono A (b - A x0) hidx hmem)
  rwa [add_sub_cancel] at this

/-- **zero residual once the Krylov space is exhausted, for an injective operator**: the former clause
`krylovRegular` (`H_s` invertible) is PROVED from `A Q_s = Q_s H_s` and injectivity of `A`, and the solver's
per-call hypothesis is replaced by `SolverSound`. -/
theorem C13_exact_at_grade_injective (solve : Array (Array 𝕜) → Array 𝕜 → Array 𝕜) (A : E →ₗ[𝕜] E)
    (n M : Nat) (tol : ℝ) (tolPos : 0 < tol) (b x0 : E) (resNonzero : b - A x0 ≠ 0)
    (hs : 0 < (runE A n M tol [b - A x0]).idx)
    (noEarlierBreakdown : ∀ i, i + 1 < (runE A n M tol [b - A x0]).idx →
      tol / 2 ≤ (colAt A M tol (b - A x0) (runE A n M tol [b - A x0]).idx).beta i)
    (exactBreakdown : (colAt A M tol (b - A x0) (runE A n M tol [b - A x0]).idx).beta
      ((runE A n M tol [b - A x0]).idx - 1) = 0)
    (maskExact : MaskExact dropLastRow M tol (runE A n M tol [b - A x0]).idx
      (colAt A M tol (b - A x0) (runE A n M tol [b - A x0]).idx))
    (solverSound : SolverSound solve) (injective : Function.Injective A) :
    ∃ x, (gmres solve (⇑A) n M ((tol : ℝ) : 𝕜) [b] [x0]).soln = [x] ∧ b - A x = 0 := by
  have hsM : (runE A n M tol [b - A x0]).idx ≤ M :=
    le_trans (run_spec (⇑A) n M ((tol : ℝ) : 𝕜) [b - A x0]).2.1 (min_le_left _ _)
  exact ⟨_, (gmresCore_single solve false A n M tol b x0).1,
    exact_at_breakdown_sound (solve := solve) tolPos resNonzero hsM hs noEarlierBreakdown exactBreakdown
      maskExact solverSound injective b x0 rfl⟩

/-- **`m` = grade**: the clause `exactBreakdown` as a condition on the inputs — `A^s r₀ ∈ K_s(A, r₀)`, the Krylov
space of the initial residual is exhausted after the `s` executed steps -/
theorem C13_exact_at_grade_input (solve : Array (Array 𝕜) → Array 𝕜 → Array 𝕜) (A : E →ₗ[𝕜] E)
    (n M : Nat) (tol : ℝ) (tolPos : 0 < tol) (b x0 : E) (resNonzero : b - A x0 ≠ 0)
    (hs : 0 < (runE A n M tol [b - A x0]).idx)
    (noEarlierBreakdown : ∀ i, i + 1 < (runE A n M tol [b - A x0]).idx →
      tol / 2 ≤ (colAt A M tol (b - A x0) (runE A n M tol [b - A x0]).idx).beta i)
    (gradeReached : (A ^ (runE A n M tol [b - A x0]).idx) (b - A x0) ∈
      krylov A (b - A x0) (runE A n M tol [b - A x0]).idx)
    (maskExact : MaskExact dropLastRow M tol (runE A n M tol [b - A x0]).idx
      (colAt A M tol (b - A x0) (runE A n M tol [b - A x0]).idx))
    (solverSound : SolverSound solve) (injective : Function.Injective A) :
    ∃ x, (gmres solve (⇑A) n M ((tol : ℝ) : 𝕜) [b] [x0]).soln = [x] ∧ b - A x = 0 := by
  have hsM : (runE A n M tol [b - A x0]).idx ≤ M :=
    le_trans (run_spec (⇑A) n M ((tol : ℝ) : 𝕜) [b - A x0]).2.1 (min_le_left _ _)
  exact C13_exact_at_grade_injective solve A n M tol tolPos b x0 resNonzero hs noEarlierBreakdown
    (exactBreakdown_of_pow_mem A M tol (b - A x0) tolPos resNonzero _ hs hsM noEarlierBreakdown gradeReached)
    maskExact solverSound injective

/-- **`m ≥ n`**: when `n = dim E` steps were executed the breakdown is automatic (`C15_dimension_cap`): the
residual is zero.  `n` is tied to the dimension of the space here. -/
theorem C13_exact_at_dim [FiniteDimensional 𝕜 E] (solve : Array (Array 𝕜) → Array 𝕜 → Array 𝕜)
    (A : E →ₗ[𝕜] E) (n M : Nat) (tol : ℝ) (tolPos : 0 < tol) (b x0 : E) (resNonzero : b - A x0 ≠ 0)
    (dimE : Module.finrank 𝕜 E = n) (hn : 0 < n)
    (ranToDim : (runE A n M tol [b - A x0]).idx = n)
    (noEarlierBreakdown : ∀ i, i + 1 < n → tol / 2 ≤ (colAt A M tol (b - A x0) n).beta i)
    (maskExact : MaskExact dropLastRow M tol n (colAt A M tol (b - A x0) n))
    (solverSound : SolverSound solve) (injective : Function.Injective A) :
    ∃ x, (gmres solve (⇑A) n M ((tol : ℝ) : 𝕜) [b] [x0]).soln = [x] ∧ b - A x = 0 := by
  have hsM : (runE A n M tol [b - A x0]).idx ≤ M :=
    le_trans (run_spec (⇑A) n M ((tol : ℝ) : 𝕜) [b - A x0]).2.1 (min_le_left _ _)
  have hnM : n ≤ M := by rw [← ranToDim]; exact hsM
  have hcap := (inv_colAfter A M (b - A x0) tol resNonzero tolPos n hnM).cap_column_zero dimE hn
    noEarlierBreakdown
  apply C13_exact_at_grade_injective solve A n M tol tolPos b x0 resNonzero
  · rw [ranToDim]; exact hn
  · rw [ranToDim]; exact noEarlierBreakdown
  · rw [ranToDim]; exact hcap.2
  · rw [ranToDim]; exact maskExact
  · exact solverSound
  · exact injective

/-- the solver contract is satisfiable -/
theorem C13_solverSound_witness : SolverSound (exactSolve (𝕜 := 𝕜)) := exactSolve_sound

/-- **witness for the hypothesis bundle of `C13_krylov_optimal` / `C13_partial`** on a 3 × 3 non-symmetric
system: `A = [[1,1,0],[2,1,1],[0,3,1]]`, `b = e₀`, `x₀ = 0`, `max_iters = 2`, `tol = 1/100`: two steps, `β = 2, 3` -/
theorem C13_hypotheses_witness :
    Hess3.e 0 - Hess3.A 0 ≠ 0 ∧
    (runE Hess3.A 3 2 (1 / 100) [Hess3.e 0 - Hess3.A 0]).idx = 2 ∧
    (∀ i, i < 2 → (1 / 100 : ℝ) / 2 ≤ (colAt Hess3.A 2 (1 / 100) (Hess3.e 0 - Hess3.A 0) 2).beta i) ∧
    MaskExact dropLastRow 2 (1 / 100) 2 (colAt Hess3.A 2 (1 / 100) (Hess3.e 0 - Hess3.A 0) 2) ∧
    SolverSound (exactSolve (𝕜 := ℝ)) := by
  have hr : Hess3.e 0 - Hess3.A 0 = Hess3.e 0 := by simp
  rw [hr]
  refine ⟨Hess3.e0_ne, ?_, ?_, Hess3.mask2, exactSolve_sound⟩
  · rw [Hess3.idx_eq_cap 2 (1 / 100) (le_refl _) (by norm_num) (by norm_num)]; rfl
  · intro i hi
    rw [Hess3.beta2 2 (1 / 100) (le_refl _) (by norm_num) (by norm_num) i hi]
    unfold Hess3.bt
    split <;> norm_num

/-- **witness for the hypothesis bundle of `C13_exact_at_grade_injective`** on the same system with
`max_iters = 3 = n`: three steps, `β₂ = 0`, `A` injective — and the conclusion: the model solves the system -/
theorem C13_exact_witness :
    (runE Hess3.A 3 3 (1 / 100) [Hess3.e 0 - Hess3.A 0]).idx = 3 ∧
    (∀ i, i + 1 < 3 → (1 / 100 : ℝ) / 2 ≤ (colAt Hess3.A 3 (1 / 100) (Hess3.e 0 - Hess3.A 0) 3).beta i) ∧
    (colAt Hess3.A 3 (1 / 100) (Hess3.e 0 - Hess3.A 0) 3).beta 2 = 0 ∧
    MaskExact dropLastRow 3 (1 / 100) 3 (colAt Hess3.A 3 (1 / 100) (Hess3.e 0 - Hess3.A 0) 3) ∧
    Function.Injective Hess3.A ∧
    ∃ x, (gmres exactSolve (⇑Hess3.A) 3 3 (RCLike.ofReal (1 / 100 : ℝ) : ℝ) [Hess3.e 0] [0]).soln = [x] ∧
      Hess3.e 0 - Hess3.A x = 0 := by
  have hr : Hess3.e 0 - Hess3.A 0 = Hess3.e 0 := by simp
  have hidx : (runE Hess3.A 3 3 (1 / 100) [Hess3.e 0]).idx = 3 := by
    rw [Hess3.idx_eq_cap 3 (1 / 100) (by norm_num) (by norm_num) (by norm_num)]; rfl
  have hun : ∀ i, i + 1 < 3 → (1 / 100 : ℝ) / 2 ≤ (colAt Hess3.A 3 (1 / 100) (Hess3.e 0) 3).beta i := by
    intro i hi
    rw [Hess3.beta_any 3 (1 / 100) 3 (le_refl _) (by norm_num) (by norm_num) (by norm_num) i (by omega) (by omega)]
    unfold Hess3.bt
    split <;> norm_num
  have hb := (Hess3.colAt3 3 (1 / 100) (le_refl _) (by norm_num) (by norm_num)).2.2
  rw [hr]
  refine ⟨hidx, hun, hb, Hess3.mask3, Hess3.A_injective, ?_⟩
  have := C13_exact_at_grade_injective (exactSolve (𝕜 := ℝ)) Hess3.A 3 3 (1 / 100) (by norm_num) (Hess3.e 0) 0
    (by rw [hr]; exact Hess3.e0_ne) (by rw [hr, hidx]; norm_num) (by rw [hr, hidx]; exact hun)
    (by rw [hr, hidx]; exact hb) (by rw [hr, hidx]; exact Hess3.mask3) exactSolve_sound Hess3.A_injective
  exact this

#print axioms C13_krylov_span
#print axioms C13_krylov_optimal
#print axioms C13_krylov_optimal_input
#print axioms C13_monotone
#print axioms C13_exact_at_grade_injective
#print axioms C13_exact_at_grade_input
#print axioms C13_exact_at_dim
#print axioms C13_solverSound_witness
#print axioms C13_hypotheses_witness
#print axioms C13_exact_witness

/-! ## Round 3: the step count `s` in terms of `max_iters`; batches column by column -/

/-- **`s = min(max_iters, n, first stop)`**, one column: the number `s` of executed Arnoldi steps all C13 theorems speak
of is at most `min max_iters n`; the loop ended at that cap or because the tolerance test of `cond_fun`
(`Arnoldi.StopAt`: `H[k,k-1] ≤ tol · H[1,0]`) fired at `s`; it did not fire at any index `1 ≤ k < s`; and these three
properties determine `s`.  So for `max_iters ≤ n`: `s = max_iters` unless the test fires earlier (finding `stopExact`
when that happens before the grade). -/
theorem C13_steps (A : E →ₗ[𝕜] E) (n M : Nat) (tol : ℝ) (tolPos : 0 < tol) (b x0 : E)
    (resNonzero : b - A x0 ≠ 0) :
    (runE A n M tol [b - A x0]).idx ≤ min M n ∧
    ((runE A n M tol [b - A x0]).idx = min M n ∨
      StopAt A M tol (b - A x0) (runE A n M tol [b - A x0]).idx) ∧
    (∀ k, 1 ≤ k → k < (runE A n M tol [b - A x0]).idx → ¬ StopAt A M tol (b - A x0) k) ∧
    ∀ t, t ≤ min M n → (t = min M n ∨ StopAt A M tol (b - A x0) t) →
      (∀ k, 1 ≤ k → k < t → ¬ StopAt A M tol (b - A x0) k) → (runE A n M tol [b - A x0]).idx = t := by
  obtain ⟨h1, h2, h3⟩ := steps_char A M tol (b - A x0) n tolPos resNonzero
  exact ⟨h1, h2, h3, fun t ht hend hbefore => steps_unique A M tol (b - A x0) n tolPos resNonzero t ht hend hbefore⟩

/-- **C13 over `K_{min(m,n)}`, hypotheses on the inputs**: when the Krylov distances `d_j = dist(A^j r₀, K_j(A, r₀))`
neither clip (`noBreakdownInput`, all `min m n` steps: the cap is below the grade) nor trigger the relative test
(`noEarlyStopInput`), the loop runs to the cap and `gmres` returns the residual minimiser over
`x₀ + K_{min(m,n)}(A, r₀)` — for `m ≤ n` the `m`-dimensional Krylov space of the property text.
Witness: `C13_steps_witness`. -/
theorem C13_krylov_optimal_at_cap (solve : Array (Array 𝕜) → Array 𝕜 → Array 𝕜) (A : E →ₗ[𝕜] E)
    (n M : Nat) (tol : ℝ) (tolPos : 0 < tol) (b x0 : E) (resNonzero : b - A x0 ≠ 0)
    (noBreakdownInput : ∀ i, i < min M n →
      tol / 2 * krylovDist A (b - A x0) i ≤ krylovDist A (b - A x0) (i + 1))
    (noEarlyStopInput : ∀ k, 1 ≤ k → k < min M n →
      tol * krylovDist A (b - A x0) 1 * krylovDist A (b - A x0) (k - 1) <
        krylovDist A (b - A x0) k * krylovDist A (b - A x0) 0)
    (maskExact : MaskExact dropLastRow M tol (min M n) (colAt A M tol (b - A x0) (min M n)))
    (solverSound : SolverSound solve) :
    (runE A n M tol [b - A x0]).idx = min M n ∧
    ∃ x, (gmres solve (⇑A) n M ((tol : ℝ) : 𝕜) [b] [x0]).soln = [x] ∧
      x - x0 ∈ krylov A (b - A x0) (min M n) ∧
      ∀ z ∈ krylov A (b - A x0) (min M n), ‖b - A x‖ ≤ ‖b - A (x0 + z)‖ := by
  have hidx : (runE A n M tol [b - A x0]).idx = min M n :=
    run_idx_eq_cap_of_input_lt A M tol (b - A x0) n tolPos resNonzero
      (fun i hi => noBreakdownInput i (by omega)) noEarlyStopInput
  have h := C13_krylov_optimal_input solve A n M tol tolPos b x0 resNonzero
    (by rw [hidx]; exact noBreakdownInput) (by rw [hidx]; exact maskExact) solverSound
  rw [hidx] at h
  exact ⟨hidx, h⟩

/-- **zero residual once `max_iters` reaches the grade, hypotheses on the inputs**: `g` = grade of the initial
residual (`gradeReached : A^g r₀ ∈ K_g(A, r₀)`), `g ≤ min m n`, no clip before the last step, no early stop before `g`:
the loop makes exactly `g` steps and the returned `x` solves the system.  Remaining clause on computed values:
`maskExact`.  Witness: `C13_steps_witness`. -/
theorem C13_exact_at_grade_of_inputs (solve : Array (Array 𝕜) → Array 𝕜 → Array 𝕜) (A : E →ₗ[𝕜] E)
    (n M : Nat) (tol : ℝ) (tolPos : 0 < tol) (b x0 : E) (resNonzero : b - A x0 ≠ 0)
    (g : Nat) (gradePos : 1 ≤ g) (capReachesGrade : g ≤ min M n)
    (noClipBeforeLast : ∀ i, i + 1 < g →
      tol / 2 * krylovDist A (b - A x0) i ≤ krylovDist A (b - A x0) (i + 1))
    (noEarlyStopInput : ∀ k, 1 ≤ k → k < g →
      tol * krylovDist A (b - A x0) 1 * krylovDist A (b - A x0) (k - 1) <
        krylovDist A (b - A x0) k * krylovDist A (b - A x0) 0)
    (gradeReached : (A ^ g) (b - A x0) ∈ krylov A (b - A x0) g)
    (maskExact : MaskExact dropLastRow M tol g (colAt A M tol (b - A x0) g))
    (solverSound : SolverSound solve) (injective : Function.Injective A) :
    (runE A n M tol [b - A x0]).idx = g ∧
    ∃ x, (gmres solve (⇑A) n M ((tol : ℝ) : 𝕜) [b] [x0]).soln = [x] ∧ b - A x = 0 := by
  obtain ⟨hidx, hbreak, hun⟩ := run_idx_eq_grade_of_input A M tol (b - A x0) n tolPos resNonzero g gradePos
    capReachesGrade noClipBeforeLast noEarlyStopInput gradeReached
  refine ⟨hidx, ?_⟩
  apply C13_exact_at_grade_injective solve A n M tol tolPos b x0 resNonzero
  · rw [hidx]; exact gradePos
  · rw [hidx]; exact hun
  · rw [hidx]; exact hbreak
  · rw [hidx]; exact maskExact
  · exact solverSound
  · exact injective

/-- **batches: the shared step count**.  The Arnoldi loop of a batch is ONE loop (`cond_fun`: continue while ANY
column is large): its step count `S` is at most `min max_iters n` and at least the step count `s_j` of the single
run of every column.  This is why the one-column theorems do not transfer verbatim: column `j` of a batch is stepped
`S ≥ s_j` times. -/
theorem C13_batch_steps (A : E →ₗ[𝕜] E) (n M : Nat) (tol : ℝ) (bs x0s : List E) (j : Nat) (b x0 : E)
    (hb : bs[j]? = some b) (hx : x0s[j]? = some x0) :
    (runE A n M tol (List.zipWith (fun b x => b - A x) bs x0s)).idx ≤ min M n ∧
    (runE A n M tol [b - A x0]).idx ≤ (runE A n M tol (List.zipWith (fun b x => b - A x) bs x0s)).idx := by
  refine ⟨(run_spec (⇑A) n M ((tol : ℝ) : 𝕜) _).2.1, ?_⟩
  apply run_idx_batch_ge_single
  apply List.mem_of_getElem? (i := j)
  rw [List.getElem?_zipWith, hb, hx]

/-- **C13 for column `j` of a batch** (`S` = shared step count): if THIS column's steps were unclipped and THIS
column's padding mask is exact, its iterate lies in `x₀ⱼ + K_S(A, r₀ⱼ)` and minimises the residual over it — whatever
the other columns are (they enter only through `S`, cf. `C13_batch_steps`). -/
theorem C13_batch_krylov_optimal (solve : Array (Array 𝕜) → Array 𝕜 → Array 𝕜) (A : E →ₗ[𝕜] E)
    (n M : Nat) (tol : ℝ) (tolPos : 0 < tol) (bs x0s : List E) (j : Nat) (b x0 : E)
    (hb : bs[j]? = some b) (hx : x0s[j]? = some x0) (resNonzero : b - A x0 ≠ 0)
    (noBreakdown : ∀ i, i < (runE A n M tol (List.zipWith (fun b x => b - A x) bs x0s)).idx →
      tol / 2 ≤ (colAt A M tol (b - A x0)
        (runE A n M tol (List.zipWith (fun b x => b - A x) bs x0s)).idx).beta i)
    (maskExact : MaskExact dropLastRow M tol (runE A n M tol (List.zipWith (fun b x => b - A x) bs x0s)).idx
      (colAt A M tol (b - A x0) (runE A n M tol (List.zipWith (fun b x => b - A x) bs x0s)).idx))
    (solverSound : SolverSound solve) :
    ∃ x, (gmres solve (⇑A) n M ((tol : ℝ) : 𝕜) bs x0s).soln[j]? = some x ∧
      x - x0 ∈ krylov A (b - A x0) (runE A n M tol (List.zipWith (fun b x => b - A x) bs x0s)).idx ∧
      ∀ z ∈ krylov A (b - A x0) (runE A n M tol (List.zipWith (fun b x => b - A x) bs x0s)).idx,
        ‖b - A x‖ ≤ ‖b - A (x0 + z)‖ := by
  have hSM : (runE A n M tol (List.zipWith (fun b x => b - A x) bs x0s)).idx ≤ M :=
    le_trans (run_spec (⇑A) n M ((tol : ℝ) : 𝕜) _).2.1 (min_le_left _ _)
  obtain ⟨h1, h2⟩ := krylov_optimal (solve := solve) tolPos resNonzero hSM noBreakdown maskExact solverSound
    b x0 rfl
  refine ⟨_, gmresCore_batch_get solve false A n M tol bs x0s j b x0 hb hx, ?_, h2⟩
  unfold colSoln
  rw [add_sub_cancel_left]
  exact h1

/-- **zero residual for column `j` of a batch once the shared loop has passed its grade**: if the Krylov space of
THIS column's residual is exhausted after `g ≤ S` steps (exact breakdown in step `g - 1`, none earlier), the column
is solved exactly — also when `g < S`, i.e. when other columns kept the loop running (in exact arithmetic a dead
column stays frozen; in floating point that is the recorded clause `breakdownNotMasked`). -/
theorem C13_batch_exact_at_grade (solve : Array (Array 𝕜) → Array 𝕜 → Array 𝕜) (A : E →ₗ[𝕜] E)
    (n M : Nat) (tol : ℝ) (tolPos : 0 < tol) (bs x0s : List E) (j : Nat) (b x0 : E)
    (hb : bs[j]? = some b) (hx : x0s[j]? = some x0) (resNonzero : b - A x0 ≠ 0)
    (g : Nat) (gradePos : 0 < g)
    (gradePassed : g ≤ (runE A n M tol (List.zipWith (fun b x => b - A x) bs x0s)).idx)
    (noEarlierBreakdown : ∀ i, i + 1 < g → tol / 2 ≤ (colAt A M tol (b - A x0) g).beta i)
    (exactBreakdown : (colAt A M tol (b - A x0) g).beta (g - 1) = 0)
    (maskExact : MaskExact dropLastRow M tol g (colAt A M tol (b - A x0) g))
    (solverSound : SolverSound solve) (injective : Function.Injective A) :
    ∃ x, (gmres solve (⇑A) n M ((tol : ℝ) : 𝕜) bs x0s).soln[j]? = some x ∧ b - A x = 0 := by
  have hSM : (runE A n M tol (List.zipWith (fun b x => b - A x) bs x0s)).idx ≤ M :=
    le_trans (run_spec (⇑A) n M ((tol : ℝ) : 𝕜) _).2.1 (min_le_left _ _)
  refine ⟨_, gmresCore_batch_get solve false A n M tol bs x0s j b x0 hb hx, ?_⟩
  rw [colSoln_after_breakdown solve false A M tol tolPos b x0 resNonzero g _ gradePos gradePassed hSM
    exactBreakdown]
  exact exact_at_breakdown_sound (solve := solve) tolPos resNonzero (le_trans gradePassed hSM) gradePos
    noEarlierBreakdown exactBreakdown maskExact solverSound injective b x0 rfl

/-- the same with the column's hypotheses on the INPUTS (those of `C13_exact_at_grade_of_inputs` for this column):
then its single run makes `g` steps, so the shared loop makes at least `g` (`C13_batch_steps`) and the column is solved
exactly — no hypothesis about the other columns at all -/
theorem C13_batch_exact_at_grade_of_inputs (solve : Array (Array 𝕜) → Array 𝕜 → Array 𝕜) (A : E →ₗ[𝕜] E)
    (n M : Nat) (tol : ℝ) (tolPos : 0 < tol) (bs x0s : List E) (j : Nat) (b x0 : E)
    (hb : bs[j]? = some b) (hx : x0s[j]? = some x0) (resNonzero : b - A x0 ≠ 0)
    (g : Nat) (gradePos : 1 ≤ g) (capReachesGrade : g ≤ min M n)
    (noClipBeforeLast : ∀ i, i + 1 < g →
      tol / 2 * krylovDist A (b - A x0) i ≤ krylovDist A (b - A x0) (i + 1))
    (noEarlyStopInput : ∀ k, 1 ≤ k → k < g →
      tol * krylovDist A (b - A x0) 1 * krylovDist A (b - A x0) (k - 1) <
        krylovDist A (b - A x0) k * krylovDist A (b - A x0) 0)
    (gradeReached : (A ^ g) (b - A x0) ∈ krylov A (b - A x0) g)
    (maskExact : MaskExact dropLastRow M tol g (colAt A M tol (b - A x0) g))
    (solverSound : SolverSound solve) (injective : Function.Injective A) :
    ∃ x, (gmres solve (⇑A) n M ((tol : ℝ) : 𝕜) bs x0s).soln[j]? = some x ∧ b - A x = 0 := by
  obtain ⟨hidx, hbreak, hun⟩ := run_idx_eq_grade_of_input A M tol (b - A x0) n tolPos resNonzero g gradePos
    capReachesGrade noClipBeforeLast noEarlyStopInput gradeReached
  have hge := (C13_batch_steps A n M tol bs x0s j b x0 hb hx).2
  rw [hidx] at hge
  exact C13_batch_exact_at_grade solve A n M tol tolPos bs x0s j b x0 hb hx resNonzero g gradePos hge hun hbreak
    maskExact solverSound injective

/-- **witness for the input-level bundles** on `A = [[1,1,0],[2,1,1],[0,3,1]]`, `b = e₀`, `x₀ = 0`, `tol = 1/100`
(Krylov distances `1, 2, 6, 0`): (1) `max_iters = 2`: all hypotheses of `C13_krylov_optimal_at_cap` hold, so `s = 2`
and the iterate minimises over `K₂`; (2) `max_iters = 3`, `g = 3`: all hypotheses of `C13_exact_at_grade_of_inputs`
hold, so `s = 3` and the system is solved; in both runs the tolerance test never fires (`C13_steps`: `s` = cap). -/
theorem C13_steps_witness :
    ((runE Hess3.A 3 2 (1 / 100) [Hess3.e 0 - Hess3.A 0]).idx = min 2 3 ∧
      ∃ x, (gmres exactSolve (⇑Hess3.A) 3 2 (RCLike.ofReal (1 / 100 : ℝ) : ℝ) [Hess3.e 0] [0]).soln = [x] ∧
        x - 0 ∈ krylov Hess3.A (Hess3.e 0 - Hess3.A 0) (min 2 3) ∧
        ∀ z ∈ krylov Hess3.A (Hess3.e 0 - Hess3.A 0) (min 2 3),
          ‖Hess3.e 0 - Hess3.A x‖ ≤ ‖Hess3.e 0 - Hess3.A (0 + z)‖) ∧
    ((runE Hess3.A 3 3 (1 / 100) [Hess3.e 0 - Hess3.A 0]).idx = 3 ∧
      ∃ x, (gmres exactSolve (⇑Hess3.A) 3 3 (RCLike.ofReal (1 / 100 : ℝ) : ℝ) [Hess3.e 0] [0]).soln = [x] ∧
        Hess3.e 0 - Hess3.A x = 0) := by
  have hr : Hess3.e 0 - Hess3.A 0 = Hess3.e 0 := by simp
  obtain ⟨d0, d1, d2, d3⟩ := Hess3.krylovDist_vals
  have hgrow : ∀ i, i < 2 → (1 / 100 : ℝ) / 2 * krylovDist Hess3.A (Hess3.e 0) i ≤
      krylovDist Hess3.A (Hess3.e 0) (i + 1) := by
    intro i hi
    have : i = 0 ∨ i = 1 := by omega
    rcases this with rfl | rfl
    · rw [d0, d1]; norm_num
    · rw [d1, d2]; norm_num
  have hstop : ∀ k, 1 ≤ k → k < 3 →
      (1 / 100 : ℝ) * krylovDist Hess3.A (Hess3.e 0) 1 * krylovDist Hess3.A (Hess3.e 0) (k - 1) <
        krylovDist Hess3.A (Hess3.e 0) k * krylovDist Hess3.A (Hess3.e 0) 0 := by
    intro k hk1 hk
    have : k = 1 ∨ k = 2 := by omega
    rcases this with rfl | rfl
    · rw [d0, d1]; norm_num
    · rw [d0, d1, d2]; norm_num
  have hgrade : (Hess3.A ^ 3) (Hess3.e 0) ∈ krylov Hess3.A (Hess3.e 0) 3 := by
    have hcl : IsClosed ((krylov Hess3.A (Hess3.e 0) 3 : Submodule ℝ Hess3.E3) : Set Hess3.E3) :=
      Submodule.closed_of_finiteDimensional _
    have hne : ((krylov Hess3.A (Hess3.e 0) 3 : Submodule ℝ Hess3.E3) : Set Hess3.E3).Nonempty :=
      ⟨0, Submodule.zero_mem _⟩
    exact (hcl.mem_iff_infDist_zero hne).mpr d3
  have h23 : min 2 3 = 2 := rfl
  have h33 : min 3 3 = 3 := rfl
  constructor
  · exact C13_krylov_optimal_at_cap exactSolve Hess3.A 3 2 (1 / 100) (by norm_num) (Hess3.e 0) 0
      (by rw [hr]; exact Hess3.e0_ne)
      (by rw [hr, h23]; exact hgrow)
      (by rw [hr, h23]; exact fun k hk1 hk => hstop k hk1 (by omega))
      (by rw [hr, h23]; exact Hess3.mask2) exactSolve_sound
  · exact C13_exact_at_grade_of_inputs exactSolve Hess3.A 3 3 (1 / 100) (by norm_num) (Hess3.e 0) 0
      (by rw [hr]; exact Hess3.e0_ne) 3 (by norm_num) (by rw [h33])
      (by rw [hr]; exact fun i hi => hgrow i (by omega))
      (by rw [hr]; exact hstop)
      (by rw [hr]; exact hgrade)
      (by rw [hr]; exact Hess3.mask3) exactSolve_sound Hess3.A_injective

/-- **witness for the batch theorems**: the batch `[e₀, e₂]`, `x₀ = [0, 0]` on the same system.  The shared loop makes
`S = min max_iters 3` steps (it is squeezed between the single run of column 0 and the cap), and column 0 satisfies
the hypotheses of `C13_batch_krylov_optimal` (`max_iters = 2`) and of `C13_batch_exact_at_grade` (`max_iters = 3`,
`g = 3 = S`) — hence their conclusions, with a genuinely different second column in the batch. -/
theorem C13_batch_witness :
    ((runE Hess3.A 3 2 (1 / 100)
        (List.zipWith (fun b x => b - Hess3.A x) [Hess3.e 0, Hess3.e 2] [0, 0])).idx = 2 ∧
      ∃ x, (gmres exactSolve (⇑Hess3.A) 3 2 (RCLike.ofReal (1 / 100 : ℝ) : ℝ)
          [Hess3.e 0, Hess3.e 2] [0, 0]).soln[0]? = some x ∧
        ∀ z ∈ krylov Hess3.A (Hess3.e 0 - Hess3.A 0) 2, ‖Hess3.e 0 - Hess3.A x‖ ≤ ‖Hess3.e 0 - Hess3.A (0 + z)‖) ∧
    ((runE Hess3.A 3 3 (1 / 100)
        (List.zipWith (fun b x => b - Hess3.A x) [Hess3.e 0, Hess3.e 2] [0, 0])).idx = 3 ∧
      ∃ x, (gmres exactSolve (⇑Hess3.A) 3 3 (RCLike.ofReal (1 / 100 : ℝ) : ℝ)
          [Hess3.e 0, Hess3.e 2] [0, 0]).soln[0]? = some x ∧ Hess3.e 0 - Hess3.A x = 0) := by
  have hr : Hess3.e 0 - Hess3.A 0 = Hess3.e 0 := by simp
  have hS : ∀ M, 2 ≤ M → M ≤ 3 → (runE Hess3.A 3 M (1 / 100)
      (List.zipWith (fun b x => b - Hess3.A x) [Hess3.e 0, Hess3.e 2] [0, 0])).idx = M := by
    intro M hM2 hM3
    obtain ⟨h1, h2⟩ := C13_batch_steps Hess3.A 3 M (1 / 100) [Hess3.e 0, Hess3.e 2] [0, 0] 0 (Hess3.e 0) 0 rfl rfl
    rw [hr, Hess3.idx_eq_cap M (1 / 100) hM2 (by norm_num) (by norm_num)] at h2
    have : min M 3 = M := min_eq_left hM3
    omega
  have hS2 := hS 2 (le_refl _) (by norm_num)
  have hS3 := hS 3 (by norm_num) (le_refl _)
  refine ⟨⟨hS2, ?_⟩, ⟨hS3, ?_⟩⟩
  · obtain ⟨x, hx, _, hmin⟩ := C13_batch_krylov_optimal exactSolve Hess3.A 3 2 (1 / 100) (by norm_num)
      [Hess3.e 0, Hess3.e 2] [0, 0] 0 (Hess3.e 0) 0 rfl rfl (by rw [hr]; exact Hess3.e0_ne)
      (by
        rw [hS2, hr]
        intro i hi
        rw [Hess3.beta2 2 (1 / 100) (le_refl _) (by norm_num) (by norm_num) i hi]
        unfold Hess3.bt
        split <;> norm_num)
      (by rw [hS2, hr]; exact Hess3.mask2) exactSolve_sound
    rw [hS2] at hmin
    exact ⟨x, hx, hmin⟩
  · exact C13_batch_exact_at_grade exactSolve Hess3.A 3 3 (1 / 100) (by norm_num)
      [Hess3.e 0, Hess3.e 2] [0, 0] 0 (Hess3.e 0) 0 rfl rfl (by rw [hr]; exact Hess3.e0_ne) 3 (by norm_num)
      (by rw [hS3])
      (by
        rw [hr]
        intro i hi
        rw [Hess3.beta_any 3 (1 / 100) 3 (le_refl _) (by norm_num) (by norm_num) (by norm_num) i (by omega)
          (by omega)]
        unfold Hess3.bt
        split <;> norm_num)
      (by rw [hr]; exact (Hess3.colAt3 3 (1 / 100) (le_refl _) (by norm_num) (by norm_num)).2.2)
      (by rw [hr]; exact Hess3.mask3) exactSolve_sound Hess3.A_injective

/-- **witness for the hypothesis bundles that had none** (`C13_monotone` with two caps, `C13_exact_at_dim`,
`C13_exact_at_grade_input`; `C13_krylov_optimal_input` is instantiated inside `C13_steps_witness`), on
`A = [[1,1,0],[2,1,1],[0,3,1]]`, `b = e₀`, `x₀ = 0`, `tol = 1/100`: the theorems are APPLIED, i.e. every hypothesis is
discharged — (1) `max_iters = 1 ≤ 2`: residual norms non-increasing; (2) `max_iters = 3 = dim`: zero residual by
`C13_exact_at_dim`; (3) the same by `C13_exact_at_grade_input` (`A³ e₀ ∈ K₃`). -/
theorem C13_remaining_bundles_witness :
    (∃ x x', (gmres exactSolve (⇑Hess3.A) 3 1 (RCLike.ofReal (1 / 100 : ℝ) : ℝ) [Hess3.e 0] [0]).soln = [x] ∧
      (gmres exactSolve (⇑Hess3.A) 3 2 (RCLike.ofReal (1 / 100 : ℝ) : ℝ) [Hess3.e 0] [0]).soln = [x'] ∧
      ‖Hess3.e 0 - Hess3.A x'‖ ≤ ‖Hess3.e 0 - Hess3.A x‖) ∧
    (∃ x, (gmres exactSolve (⇑Hess3.A) 3 3 (RCLike.ofReal (1 / 100 : ℝ) : ℝ) [Hess3.e 0] [0]).soln = [x] ∧
      Hess3.e 0 - Hess3.A x = 0) ∧
    (∃ x, (gmres exactSolve (⇑Hess3.A) 3 3 (RCLike.ofReal (1 / 100 : ℝ) : ℝ) [Hess3.e 0] [0]).soln = [x] ∧
      Hess3.e 0 - Hess3.A x = 0) := by
  have hr : Hess3.e 0 - Hess3.A 0 = Hess3.e 0 := by simp
  have ht : (0 : ℝ) < 1 / 100 := by norm_num
  have ht4 : (1 / 100 : ℝ) ≤ 4 := by norm_num
  have hidx1 := Hess3.idx_cap1 (1 / 100) ht
  have hidx2 : (runE Hess3.A 3 2 (1 / 100) [Hess3.e 0]).idx = 2 := by
    rw [Hess3.idx_eq_cap 2 (1 / 100) (le_refl _) ht (by norm_num)]; rfl
  have hidx3 : (runE Hess3.A 3 3 (1 / 100) [Hess3.e 0]).idx = 3 := by
    rw [Hess3.idx_eq_cap 3 (1 / 100) (by norm_num) ht (by norm_num)]; rfl
  have hun3 : ∀ i, i + 1 < 3 → (1 / 100 : ℝ) / 2 ≤ (colAt Hess3.A 3 (1 / 100) (Hess3.e 0) 3).beta i := by
    intro i hi
    rw [Hess3.beta_any 3 (1 / 100) 3 (le_refl _) (by norm_num) ht ht4 i (by omega) (by omega)]
    unfold Hess3.bt
    split <;> norm_num
  have hgrade : (Hess3.A ^ 3) (Hess3.e 0) ∈ krylov Hess3.A (Hess3.e 0) 3 := by
    have hcl : IsClosed ((krylov Hess3.A (Hess3.e 0) 3 : Submodule ℝ Hess3.E3) : Set Hess3.E3) :=
      Submodule.closed_of_finiteDimensional _
    have hne : ((krylov Hess3.A (Hess3.e 0) 3 : Submodule ℝ Hess3.E3) : Set Hess3.E3).Nonempty :=
      ⟨0, Submodule.zero_mem _⟩
    exact (hcl.mem_iff_infDist_zero hne).mpr Hess3.krylovDist_vals.2.2.2
  refine ⟨?_, ?_, ?_⟩
  · exact C13_monotone exactSolve Hess3.A 3 1 2 (by norm_num) (1 / 100) ht (Hess3.e 0) 0
      (by rw [hr]; exact Hess3.e0_ne)
      (by
        rw [hr, hidx1]
        intro i hi
        have : i = 0 := by omega
        subst this
        rw [Hess3.beta1 (1 / 100) ht ht4]; norm_num)
      (by rw [hr, hidx1]; exact Hess3.mask1)
      (by
        rw [hr, hidx2]
        intro i hi
        rw [Hess3.beta2 2 (1 / 100) (le_refl _) ht ht4 i hi]
        unfold Hess3.bt
        split <;> norm_num)
      (by rw [hr, hidx2]; exact Hess3.mask2) exactSolve_sound
  · exact C13_exact_at_dim exactSolve Hess3.A 3 3 (1 / 100) ht (Hess3.e 0) 0 (by rw [hr]; exact Hess3.e0_ne)
      Hess3.finrank_E3 (by norm_num) (by rw [hr]; exact hidx3) (by rw [hr]; exact hun3)
      (by rw [hr]; exact Hess3.mask3) exactSolve_sound Hess3.A_injective
  · exact C13_exact_at_grade_input exactSolve Hess3.A 3 3 (1 / 100) ht (Hess3.e 0) 0
      (by rw [hr]; exact Hess3.e0_ne) (by rw [hr, hidx3]; norm_num) (by rw [hr, hidx3]; exact hun3)
      (by rw [hr, hidx3]; exact hgrade) (by rw [hr, hidx3]; exact Hess3.mask3) exactSolve_sound
      Hess3.A_injective

/-- **witness for `C13_batch_exact_at_grade_of_inputs`** (round 4): the batch `[e₂, e₀]`, `x₀ = [0, 0]` on
`A = [[1,1,0],[2,1,1],[0,3,1]]`, `max_iters = 3`, `tol = 1/100`, column `j = 1` (`b = e₀`, Krylov distances
`1, 2, 6, 0`, grade `g = 3`): every hypothesis of the theorem is discharged ON THE INPUTS of that column — nothing is
assumed or computed about the other column `e₂` or about the shared step count — and the column is solved exactly. -/
theorem C13_batch_of_inputs_witness :
    ∃ x, (gmres exactSolve (⇑Hess3.A) 3 3 (RCLike.ofReal (1 / 100 : ℝ) : ℝ)
        [Hess3.e 2, Hess3.e 0] [0, 0]).soln[1]? = some x ∧ Hess3.e 0 - Hess3.A x = 0 := by
  have hr : Hess3.e 0 - Hess3.A 0 = Hess3.e 0 := by simp
  obtain ⟨d0, d1, d2, d3⟩ := Hess3.krylovDist_vals
  have hgrow : ∀ i, i + 1 < 3 → (1 / 100 : ℝ) / 2 * krylovDist Hess3.A (Hess3.e 0) i ≤
      krylovDist Hess3.A (Hess3.e 0) (i + 1) := by
    intro i hi
    have : i = 0 ∨ i = 1 := by omega
    rcases this with rfl | rfl
    · rw [d0, d1]; norm_num
    · rw [d1, d2]; norm_num
  have hstop : ∀ k, 1 ≤ k → k < 3 →
      (1 / 100 : ℝ) * krylovDist Hess3.A (Hess3.e 0) 1 * krylovDist Hess3.A (Hess3.e 0) (k - 1) <
        krylovDist Hess3.A (Hess3.e 0) k * krylovDist Hess3.A (Hess3.e 0) 0 := by
    intro k hk1 hk
    have : k = 1 ∨ k = 2 := by omega
    rcases this with rfl | rfl
    · rw [d0, d1]; norm_num
    · rw [d0, d1, d2]; norm_num
  have hgrade : (Hess3.A ^ 3) (Hess3.e 0) ∈ krylov Hess3.A (Hess3.e 0) 3 := by
    have hcl : IsClosed ((krylov Hess3.A (Hess3.e 0) 3 : Submodule ℝ Hess3.E3) : Set Hess3.E3) :=
      Submodule.closed_of_finiteDimensional _
    have hne : ((krylov Hess3.A (Hess3.e 0) 3 : Submodule ℝ Hess3.E3) : Set Hess3.E3).Nonempty :=
      ⟨0, Submodule.zero_mem _⟩
    exact (hcl.mem_iff_infDist_zero hne).mpr d3
  exact C13_batch_exact_at_grade_of_inputs exactSolve Hess3.A 3 3 (1 / 100) (by norm_num)
    [Hess3.e 2, Hess3.e 0] [0, 0] 1 (Hess3.e 0) 0 rfl rfl (by rw [hr]; exact Hess3.e0_ne) 3 (by norm_num)
    (by norm_num)
    (by rw [hr]; exact hgrow)
    (by rw [hr]; exact hstop)
    (by rw [hr]; exact hgrade)
    (by rw [hr]; exact Hess3.mask3) exactSolve_sound Hess3.A_injective

#print axioms C13_steps
#print axioms C13_krylov_optimal_at_cap
#print axioms C13_exact_at_grade_of_inputs
#print axioms C13_batch_steps
#print axioms C13_batch_krylov_optimal
#print axioms C13_batch_exact_at_grade
#print axioms C13_batch_exact_at_grade_of_inputs
#print axioms C13_steps_witness
#print axioms C13_batch_witness
#print axioms C13_remaining_bundles_witness
#print axioms C13_batch_of_inputs_witness
