import ColaVerif.Lemmas.FFTOp
import ColaVerif.Lemmas.AnnotSoundAux
import Mathlib.RingTheory.RootsOfUnity.Complex

/-!
# C02 / C05 — `cola.ops.FFT`: `X @ A`, `A.T`, `A.H`, and the annotation `Unitary`

The stand-alone model of Model/FFTOp.lean (root `ω = e^{-2πi/n}`, scale `s = 1/√n`; represented
matrix `fftDen n ω s`, entry `s · ω^(j·k)`).

* `X @ A` is `FFT._rmatmat = ifft(X.conj(), axis=1, norm='ortho').conj()`: the inverse transform
  (root `star ω`) between two conjugations.  It equals `X @ fftDen` when the scale is real
  (`C02_fft_rmatmat`; `C02_fft_real_scale_needed`: the model needs the hypothesis — for the real
  code it is a fact, `s = 1/√n`).
* `A.T`, `A.H` are the lazy wrappers `Transpose`, `Adjoint` (FFT has no dispatch rule of its own):
  their four products are products with `fftDenᵀ` / `fftDenᴴ`; `fftDen` is symmetric
  (`C02_fft_transpose`) and its adjoint is the transform with the conjugate root.
* `FFT` declares itself `Unitary`.  Under `FFTParams n ω s` — `ω^n = 1`, `star ω · ω = 1`,
  `ω^d − 1` not a zero divisor for `0 < d < n` (in a domain: `ω` a PRIMITIVE root,
  `C02_fft_unitary_primitive`), `s·s·n = 1`, `star s = s` — the declaration is true
  (`C02_fft_unitary`, Mathlib form `C02_fft_unitary_matrix`, annotation form
  `C02_fft_holds_unitary`), from the geometric sum.  `C02_fft_primitive_needed`: a non-primitive
  root fails.  The hypotheses hold for the complex numbers NumPy approximates, for every `n ≥ 1`
  (`C02_fft_complex_params`), and for the exact instances the harness runs (`n = 1, 4` over ℚ[i]).
-/

open Matrix

namespace C02
variable {K : Type}

/-! ## left multiplication -/

/-- **C02 (FFT).**  `X @ FFT(n)` — conjugate, `ifft` along axis 1, conjugate — is `X` times the
represented matrix, for all `n`, every operand, every number of rows. -/
theorem C02_fft_rmatmat [CommSemiring K] [StarRing K] (n : Nat) (ω s : K) (hs : star s = s)
    (b : Nat) (X : MatF K) :
    EqOn b n (fftRmatmat n ω s b X).f (mmul n X (fftDen n ω s)) := by
  intro r k _ _
  rw [fftRmatmat_eq n ω s hs]

/-- the hypothesis `star s = s` is needed by the model (`n = 1`, `ω = 1`, "scale" `i`, `X = 1`):
the conj–ifft–conj formula gives `−i`, the product `i` -/
theorem C02_fft_real_scale_needed :
    (fftRmatmat 1 (1 : GRat) ⟨0, 1⟩ 1 (fun _ _ => 1)).f 0 0 = ⟨0, -1⟩ ∧
      mmul 1 (fun _ _ => 1) (fftDen 1 (1 : GRat) ⟨0, 1⟩) 0 0 = ⟨0, 1⟩ := by
  constructor <;> ext <;> simp [fftRmatmat, dftAxis1, conjM, mmul, fftDen, sumTo]

/-! ## transpose and adjoint -/

/-- **C02 (FFT).**  The represented matrix is symmetric. -/
theorem C02_fft_transpose [CommMonoid K] (n : Nat) (ω s : K) :
    transposeM (fftDen n ω s) = fftDen n ω s := fftDen_transpose n ω s

/-- the adjoint of the represented matrix is the transform with the conjugate root (`= ifft`) -/
theorem C02_fft_adjoint [CommSemiring K] [StarRing K] (n : Nat) (ω s : K) (hs : star s = s) :
    conjM (transposeM (fftDen n ω s)) = fftDen n (star ω) s := fftDen_adjoint n ω s hs

/-- `FFT(n).T @ X` (`Transpose._matmat = A._rmatmat(X.T).T`) -/
theorem C02_fft_T_matmat [CommSemiring K] [StarRing K] (n : Nat) (ω s : K) (hs : star s = s)
    (b : Nat) (X : MatF K) :
    EqOn n b (fftTMatmat n ω s b X).f (mmul n (transposeM (fftDen n ω s)) X) := by
  intro k c _ _
  rw [fftTMatmat_eq n ω s hs]

/-- `X @ FFT(n).T` (`Transpose._rmatmat = A._matmat(X.T).T`) -/
theorem C02_fft_T_rmatmat [CommSemiring K] (n : Nat) (ω s : K) (b : Nat) (X : MatF K) :
    EqOn b n (fftTRmatmat n ω s b X).f (mmul n X (transposeM (fftDen n ω s))) := by
  intro r k _ _
  rw [fftTRmatmat_eq]

/-- `FFT(n).H @ X` (`Adjoint._matmat = conj(A._rmatmat(conj(X).T)).T`) -/
theorem C02_fft_H_matmat [CommSemiring K] [StarRing K] (n : Nat) (ω s : K) (hs : star s = s)
    (b : Nat) (X : MatF K) :
    EqOn n b (fftHMatmat n ω s b X).f (mmul n (conjM (transposeM (fftDen n ω s))) X) := by
  intro k c _ _
  rw [fftHMatmat_eq n ω s hs]

/-- `X @ FFT(n).H` (`Adjoint._rmatmat = conj(A._matmat(conj(X).T)).T`) -/
theorem C02_fft_H_rmatmat [CommSemiring K] [StarRing K] (n : Nat) (ω s : K) (b : Nat)
    (X : MatF K) :
    EqOn b n (fftHRmatmat n ω s b X).f (mmul n X (conjM (transposeM (fftDen n ω s)))) := by
  intro r k _ _
  rw [fftHRmatmat_eq]

/-! ## the annotation `Unitary` -/

/-- **C05-style (FFT).**  `fftDenᴴ · fftDen = I` on the `n × n` window, for all `n`. -/
theorem C02_fft_unitary [CommRing K] [StarRing K] {n : Nat} {ω s : K} (P : FFTParams n ω s) :
    EqOn n n (mmul n (conjM (transposeM (fftDen n ω s))) (fftDen n ω s)) eyeM := fft_unitary P

/-- Mathlib form, both orders -/
theorem C02_fft_unitary_matrix [CommRing K] [StarRing K] {n : Nat} {ω s : K}
    (P : FFTParams n ω s) :
    (MatF.toMatrix n n (fftDen n ω s))ᴴ * MatF.toMatrix n n (fftDen n ω s) = 1 ∧
      MatF.toMatrix n n (fftDen n ω s) * (MatF.toMatrix n n (fftDen n ω s))ᴴ = 1 :=
  fft_unitary_matrix P

/-- in a domain (a field): `ω` a primitive `n`-th root of unity of modulus one, `s` real with
`s² n = 1` -/
theorem C02_fft_unitary_primitive [CommRing K] [IsDomain K] [StarRing K] {n : Nat} {ω s : K}
    (h : IsPrimitiveRoot ω n) (hstar : star ω * ω = 1) (hscale : s * s * (n : K) = 1)
    (hs : star s = s) :
    (MatF.toMatrix n n (fftDen n ω s))ᴴ * MatF.toMatrix n n (fftDen n ω s) = 1 ∧
      MatF.toMatrix n n (fftDen n ω s) * (MatF.toMatrix n n (fftDen n ω s))ᴴ = 1 :=
  fft_unitary_matrix (FFTParams.of_primitive h hstar hscale hs)

/-- the declared annotation is true in the sense of C05 (`Holds`, Lemmas/AnnotSoundAux.lean) -/
theorem C02_fft_holds_unitary {𝕜 : Type} [RCLike 𝕜] {n : Nat} {ω s : 𝕜} (P : FFTParams n ω s) :
    Holds .unitary n n (fftDen n ω s) :=
  ⟨rfl, (fft_unitary_matrix P).1, (fft_unitary_matrix P).2⟩

/-- primitivity is needed: `n = 4` with the non-primitive root `ω = −1` (all other hypotheses of
`FFTParams` hold) has Gram entry `(0, 2)` equal to `1`, not `0` -/
theorem C02_fft_primitive_needed :
    ((-1 : GRat) ^ 4 = 1 ∧ star (-1 : GRat) * (-1) = 1 ∧
      (⟨1 / 2, 0⟩ : GRat) * ⟨1 / 2, 0⟩ * ((4 : Nat) : GRat) = 1 ∧
      star (⟨1 / 2, 0⟩ : GRat) = ⟨1 / 2, 0⟩) ∧
    mmul 4 (conjM (transposeM (fftDen 4 (-1 : GRat) ⟨1 / 2, 0⟩))) (fftDen 4 (-1 : GRat) ⟨1 / 2, 0⟩)
      0 2 = 1 := by
  refine ⟨⟨?_, ?_, ?_, ?_⟩, ?_⟩
  · ext <;> norm_num
  · ext <;> norm_num
  · ext <;> simp [-Nat.cast_ofNat]
    norm_num
  · ext <;> norm_num
  · rw [mmul_apply]
    simp only [conjM, transposeM, fftDen, Finset.sum_range_succ, Finset.sum_range_zero]
    ext <;> simp only [GRat.add_re, GRat.add_im, GRat.mul_re, GRat.mul_im, GRat.star_re,
      GRat.star_im, GRat.zero_re, GRat.zero_im, GRat.one_re, GRat.one_im] <;> norm_num

/-! ## the hypotheses are satisfiable -/

/-- `n = 1` over ℚ[i] -/
theorem C02_fft_params_one : FFTParams 1 (1 : GRat) 1 := fftParams_one

/-- `n = 4` over ℚ[i]: `ω = −i`, `s = 1/2` (the instance the harness runs exactly) -/
theorem C02_fft_params_four : FFTParams 4 (⟨0, -1⟩ : GRat) ⟨1 / 2, 0⟩ := fftParams_four

/-- `n = 2` over any commutative star ring with a real `s`, `2 s² = 1` (`√2` abstract): `ω = −1` -/
theorem C02_fft_params_two [CommRing K] [StarRing K] (s : K)
    (hscale : s * s * ((2 : Nat) : K) = 1) (hs : star s = s) : FFTParams 2 (-1 : K) s :=
  fftParams_two s hscale hs

/-- **every `n ≥ 1` over ℂ**: `ω = e^{-2πi/n}` (the root of `np.fft.fft`), `s = 1/√n` -/
theorem C02_fft_complex_params (n : Nat) (hn : n ≠ 0) :
    FFTParams n (Complex.exp (-(2 * Real.pi * Complex.I / n))) (((Real.sqrt n)⁻¹ : ℝ) : ℂ) := by
  have hprim : IsPrimitiveRoot (Complex.exp (-(2 * Real.pi * Complex.I / n))) n := by
    rw [Complex.exp_neg]
    exact (Complex.isPrimitiveRoot_exp n hn).inv
  refine FFTParams.of_primitive_field hprim hn ?_ ?_ ?_
  · rw [← Complex.exp_neg]
    show (starRingEnd ℂ) _ = _
    rw [← Complex.exp_conj]
    congr 1
    simp only [map_neg, map_div₀, map_mul, map_ofNat, map_natCast, Complex.conj_ofReal,
      Complex.conj_I]
    ring
  · have hpos : (0 : ℝ) < n := Nat.cast_pos.mpr (Nat.pos_of_ne_zero hn)
    have hsq : Real.sqrt n * Real.sqrt n = n := Real.mul_self_sqrt hpos.le
    have hne : Real.sqrt n ≠ 0 := (Real.sqrt_pos.mpr hpos).ne'
    have hr : (Real.sqrt n)⁻¹ * (Real.sqrt n)⁻¹ * (n : ℝ) = 1 := by
      field_simp
      linarith
    exact_mod_cast hr
  · exact Complex.conj_ofReal _

end C02

#print axioms C02.C02_fft_rmatmat
#print axioms C02.C02_fft_real_scale_needed
#print axioms C02.C02_fft_transpose
#print axioms C02.C02_fft_adjoint
#print axioms C02.C02_fft_T_matmat
#print axioms C02.C02_fft_T_rmatmat
#print axioms C02.C02_fft_H_matmat
#print axioms C02.C02_fft_H_rmatmat
#print axioms C02.C02_fft_unitary
#print axioms C02.C02_fft_unitary_matrix
#print axioms C02.C02_fft_unitary_primitive
#print axioms C02.C02_fft_holds_unitary
#print axioms C02.C02_fft_primitive_needed
#print axioms C02.C02_fft_params_one
#print axioms C02.C02_fft_params_four
#print axioms C02.C02_fft_params_two
#print axioms C02.C02_fft_complex_params
