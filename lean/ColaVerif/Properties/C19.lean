/-
  C19 — structured operators are never densified: cost stays proportional to the factors.

  Three levels, each tied to /repo on every run by harness/props/c19.py.

  **Dispatch level** (`C19_dispatch_<f>`, `C19_direct_<f>`, `C19_dispatch`, `C19_never_generic`).
  `Gen/StructuralRules.lean` is regenerated from the live dispatcher and from the SOURCE of the
  rules (AST): per function of the family (inv/solve, slogdet/logdet, diag, trace, apply_unary,
  exp, log, pow, sqrt, isqrt, cholesky, plu) the registered rules are classified as *structural*
  (written for a structured kind and touching the operator only through its factors),
  *forwarding* (hand the operator as a whole to another dispatched function) or *generic*.
  The lattice `cases_<f>` is every public call form on every structured kind (Kronecker, KronSum,
  BlockDiag, Diagonal, Identity, ScalarMul, Product, Sum) with the algorithm argument OMITTED and
  with every admitted algorithm class PRESENT, and every truth value of the registration
  conditions.  On every lattice element for which the function has a rule for the kind
  (`expects`: directly, or along every forwarding path), the model resolver
  (`Dispatch.resolve`, proved sound in Model/Dispatch.lean and tied to plum by C04) selects —
  through forwarding rules only — a structural rule (`reach`); in particular never a
  `LinearOperator` base rule (`C19_direct_<f>`).  Proofs: kernel evaluation on the generated table.

  **Cost level** (`C19_matmat_vol`, `C19_matmat`, `C19_matmat_square_sum`).
  `Op.allocs A b` (Model/Cost.lean) lists the sizes of all arrays `A @ X` allocates for an operand
  with `b` columns, by the recursion of `Op.mm` (the code model proved equal to `den A · X` in
  C01).  Every one of them is at most `vol A · b + leafStorage A`, where `vol A` is the LINEAR size
  of the operator (for square leaves: its dimension `n`) and `leafStorage A` the sum of the dense
  sizes of the leaves: there is no `n × n` term.  For non-square Kronecker factors the bound is
  `∏ max(rᵢ, cᵢ) · b` (that is what `vol` is on a Kronecker product).

  **Round 2.**  `C19_matmat_peak(_vol)`: the PEAK (entries alive at the same time, `Op.peakMM`) of `A @ X`
  is at most `lvl A · (vol A · b) + leafStorage A`, `lvl` a function of the nesting only.
  `C19_rule_cost`: for every rule family (inv, slogdet, diag, trace, apply_unary, exp, pow, cholesky, plu)
  what `f(A)` allocates is at most 7 dense copies of each FACTOR plus 3 linear-size vectors per member
  of every node, by induction over the tree.  `C19_skeleton_shapes` / `C19_skeleton_derived`: the
  hand-written per-rule structure (`Op.kindRule`, `Op.baseRule`) equals, field by field, what the
  translator extracts from the AST of the live rules, and `Op.act` is derived from it.

  **Rule level** (`C19_rules`, `C19_rules_ne`, `C19_skeleton_matches_rules`).
  `Op.dens f A` (Model/RuleSkeleton.lean) lists the sub-operators that `f(A)` hands to a generic
  rule.  When `f` has a structural rule for the kind of `A` all of them are PROPER sub-terms of
  `A` (factors, factors of factors, …), never `A` itself.  The hand-written rule table `Op.act`
  agrees with the generated classification on every (function, structured kind).
-/
import ColaVerif.Lemmas.Cost
import ColaVerif.Lemmas.CostPeak
import ColaVerif.Lemmas.CostRules
import ColaVerif.Lemmas.RuleCost
import ColaVerif.Lemmas.SkeletonTie
import ColaVerif.Properties.C19.DispatchA
import ColaVerif.Properties.C19.DispatchB
import ColaVerif.Properties.C19.DispatchC

namespace ColaVerif.Properties.C19
open ColaVerif.Dispatch ColaVerif.Structural ColaVerif.Gen.RuleTable ColaVerif.Gen.StructuralRules

/-! ## dispatch level -/

/-- **C19 (dispatch)**: on every lattice element (function of the family × structured kind ×
    algorithm omitted / present × condition values) for which a structural rule exists, rule
    selection ends — through forwarding rules only — in a structural rule. -/
theorem C19_dispatch :
    ∀ p ∈ familyCases, ∀ c ∈ p.2, okCase hier structuredIds family fuel p.1 c.tup = true := by
  intro p hp
  simp only [familyCases, List.mem_cons, List.not_mem_nil, or_false] at hp
  rcases hp with rfl | rfl | rfl | rfl | rfl | rfl | rfl | rfl | rfl | rfl | rfl | rfl
  · exact C19_dispatch_inv
  · exact C19_dispatch_slogdet
  · exact C19_dispatch_diag
  · exact C19_dispatch_trace
  · exact C19_dispatch_apply_unary
  · exact C19_dispatch_exp
  · exact C19_dispatch_log
  · exact C19_dispatch_pow
  · exact C19_dispatch_sqrt
  · exact C19_dispatch_isqrt
  · exact C19_dispatch_cholesky
  · exact C19_dispatch_plu

/-- … spelled out: an expected call never raises a lookup error and never selects a generic rule;
    the selected rule is structural or forwards the operator to the next dispatched function
    (for which the same holds, `reach`). -/
theorem C19_never_generic :
    ∀ p ∈ familyCases, ∀ c ∈ p.2, expects hier structuredIds family fuel p.1 c.tup = true →
      ∃ e i, lookup family p.1 = some e ∧ resolve hier e.table c.tup = .unique i ∧
        (i ∈ e.structural ∨ ∃ fw ∈ e.fwds, fw.sig = i) := by
  intro p hp c hc hex
  have h := C19_dispatch p hp c hc
  simp only [okCase, hex, Bool.not_true, Bool.false_or] at h
  exact reach_selected (fuel := 5) h

/-- the lattice is not vacuous: e.g. `exp(KronSum)` without an algorithm argument is expected -/
example : expects hier structuredIds family fuel "exp" ⟨[10], 0⟩ = true := by decide +kernel

/-! ## cost level -/

open Op in
/-- **C19 (A @ X, any shapes)**: every array allocated by `A._matmat(X)`, `X` with `b` columns,
    has at most `vol A · b + leafStorage A` entries (`vol` = linear size: product of
    `max(rows, cols)` over Kronecker factors, multiplicity-weighted sum over blocks, maximum over
    the members of sums and products). -/
theorem C19_matmat_vol {R : Type} (A : Op R) (hs : A.inScope = true) (hwf : A.wf = true) (b : Nat) :
    ∀ s ∈ A.allocs b, s ≤ A.vol * b + A.leafStorage :=
  fun s h => (Op.costOK A hs hwf).2.2 b s h

open Op in
/-- **C19 (A @ X, square leaves)**: with square leaf matrices the operator is `n × n` with
    `n = rows A` and every allocation has at most `n · b + leafStorage A` entries: the operand
    size plus the dense sizes of the factors — never `n · n`. -/
theorem C19_matmat {R : Type} (A : Op R) (hs : A.inScope = true) (hwf : A.wf = true)
    (hq : A.squareLeaves = true) (b : Nat) :
    ∀ s ∈ A.allocs b, s ≤ A.rows * b + A.leafStorage := by
  intro s h
  have := C19_matmat_vol A hs hwf b s h
  rw [(Op.square_vol A hs hwf hq).2] at this
  exact this

open Op in
/-- the form asked for in the statement: `s ≤ c · (rows A + cols A) · b + leafStorage A`, `c = 1` -/
theorem C19_matmat_rows_cols {R : Type} (A : Op R) (hs : A.inScope = true) (hwf : A.wf = true)
    (hq : A.squareLeaves = true) (b : Nat) :
    ∀ s ∈ A.allocs b, s ≤ 1 * (A.rows + A.cols) * b + A.leafStorage := by
  intro s h
  have h1 := C19_matmat A hs hwf hq b s h
  have h2 : A.rows * b ≤ 1 * (A.rows + A.cols) * b := by
    rw [Nat.one_mul]; exact Nat.mul_le_mul_right b (Nat.le_add_right _ _)
  omega

open Op in
/-- total allocation: at most (number of allocations) × the bound; the number of allocations
    does not depend on the dimension (it is `(allocs A b).length`, a function of the tree shape) -/
theorem C19_matmat_square_sum {R : Type} (A : Op R) (hs : A.inScope = true) (hwf : A.wf = true)
    (hq : A.squareLeaves = true) (b : Nat) :
    (A.allocs b).sum ≤ (A.allocs b).length * (A.rows * b + A.leafStorage) := by
  have h := C19_matmat A hs hwf hq b
  generalize A.allocs b = l at h
  induction l with
  | nil => simp
  | cons x xs ih =>
    simp only [List.sum_cons, List.length_cons]
    have hx := h x (by simp)
    have hxs := ih (fun s hs => h s (by simp [hs]))
    have : (xs.length + 1) * (A.rows * b + A.leafStorage)
        = xs.length * (A.rows * b + A.leafStorage) + (A.rows * b + A.leafStorage) := by ring
    omega

open Op in
/-- the hypotheses are satisfiable and the bound is sharp up to the leaf term: for the Kronecker
    product of two dense 2 × 2 factors and b = 3 the allocations are 12 = n·b and 4 = one factor. -/
example : (kron [dense .f64 2 2 (fun _ _ => (1 : Int)), dense .f64 2 2 (fun _ _ => 1)]).allocs 3
    = [12, 4, 12, 12, 12, 4, 12, 12, 12] := by
  simp [Op.allocs, Op.kronCost, Op.kronCostLoop, Op.rows, Op.cols]

/-! ## rule level -/

open Op in
/-- **C19 (rules)**: when `f` has a structural rule for the kind of `A`, every operator that
    `f(A)` hands to a generic rule (dense fallback or iterative algorithm) is a PROPER sub-term of
    `A` — a factor, a factor of a factor, … — never the composite. -/
theorem C19_rules {R : Type} (f : Fn) (A : Op R) (h : hasRule f A = true) :
    ∀ D ∈ dens f A, D ∈ A.subterms :=
  fun D hD => Op.dens_proper A f h D hD

open Op in
theorem C19_rules_ne {R : Type} (f : Fn) (A : Op R) (h : hasRule f A = true) :
    ∀ D ∈ dens f A, sizeOf D < sizeOf A :=
  fun D hD => Op.subterms_sizeOf A D (C19_rules f A h D hD)

open Op in
/-- without a structural rule the composite itself reaches a generic rule (the hypothesis of
    `C19_rules` is needed): `inv(KronSum(…))` -/
theorem C19_rules_clause_needed :
    dens Fn.inv (kronsum [eye .f64 2, eye .f64 2] : Op Int) = [kronsum [eye .f64 2, eye .f64 2]] := by
  simp [Op.dens, Op.act]

/-- the hand-written rule table agrees with the generated classification of the live rules -/
theorem C19_skeleton_matches_rules : ColaVerif.SkeletonTie.skeletonAgrees = true := by
  decide +kernel

/-! ## cost level, round 2: PEAK memory of `A @ X` -/

open Op in
/-- **C19 (peak of A @ X, any shapes)**: the entries held AT THE SAME TIME by the arrays `A._matmat(X)`
    allocates (`Op.peakMM`, Model/Cost.lean: the live sets read off the source with CPython's reference
    counting) are at most `lvl A · (vol A · b) + leafStorage A`.  `lvl A` depends on the nesting of the
    tree only (2 at a dense leaf, +1 per Product, +2 per Sum / Kronecker, +4 per KronSum, +4 per BlockDiag
    level), never on a size: peak additional memory is a fixed multiple of the operand size plus the
    dense sizes of the factors. -/
theorem C19_matmat_peak_vol {R : Type} (A : Op R) (hs : A.inScope = true) (hwf : A.wf = true) (b : Nat) :
    A.peakMM b ≤ A.lvl * (A.vol * b) + A.leafStorage :=
  Op.peakOK A hs hwf b

open Op in
/-- **C19 (peak of A @ X, square leaves)**: `n = rows A`, peak ≤ `lvl A · n · b + leafStorage A` -/
theorem C19_matmat_peak {R : Type} (A : Op R) (hs : A.inScope = true) (hwf : A.wf = true)
    (hq : A.squareLeaves = true) (b : Nat) :
    A.peakMM b ≤ A.lvl * (A.rows * b) + A.leafStorage := by
  have := C19_matmat_peak_vol A hs hwf b
  rw [(Op.square_vol A hs hwf hq).2] at this
  exact this

open Op in
/-- the hypotheses are satisfiable and the bound is nearly sharp: for the Kronecker product of two dense
    2 × 2 factors and b = 3 the live set peaks at 52 entries (old `ev` 12 + reshaped copy 12 + inside the
    factor: its cast 4, the cast operand 12 and the product 12); the bound is `4 · 12 + 8 = 56`. -/
example : (kron [dense .f64 2 2 (fun _ _ => (1 : Int)), dense .f64 2 2 (fun _ _ => 1)]).peakMM 3 = 52 ∧
    (kron [dense .f64 2 2 (fun _ _ => (1 : Int)), dense .f64 2 2 (fun _ _ => 1)]).lvl = 4 := by
  constructor <;> simp [Op.peakMM, Op.kronPeakLoop, Op.lvl, Op.maxL, Op.rows, Op.cols]

/-! ## rule level, round 2: what `f(A)` allocates -/

open Op in
/-- **C19 (rule cost)**: for every function `f` of the rule families (inv / solve, slogdet / logdet, diag,
    trace, apply_unary / log, exp, pow / sqrt / isqrt, cholesky, plu) and every operator tree `A` — all
    arities, all sizes, any nesting of Kronecker, KronSum, BlockDiag, Product, Sum, Diagonal, Identity,
    ScalarMul over arbitrary factors — on which the rules of `f` reach down to the factors
    (`deepRule f A`: every composite node met has a structural rule and the recursion ends in leaf kinds only —
    no sliced / concatenated / `no_dispatch` node, see `C19_rule_cost_opaque_not_covered`), the entries allocated while `f(A)`
    is built are at most `CF · factorDense A + OW · linSize A`:
    `CF = 7` dense copies of each Dense / Triangular FACTOR (Σ rᵢ·cᵢ; a structured leaf — Diagonal, Identity, ScalarMul,
    Permutation — counts with its storage and must have a structural rule of `f`, round 3 — the generic rule runs on factors
    only) plus `OW = 3` vectors of the LINEAR size per member of every node.  No product of the row and
    column count of a composite node occurs. -/
theorem C19_rule_cost {R : Type} (f : Fn) (A : Op R) (h : deepRule f A = true) :
    ruleCost f A ≤ CF * factorDense A + OW * linSize A :=
  Op.ruleCost_le A f h

open Op in
/-- `deepRule` is needed: `inv(KronSum(D₄, D₄))` has no rule, the generic rule takes the 16 × 16 composite:
    `5 · 256` entries against a bound of `7 · 32 + 3 · 92` -/
theorem C19_rule_cost_clause_needed :
    let A : Op Int := kronsum [dense .f64 4 4 (fun _ _ => 1), dense .f64 4 4 (fun _ _ => 1)]
    deepRule Fn.inv A = false ∧ ruleCost Fn.inv A = 1280 ∧ CF * factorDense A + OW * linSize A = 500 := by
  simp [Op.deepRule, Op.ruleCost, Op.act, Op.genCost, Op.cf, Op.rows, Op.cols, Op.factorDense, Op.linSize, Op.vol,
    Op.CF, Op.OW]

open Op in
/-- round 3 — `deepRule` also excludes every node WITHOUT any structural rule that is not a leaf kind (a
    `no_dispatch` wrapper, a concatenation, a slice): a generic node inside a Kronecker product is NOT covered
    by `C19_rule_cost`.  `A = Kronecker(no_dispatch(Kronecker(D₄, D₄)), D₄)`: the rule of `inv` for Kronecker
    hands the 16 × 16 wrapper to the generic rule, which allocates `5 · 256` entries — the dense size of a
    composite (`ruleCost = 1564`; `factorDense` would count the wrapper's full 256).  Before round 3 `deepRule`
    was `true` here and the bound admitted that n².  The same tree without the wrapper IS covered, with
    `factorDense = 3 · 16`. -/
theorem C19_rule_cost_opaque_not_covered :
    let D : Op Int := dense .f64 4 4 (fun _ _ => 1)
    let G : Op Int := generic (kron [D, D])
    let A : Op Int := kron [G, D]
    deepRule Fn.inv A = false ∧ ruleCost Fn.inv A = 1564 ∧ factorDense A = 16 * 16 + 16 ∧
      deepRule Fn.inv (kron [concat false [D, D], D]) = false ∧
      deepRule Fn.inv (kron [kron [D, D], D]) = true ∧ factorDense (kron [kron [D, D], D]) = 48 := by
  simp [Op.deepRule, Op.ruleCost, Op.act, Op.genCost, Op.ownCost, Op.ownW, Op.arity, Op.cf, Op.rows, Op.cols,
    Op.factorDense, Op.vol]

open Op in
/-- round 3 — structured leaves count with their STORAGE: the full-size Diagonal and Identity members of
    `Kronecker(D₄, D₄) + Diagonal₁₆ + I₁₆` contribute `16 + 1` to `factorDense` (it was `2 · 256`), and the tree is
    covered for `diag`.  A leaf for which `f` has NO structural rule is densified by the generic rule
    (`genCost = cf · n²`) and is therefore not covered: Tridiagonal (no rule in any family), Permutation under
    `diag` — while `inv(Kronecker(P, D))` is (inv.py has a Permutation rule). -/
theorem C19_rule_cost_structured_leaves :
    let D : Op Int := dense .f64 4 4 (fun _ _ => 1)
    let A : Op Int := sum [kron [D, D], diag .f64 16 (fun _ => 1), eye .f64 16]
    deepRule Fn.diag A = true ∧ factorDense A = 32 + 16 + 1 ∧
      deepRule Fn.inv (kron [tridiag .f64 4 (fun _ => 0) (fun _ => 1) (fun _ => 0), D]) = false ∧
      deepRule Fn.diag (kron [perm .f64 [1, 0], D]) = false ∧ deepRule Fn.inv (kron [perm .f64 [1, 0], D]) = true := by
  simp [Op.deepRule, Op.act, Op.factorDense, Op.rows, Op.cols]

open Op in
/-- on a covered tree the bound really is far below the dense size: Kronecker(D₄₀, D₄₀), n = 1600 -/
example :
    let D : Op Int := dense .f64 40 40 (fun _ _ => 1)
    let A : Op Int := kron [D, D]
    deepRule Fn.inv A = true ∧ CF * factorDense A + OW * linSize A = 37364 ∧ A.rows * A.cols = 2560000 := by
  simp [Op.deepRule, Op.act, Op.rows, Op.cols, Op.factorDense, Op.linSize, Op.vol, Op.CF, Op.OW]

open Op in
/-- the hypothesis is satisfiable for every rule family, on nested trees -/
example :
    let D : Op Int := dense .f64 3 3 (fun _ _ => 1)
    let K : Op Int := kron [bdiag [D, diag .f64 2 (fun _ => 1)] [2, 3], D, scalar .f64 2 4]
    deepRule Fn.inv K = true ∧ deepRule Fn.slogdet (prod [K, K]) = true ∧ deepRule Fn.diag (sum [K, kronsum [D, D]]) = true ∧
      deepRule Fn.trace (kronsum [D, D]) = true ∧ deepRule Fn.exp (kronsum [D, bdiag [D] [2]]) = true ∧
      deepRule Fn.pow (kron [D, bdiag [D, D] [1, 2]]) = true ∧ deepRule Fn.unary (bdiag [D, diag .f64 2 (fun _ => 1)] [1, 1]) = true ∧
      deepRule Fn.chol K = true ∧ deepRule Fn.plu K = true := by
  simp [Op.deepRule, Op.act, Op.allSquare, Op.prodNeedsSquare, Op.rows, Op.cols, Op.dotSum]

/-! ## the skeleton is tied field by field -/

/-- **field by field**: for every dispatched function of the family and every structured kind, the rules
    of the live table written for the kind have exactly the structure of the hand-written `Op.kindRule`
    (what they touch of the operator, which dispatched functions they call, with which argument sources
    and classes), and so do the `LinearOperator` rules of `Op.baseRule`. -/
theorem C19_skeleton_shapes : ColaVerif.SkeletonTie.shapesAgree = true := by
  decide +kernel

/-- `Op.act` — the table behind `dens`, `hasRule`, `ruleCost`, `deepRule` — is DERIVED from
    `kindRule` / `baseRule` (`Op.actOf`), and wherever it is not `self` every function a rule hands the
    whole operator to is structural on that kind. -/
theorem C19_skeleton_derived : ColaVerif.SkeletonTie.skeletonDerived = true := by
  decide +kernel

end ColaVerif.Properties.C19

open ColaVerif.Structural in
#print axioms reach_selected
#print axioms ColaVerif.Properties.C19.C19_dispatch_inv
#print axioms ColaVerif.Properties.C19.C19_dispatch_slogdet
#print axioms ColaVerif.Properties.C19.C19_dispatch_diag
#print axioms ColaVerif.Properties.C19.C19_dispatch_trace
#print axioms ColaVerif.Properties.C19.C19_dispatch_apply_unary
#print axioms ColaVerif.Properties.C19.C19_dispatch_exp
#print axioms ColaVerif.Properties.C19.C19_dispatch_log
#print axioms ColaVerif.Properties.C19.C19_dispatch_pow
#print axioms ColaVerif.Properties.C19.C19_dispatch_sqrt
#print axioms ColaVerif.Properties.C19.C19_dispatch_isqrt
#print axioms ColaVerif.Properties.C19.C19_dispatch_cholesky
#print axioms ColaVerif.Properties.C19.C19_dispatch_plu
#print axioms ColaVerif.Properties.C19.C19_direct_inv
#print axioms ColaVerif.Properties.C19.C19_direct_slogdet
#print axioms ColaVerif.Properties.C19.C19_direct_diag
#print axioms ColaVerif.Properties.C19.C19_direct_trace
#print axioms ColaVerif.Properties.C19.C19_direct_apply_unary
#print axioms ColaVerif.Properties.C19.C19_direct_exp
#print axioms ColaVerif.Properties.C19.C19_direct_log
#print axioms ColaVerif.Properties.C19.C19_direct_pow
#print axioms ColaVerif.Properties.C19.C19_direct_sqrt
#print axioms ColaVerif.Properties.C19.C19_direct_isqrt
#print axioms ColaVerif.Properties.C19.C19_direct_cholesky
#print axioms ColaVerif.Properties.C19.C19_direct_plu
#print axioms ColaVerif.Properties.C19.C19_dispatch
#print axioms ColaVerif.Properties.C19.C19_never_generic
#print axioms ColaVerif.Properties.C19.C19_matmat_vol
#print axioms ColaVerif.Properties.C19.C19_matmat
#print axioms ColaVerif.Properties.C19.C19_matmat_rows_cols
#print axioms ColaVerif.Properties.C19.C19_matmat_square_sum
#print axioms ColaVerif.Properties.C19.C19_rules
#print axioms ColaVerif.Properties.C19.C19_rules_ne
#print axioms ColaVerif.Properties.C19.C19_rules_clause_needed
#print axioms ColaVerif.Properties.C19.C19_skeleton_matches_rules
#print axioms ColaVerif.Properties.C19.C19_matmat_peak_vol
#print axioms ColaVerif.Properties.C19.C19_matmat_peak
#print axioms ColaVerif.Properties.C19.C19_rule_cost
#print axioms ColaVerif.Properties.C19.C19_rule_cost_clause_needed
#print axioms ColaVerif.Properties.C19.C19_rule_cost_opaque_not_covered
#print axioms ColaVerif.Properties.C19.C19_rule_cost_structured_leaves
#print axioms ColaVerif.Properties.C19.C19_skeleton_shapes
#print axioms ColaVerif.Properties.C19.C19_skeleton_derived
