/-
  C19 — structured operators are never densified: cost stays proportional to the factors.

  Three levels, each tied to /repo on every run by harness/props/c19.py.

  **Dispatch level** (`C19_dispatch_<f>`, `C19_direct_<f>`, `C19_dispatch`, `C19_never_generic`).
  `Gen/StructuralRules.lean` is regenerated from the live dispatcher and from the SOURCE of the
  rules (AST): per function of the family (inv/solve, slogdet/logdet, diag, trace, apply_unary,
  exp, log, pow, sqrt, isqrt, cholesky, plu) the registered rules are classified as *structural*
  (written for a structured kind and touching the operator only through its factors),
  *forwarding* (hand the operator as a whole to another dispatched function) or *generic*.
  The lattice `cases_<f>` is every public call form on every structured kind (Kronecker, KronSum,
  BlockDiag, Diagonal, Identity, ScalarMul, Product, Sum) with the algorithm argument OMITTED and
  with every admitted algorithm class PRESENT, and every truth value of the registration
  conditions.  On every lattice element for which the function has a rule for the kind
  (`expects`: directly, or along every forwarding path), the model resolver
  (`Dispatch.resolve`, proved sound in Model/Dispatch.lean and tied to plum by C04) selects —
  through forwarding rules only — a structural rule (`reach`); in particular never a
  `LinearOperator` base rule (`C19_direct_<f>`).  Proofs: kernel evaluation on the generated table.

  **Cost level** (`C19_matmat_vol`, `C19_matmat`, `C19_matmat_square_sum`).
  `Op.allocs A b` (Model/Cost.lean) lists the sizes of all arrays `A @ X` allocates for an operand
  with `b` columns, by the recursion of `Op.mm` (the code model proved equal to `den A · X` in
  C01).  Every one of them is at most `vol A · b + leafStorage A`, where `vol A` is the LINEAR size
  of the operator (for square leaves: its dimension `n`) and `leafStorage A` the sum of the dense
  sizes of the leaves: there is no `n × n` term.  For non-square Kronecker factors the bound is
  `∏ max(rᵢ, cᵢ) · b` (that is what `vol` is on a Kronecker product).

  **Rule level** (`C19_rules`, `C19_rules_ne`, `C19_skeleton_matches_rules`).
  `Op.dens f A` (Model/RuleSkeleton.lean) lists the sub-operators that `f(A)` hands to a generic
  rule.  When `f` has a structural rule for the kind of `A` all of them are PROPER sub-terms of
  `A` (factors, factors of factors, …), never `A` itself.  The hand-written rule table `Op.act`
  agrees with the generated classification on every (function, structured kind).
-/
import ColaVerif.Lemmas.Cost
import ColaVerif.Lemmas.CostRules
import ColaVerif.Lemmas.SkeletonTie
import ColaVerif.Properties.C19.DispatchA
import ColaVerif.Properties.C19.DispatchB
import ColaVerif.Properties.C19.DispatchC

namespace ColaVerif.Properties.C19
open ColaVerif.Dispatch ColaVerif.Structural ColaVerif.Gen.RuleTable ColaVerif.Gen.StructuralRules

/-! ## dispatch level -/

/-- **C19 (dispatch)**: on every lattice element (function of the family × structured kind ×
    algorithm omitted / present × condition values) for which a structural rule exists, rule
    selection ends — through forwarding rules only — in a structural rule. -/
theorem C19_dispatch :
    ∀ p ∈ familyCases, ∀ c ∈ p.2, okCase hier structuredIds family fuel p.1 c.tup = true := by
  intro p hp
  simp only [familyCases, List.mem_cons, List.not_mem_nil, or_false] at hp
  rcases hp with rfl | rfl | rfl | rfl | rfl | rfl | rfl | rfl | rfl | rfl | rfl | rfl
  · exact C19_dispatch_inv
  · exact C19_dispatch_slogdet
  · exact C19_dispatch_diag
  · exact C19_dispatch_trace
  · exact C19_dispatch_apply_unary
  · exact C19_dispatch_exp
  · exact C19_dispatch_log
  · exact C19_dispatch_pow
  · exact C19_dispatch_sqrt
  · exact C19_dispatch_isqrt
  · exact C19_dispatch_cholesky
  · exact C19_dispatch_plu

/-- … spelled out: an expected call never raises a lookup error and never selects a generic rule;
    the selected rule is structural or forwards the operator to the next dispatched function
    (for which the same holds, `reach`). -/
theorem C19_never_generic :
    ∀ p ∈ familyCases, ∀ c ∈ p.2, expects hier structuredIds family fuel p.1 c.tup = true →
      ∃ e i, lookup family p.1 = some e ∧ resolve hier e.table c.tup = .unique i ∧
        (i ∈ e.structural ∨ ∃ fw ∈ e.fwds, fw.sig = i) := by
  intro p hp c hc hex
  have h := C19_dispatch p hp c hc
  simp only [okCase, hex, Bool.not_true, Bool.false_or] at h
  exact reach_selected (fuel := 5) h

/-- the lattice is not vacuous: e.g. `exp(KronSum)` without an algorithm argument is expected -/
example : expects hier structuredIds family fuel "exp" ⟨[10], 0⟩ = true := by decide +kernel

/-! ## cost level -/

open Op in
/-- **C19 (A @ X, any shapes)**: every array allocated by `A._matmat(X)`, `X` with `b` columns,
    has at most `vol A · b + leafStorage A` entries (`vol` = linear size: product of
    `max(rows, cols)` over Kronecker factors, multiplicity-weighted sum over blocks, maximum over
    the members of sums and products). -/
theorem C19_matmat_vol {R : Type} (A : Op R) (hs : A.inScope = true) (hwf : A.wf = true) (b : Nat) :
    ∀ s ∈ A.allocs b, s ≤ A.vol * b + A.leafStorage :=
  fun s h => (Op.costOK A hs hwf).2.2 b s h

open Op in
/-- **C19 (A @ X, square leaves)**: with square leaf matrices the operator is `n × n` with
    `n = rows A` and every allocation has at most `n · b + leafStorage A` entries: the operand
    size plus the dense sizes of the factors — never `n · n`. -/
theorem C19_matmat {R : Type} (A : Op R) (hs : A.inScope = true) (hwf : A.wf = true)
    (hq : A.squareLeaves = true) (b : Nat) :
    ∀ s ∈ A.allocs b, s ≤ A.rows * b + A.leafStorage := by
  intro s h
  have := C19_matmat_vol A hs hwf b s h
  rw [(Op.square_vol A hs hwf hq).2] at this
  exact this

open Op in
/-- the form asked for in the statement: `s ≤ c · (rows A + cols A) · b + leafStorage A`, `c = 1` -/
theorem C19_matmat_rows_cols {R : Type} (A : Op R) (hs : A.inScope = true) (hwf : A.wf = true)
    (hq : A.squareLeaves = true) (b : Nat) :
    ∀ s ∈ A.allocs b, s ≤ 1 * (A.rows + A.cols) * b + A.leafStorage := by
  intro s h
  have h1 := C19_matmat A hs hwf hq b s h
  have h2 : A.rows * b ≤ 1 * (A.rows + A.cols) * b := by
    rw [Nat.one_mul]; exact Nat.mul_le_mul_right b (Nat.le_add_right _ _)
  omega

open Op in
/-- total allocation: at most (number of allocations) × the bound; the number of allocations
    does not depend on the dimension (it is `(allocs A b).length`, a function of the tree shape) -/
theorem C19_matmat_square_sum {R : Type} (A : Op R) (hs : A.inScope = true) (hwf : A.wf = true)
    (hq : A.squareLeaves = true) (b : Nat) :
    (A.allocs b).sum ≤ (A.allocs b).length * (A.rows * b + A.leafStorage) := by
  have h := C19_matmat A hs hwf hq b
  generalize A.allocs b = l at h
  induction l with
  | nil => simp
  | cons x xs ih =>
    simp only [List.sum_cons, List.length_cons]
    have hx := h x (by simp)
    have hxs := ih (fun s hs => h s (by simp [hs]))
    have : (xs.length + 1) * (A.rows * b + A.leafStorage)
        = xs.length * (A.rows * b + A.leafStorage) + (A.rows * b + A.leafStorage) := by ring
    omega

open Op in
/-- the hypotheses are satisfiable and the bound is sharp up to the leaf term: for the Kronecker
    product of two dense 2 × 2 factors and b = 3 the allocations are 12 = n·b and 4 = one factor. -/
example : (kron [dense .f64 2 2 (fun _ _ => (1 : Int)), dense .f64 2 2 (fun _ _ => 1)]).allocs 3
    = [12, 4, 12, 12, 12, 4, 12, 12, 12] := by
  simp [Op.allocs, Op.kronCost, Op.kronCostLoop, Op.rows, Op.cols]

/-! ## rule level -/

open Op in
/-- **C19 (rules)**: when `f` has a structural rule for the kind of `A`, every operator that
    `f(A)` hands to a generic rule (dense fallback or iterative algorithm) is a PROPER sub-term of
    `A` — a factor, a factor of a factor, … — never the composite. -/
theorem C19_rules {R : Type} (f : Fn) (A : Op R) (h : hasRule f A = true) :
    ∀ D ∈ dens f A, D ∈ A.subterms :=
  fun D hD => Op.dens_proper A f h D hD

open Op in
theorem C19_rules_ne {R : Type} (f : Fn) (A : Op R) (h : hasRule f A = true) :
    ∀ D ∈ dens f A, sizeOf D < sizeOf A :=
  fun D hD => Op.subterms_sizeOf A D (C19_rules f A h D hD)

open Op in
/-- without a structural rule the composite itself reaches a generic rule (the hypothesis of
    `C19_rules` is needed): `inv(KronSum(…))` -/
theorem C19_rules_clause_needed :
    dens Fn.inv (kronsum [eye .f64 2, eye .f64 2] : Op Int) = [kronsum [eye .f64 2, eye .f64 2]] := by
  simp [Op.dens, Op.act]

/-- the hand-written rule table agrees with the generated classification of the live rules -/
theorem C19_skeleton_matches_rules : ColaVerif.SkeletonTie.skeletonAgrees = true := by
  decide +kernel

end ColaVerif.Properties.C19

open ColaVerif.Structural in
#print axioms reach_selected
#print axioms ColaVerif.Properties.C19.C19_dispatch_inv
#print axioms ColaVerif.Properties.C19.C19_dispatch_slogdet
#print axioms ColaVerif.Properties.C19.C19_dispatch_diag
#print axioms ColaVerif.Properties.C19.C19_dispatch_trace
#print axioms ColaVerif.Properties.C19.C19_dispatch_apply_unary
#print axioms ColaVerif.Properties.C19.C19_dispatch_exp
#print axioms ColaVerif.Properties.C19.C19_dispatch_log
#print axioms ColaVerif.Properties.C19.C19_dispatch_pow
#print axioms ColaVerif.Properties.C19.C19_dispatch_sqrt
#print axioms ColaVerif.Properties.C19.C19_dispatch_isqrt
#print axioms ColaVerif.Properties.C19.C19_dispatch_cholesky
#print axioms ColaVerif.Properties.C19.C19_dispatch_plu
#print axioms ColaVerif.Properties.C19.C19_direct_inv
#print axioms ColaVerif.Properties.C19.C19_direct_slogdet
#print axioms ColaVerif.Properties.C19.C19_direct_diag
#print axioms ColaVerif.Properties.C19.C19_direct_trace
#print axioms ColaVerif.Properties.C19.C19_direct_apply_unary
#print axioms ColaVerif.Properties.C19.C19_direct_exp
#print axioms ColaVerif.Properties.C19.C19_direct_log
#print axioms ColaVerif.Properties.C19.C19_direct_pow
#print axioms ColaVerif.Properties.C19.C19_direct_sqrt
#print axioms ColaVerif.Properties.C19.C19_direct_isqrt
#print axioms ColaVerif.Properties.C19.C19_direct_cholesky
#print axioms ColaVerif.Properties.C19.C19_direct_plu
#print axioms ColaVerif.Properties.C19.C19_dispatch
#print axioms ColaVerif.Properties.C19.C19_never_generic
#print axioms ColaVerif.Properties.C19.C19_matmat_vol
#print axioms ColaVerif.Properties.C19.C19_matmat
#print axioms ColaVerif.Properties.C19.C19_matmat_rows_cols
#print axioms ColaVerif.Properties.C19.C19_matmat_square_sum
#print axioms ColaVerif.Properties.C19.C19_rules
#print axioms ColaVerif.Properties.C19.C19_rules_ne
#print axioms ColaVerif.Properties.C19.C19_rules_clause_needed
#print axioms ColaVerif.Properties.C19.C19_skeleton_matches_rules
