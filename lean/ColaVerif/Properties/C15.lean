import ColaVerif.Lemmas.ArnoldiWitness
import ColaVerif.Lemmas.Hess3Eigs
import ColaVerif.Lemmas.ArnoldiInputs3

/-!
# C15 — Arnoldi returns an orthonormal Krylov basis satisfying the Arnoldi relation

FULL STATEMENT (property text): for every square operator `A` and start vector `v`, `arnoldi` run
for `m ≤ n` steps returns `Q` with `m+1` orthonormal columns (first column `v/‖v‖`) and an
`(m+1) × m` upper Hessenberg `H` with non-negative sub-diagonal such that `A Q[:, :m] = Q H`;
asking for more than `n` steps gives the same factorisation as `n` steps (extra rows and columns
are zero and do not contribute spurious eigenvalues), and `arnoldi_eigs` with at least `n` steps
returns the spectrum of `A`.  Quantifier: all square operators, all start vectors incl. ones in a
low-dimensional invariant subspace (breakdown), batched start vectors, all `max_iters` from 1 to
beyond `n`, all tolerances.

Formal reading (`Arnoldi.ArnoldiSpec`, Lemmas/ArnoldiSpec.lean), `s` = executed steps
(`info['iterations'] - 1`), `M = max_iters`: shapes `n × (M+1)`, `(M+1) × M`; first column;
Hessenberg; real non-negative sub-diagonal; Arnoldi relation for every executed step;
`r + 1` orthonormal columns where `r ≤ s` is the number of steps before the first exact breakdown
(`r = s` if none) and every later column zero; zero padding beyond `s`.

What is TRUE OF THE CODE MODEL (`Arnoldi.run`, exact arithmetic) and proved here:
* `C15_model_invariant` — unconditional: cap `min max_iters n`, `iterations = steps + 1`, batch
  decoupling, and `Arnoldi.Inv` (shapes, first column, Hessenberg, non-negative sub-diagonal, zero
  padding, and the relation *with the clip factor* `max β (tol/2)` the code divides by);
* `C15_partial` — the formal reading, under the named clause `noClip`;
* `C15_full_relation_partial` — `A Q[:, :M] = Q H` on the whole buffers, under `noClip` and
  `stopExact`;
* `C15_dimension_cap` — (c): after `n = dim` steps the `(n+1)`-th column of `Q` is zero, so
  "m+1 orthonormal columns" can only mean `min(m+1, n)` for `m = n`;
* `C15_padding` — `max_iters ≥ n` gives the entries of the `max_iters = n` run, rest zero;
* `C15_stopping` — the loop stops at the cap or when all start vectors converged, not before;
* `C15_eigs_partial` — every eigenpair of the matrix handed to `xnp.eig` (the leading block of the
  executed steps: `trimPaddingInEigs = true` mirrors /repo since the repair of defect (a)) lifts to an
  eigenpair of `A`, under `noClip`, `stopExact`;
* `…_clause_needed` — each clause excludes a genuine deviation of the code from the full
  statement, exhibited on a concrete input (known findings `noClip`, `stopExact`);
* `C15_untrimmed_eigs_spurious_zero` — regression lemma for the former defect (a).

* `C15_eigs_complete` — at `steps = n = dim E` every eigenvalue of `A` is an eigenvalue of that
  matrix (spectra agree as sets; multiplicities are not treated).
NOT proved (checked by the correspondence stream only): algebraic multiplicities of the returned
eigenvalues, `info['errors']`, floating-point orthogonality.

ROUND 2 (second half of this file; nothing above was changed):
* `C15_krylov_span` — `span{q₀…q_{j-1}} = K_j(A, v)` (`Arnoldi.krylov`) while the steps are unclipped: the columns ARE a
  Krylov basis;
* `C15_subdiag_eq_krylovDist`, `C15_noClip_iff_input`, `C15_partial_input`, `C15_runs_to_cap_input`,
  `C15_full_relation_input` — the clauses
  `noClip` / `stopExact`, formerly conditions on the returned buffers, as conditions on the INPUTS `A`, `v`, `tol` through
  `d_j = dist(A^j v, K_j(A, v))` (`H[j+1, j] = d_{j+1} / d_j`);
* `C15_eigs_complete_run` / `_input` — completeness at full dimension about the ACTUAL run (`runE … .idx`);
* `C15_arnoldiEigs_sound`, `C15_arnoldiEigs_spectrum` — about the actual output of the model's `arnoldi_eigs`
  (`Arnoldi.arnoldiEigs`, now also executed by the driver), `xnp.eig` under the contract `EigPairs` / `EigComplete`;
* `C15_hess3_witness` (3 × 3 non-symmetric system, all hypothesis bundles incl. the contract of `eig` hold, spectrum
  `{1, 1 ± √5}` returned), `C15_noClipInput_counter_witness`.
ROUND 3 (ranges corrected; old names are corollaries):
* `C15_runs_to_cap_of_inputs`, `C15_eigs_complete_of_inputs` — the growth condition on the Krylov distances is asked
  only BEFORE the last step (`i + 1 < cap`); the round-2 statements `C15_runs_to_cap_input` (satisfiable only for
  `cap <` grade) and `C15_eigs_complete_input` (unsatisfiable: `C15_wide_range_unsatisfiable`) follow from them;
* `C15_hess3_inputs_witness`, `C15_hess3_eigs_complete_witness` — both corrected bundles hold on the 3 × 3 system
  (`d = 1, 2, 6, 0`), and the FULL conclusion (run to 3, non-vanishing coordinate vector, eigen-equation) is exhibited
  for the eigenpair `(1, e₀ − 2 e₂)`.
ROUND 4: `C15_eigs_complete_input` is DEPRECATED (vacuous: `C15_wide_range_unsatisfiable`); its declaration is kept but
it is no longer in the audited `#print axioms` list of this gate (a theorem no input satisfies is no evidence).
CONTRACT that remains: `xnp.eig` (LAPACK `geev`) via `EigPairs` / `EigComplete` on the one matrix it is given —
eigenvalues over the scalar field of the model only (a real run sees the real eigenvalues).
-/

open scoped InnerProductSpace
open Finset Arnoldi

variable {𝕜 E : Type} [RCLike 𝕜] [NormedAddCommGroup E] [InnerProductSpace 𝕜 E]

/-- unconditional facts about the code model (any tolerance `> 0`, any batch of non-zero start
vectors, any `max_iters`, any `n`) -/
theorem C15_model_invariant (A : E →ₗ[𝕜] E) (n M : Nat) (tol : ℝ) (tolPos : 0 < tol)
    (vs : List E) (startNonzero : ∀ v ∈ vs, v ≠ 0) :
    (runE A n M tol vs).idx ≤ min M n ∧
    (runE A n M tol vs).evals = (runE A n M tol vs).idx + 1 ∧
    (runE A n M tol vs).cols = vs.map (fun v => colAt A M tol v (runE A n M tol vs).idx) ∧
    ∀ v ∈ vs, Inv A M v tol (runE A n M tol vs).idx (colAt A M tol v (runE A n M tol vs).idx) := by
  obtain ⟨h1, h2, h3, h4⟩ := run_spec_exact A n M tol tolPos vs startNonzero
  exact ⟨h1, h2, h3, fun v hv => (h4 v hv).1⟩

/-- **C15 (partial)**: the formal reading of the property for every start vector of the batch.
Clause `noClip`: the absolute clip `clip(norm, tol/2)` never altered a non-zero norm. -/
theorem C15_partial (A : E →ₗ[𝕜] E) (n M : Nat) (tol : ℝ) (tolPos : 0 < tol)
    (vs : List E) (startNonzero : ∀ v ∈ vs, v ≠ 0)
    (noClip : ∀ v ∈ vs, NoClip tol (runE A n M tol vs).idx (colAt A M tol v (runE A n M tol vs).idx)) :
    ∀ v ∈ vs, ArnoldiSpec A M v (runE A n M tol vs).idx (colAt A M tol v (runE A n M tol vs).idx) := by
  obtain ⟨_, _, _, h4⟩ := run_spec_exact A n M tol tolPos vs startNonzero
  exact fun v hv => (h4 v hv).2 (noClip v hv)

/-- the hypotheses of `C15_partial` are satisfiable non-trivially (rotation of the plane, two
steps, `β₀ = 1`, `β₁ = 0`) -/
example : ∀ v ∈ [(1 : ℂ)], NoClip (1 / 10) (runE (rot 1) 2 2 (1 / 10) [(1 : ℂ)]).idx
    (colAt (rot 1) 2 (1 / 10) v (runE (rot 1) 2 2 (1 / 10) [(1 : ℂ)]).idx) := by
  intro v hv
  rw [List.mem_singleton] at hv
  subst hv
  have hle := (run_spec (⇑(rot 1)) 2 2 (RCLike.ofReal (1 / 10 : ℝ) : ℝ) [(1 : ℂ)]).2.1
  exact noClip_rot (1 / 10) (by norm_num) (by norm_num) _ (le_trans hle (by norm_num))

/-- clause `noClip` is needed: `A = ¼·[[0,-1],[1,0]]`, `v = e₁`, `tol = 1`: `0 < β₀ = ¼ < tol/2`, the
code divides by `tol/2` instead of `β₀`, and `A q₀ ≠ H[0,0] q₀ + H[1,0] q₁` -/
theorem C15_noClip_clause_needed :
    0 < (runE (rot (1 / 4)) 2 2 1 [(1 : ℂ)]).idx ∧
    (rot (1 / 4)) ((colAt (rot (1 / 4)) 2 1 (1 : ℂ) (runE (rot (1 / 4)) 2 2 1 [(1 : ℂ)]).idx).q 0) ≠
      ∑ l ∈ range 2, (colAt (rot (1 / 4)) 2 1 (1 : ℂ) (runE (rot (1 / 4)) 2 2 1 [(1 : ℂ)]).idx).h l 0 •
        (colAt (rot (1 / 4)) 2 1 (1 : ℂ) (runE (rot (1 / 4)) 2 2 1 [(1 : ℂ)]).idx).q l :=
  noClip_witness

/-- **full-buffer relation** `A Q[:, :max_iters] = Q H`.  Clause `stopExact`: the loop ran to the
requested cap, or the column after the last executed step is zero (exact breakdown). -/
theorem C15_full_relation_partial (A : E →ₗ[𝕜] E) (n M : Nat) (tol : ℝ) (tolPos : 0 < tol)
    (vs : List E) (startNonzero : ∀ v ∈ vs, v ≠ 0) (v : E) (hv : v ∈ vs)
    (noClip : NoClip tol (runE A n M tol vs).idx (colAt A M tol v (runE A n M tol vs).idx))
    (stopExact : (runE A n M tol vs).idx = M ∨
      (colAt A M tol v (runE A n M tol vs).idx).q (runE A n M tol vs).idx = 0) :
    ∀ i, i < M → A ((colAt A M tol v (runE A n M tol vs).idx).q i) =
      ∑ l ∈ range (M + 1), (colAt A M tol v (runE A n M tol vs).idx).h l i •
        (colAt A M tol v (runE A n M tol vs).idx).q l := by
  obtain ⟨h1, _, _, h4⟩ := run_spec_exact A n M tol tolPos vs startNonzero
  exact (h4 v hv).1.full_relation tolPos (le_trans h1 (min_le_left _ _)) noClip stopExact

/-- the hypotheses of `C15_full_relation_partial` are satisfiable non-trivially: `tol = 1/10`,
rotation of the plane, `max_iters = 2`: two steps, `q₂ = 0` -/
example : NoClip (1 / 10) 2 (colAt (rot 1) 2 (1 / 10) (1 : ℂ) 2) ∧
    (colAt (rot 1) 2 (1 / 10) (1 : ℂ) 2).q 2 = 0 := by
  refine ⟨noClip_rot (1 / 10) (by norm_num) (by norm_num) 2 (le_refl _), ?_⟩
  have hinv := inv_colAfter (rot 1) 2 (1 : ℂ) (1 / 10) one_ne_zero (by norm_num) 2 (le_refl _)
  exact (hinv.cap_column_zero (n := 2) Complex.finrank_real_complex (by norm_num)
    (fun i hi => by
      have := noClip_rot (1 / 10) (by norm_num) (by norm_num) 2 (le_refl _) i (by omega)
      rcases this with h | h
      · have hi0 : i = 0 := by omega
        subst hi0
        have h1 := noClip_rot (1 / 10) (by norm_num) (by norm_num) 1 (by norm_num) 0 (by omega)
        obtain ⟨_, f2⟩ := colAfter_frozen (A := rot 1) (M := 2) (v := (1 : ℂ)) (tol := 1 / 10)
          (by norm_num) one_ne_zero 1 2 (by norm_num) (le_refl _)
        have hb : (colAt (rot 1) 2 (1 / 10) (1 : ℂ) 2).beta 0 = 1 := by
          unfold Col.beta
          rw [f2 0 (by omega) 1]
          exact beta0_rot 1 (by norm_num) 2 (by norm_num) (1 / 10)
        rw [hb]; norm_num
      · exact h)).1

/-- clause `stopExact` is needed: `A = [[0,-1],[1,0]]`, `v = e₁`, `tol = 1`, `max_iters = 2`: the
loop stops after one step (`norm > tol·H[1,0]` fails) with `β₀ = 1`, no clip; `Q[:,1] = e₂` is a unit
vector but `H[:,1] = 0`, so column 1 of `A Q[:, :2] = Q H` fails -/
theorem C15_stopExact_clause_needed :
    (runE (rot 1) 2 2 1 [(1 : ℂ)]).idx = 1 ∧
    NoClip 1 1 (colAt (rot 1) 2 1 (1 : ℂ) 1) ∧
    (rot 1) ((colAt (rot 1) 2 1 (1 : ℂ) 1).q 1) ≠
      ∑ l ∈ range (2 + 1), (colAt (rot 1) 2 1 (1 : ℂ) 1).h l 1 • (colAt (rot 1) 2 1 (1 : ℂ) 1).q l :=
  stopExact_witness

/-- **(c)**: in an `n`-dimensional space, after `n` steps without clipping the `(n+1)`-th column
of `Q` is zero and `H[n, n-1] = 0`: at `m = n` only `n` columns can be orthonormal -/
theorem C15_dimension_cap [FiniteDimensional 𝕜 E] (A : E →ₗ[𝕜] E) (n M : Nat) (tol : ℝ)
    (tolPos : 0 < tol) (v : E) (startNonzero : v ≠ 0) (dimE : Module.finrank 𝕜 E = n)
    (hn : 0 < n) (hnM : n ≤ M)
    (noClip : ∀ i, i + 1 < n → tol / 2 ≤ (colAt A M tol v n).beta i) :
    (colAt A M tol v n).q n = 0 ∧ (colAt A M tol v n).beta (n - 1) = 0 :=
  (inv_colAfter A M v tol startNonzero tolPos n hnM).cap_column_zero dimE hn noClip

/-- **padding**: `max_iters = M ≥ n` takes the same number of steps as `max_iters = n` and
computes the same entries; everything outside the `n`-step buffers is zero (by
`C15_model_invariant`: `Inv.qZero`, `Inv.hZeroCol`) -/
theorem C15_padding (A : E →ₗ[𝕜] E) (n M : Nat) (tol : ℝ) (tolPos : 0 < tol) (hM : n ≤ M)
    (vs : List E) (startNonzero : ∀ v ∈ vs, v ≠ 0) :
    (runE A n M tol vs).idx = (runE A n n tol vs).idx ∧
    ∀ v ∈ vs, SameView (colAt A M tol v (runE A n M tol vs).idx)
      (colAt A n tol v (runE A n n tol vs).idx) :=
  run_padding A tol tolPos n M hM vs startNonzero

/-- the loop stops only at the cap `min max_iters n` or when every start vector has
`norm ≤ tol · H[1,0]` — and not before -/
theorem C15_stopping (A : E →ₗ[𝕜] E) (n M : Nat) (tol : ℝ) (vs : List E) :
    ((runE A n M tol vs).idx = min M n ∨
      ∀ c ∈ (runE A n M tol vs).cols,
        RCLike.re c.norm ≤ tol * RCLike.re (c.h 1 0) ∧ (runE A n M tol vs).idx ≠ 0) ∧
    ∀ k, k < (runE A n M tol vs).idx → k = 0 ∨ ∃ v ∈ vs,
      tol * RCLike.re ((colAt A M tol v k).h 1 0) < RCLike.re (colAt A M tol v k).norm :=
  run_stop_exact A n M tol vs

/-- **`arnoldi_eigs` (partial)**: every eigenpair `(μ, y)` of the matrix handed to `xnp.eig`
gives the eigenpair `(μ, Q y)` of `A` — no spurious eigenvalues (the matrix is the leading block of
the executed steps since the repair of defect (a)).
Clauses: `noClip`, `stopExact` (exact breakdown in the last step; automatic at `steps = dim E` by
`C15_dimension_cap`). -/
theorem C15_eigs_partial (A : E →ₗ[𝕜] E) (n M : Nat) (tol : ℝ) (tolPos : 0 < tol)
    (v : E) (startNonzero : v ≠ 0)
    (noClip : ∀ i, i + 1 < (runE A n M tol [v]).idx →
      tol / 2 ≤ (colAt A M tol v (runE A n M tol [v]).idx).beta i)
    (stopExact : 0 < (runE A n M tol [v]).idx ∧
      (colAt A M tol v (runE A n M tol [v]).idx).beta ((runE A n M tol [v]).idx - 1) = 0)
    (μ : 𝕜) (y : Nat → 𝕜) (hy : ∃ a, a < (runE A n M tol [v]).idx ∧ y a ≠ 0)
    (heig : ∀ l, l < (runE A n M tol [v]).idx → ∑ i ∈ range (runE A n M tol [v]).idx,
      ((eigsMatrix trimPaddingInEigs M (runE A n M tol [v]).idx
        (colAt A M tol v (runE A n M tol [v]).idx)).getD l #[]).getD i 0 * y i = μ * y l) :
    A (∑ i ∈ range (runE A n M tol [v]).idx, y i • (colAt A M tol v (runE A n M tol [v]).idx).q i) =
      μ • ∑ i ∈ range (runE A n M tol [v]).idx, y i • (colAt A M tol v (runE A n M tol [v]).idx).q i ∧
    (∑ i ∈ range (runE A n M tol [v]).idx, y i • (colAt A M tol v (runE A n M tol [v]).idx).q i) ≠ 0 := by
  obtain ⟨h1, _, _, h4⟩ := run_spec_exact A n M tol tolPos [v] (by simpa using startNonzero)
  have hinv := (h4 v List.mem_cons_self).1
  generalize (runE A n M tol [v]).idx = s at *
  have hnc : NoClip tol s (colAt A M tol v s) := by
    intro i hi
    by_cases h : i + 1 < s
    · right; exact noClip i h
    · left
      have : i = s - 1 := by omega
      rw [this]; exact stopExact.2
  apply ritz_pair (A := A) (colAt A M tol v s).q (colAt A M tol v s).h s
    (hinv.orth noClip).1
    (fun i hi => hinv.invariant_relation tolPos hnc s stopExact.1 (le_refl _) stopExact.2 i hi)
    μ y hy
  intro l hl
  rw [← heig l hl]
  apply sum_congr rfl
  intro i hi
  rw [eigsMatrix_get trimPaddingInEigs s _ l i (show l < s from hl)
    (show i < s from mem_range.mp hi)]

/-- **`arnoldi_eigs` at full dimension is complete**: when the loop ran `n = dim E` steps (no
clipping), every eigenpair `(μ, x)` of `A` gives the eigenpair `(μ, Qᴴ x)` of the matrix handed to
`xnp.eig` — together with `C15_eigs_partial`: the eigenvalues of that matrix are exactly the
eigenvalues of `A` (as a set). -/
theorem C15_eigs_complete [FiniteDimensional 𝕜 E] (A : E →ₗ[𝕜] E) (n M : Nat)
    (tol : ℝ) (tolPos : 0 < tol) (v : E) (startNonzero : v ≠ 0)
    (dimE : Module.finrank 𝕜 E = n) (hn : 0 < n) (hnM : n ≤ M)
    (noClip : ∀ i, i + 1 < n → tol / 2 ≤ (colAt A M tol v n).beta i)
    (μ : 𝕜) (x : E) (hx : x ≠ 0) (heig : A x = μ • x) :
    (∃ a, a < n ∧ ⟪(colAt A M tol v n).q a, x⟫_𝕜 ≠ 0) ∧
    ∀ l, l < n → ∑ i ∈ range n,
      ((eigsMatrix trimPaddingInEigs M n (colAt A M tol v n)).getD l #[]).getD i 0 * ⟪(colAt A M tol v n).q i, x⟫_𝕜 =
        μ * ⟪(colAt A M tol v n).q l, x⟫_𝕜 := by
  have hinv := inv_colAfter A M v tol startNonzero tolPos n hnM
  have hcap := hinv.cap_column_zero dimE hn noClip
  have hnc : NoClip tol n (colAt A M tol v n) := by
    intro i hi
    by_cases h : i + 1 < n
    · right; exact noClip i h
    · left
      have : i = n - 1 := by omega
      rw [this]; exact hcap.2
  obtain ⟨h1, h2⟩ := ritz_complete (A := A) n hn dimE (colAt A M tol v n).q (colAt A M tol v n).h
    (hinv.orth noClip).1
    (fun i hi => hinv.invariant_relation tolPos hnc n hn (le_refl _) hcap.2 i hi) μ x hx heig
  refine ⟨h1, fun l hl => ?_⟩
  rw [← h2 l hl]
  apply sum_congr rfl
  intro i hi
  rw [eigsMatrix_get trimPaddingInEigs n _ l i (show l < n from hl)
    (show i < n from mem_range.mp hi)]

/-- the matrix handed to `eig` has as many rows as steps were executed (the code as it is) -/
example (M s : Nat) : eigsSize trimPaddingInEigs M s = s := rfl

/-- regression lemma for the former defect (a): the *untrimmed* variant (`trim = false`, /repo before
commit 0459ce4) on `n = 1`, `A = [1]`, `v = [1]`, `max_iters = 2` hands a `2 × 2` matrix to `eig` that
has the eigenvalue `0`, which the invertible `A` has not -/
theorem C15_untrimmed_eigs_spurious_zero :
    (∃ y : Nat → ℝ, (∃ a, a < 2 ∧ y a ≠ 0) ∧ ∀ l, l < 2 →
      ∑ i ∈ range 2,
        ((eigsMatrix false 2 (runE (LinearMap.id : ℝ →ₗ[ℝ] ℝ) 1 2 (1 / 10) [(1 : ℝ)]).idx
          (colAt (LinearMap.id : ℝ →ₗ[ℝ] ℝ) 2 (1 / 10) (1 : ℝ)
            (runE (LinearMap.id : ℝ →ₗ[ℝ] ℝ) 1 2 (1 / 10) [(1 : ℝ)]).idx)).getD l #[]).getD i 0
          * y i = 0 * y l) ∧
    ∀ x : ℝ, (LinearMap.id : ℝ →ₗ[ℝ] ℝ) x = (0 : ℝ) • x → x = 0 :=
  noPaddingEigs_witness

#print axioms C15_model_invariant
#print axioms C15_partial
#print axioms C15_noClip_clause_needed
#print axioms C15_full_relation_partial
#print axioms C15_stopExact_clause_needed
#print axioms C15_dimension_cap
#print axioms C15_padding
#print axioms C15_stopping
#print axioms C15_eigs_partial
#print axioms C15_eigs_complete
#print axioms C15_untrimmed_eigs_spurious_zero

/-! ## Round 2: Krylov spaces, the clauses as conditions on the inputs, `arnoldi_eigs` on the actual run -/

/-- **"orthonormal Krylov basis"**: for every start vector of the batch, while the first `r` steps were not clipped,
`span{q₀ … q_{j-1}} = K_j(A, v) = span{v, A v, …, A^{j-1} v}` for every `j ≤ r + 1` -/
theorem C15_krylov_span (A : E →ₗ[𝕜] E) (n M : Nat) (tol : ℝ) (tolPos : 0 < tol)
    (vs : List E) (startNonzero : ∀ v ∈ vs, v ≠ 0) (v : E) (hv : v ∈ vs) (r : Nat)
    (hr : r ≤ (runE A n M tol vs).idx)
    (unclipped : ∀ i, i < r → tol / 2 ≤ (colAt A M tol v (runE A n M tol vs).idx).beta i) :
    ∀ j, j ≤ r + 1 → qspan (𝕜 := 𝕜) (colAt A M tol v (runE A n M tol vs).idx).q j = krylov A v j := by
  have hsM : (runE A n M tol vs).idx ≤ M :=
    le_trans (run_spec (⇑A) n M ((tol : ℝ) : 𝕜) vs).2.1 (min_le_left _ _)
  exact colAt_qspan_eq_krylov A M tol v tolPos (startNonzero v hv) r _ hr hsM unclipped

/-- **the sub-diagonal of `H` is a function of the inputs**: with `d_j = dist(A^j v, K_j(A, v))` and steps
`0..J-1` unclipped, `d_{J+1} = d_J · H[J+1, J]` -/
theorem C15_subdiag_eq_krylovDist (A : E →ₗ[𝕜] E) (M : Nat) (tol : ℝ) (tolPos : 0 < tol) (v : E)
    (startNonzero : v ≠ 0) (J : Nat) (hJ : J + 1 ≤ M)
    (unclipped : ∀ i, i < J → tol / 2 ≤ (colAt A M tol v (J + 1)).beta i) :
    krylovDist A v (J + 1) = krylovDist A v J * (colAt A M tol v (J + 1)).beta J :=
  krylovDist_succ A M tol v tolPos startNonzero J hJ unclipped

/-- **clause `noClip` is equivalent to a condition on the inputs** `A`, `v`, `tol` (`Arnoldi.NoClipInput`: the
Krylov distances grow by at least `tol/2` per step until the space is exhausted) -/
theorem C15_noClip_iff_input (A : E →ₗ[𝕜] E) (M : Nat) (tol : ℝ) (tolPos : 0 < tol) (v : E)
    (startNonzero : v ≠ 0) (s : Nat) (hs : s ≤ M) :
    NoClip tol s (colAt A M tol v s) ↔ NoClipInput A v tol s :=
  ⟨input_of_noClip A M tol v tolPos startNonzero s hs, noClip_of_input A M tol v tolPos startNonzero s hs⟩

/-- **C15 with the clause on the inputs** -/
theorem C15_partial_input (A : E →ₗ[𝕜] E) (n M : Nat) (tol : ℝ) (tolPos : 0 < tol)
    (vs : List E) (startNonzero : ∀ v ∈ vs, v ≠ 0)
    (noClipInput : ∀ v ∈ vs, NoClipInput A v tol (runE A n M tol vs).idx) :
    ∀ v ∈ vs, ArnoldiSpec A M v (runE A n M tol vs).idx (colAt A M tol v (runE A n M tol vs).idx) := by
  have hsM : (runE A n M tol vs).idx ≤ M :=
    le_trans (run_spec (⇑A) n M ((tol : ℝ) : 𝕜) vs).2.1 (min_le_left _ _)
  exact C15_partial A n M tol tolPos vs startNonzero
    (fun v hv => noClip_of_input A M tol v tolPos (startNonzero v hv) _ hsM (noClipInput v hv))

/-- **clause `stopExact` from the inputs, correct range (round 3)**: a single start vector runs to the cap
`min max_iters n` (so for `max_iters ≤ n` the first alternative of `stopExact` holds) when the Krylov distances
`d_j = dist(A^j v, K_j(A, v))` do not clip before the LAST step (`i + 1 < cap`; nothing is asked of the last step,
which at `cap = dim E` is necessarily an exact breakdown) and never trigger the relative stopping test.
Witness at full dimension: `C15_hess3_inputs_witness`. -/
theorem C15_runs_to_cap_of_inputs (A : E →ₗ[𝕜] E) (n M : Nat) (tol : ℝ) (tolPos : 0 < tol) (v : E)
    (startNonzero : v ≠ 0)
    (noClipBeforeLast : ∀ i, i + 1 < min M n → tol / 2 * krylovDist A v i ≤ krylovDist A v (i + 1))
    (noEarlyStopInput : ∀ k, 1 ≤ k → k < min M n →
      tol * krylovDist A v 1 * krylovDist A v (k - 1) < krylovDist A v k * krylovDist A v 0) :
    (runE A n M tol [v]).idx = min M n :=
  run_idx_eq_cap_of_input_lt A M tol v n tolPos startNonzero noClipBeforeLast noEarlyStopInput

/-- round-2 statement, kept as a COROLLARY of `C15_runs_to_cap_of_inputs`: its `noClipInput` ranges over `i < cap`,
one index more than needed.  It is satisfiable only when `cap <` grade of `v` (e.g. `Hess3`, `max_iters = 2`:
`C15_hess3_inputs_witness`, last conjunct); at `cap = dim E` no input satisfies it (`C15_wide_range_unsatisfiable`). -/
theorem C15_runs_to_cap_input (A : E →ₗ[𝕜] E) (n M : Nat) (tol : ℝ) (tolPos : 0 < tol) (v : E)
    (startNonzero : v ≠ 0)
    (noClipInput : ∀ i, i < min M n → tol / 2 * krylovDist A v i ≤ krylovDist A v (i + 1))
    (noEarlyStopInput : ∀ k, 1 ≤ k → k < min M n →
      tol * krylovDist A v 1 * krylovDist A v (k - 1) < krylovDist A v k * krylovDist A v 0) :
    (runE A n M tol [v]).idx = min M n :=
  C15_runs_to_cap_of_inputs A n M tol tolPos v startNonzero (fun i hi => noClipInput i (by omega))
    noEarlyStopInput

/-- **`arnoldi_eigs` at full dimension, about the ACTUAL run** (`C15_eigs_complete` was about `colAt … n`): when the
run executed `n = dim E` steps, every eigenpair `(μ, x)` of `A` gives the eigenpair `(μ, Qᴴ x)` of the matrix the
run hands to `xnp.eig` -/
theorem C15_eigs_complete_run [FiniteDimensional 𝕜 E] (A : E →ₗ[𝕜] E) (n M : Nat)
    (tol : ℝ) (tolPos : 0 < tol) (v : E) (startNonzero : v ≠ 0)
    (dimE : Module.finrank 𝕜 E = n) (hn : 0 < n)
    (ranToDim : (runE A n M tol [v]).idx = n)
    (noClip : ∀ i, i + 1 < (runE A n M tol [v]).idx →
      tol / 2 ≤ (colAt A M tol v (runE A n M tol [v]).idx).beta i)
    (μ : 𝕜) (x : E) (hx : x ≠ 0) (heig : A x = μ • x) :
    (∃ a, a < (runE A n M tol [v]).idx ∧ ⟪(colAt A M tol v (runE A n M tol [v]).idx).q a, x⟫_𝕜 ≠ 0) ∧
    ∀ l, l < (runE A n M tol [v]).idx → ∑ i ∈ range (runE A n M tol [v]).idx,
      ((eigsMatrix trimPaddingInEigs M (runE A n M tol [v]).idx
        (colAt A M tol v (runE A n M tol [v]).idx)).getD l #[]).getD i 0 *
          ⟪(colAt A M tol v (runE A n M tol [v]).idx).q i, x⟫_𝕜 =
        μ * ⟪(colAt A M tol v (runE A n M tol [v]).idx).q l, x⟫_𝕜 := by
  have hsM : (runE A n M tol [v]).idx ≤ M :=
    le_trans (run_spec (⇑A) n M ((tol : ℝ) : 𝕜) [v]).2.1 (min_le_left _ _)
  rw [ranToDim] at hsM noClip ⊢
  exact C15_eigs_complete A n M tol tolPos v startNonzero dimE hn hsM noClip μ x hx heig

/-- **`arnoldi_eigs` at full dimension with every hypothesis on the inputs, correct range (round 3)**:
`n = dim E ≤ max_iters`, Krylov distances without clip BEFORE the last step (`i + 1 < n`; the `n`-th step of a
full-dimensional run is an exact breakdown, `d_n = 0`) and without early stop.  Then the run makes `n` steps and every
eigenpair `(μ, x)` of `A` gives the eigenpair `(μ, Qᴴ x)` of the matrix handed to `xnp.eig`.
Witness: `C15_hess3_inputs_witness` (3 × 3). -/
theorem C15_eigs_complete_of_inputs [FiniteDimensional 𝕜 E] (A : E →ₗ[𝕜] E) (n M : Nat)
    (tol : ℝ) (tolPos : 0 < tol) (v : E) (startNonzero : v ≠ 0)
    (dimE : Module.finrank 𝕜 E = n) (hn : 0 < n) (hnM : n ≤ M)
    (noClipBeforeLast : ∀ i, i + 1 < n → tol / 2 * krylovDist A v i ≤ krylovDist A v (i + 1))
    (noEarlyStopInput : ∀ k, 1 ≤ k → k < n →
      tol * krylovDist A v 1 * krylovDist A v (k - 1) < krylovDist A v k * krylovDist A v 0)
    (μ : 𝕜) (x : E) (hx : x ≠ 0) (heig : A x = μ • x) :
    (runE A n M tol [v]).idx = n ∧
    (∃ a, a < (runE A n M tol [v]).idx ∧ ⟪(colAt A M tol v (runE A n M tol [v]).idx).q a, x⟫_𝕜 ≠ 0) ∧
    ∀ l, l < (runE A n M tol [v]).idx → ∑ i ∈ range (runE A n M tol [v]).idx,
      ((eigsMatrix trimPaddingInEigs M (runE A n M tol [v]).idx
        (colAt A M tol v (runE A n M tol [v]).idx)).getD l #[]).getD i 0 *
          ⟪(colAt A M tol v (runE A n M tol [v]).idx).q i, x⟫_𝕜 =
        μ * ⟪(colAt A M tol v (runE A n M tol [v]).idx).q l, x⟫_𝕜 := by
  have hcap : min M n = n := min_eq_right hnM
  have hidx : (runE A n M tol [v]).idx = n := by
    rw [run_idx_eq_cap_of_input_lt A M tol v n tolPos startNonzero (by rw [hcap]; exact noClipBeforeLast)
      (by rw [hcap]; exact noEarlyStopInput), hcap]
  refine ⟨hidx, ?_⟩
  apply C15_eigs_complete_run A n M tol tolPos v startNonzero dimE hn hidx _ μ x hx heig
  rw [hidx]
  exact unclipped_before_last_of_input A M tol v tolPos startNonzero n hnM noClipBeforeLast

/-- **the round-2 range was unsatisfiable**: at `n = dim E ≤ max_iters` no input satisfies `tol/2 · d_i ≤ d_{i+1}` for
ALL `i < n` (the `n`-th step is an exact breakdown).  So `C15_eigs_complete_input` below is vacuous as stated; it is
kept (as a corollary of `C15_eigs_complete_of_inputs`) only because statements are never deleted. -/
theorem C15_wide_range_unsatisfiable [FiniteDimensional 𝕜 E] (A : E →ₗ[𝕜] E) (n M : Nat)
    (tol : ℝ) (tolPos : 0 < tol) (v : E) (startNonzero : v ≠ 0)
    (dimE : Module.finrank 𝕜 E = n) (hn : 0 < n) (hnM : n ≤ M) :
    ¬ ∀ i, i < n → tol / 2 * krylovDist A v i ≤ krylovDist A v (i + 1) :=
  wide_range_unsatisfiable A M tol v tolPos startNonzero n dimE hn hnM

/-- DEPRECATED round-2 statement — VACUOUS: no input satisfies `noClipInput` (`C15_wide_range_unsatisfiable`); use
`C15_eigs_complete_of_inputs`.  The declaration is kept only because statements are never deleted (it is a corollary of
the correctly ranged theorem); since round 4 it is NOT in the audited `#print axioms` list at the end of this file and
is not counted as a property theorem. -/
theorem C15_eigs_complete_input [FiniteDimensional 𝕜 E] (A : E →ₗ[𝕜] E) (n M : Nat)
    (tol : ℝ) (tolPos : 0 < tol) (v : E) (startNonzero : v ≠ 0)
    (dimE : Module.finrank 𝕜 E = n) (hn : 0 < n) (hnM : n ≤ M)
    (noClipInput : ∀ i, i < n → tol / 2 * krylovDist A v i ≤ krylovDist A v (i + 1))
    (noEarlyStopInput : ∀ k, 1 ≤ k → k < n →
      tol * krylovDist A v 1 * krylovDist A v (k - 1) < krylovDist A v k * krylovDist A v 0)
    (μ : 𝕜) (x : E) (hx : x ≠ 0) (heig : A x = μ • x) :
    (runE A n M tol [v]).idx = n ∧
    (∃ a, a < (runE A n M tol [v]).idx ∧ ⟪(colAt A M tol v (runE A n M tol [v]).idx).q a, x⟫_𝕜 ≠ 0) ∧
    ∀ l, l < (runE A n M tol [v]).idx → ∑ i ∈ range (runE A n M tol [v]).idx,
      ((eigsMatrix trimPaddingInEigs M (runE A n M tol [v]).idx
        (colAt A M tol v (runE A n M tol [v]).idx)).getD l #[]).getD i 0 *
          ⟪(colAt A M tol v (runE A n M tol [v]).idx).q i, x⟫_𝕜 =
        μ * ⟪(colAt A M tol v (runE A n M tol [v]).idx).q l, x⟫_𝕜 :=
  C15_eigs_complete_of_inputs A n M tol tolPos v startNonzero dimE hn hnM
    (fun i hi => noClipInput i (by omega)) noEarlyStopInput μ x hx heig

/-- **the output of the model's `arnoldi_eigs`** (`Arnoldi.arnoldiEigs`, `xnp.eig` a parameter): it returns the state of
the run, and — if `eig` meets its contract `EigPairs` on the one matrix it is given — every returned pair
`(eigvals[j], eigvectors[:, j])` is an eigenpair of `A`.  Clauses `noClip`, `stopExact` as in `C15_eigs_partial`. -/
theorem C15_arnoldiEigs_sound (eig : Array (Array 𝕜) → Array 𝕜 × Array (Array 𝕜)) (A : E →ₗ[𝕜] E)
    (n M : Nat) (tol : ℝ) (tolPos : 0 < tol) (v : E) (startNonzero : v ≠ 0)
    (noClip : ∀ i, i + 1 < (runE A n M tol [v]).idx →
      tol / 2 ≤ (colAt A M tol v (runE A n M tol [v]).idx).beta i)
    (stopExact : 0 < (runE A n M tol [v]).idx ∧
      (colAt A M tol v (runE A n M tol [v]).idx).beta ((runE A n M tol [v]).idx - 1) = 0)
    (eigContract : EigPairs (runE A n M tol [v]).idx
      (eigsMatrix trimPaddingInEigs M (runE A n M tol [v]).idx (colAt A M tol v (runE A n M tol [v]).idx))
      (eig (eigsMatrix trimPaddingInEigs M (runE A n M tol [v]).idx
        (colAt A M tol v (runE A n M tol [v]).idx))).1
      (eig (eigsMatrix trimPaddingInEigs M (runE A n M tol [v]).idx
        (colAt A M tol v (runE A n M tol [v]).idx))).2) :
    (arnoldiEigs eig trimPaddingInEigs (⇑A) n M ((tol : ℝ) : 𝕜) v).2.2 = runE A n M tol [v] ∧
    ∀ j, j < (runE A n M tol [v]).idx →
      A ((arnoldiEigs eig trimPaddingInEigs (⇑A) n M ((tol : ℝ) : 𝕜) v).2.1.getD j 0) =
        (arnoldiEigs eig trimPaddingInEigs (⇑A) n M ((tol : ℝ) : 𝕜) v).1.getD j 0 •
          (arnoldiEigs eig trimPaddingInEigs (⇑A) n M ((tol : ℝ) : 𝕜) v).2.1.getD j 0 ∧
      (arnoldiEigs eig trimPaddingInEigs (⇑A) n M ((tol : ℝ) : 𝕜) v).2.1.getD j 0 ≠ 0 := by
  have hsM : (runE A n M tol [v]).idx ≤ M :=
    le_trans (run_spec (⇑A) n M ((tol : ℝ) : 𝕜) [v]).2.1 (min_le_left _ _)
  rw [arnoldiEigs_single]
  refine ⟨rfl, fun j hj => ?_⟩
  exact ritz_of_eigPairs tolPos startNonzero _ stopExact.1 hsM noClip stopExact.2 _ _ eigContract j hj

/-- **`arnoldi_eigs` with `n = dim E` executed steps returns the spectrum of `A`** (as a set, over the scalar field of
the model): under both parts of the contract of `eig`, `μ` is an eigenvalue of `A` iff it is one of the returned values -/
theorem C15_arnoldiEigs_spectrum [FiniteDimensional 𝕜 E]
    (eig : Array (Array 𝕜) → Array 𝕜 × Array (Array 𝕜)) (A : E →ₗ[𝕜] E)
    (n M : Nat) (tol : ℝ) (tolPos : 0 < tol) (v : E) (startNonzero : v ≠ 0)
    (dimE : Module.finrank 𝕜 E = n) (hn : 0 < n) (ranToDim : (runE A n M tol [v]).idx = n)
    (noClip : ∀ i, i + 1 < n → tol / 2 ≤ (colAt A M tol v n).beta i)
    (eigSound : EigPairs n (eigsMatrix trimPaddingInEigs M n (colAt A M tol v n))
      (eig (eigsMatrix trimPaddingInEigs M n (colAt A M tol v n))).1
      (eig (eigsMatrix trimPaddingInEigs M n (colAt A M tol v n))).2)
    (eigComplete : EigComplete n (eigsMatrix trimPaddingInEigs M n (colAt A M tol v n))
      (eig (eigsMatrix trimPaddingInEigs M n (colAt A M tol v n))).1) (μ : 𝕜) :
    (∃ x : E, x ≠ 0 ∧ A x = μ • x) ↔
      ∃ j, j < n ∧ (arnoldiEigs eig trimPaddingInEigs (⇑A) n M ((tol : ℝ) : 𝕜) v).1.getD j 0 = μ := by
  have hsM : (runE A n M tol [v]).idx ≤ M :=
    le_trans (run_spec (⇑A) n M ((tol : ℝ) : 𝕜) [v]).2.1 (min_le_left _ _)
  rw [ranToDim] at hsM
  have hcap := (inv_colAfter A M v tol startNonzero tolPos n hsM).cap_column_zero dimE hn noClip
  rw [arnoldiEigs_single, ranToDim]
  constructor
  · rintro ⟨x, hx, hAx⟩
    exact complete_of_eigComplete tolPos startNonzero n dimE hn hsM noClip _ eigComplete μ x hx hAx
  · rintro ⟨j, hj, hμ⟩
    have := ritz_of_eigPairs tolPos startNonzero n hn hsM noClip hcap.2 _ _ eigSound j hj
    exact ⟨_, this.2, by rw [← hμ]; exact this.1⟩

/-- **witness (3 × 3, non-symmetric `A = [[1,1,0],[2,1,1],[0,3,1]]`, `v = e₀`, `max_iters = 3`, `tol = 1/100`)** for the
hypothesis bundles of `C15_partial`, `C15_partial_input`, `C15_eigs_partial`, `C15_eigs_complete_run`,
`C15_arnoldiEigs_sound`, `C15_arnoldiEigs_spectrum`: three steps, `β = 2, 3, 0`, clause `noClip` and its input form hold,
`stopExact` holds, the contract of `eig` is met by `Hess3.eigW` — and the conclusion: the model's `arnoldi_eigs` returns
exactly the spectrum `{1, 1 − √5, 1 + √5}` of `A` -/
theorem C15_hess3_witness :
    (runE Hess3.A 3 3 (1 / 100) [Hess3.e 0]).idx = 3 ∧
    NoClip (1 / 100) 3 (colAt Hess3.A 3 (1 / 100) (Hess3.e 0) 3) ∧
    NoClipInput Hess3.A (Hess3.e 0) (1 / 100) 3 ∧
    (colAt Hess3.A 3 (1 / 100) (Hess3.e 0) 3).beta 2 = 0 ∧
    (∀ μ : ℝ, (∃ x : Hess3.E3, x ≠ 0 ∧ Hess3.A x = μ • x) ↔
      ∃ j, j < 3 ∧ (arnoldiEigs Hess3.eigW trimPaddingInEigs (⇑Hess3.A) 3 3
        (RCLike.ofReal (1 / 100 : ℝ) : ℝ) (Hess3.e 0)).1.getD j 0 = μ) ∧
    (arnoldiEigs Hess3.eigW trimPaddingInEigs (⇑Hess3.A) 3 3 (RCLike.ofReal (1 / 100 : ℝ) : ℝ) (Hess3.e 0)).1 =
      #[1, 1 - Real.sqrt 5, 1 + Real.sqrt 5] := by
  have hidx : (runE Hess3.A 3 3 (1 / 100) [Hess3.e 0]).idx = 3 := by
    rw [Hess3.idx_eq_cap 3 (1 / 100) (by norm_num) (by norm_num) (by norm_num)]; rfl
  have hun : ∀ i, i + 1 < 3 → (1 / 100 : ℝ) / 2 ≤ (colAt Hess3.A 3 (1 / 100) (Hess3.e 0) 3).beta i := by
    intro i hi
    rw [Hess3.beta_any 3 (1 / 100) 3 (le_refl _) (by norm_num) (by norm_num) (by norm_num) i (by omega) (by omega)]
    unfold Hess3.bt
    split <;> norm_num
  have hb := (Hess3.colAt3 3 (1 / 100) (le_refl _) (by norm_num) (by norm_num)).2.2
  have hnc : NoClip (1 / 100) 3 (colAt Hess3.A 3 (1 / 100) (Hess3.e 0) 3) := by
    intro i hi
    by_cases h : i + 1 < 3
    · exact Or.inr (hun i h)
    · have : i = 2 := by omega
      rw [this]; exact Or.inl hb
  refine ⟨hidx, hnc, input_of_noClip Hess3.A 3 (1 / 100) (Hess3.e 0) (by norm_num) Hess3.e0_ne 3 (le_refl _) hnc,
    hb, ?_, ?_⟩
  · intro μ
    exact C15_arnoldiEigs_spectrum Hess3.eigW Hess3.A 3 3 (1 / 100) (by norm_num) (Hess3.e 0) Hess3.e0_ne
      Hess3.finrank_E3 (by norm_num) hidx hun
      (Hess3.eigPairs_W (1 / 100) (by norm_num) (by norm_num))
      (Hess3.eigComplete_W (1 / 100) (by norm_num) (by norm_num)) μ
  · rw [arnoldiEigs_single]
    rfl

/-- **witness for the input-level bundles (round 3)** on the 3 × 3 system `A = [[1,1,0],[2,1,1],[0,3,1]]`, `v = e₀`,
`tol = 1/100`: the Krylov distances are `d₀ … d₃ = 1, 2, 6, 0`; hence at `max_iters = n = 3 = dim E` all hypotheses of
`C15_runs_to_cap_of_inputs` and `C15_eigs_complete_of_inputs` hold (`noClipBeforeLast`, `noEarlyStopInput`, `dimE`,
`hnM`), the run makes 3 steps, and the eigenpair `(1, e₀ − 2 e₂)` of `A` is carried to the matrix handed to `eig`;
the WIDE range of the round-2 statements fails here (`d₃ = 0`), but holds for `max_iters = 2` (cap below the grade),
which witnesses the bundle of the corollary `C15_runs_to_cap_input` -/
theorem C15_hess3_inputs_witness :
    (krylovDist Hess3.A (Hess3.e 0) 0 = 1 ∧ krylovDist Hess3.A (Hess3.e 0) 1 = 2 ∧
      krylovDist Hess3.A (Hess3.e 0) 2 = 6 ∧ krylovDist Hess3.A (Hess3.e 0) 3 = 0) ∧
    Module.finrank ℝ Hess3.E3 = 3 ∧
    (∀ i, i + 1 < min 3 3 → (1 / 100 : ℝ) / 2 * krylovDist Hess3.A (Hess3.e 0) i ≤
      krylovDist Hess3.A (Hess3.e 0) (i + 1)) ∧
    (∀ k, 1 ≤ k → k < min 3 3 →
      (1 / 100 : ℝ) * krylovDist Hess3.A (Hess3.e 0) 1 * krylovDist Hess3.A (Hess3.e 0) (k - 1) <
        krylovDist Hess3.A (Hess3.e 0) k * krylovDist Hess3.A (Hess3.e 0) 0) ∧
    (runE Hess3.A 3 3 (1 / 100) [Hess3.e 0]).idx = 3 ∧
    (¬ ∀ i, i < 3 → (1 / 100 : ℝ) / 2 * krylovDist Hess3.A (Hess3.e 0) i ≤
      krylovDist Hess3.A (Hess3.e 0) (i + 1)) ∧
    ((∀ i, i < min 2 3 → (1 / 100 : ℝ) / 2 * krylovDist Hess3.A (Hess3.e 0) i ≤
      krylovDist Hess3.A (Hess3.e 0) (i + 1)) ∧
     (∀ k, 1 ≤ k → k < min 2 3 →
      (1 / 100 : ℝ) * krylovDist Hess3.A (Hess3.e 0) 1 * krylovDist Hess3.A (Hess3.e 0) (k - 1) <
        krylovDist Hess3.A (Hess3.e 0) k * krylovDist Hess3.A (Hess3.e 0) 0) ∧
     (runE Hess3.A 3 2 (1 / 100) [Hess3.e 0]).idx = 2) := by
  obtain ⟨d0, d1, d2, d3⟩ := Hess3.krylovDist_vals
  have hgrow : ∀ i, i < 2 → (1 / 100 : ℝ) / 2 * krylovDist Hess3.A (Hess3.e 0) i ≤
      krylovDist Hess3.A (Hess3.e 0) (i + 1) := by
    intro i hi
    have : i = 0 ∨ i = 1 := by omega
    rcases this with rfl | rfl
    · rw [d0, d1]; norm_num
    · rw [d1, d2]; norm_num
  have hstop : ∀ k, 1 ≤ k → k < 3 →
      (1 / 100 : ℝ) * krylovDist Hess3.A (Hess3.e 0) 1 * krylovDist Hess3.A (Hess3.e 0) (k - 1) <
        krylovDist Hess3.A (Hess3.e 0) k * krylovDist Hess3.A (Hess3.e 0) 0 := by
    intro k hk1 hk
    have : k = 1 ∨ k = 2 := by omega
    rcases this with rfl | rfl
    · rw [d0, d1]; norm_num
    · rw [d0, d1, d2]; norm_num
  have h33 : min 3 3 = 3 := rfl
  have h23 : min 2 3 = 2 := rfl
  refine ⟨⟨d0, d1, d2, d3⟩, Hess3.finrank_E3, ?_, ?_, ?_, ?_, ?_, ?_, ?_⟩
  · intro i hi; exact hgrow i (by omega)
  · intro k hk1 hk; exact hstop k hk1 (by omega)
  · exact C15_runs_to_cap_of_inputs Hess3.A 3 3 (1 / 100) (by norm_num) (Hess3.e 0) Hess3.e0_ne
      (fun i hi => hgrow i (by omega)) (fun k hk1 hk => hstop k hk1 (by omega))
  · intro h
    have := h 2 (by norm_num)
    rw [d2, d3] at this
    norm_num at this
  · intro i hi; exact hgrow i (by omega)
  · intro k hk1 hk; exact hstop k hk1 (by omega)
  · exact C15_runs_to_cap_input Hess3.A 3 2 (1 / 100) (by norm_num) (Hess3.e 0) Hess3.e0_ne
      (fun i hi => hgrow i (by omega)) (fun k hk1 hk => hstop k hk1 (by omega))

/-- the FULL conclusion of `C15_eigs_complete_of_inputs` on that witness (all three conjuncts: the run reaches 3, the
coordinate vector `(⟪q_a, x⟫)_a` of the eigenvector does not vanish, and it satisfies the eigen-equation of the returned
matrix), for the eigenpair `(1, e₀ − 2 e₂)` of `A` (`e₀ − 2 e₂ ≠ 0`) -/
theorem C15_hess3_eigs_complete_witness :
    (runE Hess3.A 3 3 (1 / 100) [Hess3.e 0]).idx = 3 ∧
    (∃ a, a < (runE Hess3.A 3 3 (1 / 100) [Hess3.e 0]).idx ∧
      ⟪(colAt Hess3.A 3 (1 / 100) (Hess3.e 0) (runE Hess3.A 3 3 (1 / 100) [Hess3.e 0]).idx).q a,
        Hess3.e 0 - (2 : ℝ) • Hess3.e 2⟫_ℝ ≠ 0) ∧
    ∀ l, l < (runE Hess3.A 3 3 (1 / 100) [Hess3.e 0]).idx →
      ∑ i ∈ range (runE Hess3.A 3 3 (1 / 100) [Hess3.e 0]).idx,
        ((eigsMatrix trimPaddingInEigs 3 (runE Hess3.A 3 3 (1 / 100) [Hess3.e 0]).idx
          (colAt Hess3.A 3 (1 / 100) (Hess3.e 0) (runE Hess3.A 3 3 (1 / 100) [Hess3.e 0]).idx)).getD l #[]).getD i 0 *
            ⟪(colAt Hess3.A 3 (1 / 100) (Hess3.e 0) (runE Hess3.A 3 3 (1 / 100) [Hess3.e 0]).idx).q i,
              Hess3.e 0 - (2 : ℝ) • Hess3.e 2⟫_ℝ =
        1 * ⟪(colAt Hess3.A 3 (1 / 100) (Hess3.e 0) (runE Hess3.A 3 3 (1 / 100) [Hess3.e 0]).idx).q l,
              Hess3.e 0 - (2 : ℝ) • Hess3.e 2⟫_ℝ := by
  obtain ⟨_, hdim, h1, h2, _⟩ := C15_hess3_inputs_witness
  have hx : Hess3.e 0 - (2 : ℝ) • Hess3.e 2 ≠ 0 := by
    intro h
    have := congrArg (fun z => ⟪Hess3.e 0, z⟫_ℝ) h
    simp only [inner_sub_right, inner_smul_right, inner_zero_right] at this
    rw [Hess3.e_ON 0 (by norm_num) 0 (by norm_num), Hess3.e_ON 0 (by norm_num) 2 (by norm_num)] at this
    norm_num at this
  have heig : Hess3.A (Hess3.e 0 - (2 : ℝ) • Hess3.e 2) = (1 : ℝ) • (Hess3.e 0 - (2 : ℝ) • Hess3.e 2) := by
    rw [map_sub, map_smul, Hess3.A_e0, Hess3.A_e2]
    module
  have := C15_eigs_complete_of_inputs Hess3.A 3 3 (1 / 100) (by norm_num) (Hess3.e 0) Hess3.e0_ne hdim
    (by norm_num) (le_refl _) h1 h2 1 _ hx heig
  exact this

/-- **counter-witness for the input form of `noClip`**: `A = ¼·[[0,-1],[1,0]]`, `v = e₁`, `tol = 1`: the condition on the
inputs fails (`d₁ = ¼ < tol/2 · d₀`), in accordance with `C15_noClip_clause_needed` -/
theorem C15_noClipInput_counter_witness : ¬ NoClipInput (rot (1 / 4)) (1 : ℂ) 1 1 := by
  intro h
  have hnc := noClip_of_input (rot (1 / 4)) 2 1 (1 : ℂ) (by norm_num) one_ne_zero 1 (by norm_num) h
  have hb := beta0_rot (1 / 4) (by norm_num) 2 (by norm_num) 1
  rcases hnc 0 (by norm_num) with h0 | h0
  · rw [hb] at h0; norm_num at h0
  · rw [hb] at h0; norm_num at h0

/-- **the full-buffer relation with both clauses on the inputs**: `noClip` as `NoClipInput`, `stopExact` as "ran to
`max_iters`, or the Krylov space is exhausted: `dist(A^s v, K_s(A, v)) = 0`" (`s` = executed steps) -/
theorem C15_full_relation_input (A : E →ₗ[𝕜] E) (n M : Nat) (tol : ℝ) (tolPos : 0 < tol)
    (vs : List E) (startNonzero : ∀ v ∈ vs, v ≠ 0) (v : E) (hv : v ∈ vs)
    (noClipInput : NoClipInput A v tol (runE A n M tol vs).idx)
    (stopExactInput : (runE A n M tol vs).idx = M ∨ krylovDist A v (runE A n M tol vs).idx = 0) :
    ∀ i, i < M → A ((colAt A M tol v (runE A n M tol vs).idx).q i) =
      ∑ l ∈ range (M + 1), (colAt A M tol v (runE A n M tol vs).idx).h l i •
        (colAt A M tol v (runE A n M tol vs).idx).q l := by
  have hsM : (runE A n M tol vs).idx ≤ M :=
    le_trans (run_spec (⇑A) n M ((tol : ℝ) : 𝕜) vs).2.1 (min_le_left _ _)
  have hv0 := startNonzero v hv
  have hnc := noClip_of_input A M tol v tolPos hv0 _ hsM noClipInput
  apply C15_full_relation_partial A n M tol tolPos vs startNonzero v hv hnc
  rcases stopExactInput with h | h
  · exact Or.inl h
  · right
    have hinv := inv_colAfter A M v tol hv0 tolPos _ hsM
    obtain ⟨r, hr, hun, hend⟩ := exists_rank hnc
    by_cases hrs : r = (runE A n M tol vs).idx
    · exfalso
      have hpos := krylovDist_pos A M tol v tolPos hv0 _ hsM (fun i hi => hun i (by omega))
      linarith
    · have hrlt : r < (runE A n M tol vs).idx := lt_of_le_of_ne hr hrs
      rcases hend with hend | hend
      · exact absurd hend hrs
      · exact (hinv.zero_after_breakdown tolPos r hrlt hend).1 _ hrlt


#print axioms C15_krylov_span
#print axioms C15_subdiag_eq_krylovDist
#print axioms C15_noClip_iff_input
#print axioms C15_partial_input
#print axioms C15_runs_to_cap_input
#print axioms C15_runs_to_cap_of_inputs
#print axioms C15_eigs_complete_of_inputs
#print axioms C15_wide_range_unsatisfiable
#print axioms C15_hess3_inputs_witness
#print axioms C15_hess3_eigs_complete_witness
#print axioms C15_eigs_complete_run
-- `C15_eigs_complete_input` (deprecated, vacuous by `C15_wide_range_unsatisfiable`) is deliberately NOT audited here
#print axioms C15_arnoldiEigs_sound
#print axioms C15_arnoldiEigs_spectrum
#print axioms C15_hess3_witness
#print axioms C15_noClipInput_counter_witness
#print axioms C15_full_relation_input
