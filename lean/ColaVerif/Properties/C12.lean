import ColaVerif.Lemmas.CGBridge
import ColaVerif.Lemmas.CGExample
import ColaVerif.Lemmas.CGInputs
import ColaVerif.Lemmas.CGExample3
import ColaVerif.Lemmas.CGResidual
import ColaVerif.Lemmas.CGExampleBatch

/-!
# C12 — CG returns the Krylov-optimal iterate and honours its stopping contract (property theorems)

Objects (all in namespace `CG`):
* `runBatchedCG A b x0 maxIters tol P`, `cg …` — the code model (`Model/CG.lean`), generic over
  the law-free class `NumOps K`; `rcOps 𝕜` is the instance of exact arithmetic over `𝕜 = ℝ, ℂ`.
* `matArr A`, `colsArr B` — a matrix / an `n × m` block as the model's arrays; `E := EuclideanSpace 𝕜 (Fin n)`.
* `xOut A P B X0 maxIters tol j : E` — the vector returned for column `j`
  (`(runBatchedCG …).x = colsArr (xOut …)`, theorem `C12_output`).
* `colState A P B X0 j i` — the loop state of column `j` after `i` steps (normalised system),
  `tolEffR … j = tol * ‖r̂0_j‖ + tol` its effective tolerance.
* `GuardsOffN A M ε b x0 k` — "no guard of `take_cg_step` is active in the first `k` steps of the
  column": with `(r̂_i, p̂_i, γ̂_i)` the textbook CG quantities of the normalised system
  `(b/‖b‖, x0/‖b‖)`: `ε ≤ ‖r̂_i‖`, `ε ≤ |γ̂_i|`, `ε ≤ |⟪p̂_i, A p̂_i⟫|` for all `i < k`, `ε = 1e-40`.
  (`C12_guards_positive`: for positive definite `A`, `M` these are positive reals while `r ≠ 0`,
  so the guards only ever act below `1e-40`.)

Round 2 (end of the file): `GuardsOffN` is DERIVED from the inputs.
* `Coercive A c` : `c ‖v‖² ≤ re ⟪v, A v⟫` (`c ≤ λ_min`); `TolAdmissible 1e-40 cA cM τ`.
* `C12_guards_lower`: `cM ‖r_i‖² ≤ |γ_i|`, `cA cM² ‖r_i‖² ≤ |⟪p_i, A p_i⟫|` — the three guards reduce to
  one condition on the residual; `C12_guards_from_residual`, `C12_optimal_resid` (any batch).
* `C12_optimal_inputs`, `C12_optimal_hpd`: one right-hand side, `tol` above an explicit threshold that
  depends on `λ_min(A)`, `λ_min(P)` only ⇒ optimality for every `k` the loop reaches, NO hypothesis on
  intermediates.  `C12_witness_three_steps`: `k = 3` on `tridiag(-1, 2, -1)`.
* `C12_dirs_eq_krylov`: `span {p_i} = K_k(MA, M r0)`.
* Round 2b (after the repair 1a4d949 of `do_safe_div`: exact zero test): the mask `‖r̂‖ < 1e-40` is the
  only guard left.  `C12_optimal_mask` (any batch: "column not converged below 1e-40"),
  `C12_optimal_single` (one right-hand side, every `tol ≥ 1e-40`, no constants), `C12_optimal_any`
  (every `tol ≥ 0`, every batch, NO hypothesis: the output is the optimal iterate of some `k' ≤ k`, and
  `k' < k` only for a column already converged below `1e-40`), `C12_tiny_scale_regression`.
* Round 3: the link between the residual the stopping test looks at and the TRUE residual needs no guard
  hypothesis at all.  `take_cg_step` updates `x` and `r` with the same `α`, so `r̂ = b̂ - A x̂` is an invariant
  of the guarded recurrence: `C12_residual_recurrence` (every column), `C12_residual_true_any` (`b_j ≠ 0`,
  nothing else: `r̂_i = (b - A x_i)/‖b‖` at every step `i`), `C12_tolEff_true`, and `C12_stop_true_residual`
  (= `C12_stop` on true residuals: on exit before the cap `‖b - A x‖ ≤ tol ‖b - A x0‖ + tol ‖b‖` for every
  non-zero column, any `A`, `P`, batch, `tol`).  Under the input-level hypotheses of the optimality family
  the residual is moreover the TEXTBOOK residual `b - A x_i` of the textbook iterate:
  `C12_residual_true_mask` (`MaskOffN`, every `i ≤ k`), `C12_residual_true_single` (one right-hand side,
  `tol ≥ 1e-40`: the textbook stopping contract, inputs only), `C12_residual_true_final` (no hypothesis
  beyond HPD: `∃ k' ≤ k`).  `C12_mask_of_guards`: `GuardsOffN → MaskOffN`; the round-1 statement
  `C12_residual_true` (hypothesis `GuardsOffN`) is kept as a corollary of `C12_residual_true_mask`.
  `C12_residual_true_witness`: all of it on `tridiag(-1, 2, -1)`, `k = 3`.
* Round 4: `C12_converged_column_witness` — the `k' < k` branch of `C12_optimal_any` is inhabited: batch
  `[(1, 0, -1), e₀]` on `tridiag(-1, 2, -1)`, `max_iters = 2`: column 0 (an eigenvector) has residual exactly `0`
  after one step and is frozen (`k' = 1`) while column 1 keeps the loop running (`k = 2`)
  (helper lemmas: `Lemmas/CGExampleBatch.lean`).
-/

open CG
open scoped InnerProductSpace ComplexOrder

attribute [local instance] CG.rcOps

section anyOps
variable {K : Type} [NumOps K]

/-- never more than `max_iters` steps — any `NumOps` instance, in particular the IEEE ones -/
theorem C12_cap (A : Mat K) (b x0 : Array (Vec K)) (maxIters : Nat) (tol : K) (P : Option (Mat K)) :
    (runBatchedCG A b x0 maxIters tol P).k ≤ maxIters :=
  run_cap A P b x0 maxIters tol

/-- `iterations` = steps + 1; `errors` has one entry per step: the tracked residual at the
evaluations of the stopping test (`stateAt … i` = loop state after `i` steps) followed by the final
one, with the first two entries dropped -/
theorem C12_bookkeeping (A : Mat K) (b x0 : Array (Vec K)) (maxIters : Nat) (tol : K)
    (P : Option (Mat K)) :
    let res := runBatchedCG A b x0 maxIters tol P
    res.info.iterations = res.k + 1 ∧ res.info.errors.size = res.k ∧
    res.info.errors.toList =
      (((List.range (res.k + 1)).map (fun i => track (stateAt A P b x0 i))) ++
        [track (stateAt A P b x0 res.k)]).drop 2 := by
  intro res
  have hk : res.k = runSteps A P b x0 maxIters tol := run_k A P b x0 maxIters tol
  rw [hk]
  exact ⟨(run_info A P b x0 maxIters tol).1, run_errors_size A P b x0 maxIters tol,
    (run_info A P b x0 maxIters tol).2⟩

/-- stopping rule on the model as it is (any instance): on exit `k = max_iters` or `any(rs > tol)`
is false; at every earlier evaluation it was true.  Also: the fuel of the model's loop is adequate
(`cond` is false at exit). -/
theorem C12_stop_model (A : Mat K) (b x0 : Array (Vec K)) (maxIters : Nat) (tol : K)
    (P : Option (Mat K)) :
    let res := runBatchedCG A b x0 maxIters tol P
    let te := tolEffs tol (initState A P b x0)
    (res.k = maxIters ∨ anyAbove te (stateAt A P b x0 res.k).cols = false) ∧
    (∀ i < res.k, anyAbove te (stateAt A P b x0 i).cols = true) ∧
    cond te maxIters (stateAt A P b x0 res.k) = false := by
  intro res te
  have hk : res.k = runSteps A P b x0 maxIters tol := run_k A P b x0 maxIters tol
  rw [hk]
  exact ⟨(run_stop A P b x0 maxIters tol).1, (run_stop A P b x0 maxIters tol).2,
    run_exit_cond A P b x0 maxIters tol⟩

/-- the per-step trace printed by the driver is the list of loop states `0 … k` -/
theorem C12_trace (A : Mat K) (b x0 : Array (Vec K)) (maxIters : Nat) (tol : K) (P : Option (Mat K)) :
    loopStates (cond (tolEffs tol (initState A P b x0)) maxIters) (step A P) maxIters
      (initState A P b x0) =
    (List.range ((runBatchedCG A b x0 maxIters tol P).k + 1)).map (stateAt A P b x0) := by
  rw [run_k]; exact run_trace A P b x0 maxIters tol

/-- every operation of the loop body is column-wise (any instance): the returned block is, column
by column, the iterated single-column step of the initial column, rescaled by its `mult` -/
theorem C12_columns_model (A : Mat K) (b x0 : Array (Vec K)) (maxIters : Nat) (tol : K)
    (P : Option (Mat K)) :
    let res := runBatchedCG A b x0 maxIters tol P
    res.x = Array.zipWith scaleR
      (((initState A P b x0).cols.map (stepCol A P)^[res.k]).map (·.x)) (mults b) := by
  intro res
  have hk : res.k = runSteps A P b x0 maxIters tol := run_k A P b x0 maxIters tol
  rw [hk]; exact run_x A P b x0 maxIters tol

end anyOps

section exact
variable {𝕜 : Type} [RCLike 𝕜] {n m : ℕ}

/-- the value returned by the model in exact arithmetic, column by column -/
theorem C12_output (A : Matrix (Fin n) (Fin n) 𝕜) (P : Option (Matrix (Fin n) (Fin n) 𝕜))
    (B X0 : Fin m → EuclideanSpace 𝕜 (Fin n)) (maxIters : ℕ) (tol : 𝕜) :
    (runBatchedCG (matArr A) (colsArr B) (colsArr X0) maxIters tol (P.map matArr)).x =
      colsArr (xOut A P B X0 maxIters tol) :=
  run_x_eq_xOut A P B X0 maxIters tol

/-- **stops as soon as, not before** (exact arithmetic): with `t` the number of steps made,
`t = max_iters` or every column's residual is `≤ tol * ‖r̂0‖ + tol`; and before each of the `t`
steps some column's residual was `> tol * ‖r̂0‖ + tol` (residuals of the normalised system, i.e.
relative to `‖b‖`; `C12_residual_true_any` identifies them with the true residual `(b - A x_i)/‖b‖` for
every non-zero column with no further hypothesis, and `C12_stop_true_residual` is this theorem restated
on true residuals of the inputs). -/
theorem C12_stop (A : Matrix (Fin n) (Fin n) 𝕜) (P : Option (Matrix (Fin n) (Fin n) 𝕜))
    (B X0 : Fin m → EuclideanSpace 𝕜 (Fin n)) (maxIters : ℕ) (tol : ℝ) :
    let t := (runBatchedCG (matArr A) (colsArr B) (colsArr X0) maxIters ((tol : ℝ) : 𝕜)
      (P.map matArr)).k
    (t = maxIters ∨ ∀ j : Fin m, ‖(colState A P B X0 j t).r‖ ≤ tolEffR A P B X0 tol j) ∧
    ∀ i < t, ∃ j : Fin m, tolEffR A P B X0 tol j < ‖(colState A P B X0 j i).r‖ := by
  rw [run_k]; exact run_stop_exact A P B X0 maxIters tol

/-- **the recurrence residual is the residual of the normalised system — every column, every step, NO
hypothesis** (any `A`, any preconditioner, zero columns included, whatever the guards did):
`take_cg_step` updates `x += α p` and `r -= α A p` with the same `α`, so `r̂_i = b̂ - A x̂_i` with
`b̂ = b / scale`, `scale = where(‖b‖ == 0, 1, ‖b‖)` (`normDen`), `x̂_i` the loop's iterate. -/
theorem C12_residual_recurrence (A : Matrix (Fin n) (Fin n) 𝕜)
    (P : Option (Matrix (Fin n) (Fin n) 𝕜)) (B X0 : Fin m → EuclideanSpace 𝕜 (Fin n)) (j : Fin m)
    (i : ℕ) :
    (colState A P B X0 j i).r =
      (normDen (B j))⁻¹ • B j - Matrix.toEuclideanLin A (colState A P B X0 j i).x :=
  colState_r_rec A P B X0 j i

/-- **the residual the stopping test looks at IS the true residual, unconditionally**: for a column with
`b_j ≠ 0` — NO hypothesis on `A`, on the preconditioner, on guards, mask or tolerances — after every
number `i` of steps `r̂_i = (b - A x_i) / ‖b‖`, hence `‖r̂_i‖ ‖b‖ = ‖b - A x_i‖`, where
`x_i = gRun … i` is the vector the code returns for this column when the loop stops after `i` steps
(`xOut` is `gRun` at the number of steps made; `gRun … i` is the one-column run with `max_iters = i`,
`tol = 0`, third conjunct).  A zero column with `x0 ≠ 0` is the only case in which the test looks at
something else (`C12_residual_recurrence`: the residual of `A x = 0` from `x0`, while `0` is returned). -/
theorem C12_residual_true_any (A : Matrix (Fin n) (Fin n) 𝕜) (P : Option (Matrix (Fin n) (Fin n) 𝕜))
    (B X0 : Fin m → EuclideanSpace 𝕜 (Fin n)) (j : Fin m) (hb : B j ≠ 0) (i : ℕ) :
    (colState A P B X0 j i).r =
      (((‖B j‖ : ℝ) : 𝕜))⁻¹ • (B j - Matrix.toEuclideanLin A
        (gRun (Matrix.toEuclideanLin A) (precLin P) smallR (B j) (X0 j) i)) ∧
    ‖(colState A P B X0 j i).r‖ * ‖B j‖ = ‖B j - Matrix.toEuclideanLin A
        (gRun (Matrix.toEuclideanLin A) (precLin P) smallR (B j) (X0 j) i)‖ ∧
    gRun (Matrix.toEuclideanLin A) (precLin P) smallR (B j) (X0 j) i =
      xOut A P (oneCol (B j)) (oneCol (X0 j)) i (((0 : ℝ)) : 𝕜) 0 :=
  ⟨colState_r_true A P B X0 j hb i, colState_r_norm A P B X0 j hb i,
    (xOut_single A P (B j) (X0 j) i).symm⟩

/-- the round-1 hypothesis implies the input-level one: `GuardsOffN` (three thresholds on the computed
quantities of the normalised system) contains `1e-40 ≤ ‖r̂_i‖`, which by homogeneity of textbook CG is
`1e-40 ‖b‖ ≤ ‖b - A x_i‖`, i.e. `MaskOffN` (abstract inner product space, no hypothesis on `A`, `M`). -/
theorem C12_mask_of_guards {E : Type*} [NormedAddCommGroup E] [InnerProductSpace 𝕜 E]
    {A M : E →ₗ[𝕜] E} {ε : ℝ} {b x0 : E} (hb : b ≠ 0) {k : ℕ}
    (hg : GuardsOffN A M ε b x0 k) : MaskOffN A M ε b x0 k :=
  maskOffN_of_guardsOffN hb hg

/-- **true-residual link under the input-level hypothesis of `C12_optimal_mask`** (any batch, column `j`,
any `k`): `A` Hermitian positive definite, preconditioner `None` or Hermitian positive definite,
`b_j ≠ 0`, and the column has `not_converged` below `1e-40` relative to `‖b_j‖` before step `k`
(`MaskOffN`: `1e-40 ‖b‖ ≤ ‖b - A x_i‖` for the textbook iterates, `i < k`).  Then at EVERY step `i ≤ k`
the vector the code holds is the textbook iterate, and the residual the stopping test looks at is its
true residual `(b - A x_i)/‖b‖`, which is also the textbook recurrence residual `r_i/‖b‖`.
(The second conjunct alone needs none of the hypotheses: `C12_residual_true_any`.) -/
theorem C12_residual_true_mask {A : Matrix (Fin n) (Fin n) 𝕜} (hA : A.PosDef)
    {P : Option (Matrix (Fin n) (Fin n) 𝕜)} (hP : PrecPosDef P)
    (B X0 : Fin m → EuclideanSpace 𝕜 (Fin n)) (j : Fin m) (k : ℕ) (hb : B j ≠ 0)
    (not_converged : MaskOffN (Matrix.toEuclideanLin A) (precLin P) smallR (B j) (X0 j) k) :
    ∀ i ≤ k,
      gRun (Matrix.toEuclideanLin A) (precLin P) smallR (B j) (X0 j) i =
        (cgSeq (Matrix.toEuclideanLin A) (precLin P) (B j) (X0 j) i).x ∧
      (colState A P B X0 j i).r =
        (((‖B j‖ : ℝ) : 𝕜))⁻¹ • (B j - Matrix.toEuclideanLin A
          (gRun (Matrix.toEuclideanLin A) (precLin P) smallR (B j) (X0 j) i)) ∧
      (colState A P B X0 j i).r =
        (((‖B j‖ : ℝ) : 𝕜))⁻¹ • (cgSeq (Matrix.toEuclideanLin A) (precLin P) (B j) (X0 j) i).r ∧
      (cgSeq (Matrix.toEuclideanLin A) (precLin P) (B j) (X0 j) i).r =
        B j - Matrix.toEuclideanLin A
          (cgSeq (Matrix.toEuclideanLin A) (precLin P) (B j) (X0 j) i).x := by
  intro i hi
  have hAs := isSymmetric_toEuclideanLin hA
  have hMs := isSymmetric_precLin hP
  have pA := posDefOp_toEuclideanLin hA
  have pM := posDefOp_precLin hP
  obtain ⟨h1, h2, h3⟩ := gState_r_true_mask hAs hMs pA pM smallR_pos hb not_converged hi
  exact ⟨h1, h2, h3, cgSeq_res_of_mask hAs hMs pA pM smallR_pos hb (not_converged.mono hi)⟩

/-- the residual the stopping test looks at is the true residual of the returned vector divided by
`‖b‖`: `r̂_k = (b - A x_k) / ‖b‖` — the ROUND-1 STATEMENT (hypothesis `hg : GuardsOffN`, a condition on
computed quantities), kept unchanged because other families cite it.  It is now a corollary:
`GuardsOffN → MaskOffN` (`C12_mask_of_guards`) and `C12_residual_true_mask` at `i = k`; the identity
itself holds with `hb` alone (`C12_residual_true_any`), so `hA`, `hP`, `hg` are not needed for it. -/
theorem C12_residual_true {A : Matrix (Fin n) (Fin n) 𝕜} (hA : A.PosDef)
    {P : Option (Matrix (Fin n) (Fin n) 𝕜)} (hP : PrecPosDef P)
    (B X0 : Fin m → EuclideanSpace 𝕜 (Fin n)) (j : Fin m) (k : ℕ) (hb : B j ≠ 0)
    (hg : GuardsOffN (Matrix.toEuclideanLin A) (precLin P) smallR (B j) (X0 j) k) :
    (colState A P B X0 j k).r =
      (((‖B j‖ : ℝ) : 𝕜))⁻¹ • (B j - Matrix.toEuclideanLin A
        (gRun (Matrix.toEuclideanLin A) (precLin P) smallR (B j) (X0 j) k)) :=
  (C12_residual_true_mask hA hP B X0 j k hb (C12_mask_of_guards hb hg) k le_rfl).2.1

/-- **zero right-hand side ⇒ exactly zero** (any `x0`, any other columns, any guards) -/
theorem C12_zero (A : Matrix (Fin n) (Fin n) 𝕜) (P : Option (Matrix (Fin n) (Fin n) 𝕜))
    (B X0 : Fin m → EuclideanSpace 𝕜 (Fin n)) (maxIters : ℕ) (tol : 𝕜) (j : Fin m)
    (hb : B j = 0) : xOut A P B X0 maxIters tol j = 0 :=
  xOut_zero A P B X0 maxIters tol j hb

example : ∃ (B X0 : Fin 2 → EuclideanSpace ℝ (Fin 2)) (j : Fin 2), B j = 0 ∧ B 1 ≠ 0 ∧ X0 j ≠ 0 :=
  ⟨![0, exb], ![exb, 0], 0, rfl, by
    show exb ≠ 0
    intro h; have := exb_norm; rw [h, norm_zero] at this; exact zero_ne_one this, by
    show exb ≠ 0
    intro h; have := exb_norm; rw [h, norm_zero] at this; exact zero_ne_one this⟩

/-- **linear scaling with `b`** (`x0 = None`, any real `c > 0`, no further hypothesis): the run on
`c • b` makes the same steps, reports the same `info` and returns `c •` the solution. -/
theorem C12_scale (A : Matrix (Fin n) (Fin n) 𝕜) (P : Option (Matrix (Fin n) (Fin n) 𝕜))
    (B : Fin m → EuclideanSpace 𝕜 (Fin n)) {c : ℝ} (hc : 0 < c) (maxIters : ℕ) (tol : 𝕜) :
    let res := cg (matArr A) (colsArr B) none (P.map matArr) tol maxIters
    let res' := cg (matArr A) (colsArr (fun j => (c : 𝕜) • B j)) none (P.map matArr) tol maxIters
    res'.k = res.k ∧ res'.info = res.info ∧
      res.x = colsArr (xOut A P B (zeroCols 𝕜 n m) maxIters tol) ∧
      res'.x = colsArr (fun j => (c : 𝕜) • xOut A P B (zeroCols 𝕜 n m) maxIters tol j) :=
  cg_scale A P B hc maxIters tol

example : ∃ c : ℝ, 0 < c ∧ c ≠ 1 := ⟨3, by norm_num, by norm_num⟩

/-- **columns**: column `j` of a batched run that made `t` steps equals the single-column run of
`t` steps (`max_iters = t`, `tol = 0`) on `(b_j, x0_j)`: the only coupling between the columns is
the number of steps. -/
theorem C12_columns (A : Matrix (Fin n) (Fin n) 𝕜) (P : Option (Matrix (Fin n) (Fin n) 𝕜))
    (B X0 : Fin m → EuclideanSpace 𝕜 (Fin n)) (maxIters : ℕ) (tol : 𝕜) (j : Fin m) :
    xOut A P B X0 maxIters tol j =
      xOut A P (oneCol (B j)) (oneCol (X0 j))
        (runBatchedCG (matArr A) (colsArr B) (colsArr X0) maxIters tol (P.map matArr)).k
        (((0 : ℝ)) : 𝕜) 0 := by
  rw [run_k]; exact xOut_columns A P B X0 maxIters tol j

/-- **no breakdown from positive definiteness** (abstract inner product space): for symmetric
positive definite `A`, `M`, while the residuals `r_0 … r_i` are non-zero, `γ_i = ⟪r_i, M r_i⟫` and
`⟪p_i, A p_i⟫` are positive reals — the guarded divisions never see a zero denominator, only
(possibly) one below `1e-40`. -/
theorem C12_guards_positive {E : Type*} [NormedAddCommGroup E] [InnerProductSpace 𝕜 E]
    {A M : E →ₗ[𝕜] E} (hA : A.IsSymmetric) (hM : M.IsSymmetric) (pA : PosDefOp A) (pM : PosDefOp M)
    {b x0 : E} {i : ℕ} (hr : ∀ j ≤ i, (cgSeq A M b x0 j).r ≠ 0) :
    (0 < RCLike.re (cgSeq A M b x0 i).γ ∧
      ((RCLike.re (cgSeq A M b x0 i).γ : ℝ) : 𝕜) = (cgSeq A M b x0 i).γ) ∧
    (0 < RCLike.re ⟪(cgSeq A M b x0 i).p, A (cgSeq A M b x0 i).p⟫_𝕜 ∧
      ((RCLike.re ⟪(cgSeq A M b x0 i).p, A (cgSeq A M b x0 i).p⟫_𝕜 : ℝ) : 𝕜) =
        ⟪(cgSeq A M b x0 i).p, A (cgSeq A M b x0 i).p⟫_𝕜) :=
  ⟨gamma_pos hA hM pA pM hr, pAp_pos hA hM pA pM hr⟩

/-- the hypotheses of `C12_guards_positive` hold for `A = diag(2, 3)`, `M = id`, `b = e₀`, `x0 = 0`,
`i = 0` -/
example :
    (Matrix.toEuclideanLin exA).IsSymmetric ∧
    (precLin (none : Option (Matrix (Fin 2) (Fin 2) ℝ))).IsSymmetric ∧
    PosDefOp (Matrix.toEuclideanLin exA) ∧
    PosDefOp (precLin (none : Option (Matrix (Fin 2) (Fin 2) ℝ))) ∧
    ∀ j ≤ 0, (cgSeq (Matrix.toEuclideanLin exA) (precLin none) exb 0 j).r ≠ 0 := by
  refine ⟨isSymmetric_toEuclideanLin exA_posDef, isSymmetric_precLin (fun _ h => by cases h),
    posDefOp_toEuclideanLin exA_posDef, posDefOp_precLin (fun _ h => by cases h), ?_⟩
  intro j hj
  have : j = 0 := Nat.le_zero.mp hj
  subst this
  show exb - (Matrix.toEuclideanLin exA) 0 ≠ 0
  rw [map_zero, sub_zero]
  intro h; have := exb_norm; rw [h, norm_zero] at this; exact zero_ne_one this

/-- with no guard active the model returns the textbook preconditioned-CG iterate of the ORIGINAL
system (the normalisation by `‖b‖` is invisible) -/
theorem C12_is_textbook_cg (A : Matrix (Fin n) (Fin n) 𝕜) (P : Option (Matrix (Fin n) (Fin n) 𝕜))
    (B X0 : Fin m → EuclideanSpace 𝕜 (Fin n)) (maxIters : ℕ) (tol : 𝕜) (j : Fin m)
    (hb : B j ≠ 0)
    (hg : GuardsOffN (Matrix.toEuclideanLin A) (precLin P) smallR (B j) (X0 j)
      (runBatchedCG (matArr A) (colsArr B) (colsArr X0) maxIters tol (P.map matArr)).k) :
    xOut A P B X0 maxIters tol j =
      (cgSeq (Matrix.toEuclideanLin A) (precLin P) (B j) (X0 j)
        (runBatchedCG (matArr A) (colsArr B) (colsArr X0) maxIters tol (P.map matArr)).k).x := by
  rw [run_k] at hg ⊢
  exact gRun_eq_cgSeq smallR_pos hb hg

/-- **Krylov optimality** (𝕜 = ℝ or ℂ, any `n`, any number of columns, any `x0`, any
`max_iters`, `tol`).  `A` Hermitian positive definite, preconditioner `None` or Hermitian positive
definite; column `j` with `b_j ≠ 0` (zero columns: `C12_zero`) and no guard of `take_cg_step` active
during the `k` steps the loop made.  Then the returned column lies in `x0 + K_k(MA, M r0)`, its
energy `re ⟪x* - ·, A (x* - ·)⟫` (squared `A`-norm of the error) is minimal over that set, and it is
the ONLY minimiser.

Full statement of the property: the same without the hypothesis `hg`.  It is false of the code and
of the model once a guard acts (the mask freezes a column whose residual is below `1e-40` relative
to `‖b‖`, the guarded divisions replace denominators below `1e-40`): `hg` says exactly "no guard
acts", and by `C12_guards_positive` a guard can only act on a quantity below `1e-40` — it never
sees a zero or negative denominator while the residual is non-zero. -/
theorem C12_optimal {A : Matrix (Fin n) (Fin n) 𝕜} (hA : A.PosDef)
    {P : Option (Matrix (Fin n) (Fin n) 𝕜)} (hP : PrecPosDef P)
    (B X0 : Fin m → EuclideanSpace 𝕜 (Fin n)) (maxIters : ℕ) (tol : 𝕜) (j : Fin m)
    (hb : B j ≠ 0)
    (hg : GuardsOffN (Matrix.toEuclideanLin A) (precLin P) smallR (B j) (X0 j)
      (runBatchedCG (matArr A) (colsArr B) (colsArr X0) maxIters tol (P.map matArr)).k)
    {xs : EuclideanSpace 𝕜 (Fin n)} (hxs : Matrix.toEuclideanLin A xs = B j) :
    let k := (runBatchedCG (matArr A) (colsArr B) (colsArr X0) maxIters tol (P.map matArr)).k
    let Kry := krylov (precLin P ∘ₗ Matrix.toEuclideanLin A)
      (precLin P (B j - Matrix.toEuclideanLin A (X0 j))) k
    xOut A P B X0 maxIters tol j - X0 j ∈ Kry ∧
    (∀ y, y - X0 j ∈ Kry →
      energy (Matrix.toEuclideanLin A) xs (xOut A P B X0 maxIters tol j) ≤
        energy (Matrix.toEuclideanLin A) xs y) ∧
    (∀ y, y - X0 j ∈ Kry →
      energy (Matrix.toEuclideanLin A) xs y ≤
        energy (Matrix.toEuclideanLin A) xs (xOut A P B X0 maxIters tol j) →
      y = xOut A P B X0 maxIters tol j) := by
  rw [run_k] at hg ⊢
  exact xOut_optimal hA hP B X0 maxIters tol j hb hg hxs

/-- the hypotheses of `C12_optimal` (and of `C12_is_textbook_cg`, `C12_residual_true`) hold for `A = diag(2, 3)`, `b = e₀`, `x0 = 0`, no
preconditioner, `max_iters = 1`, `tol = 1/2` (and the exact solution exists) -/
example :
    exA.PosDef ∧ PrecPosDef (none : Option (Matrix (Fin 2) (Fin 2) ℝ)) ∧ oneCol exb 0 ≠ 0 ∧
    GuardsOffN (Matrix.toEuclideanLin exA) (precLin none) smallR (oneCol exb 0)
      (oneCol (0 : EuclideanSpace ℝ (Fin 2)) 0)
      (runBatchedCG (matArr exA) (colsArr (oneCol exb))
        (colsArr (oneCol (0 : EuclideanSpace ℝ (Fin 2)))) 1 ((1 / 2 : ℝ))
        ((none : Option (Matrix (Fin 2) (Fin 2) ℝ)).map matArr)).k ∧
    Matrix.toEuclideanLin exA exxs = oneCol exb 0 := by
  refine ⟨exA_posDef, (fun _ h => by cases h), ?_, ex_guards _ (C12_cap _ _ _ _ _ _), exxs_solves⟩
  show exb ≠ 0
  intro h; have := exb_norm; rw [h, norm_zero] at this; exact zero_ne_one this

/-! ## round 2: the guard hypothesis from conditions on the inputs -/

/-- **the three guards reduce to one condition on the textbook residual** (abstract inner product
space).  `A`, `M` symmetric and coercive (`cA ‖v‖² ≤ re ⟪v, A v⟫`, i.e. `cA ≤ λ_min(A)`; same for `M`),
`b ≠ 0`, `τ` admissible for `(1e-40, cA, cM)`.  If the residuals `r_i = b - A x_i` of TEXTBOOK CG on the
original system satisfy `τ ‖b‖ ≤ ‖r_i‖` for `i < k`, no guard of `take_cg_step` acts in the first
`k` steps.  (`cgSeq … i).r` is the textbook residual: `CGInv.res`.) -/
theorem C12_guards_from_residual {E : Type*} [NormedAddCommGroup E] [InnerProductSpace 𝕜 E]
    {A M : E →ₗ[𝕜] E} (hA : A.IsSymmetric) (hM : M.IsSymmetric) {ε cA cM τ : ℝ} (hcA : 0 < cA)
    (hcM : 0 < cM) (A_coercive : Coercive A cA) (M_coercive : Coercive M cM) (hτ0 : 0 < τ)
    (τ_admissible : TolAdmissible ε cA cM τ) {b x0 : E} (hb : b ≠ 0) {k : ℕ}
    (residual_above : ∀ i < k, τ * ‖b‖ ≤ ‖(cgSeq A M b x0 i).r‖) :
    GuardsOffN A M ε b x0 k :=
  guardsOffN_of_resid hA hM hcA hcM A_coercive M_coercive hτ0 τ_admissible hb residual_above

/-- the guarded denominators are bounded below by the residual: `cM ‖r_i‖² ≤ |γ_i|`,
`cA cM² ‖r_i‖² ≤ |⟪p_i, A p_i⟫|` while `r_0 … r_i ≠ 0` (quantitative `C12_guards_positive`) -/
theorem C12_guards_lower {E : Type*} [NormedAddCommGroup E] [InnerProductSpace 𝕜 E]
    {A M : E →ₗ[𝕜] E} (hA : A.IsSymmetric) (hM : M.IsSymmetric) {cA cM : ℝ} (hcA : 0 < cA)
    (hcM : 0 < cM) (A_coercive : Coercive A cA) (M_coercive : Coercive M cM) {b x0 : E} {i : ℕ}
    (hr : ∀ j ≤ i, (cgSeq A M b x0 j).r ≠ 0) :
    cM * ‖(cgSeq A M b x0 i).r‖ ^ 2 ≤ ‖(cgSeq A M b x0 i).γ‖ ∧
      cA * cM ^ 2 * ‖(cgSeq A M b x0 i).r‖ ^ 2 ≤
        ‖⟪(cgSeq A M b x0 i).p, A (cgSeq A M b x0 i).p⟫_𝕜‖ :=
  guards_lower hA hM hcA hcM A_coercive M_coercive hr

/-- **the directions span the Krylov space the property names**: for symmetric positive definite `A`,
`M` and non-zero residuals `r_0 … r_{k-1}`, `span {p_i | i < k} = K_k(MA, M r0)` and the iterate is the
energy minimiser over `x0 +` that space.  No breakdown hypothesis: positive definiteness gives it. -/
theorem C12_dirs_eq_krylov {E : Type*} [NormedAddCommGroup E] [InnerProductSpace 𝕜 E]
    {A M : E →ₗ[𝕜] E} (hA : A.IsSymmetric) (hM : M.IsSymmetric) (pA : PosDefOp A) (pM : PosDefOp M)
    {b x0 : E} (k : ℕ) (hr : ∀ i < k, (cgSeq A M b x0 i).r ≠ 0) :
    Submodule.span 𝕜 ((fun i => (cgSeq A M b x0 i).p) '' {i | i < k}) =
      krylov (M ∘ₗ A) (M (b - A x0)) k ∧
    ∀ {xs : E}, A xs = b → ∀ y, y - x0 ∈ krylov (M ∘ₗ A) (M (b - A x0)) k →
      energy A xs (cgSeq A M b x0 k).x ≤ energy A xs y :=
  ⟨dirs_eq_krylov_of_resid hA hM pA pM k hr,
   fun hxs _ hy => cg_optimal_krylov hA hM pA pM hxs hr hy⟩

/-- **Krylov optimality with the guard hypothesis replaced by ONE condition on the textbook
residuals** (any batch, column `j`): for `i < k` (the steps made) the relative residual
`‖b - A x_i‖ / ‖b‖` of the textbook iterate is at least an admissible `τ`. -/
theorem C12_optimal_resid {A : Matrix (Fin n) (Fin n) 𝕜} (hA : A.PosDef)
    {P : Option (Matrix (Fin n) (Fin n) 𝕜)} (hP : PrecPosDef P) {cA cM τ : ℝ} (hcA : 0 < cA)
    (hcM : 0 < cM) (A_coercive : Coercive (Matrix.toEuclideanLin A) cA)
    (P_coercive : Coercive (precLin P) cM) (hτ0 : 0 < τ) (τ_admissible : TolAdmissible smallR cA cM τ)
    (B X0 : Fin m → EuclideanSpace 𝕜 (Fin n)) (maxIters : ℕ) (tol : 𝕜) (j : Fin m)
    (hb : B j ≠ 0)
    (residual_above : ∀ i < (runBatchedCG (matArr A) (colsArr B) (colsArr X0) maxIters tol
        (P.map matArr)).k,
      τ * ‖B j‖ ≤ ‖(cgSeq (Matrix.toEuclideanLin A) (precLin P) (B j) (X0 j) i).r‖)
    {xs : EuclideanSpace 𝕜 (Fin n)} (hxs : Matrix.toEuclideanLin A xs = B j) :
    let k := (runBatchedCG (matArr A) (colsArr B) (colsArr X0) maxIters tol (P.map matArr)).k
    let Kry := krylov (precLin P ∘ₗ Matrix.toEuclideanLin A)
      (precLin P (B j - Matrix.toEuclideanLin A (X0 j))) k
    xOut A P B X0 maxIters tol j - X0 j ∈ Kry ∧
    (∀ y, y - X0 j ∈ Kry →
      energy (Matrix.toEuclideanLin A) xs (xOut A P B X0 maxIters tol j) ≤
        energy (Matrix.toEuclideanLin A) xs y) ∧
    (∀ y, y - X0 j ∈ Kry →
      energy (Matrix.toEuclideanLin A) xs y ≤
        energy (Matrix.toEuclideanLin A) xs (xOut A P B X0 maxIters tol j) →
      y = xOut A P B X0 maxIters tol j) := by
  have hg := guardsOffN_of_resid (isSymmetric_toEuclideanLin hA) (isSymmetric_precLin hP) hcA hcM
    A_coercive P_coercive hτ0 τ_admissible hb residual_above
  rw [run_k] at hg ⊢
  exact xOut_optimal hA hP B X0 maxIters tol j hb hg hxs

/-- **Krylov optimality from conditions on the INPUTS only** (one right-hand side, `cg` with a 1-D
`rhs` or a batch of one).  `A` Hermitian positive definite with `cA ≤ λ_min(A)`, preconditioner `None`
or Hermitian positive definite with `cM ≤ λ_min(P)`, `b ≠ 0`, and `tol` admissible:
`1e-40 ≤ tol`, `1e-40 ≤ cM tol²`, `1e-40 ≤ cA cM² tol²`.  Then, with `k` the number of steps the loop
made (any `max_iters`, any `x0`): NO guard of `take_cg_step` acted (`GuardsOffN`), the returned vector
is the `k`-th textbook CG iterate, it lies in `x0 + K_k(MA, M r0)`, minimises the energy over it and
is the only minimiser.  No hypothesis on computed quantities: the stopping test itself keeps the
relative residual above `tol` while the loop runs, and `C12_guards_lower` bounds the two guarded
denominators below by the residual. -/
theorem C12_optimal_inputs {A : Matrix (Fin n) (Fin n) 𝕜} (hA : A.PosDef)
    {P : Option (Matrix (Fin n) (Fin n) 𝕜)} (hP : PrecPosDef P) {cA cM : ℝ} (hcA : 0 < cA)
    (hcM : 0 < cM) (A_coercive : Coercive (Matrix.toEuclideanLin A) cA)
    (P_coercive : Coercive (precLin P) cM)
    (B X0 : Fin 1 → EuclideanSpace 𝕜 (Fin n)) (hb : B 0 ≠ 0) (maxIters : ℕ) {tol : ℝ}
    (tol_pos : 0 < tol) (tol_admissible : TolAdmissible smallR cA cM tol)
    {xs : EuclideanSpace 𝕜 (Fin n)} (hxs : Matrix.toEuclideanLin A xs = B 0) :
    let k := (runBatchedCG (matArr A) (colsArr B) (colsArr X0) maxIters ((tol : ℝ) : 𝕜)
      (P.map matArr)).k
    let Kry := krylov (precLin P ∘ₗ Matrix.toEuclideanLin A)
      (precLin P (B 0 - Matrix.toEuclideanLin A (X0 0))) k
    GuardsOffN (Matrix.toEuclideanLin A) (precLin P) smallR (B 0) (X0 0) k ∧
    xOut A P B X0 maxIters ((tol : ℝ) : 𝕜) 0 =
      (cgSeq (Matrix.toEuclideanLin A) (precLin P) (B 0) (X0 0) k).x ∧
    xOut A P B X0 maxIters ((tol : ℝ) : 𝕜) 0 - X0 0 ∈ Kry ∧
    (∀ y, y - X0 0 ∈ Kry →
      energy (Matrix.toEuclideanLin A) xs (xOut A P B X0 maxIters ((tol : ℝ) : 𝕜) 0) ≤
        energy (Matrix.toEuclideanLin A) xs y) ∧
    (∀ y, y - X0 0 ∈ Kry →
      energy (Matrix.toEuclideanLin A) xs y ≤
        energy (Matrix.toEuclideanLin A) xs (xOut A P B X0 maxIters ((tol : ℝ) : 𝕜) 0) →
      y = xOut A P B X0 maxIters ((tol : ℝ) : 𝕜) 0) := by
  have hg := guardsOffN_single hA hP hcA hcM A_coercive P_coercive B X0 hb maxIters tol_pos
    tol_admissible
  rw [run_k]
  obtain ⟨h1, h2, h3⟩ := xOut_optimal hA hP B X0 maxIters ((tol : ℝ) : 𝕜) 0 hb hg hxs
  exact ⟨hg, gRun_eq_cgSeq smallR_pos hb hg, h1, h2, h3⟩

/-- **for Hermitian positive definite inputs there is a threshold `τ₀ > 0` depending only on `A` and
the preconditioner** (explicitly: any `τ₀` admissible for `λ_min(A)`, `λ_min(P)`, e.g.
`max(1e-40, 1e-20/√λ_min(P), 1e-20/(λ_min(P) √λ_min(A)))`) such that EVERY single-right-hand-side run
with `tol ≥ τ₀` — any `b ≠ 0`, `x0`, `max_iters` — returns the Krylov-optimal iterate of the step at
which it stops.  Hypotheses on the inputs only.  (Since the repair of `do_safe_div`, `τ₀ = 1e-40` works
for every `A`, `P`: `C12_optimal_single`; and `C12_optimal_any` covers every `tol ≥ 0`.) -/
theorem C12_optimal_hpd {A : Matrix (Fin n) (Fin n) 𝕜} (hA : A.PosDef)
    {P : Option (Matrix (Fin n) (Fin n) 𝕜)} (hP : PrecPosDef P) :
    ∃ τ₀ : ℝ, 0 < τ₀ ∧ ∀ (B X0 : Fin 1 → EuclideanSpace 𝕜 (Fin n)) (maxIters : ℕ) (tol : ℝ),
      τ₀ ≤ tol → B 0 ≠ 0 → ∀ xs : EuclideanSpace 𝕜 (Fin n), Matrix.toEuclideanLin A xs = B 0 →
      let k := (runBatchedCG (matArr A) (colsArr B) (colsArr X0) maxIters ((tol : ℝ) : 𝕜)
        (P.map matArr)).k
      let Kry := krylov (precLin P ∘ₗ Matrix.toEuclideanLin A)
        (precLin P (B 0 - Matrix.toEuclideanLin A (X0 0))) k
      xOut A P B X0 maxIters ((tol : ℝ) : 𝕜) 0 - X0 0 ∈ Kry ∧
      (∀ y, y - X0 0 ∈ Kry →
        energy (Matrix.toEuclideanLin A) xs (xOut A P B X0 maxIters ((tol : ℝ) : 𝕜) 0) ≤
          energy (Matrix.toEuclideanLin A) xs y) ∧
      (∀ y, y - X0 0 ∈ Kry →
        energy (Matrix.toEuclideanLin A) xs y ≤
          energy (Matrix.toEuclideanLin A) xs (xOut A P B X0 maxIters ((tol : ℝ) : 𝕜) 0) →
        y = xOut A P B X0 maxIters ((tol : ℝ) : 𝕜) 0) := by
  obtain ⟨cA, hcA, cA'⟩ := exists_coercive_of_posDefOp (posDefOp_toEuclideanLin hA)
  obtain ⟨cM, hcM, cM'⟩ := exists_coercive_of_posDefOp (posDefOp_precLin hP)
  obtain ⟨τ₀, hτ₀, hadm⟩ := exists_tolAdmissible smallR_pos hcA hcM
  refine ⟨τ₀, hτ₀, ?_⟩
  intro B X0 maxIters tol htol hb xs hxs
  have h := C12_optimal_inputs hA hP hcA hcM cA' cM' B X0 hb maxIters (lt_of_lt_of_le hτ₀ htol)
    (hadm.mono hcA hcM hτ₀.le htol) hxs
  exact h.2.2

/-- **witness, `k = 3` on a non-diagonal 3 × 3 system** (exact rationals): `A = tridiag(-1, 2, -1)`,
`b = e₀`, `x0 = 0`, no preconditioner, `max_iters = 5`, `tol = 1/10`, `cA = 1/2`, `cM = 1`.  Every
hypothesis of `C12_optimal_inputs` (and through its first conclusion of `C12_optimal`,
`C12_is_textbook_cg`, `C12_residual_true`) holds, the loop makes exactly `3` steps and returns the
exact solution `(3/4, 1/2, 1/4)`. -/
theorem C12_witness_three_steps :
    exA3.PosDef ∧ PrecPosDef (none : Option (Matrix (Fin 3) (Fin 3) ℝ)) ∧
    Coercive (Matrix.toEuclideanLin exA3) (1 / 2) ∧
    Coercive (precLin (none : Option (Matrix (Fin 3) (Fin 3) ℝ))) 1 ∧
    oneCol exb3 0 ≠ 0 ∧ TolAdmissible smallR (1 / 2) 1 (1 / 10) ∧
    Matrix.toEuclideanLin exA3 !₂[3 / 4, 1 / 2, 1 / 4] = oneCol exb3 0 ∧
    (runBatchedCG (matArr exA3) (colsArr (oneCol exb3)) (colsArr (oneCol exz3)) 5
      (((1 / 10 : ℝ) : ℝ) : ℝ) ((none : Option (Matrix (Fin 3) (Fin 3) ℝ)).map matArr)).k = 3 ∧
    xOut exA3 none (oneCol exb3) (oneCol exz3) 5 (((1 / 10 : ℝ) : ℝ) : ℝ) 0 =
      !₂[3 / 4, 1 / 2, 1 / 4] := by
  have hk : (runBatchedCG (matArr exA3) (colsArr (oneCol exb3)) (colsArr (oneCol exz3)) 5
      (RCLike.ofReal (1 / 10 : ℝ)) ((none : Option (Matrix (Fin 3) (Fin 3) ℝ)).map matArr)).k = 3 := by
    rw [run_k]; exact ex3_steps
  refine ⟨exA3_posDef, ex3_noprec, exA3_coercive, Mi_coercive, exb3_ne, ex3_tol, ex3_solves, hk, ?_⟩
  have h := C12_optimal_inputs exA3_posDef ex3_noprec (by norm_num) one_pos exA3_coercive
    Mi_coercive (oneCol exb3) (oneCol exz3) exb3_ne 5 (by norm_num) ex3_tol ex3_solves
  have h2 := h.2.1
  rw [hk] at h2
  rw [show (((1 / 10 : ℝ) : ℝ) : ℝ) = RCLike.ofReal (1 / 10 : ℝ) from rfl, h2]
  exact exS3.1

/-! ## round 2b: after the repair of `do_safe_div` (exact zero test, /repo 1a4d949)

The two guarded divisions now replace a denominator only when it is EXACTLY zero, which for Hermitian
positive definite `A`, `P` cannot happen while the residual is non-zero (`noBreak_of_posDef`).  The
only guard left is the `has_converged` mask `‖r̂‖ < 1e-40` (relative to `‖b‖`; it is still in the code).
`MaskOffN A M ε b x0 k` : `ε ‖b‖ ≤ ‖b - A x_i‖` for the textbook iterates `x_i`, `i < k`. -/

/-- **Krylov optimality, any batch, column `j`** — the hypothesis is reduced to "column `j` has not
converged below `1e-40` relative to `‖b_j‖` before step `k`" (`MaskOffN`; no condition on `γ`,
`⟪p, A p⟫`, no constants of `A`, `P`).  `C12_optimal` and `C12_optimal_resid` are special cases. -/
theorem C12_optimal_mask {A : Matrix (Fin n) (Fin n) 𝕜} (hA : A.PosDef)
    {P : Option (Matrix (Fin n) (Fin n) 𝕜)} (hP : PrecPosDef P)
    (B X0 : Fin m → EuclideanSpace 𝕜 (Fin n)) (maxIters : ℕ) (tol : 𝕜) (j : Fin m)
    (hb : B j ≠ 0)
    (not_converged : MaskOffN (Matrix.toEuclideanLin A) (precLin P) smallR (B j) (X0 j)
      (runBatchedCG (matArr A) (colsArr B) (colsArr X0) maxIters tol (P.map matArr)).k)
    {xs : EuclideanSpace 𝕜 (Fin n)} (hxs : Matrix.toEuclideanLin A xs = B j) :
    let k := (runBatchedCG (matArr A) (colsArr B) (colsArr X0) maxIters tol (P.map matArr)).k
    let Kry := krylov (precLin P ∘ₗ Matrix.toEuclideanLin A)
      (precLin P (B j - Matrix.toEuclideanLin A (X0 j))) k
    xOut A P B X0 maxIters tol j =
      (cgSeq (Matrix.toEuclideanLin A) (precLin P) (B j) (X0 j) k).x ∧
    xOut A P B X0 maxIters tol j - X0 j ∈ Kry ∧
    (∀ y, y - X0 j ∈ Kry →
      energy (Matrix.toEuclideanLin A) xs (xOut A P B X0 maxIters tol j) ≤
        energy (Matrix.toEuclideanLin A) xs y) ∧
    (∀ y, y - X0 j ∈ Kry →
      energy (Matrix.toEuclideanLin A) xs y ≤
        energy (Matrix.toEuclideanLin A) xs (xOut A P B X0 maxIters tol j) →
      y = xOut A P B X0 maxIters tol j) := by
  rw [run_k] at not_converged ⊢
  exact xOut_optimal_mask hA hP B X0 maxIters tol j hb not_converged hxs

/-- **one right-hand side, every `tol ≥ 1e-40`, inputs only**: `A` Hermitian positive definite,
preconditioner `None` or Hermitian positive definite, `b ≠ 0`.  With `k` the number of steps the loop
made (any `max_iters`, any `x0`) the returned vector is the `k`-th textbook iterate and the unique
energy minimiser over `x0 + K_k(MA, M r0)`.  No constants of `A`, `P`, no hypothesis on intermediates:
`τ₀` of `C12_optimal_hpd` is the fixed constant `1e-40` (the mask of `take_cg_step`). -/
theorem C12_optimal_single {A : Matrix (Fin n) (Fin n) 𝕜} (hA : A.PosDef)
    {P : Option (Matrix (Fin n) (Fin n) 𝕜)} (hP : PrecPosDef P)
    (B X0 : Fin 1 → EuclideanSpace 𝕜 (Fin n)) (hb : B 0 ≠ 0) (maxIters : ℕ) {tol : ℝ}
    (tol_ge : smallR ≤ tol)
    {xs : EuclideanSpace 𝕜 (Fin n)} (hxs : Matrix.toEuclideanLin A xs = B 0) :
    let k := (runBatchedCG (matArr A) (colsArr B) (colsArr X0) maxIters ((tol : ℝ) : 𝕜)
      (P.map matArr)).k
    let Kry := krylov (precLin P ∘ₗ Matrix.toEuclideanLin A)
      (precLin P (B 0 - Matrix.toEuclideanLin A (X0 0))) k
    xOut A P B X0 maxIters ((tol : ℝ) : 𝕜) 0 =
      (cgSeq (Matrix.toEuclideanLin A) (precLin P) (B 0) (X0 0) k).x ∧
    xOut A P B X0 maxIters ((tol : ℝ) : 𝕜) 0 - X0 0 ∈ Kry ∧
    (∀ y, y - X0 0 ∈ Kry →
      energy (Matrix.toEuclideanLin A) xs (xOut A P B X0 maxIters ((tol : ℝ) : 𝕜) 0) ≤
        energy (Matrix.toEuclideanLin A) xs y) ∧
    (∀ y, y - X0 0 ∈ Kry →
      energy (Matrix.toEuclideanLin A) xs y ≤
        energy (Matrix.toEuclideanLin A) xs (xOut A P B X0 maxIters ((tol : ℝ) : 𝕜) 0) →
      y = xOut A P B X0 maxIters ((tol : ℝ) : 𝕜) 0) := by
  have hg := maskOffN_single hA hP B X0 hb maxIters tol_ge
  rw [run_k]
  exact xOut_optimal_mask hA hP B X0 maxIters ((tol : ℝ) : 𝕜) 0 hb hg hxs

/-- **every `tol` (also `0`), every batch, every `max_iters` — no hypothesis beyond the property's
premise.**  `A` Hermitian positive definite, preconditioner `None` or Hermitian positive definite,
`b_j ≠ 0`.  With `k` the number of steps the loop made there is `k' ≤ k` such that the returned column is
the `k'`-th textbook iterate — the unique energy minimiser over `x0 + K_{k'}(MA, M r0)` — and either
`k' = k`, or the column had converged: `‖b - A x_{k'}‖ < 1e-40 ‖b‖` (there the `has_converged` mask
freezes it while other columns, or a tolerance below `1e-40`, keep the loop running). -/
theorem C12_optimal_any {A : Matrix (Fin n) (Fin n) 𝕜} (hA : A.PosDef)
    {P : Option (Matrix (Fin n) (Fin n) 𝕜)} (hP : PrecPosDef P)
    (B X0 : Fin m → EuclideanSpace 𝕜 (Fin n)) (maxIters : ℕ) (tol : 𝕜) (j : Fin m)
    (hb : B j ≠ 0) {xs : EuclideanSpace 𝕜 (Fin n)} (hxs : Matrix.toEuclideanLin A xs = B j) :
    let k := (runBatchedCG (matArr A) (colsArr B) (colsArr X0) maxIters tol (P.map matArr)).k
    ∃ k', k' ≤ k ∧
      (k' = k ∨ ‖B j - Matrix.toEuclideanLin A (xOut A P B X0 maxIters tol j)‖ < smallR * ‖B j‖) ∧
      xOut A P B X0 maxIters tol j =
        (cgSeq (Matrix.toEuclideanLin A) (precLin P) (B j) (X0 j) k').x ∧
      xOut A P B X0 maxIters tol j - X0 j ∈ krylov (precLin P ∘ₗ Matrix.toEuclideanLin A)
        (precLin P (B j - Matrix.toEuclideanLin A (X0 j))) k' ∧
      (∀ y, y - X0 j ∈ krylov (precLin P ∘ₗ Matrix.toEuclideanLin A)
          (precLin P (B j - Matrix.toEuclideanLin A (X0 j))) k' →
        energy (Matrix.toEuclideanLin A) xs (xOut A P B X0 maxIters tol j) ≤
          energy (Matrix.toEuclideanLin A) xs y) ∧
      (∀ y, y - X0 j ∈ krylov (precLin P ∘ₗ Matrix.toEuclideanLin A)
          (precLin P (B j - Matrix.toEuclideanLin A (X0 j))) k' →
        energy (Matrix.toEuclideanLin A) xs y ≤
          energy (Matrix.toEuclideanLin A) xs (xOut A P B X0 maxIters tol j) →
        y = xOut A P B X0 maxIters tol j) := by
  intro k
  have hAs := isSymmetric_toEuclideanLin hA
  have hMs := isSymmetric_precLin hP
  have pA := posDefOp_toEuclideanLin hA
  have pM := posDefOp_precLin hP
  obtain ⟨k', hk', hmask, hor, hx⟩ := xOut_final hA hP B X0 maxIters tol j hb
  have hbpos : 0 < ‖B j‖ := norm_pos_iff.mpr hb
  have hr : ∀ i < k', (cgSeq (Matrix.toEuclideanLin A) (precLin P) (B j) (X0 j) i).r ≠ 0 := by
    intro i hi h0
    have := hmask i hi
    rw [h0, norm_zero] at this
    have : 0 < smallR * ‖B j‖ := mul_pos smallR_pos hbpos
    linarith
  have hnb := noBreak_of_posDef hAs hMs pA pM k' hr
  have hinv := cgInv_all hAs hMs k' hnb k' le_rfl
  refine ⟨k', by rw [show k = _ from run_k _ _ _ _ _ _]; exact hk', ?_, hx, ?_, ?_, ?_⟩
  · rcases hor with h | h
    · left; rw [show k = _ from run_k _ _ _ _ _ _]; exact h
    · right; rw [hx, ← hinv.res]; exact h
  · rw [hx]; exact x_mem_krylov k'
  · intro y hy; rw [hx]; exact cg_optimal_krylov hAs hMs pA pM hxs hr hy
  · intro y hy hle; rw [hx] at hle ⊢; exact cg_optimal_unique hAs hMs pA pM hxs hr hy hle

/-- **regression example** (was `C12_guard_clause_needed`, the witness of the defect
`tiny-operator-scale` repaired by /repo 1a4d949): on `A = 1e-41 · tridiag(-1, 2, -1)` (condition number
`< 6`), `b = e₀`, `x0 = 0`, `max_iters = 1`, `tol = 1/10`, the model now makes one step and returns
`5e40 · e₀`, whose energy is minimal over `x0 + K_1 = span {e₀}`; all hypotheses of `C12_optimal_single`
hold on it. -/
theorem C12_tiny_scale_regression :
    exAt.PosDef ∧ oneCol exb3 0 ≠ 0 ∧ smallR ≤ (1 / 10 : ℝ) ∧
    Matrix.toEuclideanLin exAt exxt = oneCol exb3 0 ∧
    (runBatchedCG (matArr exAt) (colsArr (oneCol exb3)) (colsArr (oneCol exz3)) 1
      (((1 / 10 : ℝ) : ℝ) : ℝ) ((none : Option (Matrix (Fin 3) (Fin 3) ℝ)).map matArr)).k = 1 ∧
    xOut exAt none (oneCol exb3) (oneCol exz3) 1 (((1 / 10 : ℝ) : ℝ) : ℝ) 0 = !₂[5 * 10 ^ 40, 0, 0] ∧
    ∀ t : ℝ, energy (Matrix.toEuclideanLin exAt) exxt
        (xOut exAt none (oneCol exb3) (oneCol exz3) 1 (((1 / 10 : ℝ) : ℝ) : ℝ) 0) ≤
      energy (Matrix.toEuclideanLin exAt) exxt !₂[t, 0, 0] := by
  refine ⟨exAt_posDef, exb3_ne, ex3_tol.r, exxt_solves, ?_, exAt_out, exAt_optimal⟩
  rw [run_k]; exact exAt_steps

/-! ## round 3: the stopping contract on the TRUE residual

`C12_stop` speaks about the recurrence residual `r̂` of the normalised system.  By
`C12_residual_true_any` that IS the true residual `(b - A x)/‖b‖` of the vector the code holds — an
invariant of `take_cg_step` in exact arithmetic that no guard can break — so the stopping contract can be
stated on the inputs and the output alone. -/

/-- the effective tolerance of a non-zero column in terms of the inputs:
`(tol ‖r̂0‖ + tol) ‖b‖ = tol ‖b - A x0‖ + tol ‖b‖` -/
theorem C12_tolEff_true (A : Matrix (Fin n) (Fin n) 𝕜) (P : Option (Matrix (Fin n) (Fin n) 𝕜))
    (B X0 : Fin m → EuclideanSpace 𝕜 (Fin n)) (tol : ℝ) (j : Fin m) (hb : B j ≠ 0) :
    tolEffR A P B X0 tol j * ‖B j‖ =
      tol * ‖B j - Matrix.toEuclideanLin A (X0 j)‖ + tol * ‖B j‖ :=
  tolEffR_true A P B X0 tol j hb

/-- **stops as soon as, not before — on the TRUE residual** (exact arithmetic; ANY `A`, preconditioner,
batch, `x0`, `max_iters`, real `tol`; no positive-definiteness, no guard or mask hypothesis).  With `t` the
number of steps made: `t = max_iters`, or EVERY non-zero column of the returned block satisfies
`‖b - A x‖ ≤ tol ‖b - A x0‖ + tol ‖b‖` (a column frozen by the `has_converged` mask included: the exit
test looks at all columns; zero columns return `0` by `C12_zero`); and before each of the `t` steps some
column `j` was strictly above its effective tolerance — for a non-zero column that is
`tol ‖b - A x0‖ + tol ‖b‖ < ‖b - A x_i‖`, `x_i = gRun … i` the vector the code holds after `i` steps
(`C12_residual_true_any`: the one-column run with `max_iters = i`, `tol = 0`).  A zero column with
`x0 ≠ 0` can also keep the loop running; for it only the first conjunct under `∃ j` is available
(`C12_residual_recurrence`). -/
theorem C12_stop_true_residual (A : Matrix (Fin n) (Fin n) 𝕜)
    (P : Option (Matrix (Fin n) (Fin n) 𝕜)) (B X0 : Fin m → EuclideanSpace 𝕜 (Fin n))
    (maxIters : ℕ) (tol : ℝ) :
    let t := (runBatchedCG (matArr A) (colsArr B) (colsArr X0) maxIters ((tol : ℝ) : 𝕜)
      (P.map matArr)).k
    (t = maxIters ∨ ∀ j : Fin m, B j ≠ 0 →
      ‖B j - Matrix.toEuclideanLin A (xOut A P B X0 maxIters ((tol : ℝ) : 𝕜) j)‖ ≤
        tol * ‖B j - Matrix.toEuclideanLin A (X0 j)‖ + tol * ‖B j‖) ∧
    ∀ i < t, ∃ j : Fin m, tolEffR A P B X0 tol j < ‖(colState A P B X0 j i).r‖ ∧
      (B j ≠ 0 → tol * ‖B j - Matrix.toEuclideanLin A (X0 j)‖ + tol * ‖B j‖ <
        ‖B j - Matrix.toEuclideanLin A
          (gRun (Matrix.toEuclideanLin A) (precLin P) smallR (B j) (X0 j) i)‖) := by
  rw [run_k]; exact run_stop_true A P B X0 maxIters tol

/-- **one right-hand side, every `tol ≥ 1e-40`, inputs only: the textbook stopping contract** (same
hypotheses as `C12_optimal_single`).  With `k` the number of steps made and `x_i` the textbook
preconditioned-CG iterates of the ORIGINAL system: at every step `i ≤ k` the residual the test looks at is
`(b - A x_i)/‖b‖`; the returned vector is `x_k`; `k = max_iters` or `‖b - A x_k‖ ≤ tol ‖b - A x0‖ + tol ‖b‖`;
and `tol ‖b - A x0‖ + tol ‖b‖ < ‖b - A x_i‖` for every `i < k` (it did not stop before). -/
theorem C12_residual_true_single {A : Matrix (Fin n) (Fin n) 𝕜} (hA : A.PosDef)
    {P : Option (Matrix (Fin n) (Fin n) 𝕜)} (hP : PrecPosDef P)
    (B X0 : Fin 1 → EuclideanSpace 𝕜 (Fin n)) (hb : B 0 ≠ 0) (maxIters : ℕ) {tol : ℝ}
    (tol_ge : smallR ≤ tol) :
    let k := (runBatchedCG (matArr A) (colsArr B) (colsArr X0) maxIters ((tol : ℝ) : 𝕜)
      (P.map matArr)).k
    let xk := fun i => (cgSeq (Matrix.toEuclideanLin A) (precLin P) (B 0) (X0 0) i).x
    (∀ i ≤ k, (colState A P B X0 0 i).r =
      (((‖B 0‖ : ℝ) : 𝕜))⁻¹ • (B 0 - Matrix.toEuclideanLin A (xk i))) ∧
    xOut A P B X0 maxIters ((tol : ℝ) : 𝕜) 0 = xk k ∧
    (k = maxIters ∨ ‖B 0 - Matrix.toEuclideanLin A (xk k)‖ ≤
      tol * ‖B 0 - Matrix.toEuclideanLin A (X0 0)‖ + tol * ‖B 0‖) ∧
    ∀ i < k, tol * ‖B 0 - Matrix.toEuclideanLin A (X0 0)‖ + tol * ‖B 0‖ <
      ‖B 0 - Matrix.toEuclideanLin A (xk i)‖ := by
  intro k xk
  have hk : k = runSteps (matArr A) (P.map matArr) (colsArr B) (colsArr X0) maxIters
      ((tol : ℝ) : 𝕜) := run_k _ _ _ _ _ _
  have hg : MaskOffN (Matrix.toEuclideanLin A) (precLin P) smallR (B 0) (X0 0) k := by
    rw [hk]; exact maskOffN_single hA hP B X0 hb maxIters tol_ge
  have hall := C12_residual_true_mask hA hP B X0 0 k hb hg
  have hx : xOut A P B X0 maxIters ((tol : ℝ) : 𝕜) 0 = xk k := by
    have := (hall k le_rfl).1
    rw [hk] at this
    rw [hk]; exact this
  obtain ⟨s1, s2⟩ := C12_stop_true_residual A P B X0 maxIters tol
  refine ⟨fun i hi => ?_, hx, ?_, ?_⟩
  · obtain ⟨h1, h2, -, -⟩ := hall i hi
    rw [h2, h1]
  · rcases s1 with h | h
    · exact Or.inl h
    · right; rw [← hx]; exact h 0 hb
  · intro i hi
    obtain ⟨j, -, hj⟩ := s2 i hi
    have hj0 : j = 0 := Subsingleton.elim _ _
    subst hj0
    have := hj hb
    rw [(hall i hi.le).1] at this
    exact this

/-- **every `tol` (also `0`), every batch — no hypothesis beyond the property's premise** (the residual
counterpart of `C12_optimal_any`).  At exit (`k` steps) the residual the test looked at is the true residual
of the RETURNED column, `r̂_k = (b - A x)/‖b‖`; and there is `k' ≤ k` such that the returned column is the
textbook iterate `x_{k'}` and `r̂_k` is its textbook residual `r_{k'}/‖b‖`, with `k' = k` or `‖r̂_k‖ < 1e-40`
(the `has_converged` mask froze the column at `k'`; its residual is then below every `tol_eff ≥ 1e-40`). -/
theorem C12_residual_true_final {A : Matrix (Fin n) (Fin n) 𝕜} (hA : A.PosDef)
    {P : Option (Matrix (Fin n) (Fin n) 𝕜)} (hP : PrecPosDef P)
    (B X0 : Fin m → EuclideanSpace 𝕜 (Fin n)) (maxIters : ℕ) (tol : 𝕜) (j : Fin m)
    (hb : B j ≠ 0) :
    let k := (runBatchedCG (matArr A) (colsArr B) (colsArr X0) maxIters tol (P.map matArr)).k
    (colState A P B X0 j k).r =
      (((‖B j‖ : ℝ) : 𝕜))⁻¹ • (B j - Matrix.toEuclideanLin A (xOut A P B X0 maxIters tol j)) ∧
    ∃ k', k' ≤ k ∧ (k' = k ∨ ‖(colState A P B X0 j k).r‖ < smallR) ∧
      xOut A P B X0 maxIters tol j =
        (cgSeq (Matrix.toEuclideanLin A) (precLin P) (B j) (X0 j) k').x ∧
      (colState A P B X0 j k).r =
        (((‖B j‖ : ℝ) : 𝕜))⁻¹ •
          (cgSeq (Matrix.toEuclideanLin A) (precLin P) (B j) (X0 j) k').r := by
  intro k
  have hk : k = runSteps (matArr A) (P.map matArr) (colsArr B) (colsArr X0) maxIters tol :=
    run_k _ _ _ _ _ _
  have hbpos : 0 < ‖B j‖ := norm_pos_iff.mpr hb
  have htrue : (colState A P B X0 j k).r =
      (((‖B j‖ : ℝ) : 𝕜))⁻¹ •
        (B j - Matrix.toEuclideanLin A (xOut A P B X0 maxIters tol j)) := by
    rw [hk]; exact colState_r_true A P B X0 j hb _
  refine ⟨htrue, ?_⟩
  obtain ⟨k', hk', hmask, hor, hx⟩ := xOut_final hA hP B X0 maxIters tol j hb
  have hres := cgSeq_res_of_mask (isSymmetric_toEuclideanLin hA) (isSymmetric_precLin hP)
    (posDefOp_toEuclideanLin hA) (posDefOp_precLin hP) smallR_pos hb hmask
  have hr : (colState A P B X0 j k).r = (((‖B j‖ : ℝ) : 𝕜))⁻¹ •
      (cgSeq (Matrix.toEuclideanLin A) (precLin P) (B j) (X0 j) k').r := by
    rw [htrue, hx, ← hres]
  refine ⟨k', by rw [hk]; exact hk', ?_, hx, hr⟩
  rcases hor with h | h
  · left; rw [hk]; exact h
  · right
    rw [hr, norm_smul, norm_inv, RCLike.norm_ofReal, abs_of_pos hbpos, inv_mul_lt_iff₀ hbpos,
      mul_comm]
    exact h

/-- **witness for the round-3 hypothesis bundles** on the non-diagonal 3 × 3 system of
`C12_witness_three_steps` (`A = tridiag(-1, 2, -1)`, `b = e₀`, `x0 = 0`, no preconditioner,
`max_iters = 5`, `tol = 1/10`; exact rationals).  All hypotheses of `C12_residual_true_mask` (with
`k = 3`, the number of steps the loop makes), of `C12_residual_true_single` and of
`C12_residual_true_final` hold; the residuals the stopping test sees after `0, 1, 2, 3` steps are
`e₀, ½ e₁, ⅓ e₂, 0`, each of them the true residual `b - A x_i` (`‖b‖ = 1`); the threshold
`tol ‖b - A x0‖ + tol ‖b‖` is `1/5` (below `1, 1/2, 1/3`: no stop before step 3), and the returned vector has
true residual `0`. -/
theorem C12_residual_true_witness :
    exA3.PosDef ∧ PrecPosDef (none : Option (Matrix (Fin 3) (Fin 3) ℝ)) ∧ oneCol exb3 0 ≠ 0 ∧
    smallR ≤ (1 / 10 : ℝ) ∧
    (runBatchedCG (matArr exA3) (colsArr (oneCol exb3)) (colsArr (oneCol exz3)) 5
      (((1 / 10 : ℝ) : ℝ) : ℝ) ((none : Option (Matrix (Fin 3) (Fin 3) ℝ)).map matArr)).k = 3 ∧
    MaskOffN (Matrix.toEuclideanLin exA3) (precLin none) smallR (oneCol exb3 0) (oneCol exz3 0) 3 ∧
    (colState exA3 none (oneCol exb3) (oneCol exz3) 0 0).r = !₂[1, 0, 0] ∧
    (colState exA3 none (oneCol exb3) (oneCol exz3) 0 1).r = !₂[0, 1 / 2, 0] ∧
    (colState exA3 none (oneCol exb3) (oneCol exz3) 0 2).r = !₂[0, 0, 1 / 3] ∧
    (colState exA3 none (oneCol exb3) (oneCol exz3) 0 3).r = !₂[0, 0, 0] ∧
    (∀ i, (colState exA3 none (oneCol exb3) (oneCol exz3) 0 i).r =
      oneCol exb3 0 - Matrix.toEuclideanLin exA3 (gRun (Matrix.toEuclideanLin exA3) (precLin none)
        smallR (oneCol exb3 0) (oneCol exz3 0) i)) ∧
    (1 / 10 : ℝ) * ‖oneCol exb3 0 - Matrix.toEuclideanLin exA3 (oneCol exz3 0)‖ +
      1 / 10 * ‖oneCol exb3 0‖ = 1 / 5 ∧
    ‖oneCol exb3 0 - Matrix.toEuclideanLin exA3
      (xOut exA3 none (oneCol exb3) (oneCol exz3) 5 (((1 / 10 : ℝ) : ℝ) : ℝ) 0)‖ = 0 := by
  have hk : (runBatchedCG (matArr exA3) (colsArr (oneCol exb3)) (colsArr (oneCol exz3)) 5
      (RCLike.ofReal (1 / 10 : ℝ)) ((none : Option (Matrix (Fin 3) (Fin 3) ℝ)).map matArr)).k = 3 := by
    rw [run_k]; exact ex3_steps
  refine ⟨exA3_posDef, ex3_noprec, exb3_ne, ex3_tol_ge, hk, ex3_mask, ?_, ?_, ?_, ?_,
    fun i => ex3_colState_true, ex3_tolEff_true, ?_⟩
  · rw [ex3_colState_r (by norm_num), exS0]
  · rw [ex3_colState_r (by norm_num), exS1]
  · rw [ex3_colState_r (by norm_num), exS2]
  · rw [ex3_colState_r le_rfl, exS3.2]
  · have hx : xOut exA3 none (oneCol exb3) (oneCol exz3) 5 (RCLike.ofReal (1 / 10 : ℝ)) 0 =
        gRun (Matrix.toEuclideanLin exA3) (precLin none) smallR (oneCol exb3 0) (oneCol exz3 0)
          3 := by
      unfold xOut; rw [ex3_steps]
    rw [show (((1 / 10 : ℝ) : ℝ) : ℝ) = RCLike.ofReal (1 / 10 : ℝ) from rfl, hx,
      ← ex3_colState_true, ex3_colState_r le_rfl, exS3.2, norm3]
    norm_num

/-- **witness for the `k' < k` branch of `C12_optimal_any`** (round 4): `A = tridiag(-1, 2, -1)` (3 × 3), the batch
`B = [(1, 0, -1), e₀]`, `x0 = 0`, `max_iters = 2`, `tol = 1/10`, no preconditioner.  Column 0 is an eigenvector of `A`,
so its residual is exactly `0 < 1e-40 ‖b‖` after ONE step; column 1 stays above its tolerance (`1, 1/2 > 1/5`) and keeps
the shared loop running to the cap: `k = 2`.  The premises of `C12_optimal_any` hold for `j = 0` (first three
conjuncts), and the index it speaks about is `k' = 1 < 2 = k` with the second disjunct (`‖b - A x‖ < 1e-40 ‖b‖`) true:
the mask is off before step `1` only, the returned column is the first textbook iterate `(1/2, 0, -1/2)`, which solves
the system exactly.  (`k' = k` cannot be chosen with the mask condition of `xOut_final`: `ε ‖b‖ ≤ ‖r₁‖ = 0` fails.) -/
theorem C12_converged_column_witness :
    exA3.PosDef ∧ PrecPosDef (none : Option (Matrix (Fin 3) (Fin 3) ℝ)) ∧ exB2 0 ≠ 0 ∧
    (runBatchedCG (matArr exA3) (colsArr exB2) (colsArr exZ2) 2
      (((1 / 10 : ℝ) : ℝ) : ℝ) ((none : Option (Matrix (Fin 3) (Fin 3) ℝ)).map matArr)).k = 2 ∧
    ∃ k', k' = 1 ∧
      k' < (runBatchedCG (matArr exA3) (colsArr exB2) (colsArr exZ2) 2
        (((1 / 10 : ℝ) : ℝ) : ℝ) ((none : Option (Matrix (Fin 3) (Fin 3) ℝ)).map matArr)).k ∧
      MaskOffN (Matrix.toEuclideanLin exA3) (precLin none) smallR (exB2 0) (exZ2 0) k' ∧
      ¬ MaskOffN (Matrix.toEuclideanLin exA3) (precLin none) smallR (exB2 0) (exZ2 0) 2 ∧
      ‖exB2 0 - Matrix.toEuclideanLin exA3
        (xOut exA3 none exB2 exZ2 2 (((1 / 10 : ℝ) : ℝ) : ℝ) 0)‖ < smallR * ‖exB2 0‖ ∧
      xOut exA3 none exB2 exZ2 2 (((1 / 10 : ℝ) : ℝ) : ℝ) 0 =
        (cgSeq (Matrix.toEuclideanLin exA3) (precLin none) (exB2 0) (exZ2 0) k').x ∧
      xOut exA3 none exB2 exZ2 2 (((1 / 10 : ℝ) : ℝ) : ℝ) 0 = !₂[1 / 2, 0, -1 / 2] := by
  have hk : (runBatchedCG (matArr exA3) (colsArr exB2) (colsArr exZ2) 2
      (RCLike.ofReal (1 / 10 : ℝ)) ((none : Option (Matrix (Fin 3) (Fin 3) ℝ)).map matArr)).k = 2 := by
    rw [run_k]; exact exB_steps
  obtain ⟨k', hk1, hlt, hmask, hres, hx, hval⟩ := exB_kprime
  have hpos : 0 < smallR * ‖exbE‖ := mul_pos smallR_pos exbE_norm_pos
  refine ⟨exA3_posDef, ex3_noprec, by rw [exB2_zero]; exact exbE_ne, hk, k', hk1, ?_, hmask, ?_, ?_, hx, hval⟩
  · rw [show (((1 / 10 : ℝ) : ℝ) : ℝ) = RCLike.ofReal (1 / 10 : ℝ) from rfl, run_k]; exact hlt
  · intro h2
    have := h2 1 (by norm_num)
    rw [exB2_zero, exZ2_apply, exE1, norm3] at this
    norm_num at this
    linarith
  · rw [show (((1 / 10 : ℝ) : ℝ) : ℝ) = RCLike.ofReal (1 / 10 : ℝ) from rfl, hval, exbE_solves, exB2_zero,
      sub_self, norm_zero]
    exact hpos

end exact

#print axioms C12_cap
#print axioms C12_bookkeeping
#print axioms C12_stop_model
#print axioms C12_trace
#print axioms C12_columns_model
#print axioms C12_output
#print axioms C12_stop
#print axioms C12_residual_true
#print axioms C12_zero
#print axioms C12_scale
#print axioms C12_columns
#print axioms C12_guards_positive
#print axioms C12_is_textbook_cg
#print axioms C12_optimal
#print axioms C12_guards_from_residual
#print axioms C12_guards_lower
#print axioms C12_dirs_eq_krylov
#print axioms C12_optimal_resid
#print axioms C12_optimal_inputs
#print axioms C12_optimal_hpd
#print axioms C12_witness_three_steps
#print axioms C12_optimal_mask
#print axioms C12_optimal_single
#print axioms C12_optimal_any
#print axioms C12_tiny_scale_regression
#print axioms C12_residual_recurrence
#print axioms C12_residual_true_any
#print axioms C12_mask_of_guards
#print axioms C12_residual_true_mask
#print axioms C12_tolEff_true
#print axioms C12_stop_true_residual
#print axioms C12_residual_true_single
#print axioms C12_residual_true_final
#print axioms C12_residual_true_witness
#print axioms C12_converged_column_witness
