import ColaVerif.Lemmas.DiagTraceSound
import ColaVerif.Lemmas.DiagTraceDtype
import ColaVerif.Lemmas.DiagTraceSel
import ColaVerif.Lemmas.DiagTraceRefuse
import ColaVerif.Lemmas.Bridge
import Mathlib.LinearAlgebra.Matrix.Trace

/-!
# C08 — exact diag / trace return the true (off-)diagonal and trace (property theorems)

`Op R` : operator expression trees; `A.den` : the represented matrix (specification);
`Op.diagK D n k` : the `k`-th diagonal of the `n × n` matrix `D` (entries `D t (t+k)` for `k ≥ 0`,
`D (t-k) t` for `k < 0`, length `n - |k|`); `Op.traceSpec D n` : the sum of the main diagonal;
`Op.exactDiag bs0 A k` : the code model of the probing loop `exact_diag` (chunks of the identity
through `Sliced`, `A @ chunk`, shifted chunk, row sums, trimming) with the hard-coded `100` of
`bs = min(100, n)` as the PARAMETER `bs0`;
`Op.diagCode bs0 alg A k`, `Op.traceCode bs0 alg A` : the code model of `cola.linalg.diag(A, k, alg)`,
`cola.linalg.trace(A, alg)` (`alg` ∈ {omitted = `Auto()`, `Exact()`}): rule selection + every
rule of `cola/linalg/trace/diag_trace.py`; `.error _` = the call refuses.

Hypotheses: `A.wf`, `A.dupSlice = false`, `A.HermOK` (those of C01, `Op.Good`; `dupSlice` is C01's
recorded clause `sliced-repeated-index`, a hypothesis of `Op.mm_eq`).  The two VALUE defects found while building this check
(`diag(BlockDiag)` / `diag(Kronecker)` with non-square members returned wrong values) are repaired in
/repo (bbee7eb) — the rules now refuse — and are kept below as regression lemmas; C08 has no value clause.

Result dtype (round 2): `Op.diagDt A k`, `Op.traceDt A` (Model/DiagTraceDtype.lean) — the dtype of the
array / NumPy scalar the rules and the probing loop return (`some dt`; `none` = no floating array);
specification `A.dtypeSpec` (Model/Dtype.lean: NumPy promotion of the leaf dtypes, stated on the
lattice).  One clause: `bdiag-zero-multiplicity` (`Op.ruleZeroMult`), see `C08_dtype_clause_needed`.

Rule selection (round 2): `Op.diagRuleSig alg A`, `Op.traceRuleSig alg A`, `Op.diagRuleTable`,
`Op.traceRuleTable` (Model/DiagTraceSel.lean) — compared with the live dispatch table of /repo on
every run (harness/props/c08.py, stream D and every real call of streams A, B, E).

Refusals (round 3): `.error "error:<Class>"` = the real call raises `<Class>`; the escape values
`unmodelled:hutch` / `unmodelled:nonsquare-exact` = the model does not say what happens.
`Op.hutchReach` (Model/DiagTraceReach.lean) is the decidable predicate on the input under which the
first one can occur; `C08_refusals_are_exceptions` / `C08_trace_refusals_are_exceptions` show that
outside it every refusal is `error:AssertionError` or `error:ValueError` (the harness compares the class
with the exception the real call raises).  `C08_rules_witness`, `C08_trace_witness`,
`C08_probing_witness` evaluate the rule theorems on concrete nested trees.
-/

namespace C08
open Op
variable {R : Type} [CommRing R] [StarRing R] [DecidableEq R]

/-- **C08 (exact algorithm).**  For EVERY block-size constant `bs0 > 0` (in particular 100), every
square operator tree of every size `n` (smaller than, equal to, larger than the block size,
divisible by it or not) and EVERY offset `k` (in range or not), the probing loop returns exactly
the `k`-th diagonal of the represented matrix. -/
theorem C08_exact (bs0 : Nat) (hbs : 0 < bs0) (A : Op R) (hwf : A.wf = true)
    (hnd : A.dupSlice = false) (hh : A.HermOK) (hsq : A.rows = A.cols) (k : Int) :
    exactDiag bs0 A k = diagK A.den.f A.rows k :=
  exactDiag_eq bs0 hbs A ⟨hwf, hnd, hh⟩ hsq k

/-- the result has the correct length `n - |k|` for every offset (empty for `|k| ≥ n`) -/
theorem C08_exact_length (bs0 : Nat) (hbs : 0 < bs0) (A : Op R) (hwf : A.wf = true)
    (hnd : A.dupSlice = false) (hh : A.HermOK) (hsq : A.rows = A.cols) (k : Int) :
    (exactDiag bs0 A k).length = A.rows - k.natAbs := by
  rw [C08_exact bs0 hbs A hwf hnd hh hsq k, diagK_length]

/-- the entries, for `-n < k < n` -/
theorem C08_exact_entries (bs0 : Nat) (hbs : 0 < bs0) (A : Op R) (hwf : A.wf = true)
    (hnd : A.dupSlice = false) (hh : A.HermOK) (hsq : A.rows = A.cols) (k : Int) (t : Nat)
    (ht : t < A.rows - k.natAbs) :
    (exactDiag bs0 A k)[t]? =
      some (if 0 ≤ k then A.den.f t (t + k.toNat) else A.den.f (t + k.natAbs) t) := by
  rw [C08_exact bs0 hbs A hwf hnd hh hsq k]
  simp [diagK, ht]

/-- **C08 (the `Auto` decision).**  At the default tolerance `1e-6` the automatic algorithm is
the exact one for every operator with fewer than `10¹¹` entries
(`tol < 1/sqrt(10·numel)` ⟺ `10·numel·tol² < 1`). -/
theorem C08_auto_default (numel : Nat) :
    autoExact 1 1000000 numel = true ↔ numel < 100000000000 := by
  simp only [autoExact, decide_eq_true_eq]
  omega

/-- **C08 (every rule of `diag`).**  With `alg` omitted, `Auto()` or `Exact()`: whenever
`diag(A, k, alg)` returns an array, it is exactly the `k`-th diagonal of the represented matrix,
for every square tree over Dense, Triangular, Identity, Diagonal, ScalarMul, Sum, BlockDiag with
multiplicities, Kronecker, KronSum (any number of members, any nesting), products and all generic
kinds, every offset, every block-size constant; every other outcome is a refusal. -/
theorem C08_rules (bs0 : Nat) (hbs : 0 < bs0) (alg : Alg) (A : Op R) (hwf : A.wf = true)
    (hnd : A.dupSlice = false) (hh : A.HermOK) (hsq : A.rows = A.cols) (k : Int) (d : List R)
    (h : diagCode bs0 alg A k = .ok d) : d = diagK A.den.f A.rows k :=
  diagCode_sound bs0 hbs alg A ⟨hwf, hnd, hh⟩ hsq k d h

/-- length of a returned array -/
theorem C08_rules_length (bs0 : Nat) (hbs : 0 < bs0) (alg : Alg) (A : Op R)
    (hwf : A.wf = true) (hnd : A.dupSlice = false) (hh : A.HermOK)
    (hsq : A.rows = A.cols) (k : Int) (d : List R)
    (h : diagCode bs0 alg A k = .ok d) : d.length = A.rows - k.natAbs := by
  rw [C08_rules bs0 hbs alg A hwf hnd hh hsq k d h, diagK_length]

/-- **C08 (rule vs probing).**  A structural rule returns the same values as the generic probing
algorithm run on the same operator, or refuses; it never returns different values. -/
theorem C08_rule_agrees_with_probing (bs0 : Nat) (hbs : 0 < bs0) (alg : Alg) (A : Op R)
    (hwf : A.wf = true) (hnd : A.dupSlice = false) (hh : A.HermOK)
    (hsq : A.rows = A.cols) (k : Int) :
    diagCode bs0 alg A k = .ok (exactDiag bs0 A k) ∨ ∃ msg, diagCode bs0 alg A k = .error msg := by
  cases hd : diagCode bs0 alg A k with
  | error msg => exact Or.inr ⟨msg, rfl⟩
  | ok d =>
    left
    rw [C08_rules bs0 hbs alg A hwf hnd hh hsq k d hd,
      C08_exact bs0 hbs A hwf hnd hh hsq k]

/-- **C08 (trace).**  Whenever `trace(A, alg)` returns a value, the operator is square and the
value is the sum of the main diagonal of the represented matrix (the `Kronecker` rule
`prod(trace(M))` included); every other outcome is a refusal. -/
theorem C08_trace (bs0 : Nat) (hbs : 0 < bs0) (alg : Alg) (A : Op R) (hwf : A.wf = true)
    (hnd : A.dupSlice = false) (hh : A.HermOK) (t : R) (h : traceCode bs0 alg A = .ok t) :
    A.rows = A.cols ∧ t = traceSpec A.den.f A.rows :=
  traceCode_sound bs0 hbs alg A ⟨hwf, hnd, hh⟩ t h

omit [DecidableEq R] in
/-- `trace(M₁ ⊗ … ⊗ M_k) = Π trace(M_i)` for square factors (what the `Kronecker` rule of `trace`
relies on), as a statement about the represented matrices -/
theorem C08_trace_kron (Ms : List (Op R)) (hsq : ∀ M ∈ Ms, M.rows = M.cols) :
    traceSpec (kron Ms).den.f (kron Ms).rows = (Ms.map (fun M => traceSpec M.den.f M.rows)).prod := by
  rw [kron_trace_list Ms hsq]
  simp only [rows]
  rw [traceSpec_eq_sum, traceSpec_eq_sum]
  congr 1
  apply List.map_congr_left
  intro i _
  rw [den]
  simp only [forceV_f]
  rfl

omit [StarRing R] [DecidableEq R] in
/-- the specification is Mathlib's trace / diagonal of the represented matrix -/
theorem C08_spec_is_mathlib_trace (D : MatF R) (n : Nat) :
    traceSpec D n = Matrix.trace (MatF.toMatrix n n D) := by
  rw [traceSpec, sumTo_eq, Matrix.trace, Finset.sum_range]
  rfl

omit [CommRing R] [StarRing R] [DecidableEq R] in
theorem C08_spec_is_mathlib_diag (D : MatF R) (n : Nat) :
    diagK D n 0 = List.ofFn (Matrix.diag (MatF.toMatrix n n D)) := by
  apply List.ext_getElem
  · simp [diagK]
  · intro t h1 h2
    simp [diagK, Matrix.diag, MatF.toMatrix]

/-! ## regression lemmas for the two repaired defects; the hypotheses are satisfiable -/

/-- **regression** (defect repaired in /repo bbee7eb; its former clause name `bdiag-nonsquare-block` is no longer a
clause of any theorem or of the harness): the square `BlockDiag` of the blocks
`[1 2]` (1×2) and `[3 4]ᵀ` (2×1) represents `[[1,2,0],[0,0,3],[0,0,4]]` with diagonal `[1,0,4]` and
trace `5`; concatenating the blocks' own diagonals gave `[1,3]` / `4`.  The rule now refuses. -/
theorem C08_regression_block :
    let A : Op Int := .bdiag [.dense .f64 1 2 (fun _ j => (j : Int) + 1), .dense .f64 2 1 (fun i _ => (i : Int) + 3)] [1, 1]
    A.wf = true ∧ A.dupSlice = false ∧ A.HermOK ∧ A.rows = A.cols ∧
      diagCode 100 .auto A 0 = .error "error:AssertionError" ∧
      traceCode 100 .auto A = .error "error:AssertionError" ∧
      diagK A.den.f A.rows 0 = [1, 0, 4] ∧ traceSpec A.den.f A.rows = 5 := by
  refine ⟨?_, ?_, ?_, ?_, ?_, ?_, ?_, ?_⟩
  · simp [Op.wf]
  · simp [Op.dupSlice]
  · simp [Op.HermOK, Op.HermNode, Op.isa, Op.anns, AnnSet.isa, AnnSet.interAll, AnnSet.inter]
  · simp [Op.rows, Op.cols, Op.dotSum]
  · simp [Op.diagCode, Op.rows, Op.cols]
  · simp [Op.traceCode, Op.diagCode, Op.rows, Op.cols, Op.dotSum, bind, Except.bind]
  · simp [Op.diagK, Op.den, Op.rows, Op.cols, Op.dotSum, bdiagDen, expandBlocks, blockDiagM,
      List.range_succ]
  · simp [Op.traceSpec, sumTo, Op.den, Op.rows, Op.cols, Op.dotSum, bdiagDen, expandBlocks, blockDiagM]

/-- **regression** (defect repaired in /repo bbee7eb; its former clause name `kron-nonsquare-factor` is no longer a
clause): the square Kronecker product of
`[1 2]` (1×2) and `[3 4]ᵀ` (2×1) represents `[[3,6],[4,8]]` with diagonal `[3,8]`; the outer product
of the factors' own diagonals gave `[3]`.  The rule now refuses. -/
theorem C08_regression_factor :
    let A : Op Int := .kron [.dense .f64 1 2 (fun _ j => (j : Int) + 1), .dense .f64 2 1 (fun i _ => (i : Int) + 3)]
    A.wf = true ∧ A.dupSlice = false ∧ A.HermOK ∧ A.rows = A.cols ∧
      diagCode 100 .auto A 0 = .error "error:AssertionError" ∧ diagK A.den.f A.rows 0 = [3, 8] := by
  refine ⟨?_, ?_, ?_, ?_, ?_, ?_⟩
  · simp [Op.wf]
  · simp [Op.dupSlice]
  · simp [Op.HermOK, Op.HermNode, Op.isa, Op.anns, AnnSet.isa, AnnSet.interAll, AnnSet.inter]
  · simp [Op.rows, Op.cols]
  · simp [Op.diagCode, Op.rows, Op.cols]
  · simp [Op.diagK, Op.den, Op.rows, Op.cols, kronDen, kronEntry, unravel, List.range_succ]

/-- **non-vacuity of every hypothesis bundle** (`wf`, `dupSlice = false`, `HermOK`, square, and the
dtype clause `ruleZeroMult = false`) on a nested 4×4 tree of MIXED dtypes (f32, f64, c64) with a
BlockDiag with multiplicities, a Kronecker product, a KronSum, a Sum, a ScalarMul, a product and a
generic operator; its result dtype is complex128. -/
theorem C08_hypotheses_witness :
    let A : Op Int := .sum [
      .bdiag [.kron [.dense .f64 2 2 (fun i j => (i : Int) + j), .eye .f32 1], .scalar .c64 3 1] [1, 2],
      .kronsum [.diag .f32 2 (fun i => (i : Int) + 1), .generic (.prod [.dense .f64 2 2 (fun i j => (i : Int) - j), .dense .f32 2 2 (fun _ _ => 1)])]]
    A.wf = true ∧ A.dupSlice = false ∧ A.HermOK ∧ A.rows = A.cols ∧ A.rows = 4 ∧
      A.ruleZeroMult = false ∧ A.dtypeSpec = .c128 ∧ diagDt A 0 = some .c128 ∧ traceDt A = some .c128 := by
  refine ⟨?_, ?_, ?_, ?_, ?_, ?_, ?_, ?_, ?_⟩
  · simp [Op.wf, Op.rows, Op.cols, Op.dotSum, Op.chainOk]
  · simp [Op.dupSlice]
  · simp [Op.HermOK, Op.HermNode, Op.isa, Op.anns, AnnSet.isa, AnnSet.interAll, AnnSet.inter, AnnSet.diff,
      Op.rows, Op.cols, Op.dotSum, Op.isTA, Op.isT, Op.areTheSame, Op.isScalarMul, Op.dtype, DType.isComplex, Op.core]
  · simp [Op.rows, Op.cols, Op.dotSum]
  · simp [Op.rows, Op.dotSum]
  · simp [Op.ruleZeroMult]
  · simp [Op.dtypeSpec, Op.leafDtypes, DType.join, DType.isComplex, DType.isDouble, DType.mk]
  · rw [diagDt_eq_spec _ (by simp [Op.wf, Op.rows, Op.cols, Op.dotSum, Op.chainOk]) (by simp [Op.ruleZeroMult])]
    simp [Op.dtypeSpec, Op.leafDtypes, DType.join, DType.isComplex, DType.isDouble, DType.mk]
  · rw [traceDt_eq_spec _ (by simp [Op.wf, Op.rows, Op.cols, Op.dotSum, Op.chainOk]) (by simp [Op.ruleZeroMult])]
    simp [Op.dtypeSpec, Op.leafDtypes, DType.join, DType.isComplex, DType.isDouble, DType.mk]

/-! ## result dtype -/

section dtype
variable {S : Type}

/-- **C08 (result dtype of `diag`, every rule).**  For every tree whose member lists are non-empty
(`wf`) and which has no zero-multiplicity block on the path of the structural rules, every offset:
the array `diag(A, k, alg)` returns has the NumPy promotion of the dtypes of the leaves of `A`
(complex iff some leaf is complex, double precision iff some leaf is) — whatever mix of float32 /
float64 / complex64 / complex128 the members of Sum / BlockDiag / Kronecker / KronSum / Product have,
through ScalarMul, Identity, declaration wrappers and the probing loop. -/
theorem C08_dtype_diag_partial (A : Op S) (hwf : A.wf = true) (hz : A.ruleZeroMult = false) (k : Int) :
    diagDt A k = some A.dtypeSpec :=
  diagDt_eq_spec A hwf hz k

/-- **C08 (result dtype of `trace`).** -/
theorem C08_dtype_trace_partial (A : Op S) (hwf : A.wf = true) (hz : A.ruleZeroMult = false) :
    traceDt A = some A.dtypeSpec :=
  traceDt_eq_spec A hwf hz

/-- the same against the dtype the constructors compute (`A.dtype`, what `A.dtype` / `A.to_dense().dtype`
report; `Op.dtype_eq_dtypeSpec`) -/
theorem C08_dtype_is_operator_dtype (A : Op S) (hwf : A.wf = true) (hz : A.ruleZeroMult = false) (k : Int) :
    diagDt A k = some A.dtype ∧ traceDt A = some A.dtype := by
  rw [dtype_eq_dtypeSpec]
  exact ⟨diagDt_eq_spec A hwf hz k, traceDt_eq_spec A hwf hz⟩

/-- **C08 (result dtype of the probing loop)**: no hypothesis at all — chunk, shifted chunk, `A @ chunk`,
the product, the row sums and the weak Python `0.` accumulate to the promotion of the leaf dtypes -/
theorem C08_dtype_exact (A : Op S) (k : Int) : exactDiagDt A k = some A.dtypeSpec :=
  exactDiagDt_eq A k

/-- **the clause `bdiag-zero-multiplicity` is needed**: the well-formed square
`BlockDiag(Dense(float32 2×2), Dense(complex64 1×1), multiplicities=[1, 0])` has `dtype` complex64 (the
constructor promotes over ALL blocks) but the rule concatenates the diagonals of the blocks that are
present: the result is float32. -/
theorem C08_dtype_clause_needed :
    let A : Op Int := .bdiag [.dense .f32 2 2 (fun i j => (i : Int) + j), .dense .c64 1 1 (fun _ _ => 1)] [1, 0]
    A.wf = true ∧ A.rows = A.cols ∧ A.ruleZeroMult = true ∧ diagDt A 0 = some .f32 ∧ traceDt A = some .f32 ∧
      A.dtypeSpec = .c64 ∧ A.dtype = .c64 := by
  refine ⟨?_, ?_, ?_, ?_, ?_, ?_, ?_⟩
  · simp [Op.wf]
  · simp [Op.rows, Op.cols, Op.dotSum]
  · simp [Op.ruleZeroMult]
  · simp [Op.diagDt, Op.seqO, Op.concatDt]
  · simp [Op.traceDt, Op.diagDt, Op.seqO, Op.concatDt]
  · simp [Op.dtypeSpec, Op.leafDtypes, DType.join, DType.isComplex, DType.isDouble, DType.mk]
  · simp [Op.dtype, DType.promote, DType.isComplex, DType.isDouble, DType.mk]

end dtype

/-! ## rule selection -/

/-- **C08 (rule table).**  Whatever the operator and the class of the algorithm object, the method of
`diag` / `trace` the model applies is one of the methods of its table (the table that is compared
with the live dispatch table of /repo on every run). -/
theorem C08_rule_table {S : Type} (alg : AlgK) (A : Op S) :
    diagRuleSig alg A ∈ diagRuleTable ∧ traceRuleSig alg A ∈ traceRuleTable :=
  ⟨diagRuleSig_mem alg A, traceRuleSig_mem alg A⟩

/-- the selected method's first-position class is the class of the operator object, `Dense` for a
`Triangular`, or `LinearOperator` (never an unrelated class) -/
theorem C08_rule_superclass {S : Type} (A : Op S) : A.diagRuleClass = A.className ∨
    (A.className = "cola.ops.operators.Triangular" ∧ A.diagRuleClass = "cola.ops.operators.Dense") ∨
    A.diagRuleClass = clsLinOp :=
  diagRuleClass_super A

/-- where the selection names the `LinearOperator` methods, `diagCode` IS the generic path (the `Auto`
decision and the probing loop on the operator object, declaration wrappers stripped) -/
theorem C08_rule_generic (bs0 : Nat) (alg : Alg) (A : Op R) (k : Int)
    (h : A.diagRuleClass = clsLinOp) : diagCode bs0 alg A k = genericDiag bs0 alg A.core k :=
  diagCode_generic_rule bs0 alg A k h

/-! ## refusals are predicted exceptions (round 3) -/

/-- **C08 (every refusal of `diag` is a predicted exception).**  `A.hutchReach` (Model/DiagTraceReach.lean)
is the decidable predicate on the input "the rule recursion hands an operator with at least `10¹¹` entries
to the generic rule" — the only way the model's `Auto()` leaves the exact algorithm.  On a well-formed
square tree, with `alg = Exact()` or `A.hutchReach = false`, a refusal of the code model is
`error:AssertionError` or `error:ValueError` (`Op.IsRaise`) — the class of the exception the real call
raises, compared on every run — and never one of the escape values `unmodelled:hutch`,
`unmodelled:nonsquare-exact` (nor `error:empty-sum` / `error:TypeError`, which need an empty member list). -/
theorem C08_refusals_are_exceptions (bs0 : Nat) (alg : Alg) (A : Op R) (hwf : A.wf = true)
    (hsq : A.rows = A.cols) (hr : alg = .exact ∨ A.hutchReach = false) (k : Int) (msg : String)
    (h : diagCode bs0 alg A k = .error msg) :
    msg = "error:AssertionError" ∨ msg = "error:ValueError" :=
  diagCode_error_class bs0 alg A hwf hsq hr k msg h

/-- the same for `trace` (a non-square operand is refused with `error:AssertionError`) -/
theorem C08_trace_refusals_are_exceptions (bs0 : Nat) (alg : Alg) (A : Op R) (hwf : A.wf = true)
    (hr : alg = .exact ∨ A.hutchReach = false) (msg : String)
    (h : traceCode bs0 alg A = .error msg) :
    msg = "error:AssertionError" ∨ msg = "error:ValueError" :=
  traceCode_error_class bs0 alg A hwf hr msg h

/-- **C08 (rule vs probing, without the escape values)**: `C08_rule_agrees_with_probing` with the
refusal narrowed to the two predicted exception classes. -/
theorem C08_rule_agrees_with_probing_strict (bs0 : Nat) (hbs : 0 < bs0) (alg : Alg) (A : Op R)
    (hwf : A.wf = true) (hnd : A.dupSlice = false) (hh : A.HermOK) (hsq : A.rows = A.cols)
    (hr : alg = .exact ∨ A.hutchReach = false) (k : Int) :
    diagCode bs0 alg A k = .ok (exactDiag bs0 A k) ∨
      diagCode bs0 alg A k = .error "error:AssertionError" ∨
      diagCode bs0 alg A k = .error "error:ValueError" := by
  rcases C08_rule_agrees_with_probing bs0 hbs alg A hwf hnd hh hsq k with h | ⟨msg, h⟩
  · exact Or.inl h
  · rcases C08_refusals_are_exceptions bs0 alg A hwf hsq hr k msg h with hm | hm
    · exact Or.inr (Or.inl (by rw [h, hm]))
    · exact Or.inr (Or.inr (by rw [h, hm]))

/-- **C08 (the generic path never refuses a non-empty square operator).**  Where the selection names the
`LinearOperator` methods (`C08_rule_generic`), a square operator with at least one row and — for `Auto()` —
fewer than `10¹¹` entries gets `.ok`: the probing loop's result on the operator object. -/
theorem C08_generic_total (bs0 : Nat) (alg : Alg) (A : Op R) (k : Int)
    (h : A.diagRuleClass = clsLinOp) (hsq : A.rows = A.cols) (hpos : 0 < A.rows)
    (hr : alg = .exact ∨ A.rows * A.cols < 100000000000) :
    diagCode bs0 alg A k = .ok (exactDiag bs0 A.core k) :=
  diagCode_generic_total bs0 alg A k h hsq hpos hr

/-- the hypothesis `alg = Exact() ∨ hutchReach = false` cannot be dropped, and both exception classes
occur: a 400000 × 400000 `no_dispatch` operator (1.6·10¹¹ entries) under `Auto()` gets the escape value
(the real code returns a Hutchinson estimate there), under `Exact()` it does not; `diag(Identity(2), 3)`
is `error:ValueError` (`zeros((-1,))`). -/
theorem C08_escape_witness :
    let H : Op Int := .generic (.eye .f64 400000)
    H.wf = true ∧ H.rows = H.cols ∧ H.hutchReach = true ∧
      diagCode 100 .auto H 0 = .error "unmodelled:hutch" ∧
      (∃ d, diagCode 100 .exact H 0 = .ok d) ∧
      diagCode 100 .auto (.eye .f64 2 : Op Int) 3 = .error "error:ValueError" := by
  refine ⟨?_, ?_, ?_, ?_, ?_, ?_⟩
  · simp [Op.wf]
  · simp [Op.rows, Op.cols]
  · simp [Op.hutchReach, Op.autoExact, Op.rows, Op.cols]
  · simp [Op.diagCode, Op.genericDiag, Op.autoExact, Op.rows, Op.cols]
  · exact ⟨_, C08_generic_total 100 .exact _ 0 (by simp [Op.diagRuleClass, clsLinOp])
      (by simp [Op.rows, Op.cols]) (by simp [Op.rows]) (Or.inl rfl)⟩
  · simp [Op.diagCode, Op.npZeros]

/-! ## the rule theorems evaluated on concrete nested trees (round 3) -/

/-- **`C08_rules` applied to concrete nested, non-diagonal trees.**
`A` (6 × 6) = `BlockDiag([Kronecker([[1,2],[3,4]], Sum(Triangular [[1,0],[2,3]], 2·I)), PSD(KronSum([[5]]))],
multiplicities = [1, 2])`, `k = 0`, `Auto()`: the code model returns `[3, 5, 12, 20, 5, 5]`.
`B` (3 × 3) = `Sum(Dense [[0,1,2],[3,4,5],[6,7,8]], Sum(upper Triangular, 7·I), Diagonal [0,1,2])`,
`k = 1` under `Exact()` and `k = -2` under `Auto()`: `[3, 7]` and `[6]`.
All four hypotheses of `C08_rules` are shown for both trees, the values of `diagCode` are computed, and the
statements about `diagK A.den.f …` are OBTAINED FROM `C08_rules` (not by evaluating `den`). -/
theorem C08_rules_witness :
    let A : Op Int := .bdiag [
      .kron [.dense .f64 2 2 (fun i j => (i : Int) * 2 + j + 1), .sum [.tri .f32 2 2 true (fun i j => if j ≤ i then (i : Int) + j + 1 else 0), .scalar .f64 2 2]],
      .annot .psd (.kronsum [.dense .f64 1 1 (fun _ _ => 5)])] [1, 2]
    let B : Op Int := .sum [.dense .f64 3 3 (fun i j => (i : Int) * 3 + j), .sum [.tri .f64 3 3 false (fun i j => if i ≤ j then (j : Int) - i + 1 else 0), .scalar .f64 7 3], .diag .f32 3 (fun i => (i : Int))]
    (A.wf = true ∧ A.dupSlice = false ∧ A.HermOK ∧ A.rows = A.cols ∧ A.rows = 6 ∧
      diagCode 100 .auto A 0 = .ok [3, 5, 12, 20, 5, 5] ∧ diagK A.den.f A.rows 0 = [3, 5, 12, 20, 5, 5]) ∧
    (B.wf = true ∧ B.dupSlice = false ∧ B.HermOK ∧ B.rows = B.cols ∧ B.rows = 3 ∧
      diagCode 100 .exact B 1 = .ok [3, 7] ∧ diagK B.den.f B.rows 1 = [3, 7] ∧
      diagCode 100 .auto B (-2) = .ok [6] ∧ diagK B.den.f B.rows (-2) = [6]) := by
  intro A B
  have hwfA : A.wf = true := by simp [A, Op.wf, Op.rows, Op.cols, Op.dotSum]
  have hndA : A.dupSlice = false := by simp [A, Op.dupSlice]
  have hhA : A.HermOK := by
    simp [A, Op.HermOK, Op.HermNode, Op.isa, Op.anns, AnnSet.isa, AnnSet.interAll, AnnSet.inter, AnnSet.diff,
      Op.rows, Op.cols, Op.dotSum, Op.isTA, Op.isT, Op.areTheSame, Op.isScalarMul, Op.dtype, DType.isComplex, Op.core]
  have hsqA : A.rows = A.cols := by simp [A, Op.rows, Op.cols, Op.dotSum]
  have hcA : diagCode 100 .auto A 0 = .ok [3, 5, 12, 20, 5, 5] := by
    simp [A, Op.diagCode, Op.rows, Op.cols, Op.npDiag, Op.dtSeqE, Op.sumFold, Op.bcAdd, Op.outerProd, Op.outerSum,
      bind, Except.bind, pure, Except.pure, List.range_succ]
  have hwfB : B.wf = true := by simp [B, Op.wf, Op.rows, Op.cols]
  have hndB : B.dupSlice = false := by simp [B, Op.dupSlice]
  have hhB : B.HermOK := by
    simp [B, Op.HermOK, Op.HermNode, Op.isa, Op.anns, AnnSet.isa, AnnSet.interAll, AnnSet.inter, AnnSet.diff,
      Op.rows, Op.cols]
  have hsqB : B.rows = B.cols := by simp [B, Op.rows, Op.cols]
  have hcB1 : diagCode 100 .exact B 1 = .ok [3, 7] := by
    simp [B, Op.diagCode, Op.npDiag, Op.npZeros, Op.sumFold, Op.bcAdd,
      bind, Except.bind, pure, Except.pure, List.range_succ]
  have hcB2 : diagCode 100 .auto B (-2) = .ok [6] := by
    simp [B, Op.diagCode, Op.npDiag, Op.npZeros, Op.sumFold, Op.bcAdd,
      bind, Except.bind, pure, Except.pure, List.range_succ]
  refine ⟨⟨hwfA, hndA, hhA, hsqA, ?_, hcA, ?_⟩, ⟨hwfB, hndB, hhB, hsqB, ?_, hcB1, ?_, hcB2, ?_⟩⟩
  · simp [A, Op.rows, Op.dotSum]
  · exact (C08_rules 100 (by decide) .auto A hwfA hndA hhA hsqA 0 _ hcA).symm
  · simp [B, Op.rows]
  · exact (C08_rules 100 (by decide) .exact B hwfB hndB hhB hsqB 1 _ hcB1).symm
  · exact (C08_rules 100 (by decide) .auto B hwfB hndB hhB hsqB (-2) _ hcB2).symm

/-- **`C08_trace` applied to concrete nested trees**: the 6 × 6 `BlockDiag` tree of `C08_rules_witness`
(generic rule `diag(A, 0).sum()`: 50) and the 6 × 6 `Kronecker([[1,2],[3,4]], BlockDiag([[0,1],[1,1]], I₁))`
(rule `prod(trace(M))`: 5 · 2 = 10); squareness and the value of `traceSpec A.den.f …` are obtained from
`C08_trace`. -/
theorem C08_trace_witness :
    let A : Op Int := .bdiag [
      .kron [.dense .f64 2 2 (fun i j => (i : Int) * 2 + j + 1), .sum [.tri .f32 2 2 true (fun i j => if j ≤ i then (i : Int) + j + 1 else 0), .scalar .f64 2 2]],
      .annot .psd (.kronsum [.dense .f64 1 1 (fun _ _ => 5)])] [1, 2]
    let K : Op Int := .kron [.dense .f64 2 2 (fun i j => (i : Int) * 2 + j + 1),
      .bdiag [.dense .f32 2 2 (fun i j => if i = 0 ∧ j = 0 then 0 else 1), .eye .f64 1] [1, 1]]
    (A.wf = true ∧ A.dupSlice = false ∧ A.HermOK ∧ A.rows = 6 ∧
      traceCode 100 .auto A = .ok 50 ∧ A.rows = A.cols ∧ traceSpec A.den.f A.rows = 50) ∧
    (K.wf = true ∧ K.dupSlice = false ∧ K.HermOK ∧ K.rows = 6 ∧
      traceCode 100 .exact K = .ok 10 ∧ K.rows = K.cols ∧ traceSpec K.den.f K.rows = 10) := by
  intro A K
  have hwfA : A.wf = true := by simp [A, Op.wf, Op.rows, Op.cols]
  have hndA : A.dupSlice = false := by simp [A, Op.dupSlice]
  have hhA : A.HermOK := by
    simp [A, Op.HermOK, Op.HermNode, Op.isa, Op.anns, AnnSet.isa, AnnSet.interAll, AnnSet.inter, AnnSet.diff,
      Op.rows, Op.cols, Op.dotSum]
  have htA : traceCode 100 .auto A = .ok 50 := by
    simp [A, Op.traceCode, Op.diagCode, Op.rows, Op.cols, Op.dotSum, Op.npDiag, Op.dtSeqE, Op.sumFold, Op.bcAdd, Op.outerProd, Op.outerSum,
      bind, Except.bind, pure, Except.pure, List.range_succ]
  have hwfK : K.wf = true := by simp [K, Op.wf, Op.rows, Op.cols]
  have hndK : K.dupSlice = false := by simp [K, Op.dupSlice]
  have hhK : K.HermOK := by
    simp [K, Op.HermOK, Op.HermNode, Op.isa, Op.anns, AnnSet.isa, AnnSet.interAll, AnnSet.inter, AnnSet.diff,
      Op.rows, Op.cols, Op.dotSum]
  have htK : traceCode 100 .exact K = .ok 10 := by
    simp [K, Op.traceCode, Op.diagCode, Op.rows, Op.cols, Op.dotSum, Op.npDiag, Op.dtSeqE,
      bind, Except.bind, pure, Except.pure, List.range_succ]
  have sA := C08_trace 100 (by decide) .auto A hwfA hndA hhA 50 htA
  have sK := C08_trace 100 (by decide) .exact K hwfK hndK hhK 10 htK
  refine ⟨⟨hwfA, hndA, hhA, ?_, htA, sA.1, sA.2.symm⟩, ⟨hwfK, hndK, hhK, ?_, htK, sK.1, sK.2.symm⟩⟩
  · simp [A, Op.rows, Op.dotSum]
  · simp [K, Op.rows, Op.dotSum]

/-- **the probing path on a concrete operator**: `no_dispatch(Product(Dense 3×3, upper Triangular 3×3))`,
`k = -1`, `Auto()`: the selection names the `LinearOperator` rule, `C08_generic_total` gives
`.ok (exactDiag 100 G (-1))`, `C08_exact` identifies it with the sub-diagonal of the represented matrix
`[[0,1,4],[3,10,22],[6,19,40]]`, which is `[3, 19]`. -/
theorem C08_probing_witness :
    let G : Op Int := .generic (.prod [.dense .f64 3 3 (fun i j => (i : Int) * 3 + j),
      .tri .f64 3 3 false (fun i j => if i ≤ j then (j : Int) - i + 1 else 0)])
    G.wf = true ∧ G.dupSlice = false ∧ G.HermOK ∧ G.rows = G.cols ∧ G.rows = 3 ∧ G.diagRuleClass = clsLinOp ∧
      G.hutchReach = false ∧
      diagCode 100 .auto G (-1) = .ok (exactDiag 100 G (-1)) ∧ exactDiag 100 G (-1) = [3, 19] ∧
      diagK G.den.f G.rows (-1) = [3, 19] := by
  intro G
  have hwf : G.wf = true := by simp [G, Op.wf, Op.rows, Op.cols, Op.chainOk]
  have hnd : G.dupSlice = false := by simp [G, Op.dupSlice]
  have hh : G.HermOK := by
    simp [G, Op.HermOK, Op.HermNode, Op.isa, Op.anns, AnnSet.isa, AnnSet.interAll, AnnSet.inter, AnnSet.diff,
      Op.rows, Op.cols, Op.isTA, Op.isT, Op.areTheSame, Op.isScalarMul, Op.dtype, DType.isComplex, Op.core]
  have hsq : G.rows = G.cols := by simp [G, Op.rows, Op.cols]
  have hr : G.rows = 3 := by simp [G, Op.rows]
  have hcls : G.diagRuleClass = clsLinOp := by simp [G, Op.diagRuleClass, clsLinOp]
  have hden : diagK G.den.f G.rows (-1) = [3, 19] := by
    simp [G, Op.diagK, Op.den, Op.rows, Op.cols, mmul, sumTo, eyeM, List.range_succ]
  have hcore : G.core = G := by simp [G, Op.core]
  have hcode := diagCode_generic_total 100 .auto G (-1) hcls hsq (by omega) (Or.inr (by rw [← hsq, hr]; decide))
  rw [hcore] at hcode
  refine ⟨hwf, hnd, hh, hsq, hr, hcls, ?_, hcode, ?_, hden⟩
  · simp [G, Op.hutchReach, Op.autoExact, Op.rows, Op.cols]
  · rw [C08_exact 100 (by decide) G hwf hnd hh hsq (-1), hden]

end C08

#print axioms C08.C08_exact
#print axioms C08.C08_exact_length
#print axioms C08.C08_exact_entries
#print axioms C08.C08_auto_default
#print axioms C08.C08_rules
#print axioms C08.C08_rules_length
#print axioms C08.C08_rule_agrees_with_probing
#print axioms C08.C08_trace
#print axioms C08.C08_trace_kron
#print axioms C08.C08_spec_is_mathlib_trace
#print axioms C08.C08_spec_is_mathlib_diag
#print axioms C08.C08_regression_block
#print axioms C08.C08_regression_factor
#print axioms C08.C08_hypotheses_witness
#print axioms C08.C08_dtype_diag_partial
#print axioms C08.C08_dtype_trace_partial
#print axioms C08.C08_dtype_is_operator_dtype
#print axioms C08.C08_dtype_exact
#print axioms C08.C08_dtype_clause_needed
#print axioms C08.C08_rule_table
#print axioms C08.C08_rule_superclass
#print axioms C08.C08_rule_generic
#print axioms C08.C08_refusals_are_exceptions
#print axioms C08.C08_trace_refusals_are_exceptions
#print axioms C08.C08_rule_agrees_with_probing_strict
#print axioms C08.C08_generic_total
#print axioms C08.C08_escape_witness
#print axioms C08.C08_rules_witness
#print axioms C08.C08_trace_witness
#print axioms C08.C08_probing_witness
#print axioms Op.idCols_eq
#print axioms Op.chunk_partition
#print axioms Op.kron_trace_list
