import ColaVerif.Model.DiagTrace

namespace C08
/-- placeholder while the proofs are being written -/
theorem C08_stub : (1 : Nat) = 1 := rfl
end C08

#print axioms C08.C08_stub
