import ColaVerif.Lemmas.DiagTraceSound
import ColaVerif.Lemmas.Bridge
import Mathlib.LinearAlgebra.Matrix.Trace

/-!
# C08 — exact diag / trace return the true (off-)diagonal and trace (property theorems)

`Op R` : operator expression trees; `A.den` : the represented matrix (specification);
`Op.diagK D n k` : the `k`-th diagonal of the `n × n` matrix `D` (entries `D t (t+k)` for `k ≥ 0`,
`D (t-k) t` for `k < 0`, length `n - |k|`); `Op.traceSpec D n` : the sum of the main diagonal;
`Op.exactDiag bs0 A k` : the code model of the probing loop `exact_diag` (chunks of the identity
through `Sliced`, `A @ chunk`, shifted chunk, row sums, trimming) with the hard-coded `100` of
`bs = min(100, n)` as the PARAMETER `bs0`;
`Op.diagCode bs0 alg A k`, `Op.traceCode bs0 alg A` : the code model of `cola.linalg.diag(A, k, alg)`,
`cola.linalg.trace(A, alg)` (`alg` ∈ {omitted = `Auto()`, `Exact()`}): rule selection + every
rule of `cola/linalg/trace/diag_trace.py`; `.error _` = the call refuses.

Hypotheses: `A.wf`, `A.dupSlice = false`, `A.HermOK` (those of C01, `Op.Good`; `dupSlice` is C01's
recorded clause `sliced-repeated-index`, a hypothesis of `Op.mm_eq`).  C08 has no clause of its own any more: the two defects found while building this check
(`diag(BlockDiag)` / `diag(Kronecker)` with non-square members returned wrong values) are repaired in
/repo — the rules now refuse — and are kept below as regression lemmas.
-/

namespace C08
open Op
variable {R : Type} [CommRing R] [StarRing R] [DecidableEq R]

/-- **C08 (exact algorithm).**  For EVERY block-size constant `bs0 > 0` (in particular 100), every
square operator tree of every size `n` (smaller than, equal to, larger than the block size,
divisible by it or not) and EVERY offset `k` (in range or not), the probing loop returns exactly
the `k`-th diagonal of the represented matrix. -/
theorem C08_exact (bs0 : Nat) (hbs : 0 < bs0) (A : Op R) (hwf : A.wf = true)
    (hnd : A.dupSlice = false) (hh : A.HermOK) (hsq : A.rows = A.cols) (k : Int) :
    exactDiag bs0 A k = diagK A.den.f A.rows k :=
  exactDiag_eq bs0 hbs A ⟨hwf, hnd, hh⟩ hsq k

/-- the result has the correct length `n - |k|` for every offset (empty for `|k| ≥ n`) -/
theorem C08_exact_length (bs0 : Nat) (hbs : 0 < bs0) (A : Op R) (hwf : A.wf = true)
    (hnd : A.dupSlice = false) (hh : A.HermOK) (hsq : A.rows = A.cols) (k : Int) :
    (exactDiag bs0 A k).length = A.rows - k.natAbs := by
  rw [C08_exact bs0 hbs A hwf hnd hh hsq k, diagK_length]

/-- the entries, for `-n < k < n` -/
theorem C08_exact_entries (bs0 : Nat) (hbs : 0 < bs0) (A : Op R) (hwf : A.wf = true)
    (hnd : A.dupSlice = false) (hh : A.HermOK) (hsq : A.rows = A.cols) (k : Int) (t : Nat)
    (ht : t < A.rows - k.natAbs) :
    (exactDiag bs0 A k)[t]? =
      some (if 0 ≤ k then A.den.f t (t + k.toNat) else A.den.f (t + k.natAbs) t) := by
  rw [C08_exact bs0 hbs A hwf hnd hh hsq k]
  simp [diagK, ht]

/-- **C08 (the `Auto` decision).**  At the default tolerance `1e-6` the automatic algorithm is
the exact one for every operator with fewer than `10¹¹` entries
(`tol < 1/sqrt(10·numel)` ⟺ `10·numel·tol² < 1`). -/
theorem C08_auto_default (numel : Nat) :
    autoExact 1 1000000 numel = true ↔ numel < 100000000000 := by
  simp only [autoExact, decide_eq_true_eq]
  omega

/-- **C08 (every rule of `diag`).**  With `alg` omitted, `Auto()` or `Exact()`: whenever
`diag(A, k, alg)` returns an array, it is exactly the `k`-th diagonal of the represented matrix,
for every square tree over Dense, Triangular, Identity, Diagonal, ScalarMul, Sum, BlockDiag with
multiplicities, Kronecker, KronSum (any number of members, any nesting), products and all generic
kinds, every offset, every block-size constant; every other outcome is a refusal. -/
theorem C08_rules (bs0 : Nat) (hbs : 0 < bs0) (alg : Alg) (A : Op R) (hwf : A.wf = true)
    (hnd : A.dupSlice = false) (hh : A.HermOK) (hsq : A.rows = A.cols) (k : Int) (d : List R)
    (h : diagCode bs0 alg A k = .ok d) : d = diagK A.den.f A.rows k :=
  diagCode_sound bs0 hbs alg A ⟨hwf, hnd, hh⟩ hsq k d h

/-- length of a returned array -/
theorem C08_rules_length (bs0 : Nat) (hbs : 0 < bs0) (alg : Alg) (A : Op R)
    (hwf : A.wf = true) (hnd : A.dupSlice = false) (hh : A.HermOK)
    (hsq : A.rows = A.cols) (k : Int) (d : List R)
    (h : diagCode bs0 alg A k = .ok d) : d.length = A.rows - k.natAbs := by
  rw [C08_rules bs0 hbs alg A hwf hnd hh hsq k d h, diagK_length]

/-- **C08 (rule vs probing).**  A structural rule returns the same values as the generic probing
algorithm run on the same operator, or refuses; it never returns different values. -/
theorem C08_rule_agrees_with_probing (bs0 : Nat) (hbs : 0 < bs0) (alg : Alg) (A : Op R)
    (hwf : A.wf = true) (hnd : A.dupSlice = false) (hh : A.HermOK)
    (hsq : A.rows = A.cols) (k : Int) :
    diagCode bs0 alg A k = .ok (exactDiag bs0 A k) ∨ ∃ msg, diagCode bs0 alg A k = .error msg := by
  cases hd : diagCode bs0 alg A k with
  | error msg => exact Or.inr ⟨msg, rfl⟩
  | ok d =>
    left
    rw [C08_rules bs0 hbs alg A hwf hnd hh hsq k d hd,
      C08_exact bs0 hbs A hwf hnd hh hsq k]

/-- **C08 (trace).**  Whenever `trace(A, alg)` returns a value, the operator is square and the
value is the sum of the main diagonal of the represented matrix (the `Kronecker` rule
`prod(trace(M))` included); every other outcome is a refusal. -/
theorem C08_trace (bs0 : Nat) (hbs : 0 < bs0) (alg : Alg) (A : Op R) (hwf : A.wf = true)
    (hnd : A.dupSlice = false) (hh : A.HermOK) (t : R) (h : traceCode bs0 alg A = .ok t) :
    A.rows = A.cols ∧ t = traceSpec A.den.f A.rows :=
  traceCode_sound bs0 hbs alg A ⟨hwf, hnd, hh⟩ t h

omit [DecidableEq R] in
/-- `trace(M₁ ⊗ … ⊗ M_k) = Π trace(M_i)` for square factors (what the `Kronecker` rule of `trace`
relies on), as a statement about the represented matrices -/
theorem C08_trace_kron (Ms : List (Op R)) (hsq : ∀ M ∈ Ms, M.rows = M.cols) :
    traceSpec (kron Ms).den.f (kron Ms).rows = (Ms.map (fun M => traceSpec M.den.f M.rows)).prod := by
  rw [kron_trace_list Ms hsq]
  simp only [rows]
  rw [traceSpec_eq_sum, traceSpec_eq_sum]
  congr 1
  apply List.map_congr_left
  intro i _
  rw [den]
  simp only [forceV_f]
  rfl

omit [StarRing R] [DecidableEq R] in
/-- the specification is Mathlib's trace / diagonal of the represented matrix -/
theorem C08_spec_is_mathlib_trace (D : MatF R) (n : Nat) :
    traceSpec D n = Matrix.trace (MatF.toMatrix n n D) := by
  rw [traceSpec, sumTo_eq, Matrix.trace, Finset.sum_range]
  rfl

omit [CommRing R] [StarRing R] [DecidableEq R] in
theorem C08_spec_is_mathlib_diag (D : MatF R) (n : Nat) :
    diagK D n 0 = List.ofFn (Matrix.diag (MatF.toMatrix n n D)) := by
  apply List.ext_getElem
  · simp [diagK]
  · intro t h1 h2
    simp [diagK, Matrix.diag, MatF.toMatrix]

/-! ## regression lemmas for the two repaired defects; the hypotheses are satisfiable -/

/-- **regression (repaired defect `bdiag-nonsquare-block`)**: the square `BlockDiag` of the blocks
`[1 2]` (1×2) and `[3 4]ᵀ` (2×1) represents `[[1,2,0],[0,0,3],[0,0,4]]` with diagonal `[1,0,4]` and
trace `5`; concatenating the blocks' own diagonals gave `[1,3]` / `4`.  The rule now refuses. -/
theorem C08_regression_block :
    let A : Op Int := .bdiag [.dense .f64 1 2 (fun _ j => (j : Int) + 1), .dense .f64 2 1 (fun i _ => (i : Int) + 3)] [1, 1]
    A.wf = true ∧ A.dupSlice = false ∧ A.HermOK ∧ A.rows = A.cols ∧
      diagCode 100 .auto A 0 = .error "error:AssertionError" ∧
      traceCode 100 .auto A = .error "error:AssertionError" ∧
      diagK A.den.f A.rows 0 = [1, 0, 4] ∧ traceSpec A.den.f A.rows = 5 := by
  refine ⟨?_, ?_, ?_, ?_, ?_, ?_, ?_, ?_⟩
  · simp [Op.wf]
  · simp [Op.dupSlice]
  · simp [Op.HermOK, Op.HermNode, Op.isa, Op.anns, AnnSet.isa, AnnSet.interAll, AnnSet.inter]
  · simp [Op.rows, Op.cols, Op.dotSum]
  · simp [Op.diagCode, Op.rows, Op.cols]
  · simp [Op.traceCode, Op.diagCode, Op.rows, Op.cols, Op.dotSum, bind, Except.bind]
  · simp [Op.diagK, Op.den, Op.rows, Op.cols, Op.dotSum, bdiagDen, expandBlocks, blockDiagM,
      List.range_succ]
  · simp [Op.traceSpec, sumTo, Op.den, Op.rows, Op.cols, Op.dotSum, bdiagDen, expandBlocks, blockDiagM]

/-- **regression (repaired defect `kron-nonsquare-factor`)**: the square Kronecker product of
`[1 2]` (1×2) and `[3 4]ᵀ` (2×1) represents `[[3,6],[4,8]]` with diagonal `[3,8]`; the outer product
of the factors' own diagonals gave `[3]`.  The rule now refuses. -/
theorem C08_regression_factor :
    let A : Op Int := .kron [.dense .f64 1 2 (fun _ j => (j : Int) + 1), .dense .f64 2 1 (fun i _ => (i : Int) + 3)]
    A.wf = true ∧ A.dupSlice = false ∧ A.HermOK ∧ A.rows = A.cols ∧
      diagCode 100 .auto A 0 = .error "error:AssertionError" ∧ diagK A.den.f A.rows 0 = [3, 8] := by
  refine ⟨?_, ?_, ?_, ?_, ?_, ?_⟩
  · simp [Op.wf]
  · simp [Op.dupSlice]
  · simp [Op.HermOK, Op.HermNode, Op.isa, Op.anns, AnnSet.isa, AnnSet.interAll, AnnSet.inter]
  · simp [Op.rows, Op.cols]
  · simp [Op.diagCode, Op.rows, Op.cols]
  · simp [Op.diagK, Op.den, Op.rows, Op.cols, kronDen, kronEntry, unravel, List.range_succ]

/-- non-vacuity: a nested square tree with a BlockDiag with multiplicities, a Kronecker product,
a KronSum, a Sum, a ScalarMul, a product and a generic operator satisfies every hypothesis of the
theorems (`HermOK` is C05's business; here all annotation sets are checked directly). -/
example :
    let A : Op Int := .sum [
      .bdiag [.kron [.dense .f64 2 2 (fun i j => (i : Int) + j), .eye .f64 1], .scalar .f64 3 1] [1, 2],
      .kronsum [.diag .f64 2 (fun i => (i : Int) + 1), .generic (.prod [.dense .f64 2 2 (fun i j => (i : Int) - j), .dense .f64 2 2 (fun _ _ => 1)])]]
    A.wf = true ∧ A.dupSlice = false ∧ A.rows = A.cols := by
  simp [Op.wf, Op.dupSlice, Op.rows, Op.cols, Op.dotSum, Op.chainOk]

end C08

#print axioms C08.C08_exact
#print axioms C08.C08_exact_length
#print axioms C08.C08_exact_entries
#print axioms C08.C08_auto_default
#print axioms C08.C08_rules
#print axioms C08.C08_rules_length
#print axioms C08.C08_rule_agrees_with_probing
#print axioms C08.C08_trace
#print axioms C08.C08_trace_kron
#print axioms C08.C08_spec_is_mathlib_trace
#print axioms C08.C08_spec_is_mathlib_diag
#print axioms C08.C08_regression_block
#print axioms C08.C08_regression_factor
#print axioms Op.idCols_eq
#print axioms Op.chunk_partition
#print axioms Op.kron_trace_list
