import ColaVerif.Lemmas.OpAlgebra
import ColaVerif.Lemmas.OpDtype
import ColaVerif.Lemmas.OpMatmatDtype
import ColaVerif.Lemmas.TreeWitnesses
import ColaVerif.Basic.GInt

/-!
# C02 — transpose, adjoint and left-multiplication agree with the represented matrix

`A.transposeRule`, `A.adjointRule`, `A.tower tw` : the code model of `A.T`, `A.H` and towers of
them (`cola/fns.py` rule selection: class-specific rules for Transpose/Adjoint/Dense/Triangular/
Sparse behind any number of annotation wrappers, else the `isa SelfAdjoint` shortcut, else the
lazy wrapper); `A.rmm b X` : the code model of `X @ A`; `A.td` : `A.to_dense()`;
`A.den` : the represented matrix (specification).

Hypotheses (all named):
* `A.wf`, `A.dupSlice = false`, `A.HermOK` — as in C01;
* `A.RealTyped` — every payload entry of a leaf tagged `f32`/`f64` is fixed by `star`.  The
  carrier `R` of the model is one ring for all dtypes, so the dtype tag does not constrain the
  payload by itself; for NumPy data this is a typing fact, not a restriction
  (`C02_realTyped_needed` shows the model needs it: the transpose rule returns a
  SelfAdjoint-annotated operator of real dtype unchanged).
-/

namespace C02
variable {R : Type} [CommRing R] [StarRing R] [DecidableEq R]

/-! ## left multiplication -/

/-- `X @ A` is `X` times the represented matrix, for every tree and every number of rows. -/
theorem C02_left_product (A : Op R) (hwf : A.wf = true) (hnd : A.dupSlice = false)
    (hh : A.HermOK) (b : Nat) (X : MatF R) :
    EqOn b A.cols (A.rmm b X).f (mmul A.rows X A.den.f) := Op.rmm_eq A hwf hnd hh b X

/-- a 1-D operand is reshaped to a row: the model of `x @ A` is the one-row case. -/
theorem C02_left_product_vec (A : Op R) (hwf : A.wf = true) (hnd : A.dupSlice = false)
    (hh : A.HermOK) (x : Nat → R) (j : Nat) (hj : j < A.cols) :
    (A.rmm 1 (fun _ q => x q)).f 0 j = ∑ q ∈ Finset.range A.rows, x q * A.den.f q j := by
  have h := Op.rmm_eq A hwf hnd hh 1 (fun _ q => x q) 0 j (by omega) hj
  rw [h, mmul_apply]

/-! ## one `.T` / `.H` -/

/-- shape of `A.T` (uses only that a node reporting SelfAdjoint is square). -/
theorem C02_transpose_shape (A : Op R) (hh : A.HermOK) :
    A.transposeRule.rows = A.cols ∧ A.transposeRule.cols = A.rows := Op.transposeRule_shape A hh

/-- shape of `A.H`. -/
theorem C02_adjoint_shape (A : Op R) (hh : A.HermOK) :
    A.adjointRule.rows = A.cols ∧ A.adjointRule.cols = A.rows := Op.adjointRule_shape A hh

/-- `A.T` represents the transpose of the matrix `A` represents. -/
theorem C02_transpose (A : Op R) (hwf : A.wf = true) (hh : A.HermOK) (hr : A.RealTyped) :
    EqOn A.cols A.rows A.transposeRule.den.f (transposeM A.den.f) :=
  Op.transposeRule_den A hwf hh hr

/-- `A.H` represents the conjugate transpose of the matrix `A` represents. -/
theorem C02_adjoint (A : Op R) (hh : A.HermOK) :
    EqOn A.cols A.rows A.adjointRule.den.f (conjM (transposeM A.den.f)) :=
  Op.adjointRule_den A hh

/-- the hypotheses propagate to `A.T`, so the step can be iterated and C01 applies to it. -/
theorem C02_transpose_side (A : Op R) (hwf : A.wf = true) (hnd : A.dupSlice = false)
    (hh : A.HermOK) (hr : A.RealTyped) :
    A.transposeRule.wf = true ∧ A.transposeRule.dupSlice = false ∧ A.transposeRule.HermOK ∧
      A.transposeRule.RealTyped :=
  let sp := Op.transposeRule_spec A ⟨hwf, hnd, hh⟩ hr
  ⟨sp.wf, sp.nd, sp.herm, sp.real⟩

/-- the hypotheses propagate to `A.H`. -/
theorem C02_adjoint_side (A : Op R) (hwf : A.wf = true) (hnd : A.dupSlice = false)
    (hh : A.HermOK) (hr : A.RealTyped) :
    A.adjointRule.wf = true ∧ A.adjointRule.dupSlice = false ∧ A.adjointRule.HermOK ∧
      A.adjointRule.RealTyped :=
  let sp := Op.adjointRule_spec A ⟨hwf, hnd, hh⟩ hr
  ⟨sp.wf, sp.nd, sp.herm, sp.real⟩

omit [DecidableEq R] in
/-- a real-typed operator of real dtype has a `star`-fixed represented matrix (why the
`isa SelfAdjoint ∧ real dtype` shortcut of the transpose rule is sound). -/
theorem C02_real_den_star_fixed (A : Op R) (hr : A.RealTyped) (hwf : A.wf = true)
    (hd : ¬ A.dtype.isComplex = true) :
    ∀ i j, i < A.rows → j < A.cols → star (A.den.f i j) = A.den.f i j :=
  Op.den_star_fixed A hr hwf hd

/-! ## towers of any height -/

/-- `A.T.H.….to_dense()` for a tower of any height (`true` = `.T`, `false` = `.H`, innermost
first) is the corresponding tower of (conjugate) transposes of the represented matrix. -/
theorem C02_tower (tw : List Bool) (A : Op R) (hwf : A.wf = true) (hnd : A.dupSlice = false)
    (hh : A.HermOK) (hr : A.RealTyped) :
    let B := A.tower tw
    EqOn B.rows B.cols B.td.f (Op.towerDen A.den.f tw) := Op.tower_td tw A hwf hnd hh hr

/-- the represented matrix of the tower itself (before `to_dense`). -/
theorem C02_tower_den (tw : List Bool) (A : Op R) (hwf : A.wf = true) (hnd : A.dupSlice = false)
    (hh : A.HermOK) (hr : A.RealTyped) :
    let B := A.tower tw
    EqOn B.rows B.cols B.den.f (Op.towerDen A.den.f tw) :=
  (Op.tower_spec tw A A.den.f ⟨hwf, hnd, hh⟩ hr (EqOn.refl _ _ _)).2.2

/-- shape of a tower: swapped for odd height. -/
theorem C02_tower_shape (tw : List Bool) (A : Op R) (hwf : A.wf = true)
    (hnd : A.dupSlice = false) (hh : A.HermOK) (hr : A.RealTyped) :
    (A.tower tw).rows = (if tw.length % 2 = 0 then A.rows else A.cols) ∧
      (A.tower tw).cols = (if tw.length % 2 = 0 then A.cols else A.rows) :=
  Op.tower_shape tw A ⟨hwf, hnd, hh⟩ hr

/-- dtype of a tower: `.T` / `.H` never change the dtype — a tower of any height has the dtype
of `A`, which is the join of `A`'s leaf dtypes (`Op.dtypeSpec`, see `C01_dtype`).  No hypothesis:
every rule of `cola.fns.transpose` / `adjoint` (double-transpose cancellation, fresh `Dense` /
`Triangular` / `Sparse`, the SelfAdjoint shortcut, the lazy wrapper) is covered. -/
theorem C02_tower_dtype (tw : List Bool) (A : Op R) : (A.tower tw).dtype = A.dtypeSpec :=
  Op.tower_dtype tw A

omit [CommRing R] [StarRing R] [DecidableEq R] in
/-- DEFINITIONAL, not in the audited list (`Op.mmDtype` is defined as the promotion; the statement
about the code is `C02_left_product_dtype_model`, on the recursive model `Op.rmmDt`).
The left product `X @ A` has the promoted dtype of operator and operand (the same statement as
`C01_result_dtype`, `_rmatmat` ends in the same NumPy promotion) -/
theorem C02_left_product_dtype (A : Op R) (xdt : DType) : A.mmDtype xdt = A.mmDtypeSpec xdt :=
  Op.mmDtype_eq_spec A xdt

/-- **C02 (left-product dtype, code model).**  `Op.rmmDt A x` computes the dtype of
`A._rmatmat(X)` by recursion over the tree, in the case structure of `Op.rmm`: the explicit
overrides (Dense, Triangular, Sparse, Product left-to-right, Sum, Diagonal, Transpose / Adjoint
through `_matmat`, Sliced through its promoted buffer), else the default of `operator_base.py` —
for a SelfAdjoint-reporting operator the dtype of `_matmat` on the conjugated operand, otherwise
that of the shim's `linear_transpose` (`_matmat(eye(dtype=X.dtype)).T @ X.T`).  For every tree the
constructors accept it is the join of the leaf dtypes and the operand's dtype; this is the value the
driver prints as the code-model `resdt` of a left product. -/
theorem C02_left_product_dtype_model (A : Op R) (hwf : A.wf = true) (xdt : DType) :
    A.rmmDt xdt = A.mmDtypeSpec xdt := Op.rmmDt_eq_spec A hwf xdt

/-- both branches of the default `_rmatmat` and `_matmat` agree on the dtype -/
theorem C02_left_right_dtype (A : Op R) (hwf : A.wf = true) (xdt : DType) :
    A.rmmDt xdt = A.mmDt xdt := by
  rw [(Op.mmDt_rmmDt_eq A hwf).1, (Op.mmDt_rmmDt_eq A hwf).2]

/-! ## involutions -/

/-- `A.T.T` represents `A` again. -/
theorem C02_TT (A : Op R) (hwf : A.wf = true) (hnd : A.dupSlice = false) (hh : A.HermOK)
    (hr : A.RealTyped) :
    A.transposeRule.transposeRule.rows = A.rows ∧ A.transposeRule.transposeRule.cols = A.cols ∧
      EqOn A.rows A.cols A.transposeRule.transposeRule.den.f A.den.f := by
  have sh := C02_tower_shape [true, true] A hwf hnd hh hr
  have dn := C02_tower_den [true, true] A hwf hnd hh hr
  simp only [Op.tower, if_true, List.length_cons, List.length_nil] at sh dn
  refine ⟨sh.1, sh.2, ?_⟩
  rw [sh.1, sh.2] at dn
  exact dn

/-- `A.H.H` represents `A` again. -/
theorem C02_HH (A : Op R) (hwf : A.wf = true) (hnd : A.dupSlice = false) (hh : A.HermOK)
    (hr : A.RealTyped) :
    A.adjointRule.adjointRule.rows = A.rows ∧ A.adjointRule.adjointRule.cols = A.cols ∧
      EqOn A.rows A.cols A.adjointRule.adjointRule.den.f A.den.f := by
  have sh := C02_tower_shape [false, false] A hwf hnd hh hr
  have dn := C02_tower_den [false, false] A hwf hnd hh hr
  simp only [Op.tower, Bool.false_eq_true, if_false, List.length_cons, List.length_nil] at sh dn
  refine ⟨sh.1, sh.2, ?_⟩
  rw [sh.1, sh.2] at dn
  intro i j hi hj
  rw [dn i j hi hj]
  simp only [Op.towerDen, Bool.false_eq_true, if_false, conjM, transposeM, star_star]

/-! ## the hypotheses are needed / satisfiable -/

/-- `HermOK` is needed already for the shape: a non-square operator declared SelfAdjoint
(`cola.SelfAdjoint(I₃[0:2, :])`, 2 × 3, real dtype) is returned unchanged by `.T`. -/
theorem C02_shape_clause_needed :
    let A : Op Int := .annot .selfAdjoint
      (.sliced (.eye .f64 3) (.slice none (some 2) none) (.slice none none none))
    A.wf = true ∧ A.cols = 3 ∧ A.transposeRule.rows = 2 := by
  simp [Op.wf, Op.rows, Op.cols, Op.transposeRule, Op.core, Op.isa, Op.anns, Op.dtype,
    AnnSet.isa, AnnSet.union, Ann.sub, DType.isComplex, Op.slicesSymmetric, Ix.resolve,
    Ix.sliceIndices, Ix.rangeList]

/-- `RealTyped` is needed in the model: a Hermitian, non-symmetric payload under a real dtype
tag (impossible for a NumPy `float64` array) satisfies `wf` and `HermOK`, the transpose rule
returns it unchanged, and its matrix is not its transpose. -/
theorem C02_realTyped_needed :
    let H : MatF GInt := fun i j =>
      if i = 0 ∧ j = 1 then GInt.I else if i = 1 ∧ j = 0 then -GInt.I else 0
    let A : Op GInt := .annot .selfAdjoint (.generic (.dense .f64 2 2 H))
    A.wf = true ∧ A.HermOK ∧ A.transposeRule = A ∧ A.den.f 0 1 ≠ transposeM A.den.f 0 1 := by
  refine ⟨by simp [Op.wf], ?_, ?_, ?_⟩
  · simp only [Op.HermOK, Op.HermNode]
    refine ⟨fun _ => ⟨by simp [Op.rows, Op.cols], ?_⟩, ?_, ?_⟩
    · intro i j hi hj
      simp only [Op.rows] at hi hj
      simp only [Op.den, MatV.of_f]
      have h1 : i = 0 ∨ i = 1 := by omega
      have h2 : j = 0 ∨ j = 1 := by omega
      rcases h1 with rfl | rfl <;> rcases h2 with rfl | rfl <;> decide
    · simp [Op.isa, Op.anns, AnnSet.isa]
    · simp [Op.isa, Op.anns, AnnSet.isa]
  · simp [Op.transposeRule, Op.core, Op.isa, Op.anns, Op.dtype, AnnSet.isa, AnnSet.union,
      Ann.sub, DType.isComplex]
  · simp only [Op.den, MatV.of_f, transposeM]
    decide

/-- **witness with SelfAdjoint-reporting nodes**: `hermWitness` (Lemmas/TreeWitnesses.lean: a `Sum`
of two declared-SelfAdjoint complex Hermitian 2 × 2 operators with non-real off-diagonal entries,
the second a `no_dispatch` wrapper WITHOUT explicit `_rmatmat`) satisfies all four hypotheses, the
root reports SelfAdjoint, and the theorems apply: its left product — which takes the conjugation
shortcut at the second term — is `X` times the represented matrix, and `.H` (returned as the
operator itself by the SelfAdjoint rule) represents the conjugate transpose -/
theorem C02_hermWitness :
    hermWitness.wf = true ∧ hermWitness.dupSlice = false ∧ hermWitness.HermOK ∧
      hermWitness.RealTyped ∧ hermWitness.isa .selfAdjoint = true ∧
      (Op.annot .selfAdjoint (.generic (.dense .c128 2 2 hermH'))).hasExplicitRmm = false ∧
      (∀ b X, EqOn b hermWitness.cols (hermWitness.rmm b X).f (mmul hermWitness.rows X hermWitness.den.f)) ∧
      EqOn hermWitness.cols hermWitness.rows hermWitness.adjointRule.den.f
        (conjM (transposeM hermWitness.den.f)) ∧
      EqOn hermWitness.cols hermWitness.rows hermWitness.transposeRule.den.f
        (transposeM hermWitness.den.f) :=
  have h := hermWitness_good
  ⟨h.1, h.2.1, h.2.2.1, h.2.2.2, hermWitness_reports.1, hermWitness_reports.2,
    fun b X => C02_left_product hermWitness h.1 h.2.1 h.2.2.1 b X,
    C02_adjoint hermWitness h.2.2.1, C02_transpose hermWitness h.1 h.2.2.1 h.2.2.2⟩

/-- non-vacuity: a nested complex-typed tree with annotation wrappers satisfying all hypotheses
(`HermOK` holds because no node of it reports SelfAdjoint). -/
example :
    let A : Op GInt := .prod [.dense .c128 2 3 (fun i j => ⟨i, j⟩),
      .transpose (.annot .stiefel (.dense .c64 2 3 (fun i j => ⟨j, i + 1⟩)))]
    A.wf = true ∧ A.dupSlice = false ∧ A.RealTyped ∧ A.HermOK := by
  refine ⟨?_, ?_, ?_, ?_⟩
  · simp [Op.wf, Op.chainOk, Op.rows, Op.cols]
  · simp [Op.dupSlice]
  · simp [Op.RealTyped, DType.isComplex]
  · simp [Op.HermOK, Op.HermNode, Op.isa, Op.anns, AnnSet.isa, AnnSet.union, AnnSet.inter,
      AnnSet.interAll, AnnSet.diff, Ann.sub, Op.isTA, Op.isT, Op.areTheSame, Op.core, Op.sameObj,
      Op.isScalarMul, Op.rows, Op.cols]

end C02

#print axioms C02.C02_left_product
#print axioms C02.C02_left_product_vec
#print axioms C02.C02_transpose_shape
#print axioms C02.C02_adjoint_shape
#print axioms C02.C02_transpose
#print axioms C02.C02_adjoint
#print axioms C02.C02_transpose_side
#print axioms C02.C02_adjoint_side
#print axioms C02.C02_real_den_star_fixed
#print axioms C02.C02_tower
#print axioms C02.C02_tower_den
#print axioms C02.C02_tower_shape
#print axioms C02.C02_tower_dtype
#print axioms C02.C02_left_product_dtype_model
#print axioms C02.C02_left_right_dtype
#print axioms C02.C02_hermWitness
#print axioms C02.C02_TT
#print axioms C02.C02_HH
#print axioms C02.C02_shape_clause_needed
#print axioms C02.C02_realTyped_needed
