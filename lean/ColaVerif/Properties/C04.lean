/-
  C04 — rule selection is total and unambiguous.

  For every dispatched function `f` of cola the generated module `Gen/RuleTable.lean` holds
  `table_f` (the registered signatures, regenerated from the live dispatcher on every run),
  `lattice_f` (every admitted tuple of argument classes × truth values of the applicable
  conditions; the admitted domains are fixed in harness/translators/dump_rules.py) and
  `clauses_f` (named clause classes that are currently known to fail; ALL EMPTY in the current
  table — `C04_no_recorded_exception`, PartG — and the build breaks if one becomes non-empty).
  `resolve` is the executable model of plum's resolver (Model/Dispatch.lean).

  `C04_f` : on every lattice tuple outside the clauses the resolver returns a unique rule
  (neither `NotFoundLookupError` nor `AmbiguousLookupError`).  All proofs are kernel evaluations
  (`decide +kernel`): they hold for exactly the table that was generated.
  `C04_total_unambiguous_noexcept` / `C04_total_selects_minimal_match`: the same with no `excluded`
  escape at all.  PartH: regression examples on the PRE-fix rows of `inv`, `dot`, `kron` (literal
  tables from /repo's history) on which the same `resolve` answers `.ambiguous`.
-/
import ColaVerif.Model.Dispatch
import ColaVerif.Gen.RuleTable
import ColaVerif.Properties.C04.PartA
import ColaVerif.Properties.C04.PartB
import ColaVerif.Properties.C04.PartC
import ColaVerif.Properties.C04.PartD
import ColaVerif.Properties.C04.PartE
import ColaVerif.Properties.C04.PartF
import ColaVerif.Properties.C04.PartG
import ColaVerif.Properties.C04.PartH

namespace ColaVerif.Properties.C04
open ColaVerif.Dispatch ColaVerif.Gen.RuleTable

-- `C04_<f> : ∀ t ∈ lattice_<f>, okOn hier table_<f> clauses_<f> t = true` for the 25 dispatched
-- functions are in Properties/C04/Part{A..F}.lean, the table checks in PartG.lean.

/-- **C04**: for every dispatched function, on every lattice tuple outside the named clause
    classes, rule selection succeeds with a unique rule. -/
theorem C04_total_unambiguous :
    ∀ e ∈ allFunctions, ∀ t ∈ e.2.2.2.1, okOn hier e.2.1 e.2.2.2.2 t = true := by
  intro e he
  simp only [allFunctions, List.mem_cons, List.not_mem_nil, or_false] at he
  rcases he with rfl | rfl | rfl | rfl | rfl | rfl | rfl | rfl | rfl | rfl | rfl | rfl | rfl | rfl | rfl
    | rfl | rfl | rfl | rfl | rfl | rfl | rfl | rfl | rfl | rfl
  · exact C04_add
  · exact C04_adjoint
  · exact C04_apply_unary
  · exact C04_cholesky
  · exact C04_diag
  · exact C04_dot
  · exact C04_eig
  · exact C04_exp
  · exact C04_get_annotations
  · exact C04_inv
  · exact C04_inverse
  · exact C04_isqrt
  · exact C04_kron
  · exact C04_kronsum
  · exact C04_log
  · exact C04_mul
  · exact C04_nullspace
  · exact C04_pinv
  · exact C04_plu
  · exact C04_pow
  · exact C04_slogdet
  · exact C04_sqrt
  · exact C04_svd
  · exact C04_trace
  · exact C04_transpose

/-- `≤` is a preorder on every live table (PartG), hence the selected rule matches the arguments and no matching rule of the live table is
    strictly more specific than it. -/
theorem C04_selected_is_minimal :
    ∀ e ∈ allFunctions, ∀ (t : Tup) (i : Nat), resolve hier e.2.1 t = .unique i →
      ∃ s, e.2.1[i]? = some s ∧ sigMatch s (t.args.map hier.mask) t.conds = true ∧
        ∀ (j : Nat) (sj : Sig), e.2.1[j]? = some sj → sigMatch sj (t.args.map hier.mask) t.conds = true →
          ¬ (sigLe hier sj s = true ∧ sigLe hier s sj = false) := by
  intro e he t i h
  have hpre : preorderOn hier e.2.1 = true := (List.all_eq_true.mp C04_tables_preorder) e he
  obtain ⟨s, hs, hmatch, _, _⟩ := resolve_sound hier e.2.1 t i h
  obtain ⟨s', hs', hmin⟩ := resolve_minimal hier e.2.1 t i hpre h
  rw [hs] at hs'
  cases hs'
  exact ⟨s, hs, hmatch, hmin⟩

/-- **C04 without an escape clause**: no clause is recorded (`C04_no_recorded_exception`), so on EVERY lattice
    tuple of EVERY dispatched function the resolver returns `.unique i` outright. -/
theorem C04_total_unambiguous_noexcept :
    ∀ e ∈ allFunctions, ∀ t ∈ e.2.2.2.1, ∃ i, resolve hier e.2.1 t = .unique i := by
  intro e he t ht
  have h := C04_total_unambiguous e he t ht
  rw [C04_no_recorded_exception e he, okOn_nil] at h
  exact (Res.isUnique_iff _).mp h

/-- ... and the selected index is an entry of the table that matches the arguments (arity, hints, condition)
    and below which no matching entry lies strictly (`C04_selected_is_minimal` with its hypothesis discharged
    on the whole lattice). -/
theorem C04_total_selects_minimal_match :
    ∀ e ∈ allFunctions, ∀ t ∈ e.2.2.2.1, ∃ i s, resolve hier e.2.1 t = .unique i ∧ e.2.1[i]? = some s ∧
      sigMatch s (t.args.map hier.mask) t.conds = true ∧
      ∀ (j : Nat) (sj : Sig), e.2.1[j]? = some sj → sigMatch sj (t.args.map hier.mask) t.conds = true →
        ¬ (sigLe hier sj s = true ∧ sigLe hier s sj = false) := by
  intro e he t ht
  obtain ⟨i, hi⟩ := C04_total_unambiguous_noexcept e he t ht
  obtain ⟨s, hs, hm, hmin⟩ := C04_selected_is_minimal e he t i hi
  exact ⟨i, s, hi, hs, hm, hmin⟩

end ColaVerif.Properties.C04

open ColaVerif.Properties.C04 ColaVerif.Dispatch in
#print axioms resolve_sound
open ColaVerif.Properties.C04 ColaVerif.Dispatch in
#print axioms resolve_minimal
#print axioms ColaVerif.Properties.C04.C04_add
#print axioms ColaVerif.Properties.C04.C04_adjoint
#print axioms ColaVerif.Properties.C04.C04_apply_unary
#print axioms ColaVerif.Properties.C04.C04_cholesky
#print axioms ColaVerif.Properties.C04.C04_diag
#print axioms ColaVerif.Properties.C04.C04_dot
#print axioms ColaVerif.Properties.C04.C04_eig
#print axioms ColaVerif.Properties.C04.C04_exp
#print axioms ColaVerif.Properties.C04.C04_get_annotations
#print axioms ColaVerif.Properties.C04.C04_inv
#print axioms ColaVerif.Properties.C04.C04_inverse
#print axioms ColaVerif.Properties.C04.C04_isqrt
#print axioms ColaVerif.Properties.C04.C04_kron
#print axioms ColaVerif.Properties.C04.C04_kronsum
#print axioms ColaVerif.Properties.C04.C04_log
#print axioms ColaVerif.Properties.C04.C04_mul
#print axioms ColaVerif.Properties.C04.C04_nullspace
#print axioms ColaVerif.Properties.C04.C04_pinv
#print axioms ColaVerif.Properties.C04.C04_plu
#print axioms ColaVerif.Properties.C04.C04_pow
#print axioms ColaVerif.Properties.C04.C04_slogdet
#print axioms ColaVerif.Properties.C04.C04_sqrt
#print axioms ColaVerif.Properties.C04.C04_svd
#print axioms ColaVerif.Properties.C04.C04_trace
#print axioms ColaVerif.Properties.C04.C04_transpose
#print axioms ColaVerif.Properties.C04.C04_hier_wf
#print axioms ColaVerif.Properties.C04.C04_covers_registry
#print axioms ColaVerif.Properties.C04.C04_total_unambiguous
#print axioms ColaVerif.Properties.C04.C04_tables_preorder
#print axioms ColaVerif.Properties.C04.C04_selected_is_minimal
#print axioms ColaVerif.Properties.C04.C04_no_recorded_exception
#print axioms ColaVerif.Properties.C04.C04_total_unambiguous_noexcept
#print axioms ColaVerif.Properties.C04.C04_total_selects_minimal_match
#print axioms ColaVerif.Properties.C04.C04_regression_hier_wf
#print axioms ColaVerif.Properties.C04.C04_regression_inv_ambiguous
#print axioms ColaVerif.Properties.C04.C04_regression_inv_fixed
#print axioms ColaVerif.Properties.C04.C04_regression_dot_ambiguous
#print axioms ColaVerif.Properties.C04.C04_regression_dot_fixed
#print axioms ColaVerif.Properties.C04.C04_regression_kron_ambiguous
#print axioms ColaVerif.Properties.C04.C04_regression_kron_fixed
