import ColaVerif.Properties.C06
import ColaVerif.Properties.C13
import ColaVerif.Lemmas.InvKrylovBridge
import ColaVerif.Lemmas.InvOptions

/-!
# C06 ∘ C13: `solve(A, b, GMRES)` solves the system when GMRES is run to the grade

The theorems of `Properties/C06.lean` take the exact-solve contract of the iterative solver as a
hypothesis (`SolveContract`, or per call: `C06_solve_iter_call`).  Here the solver parameter is
INSTANTIATED with the code model of `cola.linalg.inverse.gmres` of family C13 (`GMRES.gmres`), and
the hypothesis of the one call is DISCHARGED by `C13_exact_at_grade_input` /
`C13_exact_at_grade_injective`: what remains are C13's own (input-level and named-clause)
hypotheses.  `C06_gmres_witness`: the 3 × 3 non-symmetric system of `C13_exact_witness`, as a
`Dense` operator, satisfies them, and `solve` returns the solution.

Scope: ONE right-hand side (C13's theorems are per column), `x₀ = 0` (what
`IterativeOperatorWInfo._matmat` passes), an operator that falls to the GMRES rule at the root.
-/

open scoped InnerProductSpace
open Finset Arnoldi GMRES Inv WithLp Matrix

namespace C06
variable {𝕜 : Type} [RCLike 𝕜] [DecidableEq 𝕜]

/-- what `IterativeOperatorWInfo(A, GMRES(max_iters = M, tol)) @ X` returns for a one-column `X`
according to the code model of C13: `gmres(A, X, x0 = 0, …)`, its single solution column -/
noncomputable def gmresColumn (dsolve : Array (Array 𝕜) → Array 𝕜 → Array 𝕜) (M : ℕ) (tol : ℝ)
    (n : ℕ) (A : Op 𝕜) (X : MatF 𝕜) : MatV 𝕜 :=
  MatV.of (fun i _ =>
    match (gmres dsolve (⇑(denLin n A)) n M ((tol : ℝ) : 𝕜) [colVec n X 0] [0]).soln with
    | [x] => if h : i < n then ofLp x ⟨i, h⟩ else 0
    | _ => 0)

/-- a parameter set whose GMRES solver, on one column and for operators of extent `n`, is the C13
model RUN WITH THE OPTIONS OF THE SOLVER OBJECT it is called with (`GMRES(tol, max_iters).__call__`
is `gmres(A, b, **self.__dict__)`, gmres.py:36); everything else as in `E0` -/
noncomputable def withGmres (E0 : Ext 𝕜) (dsolve : Array (Array 𝕜) → Array 𝕜 → Array 𝕜)
    (n : ℕ) : Ext 𝕜 :=
  { E0 with solve := fun alg A b X =>
      match alg with
      | .gmres o => if b = 1 ∧ A.rows = n then gmresColumn dsolve o.maxIters (o.tol : ℝ) n A X
                    else E0.solve (.gmres o) A b X
      | alg => E0.solve alg A b X }

/-- **the composition step**: if the C13 model returns one column `x` with `b − A x = 0`, then
`solve(A, X, GMRES)` of C06 — with that model as the solver parameter — satisfies `A · Y = X`. -/
theorem C06_solve_of_gmres_exact (E0 : Ext 𝕜) (dsolve : Array (Array 𝕜) → Array 𝕜 → Array 𝕜)
    (alg : Alg) (o : KOpts) (M : ℕ) (tol : ℝ) (hM : o.maxIters = M) (ht : ((o.tol : ℚ) : ℝ) = tol)
    (n : ℕ) (A : Op 𝕜) (hn : A.rows = n)
    (hB : invRule (withGmres E0 dsolve n) alg A = .ok (.iterInv A (.gmres o))) (X : MatF 𝕜)
    (hx : ∃ x, (gmres dsolve (⇑(denLin n A)) n M ((tol : ℝ) : 𝕜) [colVec n X 0] [0]).soln = [x] ∧
      colVec n X 0 - denLin n A x = 0) :
    ∃ Y, solveRule (withGmres E0 dsolve n) alg A 1 X = .ok Y ∧
      EqOn n 1 (mmul n A.den.f Y.f) X := by
  obtain ⟨x, hx, hres⟩ := hx
  have hcall : EqOn A.rows 1
      (mmul A.rows A.den.f ((withGmres E0 dsolve n).solve (.gmres o) A 1 X).f) X := by
    rw [hn]
    have hsol : ((withGmres E0 dsolve n).solve (.gmres o) A 1 X) = gmresColumn dsolve M tol n A X := by
      simp [withGmres, hn, hM, ht]
    rw [hsol]
    apply eqOn_of_denLin_eq n A X x (sub_eq_zero.mp hres).symm
    intro q hq
    simp only [gmresColumn, MatV.of_f, hx, dif_pos hq]
  obtain ⟨Y, hY, _, hsolves⟩ :=
    C06_solve_iter_call (withGmres E0 dsolve n) alg (.gmres o) A hB 1 X hcall
  rw [hn] at hsolves
  exact ⟨Y, hY, hsolves⟩

/-- **`solve(A, b, GMRES(max_iters = M, tol))` solves `A x = b` when GMRES is run to the grade of
`b`** (one right-hand side).  `A` is any operator of extent `n` whose class has no `inv` rule of its
own (`hB`; e.g. `C06_iter_paths`); the solver parameter is the code model of C13; the hypotheses
from `tolPos` on are literally those of `C13_exact_at_grade_input` for the operator
`v ↦ den(A) v`, the right-hand side `b = X[:, 0]` and `x₀ = 0`.  No contract of the iterative
solver is assumed: `SolverSound dsolve` is the contract of the small dense solve INSIDE GMRES
(`np.linalg.solve`, exact arithmetic). -/
theorem C06_solve_gmres_at_grade (E0 : Ext 𝕜) (dsolve : Array (Array 𝕜) → Array 𝕜 → Array 𝕜)
    (alg : Alg) (o : KOpts) (M : ℕ) (tol : ℝ) (hM : o.maxIters = M) (ht : ((o.tol : ℚ) : ℝ) = tol)
    (n : ℕ) (A : Op 𝕜) (hn : A.rows = n)
    (hB : invRule (withGmres E0 dsolve n) alg A = .ok (.iterInv A (.gmres o))) (X : MatF 𝕜)
    (tolPos : 0 < tol)
    (resNonzero : colVec n X 0 - denLin n A 0 ≠ 0)
    (hs : 0 < (runE (denLin n A) n M tol [colVec n X 0 - denLin n A 0]).idx)
    (noEarlierBreakdown : ∀ i, i + 1 < (runE (denLin n A) n M tol [colVec n X 0 - denLin n A 0]).idx →
      tol / 2 ≤ (colAt (denLin n A) M tol (colVec n X 0 - denLin n A 0)
        (runE (denLin n A) n M tol [colVec n X 0 - denLin n A 0]).idx).beta i)
    (gradeReached : ((denLin n A) ^ (runE (denLin n A) n M tol [colVec n X 0 - denLin n A 0]).idx)
        (colVec n X 0 - denLin n A 0) ∈
      krylov (denLin n A) (colVec n X 0 - denLin n A 0)
        (runE (denLin n A) n M tol [colVec n X 0 - denLin n A 0]).idx)
    (maskExact : MaskExact dropLastRow M tol (runE (denLin n A) n M tol [colVec n X 0 - denLin n A 0]).idx
      (colAt (denLin n A) M tol (colVec n X 0 - denLin n A 0)
        (runE (denLin n A) n M tol [colVec n X 0 - denLin n A 0]).idx))
    (solverSound : SolverSound dsolve) (injective : Function.Injective (denLin n A)) :
    ∃ Y, solveRule (withGmres E0 dsolve n) alg A 1 X = .ok Y ∧
      EqOn n 1 (mmul n A.den.f Y.f) X :=
  C06_solve_of_gmres_exact E0 dsolve alg o M tol hM ht n A hn hB X
    (C13_exact_at_grade_input dsolve (denLin n A) n M tol tolPos (colVec n X 0) 0 resNonzero hs
      noEarlierBreakdown gradeReached maskExact solverSound injective)

/-- the same with the breakdown clause of `C13_exact_at_grade_injective` (`β_{s-1} = 0` in the last
executed step) instead of the grade condition -/
theorem C06_solve_gmres_at_breakdown (E0 : Ext 𝕜) (dsolve : Array (Array 𝕜) → Array 𝕜 → Array 𝕜)
    (alg : Alg) (o : KOpts) (M : ℕ) (tol : ℝ) (hM : o.maxIters = M) (ht : ((o.tol : ℚ) : ℝ) = tol)
    (n : ℕ) (A : Op 𝕜) (hn : A.rows = n)
    (hB : invRule (withGmres E0 dsolve n) alg A = .ok (.iterInv A (.gmres o))) (X : MatF 𝕜)
    (tolPos : 0 < tol)
    (resNonzero : colVec n X 0 - denLin n A 0 ≠ 0)
    (hs : 0 < (runE (denLin n A) n M tol [colVec n X 0 - denLin n A 0]).idx)
    (noEarlierBreakdown : ∀ i, i + 1 < (runE (denLin n A) n M tol [colVec n X 0 - denLin n A 0]).idx →
      tol / 2 ≤ (colAt (denLin n A) M tol (colVec n X 0 - denLin n A 0)
        (runE (denLin n A) n M tol [colVec n X 0 - denLin n A 0]).idx).beta i)
    (exactBreakdown : (colAt (denLin n A) M tol (colVec n X 0 - denLin n A 0)
        (runE (denLin n A) n M tol [colVec n X 0 - denLin n A 0]).idx).beta
      ((runE (denLin n A) n M tol [colVec n X 0 - denLin n A 0]).idx - 1) = 0)
    (maskExact : MaskExact dropLastRow M tol (runE (denLin n A) n M tol [colVec n X 0 - denLin n A 0]).idx
      (colAt (denLin n A) M tol (colVec n X 0 - denLin n A 0)
        (runE (denLin n A) n M tol [colVec n X 0 - denLin n A 0]).idx))
    (solverSound : SolverSound dsolve) (injective : Function.Injective (denLin n A)) :
    ∃ Y, solveRule (withGmres E0 dsolve n) alg A 1 X = .ok Y ∧
      EqOn n 1 (mmul n A.den.f Y.f) X :=
  C06_solve_of_gmres_exact E0 dsolve alg o M tol hM ht n A hn hB X
    (C13_exact_at_grade_injective dsolve (denLin n A) n M tol tolPos (colVec n X 0) 0 resNonzero hs
      noEarlierBreakdown exactBreakdown maskExact solverSound injective)

/-! ## witness: the 3 × 3 system of `C13_exact_witness` as a `Dense` operator -/

/-- `Dense([[1,1,0],[2,1,1],[0,3,1]])` -/
noncomputable def hessOp : Op ℝ :=
  .dense .f64 3 3 (fun i j => if h : i < 3 ∧ j < 3 then Hess3.mat ⟨i, h.1⟩ ⟨j, h.2⟩ else 0)

/-- the right-hand side `e₀` as a one-column block -/
def e0col : MatF ℝ := fun i _ => if i = 0 then 1 else 0

/-- parameters over ℝ: the field reciprocal; factorisations / other solvers unused -/
noncomputable def realExt : Ext ℝ :=
  { recip := fun x => x⁻¹, chol := fun _ D => MatV.of D, lu := fun _ D => ([], MatV.of D, MatV.of D),
    solve := fun _ _ _ _ => MatV.of zeroM }

private theorem denLin_hessOp : denLin 3 hessOp = Hess3.A := by
  have hm : MatF.toMatrix 3 3 hessOp.den.f = Hess3.mat := by
    ext i j
    simp [hessOp, Op.den, MatF.toMatrix_apply]
  unfold denLin
  rw [hm]
  rfl

private theorem colVec_e0 : colVec 3 e0col 0 = Hess3.e 0 := by
  rw [Hess3.e0]
  apply WithLp.ofLp_injective 2
  funext i
  show (if i.val = 0 then (1 : ℝ) else 0) = (Hess3.bs 0).ofLp i
  rw [Hess3.bs, EuclideanSpace.basisFun_apply, PiLp.single_apply]
  fin_cases i <;> simp

/-- the solver object `GMRES(tol = 1/100, max_iters = 3)` -/
def gmresObj : KOpts := ⟨1 / 100, 3⟩

private theorem gmresObj_tol : ((gmresObj.tol : ℚ) : ℝ) = 1 / 100 := by simp [gmresObj]

private theorem hess_rule : invRule (withGmres realExt exactSolve 3) (.gmres gmresObj) hessOp
    = .ok (.iterInv hessOp (.gmres gmresObj)) := by
  simp [hessOp, invRule, invAux, algRule, effAlg]

/-- **the hypotheses of `C06_solve_of_gmres_exact` are satisfiable on a non-trivial input, and the
composed conclusion**: for `A = Dense([[1,1,0],[2,1,1],[0,3,1]])`, `b = e₀`,
`GMRES(max_iters = 3, tol = 1/100)` with the exact dense solver of C13 (`C13_exact_witness`: three
Arnoldi steps, breakdown `β₂ = 0`), `solve(A, b, GMRES)` returns `Y` with `A · Y = b`. -/
theorem C06_gmres_witness :
    hessOp.rows = 3 ∧
    invRule (withGmres realExt exactSolve 3) (.gmres gmresObj) hessOp
      = .ok (.iterInv hessOp (.gmres gmresObj)) ∧
    ∃ Y, solveRule (withGmres realExt exactSolve 3) (.gmres gmresObj) hessOp 1 e0col = .ok Y ∧
      EqOn 3 1 (mmul 3 hessOp.den.f Y.f) e0col := by
  have hn : hessOp.rows = 3 := by simp [hessOp, Op.rows]
  refine ⟨hn, hess_rule, C06_solve_of_gmres_exact realExt exactSolve _ gmresObj 3 (1 / 100) rfl
    gmresObj_tol 3 hessOp hn hess_rule e0col ?_⟩
  rw [denLin_hessOp, colVec_e0]
  exact C13_exact_witness.2.2.2.2.2

/-- **`C06_solve_gmres_at_breakdown` instantiated** (round 3): on the same input every hypothesis of
the theorem holds literally (`C13_exact_witness`: three executed steps, `β₀, β₁ ≥ tol/2`, `β₂ = 0`,
the mask clause, the exact dense solver, `A` injective) and the conclusion is obtained THROUGH the
theorem. -/
theorem C06_gmres_at_breakdown_witness :
    ∃ Y, solveRule (withGmres realExt exactSolve 3) (.gmres gmresObj) hessOp 1 e0col = .ok Y ∧
      EqOn 3 1 (mmul 3 hessOp.den.f Y.f) e0col := by
  have hn : hessOp.rows = 3 := by simp [hessOp, Op.rows]
  obtain ⟨hidx, hun, hb, hmask, hinj, _⟩ := C13_exact_witness
  have hr : Hess3.e 0 - Hess3.A 0 = Hess3.e 0 := by simp
  apply C06_solve_gmres_at_breakdown realExt exactSolve _ gmresObj 3 (1 / 100) rfl gmresObj_tol 3
    hessOp hn hess_rule e0col (by norm_num)
  · rw [denLin_hessOp, colVec_e0, hr]; exact Hess3.e0_ne
  · rw [denLin_hessOp, colVec_e0, hidx]; norm_num
  · rw [denLin_hessOp, colVec_e0, hidx]; exact hun
  · rw [denLin_hessOp, colVec_e0, hidx]; exact hb
  · rw [denLin_hessOp, colVec_e0, hidx]; exact hmask
  · exact exactSolve_sound
  · rw [denLin_hessOp]; exact hinj

/-- `A³ e₀ = 3 A² e₀ + 2 A e₀ − 4 e₀` (Cayley–Hamilton of `[[1,1,0],[2,1,1],[0,3,1]]`): the Krylov
space of `e₀` is exhausted after three steps -/
private theorem hess_grade : (Hess3.A ^ 3) (Hess3.e 0) ∈ krylov Hess3.A (Hess3.e 0) 3 := by
  have h1 : (Hess3.A ^ 1) (Hess3.e 0) = (1 : ℝ) • Hess3.e 0 + (2 : ℝ) • Hess3.e 1 := by
    rw [pow_one]; exact Hess3.A_e0
  have h2 : (Hess3.A ^ 2) (Hess3.e 0)
      = (3 : ℝ) • Hess3.e 0 + (4 : ℝ) • Hess3.e 1 + (6 : ℝ) • Hess3.e 2 := by
    rw [pow_succ', Module.End.mul_apply, h1, map_add, map_smul, map_smul, Hess3.A_e0, Hess3.A_e1]
    module
  have h3 : (Hess3.A ^ 3) (Hess3.e 0)
      = (7 : ℝ) • Hess3.e 0 + (16 : ℝ) • Hess3.e 1 + (18 : ℝ) • Hess3.e 2 := by
    rw [pow_succ', Module.End.mul_apply, h2, map_add, map_add, map_smul, map_smul, map_smul,
      Hess3.A_e0, Hess3.A_e1, Hess3.A_e2]
    module
  have h0 : (Hess3.A ^ 0) (Hess3.e 0) = Hess3.e 0 := by simp
  have hc : (Hess3.A ^ 3) (Hess3.e 0) = (3 : ℝ) • (Hess3.A ^ 2) (Hess3.e 0)
      + (2 : ℝ) • (Hess3.A ^ 1) (Hess3.e 0) - (4 : ℝ) • (Hess3.A ^ 0) (Hess3.e 0) := by
    rw [h3, h2, h1, h0]
    module
  rw [hc]
  exact Submodule.sub_mem _ (Submodule.add_mem _
    (Submodule.smul_mem _ _ (pow_mem_krylov _ _ (by norm_num)))
    (Submodule.smul_mem _ _ (pow_mem_krylov _ _ (by norm_num))))
    (Submodule.smul_mem _ _ (pow_mem_krylov _ _ (by norm_num)))

/-- **`C06_solve_gmres_at_grade` instantiated** (round 3): the grade condition `A³ r₀ ∈ K₃(A, r₀)`
is proved for the witness (characteristic polynomial `λ³ − 3λ² − 2λ + 4`), the other hypotheses are
those of `C13_exact_witness`, and the conclusion is obtained THROUGH the at-grade theorem. -/
theorem C06_gmres_at_grade_witness :
    ∃ Y, solveRule (withGmres realExt exactSolve 3) (.gmres gmresObj) hessOp 1 e0col = .ok Y ∧
      EqOn 3 1 (mmul 3 hessOp.den.f Y.f) e0col := by
  have hn : hessOp.rows = 3 := by simp [hessOp, Op.rows]
  obtain ⟨hidx, hun, _, hmask, hinj, _⟩ := C13_exact_witness
  have hr : Hess3.e 0 - Hess3.A 0 = Hess3.e 0 := by simp
  apply C06_solve_gmres_at_grade realExt exactSolve _ gmresObj 3 (1 / 100) rfl gmresObj_tol 3
    hessOp hn hess_rule e0col (by norm_num)
  · rw [denLin_hessOp, colVec_e0, hr]; exact Hess3.e0_ne
  · rw [denLin_hessOp, colVec_e0, hidx]; norm_num
  · rw [denLin_hessOp, colVec_e0, hidx]; exact hun
  · rw [denLin_hessOp, colVec_e0, hidx, hr]; exact hess_grade
  · rw [denLin_hessOp, colVec_e0, hidx]; exact hmask
  · exact exactSolve_sound
  · rw [denLin_hessOp]; exact hinj

/-- **the options reach the solver**: when `inv(A, alg)` is `IterativeOperatorWInfo(A, GMRES-object
o)` (`alg = GMRES(tol, max_iters)`: the object itself; `alg = Auto(**d)` above 10⁶ entries:
`GMRES(**d)`), `solve(A, X, alg)` IS the C13 model `gmres` run with `o.max_iters` and `o.tol`. -/
theorem C06_gmres_runs_with_options (E0 : Ext 𝕜) (dsolve : Array (Array 𝕜) → Array 𝕜 → Array 𝕜)
    (alg : Alg) (o : KOpts) (n : ℕ) (A : Op 𝕜) (hn : A.rows = n)
    (hB : invRule (withGmres E0 dsolve n) alg A = .ok (.iterInv A (.gmres o))) (X : MatF 𝕜) :
    solveRule (withGmres E0 dsolve n) alg A 1 X
        = .ok (gmresColumn dsolve o.maxIters (o.tol : ℝ) n A X) ∧
      (∀ d, alg = .auto d → o = .ofDict d) ∧ (∀ o', alg = .gmres o' → o = o') := by
  refine ⟨?_, ?_, ?_⟩
  · unfold solveRule
    rw [hB]
    simp [Except.map, InvOp.mm, withGmres, hn]
  · intro d hd
    have h := (invRule_solvers (withGmres E0 dsolve n) alg A _ hB (.gmres o)
      (by simp [InvOp.solvers])).2.1
    rw [hd] at h
    simpa [Alg.kopts, Alg.requested] using h
  · intro o' ho'
    have h := (invRule_solvers (withGmres E0 dsolve n) alg A _ hB (.gmres o)
      (by simp [InvOp.solvers])).2.1
    rw [ho'] at h
    simpa [Alg.kopts, Alg.requested] using h

end C06

#print axioms C06.C06_solve_of_gmres_exact
#print axioms C06.C06_solve_gmres_at_grade
#print axioms C06.C06_solve_gmres_at_breakdown
#print axioms C06.C06_gmres_witness
#print axioms C06.C06_gmres_at_breakdown_witness
#print axioms C06.C06_gmres_at_grade_witness
#print axioms C06.C06_gmres_runs_with_options
