import ColaVerif.Properties.C06.GMRES
import ColaVerif.Properties.C06.CG
import ColaVerif.Model.InvNested

/-!
# C06, round 5: a CG / GMRES node INSIDE a Kronecker / Product / BlockDiag node

`Properties/C06/GMRES.lean` and `CG.lean` discharge the exact-solve contract of the iterative solver
for ONE column and a solver node AT THE ROOT.  Here:

* `C06_solve_nested_kron_call`, `C06_solve_nested_prod_first_call`, `C06_solve_nested_prod_last_call`,
  `C06_solve_nested_bdiag_call` (any commutative star ring, any parameter set `E`): one solver leaf
  `S` and one operator `D` with an `inv` rule of its own under ONE structural node;
  `solve(node, X, alg)` satisfies `A · Y = X` as soon as THE ONE CALL the node makes to the solver —
  on the operand named in the statement (`kronOperand₁`, `X`, `inv(D) @ X`, `bdiagOperand₁`) — is
  exact.  No `SolveContract` (`∀ b X`) is assumed; `S` invertible (`RInv`) is.
* `withGmresCols` / `withCGCols`: the solver parameter for ANY number of columns, the C13 / C12 model
  run on every column (the batch as independent columns: the theorems of C12 / C13 are per column).
  `C06_gmres_cols_exact`, `C06_cg_cols_exact`: the call is exact when every column is run to its grade
  (`GmresRunToGrade`, `CGRunToGrade` = the hypothesis bundles of `C06_solve_gmres_at_grade` /
  `_at_breakdown` resp. `C06_solve_cg_at_grade`, per column).
* `C06_solve_gmres_under_kron`, `C06_solve_cg_under_kron`: the composition.
* `C06_gmres_under_kron_witness`: `Kronecker([Dense 3×3, Identity(2)])` with `GMRES(1/100, 3)`; the
  solver receives a 3 × 2 operand whose two columns are run to the grade.
-/

open scoped InnerProductSpace ComplexOrder
open Finset Inv WithLp Matrix

namespace C06

section generic
variable {R : Type} [CommRing R] [StarRing R] [DecidableEq R]

/-- **solver leaf first in a two-factor Kronecker product, per call**: `inv(Kronecker([S, D]), alg)` is
`Kronecker([IterativeOperatorWInfo(S, alg'), inv D])`; `solve` hands the solver ONE operand,
`kronOperand₁ = X.reshape(c₁, c₂ b)` (`kronOperand₁_apply`), and solves `A · Y = X` as soon as that
call is exact. -/
theorem C06_solve_nested_kron_call (E : Ext R) (alg alg' : Alg) (S D D' : Op R) (Ai : MatF R)
    (hS : invRule E alg S = .ok (.iterInv S alg')) (hsq : S.cols = S.rows)
    (invertible : RInv S.rows S.den.f Ai)
    (hD : invRule E alg D = .ok (.op D')) (hHD : InvHyp E alg D) (b : Nat) (X : MatF R)
    (hcall : SolveOn E alg' S (D'.cols * b) (kronOperand₁ S.cols D'.cols b X)) :
    ∃ Y, solveRule E alg (.kron [S, D]) b X = .ok Y ∧
      EqOn (Op.kron [S, D]).rows b (mmul (Op.kron [S, D]).rows (Op.kron [S, D]).den.f Y.f) X := by
  have hB : invRule E alg (.kron [S, D]) = .ok (.kron [.iterInv S alg', .op D']) := by
    unfold invRule at hS hD ⊢
    rw [invAux]
    simp only [List.map_cons, List.map_nil, hS, hD, Inv.sequence, Except.map]
  have i1 : IsInverse (guardExt E Ai) S (.iterInv S alg') :=
    isInverse_iterInv _ alg' S hsq (solveContract_guard E Ai alg' S invertible)
  have i2 : IsInverse (guardExt E Ai) D (.op D') :=
    isInverse_op_ext E _ D D' (invRule_sound E alg D hHD _ hD)
  have s := kron_sound (guardExt E Ai) [S, D] [.iterInv S alg', .op D']
    (List.Forall₂.cons i1 (List.Forall₂.cons i2 List.Forall₂.nil))
  refine ⟨(InvOp.kron [.iterInv S alg', .op D']).mm E b X, by unfold solveRule; rw [hB]; rfl, ?_⟩
  rw [← kron2_mm_guard E Ai alg' S D' b X hcall]
  have hm := s.mm b X
  rw [s.rows, s.cols] at hm
  exact (mmul_congr (EqOn.refl _ _ _) hm).trans (s.rinv.solves X)

/-- **solver leaf first in a two-member Product**: `inv(S @ D) = inv(D) @ inv(S)`, the solver receives
the caller's operand `X`. -/
theorem C06_solve_nested_prod_first_call (E : Ext R) (alg alg' : Alg) (S D D' : Op R) (Ai : MatF R)
    (hS : invRule E alg S = .ok (.iterInv S alg')) (hsq : S.cols = S.rows)
    (invertible : RInv S.rows S.den.f Ai)
    (hD : invRule E alg D = .ok (.op D')) (hHD : InvHyp E alg D)
    (square : allSquare [S, D] = true)
    (chain : Op.chainOk ([S, D].map (fun M => (M.rows, M.cols))) = true) (b : Nat) (X : MatF R)
    (hcall : SolveOn E alg' S b X) :
    ∃ Y, solveRule E alg (.prod [S, D]) b X = .ok Y ∧
      EqOn (Op.prod [S, D]).rows b (mmul (Op.prod [S, D]).rows (Op.prod [S, D]).den.f Y.f) X := by
  have hB : invRule E alg (.prod [S, D]) = .ok (.prod [.op D', .iterInv S alg']) := by
    unfold invRule at hS hD ⊢
    rw [invAux, if_pos square]
    simp only [List.map_cons, List.map_nil, hS, hD, Inv.sequence, Except.map, List.reverse_cons,
      List.reverse_nil, List.nil_append, List.cons_append]
  have i1 : IsInverse (guardExt E Ai) S (.iterInv S alg') :=
    isInverse_iterInv _ alg' S hsq (solveContract_guard E Ai alg' S invertible)
  have i2 : IsInverse (guardExt E Ai) D (.op D') :=
    isInverse_op_ext E _ D D' (invRule_sound E alg D hHD _ hD)
  have s := prod_sound (guardExt E Ai) [S, D] [.iterInv S alg', .op D'] (by simp) square chain
    (List.Forall₂.cons i1 (List.Forall₂.cons i2 List.Forall₂.nil))
  simp only [List.reverse_cons, List.reverse_nil, List.nil_append, List.cons_append] at s
  refine ⟨(InvOp.prod [.op D', .iterInv S alg']).mm E b X, by unfold solveRule; rw [hB]; rfl, ?_⟩
  rw [← prod2_mm_guard_first E Ai alg' S D' b X hcall]
  have hm := s.mm b X
  rw [s.rows, s.cols] at hm
  exact (mmul_congr (EqOn.refl _ _ _) hm).trans (s.rinv.solves X)

/-- **solver leaf last in a two-member Product**: `inv(D @ S) = inv(S) @ inv(D)`, the solver receives
`inv(D) @ X` (the product code of the operator `D'` the rule of `D` returns). -/
theorem C06_solve_nested_prod_last_call (E : Ext R) (alg alg' : Alg) (S D D' : Op R) (Ai : MatF R)
    (hS : invRule E alg S = .ok (.iterInv S alg')) (hsq : S.cols = S.rows)
    (invertible : RInv S.rows S.den.f Ai)
    (hD : invRule E alg D = .ok (.op D')) (hHD : InvHyp E alg D)
    (square : allSquare [D, S] = true)
    (chain : Op.chainOk ([D, S].map (fun M => (M.rows, M.cols))) = true) (b : Nat) (X : MatF R)
    (hcall : SolveOn E alg' S b (D'.mm b X).f) :
    ∃ Y, solveRule E alg (.prod [D, S]) b X = .ok Y ∧
      EqOn (Op.prod [D, S]).rows b (mmul (Op.prod [D, S]).rows (Op.prod [D, S]).den.f Y.f) X := by
  have hB : invRule E alg (.prod [D, S]) = .ok (.prod [.iterInv S alg', .op D']) := by
    unfold invRule at hS hD ⊢
    rw [invAux, if_pos square]
    simp only [List.map_cons, List.map_nil, hS, hD, Inv.sequence, Except.map, List.reverse_cons,
      List.reverse_nil, List.nil_append, List.cons_append]
  have i1 : IsInverse (guardExt E Ai) S (.iterInv S alg') :=
    isInverse_iterInv _ alg' S hsq (solveContract_guard E Ai alg' S invertible)
  have i2 : IsInverse (guardExt E Ai) D (.op D') :=
    isInverse_op_ext E _ D D' (invRule_sound E alg D hHD _ hD)
  have s := prod_sound (guardExt E Ai) [D, S] [.op D', .iterInv S alg'] (by simp) square chain
    (List.Forall₂.cons i2 (List.Forall₂.cons i1 List.Forall₂.nil))
  simp only [List.reverse_cons, List.reverse_nil, List.nil_append, List.cons_append] at s
  refine ⟨(InvOp.prod [.iterInv S alg', .op D']).mm E b X, by unfold solveRule; rw [hB]; rfl, ?_⟩
  rw [← prod2_mm_guard_last E Ai alg' S D' b X hcall]
  have hm := s.mm b X
  rw [s.rows, s.cols] at hm
  exact (mmul_congr (EqOn.refl _ _ _) hm).trans (s.rinv.solves X)

/-- **solver leaf first in a two-member BlockDiag** (any multiplicities): the solver receives
`bdiagOperand₁`: the first `m₁ c₁` rows of `X`, the `m₁` copies side by side (`b m₁` columns). -/
theorem C06_solve_nested_bdiag_call (E : Ext R) (alg alg' : Alg) (S D D' : Op R) (Ai : MatF R)
    (hS : invRule E alg S = .ok (.iterInv S alg')) (hsq : S.cols = S.rows)
    (invertible : RInv S.rows S.den.f Ai)
    (hD : invRule E alg D = .ok (.op D')) (hHD : InvHyp E alg D) (m1 m2 b : Nat) (X : MatF R)
    (hcall : SolveOn E alg' S (b * m1) (bdiagOperand₁ S.cols m1 X)) :
    ∃ Y, solveRule E alg (.bdiag [S, D] [m1, m2]) b X = .ok Y ∧
      EqOn (Op.bdiag [S, D] [m1, m2]).rows b
        (mmul (Op.bdiag [S, D] [m1, m2]).rows (Op.bdiag [S, D] [m1, m2]).den.f Y.f) X := by
  have hB : invRule E alg (.bdiag [S, D] [m1, m2])
      = .ok (.bdiag [.iterInv S alg', .op D'] [m1, m2]) := by
    unfold invRule at hS hD ⊢
    rw [invAux]
    simp only [List.map_cons, List.map_nil, hS, hD, Inv.sequence, Except.map]
  have i1 : IsInverse (guardExt E Ai) S (.iterInv S alg') :=
    isInverse_iterInv _ alg' S hsq (solveContract_guard E Ai alg' S invertible)
  have i2 : IsInverse (guardExt E Ai) D (.op D') :=
    isInverse_op_ext E _ D D' (invRule_sound E alg D hHD _ hD)
  have s := bdiag_sound (guardExt E Ai) [S, D] [m1, m2] [.iterInv S alg', .op D']
    (List.Forall₂.cons i1 (List.Forall₂.cons i2 List.Forall₂.nil))
  refine ⟨(InvOp.bdiag [.iterInv S alg', .op D'] [m1, m2]).mm E b X, by unfold solveRule; rw [hB]; rfl, ?_⟩
  rw [← bdiag2_mm_guard E Ai alg' S D' m1 m2 b X hcall]
  have hm := s.mm b X
  rw [s.rows, s.cols] at hm
  exact (mmul_congr (EqOn.refl _ _ _) hm).trans (s.rinv.solves X)

end generic

section krylov
open Arnoldi GMRES
variable {𝕜 : Type} [RCLike 𝕜] [DecidableEq 𝕜]

/-! ## the solver models on any number of columns -/

/-- the GMRES parameter for ANY number of columns: the C13 model (`gmresColumn`, run with the options
of the solver object) on every column of the operand.  (C13's theorems are per column; in the real
code the columns of a batch share the loop — a column whose Krylov space is exhausted earlier than the
others' is the recorded clause `gmres-krylov-breakdown`, excluded below by running every column to
its own grade with the same `max_iters`.) -/
noncomputable def withGmresCols (E0 : Ext 𝕜) (dsolve : Array (Array 𝕜) → Array 𝕜 → Array 𝕜)
    (n : ℕ) : Ext 𝕜 :=
  { E0 with solve := fun alg A b X =>
      match alg with
      | .gmres o => if A.rows = n then
          MatV.of (fun i j => (gmresColumn dsolve o.maxIters (o.tol : ℝ) n A (fun i' _ => X i' j)).f i 0)
        else E0.solve (.gmres o) A b X
      | alg => E0.solve alg A b X }

/-- the hypotheses of `C06_solve_gmres_at_grade` / `_at_breakdown` (= of `C13_exact_at_grade_input` /
`C13_exact_at_grade_injective`) for ONE right-hand side `v`, `x₀ = 0` -/
structure GmresRunToGrade (dsolve : Array (Array 𝕜) → Array 𝕜 → Array 𝕜) (n M : ℕ) (tol : ℝ)
    (A : Op 𝕜) (v : EuclideanSpace 𝕜 (Fin n)) : Prop where
  tolPos : 0 < tol
  resNonzero : v - denLin n A 0 ≠ 0
  hs : 0 < (runE (denLin n A) n M tol [v - denLin n A 0]).idx
  noEarlierBreakdown : ∀ i, i + 1 < (runE (denLin n A) n M tol [v - denLin n A 0]).idx →
    tol / 2 ≤ (colAt (denLin n A) M tol (v - denLin n A 0)
      (runE (denLin n A) n M tol [v - denLin n A 0]).idx).beta i
  exhausted :
    ((denLin n A) ^ (runE (denLin n A) n M tol [v - denLin n A 0]).idx) (v - denLin n A 0) ∈
        krylov (denLin n A) (v - denLin n A 0) (runE (denLin n A) n M tol [v - denLin n A 0]).idx ∨
    (colAt (denLin n A) M tol (v - denLin n A 0)
        (runE (denLin n A) n M tol [v - denLin n A 0]).idx).beta
      ((runE (denLin n A) n M tol [v - denLin n A 0]).idx - 1) = 0
  maskExact : MaskExact dropLastRow M tol (runE (denLin n A) n M tol [v - denLin n A 0]).idx
    (colAt (denLin n A) M tol (v - denLin n A 0) (runE (denLin n A) n M tol [v - denLin n A 0]).idx)
  solverSound : SolverSound dsolve
  injective : Function.Injective (denLin n A)

/-- **the batched GMRES call is exact when every column is run to its grade** -/
theorem C06_gmres_cols_exact (E0 : Ext 𝕜) (dsolve : Array (Array 𝕜) → Array 𝕜 → Array 𝕜)
    (o : KOpts) (M : ℕ) (tol : ℝ) (hM : o.maxIters = M) (ht : ((o.tol : ℚ) : ℝ) = tol)
    (n : ℕ) (A : Op 𝕜) (hn : A.rows = n) (b : ℕ) (X : MatF 𝕜)
    (cols : ∀ j, j < b → GmresRunToGrade dsolve n M tol A (colVec n X j)) :
    SolveOn (withGmresCols E0 dsolve n) (.gmres o) A b X := by
  intro i j hi hj
  rw [hn] at hi
  have g := cols j hj
  obtain ⟨x, hx, hres⟩ : ∃ x, (gmres dsolve (⇑(denLin n A)) n M ((tol : ℝ) : 𝕜) [colVec n X j] [0]).soln
      = [x] ∧ colVec n X j - denLin n A x = 0 := by
    rcases g.exhausted with hg | hb
    · exact C13_exact_at_grade_input dsolve (denLin n A) n M tol g.tolPos (colVec n X j) 0
        g.resNonzero g.hs g.noEarlierBreakdown hg g.maskExact g.solverSound g.injective
    · exact C13_exact_at_grade_injective dsolve (denLin n A) n M tol g.tolPos (colVec n X j) 0
        g.resNonzero g.hs g.noEarlierBreakdown hb g.maskExact g.solverSound g.injective
  have hcol : colVec n (fun i' _ => X i' j) 0 = colVec n X j := rfl
  have key := eqOn_of_denLin_eq n A (fun i' _ => X i' j) x
    (by rw [hcol]; exact (sub_eq_zero.mp hres).symm)
    (gmresColumn dsolve M tol n A (fun i' _ => X i' j)).f
    (by
      intro q hq
      simp only [gmresColumn, MatV.of_f, hcol, hx, dif_pos hq]) i 0 hi (by omega)
  have hsol : ((withGmresCols E0 dsolve n).solve (.gmres o) A b X).f
      = fun i j => (gmresColumn dsolve M tol n A (fun i' _ => X i' j)).f i 0 := by
    simp [withGmresCols, hn, hM, ht]
  rw [hsol, hn, mmul_apply]
  rw [mmul_apply] at key
  exact key

/-- **GMRES leaf under a two-factor Kronecker node, any number of columns**: `solve(Kronecker([S, D]),
X, alg)` solves the system when every one of the `c₂ b` columns the Kronecker product hands to the
solver (`kronOperand₁`) is run to its grade.  `S` any operator that falls to the GMRES rule, `D` any
operator whose rule returns an ordinary operator (Identity, ScalarMul, Diagonal, Permutation). -/
theorem C06_solve_gmres_under_kron (E0 : Ext 𝕜) (dsolve : Array (Array 𝕜) → Array 𝕜 → Array 𝕜)
    (alg : Alg) (o : KOpts) (M : ℕ) (tol : ℝ) (hM : o.maxIters = M) (ht : ((o.tol : ℚ) : ℝ) = tol)
    (n : ℕ) (S D D' : Op 𝕜) (Ai : MatF 𝕜) (hn : S.rows = n) (hsq : S.cols = S.rows)
    (hS : invRule (withGmresCols E0 dsolve n) alg S = .ok (.iterInv S (.gmres o)))
    (invertible : RInv S.rows S.den.f Ai)
    (hD : invRule (withGmresCols E0 dsolve n) alg D = .ok (.op D'))
    (hHD : InvHyp (withGmresCols E0 dsolve n) alg D) (b : ℕ) (X : MatF 𝕜)
    (cols : ∀ j, j < D'.cols * b →
      GmresRunToGrade dsolve n M tol S (colVec n (kronOperand₁ S.cols D'.cols b X) j)) :
    ∃ Y, solveRule (withGmresCols E0 dsolve n) alg (.kron [S, D]) b X = .ok Y ∧
      EqOn (Op.kron [S, D]).rows b (mmul (Op.kron [S, D]).rows (Op.kron [S, D]).den.f Y.f) X :=
  C06_solve_nested_kron_call _ alg (.gmres o) S D D' Ai hS hsq invertible hD hHD b X
    (C06_gmres_cols_exact E0 dsolve o M tol hM ht n S hn _ _ cols)

/-! ## witness: `Kronecker([Dense([[1,1,0],[2,1,1],[0,3,1]]), Identity(2)])`, `GMRES(1/100, 3)` -/

/-- the right-hand side `e₀ ⊗ (1, 1)` (6 × 1): both columns of the 3 × 2 operand the Kronecker product
hands to the solver are `e₀` -/
def kronRhs : MatF ℝ := fun i _ => if i < 2 then 1 else 0

/-- the inverse of `[[1,1,0],[2,1,1],[0,3,1]]` (determinant −4) -/
noncomputable def hessInv : MatF ℝ := fun i j =>
  match i, j with
  | 0, 0 => 1 / 2 | 0, 1 => 1 / 4 | 0, 2 => -1 / 4
  | 1, 0 => 1 / 2 | 1, 1 => -1 / 4 | 1, 2 => 1 / 4
  | 2, 0 => -3 / 2 | 2, 1 => 3 / 4 | 2, 2 => 1 / 4
  | _, _ => 0

private theorem denLin_hessOp' : denLin 3 hessOp = Hess3.A := by
  have hm : MatF.toMatrix 3 3 hessOp.den.f = Hess3.mat := by
    ext i j
    simp [hessOp, Op.den, MatF.toMatrix_apply]
  unfold denLin
  rw [hm]
  rfl

private theorem hessInv_rinv : RInv hessOp.rows hessOp.den.f hessInv := by
  have hr : hessOp.rows = 3 := by simp [hessOp, Op.rows]
  rw [hr]
  intro i j hi hj
  rw [mmul_apply]
  interval_cases i <;> interval_cases j <;>
    simp [hessOp, Op.den, Hess3.mat, hessInv, eyeM, Finset.sum_range_succ] <;> norm_num

private theorem kron_operand_cols (j : ℕ) (hj : j < 2) :
    colVec 3 (kronOperand₁ hessOp.cols (Op.eye .f64 2 : Op ℝ).cols 1 kronRhs) j = Hess3.e 0 := by
  rw [Hess3.e0]
  apply WithLp.ofLp_injective 2
  funext i
  show kronOperand₁ hessOp.cols (Op.eye .f64 2 : Op ℝ).cols 1 kronRhs i.val j = (Hess3.bs 0).ofLp i
  rw [kronOperand₁_apply, Hess3.bs, EuclideanSpace.basisFun_apply, PiLp.single_apply]
  interval_cases j <;> fin_cases i <;> simp [kronRhs, Op.cols]

/-- **witness of `C06_solve_gmres_under_kron`** (every hypothesis proved, conclusion obtained THROUGH the
theorem): `solve(Kronecker([Dense 3×3, Identity(2)]), e₀ ⊗ (1,1), GMRES(tol = 1/100, max_iters = 3))`.
The GMRES node is not the root, it receives TWO columns (both `e₀`), each run to the breakdown
`β₂ = 0` of `C13_exact_witness`; the returned `Y` satisfies `A · Y = X` on the 6 × 1 window. -/
theorem C06_gmres_under_kron_witness :
    invRule (withGmresCols realExt exactSolve 3) (.gmres gmresObj) (.kron [hessOp, .eye .f64 2])
      = .ok (.kron [.iterInv hessOp (.gmres gmresObj), .op (.eye .f64 2)]) ∧
    ∃ Y, solveRule (withGmresCols realExt exactSolve 3) (.gmres gmresObj)
        (.kron [hessOp, .eye .f64 2]) 1 kronRhs = .ok Y ∧
      EqOn 6 1 (mmul 6 (Op.kron [hessOp, .eye .f64 2]).den.f Y.f) kronRhs := by
  have hS : invRule (withGmresCols realExt exactSolve 3) (.gmres gmresObj) hessOp
      = .ok (.iterInv hessOp (.gmres gmresObj)) := by
    simp [hessOp, invRule, invAux, algRule, effAlg]
  have hD : invRule (withGmresCols realExt exactSolve 3) (.gmres gmresObj) (.eye .f64 2 : Op ℝ)
      = .ok (.op (.eye .f64 2)) := by
    simp [invRule, invAux]
  have hrows : (Op.kron [hessOp, .eye .f64 2] : Op ℝ).rows = 6 := by simp [hessOp, Op.rows]
  refine ⟨by
    unfold invRule at hS hD ⊢
    rw [invAux]
    simp only [List.map_cons, List.map_nil, hS, hD, Inv.sequence, Except.map], ?_⟩
  have hgm : ((gmresObj.tol : ℚ) : ℝ) = 1 / 100 := by simp [gmresObj]
  obtain ⟨hidx, hun, hb, hmask, hinj, _⟩ := C13_exact_witness
  have hr : Hess3.e 0 - Hess3.A 0 = Hess3.e 0 := by simp
  have h := C06_solve_gmres_under_kron realExt exactSolve (.gmres gmresObj) gmresObj 3 (1 / 100) rfl hgm
    3 hessOp (.eye .f64 2) (.eye .f64 2) hessInv (by simp [hessOp, Op.rows])
    (by simp [hessOp, Op.rows, Op.cols]) hS hessInv_rinv hD (by simp [InvHyp, HypAux]) 1 kronRhs
    (by
      intro j hj
      have hj2 : j < 2 := by simpa [Op.cols] using hj
      rw [kron_operand_cols j hj2]
      exact
        { tolPos := by norm_num
          resNonzero := by rw [denLin_hessOp', hr]; exact Hess3.e0_ne
          hs := by rw [denLin_hessOp', hidx]; norm_num
          noEarlierBreakdown := by rw [denLin_hessOp', hidx]; exact hun
          exhausted := Or.inr (by rw [denLin_hessOp', hidx]; exact hb)
          maskExact := by rw [denLin_hessOp', hidx]; exact hmask
          solverSound := exactSolve_sound
          injective := by rw [denLin_hessOp']; exact hinj })
  rw [hrows] at h
  exact h

end krylov

section cg
open CG
attribute [local instance] CG.rcOps
variable {𝕜 : Type} [RCLike 𝕜] [DecidableEq 𝕜]

/-- the CG parameter for ANY number of columns: the C12 model (`cgColumn`: `run_batched_cg`, no
preconditioner, `x₀ = 0`, the options of the solver object) on every column of the operand -/
noncomputable def withCGCols (E0 : Ext 𝕜) (n : ℕ) : Ext 𝕜 :=
  { E0 with solve := fun alg A b X =>
      match alg with
      | .cg o => if A.rows = n then
          MatV.of (fun i j => (cgColumn o.maxIters (o.tol : ℝ) n A (fun i' _ => X i' j)).f i 0)
        else E0.solve (.cg o) A b X
      | alg => E0.solve alg A b X }

/-- the hypotheses of `C06_solve_cg_at_grade` that depend on the right-hand side, for ONE column `v` -/
structure CGRunToGrade (n : ℕ) (A : Op 𝕜) (o : KOpts) (v : EuclideanSpace 𝕜 (Fin n)) : Prop where
  hb : v ≠ 0
  gradeReached : ∃ xs : EuclideanSpace 𝕜 (Fin n), denLin n A xs = v ∧
    xs - 0 ∈ krylov (precLin none ∘ₗ denLin n A) (precLin none (v - denLin n A 0))
      (runBatchedCG (matArr (MatF.toMatrix n n A.den.f)) (colsArr (oneCol v))
        (colsArr (oneCol (0 : EuclideanSpace 𝕜 (Fin n)))) o.maxIters (((o.tol : ℝ) : ℝ) : 𝕜)
        ((none : Option (Matrix (Fin n) (Fin n) 𝕜)).map matArr)).k

omit [DecidableEq 𝕜] in
private theorem coercive_id' (n : ℕ) : Coercive (LinearMap.id : EuclideanSpace 𝕜 (Fin n) →ₗ[𝕜] _) 1 := by
  intro v
  simp only [LinearMap.id_coe, id_eq, one_mul]
  rw [inner_self_eq_norm_sq_to_K]
  norm_cast

/-- **the batched CG call is exact when every column is run to its grade** (operator hypotheses as in
`C06_solve_cg_at_grade`: Hermitian positive definite, coercive, admissible tolerance) -/
theorem C06_cg_cols_exact (E0 : Ext 𝕜) (o : KOpts) (n : ℕ) (A : Op 𝕜) (hn : A.rows = n)
    (hpd : (MatF.toMatrix n n A.den.f).PosDef) {cA : ℝ} (hcA : 0 < cA)
    (A_coercive : Coercive (denLin n A) cA) (tol_pos : 0 < (o.tol : ℝ))
    (tol_admissible : TolAdmissible smallR cA 1 (o.tol : ℝ)) (b : ℕ) (X : MatF 𝕜)
    (cols : ∀ j, j < b → CGRunToGrade n A o (colVec n X j)) :
    SolveOn (withCGCols E0 n) (.cg o) A b X := by
  intro i j hi hj
  rw [hn] at hi
  obtain ⟨hb, xs, hxs, gradeReached⟩ := cols j hj
  have hP : PrecPosDef (none : Option (Matrix (Fin n) (Fin n) 𝕜)) := fun _ h => by cases h
  have h := C12_optimal_inputs hpd hP hcA one_pos A_coercive (coercive_id' n)
    (oneCol (colVec n X j)) (oneCol 0) hb o.maxIters tol_pos tol_admissible hxs
  simp only at h
  obtain ⟨_, _, _, _, huniq⟩ := h
  have hpos : ∀ v : EuclideanSpace 𝕜 (Fin n), 0 ≤ RCLike.re ⟪v, denLin n A v⟫_𝕜 := fun v =>
    le_trans (by positivity) (A_coercive v)
  have hxeq : xs = xOut (MatF.toMatrix n n A.den.f) none (oneCol (colVec n X j)) (oneCol 0)
      o.maxIters (((o.tol : ℝ) : ℝ) : 𝕜) 0 := by
    apply huniq xs gradeReached
    have h0 : energy (denLin n A) xs xs = 0 := by simp [energy]
    show energy (denLin n A) xs xs ≤ _
    rw [h0]
    exact hpos _
  have hcol : colVec n (fun i' _ => X i' j) 0 = colVec n X j := rfl
  have key := eqOn_of_denLin_eq n A (fun i' _ => X i' j)
    (xOut (MatF.toMatrix n n A.den.f) none (oneCol (colVec n X j)) (oneCol 0)
      o.maxIters (((o.tol : ℝ) : ℝ) : 𝕜) 0)
    (by rw [hcol, ← hxeq]; exact hxs)
    (cgColumn o.maxIters (o.tol : ℝ) n A (fun i' _ => X i' j)).f
    (by
      intro q hq
      simp only [cgColumn, MatV.of_f, hcol, dif_pos hq]) i 0 hi (by omega)
  have hsol : ((withCGCols E0 n).solve (.cg o) A b X).f
      = fun i j => (cgColumn o.maxIters (o.tol : ℝ) n A (fun i' _ => X i' j)).f i 0 := by
    simp [withCGCols, hn]
  rw [hsol, hn, mmul_apply]
  rw [mmul_apply] at key
  exact key

/-- **CG leaf under a two-factor Kronecker node, any number of columns** -/
theorem C06_solve_cg_under_kron (E0 : Ext 𝕜) (alg : Alg) (o : KOpts) (n : ℕ) (S D D' : Op 𝕜)
    (Ai : MatF 𝕜) (hn : S.rows = n) (hsq : S.cols = S.rows)
    (hS : invRule (withCGCols E0 n) alg S = .ok (.iterInv S (.cg o)))
    (invertible : RInv S.rows S.den.f Ai)
    (hD : invRule (withCGCols E0 n) alg D = .ok (.op D')) (hHD : InvHyp (withCGCols E0 n) alg D)
    (hpd : (MatF.toMatrix n n S.den.f).PosDef) {cA : ℝ} (hcA : 0 < cA)
    (A_coercive : Coercive (denLin n S) cA) (tol_pos : 0 < (o.tol : ℝ))
    (tol_admissible : TolAdmissible smallR cA 1 (o.tol : ℝ)) (b : ℕ) (X : MatF 𝕜)
    (cols : ∀ j, j < D'.cols * b →
      CGRunToGrade n S o (colVec n (kronOperand₁ S.cols D'.cols b X) j)) :
    ∃ Y, solveRule (withCGCols E0 n) alg (.kron [S, D]) b X = .ok Y ∧
      EqOn (Op.kron [S, D]).rows b (mmul (Op.kron [S, D]).rows (Op.kron [S, D]).den.f Y.f) X :=
  C06_solve_nested_kron_call _ alg (.cg o) S D D' Ai hS hsq invertible hD hHD b X
    (C06_cg_cols_exact E0 o n S hn hpd hcA A_coercive tol_pos tol_admissible _ _ cols)

end cg

end C06

#print axioms C06.C06_solve_nested_kron_call
#print axioms C06.C06_solve_nested_prod_first_call
#print axioms C06.C06_solve_nested_prod_last_call
#print axioms C06.C06_solve_nested_bdiag_call
#print axioms C06.C06_gmres_cols_exact
#print axioms C06.C06_solve_gmres_under_kron
#print axioms C06.C06_gmres_under_kron_witness
#print axioms C06.C06_cg_cols_exact
#print axioms C06.C06_solve_cg_under_kron
