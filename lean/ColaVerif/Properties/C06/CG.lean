import ColaVerif.Properties.C06
import ColaVerif.Properties.C12
import ColaVerif.Lemmas.InvKrylovBridge
import ColaVerif.Lemmas.InvOptions

/-!
# C06 ∘ C12: `solve(A, b, CG)` solves the system when CG is run to the grade

The solver parameter of C06 is INSTANTIATED with the code model of `cola.linalg.inverse.cg` of family
C12 (`runBatchedCG`, read through `CG.xOut`: no preconditioner, `x₀ = 0`, one right-hand side), and
the exact-solve hypothesis of the one call (`C06_solve_iter_call`) is DISCHARGED by
`C12_optimal_inputs`: the returned iterate is the unique energy minimiser over `x₀ + K_k`, hence it
is the solution `x⋆` as soon as `x⋆ − x₀ ∈ K_k` (`gradeReached`).  What remains are hypotheses on
the input: Hermitian positive definite with coercivity constant `cA`, `b ≠ 0`, a tolerance
admissible for `(1e-40, cA, 1)`.  Before the grade only the exit test holds (`C12_stop`): a
residual bound, covered on the real code by the float-side stream of the harness.
-/

open CG
open scoped InnerProductSpace ComplexOrder
open Finset Inv WithLp Matrix

attribute [local instance] CG.rcOps

namespace C06
variable {𝕜 : Type} [RCLike 𝕜] [DecidableEq 𝕜]

/-- what `IterativeOperatorWInfo(A, CG(tol, max_iters)) @ X` returns for a one-column `X` according
to the code model of C12 (`run_batched_cg`, no preconditioner, `x0 = 0`) -/
noncomputable def cgColumn (maxIters : ℕ) (tol : ℝ) (n : ℕ) (A : Op 𝕜) (X : MatF 𝕜) : MatV 𝕜 :=
  MatV.of (fun i _ => if h : i < n then
    ofLp (xOut (MatF.toMatrix n n A.den.f) none (oneCol (colVec n X 0)) (oneCol 0) maxIters
      ((tol : ℝ) : 𝕜) 0) ⟨i, h⟩ else 0)

/-- a parameter set whose CG solver, on one column and for operators of extent `n`, is the C12
model RUN WITH THE OPTIONS OF THE SOLVER OBJECT it is called with (`CG(tol, max_iters).__call__` is
`cg(A, b, **self.__dict__)`, cg.py:36); everything else as in `E0` -/
noncomputable def withCG (E0 : Ext 𝕜) (n : ℕ) : Ext 𝕜 :=
  { E0 with solve := fun alg A b X =>
      match alg with
      | .cg o => if b = 1 ∧ A.rows = n then cgColumn o.maxIters (o.tol : ℝ) n A X
                 else E0.solve (.cg o) A b X
      | alg => E0.solve alg A b X }

omit [DecidableEq 𝕜] in
private theorem coercive_id (n : ℕ) : Coercive (LinearMap.id : EuclideanSpace 𝕜 (Fin n) →ₗ[𝕜] _) 1 := by
  intro v
  simp only [LinearMap.id_coe, id_eq, one_mul]
  rw [inner_self_eq_norm_sq_to_K]
  norm_cast

/-- **the composition step**: if the iterate the C12 model returns solves the system, then
`solve(A, X, CG)` of C06 — with that model as the solver parameter — satisfies `A · Y = X`. -/
theorem C06_solve_of_cg_exact (E0 : Ext 𝕜) (alg : Alg) (o : KOpts) (n : ℕ) (A : Op 𝕜)
    (hn : A.rows = n)
    (hB : invRule (withCG E0 n) alg A = .ok (.iterInv A (.cg o))) (X : MatF 𝕜)
    (hx : denLin n A (xOut (MatF.toMatrix n n A.den.f) none (oneCol (colVec n X 0)) (oneCol 0) o.maxIters
      (((o.tol : ℝ) : ℝ) : 𝕜) 0) = colVec n X 0) :
    ∃ Y, solveRule (withCG E0 n) alg A 1 X = .ok Y ∧ EqOn n 1 (mmul n A.den.f Y.f) X := by
  have hcall : EqOn A.rows 1
      (mmul A.rows A.den.f ((withCG E0 n).solve (.cg o) A 1 X).f) X := by
    rw [hn]
    have hsol : ((withCG E0 n).solve (.cg o) A 1 X) = cgColumn o.maxIters (o.tol : ℝ) n A X := by
      simp [withCG, hn]
    rw [hsol]
    apply eqOn_of_denLin_eq n A X _ hx
    intro q hq
    simp only [cgColumn, MatV.of_f, dif_pos hq]
  obtain ⟨Y, hY, _, hsolves⟩ := C06_solve_iter_call (withCG E0 n) alg (.cg o) A hB 1 X hcall
  rw [hn] at hsolves
  exact ⟨Y, hY, hsolves⟩

/-- **the options reach the solver**: when `inv(A, alg)` is `IterativeOperatorWInfo(A, CG-object o)`
(for `alg = CG(tol, max_iters)` the object itself, for `alg = Auto(**d)` above 10⁶ entries
`CG(**d)`: `C06_iter_paths`, `C06_solver_options`), `solve(A, X, alg)` IS the C12 model
`run_batched_cg` run with `o.tol` and `o.max_iters` — the caller's values. -/
theorem C06_cg_runs_with_options (E0 : Ext 𝕜) (alg : Alg) (o : KOpts) (n : ℕ) (A : Op 𝕜)
    (hn : A.rows = n) (hB : invRule (withCG E0 n) alg A = .ok (.iterInv A (.cg o))) (X : MatF 𝕜) :
    solveRule (withCG E0 n) alg A 1 X = .ok (cgColumn o.maxIters (o.tol : ℝ) n A X) ∧
      (∀ d, alg = .auto d → o = .ofDict d) ∧ (∀ o', alg = .cg o' → o = o') := by
  refine ⟨?_, ?_, ?_⟩
  · unfold solveRule
    rw [hB]
    simp [Except.map, InvOp.mm, withCG, hn]
  · intro d hd
    have h := invRule_solvers (withCG E0 n) alg A _ hB (.cg o) (by simp [InvOp.solvers])
    have h2 := h.2.1
    rw [hd] at h2
    simpa [Alg.kopts, Alg.requested] using h2
  · intro o' ho'
    have h := invRule_solvers (withCG E0 n) alg A _ hB (.cg o) (by simp [InvOp.solvers])
    have h2 := h.2.1
    rw [ho'] at h2
    simpa [Alg.kopts, Alg.requested] using h2

/-- **`solve(A, b, CG(tol, max_iters))` solves `A x = b` when CG is run to the grade of `b`** (one
right-hand side, no preconditioner).  `A` is any operator of extent `n` that falls to the CG rule
(`hB`; e.g. a PSD-declared Dense operator: `C06_iter_paths`).  Hypotheses on the input only: the
matrix is Hermitian positive definite with `cA ‖v‖² ≤ re ⟪v, A v⟫`, `b ≠ 0`, `tol` admissible
(`TolAdmissible`, C12: the guards of the code compare with the absolute constant `1e-40`), and
`gradeReached`: the solution lies in the Krylov space of the `k` executed steps.  The conclusion of
`C12_optimal_inputs` (unique energy minimiser over `x₀ + K_k`) then forces the iterate to be the
solution. -/
theorem C06_solve_cg_at_grade (E0 : Ext 𝕜) (alg : Alg) (o : KOpts) (n : ℕ) (A : Op 𝕜)
    (hn : A.rows = n)
    (hB : invRule (withCG E0 n) alg A = .ok (.iterInv A (.cg o))) (X : MatF 𝕜)
    (hpd : (MatF.toMatrix n n A.den.f).PosDef) {cA : ℝ} (hcA : 0 < cA)
    (A_coercive : Coercive (denLin n A) cA) (hb : colVec n X 0 ≠ 0) (tol_pos : 0 < (o.tol : ℝ))
    (tol_admissible : TolAdmissible smallR cA 1 (o.tol : ℝ))
    (xs : EuclideanSpace 𝕜 (Fin n)) (hxs : denLin n A xs = colVec n X 0)
    (gradeReached : xs - 0 ∈ krylov (precLin none ∘ₗ denLin n A)
      (precLin none (colVec n X 0 - denLin n A 0))
      (runBatchedCG (matArr (MatF.toMatrix n n A.den.f)) (colsArr (oneCol (colVec n X 0)))
        (colsArr (oneCol (0 : EuclideanSpace 𝕜 (Fin n)))) o.maxIters (((o.tol : ℝ) : ℝ) : 𝕜)
        ((none : Option (Matrix (Fin n) (Fin n) 𝕜)).map matArr)).k) :
    ∃ Y, solveRule (withCG E0 n) alg A 1 X = .ok Y ∧ EqOn n 1 (mmul n A.den.f Y.f) X := by
  have hP : PrecPosDef (none : Option (Matrix (Fin n) (Fin n) 𝕜)) := fun _ h => by cases h
  have h := C12_optimal_inputs hpd hP hcA one_pos A_coercive (coercive_id n)
    (oneCol (colVec n X 0)) (oneCol 0) hb o.maxIters tol_pos tol_admissible hxs
  simp only at h
  obtain ⟨_, _, _, _, huniq⟩ := h
  have hpos : ∀ v : EuclideanSpace 𝕜 (Fin n), 0 ≤ RCLike.re ⟪v, denLin n A v⟫_𝕜 := fun v =>
    le_trans (by positivity) (A_coercive v)
  have hxeq : xs = xOut (MatF.toMatrix n n A.den.f) none (oneCol (colVec n X 0)) (oneCol 0)
      o.maxIters (((o.tol : ℝ) : ℝ) : 𝕜) 0 := by
    apply huniq xs gradeReached
    have h0 : energy (denLin n A) xs xs = 0 := by simp [energy]
    show energy (denLin n A) xs xs ≤ _
    rw [h0]
    exact hpos _
  exact C06_solve_of_cg_exact E0 alg o n A hn hB X (by rw [← hxeq]; exact hxs)

/-! ## witness: `tridiag(-1, 2, -1)` of `C12_witness_three_steps` as a PSD-declared `Dense` operator -/

/-- `PSD(Dense([[2,-1,0],[-1,2,-1],[0,-1,2]]))` -/
noncomputable def tri3Op : Op ℝ :=
  .annot .psd (.dense .f64 3 3 (fun i j => if h : i < 3 ∧ j < 3 then exA3 ⟨i, h.1⟩ ⟨j, h.2⟩ else 0))

/-- the right-hand side `e₀` as a one-column block -/
def e0colCG : MatF ℝ := fun i _ => if i = 0 then 1 else 0

/-- parameters over ℝ: the field reciprocal; factorisations / other solvers unused -/
noncomputable def realExtCG : Ext ℝ :=
  { recip := fun x => x⁻¹, chol := fun _ D => MatV.of D, lu := fun _ D => ([], MatV.of D, MatV.of D),
    solve := fun _ _ _ _ => MatV.of zeroM }

/-- the solver object `CG(tol = 1/10, max_iters = 5)` -/
def cgObj : KOpts := ⟨1 / 10, 5⟩

private theorem tri3_rule : invRule (withCG realExtCG 3) (.cg cgObj) tri3Op
    = .ok (.iterInv tri3Op (.cg cgObj)) := by
  simp [tri3Op, invRule, invAux, algRule, effAlg, Op.isa, Op.anns, AnnSet.isa, AnnSet.union, Ann.sub]

private theorem tri3_mat : MatF.toMatrix 3 3 tri3Op.den.f = exA3 := by
  ext i j
  simp [tri3Op, Op.den, MatF.toMatrix_apply]

private theorem e0_vec : colVec 3 e0colCG 0 = exb3 := by
  apply WithLp.ofLp_injective 2
  funext i
  show (if i.val = 0 then (1 : ℝ) else 0) = exb3.ofLp i
  fin_cases i <;> simp [exb3]

private theorem zero_vec : (0 : EuclideanSpace ℝ (Fin 3)) = exz3 := by
  apply WithLp.ofLp_injective 2
  funext i
  fin_cases i <;> simp [exz3]

private theorem cgObj_tol : ((cgObj.tol : ℚ) : ℝ) = 1 / 10 := by
  simp [cgObj]

/-- **the hypotheses of `C06_solve_of_cg_exact` are satisfiable on a non-trivial input, and the
composed conclusion**: for `A = PSD(Dense(tridiag(-1, 2, -1)))` (3 × 3), `b = e₀`,
`CG(tol = 1/10, max_iters = 5)`: the C12 model makes three steps and returns `(3/4, 1/2, 1/4)`
(`C12_witness_three_steps`), and `solve(A, b, CG)` returns `Y` with `A · Y = b`. -/
theorem C06_cg_witness :
    tri3Op.rows = 3 ∧
    invRule (withCG realExtCG 3) (.cg cgObj) tri3Op = .ok (.iterInv tri3Op (.cg cgObj)) ∧
    ∃ Y, solveRule (withCG realExtCG 3) (.cg cgObj) tri3Op 1 e0colCG = .ok Y ∧
      EqOn 3 1 (mmul 3 tri3Op.den.f Y.f) e0colCG := by
  have hn : tri3Op.rows = 3 := by simp [tri3Op, Op.rows]
  refine ⟨hn, tri3_rule, C06_solve_of_cg_exact realExtCG _ cgObj 3 tri3Op hn tri3_rule e0colCG ?_⟩
  obtain ⟨_, _, _, _, _, _, hsolves, _, hout⟩ := C12_witness_three_steps
  unfold denLin
  rw [tri3_mat, e0_vec, zero_vec, cgObj_tol]
  have hout' : xOut exA3 none (oneCol exb3) (oneCol exz3) 5 (RCLike.ofReal (1 / 10 : ℝ)) 0
      = !₂[3 / 4, 1 / 2, 1 / 4] := hout
  show toEuclideanLin exA3 (xOut exA3 none (oneCol exb3) (oneCol exz3) 5
    (RCLike.ofReal (1 / 10 : ℝ)) 0) = exb3
  rw [hout']
  exact hsolves

/-- **`C06_solve_cg_at_grade` instantiated** (round 3): on the same input EVERY hypothesis of the
at-grade theorem holds — the matrix is positive definite and coercive with `cA = 1/2`, `b = e₀ ≠ 0`,
the tolerance `1/10` of the solver object is admissible, and the solution `(3/4, 1/2, 1/4)` lies in
the Krylov space of the three executed steps (`gradeReached`, from the membership conclusion of
`C12_optimal_inputs` on `C12_witness_three_steps`) — and the conclusion is obtained THROUGH the
theorem, not through `C06_solve_of_cg_exact`. -/
theorem C06_cg_at_grade_witness :
    ∃ Y, solveRule (withCG realExtCG 3) (.cg cgObj) tri3Op 1 e0colCG = .ok Y ∧
      EqOn 3 1 (mmul 3 tri3Op.den.f Y.f) e0colCG := by
  have hn : tri3Op.rows = 3 := by simp [tri3Op, Op.rows]
  obtain ⟨hpd, hP, hco, hMi, hb, htol, hsolves, hk, hout⟩ := C12_witness_three_steps
  have hlin : denLin 3 tri3Op = toEuclideanLin exA3 := by unfold denLin; rw [tri3_mat]
  have hmem := (C12_optimal_inputs hpd hP (by norm_num : (0 : ℝ) < 1 / 2) one_pos hco hMi
    (oneCol exb3) (oneCol exz3) hb 5 (by norm_num : (0 : ℝ) < 1 / 10) htol hsolves).2.2.1
  simp only at hmem
  have hout' : xOut exA3 none (oneCol exb3) (oneCol exz3) 5 (RCLike.ofReal (1 / 10 : ℝ)) 0
      = !₂[3 / 4, 1 / 2, 1 / 4] := hout
  apply C06_solve_cg_at_grade realExtCG (.cg cgObj) cgObj 3 tri3Op hn tri3_rule e0colCG
    (cA := 1 / 2) (xs := !₂[3 / 4, 1 / 2, 1 / 4])
  · rw [tri3_mat]; exact hpd
  · norm_num
  · rw [hlin]; exact hco
  · rw [e0_vec]; exact hb
  · rw [cgObj_tol]; norm_num
  · rw [cgObj_tol]; exact htol
  · rw [hlin, e0_vec]; exact hsolves
  · rw [hlin, e0_vec, tri3_mat, cgObj_tol, zero_vec]
    have h2 : (oneCol exz3) 0 = exz3 := rfl
    have h3 : (oneCol exb3) 0 = exb3 := rfl
    rw [h2, h3] at hmem
    rw [hout'] at hmem
    exact hmem

/-- **the options reach the solver, instantiated**: `solve(A, b, CG(tol = 1/10, max_iters = 5))` on
the witness is the C12 model run with exactly `max_iters = 5`, `tol = 1/10`. -/
theorem C06_cg_options_witness :
    solveRule (withCG realExtCG 3) (.cg cgObj) tri3Op 1 e0colCG
      = .ok (cgColumn 5 ((1 / 10 : ℚ) : ℝ) 3 tri3Op e0colCG) :=
  (C06_cg_runs_with_options realExtCG (.cg cgObj) cgObj 3 tri3Op (by simp [tri3Op, Op.rows])
    tri3_rule e0colCG).1

end C06

#print axioms C06.C06_solve_of_cg_exact
#print axioms C06.C06_solve_cg_at_grade
#print axioms C06.C06_cg_witness
#print axioms C06.C06_cg_runs_with_options
#print axioms C06.C06_cg_at_grade_witness
#print axioms C06.C06_cg_options_witness
