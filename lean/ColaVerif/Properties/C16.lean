import ColaVerif.Lemmas.SvdModel
import ColaVerif.Lemmas.SvdTotal
import ColaVerif.Lemmas.SvdSorted
import ColaVerif.Lemmas.SvdWitness

/-!
# C16 — `svd` returns a valid (truncated) singular value decomposition, `pinv(A) @ b` the
minimum-norm least-squares solution

Model: `ColaVerif/Model/Svd.lean` (mirror of `cola/linalg/svd/svd.py`,
`cola/linalg/inverse/pinv.py`, `get_slice`).  LAPACK `svd` / `lstsq`, `lanczos_eigs` (C14), the CG
solver (C12), `sqrt` and the reciprocal are PARAMETERS; their contracts are hypotheses.  Carrier: any
`RCLike 𝕜` (ℝ and ℂ at once); matrices are Mathlib matrices through `MatF.toMatrix`; vectors live in
`EuclideanSpace`; `lin A` is `x ↦ A x`.

svd
* `C16_select_largest`, `C16_select_smallest` — `get_slice(k, 'LM' | 'SM')` on an ascending array
  of non-negative values selects exactly the `k` largest / smallest (by value = by magnitude);
  `C16_select_zero_quirk` — `k = 0` with `'LM'` selects everything (outside the quantifier `1 ≤ k`);
  `C16_argsort` — `argsort` is a permutation along which the keys ascend.
* `C16_svd_dense` — DenseSVD: if LAPACK returns a thin SVD of the array it is given
  (`lapack_contract`), the re-ordered, column-selected triple has orthonormal `U`, `V`, a real
  non-negative diagonal `Σ` and `U Σ Vᴴ = A` — for tall, wide and square `A` (`k`, `which` ignored:
  all `min(m, n)` triplets are returned).
* `C16_krylov_tall`, `C16_krylov_wide` — back-substitution: from orthonormal eigenvectors of
  `Aᴴ A` (`A Aᴴ`) with positive eigenvalues `λ` and `Σ = sqrt λ`: the back-substituted factor has
  orthonormal columns, `Σ ≥ 0`, `U Σ Vᴴ = A V Vᴴ` (`= U Uᴴ A`), the remainder is orthogonal to the
  selected singular subspaces on both sides (truncated SVD), and `= A` when all triplets are
  selected.  "Best rank-`k` approximation" is read as this truncated SVD on the `k` LARGEST singular
  values (`C16_select_largest`); the Eckart–Young theorem itself is NOT re-proved.
* `C16_svd_identity`; `C16_svd_diagonal` — the `Diagonal` rule (after the repair in /repo:
  `Σ = |diag|`, `U = diag(phase)`, `V = I`): full statement for EVERY diagonal (negative, complex
  and zero entries included), no clause.
pinv
* `C16_lsq_normal`, `C16_min_norm` — normal equations ⟹ least squares; the solution in
  `range Aᴴ` is THE minimum-norm one (`C16_min_norm_unique`);
  `C16_pinv_full_column_rank`, `C16_pinv_full_row_rank` — the closed forms.
* `C16_pinv_structural` — Identity / ScalarMul / Diagonal / Permutation: the operator the rule builds
  is the two-sided inverse (full rank: non-zero scalar / entries — a hypothesis, the code returns
  `inf` for a zero), hence `pinv(A) @ b` is the minimum-norm least-squares solution, exactly.
* `C16_pinv_cg` — the operator the CG rule builds, for all four dtypes (`get_precision` is defined
  on complex dtypes after the repair in /repo; no clause);
  `C16_pinv_cg_value` — the rule returns `x = cg(Aᴴ A, Aᴴ b) + cons · Aᴴ b` with
  `cons = get_precision(dtype) · max(m, n)` (the "regulariser" is added to the INVERSE): if the
  solver's contract holds (normal equations solved, iterate in the Krylov space of `(Aᴴ A, Aᴴ b)`)
  the first term is the minimum-norm least-squares solution for EVERY shape and rank, and the
  returned vector differs from it by exactly `cons · Aᴴ b` (norm `|cons| ‖Aᴴ b‖`: 1e-15-level in
  float64; tolerance of the correspondence check).
* `C16_pinv_rule` — rule selection (`Auto`: `LSTSQ` iff `prod(shape) ≤ 10⁶`).

ROUND 2 (everything above is unchanged; what follows is added)
CONTRACTS — assumed behaviour of numerical libraries, hypotheses of the theorems, NOT proved:
  `lapack_contract` (LAPACK `gesdd` returns a thin SVD), `eigs_contract` / `ritz_contract`
  (`lanczos_eigs` / `lobpcg` return orthonormal eigen- / Ritz pairs of the matrix the Gram operator
  represents; C14 proves the exact-arithmetic Lanczos relation these rest on), `sqrt_contract`,
  `inv_contract`, `abs_contract`, `lt_contract` (scalar primitives), `lstsq_contract`
  (`np.linalg.lstsq` returns the minimum-norm least-squares solution), the CG contract (`hsolve`,
  `hkrylov`: C12).  Everything cola does AROUND these calls is proved from them:
* `C16_svd_dense_sorted` — DenseSVD's singular values ascend (`idx = argsort(Sigma)`);
* `C16_svd_krylov_tall` / `_wide` — THE LINK: for the operators the model's Krylov rule actually
  RETURNS (`svdKrylov … = .ok o`; Gram operator `A.H @ A` resp. `A @ A.H` built with `dot`, eigenpairs
  sliced with `get_slice`, `Sigma = sqrt(vals[slice])`, the other factor by `to_dense` of the lazy
  product `A @ V @ inv(Sigma)` resp. `(inv(Sigma) @ U.H @ A).to_dense().conj().T`): the Gram operator
  represents `Aᴴ A` / `A Aᴴ`, `Uᴴ U = 1`, `Vᴴ V = 1`, `Σ = diag sqrt λ > 0`, `U Σ Vᴴ = A V Vᴴ`
  (`= U Uᴴ A`), the remainder annihilates the selected subspaces, `= A` when all triplets are selected.
  Hypotheses: C01's `Good` for the operand and for the eigensolver's eigenvector operator, `RealTyped`
  (C05), and the contracts.  No hypothesis about intermediate operators; the driver's run-time
  `back_eq` is now a theorem.  `C16_svd_krylov_total` — the rule returns; `C16_svd_lanczos_iff` — `svd`
  with `Lanczos` is that rule; `C16_svd_krylov_witness` — all hypotheses hold on a concrete `2 × 2`
  non-diagonal operand (non-vacuity);
* `C16_krylov_tall_ritz` / `_wide_ritz` — PARTIAL Lanczos runs: Ritz pairs (`Vᴴ (Aᴴ A) V = diag λ`)
  already give orthonormal columns of the back-substituted factor and the residual identity;
* `C16_moore_penrose_unique`, `C16_pinv_from_svd`, `C16_pinv_from_svd_dense` — `V Σ⁺ Uᴴ` of ANY thin
  SVD (zero singular values allowed) satisfies the four Penrose equations; uniqueness; it gives the
  minimum-norm least-squares solution;
* `C16_pinv_full_rank_mp`, `C16_pinv_structural_mp` — `(Aᴴ A)⁻¹ Aᴴ`, `Aᴴ (A Aᴴ)⁻¹`, and what the
  reciprocal rules build, ARE the Moore–Penrose inverse;
* `C16_pinv_cg_full_rank` — the CG rule: under the CG contract `pinv(A, CG) @ b` is
  `(Aᴴ A)⁻¹ Aᴴ b` (full column rank) resp. `Aᴴ (A Aᴴ)⁻¹ b` (full row rank) `+ cons · Aᴴ b`;
* `C16_pinv_lstsq` — the LSTSQ rule is no longer a bare tag: `lstsqApply` (`xnp.lstsq(A.to_dense(), B)`),
  `lstsq_contract` ⟹ every column of `pinv(A, LSTSQ) @ B` is `A⁺ b`;
* `C16_lobpcg_clauses`, `C16_lobpcg_k_clause_needed` — the recorded finding `lobpcg-k-ge-n` of the `LOBPCG`
  path (`Svd.lobpcgClauses`, known_findings.json); `C16_lobpcg_largest_flag`, `C16_lobpcg_sm_regression` —
  the repaired `'SM'` selection (/repo 7c689b5).

ROUND 3 (everything above is unchanged; added)
* `C16_lanczos_W_good`, `C16_svd_krylov_tall_QY` / `_wide_QY` / `_link_QY` / `_total_QY` — `W_good` is PROVED for the
  shapes the real eigensolvers return (`Svd.EigShape`: `Product(Orthonormal(Dense Q), Dense Y)` of `lanczos_eigs`,
  `Dense(V)` of `lobpcg`); the Krylov theorems restated with that shape hypothesis only.
* `C16_contracts_of_sorted`, `C16_svd_krylov_select_sorted`, `C16_svd_krylov_tall_sorted` / `_wide_sorted` — the
  ORDER is part of the strengthened contracts `Svd.EigsSorted` (ascending eigenvalues of `eigh` / `lanczos_eigs`)
  and `Svd.LapackSorted` (descending singular values of `np.linalg.svd`); the old contracts follow from them; under
  `EigsSorted` the rule returns exactly the `k` largest (`'LM'`) / smallest (`'SM'`) singular values among those the
  eigensolver holds — `ascending` is no longer a free-floating hypothesis.
* WITNESSES (exact rational data over ℝ, non-diagonal operands; `Lemmas/SvdWitness.lean`): `C16_svd_dense_witness`
  (`lapack_contract`, `lt_contract`; `3 × 2`), `C16_krylov_ritz_witness` (`ritz_contract`; genuine partial run
  `k = 1 < n = 2`), `C16_pinv_lstsq_witness` (`lstsq_contract`; a concrete `lstsq` function),
  `C16_svd_krylov_sorted_witness` (`EigsSorted`, `EigShape`; `k = 1 < n = 2`, `W = Product(Q, Y)`).
  Still WITHOUT a Lean witness: the CG antecedents of `C16_pinv_cg_value` / `_full_rank` (`hsolve`, `hkrylov`), the
  wide-branch contracts, complex carriers.
-/

open Matrix Svd

variable {𝕜 : Type} [RCLike 𝕜]

/-! ## selection -/

/-- **`get_slice(k, 'LM')`** on an ascending array of `n` non-negative values, `1 ≤ k ≤ n` -/
theorem C16_select_largest (n k : Nat) (hk1 : 1 ≤ k) (hkn : k ≤ n) (vals : Nat → ℝ)
    (ascending : ∀ i j, i ≤ j → j < n → vals i ≤ vals j) (nonneg : ∀ i, i < n → 0 ≤ vals i) :
    ∃ pos, positions n (k : Int) .LM = .ok pos ∧ pos = List.range' (n - k) k ∧
      pos.length = k ∧ pos.Nodup ∧ (∀ p ∈ pos, p < n) ∧
      (∀ p ∈ pos, ∀ q, q < n → q ∉ pos → vals q ≤ vals p ∧ |vals q| ≤ |vals p|) := by
  have hmin : min k n = k := Nat.min_eq_left hkn
  refine ⟨List.range' (n - min k n) (min k n), positions_LM n k hk1, by rw [hmin], ?_, ?_, ?_, ?_⟩
  · exact (selected_count_LM n k hkn).1
  · exact (selected_count_LM n k hkn).2.1
  · exact (selected_count_LM n k hkn).2.2
  · intro p hp q hq hnq
    exact ⟨largest_selected n k vals ascending p hp q hq hnq,
      largest_selected_abs n k vals ascending nonneg p hp q hq hnq⟩

/-- **`get_slice(k, 'SM')`** -/
theorem C16_select_smallest (n k : Nat) (hkn : k ≤ n) (vals : Nat → ℝ)
    (ascending : ∀ i j, i ≤ j → j < n → vals i ≤ vals j) :
    ∃ pos, positions n (k : Int) .SM = .ok pos ∧ pos = List.range k ∧
      (∀ p ∈ pos, ∀ q, q < n → q ∉ pos → vals p ≤ vals q) := by
  have hmin : min k n = k := Nat.min_eq_left hkn
  refine ⟨List.range (min k n), positions_SM n k, by rw [hmin], ?_⟩
  intro p hp q hq hnq
  exact smallest_selected n k vals ascending p hp q hq hnq

/-- `k = 0` with `'LM'`: `slice(-0, None)` selects everything; `k = -1` and an unknown `which`
raise -/
theorem C16_select_zero_quirk (n : Nat) :
    positions n 0 .LM = .ok (List.range n) ∧
    (∀ w, positions n (-1) w = .error "error:ValueError") ∧
    (∀ k : Int, k ≠ -1 → positions n k .other = .error "not-implemented") :=
  ⟨positions_LM_zero n, positions_minus_one n, positions_other n⟩

/-- **`argsort`** (any comparison): a permutation of `0 … n-1`; with `<` of a linear order the keys
ascend along it -/
theorem C16_argsort {α : Type} [LinearOrder α] (key : Nat → α) (n : Nat) (lt : α → α → Bool) :
    (argsort lt n key).Perm (List.range n) ∧
    ((argsort ltOf n key).map key).Pairwise (· ≤ ·) :=
  ⟨argsort_perm lt key n, argsort_values_ascend key n⟩

/-! ## DenseSVD -/

/-- **DenseSVD.**  `lapack_contract` — a CONTRACT (assumed behaviour of LAPACK, not proved; it IS a
thin SVD): `xnp.svd(X, full_matrices=True)` returns, in its first `r = min(m, n)` columns, a thin SVD
of the array `X = A.to_dense()` it is given, with real non-negative singular values.  What the theorem
adds is what cola does around the call: `to_dense` is the represented matrix, `argsort`, the column
selection (thinning) and the annotation wrappers.  Sortedness: `C16_svd_dense_sorted`; the
pseudo-inverse from this triple: `C16_pinv_from_svd_dense`. -/
theorem C16_svd_dense [DecidableEq 𝕜] (P : Params 𝕜) (A : Op 𝕜)
    (A_good : A.wf = true ∧ A.dupSlice = false ∧ A.HermOK) (s : Nat → ℝ)
    (lapack_contract :
      let o := P.lapackSvd A.rows A.cols A.td.f
      let r := min A.rows A.cols
      let U1 := MatF.toMatrix A.rows r o.U
      let V1 := MatF.toMatrix A.cols r o.V
      (∀ i, i < r → o.s i = ((s i : ℝ) : 𝕜) ∧ 0 ≤ s i) ∧ U1ᴴ * U1 = 1 ∧ V1ᴴ * V1 = 1 ∧
        U1 * diagonal (fun i : Fin r => o.s i.val) * V1ᴴ = MatF.toMatrix A.rows A.cols A.td.f) :
    let res := svdDense P A
    let idx := res.1
    let k := idx.length
    let U := MatF.toMatrix A.rows k res.2.U.den.f
    let Sg := MatF.toMatrix k k res.2.S.den.f
    let V := MatF.toMatrix A.cols k res.2.V.den.f
    k = min A.rows A.cols ∧ idx.Perm (List.range (min A.rows A.cols)) ∧
    res.2.U.rows = A.rows ∧ res.2.U.cols = k ∧ res.2.V.rows = A.cols ∧ res.2.V.cols = k ∧
    Uᴴ * U = 1 ∧ Vᴴ * V = 1 ∧
    Sg = diagonal (fun i : Fin k => ((s (idx.getD i.val 0) : ℝ) : 𝕜)) ∧
    (∀ i : Fin k, 0 ≤ s (idx.getD i.val 0)) ∧
    U * Sg * Vᴴ = MatF.toMatrix A.rows A.cols A.den.f :=
  svdDense_spec P A A_good s lapack_contract

/-! ## the Krylov rules: back-substitution -/

/-- **Lanczos / LOBPCG, branch `A.H @ A`** (`n ≤ m`).  `Vs` = the selected eigenvector columns
(`n × k`), `lam` = the selected eigenvalues, `sigma = sqrt lam` (`sqrt_contract`),
`sinv = 1 / sigma` (`inv_contract`); `eigs_contract`: orthonormal columns, `Aᴴ A V = V diag lam`,
`lam > 0`.  `U = backsubU …` is the matrix formula of `(A @ V @ inv(Sigma)).to_dense()`. -/
theorem C16_krylov_tall (m n k : Nat) (A Vs : MatF 𝕜) (lam sigma : Nat → ℝ) (sinv : Nat → 𝕜)
    (eigs_contract :
      (MatF.toMatrix n k Vs)ᴴ * MatF.toMatrix n k Vs = 1 ∧
      (MatF.toMatrix m n A)ᴴ * MatF.toMatrix m n A * MatF.toMatrix n k Vs =
        MatF.toMatrix n k Vs * diagonal (fun i : Fin k => ((lam i.val : ℝ) : 𝕜)) ∧
      ∀ i, i < k → 0 < lam i)
    (sqrt_contract : ∀ i, i < k → sigma i = Real.sqrt (lam i))
    (inv_contract : ∀ i, i < k → sinv i = (((sigma i)⁻¹ : ℝ) : 𝕜)) :
    let Am := MatF.toMatrix m n A
    let V := MatF.toMatrix n k Vs
    let U := MatF.toMatrix m k (backsubU n k A Vs sinv)
    let Sg : Matrix (Fin k) (Fin k) 𝕜 := diagonal (fun i : Fin k => ((sigma i.val : ℝ) : 𝕜))
    (∀ i, i < k → 0 < sigma i) ∧ Uᴴ * U = 1 ∧
    U * Sg * Vᴴ = Am * (V * Vᴴ) ∧
    (Am - U * Sg * Vᴴ) * V = 0 ∧ Uᴴ * (Am - U * Sg * Vᴴ) = 0 ∧
    (V * Vᴴ = 1 → U * Sg * Vᴴ = Am) :=
  krylov_tall_spec m n k A Vs lam sigma sinv eigs_contract sqrt_contract inv_contract

/-- **Lanczos, branch `A @ A.H`** (`m < n`): `V = backsubV …` is the matrix formula of
`(inv(Sigma) @ U.H @ A).to_dense().conj().T`. -/
theorem C16_krylov_wide (m n k : Nat) (A Us : MatF 𝕜) (lam sigma : Nat → ℝ) (sinv : Nat → 𝕜)
    (eigs_contract :
      (MatF.toMatrix m k Us)ᴴ * MatF.toMatrix m k Us = 1 ∧
      MatF.toMatrix m n A * (MatF.toMatrix m n A)ᴴ * MatF.toMatrix m k Us =
        MatF.toMatrix m k Us * diagonal (fun i : Fin k => ((lam i.val : ℝ) : 𝕜)) ∧
      ∀ i, i < k → 0 < lam i)
    (sqrt_contract : ∀ i, i < k → sigma i = Real.sqrt (lam i))
    (inv_contract : ∀ i, i < k → sinv i = (((sigma i)⁻¹ : ℝ) : 𝕜)) :
    let Am := MatF.toMatrix m n A
    let U := MatF.toMatrix m k Us
    let V := MatF.toMatrix n k (backsubV m k A Us sinv)
    let Sg : Matrix (Fin k) (Fin k) 𝕜 := diagonal (fun i : Fin k => ((sigma i.val : ℝ) : 𝕜))
    (∀ i, i < k → 0 < sigma i) ∧ Vᴴ * V = 1 ∧
    U * Sg * Vᴴ = (U * Uᴴ) * Am ∧
    Uᴴ * (Am - U * Sg * Vᴴ) = 0 ∧ (Am - U * Sg * Vᴴ) * V = 0 ∧
    (U * Uᴴ = 1 → U * Sg * Vᴴ = Am) :=
  krylov_wide_spec m n k A Us lam sigma sinv eigs_contract sqrt_contract inv_contract

/-- what the model's Krylov rule returns IS that formula: the specification side of the driver
(`specBack`, compared exactly with the operator code model on every case) is `backsubU` / `backsubV`
of the represented matrices, with `Sigma = sqrt(vals[pos])`, and the selected positions are those of
`get_slice` on the `W.cols` eigenpairs -/
theorem C16_krylov_model [DecidableEq 𝕜] (P : Params 𝕜) (eigs : Op 𝕜 → Eigs 𝕜) (forceTall : Bool)
    (A : Op 𝕜) (k : Int) (w : Which) (o : KrylovOut 𝕜)
    (h : svdKrylov P eigs forceTall A k w = .ok o) :
    positions o.j k w = .ok o.pos ∧ o.tall = (forceTall || decide (A.cols ≤ A.rows)) ∧
    o.triple.S.den.f = diagM (fun t => P.sqrt ((eigs o.G).vals (o.pos.getD t 0))) ∧
    o.specBack.f =
      (if o.tall then
        backsubU A.cols o.pos.length A.den.f o.triple.V.den.f
          (fun t => P.inv (P.sqrt ((eigs o.G).vals (o.pos.getD t 0))))
      else
        backsubV A.rows o.pos.length A.den.f o.triple.U.den.f
          (fun t => P.inv (P.sqrt ((eigs o.G).vals (o.pos.getD t 0))))) :=
  svdKrylov_spec P eigs forceTall A k w o h

/-! ## structural rules of `svd` -/

/-- **`svd(Identity)`** -/
theorem C16_svd_identity [DecidableEq 𝕜] (A : Op 𝕜) (dt : DType) (n : Nat) (hc : A.core = .eye dt n) :
    let T := svdIdentity A
    svdRule A .omitted = .identity ∧ (∀ alg, svdRule A alg = .identity) ∧
    MatF.toMatrix n n T.U.den.f = (1 : Matrix (Fin n) (Fin n) 𝕜) ∧
    MatF.toMatrix n n T.V.den.f = (1 : Matrix (Fin n) (Fin n) 𝕜) ∧
    MatF.toMatrix n n T.S.den.f = diagonal (fun _ : Fin n => (((1 : ℝ) : ℝ) : 𝕜)) ∧
    MatF.toMatrix n n T.U.den.f * MatF.toMatrix n n T.S.den.f * (MatF.toMatrix n n T.V.den.f)ᴴ =
      MatF.toMatrix n n A.den.f :=
  svdIdentity_spec A dt n hc

/-- **`svd(Diagonal)`.**  For every diagonal `d` (any signs / phases, zeros included):
`U = diag(phase d)` is unitary, `V = I`, `Σ = diag |d|` is real non-negative and `U Σ Vᴴ = A`.
`abs_contract`, `inv_contract`: the parameters are the modulus and the reciprocal. -/
theorem C16_svd_diagonal [DecidableEq 𝕜] (P : Params 𝕜)
    (abs_contract : ∀ z : 𝕜, P.abs z = ((‖z‖ : ℝ) : 𝕜)) (inv_contract : ∀ z : 𝕜, P.inv z = z⁻¹)
    (A : Op 𝕜) (dt : DType) (n : Nat) (d : Nat → 𝕜) (hc : A.core = .diag dt n d) :
    let T := svdDiagonal P A
    let U := MatF.toMatrix n n T.U.den.f
    let Sg := MatF.toMatrix n n T.S.den.f
    let V := MatF.toMatrix n n T.V.den.f
    (∀ alg, svdRule A alg = .diagonal) ∧
    Uᴴ * U = 1 ∧ U * Uᴴ = 1 ∧ V = 1 ∧
    Sg = diagonal (fun i : Fin n => ((‖d i.val‖ : ℝ) : 𝕜)) ∧ (∀ i : Fin n, 0 ≤ ‖d i.val‖) ∧
    U * Sg * Vᴴ = MatF.toMatrix n n A.den.f :=
  svdDiagonal_spec P abs_contract inv_contract A dt n d hc

/-! ## pinv: least squares -/

section lsq
variable {m n : Type} [Fintype m] [Fintype n] [DecidableEq m] [DecidableEq n]

/-- **normal equations ⟹ least squares** (`lsq_normal`): `Aᴴ (A x − b) = 0 → ∀ y, ‖A x − b‖ ≤ ‖A y − b‖`,
and conversely -/
theorem C16_lsq_normal (A : Matrix m n 𝕜) (b : EuclideanSpace 𝕜 m) (x : EuclideanSpace 𝕜 n) :
    lin Aᴴ (lin A x - b) = 0 ↔ ∀ y, ‖lin A x - b‖ ≤ ‖lin A y - b‖ :=
  ⟨fun h => lsq_of_normal (lin A) (lin Aᴴ) (isAdj_lin A) b x h,
   fun h => normal_of_lsq (lin A) (lin Aᴴ) (isAdj_lin A) b x h⟩

/-- **minimum norm**: a solution of the normal equations that lies in `range Aᴴ` has the least norm
among ALL least-squares solutions -/
theorem C16_min_norm (A : Matrix m n 𝕜) (b : EuclideanSpace 𝕜 m) (x : EuclideanSpace 𝕜 n)
    (w : EuclideanSpace 𝕜 m) (normal : lin Aᴴ (lin A x - b) = 0) (in_range : x = lin Aᴴ w) :
    (∀ y, ‖lin A x - b‖ ≤ ‖lin A y - b‖) ∧
    ∀ y, (∀ z, ‖lin A y - b‖ ≤ ‖lin A z - b‖) → ‖x‖ ≤ ‖y‖ :=
  minNormLsq_of_normal_range (lin A) (lin Aᴴ) (isAdj_lin A) b x w normal in_range

/-- the minimum-norm least-squares solution is unique -/
theorem C16_min_norm_unique (A : Matrix m n 𝕜) (b : EuclideanSpace 𝕜 m) (x x' : EuclideanSpace 𝕜 n)
    (hx : IsMinNormLsq (lin A) b x) (hx' : IsMinNormLsq (lin A) b x') : x = x' :=
  minNormLsq_unique (lin A) (lin Aᴴ) (isAdj_lin A) b x x' hx hx'

/-- **full column rank** (`Aᴴ A` invertible, inverse `G`): `x = (Aᴴ A)⁻¹ Aᴴ b` satisfies
`Aᴴ (A x − b) = 0` and is the minimum-norm least-squares solution -/
theorem C16_pinv_full_column_rank (A : Matrix m n 𝕜) (G : Matrix n n 𝕜)
    (full_column_rank : (Aᴴ * A) * G = 1) (b : EuclideanSpace 𝕜 m) :
    lin Aᴴ (lin A (lin (G * Aᴴ) b) - b) = 0 ∧ IsMinNormLsq (lin A) b (lin (G * Aᴴ) b) :=
  pinv_tall A G full_column_rank b

/-- **full row rank** (`A Aᴴ` invertible, inverse `G`): `x = Aᴴ (A Aᴴ)⁻¹ b` solves `A x = b` and
is the minimum-norm (least-squares) solution -/
theorem C16_pinv_full_row_rank (A : Matrix m n 𝕜) (G : Matrix m m 𝕜)
    (full_row_rank : (A * Aᴴ) * G = 1) (b : EuclideanSpace 𝕜 m) :
    lin A (lin (Aᴴ * G) b) = b ∧ IsMinNormLsq (lin A) b (lin (Aᴴ * G) b) :=
  pinv_wide A G full_row_rank b

end lsq

/-! ## pinv: the rules -/

/-- **rule selection** of `pinv` -/
theorem C16_pinv_rule [DecidableEq 𝕜] (A : Op 𝕜) :
    (∀ alg, pinvRule A alg = .structural ↔
      ((∃ dt n, A.core = .eye dt n) ∨ (∃ dt c n, A.core = .scalar dt c n) ∨
       (∃ dt n d, A.core = .diag dt n d) ∨ (∃ dt p, A.core = .perm dt p))) ∧
    (pinvRule A .omitted = pinvRule A .auto) ∧
    (pinvRule A .auto ≠ .structural →
      (pinvRule A .auto = .lstsq ↔ A.rows * A.cols ≤ 1000000) ∧
      pinvRule A .lstsq = .lstsq ∧ pinvRule A .cg = .cg) :=
  pinvRule_spec A

/-- **the reciprocal rules** (Identity, ScalarMul, Diagonal, Permutation).  Full rank: the scalar /
every diagonal entry is non-zero; `Permutation`'s well-formedness: `p` is a permutation of
`0 … n-1`.  The operator the rule builds is the two-sided inverse, so `pinv(A) @ b = A⁻¹ b` is the
(unique) minimum-norm least-squares solution. -/
theorem C16_pinv_structural [DecidableEq 𝕜] (P : Params 𝕜) (hinv : ∀ z : 𝕜, P.inv z = z⁻¹)
    (A : Op 𝕜) (n : Nat)
    (full_rank :
      (∃ dt, A.core = .eye dt n) ∨ (∃ dt c, A.core = .scalar dt c n ∧ c ≠ 0) ∨
      (∃ dt d, A.core = .diag dt n d ∧ ∀ i, i < n → d i ≠ 0) ∨
      (∃ dt p, A.core = .perm dt p ∧ p.Perm (List.range n))) (alg : PAlg) :
    ∃ B, pinv P A alg = .op B ∧ B.rows = n ∧ B.cols = n ∧
      MatF.toMatrix n n B.den.f * MatF.toMatrix n n A.den.f = 1 ∧
      MatF.toMatrix n n A.den.f * MatF.toMatrix n n B.den.f = 1 ∧
      ∀ b : EuclideanSpace 𝕜 (Fin n),
        lin (MatF.toMatrix n n A.den.f) (lin (MatF.toMatrix n n B.den.f) b) = b ∧
        IsMinNormLsq (lin (MatF.toMatrix n n A.den.f)) b (lin (MatF.toMatrix n n B.den.f) b) :=
  pinvStructural_spec P hinv A n full_rank alg

/-- **`pinv(A, CG)`.**  `gram`: `A.H @ A` is the operator `M` (`shapes`: it is square and fits
`A.H` — true for every well-formed `A`).  The rule builds
`PSD(IterativeOperatorWInfo(A.H @ A, CG) + cons * I) @ A.H` with
`cons = get_precision(dtype) * max(rows, cols)`, for every dtype. -/
theorem C16_pinv_cg [DecidableEq 𝕜] (P : Params 𝕜) (A : Op 𝕜) (M : Op 𝕜)
    (gram : Ex.dotRule A.adjointRule A = .ok (.op M))
    (shapes : (M.rows != M.cols || M.cols != A.adjointRule.rows) = false) :
    ∃ c, pinvCG P A = .cg c ∧ c.M = M ∧ c.AH = A.adjointRule ∧
      c.cons = P.precision A.dtype * ((max A.rows A.cols : Nat) : 𝕜) ∧
      c.reg = .prod [.scalar M.dtype c.cons M.rows, .eye M.dtype M.rows] ∧
      c.tail = (if Ex.isIdentity A.adjointRule then []
        else (Ex.prodMembers A.adjointRule).getD [A.adjointRule]) :=
  pinvCG_spec P A M gram shapes

/-- the hypotheses are satisfiable non-trivially (a tall complex-dtype operator) -/
example : ∃ (A M : Op ℂ), Ex.dotRule A.adjointRule A = .ok (.op M) ∧
    (M.rows != M.cols || M.cols != A.adjointRule.rows) = false ∧ A.dtype.isComplex = true ∧
    A.rows ≠ A.cols := by
  refine ⟨.dense .c128 2 1 (fun _ _ => 1),
    .prod [.dense .c128 1 2 (conjM (transposeM (fun _ _ => 1))), .dense .c128 2 1 (fun _ _ => 1)],
    ?_, ?_, ?_, ?_⟩
  · simp [Op.adjointRule, Op.core, Ex.dotRule, Ex.isIdentity, Ex.prodMembers, Ex.mkProd,
      Op.chainOk, Op.rows, Op.cols]
  · simp [Op.adjointRule, Op.core, Op.rows, Op.cols]
  · simp [Op.dtype, DType.isComplex]
  · simp [Op.rows, Op.cols]

/-- **what the CG rule computes**, column by column: for a right-hand side `B` (`m × nb`), with the
solver's output `X0 = solve(Aᴴ B)`, the rule returns `X0 + cons · Aᴴ B`.  If, for column `j`, the
solver's contract holds (`Aᴴ A x₀ = Aᴴ b`: converged; `x₀` in the Krylov space of `(Aᴴ A, Aᴴ b)`: CG
started at `0`), then `x₀` is the minimum-norm least-squares solution of `A x = b` — whatever the
shape and the rank of `A` — and the returned column is `x₀ + cons · Aᴴ b`. -/
theorem C16_pinv_cg_value (m n nb : Nat) (A B : MatF 𝕜) (solve : MatF 𝕜 → MatF 𝕜) (cons : 𝕜)
    (j : Nat) (d : Nat) (c : Nat → 𝕜) :
    let Am := MatF.toMatrix m n A
    let AH : MatF 𝕜 := conjM (transposeM A)
    let b := colE m B j
    let x0 := colE n (solve (mmul m AH B)) j
    let x := colE n (cgPinvApply solve n m nb AH cons B) j
    x = x0 + cons • lin Amᴴ b ∧
    (lin (Amᴴ * Am) x0 = lin Amᴴ b →
      x0 = ∑ t ∈ Finset.range d, c t • lin ((Amᴴ * Am) ^ t) (lin Amᴴ b) →
      IsMinNormLsq (lin Am) b x0 ∧ ‖x - x0‖ = ‖cons‖ * ‖lin Amᴴ b‖) :=
  cgPinvApply_spec m n nb A B solve cons j d c

/-! # Round 2 -/

/-! ## DenseSVD: order of the singular values -/

/-- **DenseSVD returns ascending singular values.**  `lt_contract`: the comparison of the sort is `<`
on the reals (CONTRACT of `xnp.argsort` on a real array). -/
theorem C16_svd_dense_sorted [DecidableEq 𝕜] (P : Params 𝕜) (A : Op 𝕜) (s : Nat → ℝ)
    (hs : ∀ i, i < min A.rows A.cols → (P.lapackSvd A.rows A.cols A.td.f).s i = ((s i : ℝ) : 𝕜))
    (lt_contract : ∀ a b : ℝ, P.lt ((a : ℝ) : 𝕜) ((b : ℝ) : 𝕜) = decide (a < b)) :
    let idx := (svdDense P A).1
    ∀ i j, i ≤ j → j < idx.length → s (idx.getD i 0) ≤ s (idx.getD j 0) :=
  svdDense_sorted P A s hs lt_contract

/-! ## the Krylov rules: the operators the model returns -/

/-- **THE LINK, branch `A.H @ A`** (`Lanczos` with `n ≤ m`; `LOBPCG` always).  For the output `o` of
the model's rule: the Gram operator it handed to the eigensolver represents `Aᴴ A`; `V` is the
selected columns; `U = (A @ V @ inv(Sigma)).to_dense()`; and the triple is a (truncated) SVD.
`eigs_contract` (CONTRACT of the eigensolver, C14): the selected columns of the operator it returned
are orthonormal eigenvectors of the matrix the Gram operator represents, with positive eigenvalues
`lam`.  `A_good` = C01's hypotheses, `A_real` = C05's (`dtype` real ⇒ entries real). -/
theorem C16_svd_krylov_tall [DecidableEq 𝕜] (P : Params 𝕜) (eigs : Op 𝕜 → Eigs 𝕜) (forceTall : Bool)
    (A : Op 𝕜) (k : Nat) (w : Which) (o : KrylovOut 𝕜)
    (h : svdKrylov P eigs forceTall A (k : Int) w = .ok o) (htall : o.tall = true)
    (A_good : Op.Good A) (A_real : A.RealTyped) (W_good : Op.Good (eigs o.G).W) (lam : Nat → ℝ)
    (eigs_contract :
      let Vs := MatF.toMatrix A.cols o.pos.length (selCols (eigs o.G).W.den.f o.pos)
      Vsᴴ * Vs = 1 ∧
      MatF.toMatrix A.cols A.cols o.G.den.f * Vs =
        Vs * diagonal (fun i : Fin o.pos.length => ((lam i.val : ℝ) : 𝕜)) ∧
      ∀ t, t < o.pos.length → (eigs o.G).vals (o.pos.getD t 0) = ((lam t : ℝ) : 𝕜) ∧ 0 < lam t)
    (sqrt_contract : ∀ t, t < o.pos.length → P.sqrt ((lam t : ℝ) : 𝕜) = ((Real.sqrt (lam t) : ℝ) : 𝕜))
    (inv_contract : ∀ z : 𝕜, P.inv z = z⁻¹) :
    let Am := MatF.toMatrix A.rows A.cols A.den.f
    let U := MatF.toMatrix A.rows o.pos.length o.triple.U.den.f
    let Sg := MatF.toMatrix o.pos.length o.pos.length o.triple.S.den.f
    let V := MatF.toMatrix A.cols o.pos.length o.triple.V.den.f
    MatF.toMatrix A.cols A.cols o.G.den.f = Amᴴ * Am ∧
    Uᴴ * U = 1 ∧ Vᴴ * V = 1 ∧
    Sg = diagonal (fun i : Fin o.pos.length => ((Real.sqrt (lam i.val) : ℝ) : 𝕜)) ∧
    (∀ t, t < o.pos.length → 0 < Real.sqrt (lam t)) ∧
    U * Sg * Vᴴ = Am * (V * Vᴴ) ∧
    (Am - U * Sg * Vᴴ) * V = 0 ∧ Uᴴ * (Am - U * Sg * Vᴴ) = 0 ∧
    (V * Vᴴ = 1 → U * Sg * Vᴴ = Am) :=
  svdKrylov_tall_sound P eigs forceTall A k w o h htall A_good A_real W_good lam eigs_contract
    sqrt_contract inv_contract

/-- **THE LINK, branch `A @ A.H`** (`Lanczos`, `m < n`): `U` is the selected columns,
`V = (inv(Sigma) @ U.H @ A).to_dense().conj().T` (with the conjugation). -/
theorem C16_svd_krylov_wide [DecidableEq 𝕜] (P : Params 𝕜) (eigs : Op 𝕜 → Eigs 𝕜) (forceTall : Bool)
    (A : Op 𝕜) (k : Nat) (w : Which) (o : KrylovOut 𝕜)
    (h : svdKrylov P eigs forceTall A (k : Int) w = .ok o) (hwide : o.tall = false)
    (A_good : Op.Good A) (A_real : A.RealTyped) (W_good : Op.Good (eigs o.G).W) (lam : Nat → ℝ)
    (eigs_contract :
      let Us := MatF.toMatrix A.rows o.pos.length (selCols (eigs o.G).W.den.f o.pos)
      Usᴴ * Us = 1 ∧
      MatF.toMatrix A.rows A.rows o.G.den.f * Us =
        Us * diagonal (fun i : Fin o.pos.length => ((lam i.val : ℝ) : 𝕜)) ∧
      ∀ t, t < o.pos.length → (eigs o.G).vals (o.pos.getD t 0) = ((lam t : ℝ) : 𝕜) ∧ 0 < lam t)
    (sqrt_contract : ∀ t, t < o.pos.length → P.sqrt ((lam t : ℝ) : 𝕜) = ((Real.sqrt (lam t) : ℝ) : 𝕜))
    (inv_contract : ∀ z : 𝕜, P.inv z = z⁻¹) :
    let Am := MatF.toMatrix A.rows A.cols A.den.f
    let U := MatF.toMatrix A.rows o.pos.length o.triple.U.den.f
    let Sg := MatF.toMatrix o.pos.length o.pos.length o.triple.S.den.f
    let V := MatF.toMatrix A.cols o.pos.length o.triple.V.den.f
    MatF.toMatrix A.rows A.rows o.G.den.f = Am * Amᴴ ∧
    Uᴴ * U = 1 ∧ Vᴴ * V = 1 ∧
    Sg = diagonal (fun i : Fin o.pos.length => ((Real.sqrt (lam i.val) : ℝ) : 𝕜)) ∧
    (∀ t, t < o.pos.length → 0 < Real.sqrt (lam t)) ∧
    U * Sg * Vᴴ = (U * Uᴴ) * Am ∧
    Uᴴ * (Am - U * Sg * Vᴴ) = 0 ∧ (Am - U * Sg * Vᴴ) * V = 0 ∧
    (U * Uᴴ = 1 → U * Sg * Vᴴ = Am) :=
  svdKrylov_wide_sound P eigs forceTall A k w o h hwide A_good A_real W_good lam eigs_contract
    sqrt_contract inv_contract

/-- what the model returns is — entry by entry on its window — the formula of `C16_krylov_tall` /
`_wide` (the driver's per-case `back_eq`, now a theorem) and the sliced eigenvector operator -/
theorem C16_svd_krylov_link [DecidableEq 𝕜] (P : Params 𝕜) (eigs : Op 𝕜 → Eigs 𝕜) (forceTall : Bool)
    (A : Op 𝕜) (k : Nat) (w : Which) (o : KrylovOut 𝕜)
    (h : svdKrylov P eigs forceTall A (k : Int) w = .ok o)
    (A_good : Op.Good A) (W_good : Op.Good (eigs o.G).W) :
    (o.tall = true →
      EqOn A.cols o.pos.length o.triple.V.den.f (selCols (eigs o.G).W.den.f o.pos) ∧
      EqOn A.rows o.pos.length o.triple.U.den.f
        (backsubU A.cols o.pos.length A.den.f o.triple.V.den.f
          (fun t => P.inv (P.sqrt ((eigs o.G).vals (o.pos.getD t 0)))))) ∧
    (o.tall = false →
      EqOn A.rows o.pos.length o.triple.U.den.f (selCols (eigs o.G).W.den.f o.pos) ∧
      EqOn A.cols o.pos.length o.triple.V.den.f
        (backsubV A.rows o.pos.length A.den.f o.triple.U.den.f
          (fun t => P.inv (P.sqrt ((eigs o.G).vals (o.pos.getD t 0)))))) :=
  ⟨fun ht => let r := svdKrylov_tall_link P eigs forceTall A k w o h ht A_good W_good
    ⟨r.2.2.2.2.2.1, r.2.2.2.2.2.2⟩,
   fun hw => let r := svdKrylov_wide_link P eigs forceTall A k w o h hw A_good W_good
    ⟨r.2.2.2.2.2.1, r.2.2.2.2.2.2⟩⟩

/-- **the Krylov rules return** (no shape assertion fails, the slice exists) whenever the eigensolver's
eigenvector operator is well-formed and has as many rows as the Gram operator -/
theorem C16_svd_krylov_total [DecidableEq 𝕜] (P : Params 𝕜) (eigs : Op 𝕜 → Eigs 𝕜) (forceTall : Bool)
    (A : Op 𝕜) (k : Nat) (w : Which) (hw : w = .LM ∨ w = .SM)
    (A_good : Op.Good A) (A_real : A.RealTyped)
    (W_shape : ∀ G, Op.Good (eigs G).W ∧ (eigs G).W.rows = G.rows) :
    ∃ o, svdKrylov P eigs forceTall A (k : Int) w = .ok o :=
  svdKrylov_total P eigs forceTall A k w hw A_good A_real W_shape

/-- `svd(A, k, which, Lanczos(…))` IS that rule (its `triple`) -/
theorem C16_svd_lanczos_iff [DecidableEq 𝕜] (P : Params 𝕜) (A : Op 𝕜) (k : Int) (w : Which)
    (T : Triple 𝕜) (hr : svdRule A .lanczos = .lanczos) :
    svd P A k w .lanczos = .ok T ↔
      ∃ o, svdKrylov P P.lanczosEigs false A k w = .ok o ∧ o.triple = T :=
  svd_lanczos_iff P A k w T hr

/-- **non-vacuity**: on `A = [[0, 2], [1, 0]]` (not diagonal, not the identity) with an exact
eigensolver every hypothesis of `C16_svd_krylov_tall` holds, the rule returns, and the returned triple
has `Uᴴ U = 1`, `Vᴴ V = 1`, `U Σ Vᴴ = A` -/
theorem C16_svd_krylov_witness :
    ∃ o, svdKrylov Witness.P Witness.eigs false Witness.A ((2 : Nat) : Int) .LM = .ok o ∧
      o.tall = true ∧ o.pos = [0, 1] ∧
      (MatF.toMatrix 2 2 o.triple.U.den.f)ᴴ * MatF.toMatrix 2 2 o.triple.U.den.f = 1 ∧
      (MatF.toMatrix 2 2 o.triple.V.den.f)ᴴ * MatF.toMatrix 2 2 o.triple.V.den.f = 1 ∧
      MatF.toMatrix 2 2 o.triple.U.den.f * MatF.toMatrix 2 2 o.triple.S.den.f *
        (MatF.toMatrix 2 2 o.triple.V.den.f)ᴴ = MatF.toMatrix 2 2 Witness.A.den.f :=
  Witness.sound

/-! ## partial runs: Ritz pairs -/

/-- **partial Lanczos run, branch `A.H @ A`.**  `ritz_contract` (CONTRACT of a Lanczos run that stops
before the Gram dimension): the selected columns satisfy only the Galerkin condition
`Vᴴ (Aᴴ A) V = diag λ`, `λ > 0`.  That already gives orthonormal columns of `U = A V Σ⁻¹` and the
residual identity `U Σ Vᴴ = A V Vᴴ`; with `Vᴴ V = 1` the remainder annihilates `V`. -/
theorem C16_krylov_tall_ritz (m n k : Nat) (A Vs : MatF 𝕜) (lam sigma : Nat → ℝ) (sinv : Nat → 𝕜)
    (ritz_contract :
      (MatF.toMatrix n k Vs)ᴴ * ((MatF.toMatrix m n A)ᴴ * MatF.toMatrix m n A) * MatF.toMatrix n k Vs =
        diagonal (fun i : Fin k => ((lam i.val : ℝ) : 𝕜)) ∧
      ∀ i, i < k → 0 < lam i)
    (sqrt_contract : ∀ i, i < k → sigma i = Real.sqrt (lam i))
    (inv_contract : ∀ i, i < k → sinv i = (((sigma i)⁻¹ : ℝ) : 𝕜)) :
    let Am := MatF.toMatrix m n A
    let V := MatF.toMatrix n k Vs
    let U := MatF.toMatrix m k (backsubU n k A Vs sinv)
    let Sg : Matrix (Fin k) (Fin k) 𝕜 := diagonal (fun i : Fin k => ((sigma i.val : ℝ) : 𝕜))
    (∀ i, i < k → 0 < sigma i) ∧ Uᴴ * U = 1 ∧
    U * Sg * Vᴴ = Am * (V * Vᴴ) ∧
    (Vᴴ * V = 1 → (Am - U * Sg * Vᴴ) * V = 0) :=
  krylov_tall_ritz_spec m n k A Vs lam sigma sinv ritz_contract sqrt_contract inv_contract

/-- **partial Lanczos run, branch `A @ A.H`** -/
theorem C16_krylov_wide_ritz (m n k : Nat) (A Us : MatF 𝕜) (lam sigma : Nat → ℝ) (sinv : Nat → 𝕜)
    (ritz_contract :
      (MatF.toMatrix m k Us)ᴴ * (MatF.toMatrix m n A * (MatF.toMatrix m n A)ᴴ) * MatF.toMatrix m k Us =
        diagonal (fun i : Fin k => ((lam i.val : ℝ) : 𝕜)) ∧
      ∀ i, i < k → 0 < lam i)
    (sqrt_contract : ∀ i, i < k → sigma i = Real.sqrt (lam i))
    (inv_contract : ∀ i, i < k → sinv i = (((sigma i)⁻¹ : ℝ) : 𝕜)) :
    let Am := MatF.toMatrix m n A
    let U := MatF.toMatrix m k Us
    let V := MatF.toMatrix n k (backsubV m k A Us sinv)
    let Sg : Matrix (Fin k) (Fin k) 𝕜 := diagonal (fun i : Fin k => ((sigma i.val : ℝ) : 𝕜))
    (∀ i, i < k → 0 < sigma i) ∧ Vᴴ * V = 1 ∧
    U * Sg * Vᴴ = (U * Uᴴ) * Am ∧
    (Uᴴ * U = 1 → Uᴴ * (Am - U * Sg * Vᴴ) = 0) :=
  krylov_wide_ritz_spec m n k A Us lam sigma sinv ritz_contract sqrt_contract inv_contract

/-! ## the Moore–Penrose inverse -/

section mp
variable {m n k : Type} [Fintype m] [Fintype n] [Fintype k] [DecidableEq m] [DecidableEq n]
  [DecidableEq k]

/-- the four Penrose equations determine `X` -/
theorem C16_moore_penrose_unique (A : Matrix m n 𝕜) (X Y : Matrix n m 𝕜)
    (hX : IsMoorePenrose A X) (hY : IsMoorePenrose A Y) : X = Y := hX.unique hY

/-- **pinv from an SVD.**  For ANY thin SVD `A = U Σ Vᴴ` (orthonormal columns, real diagonal `Σ`, zero
singular values allowed — `0⁻¹ = 0` in Lean is `0⁺ = 0`), `X = V Σ⁺ Uᴴ` satisfies the four
Moore–Penrose equations, and `X b` is the minimum-norm least-squares solution of `A x = b`. -/
theorem C16_pinv_from_svd (U : Matrix m k 𝕜) (V : Matrix n k 𝕜) (σ : k → ℝ)
    (hU : Uᴴ * U = 1) (hV : Vᴴ * V = 1) :
    let A := U * (rdiag σ : Matrix k k 𝕜) * Vᴴ
    let X := V * (rdiag (fun i => (σ i)⁻¹) : Matrix k k 𝕜) * Uᴴ
    A * X * A = A ∧ X * A * X = X ∧ (A * X)ᴴ = A * X ∧ (X * A)ᴴ = X * A ∧
    ∀ b, IsMinNormLsq (lin A) b (lin X b) := by
  intro A X
  have h := IsMoorePenrose.of_svd U V σ hU hV
  exact ⟨h.axa, h.xax, h.ax_herm, h.xa_herm, fun b => h.minNormLsq b⟩

/-- **the closed forms are the Moore–Penrose inverse**: `(Aᴴ A)⁻¹ Aᴴ` (full column rank),
`Aᴴ (A Aᴴ)⁻¹` (full row rank), `A⁻¹` (square) -/
theorem C16_pinv_full_rank_mp (A : Matrix m n 𝕜) :
    (∀ G : Matrix n n 𝕜, (Aᴴ * A) * G = 1 → IsMoorePenrose A (G * Aᴴ)) ∧
    (∀ G : Matrix m m 𝕜, (A * Aᴴ) * G = 1 → IsMoorePenrose A (Aᴴ * G)) ∧
    (∀ (S B : Matrix n n 𝕜), B * S = 1 → S * B = 1 → IsMoorePenrose S B) :=
  ⟨fun G hG => IsMoorePenrose.of_full_column_rank A G hG,
   fun G hG => IsMoorePenrose.of_full_row_rank A G hG,
   fun _ _ h1 h2 => IsMoorePenrose.of_inverse h1 h2⟩

/-- the Moore–Penrose inverse applied to `b` is THE minimum-norm least-squares solution, and every
minimum-norm least-squares solution is obtained this way -/
theorem C16_moore_penrose_lsq (A : Matrix m n 𝕜) (X : Matrix n m 𝕜) (hX : IsMoorePenrose A X)
    (b : EuclideanSpace 𝕜 m) :
    IsMinNormLsq (lin A) b (lin X b) ∧ ∀ x, IsMinNormLsq (lin A) b x → x = lin X b :=
  ⟨hX.minNormLsq b, fun x hx => hX.eq_apply_of_minNormLsq b x hx⟩

end mp

/-- **pinv from the triple DenseSVD returns**: under `lapack_contract` (CONTRACT) the matrix
`V Σ⁺ Uᴴ` built from the returned factors is the Moore–Penrose inverse of the matrix `A` represents -/
theorem C16_pinv_from_svd_dense [DecidableEq 𝕜] (P : Params 𝕜) (A : Op 𝕜)
    (A_good : A.wf = true ∧ A.dupSlice = false ∧ A.HermOK) (s : Nat → ℝ)
    (lapack_contract :
      let o := P.lapackSvd A.rows A.cols A.td.f
      let r := min A.rows A.cols
      let U1 := MatF.toMatrix A.rows r o.U
      let V1 := MatF.toMatrix A.cols r o.V
      (∀ i, i < r → o.s i = ((s i : ℝ) : 𝕜) ∧ 0 ≤ s i) ∧ U1ᴴ * U1 = 1 ∧ V1ᴴ * V1 = 1 ∧
        U1 * diagonal (fun i : Fin r => o.s i.val) * V1ᴴ = MatF.toMatrix A.rows A.cols A.td.f) :
    let res := svdDense P A
    let idx := res.1
    let k := idx.length
    let U := MatF.toMatrix A.rows k res.2.U.den.f
    let V := MatF.toMatrix A.cols k res.2.V.den.f
    IsMoorePenrose (MatF.toMatrix A.rows A.cols A.den.f)
      (V * (rdiag (fun i : Fin k => (s (idx.getD i.val 0))⁻¹) : Matrix (Fin k) (Fin k) 𝕜) * Uᴴ) := by
  intro res idx k U V
  obtain ⟨_, _, _, _, _, _, hU, hV, hS, _, hrec⟩ := svdDense_spec P A A_good s lapack_contract
  have h := IsMoorePenrose.of_svd (𝕜 := 𝕜) U V (fun i : Fin k => s (idx.getD i.val 0)) hU hV
  have e : U * (rdiag (fun i : Fin k => s (idx.getD i.val 0)) : Matrix (Fin k) (Fin k) 𝕜) * Vᴴ =
      MatF.toMatrix A.rows A.cols A.den.f := by
    rw [← hrec, hS]; rfl
  rw [e] at h
  exact h

/-- **the reciprocal rules build the Moore–Penrose inverse** (Identity, ScalarMul, Diagonal,
Permutation; full rank) -/
theorem C16_pinv_structural_mp [DecidableEq 𝕜] (P : Params 𝕜) (hinv : ∀ z : 𝕜, P.inv z = z⁻¹)
    (A : Op 𝕜) (n : Nat)
    (full_rank :
      (∃ dt, A.core = .eye dt n) ∨ (∃ dt c, A.core = .scalar dt c n ∧ c ≠ 0) ∨
      (∃ dt d, A.core = .diag dt n d ∧ ∀ i, i < n → d i ≠ 0) ∨
      (∃ dt p, A.core = .perm dt p ∧ p.Perm (List.range n))) (alg : PAlg) :
    ∃ B, pinv P A alg = .op B ∧
      IsMoorePenrose (MatF.toMatrix n n A.den.f) (MatF.toMatrix n n B.den.f) := by
  obtain ⟨B, hB, _, _, h1, h2, _⟩ := pinvStructural_spec P hinv A n full_rank alg
  exact ⟨B, hB, IsMoorePenrose.of_inverse h1 h2⟩

/-! ## pinv: the CG rule at full rank, the LSTSQ rule -/

/-- **`pinv(A, CG) @ b` at full rank.**  `x = cgPinvApply …` is what the rule computes (column `j`),
`x₀` the solver's output.  CG CONTRACT (C12): `hsolve` — the normal equations are solved;
`hkrylov` — the iterate lies in the Krylov space of `(Aᴴ A, Aᴴ b)`.
* full column rank (`Aᴴ A` invertible, inverse `G`; `hsolve` suffices):
  `x = (Aᴴ A)⁻¹ Aᴴ b + cons · Aᴴ b`, and `(Aᴴ A)⁻¹ Aᴴ` is the Moore–Penrose inverse;
* full row rank (`A Aᴴ` invertible; the system `Aᴴ A x = Aᴴ b` is singular, `hkrylov` picks the
  solution): `x = Aᴴ (A Aᴴ)⁻¹ b + cons · Aᴴ b`, and `Aᴴ (A Aᴴ)⁻¹` is the Moore–Penrose inverse. -/
theorem C16_pinv_cg_full_rank (m n nb : Nat) (A B : MatF 𝕜) (solve : MatF 𝕜 → MatF 𝕜) (cons : 𝕜)
    (j : Nat) :
    let Am := MatF.toMatrix m n A
    let AH : MatF 𝕜 := conjM (transposeM A)
    let b := colE m B j
    let x0 := colE n (solve (mmul m AH B)) j
    let x := colE n (cgPinvApply solve n m nb AH cons B) j
    (∀ G : Matrix (Fin n) (Fin n) 𝕜, (Amᴴ * Am) * G = 1 → lin (Amᴴ * Am) x0 = lin Amᴴ b →
      x = lin (G * Amᴴ) b + cons • lin Amᴴ b ∧ IsMoorePenrose Am (G * Amᴴ)) ∧
    (∀ (G : Matrix (Fin m) (Fin m) 𝕜) (d : Nat) (c : Nat → 𝕜), (Am * Amᴴ) * G = 1 →
      lin (Amᴴ * Am) x0 = lin Amᴴ b →
      x0 = ∑ t ∈ Finset.range d, c t • lin ((Amᴴ * Am) ^ t) (lin Amᴴ b) →
      x = lin (Amᴴ * G) b + cons • lin Amᴴ b ∧ IsMoorePenrose Am (Amᴴ * G)) := by
  intro Am AH b x0 x
  have hx : x = x0 + cons • lin Amᴴ b := (cgPinvApply_spec m n nb A B solve cons j 0 (fun _ => 0)).1
  refine ⟨fun G hG hs => ?_, fun G d c hG hs hk => ?_⟩
  · obtain ⟨h1, h2⟩ := cg_full_column_rank Am G hG b x0 hs
    exact ⟨by rw [hx, ← h1], h2⟩
  · obtain ⟨h1, h2⟩ := cg_full_row_rank Am G hG b x0 d c hs hk
    exact ⟨by rw [hx, ← h1], h2⟩

/-- **`pinv(A, LSTSQ) @ B`.**  The rule returns `LSTSQSolve(A)` for every operator without a structural
rule; `lstsqApply` is its `_matmat`.  `lstsq_contract` (CONTRACT of `np.linalg.lstsq(M, B, rcond=None)`):
every column of the result is the minimum-norm least-squares solution for the array it is given.
Then every column of `pinv(A, LSTSQ) @ B` is the minimum-norm least-squares solution for the matrix `A`
represents, i.e. `A⁺ b` for the Moore–Penrose inverse `A⁺`. -/
theorem C16_pinv_lstsq [DecidableEq 𝕜] (P : Params 𝕜)
    (lstsq : Nat → Nat → MatF 𝕜 → Nat → MatF 𝕜 → MatF 𝕜) (A : Op 𝕜)
    (A_good : A.wf = true ∧ A.dupSlice = false ∧ A.HermOK) (nb : Nat) (B : MatF 𝕜)
    (lstsq_contract : ∀ j, j < nb →
      IsMinNormLsq (lin (MatF.toMatrix A.rows A.cols A.td.f)) (colE A.rows B j)
        (colE A.cols (lstsq A.rows A.cols A.td.f nb B) j)) :
    (pinvRule A .lstsq ≠ .structural → pinv P A .lstsq = .lstsq A) ∧
    ∀ j, j < nb →
      IsMinNormLsq (lin (MatF.toMatrix A.rows A.cols A.den.f)) (colE A.rows B j)
        (colE A.cols (lstsqApply lstsq A nb B) j) ∧
      ∀ X : Matrix (Fin A.cols) (Fin A.rows) 𝕜,
        IsMoorePenrose (MatF.toMatrix A.rows A.cols A.den.f) X →
        colE A.cols (lstsqApply lstsq A nb B) j = lin X (colE A.rows B j) := by
  refine ⟨fun hne => ?_, lstsqApply_spec lstsq A A_good nb B lstsq_contract⟩
  have h2 : pinvRule A .lstsq = .lstsq := by
    unfold pinvRule at hne ⊢
    split <;> first | rfl | (exfalso; apply hne; simp [*])
  unfold pinv
  rw [h2]

/-- `A_good` holds and a Moore–Penrose inverse exists for a `2 × 2` non-diagonal operand (this example contains no
`lstsq` function; the instance of `lstsq_contract` with a concrete `lstsq` is `C16_pinv_lstsq_witness` below) -/
example : ∃ (A : Op ℝ) (X : Matrix (Fin 2) (Fin 2) ℝ), A.rows = 2 ∧ A.cols = 2 ∧
    (A.wf = true ∧ A.dupSlice = false ∧ A.HermOK) ∧
    IsMoorePenrose (MatF.toMatrix 2 2 A.den.f) X ∧
    ∀ b : EuclideanSpace ℝ (Fin 2), IsMinNormLsq (lin (MatF.toMatrix 2 2 A.den.f)) b (lin X b) := by
  have hg := Witness.A_good
  have hA : MatF.toMatrix 2 2 Witness.A.den.f = !![0, 2; 1, 0] := by
    ext i j
    fin_cases i <;> fin_cases j <;> simp [MatF.toMatrix_apply, Witness.A, Witness.a, den_dense_f]
  have hmp : IsMoorePenrose (MatF.toMatrix 2 2 Witness.A.den.f) (!![0, 1; (1 / 2 : ℝ), 0]) := by
    rw [hA]
    apply IsMoorePenrose.of_inverse
    · ext i j; fin_cases i <;> fin_cases j <;> simp [Matrix.mul_apply, Fin.sum_univ_two]
    · ext i j; fin_cases i <;> fin_cases j <;> simp [Matrix.mul_apply, Fin.sum_univ_two]
  exact ⟨Witness.A, _, by simp [Witness.A, Op.rows], by simp [Witness.A, Op.cols],
    ⟨hg.wf, hg.nd, hg.herm⟩, hmp, fun b => hmp.minNormLsq b⟩

/-! ## the LOBPCG path: the recorded finding and the repaired selection -/

/-- the named clause (`Svd.lobpcgClauses`, printed by the driver; recorded in `known_findings.json`):
`k ≥ n` -/
theorem C16_lobpcg_clauses [DecidableEq 𝕜] (A : Op 𝕜) (k : Int) :
    "lobpcg-k-ge-n" ∈ lobpcgClauses A k ↔ (A.cols : Int) ≤ k := by
  unfold lobpcgClauses
  by_cases h2 : (A.cols : Int) ≤ k <;> simp [h2]

/-- the rule asks the eigensolver for the end of the spectrum that is wanted:
`lobpcg(A.H @ A, largest = (which == "LM"))` (repair 7c689b5) -/
theorem C16_lobpcg_largest_flag [DecidableEq 𝕜] (P : Params 𝕜) (A : Op 𝕜) (k : Int)
    (hr : svdRule A .lobpcg = .lobpcg) :
    svd P A k .LM .lobpcg = (svdKrylov P (P.lobpcgEigs true) true A k .LM).map (·.triple) ∧
    svd P A k .SM .lobpcg = (svdKrylov P (P.lobpcgEigs false) true A k .SM).map (·.triple) := by
  unfold svd
  rw [hr]
  exact ⟨rfl, rfl⟩

/-- **regression example for the repaired `'SM'` selection** (former clause `lobpcg-sm-not-smallest`).
`μ 0 < … < μ (n-1)`: the strictly ascending eigenvalues of the Gram matrix; `lobpcg` holds `n - 1` of
them.  `get_slice(k, 'SM')` selects positions `0 … k-1`.  With `largest = False` the block is
`t ↦ μ t` and the selected values are exactly the `k` smallest (every unselected eigenvalue is larger);
with the former block of the `n - 1` LARGEST, `t ↦ μ (t + 1)`, every selected value exceeded `μ 0`: the
smallest singular value was never returned. -/
theorem C16_lobpcg_sm_regression (n k : Nat) (hk1 : 1 ≤ k) (hkn : k ≤ n - 1) (mu : Nat → ℝ)
    (strict : ∀ i j, i < j → j < n → mu i < mu j) :
    ∃ pos, positions (n - 1) (k : Int) .SM = .ok pos ∧ pos = List.range k ∧ pos ≠ [] ∧
      (∀ p ∈ pos, ∀ q, q < n → q ∉ pos → mu p < mu q) ∧
      (∀ p ∈ pos, mu 0 < (fun t => mu (t + 1)) p) := by
  refine ⟨List.range (min k (n - 1)), positions_SM (n - 1) k, by rw [Nat.min_eq_left hkn], ?_, ?_, ?_⟩
  · rw [Nat.min_eq_left hkn]
    intro h
    have := congrArg List.length h
    simp at this
    omega
  · intro p hp q hq hnq
    rw [Nat.min_eq_left hkn, List.mem_range] at hp hnq
    exact strict p q (by omega) hq
  · intro p hp
    rw [Nat.min_eq_left hkn, List.mem_range] at hp
    exact strict 0 (p + 1) (by omega) (by omega)

/-- **clause `lobpcg-k-ge-n` is needed**: with only `n - 1` eigenpairs available, a request `k ≥ n`
(`'LM'`) yields `n - 1 < k` triplets -/
theorem C16_lobpcg_k_clause_needed (n k : Nat) (hn : 1 ≤ n) (hk : n ≤ k) :
    ∃ pos, positions (n - 1) (k : Int) .LM = .ok pos ∧ pos.length = n - 1 ∧ pos.length < k := by
  refine ⟨_, positions_LM (n - 1) k (by omega), ?_, ?_⟩
  · rw [List.length_range', Nat.min_eq_right (by omega)]
  · rw [List.length_range', Nat.min_eq_right (by omega)]; omega


/-! # Round 3 -/

/-! ## the eigenvector operator of the real eigensolvers is well-formed: `W_good` from shapes -/

/-- **`W_good` for the real shapes.**  `lanczos_eigs` returns `V = Q @ lazify(eigvectors[:, idx])`, i.e.
`Product(Orthonormal(Dense Q), Dense Y)` (`Orthonormal` = `Unitary` if square else `Stiefel`); `lobpcg` returns
`Dense(V)`.  For these shapes — no hypothesis beyond the shape itself: the inner dimension `j` is shared by
construction — C01's `Op.Good` holds: well-formed, no `Sliced` node, and no node reports `SelfAdjoint`. -/
theorem C16_lanczos_W_good [DecidableEq 𝕜] :
    (∀ (dq dy : DType) (r j c : Nat) (q y : MatF 𝕜),
      Op.Good (Op.prod [orthonormal (Op.dense dq r j q), Op.dense dy j c y])) ∧
    (∀ (dt : DType) (r c : Nat) (a : MatF 𝕜), Op.Good (Op.dense dt r c a)) ∧
    (∀ W : Op 𝕜, EigShape W → Op.Good W) :=
  ⟨good_lanczosW, good_dense', fun _ h => h.good⟩

/-- `C16_svd_krylov_tall` WITHOUT `W_good`: `W_shape` (the eigensolver's eigenvector operator has the shape
`lanczos_eigs` / `lobpcg` return — `Svd.EigShape`) replaces it -/
theorem C16_svd_krylov_tall_QY [DecidableEq 𝕜] (P : Params 𝕜) (eigs : Op 𝕜 → Eigs 𝕜) (forceTall : Bool)
    (A : Op 𝕜) (k : Nat) (w : Which) (o : KrylovOut 𝕜)
    (h : svdKrylov P eigs forceTall A (k : Int) w = .ok o) (htall : o.tall = true)
    (A_good : Op.Good A) (A_real : A.RealTyped) (W_shape : EigShape (eigs o.G).W) (lam : Nat → ℝ)
    (eigs_contract :
      let Vs := MatF.toMatrix A.cols o.pos.length (selCols (eigs o.G).W.den.f o.pos)
      Vsᴴ * Vs = 1 ∧
      MatF.toMatrix A.cols A.cols o.G.den.f * Vs =
        Vs * diagonal (fun i : Fin o.pos.length => ((lam i.val : ℝ) : 𝕜)) ∧
      ∀ t, t < o.pos.length → (eigs o.G).vals (o.pos.getD t 0) = ((lam t : ℝ) : 𝕜) ∧ 0 < lam t)
    (sqrt_contract : ∀ t, t < o.pos.length → P.sqrt ((lam t : ℝ) : 𝕜) = ((Real.sqrt (lam t) : ℝ) : 𝕜))
    (inv_contract : ∀ z : 𝕜, P.inv z = z⁻¹) :
    let Am := MatF.toMatrix A.rows A.cols A.den.f
    let U := MatF.toMatrix A.rows o.pos.length o.triple.U.den.f
    let Sg := MatF.toMatrix o.pos.length o.pos.length o.triple.S.den.f
    let V := MatF.toMatrix A.cols o.pos.length o.triple.V.den.f
    MatF.toMatrix A.cols A.cols o.G.den.f = Amᴴ * Am ∧
    Uᴴ * U = 1 ∧ Vᴴ * V = 1 ∧
    Sg = diagonal (fun i : Fin o.pos.length => ((Real.sqrt (lam i.val) : ℝ) : 𝕜)) ∧
    (∀ t, t < o.pos.length → 0 < Real.sqrt (lam t)) ∧
    U * Sg * Vᴴ = Am * (V * Vᴴ) ∧
    (Am - U * Sg * Vᴴ) * V = 0 ∧ Uᴴ * (Am - U * Sg * Vᴴ) = 0 ∧
    (V * Vᴴ = 1 → U * Sg * Vᴴ = Am) :=
  C16_svd_krylov_tall P eigs forceTall A k w o h htall A_good A_real W_shape.good lam eigs_contract
    sqrt_contract inv_contract

/-- `C16_svd_krylov_wide` WITHOUT `W_good` -/
theorem C16_svd_krylov_wide_QY [DecidableEq 𝕜] (P : Params 𝕜) (eigs : Op 𝕜 → Eigs 𝕜) (forceTall : Bool)
    (A : Op 𝕜) (k : Nat) (w : Which) (o : KrylovOut 𝕜)
    (h : svdKrylov P eigs forceTall A (k : Int) w = .ok o) (hwide : o.tall = false)
    (A_good : Op.Good A) (A_real : A.RealTyped) (W_shape : EigShape (eigs o.G).W) (lam : Nat → ℝ)
    (eigs_contract :
      let Us := MatF.toMatrix A.rows o.pos.length (selCols (eigs o.G).W.den.f o.pos)
      Usᴴ * Us = 1 ∧
      MatF.toMatrix A.rows A.rows o.G.den.f * Us =
        Us * diagonal (fun i : Fin o.pos.length => ((lam i.val : ℝ) : 𝕜)) ∧
      ∀ t, t < o.pos.length → (eigs o.G).vals (o.pos.getD t 0) = ((lam t : ℝ) : 𝕜) ∧ 0 < lam t)
    (sqrt_contract : ∀ t, t < o.pos.length → P.sqrt ((lam t : ℝ) : 𝕜) = ((Real.sqrt (lam t) : ℝ) : 𝕜))
    (inv_contract : ∀ z : 𝕜, P.inv z = z⁻¹) :
    let Am := MatF.toMatrix A.rows A.cols A.den.f
    let U := MatF.toMatrix A.rows o.pos.length o.triple.U.den.f
    let Sg := MatF.toMatrix o.pos.length o.pos.length o.triple.S.den.f
    let V := MatF.toMatrix A.cols o.pos.length o.triple.V.den.f
    MatF.toMatrix A.rows A.rows o.G.den.f = Am * Amᴴ ∧
    Uᴴ * U = 1 ∧ Vᴴ * V = 1 ∧
    Sg = diagonal (fun i : Fin o.pos.length => ((Real.sqrt (lam i.val) : ℝ) : 𝕜)) ∧
    (∀ t, t < o.pos.length → 0 < Real.sqrt (lam t)) ∧
    U * Sg * Vᴴ = (U * Uᴴ) * Am ∧
    Uᴴ * (Am - U * Sg * Vᴴ) = 0 ∧ (Am - U * Sg * Vᴴ) * V = 0 ∧
    (U * Uᴴ = 1 → U * Sg * Vᴴ = Am) :=
  C16_svd_krylov_wide P eigs forceTall A k w o h hwide A_good A_real W_shape.good lam eigs_contract
    sqrt_contract inv_contract

/-- `C16_svd_krylov_link` WITHOUT `W_good` -/
theorem C16_svd_krylov_link_QY [DecidableEq 𝕜] (P : Params 𝕜) (eigs : Op 𝕜 → Eigs 𝕜) (forceTall : Bool)
    (A : Op 𝕜) (k : Nat) (w : Which) (o : KrylovOut 𝕜)
    (h : svdKrylov P eigs forceTall A (k : Int) w = .ok o)
    (A_good : Op.Good A) (W_shape : EigShape (eigs o.G).W) :
    (o.tall = true →
      EqOn A.cols o.pos.length o.triple.V.den.f (selCols (eigs o.G).W.den.f o.pos) ∧
      EqOn A.rows o.pos.length o.triple.U.den.f
        (backsubU A.cols o.pos.length A.den.f o.triple.V.den.f
          (fun t => P.inv (P.sqrt ((eigs o.G).vals (o.pos.getD t 0)))))) ∧
    (o.tall = false →
      EqOn A.rows o.pos.length o.triple.U.den.f (selCols (eigs o.G).W.den.f o.pos) ∧
      EqOn A.cols o.pos.length o.triple.V.den.f
        (backsubV A.rows o.pos.length A.den.f o.triple.U.den.f
          (fun t => P.inv (P.sqrt ((eigs o.G).vals (o.pos.getD t 0)))))) :=
  C16_svd_krylov_link P eigs forceTall A k w o h A_good W_shape.good

/-- `C16_svd_krylov_total` with the shape instead of `Good`: the rule returns whenever the eigensolver returns an
operator of the real shape with as many rows as the Gram operator -/
theorem C16_svd_krylov_total_QY [DecidableEq 𝕜] (P : Params 𝕜) (eigs : Op 𝕜 → Eigs 𝕜) (forceTall : Bool)
    (A : Op 𝕜) (k : Nat) (w : Which) (hw : w = .LM ∨ w = .SM)
    (A_good : Op.Good A) (A_real : A.RealTyped)
    (W_shape : ∀ G, EigShape (eigs G).W ∧ (eigs G).W.rows = G.rows) :
    ∃ o, svdKrylov P eigs forceTall A (k : Int) w = .ok o :=
  C16_svd_krylov_total P eigs forceTall A k w hw A_good A_real
    (fun G => ⟨(W_shape G).1.good, (W_shape G).2⟩)

/-! ## the ORDER in the contracts: the `k` largest / smallest -/

/-- **the old contracts follow from the strengthened ones.**  `Svd.EigsSorted n j G W vals μ` (CONTRACT of
`lanczos_eigs` / `lobpcg` / `eigh`, full strength): ALL `j` returned columns are orthonormal eigenvectors of the
Gram matrix, the values are the reals `μ`, positive and ASCENDING.  For every duplicate-free selection `pos` of
returned positions it yields the `eigs_contract` of `C16_svd_krylov_tall` / `_wide` with `lam t = μ (pos[t])`.
`Svd.LapackSorted` (CONTRACT of `np.linalg.svd`: thin SVD, DESCENDING values) yields the `lapack_contract` of
`C16_svd_dense`. -/
theorem C16_contracts_of_sorted [DecidableEq 𝕜] :
    (∀ (n j : Nat) (G W : MatF 𝕜) (vals : Nat → 𝕜) (mu : Nat → ℝ), EigsSorted n j G W vals mu →
      ∀ pos : List Nat, (∀ t ∈ pos, t < j) → pos.Nodup →
        let Vs := MatF.toMatrix n pos.length (selCols W pos)
        Vsᴴ * Vs = 1 ∧
        MatF.toMatrix n n G * Vs =
          Vs * diagonal (fun i : Fin pos.length => ((mu (pos.getD i.val 0) : ℝ) : 𝕜)) ∧
        ∀ t, t < pos.length →
          vals (pos.getD t 0) = ((mu (pos.getD t 0) : ℝ) : 𝕜) ∧ 0 < mu (pos.getD t 0)) ∧
    (∀ (P : Params 𝕜) (A : Op 𝕜) (s : Nat → ℝ),
      LapackSorted A.rows A.cols A.td.f (P.lapackSvd A.rows A.cols A.td.f) s →
      let o := P.lapackSvd A.rows A.cols A.td.f
      let r := min A.rows A.cols
      let U1 := MatF.toMatrix A.rows r o.U
      let V1 := MatF.toMatrix A.cols r o.V
      (∀ i, i < r → o.s i = ((s i : ℝ) : 𝕜) ∧ 0 ≤ s i) ∧ U1ᴴ * U1 = 1 ∧ V1ᴴ * V1 = 1 ∧
        U1 * diagonal (fun i : Fin r => o.s i.val) * V1ᴴ = MatF.toMatrix A.rows A.cols A.td.f) :=
  ⟨fun _ _ _ _ _ _ hc pos hlt hnd => hc.select pos hlt hnd, fun _ _ _ h => h.old⟩

/-- **the selection returns the `k` largest / smallest.**  For the output `o` of the model's Krylov rule and
`1 ≤ k ≤ o.j` (`o.j` = number of eigenpairs the eigensolver returned), under `eigs_sorted_contract`
(`Svd.EigsSorted`, which CONTAINS the ascending order — no free-floating `ascending` hypothesis): `'LM'` selects
positions `o.j - k … o.j - 1`, `'SM'` positions `0 … k - 1`; exactly `k` of them; the selected columns satisfy the
`eigs_contract` of `C16_svd_krylov_tall` / `_wide`; and every selected eigenvalue `μ p` — hence singular value
`sqrt (μ p)` — dominates (`'LM'`) resp. is dominated by (`'SM'`) every unselected one the eigensolver holds
(`C16_select_largest` / `_smallest` composed with the contract). -/
theorem C16_svd_krylov_select_sorted [DecidableEq 𝕜] (P : Params 𝕜) (eigs : Op 𝕜 → Eigs 𝕜)
    (forceTall : Bool) (A : Op 𝕜) (k : Nat) (w : Which) (o : KrylovOut 𝕜)
    (h : svdKrylov P eigs forceTall A (k : Int) w = .ok o) (n : Nat) (mu : Nat → ℝ)
    (eigs_sorted_contract : EigsSorted n o.j o.G.den.f (eigs o.G).W.den.f (eigs o.G).vals mu)
    (hk1 : 1 ≤ k) (hkj : k ≤ o.j) :
    (w = .LM ∧ o.pos = List.range' (o.j - k) k ∨ w = .SM ∧ o.pos = List.range k) ∧
    o.pos.length = k ∧
    (let Vs := MatF.toMatrix n o.pos.length (selCols (eigs o.G).W.den.f o.pos)
     Vsᴴ * Vs = 1 ∧
     MatF.toMatrix n n o.G.den.f * Vs =
       Vs * diagonal (fun i : Fin o.pos.length => ((mu (o.pos.getD i.val 0) : ℝ) : 𝕜)) ∧
     ∀ t, t < o.pos.length → (eigs o.G).vals (o.pos.getD t 0) = ((mu (o.pos.getD t 0) : ℝ) : 𝕜) ∧
       0 < mu (o.pos.getD t 0)) ∧
    (w = .LM → ∀ p ∈ o.pos, ∀ q, q < o.j → q ∉ o.pos →
      mu q ≤ mu p ∧ Real.sqrt (mu q) ≤ Real.sqrt (mu p)) ∧
    (w = .SM → ∀ p ∈ o.pos, ∀ q, q < o.j → q ∉ o.pos →
      mu p ≤ mu q ∧ Real.sqrt (mu p) ≤ Real.sqrt (mu q)) :=
  svdKrylov_select_sorted P eigs forceTall A k w o h n mu eigs_sorted_contract hk1 hkj

/-- **branch `A.H @ A`, strengthened contract, real shape**: hypotheses are `A_good`, `A_real`, the SHAPE of the
eigenvector operator (no `W_good`), `eigs_sorted_contract` (contains the order), `sqrt_contract`, `inv_contract`.
Conclusion: everything `C16_svd_krylov_tall` concludes for `lam t = μ (o.pos[t])`, `k` triplets, and these are
the `k` largest (`'LM'`) / smallest (`'SM'`) singular values `sqrt μ` among the `o.j` the eigensolver holds. -/
theorem C16_svd_krylov_tall_sorted [DecidableEq 𝕜] (P : Params 𝕜) (eigs : Op 𝕜 → Eigs 𝕜)
    (forceTall : Bool) (A : Op 𝕜) (k : Nat) (w : Which) (o : KrylovOut 𝕜)
    (h : svdKrylov P eigs forceTall A (k : Int) w = .ok o) (htall : o.tall = true)
    (A_good : Op.Good A) (A_real : A.RealTyped) (W_shape : EigShape (eigs o.G).W) (mu : Nat → ℝ)
    (eigs_sorted_contract :
      EigsSorted A.cols o.j o.G.den.f (eigs o.G).W.den.f (eigs o.G).vals mu)
    (hk1 : 1 ≤ k) (hkj : k ≤ o.j)
    (sqrt_contract : ∀ t, t < o.j → P.sqrt ((mu t : ℝ) : 𝕜) = ((Real.sqrt (mu t) : ℝ) : 𝕜))
    (inv_contract : ∀ z : 𝕜, P.inv z = z⁻¹) :
    let Am := MatF.toMatrix A.rows A.cols A.den.f
    let U := MatF.toMatrix A.rows o.pos.length o.triple.U.den.f
    let Sg := MatF.toMatrix o.pos.length o.pos.length o.triple.S.den.f
    let V := MatF.toMatrix A.cols o.pos.length o.triple.V.den.f
    o.pos.length = k ∧
    (w = .LM ∧ o.pos = List.range' (o.j - k) k ∨ w = .SM ∧ o.pos = List.range k) ∧
    Uᴴ * U = 1 ∧ Vᴴ * V = 1 ∧
    Sg = diagonal (fun i : Fin o.pos.length => ((Real.sqrt (mu (o.pos.getD i.val 0)) : ℝ) : 𝕜)) ∧
    (∀ t, t < o.pos.length → 0 < Real.sqrt (mu (o.pos.getD t 0))) ∧
    U * Sg * Vᴴ = Am * (V * Vᴴ) ∧
    (Am - U * Sg * Vᴴ) * V = 0 ∧ Uᴴ * (Am - U * Sg * Vᴴ) = 0 ∧
    (w = .LM → ∀ p ∈ o.pos, ∀ q, q < o.j → q ∉ o.pos → Real.sqrt (mu q) ≤ Real.sqrt (mu p)) ∧
    (w = .SM → ∀ p ∈ o.pos, ∀ q, q < o.j → q ∉ o.pos → Real.sqrt (mu p) ≤ Real.sqrt (mu q)) := by
  intro Am U Sg V
  obtain ⟨hform, hlen, hsel, hL, hS⟩ :=
    svdKrylov_select_sorted P eigs forceTall A k w o h A.cols mu eigs_sorted_contract hk1 hkj
  have hmem : ∀ p ∈ o.pos, p < o.j := by
    intro p hm
    rcases hform with ⟨_, hp⟩ | ⟨_, hp⟩
    · rw [hp, List.mem_range'_1] at hm; omega
    · rw [hp, List.mem_range] at hm; omega
  have hlt : ∀ t, t < o.pos.length → o.pos.getD t 0 < o.j :=
    fun t ht => hmem _ (MatF.getD_mem_of_lt' o.pos t ht)
  obtain ⟨_, k2, k3, k4, k5, k6, k7, k8, _⟩ :=
    C16_svd_krylov_tall P eigs forceTall A k w o h htall A_good A_real W_shape.good
      (fun t => mu (o.pos.getD t 0)) hsel (fun t ht => sqrt_contract _ (hlt t ht)) inv_contract
  exact ⟨hlen, hform, k2, k3, k4, k5, k6, k7, k8,
    fun hw p hp q hq hnq => (hL hw p hp q hq hnq).2, fun hw p hp q hq hnq => (hS hw p hp q hq hnq).2⟩

/-- **branch `A @ A.H`, strengthened contract, real shape** -/
theorem C16_svd_krylov_wide_sorted [DecidableEq 𝕜] (P : Params 𝕜) (eigs : Op 𝕜 → Eigs 𝕜)
    (forceTall : Bool) (A : Op 𝕜) (k : Nat) (w : Which) (o : KrylovOut 𝕜)
    (h : svdKrylov P eigs forceTall A (k : Int) w = .ok o) (hwide : o.tall = false)
    (A_good : Op.Good A) (A_real : A.RealTyped) (W_shape : EigShape (eigs o.G).W) (mu : Nat → ℝ)
    (eigs_sorted_contract :
      EigsSorted A.rows o.j o.G.den.f (eigs o.G).W.den.f (eigs o.G).vals mu)
    (hk1 : 1 ≤ k) (hkj : k ≤ o.j)
    (sqrt_contract : ∀ t, t < o.j → P.sqrt ((mu t : ℝ) : 𝕜) = ((Real.sqrt (mu t) : ℝ) : 𝕜))
    (inv_contract : ∀ z : 𝕜, P.inv z = z⁻¹) :
    let Am := MatF.toMatrix A.rows A.cols A.den.f
    let U := MatF.toMatrix A.rows o.pos.length o.triple.U.den.f
    let Sg := MatF.toMatrix o.pos.length o.pos.length o.triple.S.den.f
    let V := MatF.toMatrix A.cols o.pos.length o.triple.V.den.f
    o.pos.length = k ∧
    (w = .LM ∧ o.pos = List.range' (o.j - k) k ∨ w = .SM ∧ o.pos = List.range k) ∧
    Uᴴ * U = 1 ∧ Vᴴ * V = 1 ∧
    Sg = diagonal (fun i : Fin o.pos.length => ((Real.sqrt (mu (o.pos.getD i.val 0)) : ℝ) : 𝕜)) ∧
    (∀ t, t < o.pos.length → 0 < Real.sqrt (mu (o.pos.getD t 0))) ∧
    U * Sg * Vᴴ = (U * Uᴴ) * Am ∧
    Uᴴ * (Am - U * Sg * Vᴴ) = 0 ∧ (Am - U * Sg * Vᴴ) * V = 0 ∧
    (w = .LM → ∀ p ∈ o.pos, ∀ q, q < o.j → q ∉ o.pos → Real.sqrt (mu q) ≤ Real.sqrt (mu p)) ∧
    (w = .SM → ∀ p ∈ o.pos, ∀ q, q < o.j → q ∉ o.pos → Real.sqrt (mu p) ≤ Real.sqrt (mu q)) := by
  intro Am U Sg V
  obtain ⟨hform, hlen, hsel, hL, hS⟩ :=
    svdKrylov_select_sorted P eigs forceTall A k w o h A.rows mu eigs_sorted_contract hk1 hkj
  have hmem : ∀ p ∈ o.pos, p < o.j := by
    intro p hm
    rcases hform with ⟨_, hp⟩ | ⟨_, hp⟩
    · rw [hp, List.mem_range'_1] at hm; omega
    · rw [hp, List.mem_range] at hm; omega
  have hlt : ∀ t, t < o.pos.length → o.pos.getD t 0 < o.j :=
    fun t ht => hmem _ (MatF.getD_mem_of_lt' o.pos t ht)
  obtain ⟨_, k2, k3, k4, k5, k6, k7, k8, _⟩ :=
    C16_svd_krylov_wide P eigs forceTall A k w o h hwide A_good A_real W_shape.good
      (fun t => mu (o.pos.getD t 0)) hsel (fun t ht => sqrt_contract _ (hlt t ht)) inv_contract
  exact ⟨hlen, hform, k2, k3, k4, k5, k6, k7, k8,
    fun hw p hp q hq hnq => (hL hw p hp q hq hnq).2, fun hw p hp q hq hnq => (hS hw p hp q hq hnq).2⟩

/-! ## witnesses of the contracts (non-vacuity, exact rational data) -/

/-- **`lapack_contract` has an instance, and `C16_svd_dense` applies through it.**  `Witness.A3` is the `3 × 2`
non-diagonal `[[-12, 9], [12, 16], [0, 0]]`; `Witness.PL.lapackSvd` is the exact table `U = [e₁ e₀ e₂]`,
`s = (20, 15)` (DESCENDING), `V = [[3/5, -4/5], [4/5, 3/5]]`.  The strengthened contract `LapackSorted` holds for
it, hence `lapack_contract`; DenseSVD returns 2 triplets with `Uᴴ U = 1`, `Vᴴ V = 1`, `U Σ Vᴴ = A₃`, values
ascending along `idx` (`C16_svd_dense_sorted` with its `lt_contract` witnessed too). -/
theorem C16_svd_dense_witness :
    LapackSorted Witness.A3.rows Witness.A3.cols Witness.A3.td.f
      (Witness.PL.lapackSvd Witness.A3.rows Witness.A3.cols Witness.A3.td.f) Witness.s3 ∧
    (let res := svdDense Witness.PL Witness.A3
     res.1.length = 2 ∧
     (MatF.toMatrix 3 2 res.2.U.den.f)ᴴ * MatF.toMatrix 3 2 res.2.U.den.f = 1 ∧
     (MatF.toMatrix 2 2 res.2.V.den.f)ᴴ * MatF.toMatrix 2 2 res.2.V.den.f = 1 ∧
     MatF.toMatrix 3 2 res.2.U.den.f * MatF.toMatrix 2 2 res.2.S.den.f *
       (MatF.toMatrix 2 2 res.2.V.den.f)ᴴ = MatF.toMatrix 3 2 Witness.a3 ∧
     (∀ i j, i ≤ j → j < res.1.length →
       Witness.s3 (res.1.getD i 0) ≤ Witness.s3 (res.1.getD j 0))) := by
  refine ⟨Witness.lapack_sorted', ?_⟩
  intro res
  have key := C16_svd_dense Witness.PL Witness.A3
    ⟨Witness.A3_good.wf, Witness.A3_good.nd, Witness.A3_good.herm⟩ Witness.s3
    ((C16_contracts_of_sorted (𝕜 := ℝ)).2 Witness.PL Witness.A3 Witness.s3 Witness.lapack_sorted')
  have hsorted := C16_svd_dense_sorted Witness.PL Witness.A3 Witness.s3
    (fun i hi => (Witness.lapack_sorted'.real i hi).1) Witness.lt_ok
  obtain ⟨hk, _, _, _, _, _, hU, hV, _, _, hrec⟩ := key
  have hk2 : (svdDense Witness.PL Witness.A3).1.length = 2 := by
    rw [hk, Witness.A3_rows, Witness.A3_cols]; rfl
  rw [hk2, Witness.A3_rows] at hU
  rw [hk2, Witness.A3_cols] at hV
  rw [hk2, Witness.A3_rows, Witness.A3_cols] at hrec
  refine ⟨hk2, hU, hV, ?_, hsorted⟩
  rw [hrec]
  simp only [Witness.A3, den_dense_f]

/-- **`ritz_contract` has a genuine partial-run instance, and `C16_krylov_tall_ritz` applies through it.**
`B = [[0, 2], [5, 0]]` (`Bᴴ B = diag(25, 4)`), one Lanczos vector `v = (3/5, 4/5)` (`k = 1 < n = 2`), Ritz value
`vᴴ Bᴴ B v = 289/25`, `σ = 17/5`: the Galerkin condition holds, `vᴴ v = 1`, `v` is NOT an eigenvector
(`Bᴴ B v ≠ v λ`: the stronger `eigs_contract` fails), and the back-substituted `U = B v σ⁻¹` has `Uᴴ U = 1`,
`U Σ Vᴴ = B v vᴴ`, `(B − U Σ Vᴴ) v = 0`. -/
theorem C16_krylov_ritz_witness :
    let Bm := MatF.toMatrix 2 2 Witness.b
    let V := MatF.toMatrix 2 1 Witness.v
    let U := MatF.toMatrix 2 1 (backsubU 2 1 Witness.b Witness.v Witness.ritzSinv)
    let Sg : Matrix (Fin 1) (Fin 1) ℝ := diagonal (fun i : Fin 1 => Witness.ritzSigma i.val)
    Vᴴ * (Bmᴴ * Bm) * V = diagonal (fun i : Fin 1 => Witness.ritzLam i.val) ∧
    Vᴴ * V = 1 ∧
    Bmᴴ * Bm * V ≠ V * diagonal (fun i : Fin 1 => Witness.ritzLam i.val) ∧
    Witness.ritzSigma 0 = 17 / 5 ∧
    Uᴴ * U = 1 ∧ U * Sg * Vᴴ = Bm * (V * Vᴴ) ∧ (Bm - U * Sg * Vᴴ) * V = 0 := by
  intro Bm V U Sg
  obtain ⟨hritz, hsq, hinv, hVV, hne⟩ := Witness.ritz_ok
  obtain ⟨_, hU, hrec, hres⟩ :=
    C16_krylov_tall_ritz 2 2 1 Witness.b Witness.v Witness.ritzLam Witness.ritzSigma Witness.ritzSinv
      hritz hsq hinv
  exact ⟨hritz.1, hVV, hne, rfl, hU, hrec, hres hVV⟩

/-- **`lstsq_contract` has an instance, and `C16_pinv_lstsq` applies through it.**  `Witness.lstsq3` is a concrete
`lstsq` function: multiplication of the right-hand side by the exact pseudo-inverse
`A₃⁺ = [[-4/75, 3/100, 0], [1/25, 1/25, 0]]` of the `3 × 2` non-diagonal `A₃`.  For EVERY right-hand side `B`
and every column: the contract holds, so `pinv(A₃, LSTSQ) @ B` is the LSTSQ rule, each column is the
minimum-norm least-squares solution and equals `A₃⁺ b`. -/
theorem C16_pinv_lstsq_witness (nb : Nat) (B : MatF ℝ) :
    IsMoorePenrose (MatF.toMatrix 3 2 Witness.a3) (MatF.toMatrix 2 3 Witness.x3) ∧
    pinv Witness.PL Witness.A3 .lstsq = .lstsq Witness.A3 ∧
    ∀ j, j < nb →
      IsMinNormLsq (lin (MatF.toMatrix Witness.A3.rows Witness.A3.cols Witness.A3.den.f))
        (colE Witness.A3.rows B j) (colE Witness.A3.cols (lstsqApply Witness.lstsq3 Witness.A3 nb B) j) ∧
      colE 2 (lstsqApply Witness.lstsq3 Witness.A3 nb B) j =
        lin (MatF.toMatrix 2 3 Witness.x3) (colE 3 B j) := by
  obtain ⟨hrule, hcols⟩ := C16_pinv_lstsq Witness.PL Witness.lstsq3 Witness.A3
    ⟨Witness.A3_good.wf, Witness.A3_good.nd, Witness.A3_good.herm⟩ nb B (Witness.lstsq3_ok nb B)
  refine ⟨Witness.x3_mp, hrule ?_, fun j hj => ⟨(hcols j hj).1, ?_⟩⟩
  · simp [pinvRule, Witness.A3, Op.core]
  · simp only [lstsqApply, Witness.lstsq3, Witness.A3_rows]
    exact colE_mmul 2 3 Witness.x3 B j

/-- **the strengthened eigensolver contract has an instance with `k = 1 < n = 2` and the REAL operator shape.**
`Witness.A = [[0, 2], [1, 0]]`; `Witness.eigsQY` returns the ASCENDING eigenvalues `1, 4` of `Aᴴ A` and the
eigenvector operator `Product(Orthonormal(Dense Q), Dense Y)` (`Q = Y = [[0, 1], [1, 0]]`).  `EigShape` and
`EigsSorted` hold; `svd(A, 1, 'LM', Lanczos)` selects position `1` — the LARGEST eigenvalue — and returns `Σ = [2]`,
orthonormal `U`, `V`, `U Σ Vᴴ = A V Vᴴ`; the unselected singular value is not larger. -/
theorem C16_svd_krylov_sorted_witness :
    (∀ G, EigShape (Witness.eigsQY G).W) ∧
    ∃ o, svdKrylov Witness.P Witness.eigsQY false Witness.A ((1 : Nat) : Int) .LM = .ok o ∧
      o.tall = true ∧ o.j = 2 ∧ o.pos = [1] ∧
      EigsSorted 2 2 o.G.den.f (Witness.eigsQY o.G).W.den.f (Witness.eigsQY o.G).vals Witness.lam ∧
      MatF.toMatrix 1 1 o.triple.S.den.f = diagonal (fun _ : Fin 1 => (2 : ℝ)) ∧
      (MatF.toMatrix 2 1 o.triple.U.den.f)ᴴ * MatF.toMatrix 2 1 o.triple.U.den.f = 1 ∧
      (MatF.toMatrix 2 1 o.triple.V.den.f)ᴴ * MatF.toMatrix 2 1 o.triple.V.den.f = 1 ∧
      MatF.toMatrix 2 1 o.triple.U.den.f * MatF.toMatrix 1 1 o.triple.S.den.f *
          (MatF.toMatrix 2 1 o.triple.V.den.f)ᴴ =
        MatF.toMatrix 2 2 Witness.A.den.f *
          (MatF.toMatrix 2 1 o.triple.V.den.f * (MatF.toMatrix 2 1 o.triple.V.den.f)ᴴ) ∧
      (∀ p ∈ o.pos, ∀ q, q < o.j → q ∉ o.pos →
        Real.sqrt (Witness.lam q) ≤ Real.sqrt (Witness.lam p)) :=
  ⟨fun G => Or.inl ⟨_, _, _, _, _, _, _, rfl⟩, Witness.largest_sound⟩

#print axioms C16_select_largest
#print axioms C16_select_smallest
#print axioms C16_select_zero_quirk
#print axioms C16_argsort
#print axioms C16_svd_dense
#print axioms C16_krylov_tall
#print axioms C16_krylov_wide
#print axioms C16_krylov_model
#print axioms C16_svd_identity
#print axioms C16_svd_diagonal
#print axioms C16_lsq_normal
#print axioms C16_min_norm
#print axioms C16_min_norm_unique
#print axioms C16_pinv_full_column_rank
#print axioms C16_pinv_full_row_rank
#print axioms C16_pinv_rule
#print axioms C16_pinv_structural
#print axioms C16_pinv_cg
#print axioms C16_pinv_cg_value
#print axioms C16_svd_dense_sorted
#print axioms C16_svd_krylov_tall
#print axioms C16_svd_krylov_wide
#print axioms C16_svd_krylov_link
#print axioms C16_svd_krylov_total
#print axioms C16_svd_lanczos_iff
#print axioms C16_svd_krylov_witness
#print axioms C16_krylov_tall_ritz
#print axioms C16_krylov_wide_ritz
#print axioms C16_moore_penrose_unique
#print axioms C16_pinv_from_svd
#print axioms C16_pinv_full_rank_mp
#print axioms C16_moore_penrose_lsq
#print axioms C16_pinv_from_svd_dense
#print axioms C16_pinv_structural_mp
#print axioms C16_pinv_cg_full_rank
#print axioms C16_pinv_lstsq
#print axioms C16_lobpcg_clauses
#print axioms C16_lobpcg_largest_flag
#print axioms C16_lobpcg_sm_regression
#print axioms C16_lobpcg_k_clause_needed
#print axioms C16_lanczos_W_good
#print axioms C16_svd_krylov_tall_QY
#print axioms C16_svd_krylov_wide_QY
#print axioms C16_svd_krylov_link_QY
#print axioms C16_svd_krylov_total_QY
#print axioms C16_contracts_of_sorted
#print axioms C16_svd_krylov_select_sorted
#print axioms C16_svd_krylov_tall_sorted
#print axioms C16_svd_krylov_wide_sorted
#print axioms C16_svd_dense_witness
#print axioms C16_krylov_ritz_witness
#print axioms C16_pinv_lstsq_witness
#print axioms C16_svd_krylov_sorted_witness
