import ColaVerif.Lemmas.SvdModel

/-!
# C16 — `svd` returns a valid (truncated) singular value decomposition, `pinv(A) @ b` the
minimum-norm least-squares solution

Model: `ColaVerif/Model/Svd.lean` (mirror of `cola/linalg/svd/svd.py`,
`cola/linalg/inverse/pinv.py`, `get_slice`).  LAPACK `svd` / `lstsq`, `lanczos_eigs` (C14), the CG
solver (C12), `sqrt` and the reciprocal are PARAMETERS; their contracts are hypotheses.  Carrier: any
`RCLike 𝕜` (ℝ and ℂ at once); matrices are Mathlib matrices through `MatF.toMatrix`; vectors live in
`EuclideanSpace`; `lin A` is `x ↦ A x`.

svd
* `C16_select_largest`, `C16_select_smallest` — `get_slice(k, 'LM' | 'SM')` on an ascending array
  of non-negative values selects exactly the `k` largest / smallest (by value = by magnitude);
  `C16_select_zero_quirk` — `k = 0` with `'LM'` selects everything (outside the quantifier `1 ≤ k`);
  `C16_argsort` — `argsort` is a permutation along which the keys ascend.
* `C16_svd_dense` — DenseSVD: if LAPACK returns a thin SVD of the array it is given
  (`lapack_contract`), the re-ordered, column-selected triple has orthonormal `U`, `V`, a real
  non-negative diagonal `Σ` and `U Σ Vᴴ = A` — for tall, wide and square `A` (`k`, `which` ignored:
  all `min(m, n)` triplets are returned).
* `C16_krylov_tall`, `C16_krylov_wide` — back-substitution: from orthonormal eigenvectors of
  `Aᴴ A` (`A Aᴴ`) with positive eigenvalues `λ` and `Σ = sqrt λ`: the back-substituted factor has
  orthonormal columns, `Σ ≥ 0`, `U Σ Vᴴ = A V Vᴴ` (`= U Uᴴ A`), the remainder is orthogonal to the
  selected singular subspaces on both sides (truncated SVD), and `= A` when all triplets are
  selected.  "Best rank-`k` approximation" is read as this truncated SVD on the `k` LARGEST singular
  values (`C16_select_largest`); the Eckart–Young theorem itself is NOT re-proved.
* `C16_svd_identity`; `C16_svd_diagonal` — the `Diagonal` rule (after the repair in /repo:
  `Σ = |diag|`, `U = diag(phase)`, `V = I`): full statement for EVERY diagonal (negative, complex
  and zero entries included), no clause.
pinv
* `C16_lsq_normal`, `C16_min_norm` — normal equations ⟹ least squares; the solution in
  `range Aᴴ` is THE minimum-norm one (`C16_min_norm_unique`);
  `C16_pinv_full_column_rank`, `C16_pinv_full_row_rank` — the closed forms.
* `C16_pinv_structural` — Identity / ScalarMul / Diagonal / Permutation: the operator the rule builds
  is the two-sided inverse (full rank: non-zero scalar / entries — a hypothesis, the code returns
  `inf` for a zero), hence `pinv(A) @ b` is the minimum-norm least-squares solution, exactly.
* `C16_pinv_cg` — the operator the CG rule builds, for all four dtypes (`get_precision` is defined
  on complex dtypes after the repair in /repo; no clause);
  `C16_pinv_cg_value` — the rule returns `x = cg(Aᴴ A, Aᴴ b) + cons · Aᴴ b` with
  `cons = get_precision(dtype) · max(m, n)` (the "regulariser" is added to the INVERSE): if the
  solver's contract holds (normal equations solved, iterate in the Krylov space of `(Aᴴ A, Aᴴ b)`)
  the first term is the minimum-norm least-squares solution for EVERY shape and rank, and the
  returned vector differs from it by exactly `cons · Aᴴ b` (norm `|cons| ‖Aᴴ b‖`: 1e-15-level in
  float64; tolerance of the correspondence check).
* `C16_pinv_rule` — rule selection (`Auto`: `LSTSQ` iff `prod(shape) ≤ 10⁶`).
-/

open Matrix Svd

variable {𝕜 : Type} [RCLike 𝕜]

/-! ## selection -/

/-- **`get_slice(k, 'LM')`** on an ascending array of `n` non-negative values, `1 ≤ k ≤ n` -/
theorem C16_select_largest (n k : Nat) (hk1 : 1 ≤ k) (hkn : k ≤ n) (vals : Nat → ℝ)
    (ascending : ∀ i j, i ≤ j → j < n → vals i ≤ vals j) (nonneg : ∀ i, i < n → 0 ≤ vals i) :
    ∃ pos, positions n (k : Int) .LM = .ok pos ∧ pos = List.range' (n - k) k ∧
      pos.length = k ∧ pos.Nodup ∧ (∀ p ∈ pos, p < n) ∧
      (∀ p ∈ pos, ∀ q, q < n → q ∉ pos → vals q ≤ vals p ∧ |vals q| ≤ |vals p|) := by
  have hmin : min k n = k := Nat.min_eq_left hkn
  refine ⟨List.range' (n - min k n) (min k n), positions_LM n k hk1, by rw [hmin], ?_, ?_, ?_, ?_⟩
  · exact (selected_count_LM n k hkn).1
  · exact (selected_count_LM n k hkn).2.1
  · exact (selected_count_LM n k hkn).2.2
  · intro p hp q hq hnq
    exact ⟨largest_selected n k vals ascending p hp q hq hnq,
      largest_selected_abs n k vals ascending nonneg p hp q hq hnq⟩

/-- **`get_slice(k, 'SM')`** -/
theorem C16_select_smallest (n k : Nat) (hkn : k ≤ n) (vals : Nat → ℝ)
    (ascending : ∀ i j, i ≤ j → j < n → vals i ≤ vals j) :
    ∃ pos, positions n (k : Int) .SM = .ok pos ∧ pos = List.range k ∧
      (∀ p ∈ pos, ∀ q, q < n → q ∉ pos → vals p ≤ vals q) := by
  have hmin : min k n = k := Nat.min_eq_left hkn
  refine ⟨List.range (min k n), positions_SM n k, by rw [hmin], ?_⟩
  intro p hp q hq hnq
  exact smallest_selected n k vals ascending p hp q hq hnq

/-- `k = 0` with `'LM'`: `slice(-0, None)` selects everything; `k = -1` and an unknown `which`
raise -/
theorem C16_select_zero_quirk (n : Nat) :
    positions n 0 .LM = .ok (List.range n) ∧
    (∀ w, positions n (-1) w = .error "error:ValueError") ∧
    (∀ k : Int, k ≠ -1 → positions n k .other = .error "not-implemented") :=
  ⟨positions_LM_zero n, positions_minus_one n, positions_other n⟩

/-- **`argsort`** (any comparison): a permutation of `0 … n-1`; with `<` of a linear order the keys
ascend along it -/
theorem C16_argsort {α : Type} [LinearOrder α] (key : Nat → α) (n : Nat) (lt : α → α → Bool) :
    (argsort lt n key).Perm (List.range n) ∧
    ((argsort ltOf n key).map key).Pairwise (· ≤ ·) :=
  ⟨argsort_perm lt key n, argsort_values_ascend key n⟩

/-! ## DenseSVD -/

/-- **DenseSVD.**  `lapack_contract`: `xnp.svd(X, full_matrices=True)` returns, in its first
`r = min(m, n)` columns, a thin SVD of the array `X = A.to_dense()` it is given, with real
non-negative singular values. -/
theorem C16_svd_dense [DecidableEq 𝕜] (P : Params 𝕜) (A : Op 𝕜)
    (A_good : A.wf = true ∧ A.dupSlice = false ∧ A.HermOK) (s : Nat → ℝ)
    (lapack_contract :
      let o := P.lapackSvd A.rows A.cols A.td.f
      let r := min A.rows A.cols
      let U1 := MatF.toMatrix A.rows r o.U
      let V1 := MatF.toMatrix A.cols r o.V
      (∀ i, i < r → o.s i = ((s i : ℝ) : 𝕜) ∧ 0 ≤ s i) ∧ U1ᴴ * U1 = 1 ∧ V1ᴴ * V1 = 1 ∧
        U1 * diagonal (fun i : Fin r => o.s i.val) * V1ᴴ = MatF.toMatrix A.rows A.cols A.td.f) :
    let res := svdDense P A
    let idx := res.1
    let k := idx.length
    let U := MatF.toMatrix A.rows k res.2.U.den.f
    let Sg := MatF.toMatrix k k res.2.S.den.f
    let V := MatF.toMatrix A.cols k res.2.V.den.f
    k = min A.rows A.cols ∧ idx.Perm (List.range (min A.rows A.cols)) ∧
    res.2.U.rows = A.rows ∧ res.2.U.cols = k ∧ res.2.V.rows = A.cols ∧ res.2.V.cols = k ∧
    Uᴴ * U = 1 ∧ Vᴴ * V = 1 ∧
    Sg = diagonal (fun i : Fin k => ((s (idx.getD i.val 0) : ℝ) : 𝕜)) ∧
    (∀ i : Fin k, 0 ≤ s (idx.getD i.val 0)) ∧
    U * Sg * Vᴴ = MatF.toMatrix A.rows A.cols A.den.f :=
  svdDense_spec P A A_good s lapack_contract

/-! ## the Krylov rules: back-substitution -/

/-- **Lanczos / LOBPCG, branch `A.H @ A`** (`n ≤ m`).  `Vs` = the selected eigenvector columns
(`n × k`), `lam` = the selected eigenvalues, `sigma = sqrt lam` (`sqrt_contract`),
`sinv = 1 / sigma` (`inv_contract`); `eigs_contract`: orthonormal columns, `Aᴴ A V = V diag lam`,
`lam > 0`.  `U = backsubU …` is the matrix formula of `(A @ V @ inv(Sigma)).to_dense()`. -/
theorem C16_krylov_tall (m n k : Nat) (A Vs : MatF 𝕜) (lam sigma : Nat → ℝ) (sinv : Nat → 𝕜)
    (eigs_contract :
      (MatF.toMatrix n k Vs)ᴴ * MatF.toMatrix n k Vs = 1 ∧
      (MatF.toMatrix m n A)ᴴ * MatF.toMatrix m n A * MatF.toMatrix n k Vs =
        MatF.toMatrix n k Vs * diagonal (fun i : Fin k => ((lam i.val : ℝ) : 𝕜)) ∧
      ∀ i, i < k → 0 < lam i)
    (sqrt_contract : ∀ i, i < k → sigma i = Real.sqrt (lam i))
    (inv_contract : ∀ i, i < k → sinv i = (((sigma i)⁻¹ : ℝ) : 𝕜)) :
    let Am := MatF.toMatrix m n A
    let V := MatF.toMatrix n k Vs
    let U := MatF.toMatrix m k (backsubU n k A Vs sinv)
    let Sg : Matrix (Fin k) (Fin k) 𝕜 := diagonal (fun i : Fin k => ((sigma i.val : ℝ) : 𝕜))
    (∀ i, i < k → 0 < sigma i) ∧ Uᴴ * U = 1 ∧
    U * Sg * Vᴴ = Am * (V * Vᴴ) ∧
    (Am - U * Sg * Vᴴ) * V = 0 ∧ Uᴴ * (Am - U * Sg * Vᴴ) = 0 ∧
    (V * Vᴴ = 1 → U * Sg * Vᴴ = Am) :=
  krylov_tall_spec m n k A Vs lam sigma sinv eigs_contract sqrt_contract inv_contract

/-- **Lanczos, branch `A @ A.H`** (`m < n`): `V = backsubV …` is the matrix formula of
`(inv(Sigma) @ U.H @ A).to_dense().conj().T`. -/
theorem C16_krylov_wide (m n k : Nat) (A Us : MatF 𝕜) (lam sigma : Nat → ℝ) (sinv : Nat → 𝕜)
    (eigs_contract :
      (MatF.toMatrix m k Us)ᴴ * MatF.toMatrix m k Us = 1 ∧
      MatF.toMatrix m n A * (MatF.toMatrix m n A)ᴴ * MatF.toMatrix m k Us =
        MatF.toMatrix m k Us * diagonal (fun i : Fin k => ((lam i.val : ℝ) : 𝕜)) ∧
      ∀ i, i < k → 0 < lam i)
    (sqrt_contract : ∀ i, i < k → sigma i = Real.sqrt (lam i))
    (inv_contract : ∀ i, i < k → sinv i = (((sigma i)⁻¹ : ℝ) : 𝕜)) :
    let Am := MatF.toMatrix m n A
    let U := MatF.toMatrix m k Us
    let V := MatF.toMatrix n k (backsubV m k A Us sinv)
    let Sg : Matrix (Fin k) (Fin k) 𝕜 := diagonal (fun i : Fin k => ((sigma i.val : ℝ) : 𝕜))
    (∀ i, i < k → 0 < sigma i) ∧ Vᴴ * V = 1 ∧
    U * Sg * Vᴴ = (U * Uᴴ) * Am ∧
    Uᴴ * (Am - U * Sg * Vᴴ) = 0 ∧ (Am - U * Sg * Vᴴ) * V = 0 ∧
    (U * Uᴴ = 1 → U * Sg * Vᴴ = Am) :=
  krylov_wide_spec m n k A Us lam sigma sinv eigs_contract sqrt_contract inv_contract

/-- what the model's Krylov rule returns IS that formula: the specification side of the driver
(`specBack`, compared exactly with the operator code model on every case) is `backsubU` / `backsubV`
of the represented matrices, with `Sigma = sqrt(vals[pos])`, and the selected positions are those of
`get_slice` on the `W.cols` eigenpairs -/
theorem C16_krylov_model [DecidableEq 𝕜] (P : Params 𝕜) (eigs : Op 𝕜 → Eigs 𝕜) (forceTall : Bool)
    (A : Op 𝕜) (k : Int) (w : Which) (o : KrylovOut 𝕜)
    (h : svdKrylov P eigs forceTall A k w = .ok o) :
    positions o.j k w = .ok o.pos ∧ o.tall = (forceTall || decide (A.cols ≤ A.rows)) ∧
    o.triple.S.den.f = diagM (fun t => P.sqrt ((eigs o.G).vals (o.pos.getD t 0))) ∧
    o.specBack.f =
      (if o.tall then
        backsubU A.cols o.pos.length A.den.f o.triple.V.den.f
          (fun t => P.inv (P.sqrt ((eigs o.G).vals (o.pos.getD t 0))))
      else
        backsubV A.rows o.pos.length A.den.f o.triple.U.den.f
          (fun t => P.inv (P.sqrt ((eigs o.G).vals (o.pos.getD t 0))))) :=
  svdKrylov_spec P eigs forceTall A k w o h

/-! ## structural rules of `svd` -/

/-- **`svd(Identity)`** -/
theorem C16_svd_identity [DecidableEq 𝕜] (A : Op 𝕜) (dt : DType) (n : Nat) (hc : A.core = .eye dt n) :
    let T := svdIdentity A
    svdRule A .omitted = .identity ∧ (∀ alg, svdRule A alg = .identity) ∧
    MatF.toMatrix n n T.U.den.f = (1 : Matrix (Fin n) (Fin n) 𝕜) ∧
    MatF.toMatrix n n T.V.den.f = (1 : Matrix (Fin n) (Fin n) 𝕜) ∧
    MatF.toMatrix n n T.S.den.f = diagonal (fun _ : Fin n => (((1 : ℝ) : ℝ) : 𝕜)) ∧
    MatF.toMatrix n n T.U.den.f * MatF.toMatrix n n T.S.den.f * (MatF.toMatrix n n T.V.den.f)ᴴ =
      MatF.toMatrix n n A.den.f :=
  svdIdentity_spec A dt n hc

/-- **`svd(Diagonal)`.**  For every diagonal `d` (any signs / phases, zeros included):
`U = diag(phase d)` is unitary, `V = I`, `Σ = diag |d|` is real non-negative and `U Σ Vᴴ = A`.
`abs_contract`, `inv_contract`: the parameters are the modulus and the reciprocal. -/
theorem C16_svd_diagonal [DecidableEq 𝕜] (P : Params 𝕜)
    (abs_contract : ∀ z : 𝕜, P.abs z = ((‖z‖ : ℝ) : 𝕜)) (inv_contract : ∀ z : 𝕜, P.inv z = z⁻¹)
    (A : Op 𝕜) (dt : DType) (n : Nat) (d : Nat → 𝕜) (hc : A.core = .diag dt n d) :
    let T := svdDiagonal P A
    let U := MatF.toMatrix n n T.U.den.f
    let Sg := MatF.toMatrix n n T.S.den.f
    let V := MatF.toMatrix n n T.V.den.f
    (∀ alg, svdRule A alg = .diagonal) ∧
    Uᴴ * U = 1 ∧ U * Uᴴ = 1 ∧ V = 1 ∧
    Sg = diagonal (fun i : Fin n => ((‖d i.val‖ : ℝ) : 𝕜)) ∧ (∀ i : Fin n, 0 ≤ ‖d i.val‖) ∧
    U * Sg * Vᴴ = MatF.toMatrix n n A.den.f :=
  svdDiagonal_spec P abs_contract inv_contract A dt n d hc

/-! ## pinv: least squares -/

section lsq
variable {m n : Type} [Fintype m] [Fintype n] [DecidableEq m] [DecidableEq n]

/-- **normal equations ⟹ least squares** (`lsq_normal`): `Aᴴ (A x − b) = 0 → ∀ y, ‖A x − b‖ ≤ ‖A y − b‖`,
and conversely -/
theorem C16_lsq_normal (A : Matrix m n 𝕜) (b : EuclideanSpace 𝕜 m) (x : EuclideanSpace 𝕜 n) :
    lin Aᴴ (lin A x - b) = 0 ↔ ∀ y, ‖lin A x - b‖ ≤ ‖lin A y - b‖ :=
  ⟨fun h => lsq_of_normal (lin A) (lin Aᴴ) (isAdj_lin A) b x h,
   fun h => normal_of_lsq (lin A) (lin Aᴴ) (isAdj_lin A) b x h⟩

/-- **minimum norm**: a solution of the normal equations that lies in `range Aᴴ` has the least norm
among ALL least-squares solutions -/
theorem C16_min_norm (A : Matrix m n 𝕜) (b : EuclideanSpace 𝕜 m) (x : EuclideanSpace 𝕜 n)
    (w : EuclideanSpace 𝕜 m) (normal : lin Aᴴ (lin A x - b) = 0) (in_range : x = lin Aᴴ w) :
    (∀ y, ‖lin A x - b‖ ≤ ‖lin A y - b‖) ∧
    ∀ y, (∀ z, ‖lin A y - b‖ ≤ ‖lin A z - b‖) → ‖x‖ ≤ ‖y‖ :=
  minNormLsq_of_normal_range (lin A) (lin Aᴴ) (isAdj_lin A) b x w normal in_range

/-- the minimum-norm least-squares solution is unique -/
theorem C16_min_norm_unique (A : Matrix m n 𝕜) (b : EuclideanSpace 𝕜 m) (x x' : EuclideanSpace 𝕜 n)
    (hx : IsMinNormLsq (lin A) b x) (hx' : IsMinNormLsq (lin A) b x') : x = x' :=
  minNormLsq_unique (lin A) (lin Aᴴ) (isAdj_lin A) b x x' hx hx'

/-- **full column rank** (`Aᴴ A` invertible, inverse `G`): `x = (Aᴴ A)⁻¹ Aᴴ b` satisfies
`Aᴴ (A x − b) = 0` and is the minimum-norm least-squares solution -/
theorem C16_pinv_full_column_rank (A : Matrix m n 𝕜) (G : Matrix n n 𝕜)
    (full_column_rank : (Aᴴ * A) * G = 1) (b : EuclideanSpace 𝕜 m) :
    lin Aᴴ (lin A (lin (G * Aᴴ) b) - b) = 0 ∧ IsMinNormLsq (lin A) b (lin (G * Aᴴ) b) :=
  pinv_tall A G full_column_rank b

/-- **full row rank** (`A Aᴴ` invertible, inverse `G`): `x = Aᴴ (A Aᴴ)⁻¹ b` solves `A x = b` and
is the minimum-norm (least-squares) solution -/
theorem C16_pinv_full_row_rank (A : Matrix m n 𝕜) (G : Matrix m m 𝕜)
    (full_row_rank : (A * Aᴴ) * G = 1) (b : EuclideanSpace 𝕜 m) :
    lin A (lin (Aᴴ * G) b) = b ∧ IsMinNormLsq (lin A) b (lin (Aᴴ * G) b) :=
  pinv_wide A G full_row_rank b

end lsq

/-! ## pinv: the rules -/

/-- **rule selection** of `pinv` -/
theorem C16_pinv_rule [DecidableEq 𝕜] (A : Op 𝕜) :
    (∀ alg, pinvRule A alg = .structural ↔
      ((∃ dt n, A.core = .eye dt n) ∨ (∃ dt c n, A.core = .scalar dt c n) ∨
       (∃ dt n d, A.core = .diag dt n d) ∨ (∃ dt p, A.core = .perm dt p))) ∧
    (pinvRule A .omitted = pinvRule A .auto) ∧
    (pinvRule A .auto ≠ .structural →
      (pinvRule A .auto = .lstsq ↔ A.rows * A.cols ≤ 1000000) ∧
      pinvRule A .lstsq = .lstsq ∧ pinvRule A .cg = .cg) :=
  pinvRule_spec A

/-- **the reciprocal rules** (Identity, ScalarMul, Diagonal, Permutation).  Full rank: the scalar /
every diagonal entry is non-zero; `Permutation`'s well-formedness: `p` is a permutation of
`0 … n-1`.  The operator the rule builds is the two-sided inverse, so `pinv(A) @ b = A⁻¹ b` is the
(unique) minimum-norm least-squares solution. -/
theorem C16_pinv_structural [DecidableEq 𝕜] (P : Params 𝕜) (hinv : ∀ z : 𝕜, P.inv z = z⁻¹)
    (A : Op 𝕜) (n : Nat)
    (full_rank :
      (∃ dt, A.core = .eye dt n) ∨ (∃ dt c, A.core = .scalar dt c n ∧ c ≠ 0) ∨
      (∃ dt d, A.core = .diag dt n d ∧ ∀ i, i < n → d i ≠ 0) ∨
      (∃ dt p, A.core = .perm dt p ∧ p.Perm (List.range n))) (alg : PAlg) :
    ∃ B, pinv P A alg = .op B ∧ B.rows = n ∧ B.cols = n ∧
      MatF.toMatrix n n B.den.f * MatF.toMatrix n n A.den.f = 1 ∧
      MatF.toMatrix n n A.den.f * MatF.toMatrix n n B.den.f = 1 ∧
      ∀ b : EuclideanSpace 𝕜 (Fin n),
        lin (MatF.toMatrix n n A.den.f) (lin (MatF.toMatrix n n B.den.f) b) = b ∧
        IsMinNormLsq (lin (MatF.toMatrix n n A.den.f)) b (lin (MatF.toMatrix n n B.den.f) b) :=
  pinvStructural_spec P hinv A n full_rank alg

/-- **`pinv(A, CG)`.**  `gram`: `A.H @ A` is the operator `M` (`shapes`: it is square and fits
`A.H` — true for every well-formed `A`).  The rule builds
`PSD(IterativeOperatorWInfo(A.H @ A, CG) + cons * I) @ A.H` with
`cons = get_precision(dtype) * max(rows, cols)`, for every dtype. -/
theorem C16_pinv_cg [DecidableEq 𝕜] (P : Params 𝕜) (A : Op 𝕜) (M : Op 𝕜)
    (gram : Ex.dotRule A.adjointRule A = .ok (.op M))
    (shapes : (M.rows != M.cols || M.cols != A.adjointRule.rows) = false) :
    ∃ c, pinvCG P A = .cg c ∧ c.M = M ∧ c.AH = A.adjointRule ∧
      c.cons = P.precision A.dtype * ((max A.rows A.cols : Nat) : 𝕜) ∧
      c.reg = .prod [.scalar M.dtype c.cons M.rows, .eye M.dtype M.rows] ∧
      c.tail = (if Ex.isIdentity A.adjointRule then []
        else (Ex.prodMembers A.adjointRule).getD [A.adjointRule]) :=
  pinvCG_spec P A M gram shapes

/-- the hypotheses are satisfiable non-trivially (a tall complex-dtype operator) -/
example : ∃ (A M : Op ℂ), Ex.dotRule A.adjointRule A = .ok (.op M) ∧
    (M.rows != M.cols || M.cols != A.adjointRule.rows) = false ∧ A.dtype.isComplex = true ∧
    A.rows ≠ A.cols := by
  refine ⟨.dense .c128 2 1 (fun _ _ => 1),
    .prod [.dense .c128 1 2 (conjM (transposeM (fun _ _ => 1))), .dense .c128 2 1 (fun _ _ => 1)],
    ?_, ?_, ?_, ?_⟩
  · simp [Op.adjointRule, Op.core, Ex.dotRule, Ex.isIdentity, Ex.prodMembers, Ex.mkProd,
      Op.chainOk, Op.rows, Op.cols]
  · simp [Op.adjointRule, Op.core, Op.rows, Op.cols]
  · simp [Op.dtype, DType.isComplex]
  · simp [Op.rows, Op.cols]

/-- **what the CG rule computes**, column by column: for a right-hand side `B` (`m × nb`), with the
solver's output `X0 = solve(Aᴴ B)`, the rule returns `X0 + cons · Aᴴ B`.  If, for column `j`, the
solver's contract holds (`Aᴴ A x₀ = Aᴴ b`: converged; `x₀` in the Krylov space of `(Aᴴ A, Aᴴ b)`: CG
started at `0`), then `x₀` is the minimum-norm least-squares solution of `A x = b` — whatever the
shape and the rank of `A` — and the returned column is `x₀ + cons · Aᴴ b`. -/
theorem C16_pinv_cg_value (m n nb : Nat) (A B : MatF 𝕜) (solve : MatF 𝕜 → MatF 𝕜) (cons : 𝕜)
    (j : Nat) (d : Nat) (c : Nat → 𝕜) :
    let Am := MatF.toMatrix m n A
    let AH : MatF 𝕜 := conjM (transposeM A)
    let b := colE m B j
    let x0 := colE n (solve (mmul m AH B)) j
    let x := colE n (cgPinvApply solve n m nb AH cons B) j
    x = x0 + cons • lin Amᴴ b ∧
    (lin (Amᴴ * Am) x0 = lin Amᴴ b →
      x0 = ∑ t ∈ Finset.range d, c t • lin ((Amᴴ * Am) ^ t) (lin Amᴴ b) →
      IsMinNormLsq (lin Am) b x0 ∧ ‖x - x0‖ = ‖cons‖ * ‖lin Amᴴ b‖) :=
  cgPinvApply_spec m n nb A B solve cons j d c

#print axioms C16_select_largest
#print axioms C16_select_smallest
#print axioms C16_select_zero_quirk
#print axioms C16_argsort
#print axioms C16_svd_dense
#print axioms C16_krylov_tall
#print axioms C16_krylov_wide
#print axioms C16_krylov_model
#print axioms C16_svd_identity
#print axioms C16_svd_diagonal
#print axioms C16_lsq_normal
#print axioms C16_min_norm
#print axioms C16_min_norm_unique
#print axioms C16_pinv_full_column_rank
#print axioms C16_pinv_full_row_rank
#print axioms C16_pinv_rule
#print axioms C16_pinv_structural
#print axioms C16_pinv_cg
#print axioms C16_pinv_cg_value
