import ColaVerif.Properties.C16
import ColaVerif.Properties.C16.WitnessData

/-!
# C16, round 5 — the witnesses AS_BUILT C16 "Not covered" (vi') lists as missing

Every theorem below exhibits exact data on which the WHOLE hypothesis bundle of a C16 theorem holds, and evaluates
the conclusion (obtained by APPLYING that theorem):

* `C16_svd_krylov_wide_sm_witness` — the WIDE branch of the model (`C16_svd_krylov_wide`, `C16_svd_krylov_wide_QY`,
  `C16_svd_krylov_wide_sorted`) and `'SM'`: `Aw = [[0, 1, 0], [2, 0, 0]]` (Dense f64 `2 × 3`), eigensolver
  `Witness.eigsQY` (`Product(Orthonormal(Dense Q), Dense Y)`, ascending `1, 4`), `k = 1 < m = 2`, `'SM'`.
* `C16_krylov_wide_ritz_witness` — `C16_krylov_wide_ritz` on a genuine partial run (`Bw = [[0, 5, 0], [2, 0, 0]]`,
  one Ritz vector that is no eigenvector).
* `C16_krylov_wide_complex_witness` — `C16_krylov_wide` over the COMPLEX carrier: `Ac = [[3, 4 i]]`.
* `C16_svd_diagonal_abs_witness` — `abs_contract` / `inv_contract` of `C16_svd_diagonal` hold for `Witness.P`
  (`|z|` on `ℝ`), applied to `Diagonal(-3, 0, 2)` (a negative and a zero entry): `Σ = diag(3, 0, 2)`.
* `C16_svd_diagonal_complex_witness` — the same over `ℂ` with the modulus as `abs`: `Diagonal(3 + 4 i, -2, 0)`,
  `Σ = diag(5, 2, 0)`.
-/

open Matrix Svd

namespace C16

noncomputable section

/-- **wide branch of the model, `'SM'`, sorted contract, real operator shape**: all hypotheses of
`C16_svd_krylov_wide_sorted` (hence of `C16_svd_krylov_wide` and `_wide_QY`) hold, and its conclusion is evaluated:
position `0` (the SMALLEST eigenvalue `1` of `Aw Awᴴ = diag(1, 4)`) is selected, `Σ = [1]`, orthonormal `U`
(`2 × 1`) and `V` (`3 × 1`), `U Σ Vᴴ = U Uᴴ Aw`, `Uᴴ (Aw - U Σ Vᴴ) = 0`, and the unselected singular value is not
smaller than the selected one. -/
theorem C16_svd_krylov_wide_sm_witness :
    Op.Good Witness.Aw ∧ Witness.Aw.RealTyped ∧ Witness.Aw.rows = 2 ∧ Witness.Aw.cols = 3 ∧
    (∀ G, EigShape (Witness.eigsQY G).W) ∧
    (∀ t : Nat, Witness.P.sqrt ((Witness.lam t : ℝ) : ℝ) = ((Real.sqrt (Witness.lam t) : ℝ) : ℝ)) ∧
    (∀ z : ℝ, Witness.P.inv z = z⁻¹) ∧
    ∃ o, svdKrylov Witness.P Witness.eigsQY false Witness.Aw ((1 : Nat) : Int) .SM = .ok o ∧
      o.tall = false ∧ o.j = 2 ∧ 1 ≤ o.j ∧
      EigsSorted Witness.Aw.rows o.j o.G.den.f (Witness.eigsQY o.G).W.den.f (Witness.eigsQY o.G).vals
        Witness.lam ∧
      o.pos = [0] ∧
      MatF.toMatrix 2 2 o.G.den.f =
        MatF.toMatrix 2 3 Witness.Aw.den.f * (MatF.toMatrix 2 3 Witness.Aw.den.f)ᴴ ∧
      MatF.toMatrix 1 1 o.triple.S.den.f = diagonal (fun _ : Fin 1 => (1 : ℝ)) ∧
      (MatF.toMatrix 2 1 o.triple.U.den.f)ᴴ * MatF.toMatrix 2 1 o.triple.U.den.f = 1 ∧
      (MatF.toMatrix 3 1 o.triple.V.den.f)ᴴ * MatF.toMatrix 3 1 o.triple.V.den.f = 1 ∧
      MatF.toMatrix 2 1 o.triple.U.den.f * MatF.toMatrix 1 1 o.triple.S.den.f *
          (MatF.toMatrix 3 1 o.triple.V.den.f)ᴴ =
        (MatF.toMatrix 2 1 o.triple.U.den.f * (MatF.toMatrix 2 1 o.triple.U.den.f)ᴴ) *
          MatF.toMatrix 2 3 Witness.Aw.den.f ∧
      (MatF.toMatrix 2 1 o.triple.U.den.f)ᴴ *
        (MatF.toMatrix 2 3 Witness.Aw.den.f -
          MatF.toMatrix 2 1 o.triple.U.den.f * MatF.toMatrix 1 1 o.triple.S.den.f *
            (MatF.toMatrix 3 1 o.triple.V.den.f)ᴴ) = 0 ∧
      (∀ p ∈ o.pos, ∀ q, q < o.j → q ∉ o.pos →
        Real.sqrt (Witness.lam p) ≤ Real.sqrt (Witness.lam q)) := by
  have hshape : ∀ G, EigShape (Witness.eigsQY G).W := fun G => Or.inl ⟨_, _, _, _, _, _, _, rfl⟩
  have hAr : Witness.Aw.rows = 2 := by simp only [Witness.Aw, Op.rows]
  have hAc : Witness.Aw.cols = 3 := by simp only [Witness.Aw, Op.cols]
  obtain ⟨o, ho, hwide, hj, hpos, hsorted, hG, _⟩ := Witness.wide_sm_sound
  have hsorted' : EigsSorted Witness.Aw.rows o.j o.G.den.f (Witness.eigsQY o.G).W.den.f
      (Witness.eigsQY o.G).vals Witness.lam := by rw [hAr, hj]; exact hsorted
  -- the conclusion is the one of `C16_svd_krylov_wide_sorted`, applied to this instance
  obtain ⟨hlen, _, hU, hV, hS, _, hrec, hres, _, _, hsmall⟩ :=
    C16_svd_krylov_wide_sorted Witness.P Witness.eigsQY false Witness.Aw 1 .SM o ho hwide Witness.Aw_good
      Witness.Aw_real (hshape o.G) Witness.lam hsorted' (le_refl 1) (by omega) (fun t _ => rfl) (fun z => rfl)
  have hlen1 : o.pos.length = 1 := hlen
  rw [hlen1, hAr] at hU
  rw [hlen1, hAc] at hV
  rw [hlen1, hAr, hAc] at hrec hres
  rw [hlen1] at hS
  refine ⟨Witness.Aw_good, Witness.Aw_real, hAr, hAc, hshape, fun t => rfl, fun z => rfl, o, ho, hwide, hj,
    by omega, hsorted', hpos, hG, ?_, hU, hV, hrec, hres, hsmall rfl⟩
  rw [hS]
  ext i j
  fin_cases i; fin_cases j
  simp only [hpos, Witness.lam, Matrix.diagonal_apply]
  simp

/-- **`C16_krylov_wide_ritz` on a genuine partial run**: for `Bw = [[0, 5, 0], [2, 0, 0]]` (`2 × 3`) and the one
Lanczos vector `v = (3/5, 4/5)` of `Bw Bwᴴ = diag(25, 4)` the hypotheses `ritz_contract` (Ritz value `289/25`),
`sqrt_contract` (`σ = 17/5`), `inv_contract` hold, `v` is NOT an eigenvector (`eigs_contract` of `C16_krylov_wide`
fails), and the conclusion of `C16_krylov_wide_ritz` holds: `σ > 0`, `Vᴴ V = 1` for the back-substituted `V`,
`U Σ Vᴴ = U Uᴴ Bw`, `Uᴴ (Bw - U Σ Vᴴ) = 0`. -/
theorem C16_krylov_wide_ritz_witness :
    let Am := MatF.toMatrix 2 3 Witness.bw
    let U := MatF.toMatrix 2 1 Witness.v
    let V := MatF.toMatrix 3 1 (backsubV 2 1 Witness.bw Witness.v Witness.ritzSinv)
    let Sg : Matrix (Fin 1) (Fin 1) ℝ := diagonal (fun i : Fin 1 => ((Witness.ritzSigma i.val : ℝ) : ℝ))
    Am * Amᴴ * U ≠ U * diagonal (fun i : Fin 1 => ((Witness.ritzLam i.val : ℝ) : ℝ)) ∧
    Uᴴ * U = 1 ∧ (∀ i, i < 1 → 0 < Witness.ritzSigma i) ∧ Vᴴ * V = 1 ∧
    U * Sg * Vᴴ = (U * Uᴴ) * Am ∧ Uᴴ * (Am - U * Sg * Vᴴ) = 0 := by
  intro Am U V Sg
  obtain ⟨hritz, hsq, hinv, horth, hne⟩ := Witness.wide_ritz_ok
  obtain ⟨h1, h2, h3, h4⟩ :=
    C16_krylov_wide_ritz 2 3 1 Witness.bw Witness.v Witness.ritzLam Witness.ritzSigma Witness.ritzSinv
      hritz hsq hinv
  exact ⟨hne, horth, h1, h2, h3, h4 horth⟩

/-- **`C16_krylov_wide` over the COMPLEX carrier**: `Ac = [[3, 4 i]]` (`1 × 2`, a non-real entry), `Ac Acᴴ = [25]`,
`U = [1]`, `λ = 25`, `σ = 5`: `eigs_contract`, `sqrt_contract`, `inv_contract` hold, and the conclusion of
`C16_krylov_wide` with `𝕜 = ℂ`: `Vᴴ V = 1` for `V = Acᴴ U / σ`, and `U Σ Vᴴ = Ac` exactly (`U Uᴴ = 1`). -/
theorem C16_krylov_wide_complex_witness :
    let Am := MatF.toMatrix 1 2 Witness.ac
    let U := MatF.toMatrix 1 1 Witness.uc
    let V := MatF.toMatrix 2 1 (backsubV 1 1 Witness.ac Witness.uc Witness.sinvC)
    let Sg : Matrix (Fin 1) (Fin 1) ℂ := diagonal (fun i : Fin 1 => ((Witness.sigmaC i.val : ℝ) : ℂ))
    (Witness.ac 0 1).im = 4 ∧ Uᴴ * U = 1 ∧ Am * Amᴴ * U = U * diagonal (fun _ : Fin 1 => ((25 : ℝ) : ℂ)) ∧
    Vᴴ * V = 1 ∧ U * Sg * Vᴴ = Am ∧ (Am - U * Sg * Vᴴ) * V = 0 := by
  intro Am U V Sg
  obtain ⟨heig, hsq, hinv⟩ := Witness.wide_complex_ok
  obtain ⟨_, h2, _, _, h5, h6⟩ :=
    C16_krylov_wide 1 2 1 Witness.ac Witness.uc Witness.lamC Witness.sigmaC Witness.sinvC heig hsq hinv
  refine ⟨by simp [Witness.ac], heig.1, heig.2.1, h2, h6 ?_, h5⟩
  exact mul_eq_one_comm.mp heig.1

/-- **`abs_contract` of `C16_svd_diagonal` has an instance** (`Witness.P.abs z = |z|` on `ℝ`; `inv_contract` too),
and the theorem applied to `Diagonal(-3, 0, 2)` — a negative and a ZERO entry —: every `alg` selects the rule, `U`
is unitary, `V = 1`, `Σ = diag(3, 0, 2)` and `U Σ Vᴴ = A`. -/
theorem C16_svd_diagonal_abs_witness :
    let d : Nat → ℝ := fun i => if i = 0 then -3 else if i = 1 then 0 else 2
    let A : Op ℝ := .diag .f64 3 d
    let T := svdDiagonal Witness.P A
    (∀ z : ℝ, Witness.P.abs z = ((‖z‖ : ℝ) : ℝ)) ∧ (∀ z : ℝ, Witness.P.inv z = z⁻¹) ∧
    (∀ alg, svdRule A alg = .diagonal) ∧
    (MatF.toMatrix 3 3 T.U.den.f)ᴴ * MatF.toMatrix 3 3 T.U.den.f = 1 ∧ MatF.toMatrix 3 3 T.V.den.f = 1 ∧
    MatF.toMatrix 3 3 T.S.den.f = diagonal ![(3 : ℝ), 0, 2] ∧
    MatF.toMatrix 3 3 T.U.den.f * MatF.toMatrix 3 3 T.S.den.f * (MatF.toMatrix 3 3 T.V.den.f)ᴴ =
      MatF.toMatrix 3 3 A.den.f := by
  intro d A T
  have habs : ∀ z : ℝ, Witness.P.abs z = ((‖z‖ : ℝ) : ℝ) := fun z => (Real.norm_eq_abs z).symm
  have hinv : ∀ z : ℝ, Witness.P.inv z = z⁻¹ := fun z => rfl
  obtain ⟨h1, h2, _, h4, h5, _, h7⟩ :=
    C16_svd_diagonal Witness.P habs hinv A .f64 3 d (by simp [A, Op.core])
  refine ⟨habs, hinv, h1, h2, h4, ?_, h7⟩
  rw [h5]
  ext i j
  fin_cases i <;> fin_cases j <;> simp [d]

/-- the parameters over `ℂ` used by `C16_svd_diagonal_complex_witness`: `abs` = modulus, `inv` = reciprocal (the
other fields are not read by `svdDiagonal`) -/
def complexParams : Params ℂ where
  lapackSvd := fun _ _ _ => ⟨fun _ _ => 0, fun _ => 0, fun _ _ => 0⟩
  lanczosEigs := fun G => ⟨fun _ => 0, G⟩
  lobpcgEigs := fun _ G => ⟨fun _ => 0, G⟩
  sqrt := fun z => ((Real.sqrt z.re : ℝ) : ℂ)
  inv := fun z => z⁻¹
  lt := fun x y => decide (x.re < y.re)
  re := fun z => ((z.re : ℝ) : ℂ)
  abs := fun z => ((‖z‖ : ℝ) : ℂ)
  precision := fun _ => 0

/-- **`C16_svd_diagonal` over the COMPLEX carrier**: `Diagonal(3 + 4 i, -2, 0)` (c128): `abs_contract`,
`inv_contract` hold for `complexParams`; `U` unitary, `V = 1`, `Σ = diag(5, 2, 0)` — real, non-negative —,
`U Σ Vᴴ = A`. -/
theorem C16_svd_diagonal_complex_witness :
    let d : Nat → ℂ := fun i => if i = 0 then 3 + 4 * Complex.I else if i = 1 then -2 else 0
    let A : Op ℂ := .diag .c128 3 d
    let T := svdDiagonal complexParams A
    (∀ z : ℂ, complexParams.abs z = ((‖z‖ : ℝ) : ℂ)) ∧ (∀ z : ℂ, complexParams.inv z = z⁻¹) ∧
    (d 0).im = 4 ∧
    (MatF.toMatrix 3 3 T.U.den.f)ᴴ * MatF.toMatrix 3 3 T.U.den.f = 1 ∧
    MatF.toMatrix 3 3 T.U.den.f * (MatF.toMatrix 3 3 T.U.den.f)ᴴ = 1 ∧ MatF.toMatrix 3 3 T.V.den.f = 1 ∧
    MatF.toMatrix 3 3 T.S.den.f = diagonal ![(5 : ℂ), 2, 0] ∧
    MatF.toMatrix 3 3 T.U.den.f * MatF.toMatrix 3 3 T.S.den.f * (MatF.toMatrix 3 3 T.V.den.f)ᴴ =
      MatF.toMatrix 3 3 A.den.f := by
  intro d A T
  obtain ⟨_, h2, h3, h4, h5, _, h7⟩ :=
    C16_svd_diagonal complexParams (fun z => rfl) (fun z => rfl) A .c128 3 d (by simp [A, Op.core])
  refine ⟨fun z => rfl, fun z => rfl, by simp [d], h2, h3, h4, ?_, h7⟩
  rw [h5]
  have h34 : ‖(3 + 4 * Complex.I : ℂ)‖ = 5 := by
    have := Complex.norm_add_mul_I 3 4
    rw [show ((3 : ℝ) : ℂ) + ((4 : ℝ) : ℂ) * Complex.I = 3 + 4 * Complex.I by push_cast; ring] at this
    rw [this, show (3 : ℝ) ^ 2 + 4 ^ 2 = 5 ^ 2 by norm_num]
    exact Real.sqrt_sq (by norm_num)
  ext i j
  fin_cases i <;> fin_cases j <;> simp [d, h34]

end

end C16

#print axioms C16.C16_svd_krylov_wide_sm_witness
#print axioms C16.C16_krylov_wide_ritz_witness
#print axioms C16.C16_krylov_wide_complex_witness
#print axioms C16.C16_svd_diagonal_abs_witness
#print axioms C16.C16_svd_diagonal_complex_witness
