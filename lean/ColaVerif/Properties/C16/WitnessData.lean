import ColaVerif.Lemmas.SvdWitness
import Mathlib.Analysis.Complex.Basic
import Mathlib.Analysis.Complex.Norm

/-!
# C16 (round 5): data and helper lemmas of the witnesses in `Properties/C16/Witnesses.lean`

(helper file of the C16 property sub-module; the audited theorems are in `Witnesses.lean`)

* `Aw = [[0, 1, 0], [2, 0, 0]]` (Dense f64 `2 × 3`, WIDE, `Aw Awᴴ = diag(1, 4)`): the rule `svdKrylov` with the
  eigensolver `Witness.eigsQY` (real shape `Product(Orthonormal(Dense Q), Dense Y)`, ascending values `1, 4`),
  `k = 1 < m = 2`, `'SM'` — `wide_sm_sound`.
* `bw = [[0, 5, 0], [2, 0, 0]]`, `v = (3/5, 4/5)`: a partial run on the wide branch — `wide_ritz_ok`.
* `ac = [[3, 4 i]]` over `ℂ` (`1 × 2`, wide, complex): `wide_complex_ok`.
-/

open Matrix

namespace Svd.Witness
open Op

set_option linter.unusedSimpArgs false
set_option linter.unnecessarySeqFocus false
set_option linter.unusedVariables false

noncomputable section

/-! ## the wide branch of the model, `'SM'`, `k = 1 < m = 2` -/

/-- `Aw = [[0, 1, 0], [2, 0, 0]]`: wide (`2 × 3`), not diagonal, `Aw Awᴴ = diag(1, 4)` -/
def aw : MatF ℝ := fun i j => if i = 0 ∧ j = 1 then 1 else if i = 1 ∧ j = 0 then 2 else 0
def Aw : Op ℝ := .dense .f64 2 3 aw

theorem Aw_good : Op.Good Aw := good_dense' _ _ _ _

theorem Aw_real : Aw.RealTyped := by
  simp only [Aw, Op.RealTyped]
  intro _ i j _ _
  simp

theorem wide_sm_sound : ∃ o, svdKrylov P eigsQY false Aw ((1 : Nat) : Int) .SM = .ok o ∧ o.tall = false ∧
    o.j = 2 ∧ o.pos = [0] ∧
    EigsSorted 2 2 o.G.den.f (eigsQY o.G).W.den.f (eigsQY o.G).vals lam ∧
    MatF.toMatrix 2 2 o.G.den.f = MatF.toMatrix 2 3 Aw.den.f * (MatF.toMatrix 2 3 Aw.den.f)ᴴ ∧
    MatF.toMatrix 1 1 o.triple.S.den.f = diagonal (fun _ : Fin 1 => (1 : ℝ)) ∧
    (MatF.toMatrix 2 1 o.triple.U.den.f)ᴴ * MatF.toMatrix 2 1 o.triple.U.den.f = 1 ∧
    (MatF.toMatrix 3 1 o.triple.V.den.f)ᴴ * MatF.toMatrix 3 1 o.triple.V.den.f = 1 ∧
    MatF.toMatrix 2 1 o.triple.U.den.f * MatF.toMatrix 1 1 o.triple.S.den.f *
        (MatF.toMatrix 3 1 o.triple.V.den.f)ᴴ =
      (MatF.toMatrix 2 1 o.triple.U.den.f * (MatF.toMatrix 2 1 o.triple.U.den.f)ᴴ) *
        MatF.toMatrix 2 3 Aw.den.f ∧
    (MatF.toMatrix 2 1 o.triple.U.den.f)ᴴ *
      (MatF.toMatrix 2 3 Aw.den.f - MatF.toMatrix 2 1 o.triple.U.den.f * MatF.toMatrix 1 1 o.triple.S.den.f *
        (MatF.toMatrix 3 1 o.triple.V.den.f)ᴴ) = 0 ∧
    (∀ p ∈ o.pos, ∀ q, q < o.j → q ∉ o.pos → Real.sqrt (lam p) ≤ Real.sqrt (lam q)) := by
  obtain ⟨o, ho⟩ := svdKrylov_total P eigsQY false Aw 1 .SM (Or.inr rfl) Aw_good Aw_real eigsQY_shape
  have hspec := svdKrylov_spec P eigsQY false Aw ((1 : Nat) : Int) .SM o ho
  have hwide : o.tall = false := by
    rw [hspec.2.1]; simp [Aw, Op.rows, Op.cols]
  have hj : o.j = 2 := by
    rw [svdKrylov_j P eigsQY false Aw _ .SM o ho]; exact eigsQY_cols _
  have hAr : Aw.rows = 2 := by simp only [Aw, Op.rows]
  have hAc : Aw.cols = 3 := by simp only [Aw, Op.cols]
  have hgram := gram_wide_den Aw o.G Aw_good Aw_real ((svdKrylov_gram P eigsQY false Aw _ .SM o ho).2 hwide)
  have hG : MatF.toMatrix 2 2 o.G.den.f = diagonal (fun i : Fin 2 => lam i.val) := by
    have := hgram.2.2
    rw [hAc, hAr] at this
    rw [MatF.toMatrix_congr this]
    ext i j
    fin_cases i <;> fin_cases j <;>
      simp [MatF.toMatrix_apply, mmul_apply, Finset.sum_range_succ, conjM, transposeM, Aw, aw, lam,
        den_dense_f] <;> norm_num
  have hsorted : EigsSorted 2 2 o.G.den.f (eigsQY o.G).W.den.f (eigsQY o.G).vals lam := by
    refine ⟨?_, ?_, ?_, ?_, ?_⟩
    · rw [eigsQY_den]; simp
    · rw [eigsQY_den, hG, Matrix.mul_one, Matrix.one_mul]; rfl
    · intro t ht; interval_cases t <;> simp [eigsQY, lam]
    · intro t ht; interval_cases t <;> simp [lam]
    · intro s t hst ht; interval_cases t <;> interval_cases s <;> simp [lam]
  have hsorted' : EigsSorted Aw.rows o.j o.G.den.f (eigsQY o.G).W.den.f (eigsQY o.G).vals lam := by
    rw [hAr, hj]; exact hsorted
  obtain ⟨hform, hlen, hsel, _, hsmall⟩ :=
    svdKrylov_select_sorted P eigsQY false Aw 1 .SM o ho Aw.rows lam hsorted' (by omega) (by omega)
  have hpos : o.pos = [0] := by
    rcases hform with ⟨hw, _⟩ | ⟨_, hp⟩
    · cases hw
    · rw [hp]; rfl
  have key := svdKrylov_wide_sound P eigsQY false Aw 1 .SM o ho hwide Aw_good Aw_real (eigsQY_shape o.G).1
    (fun t => lam (o.pos.getD t 0)) hsel (by intro t _; rfl) (by intro z; rfl)
  obtain ⟨hGG, hU, hV, hS, _, hrec, hres, _, _⟩ := key
  have hlen1 : o.pos.length = 1 := by rw [hpos]; rfl
  rw [hAr, hAc] at hGG
  rw [hlen1, hAr] at hU
  rw [hlen1, hAc] at hV
  rw [hlen1, hAr, hAc] at hrec hres
  rw [hlen1] at hS
  refine ⟨o, ho, hwide, hj, hpos, hsorted, hGG, ?_, hU, hV, hrec, hres,
    fun p hp q hq hnq => (hsmall rfl p hp q hq hnq).2⟩
  rw [hS]
  ext i j
  fin_cases i; fin_cases j
  simp only [hpos, lam, Matrix.diagonal_apply]
  simp

/-! ## a partial run on the wide branch: one Ritz vector of `B Bᴴ` -/

/-- `Bw = [[0, 5, 0], [2, 0, 0]]` (`2 × 3`), `Bw Bwᴴ = diag(25, 4)`; with the unit vector `v = (3/5, 4/5)` (no
eigenvector of `Bw Bwᴴ`): Ritz value `289 / 25`, `σ = 17 / 5` -/
def bw : MatF ℝ := fun i j => if i = 0 ∧ j = 1 then 5 else if i = 1 ∧ j = 0 then 2 else 0

theorem wide_ritz_ok :
    ((MatF.toMatrix 2 1 v)ᴴ * (MatF.toMatrix 2 3 bw * (MatF.toMatrix 2 3 bw)ᴴ) * MatF.toMatrix 2 1 v =
        diagonal (fun i : Fin 1 => ((ritzLam i.val : ℝ) : ℝ)) ∧
      ∀ i, i < 1 → 0 < ritzLam i) ∧
    (∀ i, i < 1 → ritzSigma i = Real.sqrt (ritzLam i)) ∧
    (∀ i, i < 1 → ritzSinv i = (((ritzSigma i)⁻¹ : ℝ) : ℝ)) ∧
    (MatF.toMatrix 2 1 v)ᴴ * MatF.toMatrix 2 1 v = 1 ∧
    MatF.toMatrix 2 3 bw * (MatF.toMatrix 2 3 bw)ᴴ * MatF.toMatrix 2 1 v ≠
      MatF.toMatrix 2 1 v * diagonal (fun i : Fin 1 => ((ritzLam i.val : ℝ) : ℝ)) := by
  refine ⟨⟨?_, ?_⟩, ?_, ?_, ?_, ?_⟩
  · ext i j
    fin_cases i; fin_cases j
    simp [Matrix.mul_apply, Fin.sum_univ_two, Fin.sum_univ_three, MatF.toMatrix_apply, bw, v, ritzLam]
    norm_num
  · intro i _; simp only [ritzLam]; norm_num
  · intro i _; simp only [ritzSigma, ritzLam]; exact sqrt_ritz.symm
  · intro i _; simp only [ritzSinv, ritzSigma]; norm_num
  · ext i j
    fin_cases i; fin_cases j
    simp [Matrix.mul_apply, Fin.sum_univ_two, MatF.toMatrix_apply, v]
    norm_num
  · intro h
    have := congrFun (congrFun h 0) 0
    simp [Matrix.mul_apply, Fin.sum_univ_two, Fin.sum_univ_three, MatF.toMatrix_apply, bw, v, ritzLam] at this
    norm_num at this

/-! ## a complex carrier: the wide branch over `ℂ` -/

/-- `Ac = [[3, 4 i]]` (`1 × 2`, wide, genuinely complex); `Ac Acᴴ = [25]` -/
def ac : MatF ℂ := fun i j => if i = 0 ∧ j = 0 then 3 else if i = 0 ∧ j = 1 then 4 * Complex.I else 0
/-- the eigenvector `[1]` of the `1 × 1` Gram matrix -/
def uc : MatF ℂ := fun _ _ => 1
def lamC : Nat → ℝ := fun _ => 25
def sigmaC : Nat → ℝ := fun _ => 5
def sinvC : Nat → ℂ := fun _ => ((5 : ℝ)⁻¹ : ℝ)

theorem sqrt_25 : Real.sqrt 25 = 5 := by
  rw [show (25 : ℝ) = 5 ^ 2 by norm_num]
  exact Real.sqrt_sq (by norm_num)

theorem wide_complex_ok :
    ((MatF.toMatrix 1 1 uc)ᴴ * MatF.toMatrix 1 1 uc = 1 ∧
      MatF.toMatrix 1 2 ac * (MatF.toMatrix 1 2 ac)ᴴ * MatF.toMatrix 1 1 uc =
        MatF.toMatrix 1 1 uc * diagonal (fun i : Fin 1 => ((lamC i.val : ℝ) : ℂ)) ∧
      ∀ i, i < 1 → 0 < lamC i) ∧
    (∀ i, i < 1 → sigmaC i = Real.sqrt (lamC i)) ∧
    (∀ i, i < 1 → sinvC i = (((sigmaC i)⁻¹ : ℝ) : ℂ)) := by
  refine ⟨⟨?_, ?_, ?_⟩, ?_, ?_⟩
  · ext i j
    fin_cases i; fin_cases j
    simp [Matrix.mul_apply, MatF.toMatrix_apply, uc]
  · ext i j
    fin_cases i; fin_cases j
    simp [Matrix.mul_apply, Fin.sum_univ_two, MatF.toMatrix_apply, ac, uc, lamC]
    ring_nf
    simp [Complex.I_sq]
    rw [show (starRingEnd ℂ) 3 = 3 from map_ofNat _ 3, show (starRingEnd ℂ) 4 = 4 from map_ofNat _ 4]
    norm_num
  · intro i _; simp only [lamC]; norm_num
  · intro i _; simp only [sigmaC, lamC]; exact sqrt_25.symm
  · intro i _; simp only [sinvC, sigmaC]

end

end Svd.Witness
