/-  C19, dispatch level, part C: per-function kernel evaluations (split over modules only so that lake checks them
    in parallel; statements and reading guide are in Properties/C19.lean). -/
import ColaVerif.Model.Structural
import ColaVerif.Gen.StructuralRules

namespace ColaVerif.Properties.C19
open ColaVerif.Dispatch ColaVerif.Structural ColaVerif.Gen.RuleTable ColaVerif.Gen.StructuralRules

theorem C19_dispatch_inv : ∀ c ∈ cases_inv, okCase hier structuredIds family fuel "inv" c.tup = true := by decide +kernel
theorem C19_direct_inv : ∀ c ∈ cases_inv, directCase hier structuredIds entry_inv c.tup = true := by decide +kernel
theorem C19_dispatch_diag : ∀ c ∈ cases_diag, okCase hier structuredIds family fuel "diag" c.tup = true := by decide +kernel
theorem C19_direct_diag : ∀ c ∈ cases_diag, directCase hier structuredIds entry_diag c.tup = true := by decide +kernel
theorem C19_dispatch_trace : ∀ c ∈ cases_trace, okCase hier structuredIds family fuel "trace" c.tup = true := by decide +kernel
theorem C19_direct_trace : ∀ c ∈ cases_trace, directCase hier structuredIds entry_trace c.tup = true := by decide +kernel
theorem C19_dispatch_apply_unary : ∀ c ∈ cases_apply_unary, okCase hier structuredIds family fuel "apply_unary" c.tup = true := by decide +kernel
theorem C19_direct_apply_unary : ∀ c ∈ cases_apply_unary, directCase hier structuredIds entry_apply_unary c.tup = true := by decide +kernel
theorem C19_dispatch_exp : ∀ c ∈ cases_exp, okCase hier structuredIds family fuel "exp" c.tup = true := by decide +kernel
theorem C19_direct_exp : ∀ c ∈ cases_exp, directCase hier structuredIds entry_exp c.tup = true := by decide +kernel
theorem C19_dispatch_log : ∀ c ∈ cases_log, okCase hier structuredIds family fuel "log" c.tup = true := by decide +kernel
theorem C19_direct_log : ∀ c ∈ cases_log, directCase hier structuredIds entry_log c.tup = true := by decide +kernel
theorem C19_dispatch_cholesky : ∀ c ∈ cases_cholesky, okCase hier structuredIds family fuel "cholesky" c.tup = true := by decide +kernel
theorem C19_direct_cholesky : ∀ c ∈ cases_cholesky, directCase hier structuredIds entry_cholesky c.tup = true := by decide +kernel
theorem C19_dispatch_plu : ∀ c ∈ cases_plu, okCase hier structuredIds family fuel "plu" c.tup = true := by decide +kernel
theorem C19_direct_plu : ∀ c ∈ cases_plu, directCase hier structuredIds entry_plu c.tup = true := by decide +kernel

end ColaVerif.Properties.C19
