/-  C19, dispatch level, part A: per-function kernel evaluations (split over modules only so that lake checks them
    in parallel; statements and reading guide are in Properties/C19.lean). -/
import ColaVerif.Model.Structural
import ColaVerif.Gen.StructuralRules

namespace ColaVerif.Properties.C19
open ColaVerif.Dispatch ColaVerif.Structural ColaVerif.Gen.RuleTable ColaVerif.Gen.StructuralRules

theorem C19_dispatch_pow : ∀ c ∈ cases_pow, okCase hier structuredIds family fuel "pow" c.tup = true := by decide +kernel
theorem C19_direct_pow : ∀ c ∈ cases_pow, directCase hier structuredIds entry_pow c.tup = true := by decide +kernel

end ColaVerif.Properties.C19
