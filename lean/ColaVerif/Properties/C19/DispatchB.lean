/-  C19, dispatch level, part B: per-function kernel evaluations (split over modules only so that lake checks them
    in parallel; statements and reading guide are in Properties/C19.lean). -/
import ColaVerif.Model.Structural
import ColaVerif.Gen.StructuralRules

namespace ColaVerif.Properties.C19
open ColaVerif.Dispatch ColaVerif.Structural ColaVerif.Gen.RuleTable ColaVerif.Gen.StructuralRules

theorem C19_dispatch_sqrt : ∀ c ∈ cases_sqrt, okCase hier structuredIds family fuel "sqrt" c.tup = true := by decide +kernel
theorem C19_direct_sqrt : ∀ c ∈ cases_sqrt, directCase hier structuredIds entry_sqrt c.tup = true := by decide +kernel
theorem C19_dispatch_isqrt : ∀ c ∈ cases_isqrt, okCase hier structuredIds family fuel "isqrt" c.tup = true := by decide +kernel
theorem C19_direct_isqrt : ∀ c ∈ cases_isqrt, directCase hier structuredIds entry_isqrt c.tup = true := by decide +kernel
theorem C19_dispatch_slogdet : ∀ c ∈ cases_slogdet, okCase hier structuredIds family fuel "slogdet" c.tup = true := by decide +kernel
theorem C19_direct_slogdet : ∀ c ∈ cases_slogdet, directCase hier structuredIds entry_slogdet c.tup = true := by decide +kernel

end ColaVerif.Properties.C19
