import ColaVerif.Lemmas.EigSelect
import ColaVerif.Lemmas.EigDiag
import ColaVerif.Lemmas.EigTri
import ColaVerif.Lemmas.EigPower
import ColaVerif.Lemmas.EigRitz
import ColaVerif.Lemmas.EigGRat
import Mathlib.Algebra.Order.Field.Rat
import Mathlib.Algebra.Order.Ring.Int
import Mathlib.Tactic.NormNum

/-!
# C10 — `eig` returns the requested eigenpairs of the represented matrix

Theorems about the code model `ColaVerif/Model/Eig.lean` (mirror of `cola/linalg/eig/eigs.py`,
`get_slice`, `cola/linalg/eig/power_iteration.py`, state of /repo after the selection / Triangular /
power-iteration fixes).  LAPACK (`eigh`, `eig`) and the Krylov routines (`lanczos_eigs` — C14,
`arnoldi_eigs` — C15) are parameters: a computed `Spectrum` with a contract.  No theorem needs a defect
clause any more.

Selection (`select_by_magnitude = argsort(abs(·))[get_slice]`):
* `C10_select` — WHATEVER order the routine computed its spectrum in, the rule returns `min(k, n)` of the
  computed pairs, and their values are the `k` of largest (`'LM'`) / smallest (`'SM'`) magnitude as a
  multiset; `C10_select_all` (all `n`: the whole spectrum), `C10_pairs_preserved`, `C10_eigmax_eigmin`.
* `C10_select_sorted` — the lemma behind it: a positional slice of a magnitude-sorted list is the
  extreme selection; `C10_getSlice_positional_witness` — `get_slice` alone on a value-sorted or
  unsorted list is not (why the sort is needed; the defect the fix removed).
Structural rules:
* `C10_identity`, `C10_diagonal` (+ `C10_diagonal_select`) — exact orthonormal eigenpairs of `den`.
* `C10_triangular` (+ `C10_triangular_select`) — triangular DATA, upper or lower whatever the flag says
  (input domain: `triangularData`, `distinctDiagonal` = simple spectrum), any field (real or complex):
  exact eigenvectors, linearly independent.
Power iteration:
* `C10_power_cap`, `C10_power_returns` (law-free: every arithmetic, IEEE included);
  `C10_power_value` — the conjugated product at a unit eigenvector is the eigenvalue;
  `C10_power_conjugation_witness` — the unconjugated one is not.
Krylov paths: `C10_ritz` (conditional on the relation `A Q = Q T` of C14 / C15).
Dispatch: `C10_auto`.

Documented behaviour left as it is (outside `1 ≤ k`, admissible algorithms): `get_slice(0, 'LM')` selects
everything; `Eigh` asserts no `SelfAdjoint`; `Auto(max_iters=…)` with `k = 1, 'LM'` raises `TypeError`;
the value power iteration returns is one step behind its vector (`C10_power_returns`).

Floating-point behaviour, LAPACK and the convergence of power iteration are covered by the
correspondence check `harness/props/c10.py`.
-/

open Eig Finset

namespace C10

/-! ## selection -/

/-- a positional slice of a list ascending in MAGNITUDE is the extreme selection -/
theorem C10_select_sorted {α β : Type} [Preorder β] (w : Which) (mag : α → β) (k : Nat) (vals : List α)
    (k_pos : 0 < k) (sortedByMagnitude : vals.Pairwise (fun a b => mag a ≤ mag b)) :
    IsExtreme w mag k vals (getSlice k w vals) :=
  select_sorted w mag k vals k_pos sortedByMagnitude

section select
variable {R κ : Type} [LinearOrder κ]

/-- **every algorithm rule selects the extreme magnitudes, whatever order the routine computed
them in.**  `out` = `eig_vals[sel], eig_vecs[:, sel]` with `sel = argsort(abs(eig_vals))[get_slice(k, which)]`;
`key` is the magnitude.  The returned pairs are `min(k, n)` of the computed pairs; as a multiset their
values are the `k` of largest / smallest magnitude of the computed values. -/
theorem C10_select (key : R → κ) (k : Nat) (w : Which) (s : Spectrum R) (k_pos : 0 < k)
    (lengths : s.vals.length = s.vecs.length) :
    let out := selectPath (fun a b => decide (a ≤ b)) key k w s
    out.vals.length = min k s.vals.length ∧ out.vals.length = out.vecs.length ∧
    IsExtreme w (fun p : R × List R => key p.1) k (s.vals.zip s.vecs) (out.vals.zip out.vecs) ∧
    IsExtreme w key k s.vals out.vals := by
  intro out
  set sel := getSlice k w (sortByKey (fun a b => decide (a ≤ b)) (fun p : R × List R => key p.1)
    (s.vals.zip s.vecs)) with hsel
  have hvals : out.vals = sel.map (·.1) := rfl
  have hvecs : out.vecs = sel.map (·.2) := rfl
  have hzip : out.vals.zip out.vecs = sel := by
    rw [hvals, hvecs, List.zip_map', List.map_id'' (fun p => rfl)]
  have hext : IsExtreme w (fun p : R × List R => key p.1) k (s.vals.zip s.vecs) sel :=
    select_by_magnitude w _ k _ k_pos
  have hzl : (s.vals.zip s.vecs).length = s.vals.length := by simp [lengths]
  refine ⟨?_, by rw [hvals, hvecs, List.length_map, List.length_map], by rw [hzip]; exact hext, ?_⟩
  · obtain ⟨_, _, hl, _⟩ := hext
    rw [hvals, List.length_map, hl, hzl]
  · obtain ⟨rest, hperm, hl, hdom⟩ := hext
    refine ⟨rest.map (·.1), ?_, by rw [hvals, List.length_map, hl, hzl], ?_⟩
    · have := hperm.map (·.1)
      rw [List.map_append] at this
      rw [hvals]
      refine this.trans ?_
      rw [List.map_fst_zip (le_of_eq lengths)]
    · intro x hx y hy
      rw [hvals] at hx
      obtain ⟨p, hp, rfl⟩ := List.mem_map.mp hx
      obtain ⟨q, hq, rfl⟩ := List.mem_map.mp hy
      exact hdom p hp q hq

/-- asking for all `n` reproduces the whole computed spectrum (in order of ascending magnitude) -/
theorem C10_select_all (key : R → κ) (w : Which) (s : Spectrum R)
    (lengths : s.vals.length = s.vecs.length) :
    let out := selectPath (fun a b => decide (a ≤ b)) key s.vals.length w s
    (out.vals.zip out.vecs).Perm (s.vals.zip s.vecs) ∧ out.vals.Perm s.vals := by
  intro out
  set srt := sortByKey (fun a b => decide (a ≤ b)) (fun p : R × List R => key p.1) (s.vals.zip s.vecs)
    with hs
  have hlen : s.vals.length = srt.length := by
    rw [(sortByKey_perm _ _ _).length_eq]; simp [lengths]
  have hsel : getSlice s.vals.length w srt = srt := by rw [hlen]; exact getSlice_all w srt
  have hvals : out.vals = srt.map (·.1) := by
    show (getSlice s.vals.length w srt).map _ = _; rw [hsel]
  have hvecs : out.vecs = srt.map (·.2) := by
    show (getSlice s.vals.length w srt).map _ = _; rw [hsel]
  have hp : srt.Perm (s.vals.zip s.vecs) := sortByKey_perm _ _ _
  refine ⟨?_, ?_⟩
  · rw [hvals, hvecs, List.zip_map', List.map_id'' (fun p => rfl)]; exact hp
  · rw [hvals]
    have := hp.map (·.1)
    rwa [List.map_fst_zip (le_of_eq lengths)] at this

omit [LinearOrder κ] in
/-- every returned (value, vector) pair is one of the computed pairs, each used at most once:
per-pair contracts of the routine (eigenpair, unit norm) carry over to what `eig` returns -/
theorem C10_pairs_preserved (le : κ → κ → Bool) (key : R → κ) (k : Nat) (w : Which) (s : Spectrum R) :
    let out := selectPath le key k w s
    (out.vals.zip out.vecs).Subperm (s.vals.zip s.vecs) ∧
    ∀ p ∈ out.vals.zip out.vecs, p ∈ s.vals.zip s.vecs := by
  intro out
  have hzip : out.vals.zip out.vecs =
      getSlice k w (sortByKey le (fun p : R × List R => key p.1) (s.vals.zip s.vecs)) := by
    show (List.map _ _).zip (List.map _ _) = _
    rw [List.zip_map', List.map_id'' (fun p => rfl)]
  have hsp : (out.vals.zip out.vecs).Subperm (s.vals.zip s.vecs) := by
    rw [hzip]
    exact (getSlice_sublist k w _).subperm.trans (sortByKey_perm _ _ _).subperm
  exact ⟨hsp, fun p hp => hsp.subset hp⟩

/-- `eigmax` / `eigmin` (`es[0]` of `k = 1`) return a computed value of largest / smallest magnitude -/
theorem C10_eigmax_eigmin (key : R → κ) (s : Spectrum R) (lengths : s.vals.length = s.vecs.length) :
    (∀ x, firstVal (selectPath (fun a b => decide (a ≤ b)) key 1 .LM s) = some x →
      x ∈ s.vals ∧ ∀ y ∈ s.vals, key y ≤ key x) ∧
    (∀ x, firstVal (selectPath (fun a b => decide (a ≤ b)) key 1 .SM s) = some x →
      x ∈ s.vals ∧ ∀ y ∈ s.vals, key x ≤ key y) := by
  refine ⟨?_, ?_⟩
  · intro x hx
    obtain ⟨_, _, _, rest, hperm, _, hdom⟩ := C10_select key 1 .LM s Nat.one_pos lengths
    have hmem : x ∈ (selectPath (fun a b => decide (a ≤ b)) key 1 .LM s).vals :=
      List.mem_of_mem_head? hx
    refine ⟨hperm.subset (List.mem_append_left _ hmem), ?_⟩
    intro y hy
    have hl : (selectPath (fun a b => decide (a ≤ b)) key 1 .LM s).vals.length ≤ 1 := by
      have := (C10_select key 1 .LM s Nat.one_pos lengths).1; omega
    rcases List.mem_append.mp (hperm.mem_iff.mpr hy) with h | h
    · have : y = x := by
        match hv : (selectPath (fun a b => decide (a ≤ b)) key 1 .LM s).vals, hl, h, hmem with
        | [a], _, h1, h2 =>
          rw [List.mem_singleton] at h1 h2; rw [h1, h2]
      rw [this]
    · exact hdom x hmem y h
  · intro x hx
    obtain ⟨_, _, _, rest, hperm, _, hdom⟩ := C10_select key 1 .SM s Nat.one_pos lengths
    have hmem : x ∈ (selectPath (fun a b => decide (a ≤ b)) key 1 .SM s).vals :=
      List.mem_of_mem_head? hx
    refine ⟨hperm.subset (List.mem_append_left _ hmem), ?_⟩
    intro y hy
    have hl : (selectPath (fun a b => decide (a ≤ b)) key 1 .SM s).vals.length ≤ 1 := by
      have := (C10_select key 1 .SM s Nat.one_pos lengths).1; omega
    rcases List.mem_append.mp (hperm.mem_iff.mpr hy) with h | h
    · have : y = x := by
        match hv : (selectPath (fun a b => decide (a ≤ b)) key 1 .SM s).vals, hl, h, hmem with
        | [a], _, h1, h2 =>
          rw [List.mem_singleton] at h1 h2; rw [h1, h2]
      rw [this]
    · exact hdom x hmem y h

end select

/-- every rule that slices presents a magnitude-sorted spectrum to `get_slice` -/
example : [Path.denseEig, .denseEigh, .lanczos, .arnoldi, .lobpcg, .diagonal, .triangular].all
    (fun p => ordering p == .ascendingByMagnitude) = true := by decide

/-- **why the sort by magnitude is needed** (the defect the selection fix removed): `get_slice` alone
on the value-ascending `[-5, 1, 2]` (what `eigh` / `lanczos_eigs` deliver) takes `2` for `'LM'` and `-5`
for `'SM'`, and on the unsorted `[1, 5, -3]` (what `xnp.eig` may deliver) `-3` for `'LM'`; sorted by
magnitude the same slices are right. -/
theorem C10_getSlice_positional_witness :
    let vals : List ℤ := [-5, 1, 2]
    getSlice 1 .LM vals = [2] ∧ ¬ IsExtreme .LM (fun x => |x|) 1 vals (getSlice 1 .LM vals) ∧
    getSlice 1 .SM vals = [-5] ∧ ¬ IsExtreme .SM (fun x => |x|) 1 vals (getSlice 1 .SM vals) ∧
    getSlice 1 .LM ([1, 5, -3] : List ℤ) = [-3] ∧
    ¬ IsExtreme .LM (fun x => |x|) 1 ([1, 5, -3] : List ℤ) (getSlice 1 .LM [1, 5, -3]) ∧
    IsExtreme .LM (fun x => |x|) 1 vals
      (getSlice 1 .LM (sortByKey (fun a b => decide (a ≤ b)) (fun x => |x|) vals)) := by
  intro vals
  refine ⟨by decide, ?_, by decide, ?_, by decide, ?_, select_by_magnitude _ _ _ _ Nat.one_pos⟩
  · exact not_isExtreme_LM _ 1 vals _ 2 (-5) (by decide) (by decide) (by decide)
  · exact not_isExtreme_SM _ 1 vals _ (-5) 1 (by decide) (by decide) (by decide)
  · exact not_isExtreme_LM _ 1 _ _ (-3) 5 (by decide) (by decide) (by decide)

/-! ## structural rules -/

section structural
variable {R : Type} [Field R]

/-- **`Identity` rule**: exact orthonormal eigenpairs of the identity matrix, `min(k, n)` of them -/
theorem C10_identity [StarRing R] (n k : Nat) (w : Which) (k_pos : 0 < k) :
    let out := (identityRule n k w : Spectrum R)
    out.vals.length = min k n ∧ out.vals.length = out.vecs.length ∧
    (∀ p ∈ out.vals.zip out.vecs, IsEigPair n eyeM p.1 p.2) ∧ OrthonormalCols n out.vecs := by
  intro out
  refine ⟨?_, (identityRule_pairs n k w).1, (identityRule_pairs n k w).2,
    identityRule_orthonormal n k w⟩
  show (getSlice k w (List.replicate n (1 : R))).length = _
  rw [getSlice_length k w _ k_pos, List.length_replicate]

/-- **`Diagonal` rule**: exact orthonormal eigenpairs of `den = diag(d)` (columns of a permutation
matrix), for every sort order; the values are a sub-multiset of the diagonal -/
theorem C10_diagonal [StarRing R] (le : R → R → Bool) (n : Nat) (d : Nat → R) (k : Nat) (w : Which)
    (k_pos : 0 < k) :
    let out := diagonalRule le n d k w
    out.vals.length = min k n ∧ out.vals.length = out.vecs.length ∧
    (∀ p ∈ out.vals.zip out.vecs, IsEigPair n (diagM d) p.1 p.2) ∧ OrthonormalCols n out.vecs ∧
    ∃ idx : List Nat, idx.Perm (List.range n) ∧ out.vals = getSlice k w (idx.map d) := by
  intro out
  refine ⟨?_, (diagonalRule_pairs le n d k w).1, (diagonalRule_pairs le n d k w).2,
    diagonalRule_orthonormal le n d k w, argsort le n d, argsort_perm le n d, rfl⟩
  show (getSlice k w ((argsort le n d).map d)).length = _
  rw [getSlice_length k w _ k_pos, List.length_map, argsort_length]

/-- **`Diagonal` rule, selection**: `argsort(abs(diag))` then the positional slice — the values are
the `k` diagonal entries of largest / smallest magnitude (`mag`), whatever their signs or order -/
theorem C10_diagonal_select {β : Type} [LinearOrder β] (mag : R → β) (n : Nat) (d : Nat → R)
    (k : Nat) (w : Which) (k_pos : 0 < k) :
    IsExtreme w mag k ((List.range n).map d)
      (diagonalRule (fun a b => decide (mag a ≤ mag b)) n d k w).vals :=
  diagonalRule_select mag n d k w k_pos

variable [DecidableEq R]

/-- **`Triangular` rule.**  Input domain: `triangularData` — the stored matrix is upper triangular or
has a vanishing strictly upper part on its window (the rule looks at the DATA, not at `A.lower`);
`distinctDiagonal` (simple spectrum; otherwise `np.linalg.solve` raises).  Any field (real or complex
dtype).  Then the rule succeeds and returns the columns `sel = get_slice(argsort(abs(diag)))` (pairwise
distinct positions) of the eigenvector matrix `cols`: each an exact eigenvector of the represented
matrix for its diagonal entry, non-zero, and the returned columns are linearly independent. -/
theorem C10_triangular (le : R → R → Bool) (L : MatF R) (n k : Nat) (w : Which)
    (triangularData : (∀ r c, r < n → c < r → L r c = 0) ∨ (∀ r c, c < n → r < c → L r c = 0))
    (distinctDiagonal : ∀ r i, r < i → i < n → L r r ≠ L i i) :
    ∃ (cols : List (List R)) (out : Spectrum R) (sel : List Nat),
      triangularRule le n L k w = some out ∧
      sel = getSlice k w (argsort le n (fun p => L p p)) ∧ sel.Nodup ∧ (∀ p ∈ sel, p < n) ∧
      out.vals = sel.map (fun p => L p p) ∧ out.vecs = sel.map (fun p => cols.getD p []) ∧
      (∀ p ∈ sel, IsEigPair n L (L p p) (cols.getD p [])) ∧
      LinearIndependent R
        (fun j : Fin sel.length => fun r : Fin n => (cols.getD sel[j.val] []).getD r.val 0) :=
  triangularRule_spec le L n k w triangularData distinctDiagonal

/-- **`Triangular` rule, selection**: the returned values are the `k` diagonal entries of largest /
smallest magnitude -/
theorem C10_triangular_select {β : Type} [LinearOrder β] (mag : R → β) (L : MatF R) (n k : Nat)
    (w : Which) (k_pos : 0 < k) (out : Spectrum R)
    (h : triangularRule (fun a b => decide (mag a ≤ mag b)) n L k w = some out) :
    IsExtreme w mag k ((List.range n).map (fun p => L p p)) out.vals := by
  have hv : out.vals = (diagonalRule (fun a b => decide (mag a ≤ mag b)) n (fun p => L p p) k w).vals := by
    unfold triangularRule at h
    cases hc : triVecs L n with
    | none => rw [hc] at h; simp at h
    | some cols =>
      rw [hc] at h
      simp only [Option.map_some, Option.some.injEq] at h
      rw [← h]
      rfl
  rw [hv]
  exact diagonalRule_select mag n _ k w k_pos

end structural

/-- the lower triangular `[[1, 0], [1, 2]]` (the witness of the former defect) -/
def lowerExample : MatF ℚ := fun r c =>
  if r = 0 ∧ c = 0 then 1 else if r = 1 ∧ c = 0 then 1 else if r = 1 ∧ c = 1 then 2 else 0

/-- the domain hypotheses of `C10_triangular` are satisfiable by lower triangular, non-diagonal data -/
example : (∀ r c, c < 2 → r < c → lowerExample r c = 0) ∧
    (∀ r i, r < i → i < 2 → lowerExample r r ≠ lowerExample i i) ∧ lowerExample 1 0 ≠ 0 := by
  refine ⟨?_, ?_, by norm_num [lowerExample]⟩
  · intro r c hc hr
    have h1 : c = 1 := by omega
    have h0 : r = 0 := by omega
    subst h1 h0; norm_num [lowerExample]
  · intro r i hr hi
    have h1 : i = 1 := by omega
    have h0 : r = 0 := by omega
    subst h1 h0; norm_num [lowerExample]

/-- … and by upper triangular ones (`[[1, 2], [0, 3]]`) -/
example : ∃ L : MatF ℚ, (∀ r c, r < 2 → c < r → L r c = 0) ∧ (∀ r i, r < i → i < 2 → L r r ≠ L i i) ∧
    L 0 1 ≠ 0 := by
  refine ⟨fun r c => if r = 0 ∧ c = 0 then 1 else if r = 0 ∧ c = 1 then 2 else if r = 1 ∧ c = 1 then 3
    else 0, ?_, ?_, by norm_num⟩
  · intro r c hr hc
    have h1 : r = 1 := by omega
    have h0 : c = 0 := by omega
    subst h1 h0; norm_num
  · intro r i hr hi
    have h1 : i = 1 := by omega
    have h0 : r = 0 := by omega
    subst h1 h0; norm_num

/-! ## power iteration -/

section power
variable {K V : Type}

/-- **`C10_power_cap`**: never more than `max_iter` products `A @ v` — the returned state is the
`r.i`-fold iterate of the body (one product each) on the start state, and `r.i ≤ max_iter` -/
theorem C10_power_cap (o : PIOps K V) (tol : K) (maxIter : Nat) (v0 : V) (eig0 eigprev0 : K) :
    let r := powerIteration o tol maxIter v0 eig0 eigprev0
    r = (piBody o)^[r.i] { i := 0, v := v0, vprev := v0, eig := eig0, eigprev := eigprev0 } ∧
    r.i ≤ maxIter :=
  ⟨(powerIteration_spec o tol maxIter v0 eig0 eigprev0).1,
   (powerIteration_spec o tol maxIter v0 eig0 eigprev0).2.1⟩

/-- **what is returned.**  The loop stops at the cap or because the relative change of the value is
not above `tol`; if it stops below the cap the test `err > tol` failed; and after at least one step
the returned value is `o.dot vprev (A vprev)` = `conj(vprev) @ (A vprev)` — at the iterate BEFORE the
returned vector — while the returned vector is `A vprev / ‖A vprev‖`. -/
theorem C10_power_returns (o : PIOps K V) (tol : K) (maxIter : Nat) (v0 : V) (eig0 eigprev0 : K) :
    let r := powerIteration o tol maxIter v0 eig0 eigprev0
    (r.i = maxIter ∨ o.gt (o.relerr r.eig r.eigprev) tol = false) ∧
    (0 < r.i → r.eig = o.dot r.vprev (o.matvec r.vprev) ∧ r.v = o.normalize (o.matvec r.vprev)) :=
  ⟨(powerIteration_spec o tol maxIter v0 eig0 eigprev0).2.2.2.1,
   (powerIteration_spec o tol maxIter v0 eig0 eigprev0).2.2.2.2⟩

end power

section rayleigh
open Matrix
variable {𝕜 : Type} [RCLike 𝕜] {n : Type} [Fintype n]

/-- **value at convergence**: at a unit eigenvector (real or complex) the product `conj(v) @ (A v)` the
code forms is the eigenvalue -/
theorem C10_power_value (A : Matrix n n 𝕜) (u : n → 𝕜) (lam : 𝕜)
    (eigenvector : A *ᵥ u = lam • u) (unit : star u ⬝ᵥ u = 1) :
    star u ⬝ᵥ (A *ᵥ u) = lam :=
  star_dot_mulVec_eigenvector A u lam eigenvector unit

end rayleigh

/-- **why the conjugation is needed** (the defect the fix `3dd8195` removed): the Hermitian
`A = [[9, -12i], [12i, 16]]` has the unit eigenvector `u = (3/5, 4i/5)` for its dominant eigenvalue `25`;
the conjugated product there is `25`, the unconjugated one `-7`. -/
theorem C10_power_conjugation_witness :
    let A : Matrix (Fin 2) (Fin 2) ℂ := !![9, -12 * Complex.I; 12 * Complex.I, 16]
    let u : Fin 2 → ℂ := ![3 / 5, 4 / 5 * Complex.I]
    A.conjTranspose = A ∧ A.mulVec u = (25 : ℂ) • u ∧ dotProduct (star u) u = 1 ∧
      dotProduct (star u) (A.mulVec u) = 25 ∧ dotProduct u (A.mulVec u) = -7 := by
  intro A u
  obtain ⟨h1, h2, h3, h4⟩ := dot_mulVec_complex_witness
  exact ⟨h1, h2, h3, star_dot_mulVec_eigenvector A u 25 h2 h3, h4⟩

/-! ## Krylov paths -/

section ritz
open Matrix
variable {𝕜 : Type} [RCLike 𝕜] {n m κ : Type} [Fintype n] [Fintype m] [Fintype κ] [DecidableEq m]
  [DecidableEq κ]

/-- **Ritz pairs of a full run are eigenpairs** (conditional on the relation `A Q = Q T` and
`Qᴴ Q = 1`, which C14 `C14_lanczos` / C15 establish for a run that exhausts the Krylov space):
eigenpairs `(θ_j, y_j)` of the projected matrix give eigenpairs `(θ_j, Q y_j)` of `A`; they are non-zero,
orthonormal when the `y_j` are (self-adjoint case), linearly independent when the `y_j` are. -/
theorem C10_ritz (A : Matrix n n 𝕜) (Q : Matrix n m 𝕜) (T : Matrix m m 𝕜)
    (relation : A * Q = Q * T) (orthonormal : Qᴴ * Q = 1) (Y : Matrix m κ 𝕜) (θ : κ → 𝕜)
    (projected_pairs : T * Y = Y * diagonal θ) :
    A * (Q * Y) = (Q * Y) * diagonal θ ∧
    (∀ j, (fun a => Y a j) ≠ 0 → Q *ᵥ (fun a => Y a j) ≠ 0) ∧
    (Yᴴ * Y = 1 → (Q * Y)ᴴ * (Q * Y) = 1) ∧
    (LinearIndependent 𝕜 (fun j => fun a => Y a j) →
      LinearIndependent 𝕜 (fun j => Q *ᵥ (fun a => Y a j))) :=
  ⟨ritz_pairs A Q T relation Y θ projected_pairs,
   fun _ hj => ritz_ne_zero Q orthonormal _ hj,
   fun hY => ritz_orthonormal Q orthonormal Y hY,
   fun h => ritz_linearIndependent Q orthonormal _ h⟩

end ritz

/-! ## dispatch -/

/-- **the `Auto` decision and the precedence of the structural rules.**  `Auto` takes a Hermitian
routine (`Eigh`, `Lanczos`) only for operators that are `SelfAdjoint`, power iteration exactly for
`k = 1 ∧ which = 'LM'`, a dense routine exactly when `rows * cols ≤ 10⁶` otherwise, and never trips an
assertion; an `Identity` / `Diagonal` / `Triangular` operator takes its structural rule whatever the
algorithm argument. -/
theorem C10_auto (sa : Bool) (rows cols k : Nat) (w : Which) :
    let a := autoChoice sa rows cols k w
    ((a = .eigh ∨ a = .lanczos) → sa = true) ∧
    ((a = .eig ∨ a = .arnoldi) → sa = false) ∧
    (a = .power ↔ (k = 1 ∧ w = .LM)) ∧
    ((a = .eigh ∨ a = .eig) → rows * cols ≤ 1000000) ∧
    ((a = .lanczos ∨ a = .arnoldi) → 1000000 < rows * cols) ∧
    route .other sa rows cols k w .auto ≠ .assertionError ∧
    (∀ alg, route .identity sa rows cols k w alg = .identity ∧
      route .diagonal sa rows cols k w alg = .diagonal ∧
      route .triangular sa rows cols k w alg = .triangular) := by
  intro a
  have ha : a = autoChoice sa rows cols k w := rfl
  unfold autoChoice at ha
  by_cases h1 : k = 1 ∧ w = .LM
  · simp only [h1, and_self, if_true] at ha
    refine ⟨by simp [ha], by simp [ha], by simp [ha, h1], by simp [ha], by simp [ha], ?_, ?_⟩
    · simp [route, autoChoice, h1, baseRule]
    · intro alg; simp [route]
  · simp only [h1, if_false] at ha
    by_cases hs : rows * cols ≤ 1000000 <;> cases sa <;>
      simp [hs] at ha <;>
      refine ⟨by simp [ha], by simp [ha], by simp [ha, h1], by simp [ha, hs], ?_, ?_, ?_⟩ <;>
      first
        | (intro alg; simp [route])
        | (simp [route, autoChoice, h1, hs, baseRule])
        | (simp [ha]; try omega)

end C10

#print axioms C10.C10_select_sorted
#print axioms C10.C10_select
#print axioms C10.C10_select_all
#print axioms C10.C10_pairs_preserved
#print axioms C10.C10_eigmax_eigmin
#print axioms C10.C10_getSlice_positional_witness
#print axioms C10.C10_identity
#print axioms C10.C10_diagonal
#print axioms C10.C10_diagonal_select
#print axioms C10.C10_triangular
#print axioms C10.C10_triangular_select
#print axioms C10.C10_power_cap
#print axioms C10.C10_power_returns
#print axioms C10.C10_power_value
#print axioms C10.C10_power_conjugation_witness
#print axioms C10.C10_ritz
#print axioms C10.C10_auto
