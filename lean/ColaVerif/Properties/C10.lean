import ColaVerif.Lemmas.EigSelect
import ColaVerif.Lemmas.EigDiag
import ColaVerif.Lemmas.EigTri
import ColaVerif.Lemmas.EigPower
import ColaVerif.Lemmas.EigRitz
import ColaVerif.Lemmas.EigGRat
import ColaVerif.Lemmas.EigDense
import ColaVerif.Lemmas.EigPowerStep
import ColaVerif.Lemmas.EigKrylov
import ColaVerif.Lemmas.EigLobpcg
import ColaVerif.Lemmas.EigLanczosSpectrum
import ColaVerif.Lemmas.EigWitnesses
import ColaVerif.Lemmas.OpMatmat
import Mathlib.Data.Real.Star
import Mathlib.Algebra.Order.Field.Rat
import Mathlib.Algebra.Order.Ring.Int
import Mathlib.Tactic.NormNum

/-!
# C10 — `eig` returns the requested eigenpairs of the represented matrix

Theorems about the code model `ColaVerif/Model/Eig.lean` (mirror of `cola/linalg/eig/eigs.py`,
`get_slice`, `cola/linalg/eig/power_iteration.py`, state of /repo with the selection / Triangular /
power-iteration fixes `9624153`, `bb973bc`, `d3bb5ef`, `3dd8195`, `1c54ca4` landed).  One defect clause:
`droppedNotWanted` of the `LOBPCG` rule (recorded finding `lobpcg-drops-smallest`).

The theorems are about the MATRIX:
* dense rules: `C10_dense_eig`, `C10_dense_spectrum`, `C10_dense_eigh` — from the CONTRACT of LAPACK
  (`DenseContract`: `A P = P diag Λ`, non-zero columns; unitary for `eigh`) every returned pair satisfies
  `A v = λ v` and the selection is made among exactly the eigenvalues of `A` with multiplicities
  (`spectrumOf` = roots of the characteristic polynomial); `C10_dense_op`: on operator trees, about `den A`
  (cites C01 `Op.td_eq`).  Witnesses `C10_dense_contract_witness` (Hermitian input, unitary `P`: the `eigh` case),
  `C10_dense_spectrum_witness` (non-normal input, non-unitary `P`: the general `eig` case, where linear
  independence of the returned eigenvectors is PART OF THE ASSUMED CONTRACT of LAPACK `geev`).
* structural rules on operator trees, NO contract: `C10_identity_den`, `C10_diagonal_den`,
  `C10_triangular_den` — eigenpairs of `den A`, diagonal = spectrum of `den A`.
* Krylov rules COMPOSED with C14 / C15 (loop models and facts cited from `Properties/C14.lean`,
  `Properties/C15.lean`; iteration caps above `n` covered — the cap is inside the loop models):
  `C10_arnoldi_path`, `C10_arnoldi_full`, `C10_lanczos_path`, `C10_lanczos_full`, `C10_lanczos_caps_above_n`
  (every cap `≥ n`, `tol = 0`: no hypothesis about the run), `C10_ritz_lanczos`
  (= `C10_ritz` with `relation` / `orthonormal` discharged); witnesses `C10_arnoldi_clauses_witness`,
  `C10_arnoldi_path_witness`, `C10_lanczos_path_witness` (cap `5 > n = 2`), and of the FULL bundles:
  `C10_arnoldi_full_witness` (3 × 3 non-symmetric, three steps), `C10_ritz_lanczos_witness` (2 × 2, orthonormal `Y`).
  The Lanczos path theorems prove extremeness AMONG THE RITZ VALUES only (a run that stops at a grade `g < n` sees
  `g` of the `n` eigenvalues); `C10_lanczos_spectrum`, `C10_lanczos_spectrum_of_grade`: when the run makes `n = dim`
  steps (grade `n`, cited `C14_grade`) the Ritz values ARE the spectrum of `A` with multiplicities (`spectrumOf`), so the
  selection is extreme over the spectrum of `A`; witness `C10_lanczos_spectrum_witness`.
* `LOBPCG` rule: `C10_lobpcg_partial` under the clause `droppedNotWanted` (finding `lobpcg-drops-smallest`:
  `lobpcg` computes only the `n - 1` algebraically largest pairs), `C10_lobpcg_clause_needed`.
* `C10_select_positions` — `selectPath` (what the theorems are about, what the driver runs) returns the values and
  columns at the positions `selectPos` (what the code computes).
* power iteration at exact arithmetic, every input, every stop: `C10_power_rayleigh`, `C10_power_monotone`
  (Hermitian PSD: Rayleigh quotients never decrease, bounded by `λ_max`), witness `C10_power_psd_witness`.

Selection (`select_by_magnitude = argsort(abs(·))[get_slice]`):
* `C10_select` — WHATEVER order the routine computed its spectrum in, the rule returns `min(k, n)` of the
  computed pairs, and their values are the `k` of largest (`'LM'`) / smallest (`'SM'`) magnitude as a
  multiset; `C10_select_all` (all `n`: the whole spectrum), `C10_pairs_preserved`, `C10_eigmax_eigmin`.
* `C10_select_sorted` — the lemma behind it: a positional slice of a magnitude-sorted list is the
  extreme selection; `C10_getSlice_positional_witness` — `get_slice` alone on a value-sorted or
  unsorted list is not (why the sort is needed; the defect the fix `9624153` removed).
Structural rules:
* `C10_identity`, `C10_diagonal` (+ `C10_diagonal_select`) — exact orthonormal eigenpairs of `den`.
* `C10_triangular` (+ `C10_triangular_select`) — triangular DATA, upper or lower whatever the flag says
  (input domain: `triangularData`, `distinctDiagonal` = simple spectrum), any field (real or complex):
  exact eigenvectors, linearly independent.
Power iteration:
* `C10_power_cap`, `C10_power_returns` (law-free: every arithmetic, IEEE included);
  `C10_power_value` — the conjugated product at a unit eigenvector is the eigenvalue;
  `C10_power_conjugation_witness` — the unconjugated one is not.
Krylov paths: `C10_ritz` (conditional on the relation `A Q = Q T`; discharged by `C10_ritz_lanczos`).
Dispatch: `C10_auto`.

Documented behaviour left as it is (outside `1 ≤ k`, admissible algorithms): `get_slice(0, 'LM')` selects
everything; `Eigh` asserts no `SelfAdjoint`; `Auto(max_iters=…)` with `k = 1, 'LM'` raises `TypeError`;
the value power iteration returns is one step behind its vector (`C10_power_returns`).

Floating-point behaviour, the LAPACK contract (`contract_check`) and the one-step claims of power iteration on
every real run (`power_claims`) are covered by the correspondence check `harness/props/c10.py`; convergence of
power iteration is claimed by the harness only after a stop by the tolerance test.
-/

open Eig Finset
open scoped InnerProductSpace

namespace C10

/-! ## selection -/

/-- a positional slice of a list ascending in MAGNITUDE is the extreme selection -/
theorem C10_select_sorted {α β : Type} [Preorder β] (w : Which) (mag : α → β) (k : Nat) (vals : List α)
    (k_pos : 0 < k) (sortedByMagnitude : vals.Pairwise (fun a b => mag a ≤ mag b)) :
    IsExtreme w mag k vals (getSlice k w vals) :=
  select_sorted w mag k vals k_pos sortedByMagnitude

section select
variable {R κ : Type} [LinearOrder κ]

/-- **every algorithm rule selects the extreme magnitudes, whatever order the routine computed
them in.**  `out` = `eig_vals[sel], eig_vecs[:, sel]` with `sel = argsort(abs(eig_vals))[get_slice(k, which)]`;
`key` is the magnitude.  The returned pairs are `min(k, n)` of the computed pairs; as a multiset their
values are the `k` of largest / smallest magnitude of the computed values. -/
theorem C10_select (key : R → κ) (k : Nat) (w : Which) (s : Spectrum R) (k_pos : 0 < k)
    (lengths : s.vals.length = s.vecs.length) :
    let out := selectPath (fun a b => decide (a ≤ b)) key k w s
    out.vals.length = min k s.vals.length ∧ out.vals.length = out.vecs.length ∧
    IsExtreme w (fun p : R × List R => key p.1) k (s.vals.zip s.vecs) (out.vals.zip out.vecs) ∧
    IsExtreme w key k s.vals out.vals := by
  intro out
  set sel := getSlice k w (sortByKey (fun a b => decide (a ≤ b)) (fun p : R × List R => key p.1)
    (s.vals.zip s.vecs)) with hsel
  have hvals : out.vals = sel.map (·.1) := rfl
  have hvecs : out.vecs = sel.map (·.2) := rfl
  have hzip : out.vals.zip out.vecs = sel := by
    rw [hvals, hvecs, List.zip_map', List.map_id'' (fun p => rfl)]
  have hext : IsExtreme w (fun p : R × List R => key p.1) k (s.vals.zip s.vecs) sel :=
    select_by_magnitude w _ k _ k_pos
  have hzl : (s.vals.zip s.vecs).length = s.vals.length := by simp [lengths]
  refine ⟨?_, by rw [hvals, hvecs, List.length_map, List.length_map], by rw [hzip]; exact hext, ?_⟩
  · obtain ⟨_, _, hl, _⟩ := hext
    rw [hvals, List.length_map, hl, hzl]
  · obtain ⟨rest, hperm, hl, hdom⟩ := hext
    refine ⟨rest.map (·.1), ?_, by rw [hvals, List.length_map, hl, hzl], ?_⟩
    · have := hperm.map (·.1)
      rw [List.map_append] at this
      rw [hvals]
      refine this.trans ?_
      rw [List.map_fst_zip (le_of_eq lengths)]
    · intro x hx y hy
      rw [hvals] at hx
      obtain ⟨p, hp, rfl⟩ := List.mem_map.mp hx
      obtain ⟨q, hq, rfl⟩ := List.mem_map.mp hy
      exact hdom p hp q hq

/-- asking for all `n` reproduces the whole computed spectrum (in order of ascending magnitude) -/
theorem C10_select_all (key : R → κ) (w : Which) (s : Spectrum R)
    (lengths : s.vals.length = s.vecs.length) :
    let out := selectPath (fun a b => decide (a ≤ b)) key s.vals.length w s
    (out.vals.zip out.vecs).Perm (s.vals.zip s.vecs) ∧ out.vals.Perm s.vals := by
  intro out
  set srt := sortByKey (fun a b => decide (a ≤ b)) (fun p : R × List R => key p.1) (s.vals.zip s.vecs)
    with hs
  have hlen : s.vals.length = srt.length := by
    rw [(sortByKey_perm _ _ _).length_eq]; simp [lengths]
  have hsel : getSlice s.vals.length w srt = srt := by rw [hlen]; exact getSlice_all w srt
  have hvals : out.vals = srt.map (·.1) := by
    show (getSlice s.vals.length w srt).map _ = _; rw [hsel]
  have hvecs : out.vecs = srt.map (·.2) := by
    show (getSlice s.vals.length w srt).map _ = _; rw [hsel]
  have hp : srt.Perm (s.vals.zip s.vecs) := sortByKey_perm _ _ _
  refine ⟨?_, ?_⟩
  · rw [hvals, hvecs, List.zip_map', List.map_id'' (fun p => rfl)]; exact hp
  · rw [hvals]
    have := hp.map (·.1)
    rwa [List.map_fst_zip (le_of_eq lengths)] at this

omit [LinearOrder κ] in
/-- every returned (value, vector) pair is one of the computed pairs, each used at most once:
per-pair contracts of the routine (eigenpair, unit norm) carry over to what `eig` returns -/
theorem C10_pairs_preserved (le : κ → κ → Bool) (key : R → κ) (k : Nat) (w : Which) (s : Spectrum R) :
    let out := selectPath le key k w s
    (out.vals.zip out.vecs).Subperm (s.vals.zip s.vecs) ∧
    ∀ p ∈ out.vals.zip out.vecs, p ∈ s.vals.zip s.vecs := by
  intro out
  have hzip : out.vals.zip out.vecs =
      getSlice k w (sortByKey le (fun p : R × List R => key p.1) (s.vals.zip s.vecs)) := by
    show (List.map _ _).zip (List.map _ _) = _
    rw [List.zip_map', List.map_id'' (fun p => rfl)]
  have hsp : (out.vals.zip out.vecs).Subperm (s.vals.zip s.vecs) := by
    rw [hzip]
    exact (getSlice_sublist k w _).subperm.trans (sortByKey_perm _ _ _).subperm
  exact ⟨hsp, fun p hp => hsp.subset hp⟩

/-- `eigmax` / `eigmin` (`es[0]` of `k = 1`) return a computed value of largest / smallest magnitude -/
theorem C10_eigmax_eigmin (key : R → κ) (s : Spectrum R) (lengths : s.vals.length = s.vecs.length) :
    (∀ x, firstVal (selectPath (fun a b => decide (a ≤ b)) key 1 .LM s) = some x →
      x ∈ s.vals ∧ ∀ y ∈ s.vals, key y ≤ key x) ∧
    (∀ x, firstVal (selectPath (fun a b => decide (a ≤ b)) key 1 .SM s) = some x →
      x ∈ s.vals ∧ ∀ y ∈ s.vals, key x ≤ key y) := by
  refine ⟨?_, ?_⟩
  · intro x hx
    obtain ⟨_, _, _, rest, hperm, _, hdom⟩ := C10_select key 1 .LM s Nat.one_pos lengths
    have hmem : x ∈ (selectPath (fun a b => decide (a ≤ b)) key 1 .LM s).vals :=
      List.mem_of_mem_head? hx
    refine ⟨hperm.subset (List.mem_append_left _ hmem), ?_⟩
    intro y hy
    have hl : (selectPath (fun a b => decide (a ≤ b)) key 1 .LM s).vals.length ≤ 1 := by
      have := (C10_select key 1 .LM s Nat.one_pos lengths).1; omega
    rcases List.mem_append.mp (hperm.mem_iff.mpr hy) with h | h
    · have : y = x := by
        match hv : (selectPath (fun a b => decide (a ≤ b)) key 1 .LM s).vals, hl, h, hmem with
        | [a], _, h1, h2 =>
          rw [List.mem_singleton] at h1 h2; rw [h1, h2]
      rw [this]
    · exact hdom x hmem y h
  · intro x hx
    obtain ⟨_, _, _, rest, hperm, _, hdom⟩ := C10_select key 1 .SM s Nat.one_pos lengths
    have hmem : x ∈ (selectPath (fun a b => decide (a ≤ b)) key 1 .SM s).vals :=
      List.mem_of_mem_head? hx
    refine ⟨hperm.subset (List.mem_append_left _ hmem), ?_⟩
    intro y hy
    have hl : (selectPath (fun a b => decide (a ≤ b)) key 1 .SM s).vals.length ≤ 1 := by
      have := (C10_select key 1 .SM s Nat.one_pos lengths).1; omega
    rcases List.mem_append.mp (hperm.mem_iff.mpr hy) with h | h
    · have : y = x := by
        match hv : (selectPath (fun a b => decide (a ≤ b)) key 1 .SM s).vals, hl, h, hmem with
        | [a], _, h1, h2 =>
          rw [List.mem_singleton] at h1 h2; rw [h1, h2]
      rw [this]
    · exact hdom x hmem y h

end select

/-- every rule that slices presents a magnitude-sorted spectrum to `get_slice` -/
example : [Path.denseEig, .denseEigh, .lanczos, .arnoldi, .lobpcg, .diagonal, .triangular].all
    (fun p => ordering p == .ascendingByMagnitude) = true := by decide

/-- **why the sort by magnitude is needed** (the defect the selection fix `9624153` removed): `get_slice` alone
on the value-ascending `[-5, 1, 2]` (what `eigh` / `lanczos_eigs` deliver) takes `2` for `'LM'` and `-5`
for `'SM'`, and on the unsorted `[1, 5, -3]` (what `xnp.eig` may deliver) `-3` for `'LM'`; sorted by
magnitude the same slices are right. -/
theorem C10_getSlice_positional_witness :
    let vals : List ℤ := [-5, 1, 2]
    getSlice 1 .LM vals = [2] ∧ ¬ IsExtreme .LM (fun x => |x|) 1 vals (getSlice 1 .LM vals) ∧
    getSlice 1 .SM vals = [-5] ∧ ¬ IsExtreme .SM (fun x => |x|) 1 vals (getSlice 1 .SM vals) ∧
    getSlice 1 .LM ([1, 5, -3] : List ℤ) = [-3] ∧
    ¬ IsExtreme .LM (fun x => |x|) 1 ([1, 5, -3] : List ℤ) (getSlice 1 .LM [1, 5, -3]) ∧
    IsExtreme .LM (fun x => |x|) 1 vals
      (getSlice 1 .LM (sortByKey (fun a b => decide (a ≤ b)) (fun x => |x|) vals)) := by
  intro vals
  refine ⟨by decide, ?_, by decide, ?_, by decide, ?_, select_by_magnitude _ _ _ _ Nat.one_pos⟩
  · exact not_isExtreme_LM _ 1 vals _ 2 (-5) (by decide) (by decide) (by decide)
  · exact not_isExtreme_SM _ 1 vals _ (-5) 1 (by decide) (by decide) (by decide)
  · exact not_isExtreme_LM _ 1 _ _ (-3) 5 (by decide) (by decide) (by decide)

/-! ## structural rules -/

section structural
variable {R : Type} [Field R]

/-- **`Identity` rule**: exact orthonormal eigenpairs of the identity matrix, `min(k, n)` of them -/
theorem C10_identity [StarRing R] (n k : Nat) (w : Which) (k_pos : 0 < k) :
    let out := (identityRule n k w : Spectrum R)
    out.vals.length = min k n ∧ out.vals.length = out.vecs.length ∧
    (∀ p ∈ out.vals.zip out.vecs, IsEigPair n eyeM p.1 p.2) ∧ OrthonormalCols n out.vecs := by
  intro out
  refine ⟨?_, (identityRule_pairs n k w).1, (identityRule_pairs n k w).2,
    identityRule_orthonormal n k w⟩
  show (getSlice k w (List.replicate n (1 : R))).length = _
  rw [getSlice_length k w _ k_pos, List.length_replicate]

/-- **`Diagonal` rule**: exact orthonormal eigenpairs of `den = diag(d)` (columns of a permutation
matrix), for every sort order; the values are a sub-multiset of the diagonal -/
theorem C10_diagonal [StarRing R] (le : R → R → Bool) (n : Nat) (d : Nat → R) (k : Nat) (w : Which)
    (k_pos : 0 < k) :
    let out := diagonalRule le n d k w
    out.vals.length = min k n ∧ out.vals.length = out.vecs.length ∧
    (∀ p ∈ out.vals.zip out.vecs, IsEigPair n (diagM d) p.1 p.2) ∧ OrthonormalCols n out.vecs ∧
    ∃ idx : List Nat, idx.Perm (List.range n) ∧ out.vals = getSlice k w (idx.map d) := by
  intro out
  refine ⟨?_, (diagonalRule_pairs le n d k w).1, (diagonalRule_pairs le n d k w).2,
    diagonalRule_orthonormal le n d k w, argsort le n d, argsort_perm le n d, rfl⟩
  show (getSlice k w ((argsort le n d).map d)).length = _
  rw [getSlice_length k w _ k_pos, List.length_map, argsort_length]

/-- **`Diagonal` rule, selection**: `argsort(abs(diag))` then the positional slice — the values are
the `k` diagonal entries of largest / smallest magnitude (`mag`), whatever their signs or order -/
theorem C10_diagonal_select {β : Type} [LinearOrder β] (mag : R → β) (n : Nat) (d : Nat → R)
    (k : Nat) (w : Which) (k_pos : 0 < k) :
    IsExtreme w mag k ((List.range n).map d)
      (diagonalRule (fun a b => decide (mag a ≤ mag b)) n d k w).vals :=
  diagonalRule_select mag n d k w k_pos

variable [DecidableEq R]

/-- **`Triangular` rule.**  Input domain: `triangularData` — the stored matrix is upper triangular or
has a vanishing strictly upper part on its window (the rule looks at the DATA, not at `A.lower`);
`distinctDiagonal` (simple spectrum; otherwise `np.linalg.solve` raises).  Any field (real or complex
dtype).  Then the rule succeeds and returns the columns `sel = get_slice(argsort(abs(diag)))` (pairwise
distinct positions) of the eigenvector matrix `cols`: each an exact eigenvector of the represented
matrix for its diagonal entry, non-zero, and the returned columns are linearly independent. -/
theorem C10_triangular (le : R → R → Bool) (L : MatF R) (n k : Nat) (w : Which)
    (triangularData : (∀ r c, r < n → c < r → L r c = 0) ∨ (∀ r c, c < n → r < c → L r c = 0))
    (distinctDiagonal : ∀ r i, r < i → i < n → L r r ≠ L i i) :
    ∃ (cols : List (List R)) (out : Spectrum R) (sel : List Nat),
      triangularRule le n L k w = some out ∧
      sel = getSlice k w (argsort le n (fun p => L p p)) ∧ sel.Nodup ∧ (∀ p ∈ sel, p < n) ∧
      out.vals = sel.map (fun p => L p p) ∧ out.vecs = sel.map (fun p => cols.getD p []) ∧
      (∀ p ∈ sel, IsEigPair n L (L p p) (cols.getD p [])) ∧
      LinearIndependent R
        (fun j : Fin sel.length => fun r : Fin n => (cols.getD sel[j.val] []).getD r.val 0) :=
  triangularRule_spec le L n k w triangularData distinctDiagonal

/-- **`Triangular` rule, selection**: the returned values are the `k` diagonal entries of largest /
smallest magnitude -/
theorem C10_triangular_select {β : Type} [LinearOrder β] (mag : R → β) (L : MatF R) (n k : Nat)
    (w : Which) (k_pos : 0 < k) (out : Spectrum R)
    (h : triangularRule (fun a b => decide (mag a ≤ mag b)) n L k w = some out) :
    IsExtreme w mag k ((List.range n).map (fun p => L p p)) out.vals := by
  have hv : out.vals = (diagonalRule (fun a b => decide (mag a ≤ mag b)) n (fun p => L p p) k w).vals := by
    unfold triangularRule at h
    cases hc : triVecs L n with
    | none => rw [hc] at h; simp at h
    | some cols =>
      rw [hc] at h
      simp only [Option.map_some, Option.some.injEq] at h
      rw [← h]
      rfl
  rw [hv]
  exact diagonalRule_select mag n _ k w k_pos

end structural

/-- the lower triangular `[[1, 0], [1, 2]]` (the witness of the former defect) -/
def lowerExample : MatF ℚ := fun r c =>
  if r = 0 ∧ c = 0 then 1 else if r = 1 ∧ c = 0 then 1 else if r = 1 ∧ c = 1 then 2 else 0

/-- the domain hypotheses of `C10_triangular` are satisfiable by lower triangular, non-diagonal data -/
example : (∀ r c, c < 2 → r < c → lowerExample r c = 0) ∧
    (∀ r i, r < i → i < 2 → lowerExample r r ≠ lowerExample i i) ∧ lowerExample 1 0 ≠ 0 := by
  refine ⟨?_, ?_, by norm_num [lowerExample]⟩
  · intro r c hc hr
    have h1 : c = 1 := by omega
    have h0 : r = 0 := by omega
    subst h1 h0; norm_num [lowerExample]
  · intro r i hr hi
    have h1 : i = 1 := by omega
    have h0 : r = 0 := by omega
    subst h1 h0; norm_num [lowerExample]

/-- … and by upper triangular ones (`[[1, 2], [0, 3]]`) -/
example : ∃ L : MatF ℚ, (∀ r c, r < 2 → c < r → L r c = 0) ∧ (∀ r i, r < i → i < 2 → L r r ≠ L i i) ∧
    L 0 1 ≠ 0 := by
  refine ⟨fun r c => if r = 0 ∧ c = 0 then 1 else if r = 0 ∧ c = 1 then 2 else if r = 1 ∧ c = 1 then 3
    else 0, ?_, ?_, by norm_num⟩
  · intro r c hr hc
    have h1 : r = 1 := by omega
    have h0 : c = 0 := by omega
    subst h1 h0; norm_num
  · intro r i hr hi
    have h1 : i = 1 := by omega
    have h0 : r = 0 := by omega
    subst h1 h0; norm_num

/-! ## power iteration -/

section power
variable {K V : Type}

/-- **`C10_power_cap`**: never more than `max_iter` products `A @ v` — the returned state is the
`r.i`-fold iterate of the body (one product each) on the start state, and `r.i ≤ max_iter` -/
theorem C10_power_cap (o : PIOps K V) (tol : K) (maxIter : Nat) (v0 : V) (eig0 eigprev0 : K) :
    let r := powerIteration o tol maxIter v0 eig0 eigprev0
    r = (piBody o)^[r.i] { i := 0, v := v0, vprev := v0, eig := eig0, eigprev := eigprev0 } ∧
    r.i ≤ maxIter :=
  ⟨(powerIteration_spec o tol maxIter v0 eig0 eigprev0).1,
   (powerIteration_spec o tol maxIter v0 eig0 eigprev0).2.1⟩

/-- **what is returned.**  The loop stops at the cap or because the relative change of the value is
not above `tol`; if it stops below the cap the test `err > tol` failed; and after at least one step
the returned value is `o.dot vprev (A vprev)` = `conj(vprev) @ (A vprev)` — at the iterate BEFORE the
returned vector — while the returned vector is `A vprev / ‖A vprev‖`. -/
theorem C10_power_returns (o : PIOps K V) (tol : K) (maxIter : Nat) (v0 : V) (eig0 eigprev0 : K) :
    let r := powerIteration o tol maxIter v0 eig0 eigprev0
    (r.i = maxIter ∨ o.gt (o.relerr r.eig r.eigprev) tol = false) ∧
    (0 < r.i → r.eig = o.dot r.vprev (o.matvec r.vprev) ∧ r.v = o.normalize (o.matvec r.vprev)) :=
  ⟨(powerIteration_spec o tol maxIter v0 eig0 eigprev0).2.2.2.1,
   (powerIteration_spec o tol maxIter v0 eig0 eigprev0).2.2.2.2⟩

end power

section rayleigh
open Matrix
variable {𝕜 : Type} [RCLike 𝕜] {n : Type} [Fintype n]

/-- **value at convergence**: at a unit eigenvector (real or complex) the product `conj(v) @ (A v)` the
code forms is the eigenvalue -/
theorem C10_power_value (A : Matrix n n 𝕜) (u : n → 𝕜) (lam : 𝕜)
    (eigenvector : A *ᵥ u = lam • u) (unit : star u ⬝ᵥ u = 1) :
    star u ⬝ᵥ (A *ᵥ u) = lam :=
  star_dot_mulVec_eigenvector A u lam eigenvector unit

end rayleigh

/-- **why the conjugation is needed** (the defect the fix `3dd8195` removed): the Hermitian
`A = [[9, -12i], [12i, 16]]` has the unit eigenvector `u = (3/5, 4i/5)` for its dominant eigenvalue `25`;
the conjugated product there is `25`, the unconjugated one `-7`. -/
theorem C10_power_conjugation_witness :
    let A : Matrix (Fin 2) (Fin 2) ℂ := !![9, -12 * Complex.I; 12 * Complex.I, 16]
    let u : Fin 2 → ℂ := ![3 / 5, 4 / 5 * Complex.I]
    A.conjTranspose = A ∧ A.mulVec u = (25 : ℂ) • u ∧ dotProduct (star u) u = 1 ∧
      dotProduct (star u) (A.mulVec u) = 25 ∧ dotProduct u (A.mulVec u) = -7 := by
  intro A u
  obtain ⟨h1, h2, h3, h4⟩ := dot_mulVec_complex_witness
  exact ⟨h1, h2, h3, star_dot_mulVec_eigenvector A u 25 h2 h3, h4⟩

/-! ## Krylov paths -/

section ritz
open Matrix
variable {𝕜 : Type} [RCLike 𝕜] {n m κ : Type} [Fintype n] [Fintype m] [Fintype κ] [DecidableEq m]
  [DecidableEq κ]

/-- **Ritz pairs of a full run are eigenpairs** (conditional on the relation `A Q = Q T` and
`Qᴴ Q = 1`, which C14 `C14_lanczos` / C15 establish for a run that exhausts the Krylov space):
eigenpairs `(θ_j, y_j)` of the projected matrix give eigenpairs `(θ_j, Q y_j)` of `A`; they are non-zero,
orthonormal when the `y_j` are (self-adjoint case), linearly independent when the `y_j` are. -/
theorem C10_ritz (A : Matrix n n 𝕜) (Q : Matrix n m 𝕜) (T : Matrix m m 𝕜)
    (relation : A * Q = Q * T) (orthonormal : Qᴴ * Q = 1) (Y : Matrix m κ 𝕜) (θ : κ → 𝕜)
    (projected_pairs : T * Y = Y * diagonal θ) :
    A * (Q * Y) = (Q * Y) * diagonal θ ∧
    (∀ j, (fun a => Y a j) ≠ 0 → Q *ᵥ (fun a => Y a j) ≠ 0) ∧
    (Yᴴ * Y = 1 → (Q * Y)ᴴ * (Q * Y) = 1) ∧
    (LinearIndependent 𝕜 (fun j => fun a => Y a j) →
      LinearIndependent 𝕜 (fun j => Q *ᵥ (fun a => Y a j))) :=
  ⟨ritz_pairs A Q T relation Y θ projected_pairs,
   fun _ hj => ritz_ne_zero Q orthonormal _ hj,
   fun hY => ritz_orthonormal Q orthonormal Y hY,
   fun h => ritz_linearIndependent Q orthonormal _ h⟩

end ritz

/-! ## the `LOBPCG` rule -/

section lobpcg
variable {R κ : Type} [LinearOrder κ]

/-- **`LOBPCG` rule (partial).**  `s`: the full spectrum of the operator, ascending by value (CONTRACT of the
routine: `lobpcg` returns the `m = min(n - 1, max_iters)` algebraically largest pairs of it — `lobpcgComputed`).
Clauses: `enoughComputed` (`k ≤ m`; fails for `k = n`) and `droppedNotWanted` — the recorded finding
`lobpcg-drops-smallest`: every eigenvalue `lobpcg` does NOT compute has magnitude at most (`'LM'`) / at least (`'SM'`)
that of every computed one.  Under them the rule returns the `k` extreme-magnitude values of the whole spectrum. -/
theorem C10_lobpcg_partial (key : R → κ) (k : Nat) (w : Which) (maxIters : Nat) (s : Spectrum R)
    (k_pos : 0 < k) (lengths : s.vals.length = s.vecs.length)
    (enoughComputed : k ≤ min (s.vals.length - 1) maxIters)
    (droppedNotWanted : ∀ x ∈ s.vals.take (s.vals.length - min (s.vals.length - 1) maxIters),
      ∀ y ∈ s.vals.drop (s.vals.length - min (s.vals.length - 1) maxIters),
        match w with
        | .LM => key x ≤ key y
        | .SM => key y ≤ key x) :
    let out := lobpcgRule (fun a b => decide (a ≤ b)) key k w maxIters s
    out.vals.length = min k s.vals.length ∧ IsExtreme w key k s.vals out.vals :=
  lobpcgRule_spec key k w maxIters s k_pos lengths enoughComputed droppedNotWanted

end lobpcg

/-- the clauses of `C10_lobpcg_partial` are satisfiable: a positive spectrum `[1, 2, 3, 4]`, `'LM'`, `k = 2` -/
example : (2 : Nat) ≤ min (([1, 2, 3, 4] : List ℤ).length - 1) 100 ∧
    ∀ x ∈ ([1, 2, 3, 4] : List ℤ).take (4 - min (4 - 1) 100), ∀ y ∈ ([1, 2, 3, 4] : List ℤ).drop (4 - min (4 - 1) 100),
      |x| ≤ |y| := by
  refine ⟨by decide, ?_⟩
  intro x hx y hy
  simp at hx hy
  subst hx
  rcases hy with rfl | rfl | rfl <;> decide

/-- **the clause `droppedNotWanted` is needed** (finding `lobpcg-drops-smallest`, a genuine defect of
`eig(A, k, 'SM', LOBPCG())`): on the positive definite spectrum `[1, 2, 3, 4]` with `k = 1`, `'SM'` the rule returns
`2` — `lobpcg` never computes the algebraically smallest pair — which is not the smallest-magnitude eigenvalue. -/
theorem C10_lobpcg_clause_needed :
    (lobpcgRule (fun a b => decide (a ≤ b)) (fun x : ℤ => |x|) 1 .SM 100
      { vals := [1, 2, 3, 4], vecs := [[], [], [], []] }).vals = [2] ∧
    ¬ IsExtreme .SM (fun x : ℤ => |x|) 1 [1, 2, 3, 4] [2] :=
  ⟨lobpcgRule_witness, not_isExtreme_SM _ 1 _ _ 2 1 (by decide) (by decide) (by decide)⟩

/-! ## dispatch -/

/-- **the `Auto` decision and the precedence of the structural rules.**  `Auto` takes a Hermitian
routine (`Eigh`, `Lanczos`) only for operators that are `SelfAdjoint`, power iteration exactly for
`k = 1 ∧ which = 'LM'`, a dense routine exactly when `rows * cols ≤ 10⁶` otherwise, and never trips an
assertion; an `Identity` / `Diagonal` / `Triangular` operator takes its structural rule whatever the
algorithm argument. -/
theorem C10_auto (sa : Bool) (rows cols k : Nat) (w : Which) :
    let a := autoChoice sa rows cols k w
    ((a = .eigh ∨ a = .lanczos) → sa = true) ∧
    ((a = .eig ∨ a = .arnoldi) → sa = false) ∧
    (a = .power ↔ (k = 1 ∧ w = .LM)) ∧
    ((a = .eigh ∨ a = .eig) → rows * cols ≤ 1000000) ∧
    ((a = .lanczos ∨ a = .arnoldi) → 1000000 < rows * cols) ∧
    route .other sa rows cols k w .auto ≠ .assertionError ∧
    (∀ alg, route .identity sa rows cols k w alg = .identity ∧
      route .diagonal sa rows cols k w alg = .diagonal ∧
      route .triangular sa rows cols k w alg = .triangular) := by
  intro a
  have ha : a = autoChoice sa rows cols k w := rfl
  unfold autoChoice at ha
  by_cases h1 : k = 1 ∧ w = .LM
  · simp only [h1, and_self, if_true] at ha
    refine ⟨by simp [ha], by simp [ha], by simp [ha, h1], by simp [ha], by simp [ha], ?_, ?_⟩
    · simp [route, autoChoice, h1, baseRule]
    · intro alg; simp [route]
  · simp only [h1, if_false] at ha
    by_cases hs : rows * cols ≤ 1000000 <;> cases sa <;>
      simp [hs] at ha <;>
      refine ⟨by simp [ha], by simp [ha], by simp [ha, h1], by simp [ha, hs], ?_, ?_, ?_⟩ <;>
      first
        | (intro alg; simp [route])
        | (simp [route, autoChoice, h1, hs, baseRule])
        | (simp [ha]; try omega)


/-! ## positions -/

/-- **`eig_vals[sel], eig_vecs[:, sel]` with `sel = select_by_magnitude(…)`**: the function the selection theorems
are about (`selectPath`: sort the PAIRS by the magnitude of the value, slice) returns exactly the values and columns
at the positions `selectPos` = `argsort(abs(eig_vals))[get_slice(k, which)]` — what the code computes.  The driver
executes `selectPath` itself (`DriverC10.lean: handleSelect`) and cross-checks `selectPos`. -/
theorem C10_select_positions {R κ : Type} [Inhabited κ] (le : κ → κ → Bool) (key : R → κ) (k : Nat)
    (w : Which) (s : Spectrum R) (d : R) (lengths : s.vals.length = s.vecs.length) :
    (selectPath le key k w s).vals =
      (selectPos le (s.vals.map key) k w).map (fun i => s.vals.getD i d) ∧
    (selectPath le key k w s).vecs =
      (selectPos le (s.vals.map key) k w).map (fun i => s.vecs.getD i []) :=
  selectPath_eq_selectPos le key k w s d lengths

/-! ## the dense rules against the matrix -/

section dense
variable {R κ : Type} [Field R] [LinearOrder κ]

/-- **`Eig` / `Eigh` rules: every returned pair is an eigenpair OF THE MATRIX.**  `A` is the matrix handed to
LAPACK (`A.to_dense()`; `Op.td_eq` of C01: `= den A` on the window).  CONTRACT (assumed of `xnp.eig` / `xnp.eigh`,
observed on every computed spectrum by `contract_check` in `harness/props/c10.py`): `DenseContract n A s` —
`n` values, `n` columns of length `n`, `A P = P diag(Λ)`, no zero column.  From it, for the pairs
`eig_vals[sel], eig_vecs[:, sel]` the rule returns: there are `min(k, n)`; EACH satisfies `A v = λ v` with
`v ≠ 0` of length `n`; the values are the `k` extreme-magnitude members of the computed values. -/
theorem C10_dense_eig (n : Nat) (A : MatF R) (key : R → κ) (k : Nat) (w : Which) (s : Spectrum R)
    (k_pos : 0 < k) (contract : DenseContract n A s) :
    let out := selectPath (fun a b => decide (a ≤ b)) key k w s
    out.vals.length = min k n ∧ out.vals.length = out.vecs.length ∧
    (∀ p ∈ out.vals.zip out.vecs, IsEigPair n A p.1 p.2) ∧
    IsExtreme w key k s.vals out.vals := by
  intro out
  obtain ⟨h1, h2, _, h4⟩ := C10_select key k w s k_pos contract.lengths
  refine ⟨by rw [h1, contract.count], h2, ?_, h4⟩
  intro p hp
  exact contract.pairs p ((C10_pairs_preserved _ key k w s).2 p hp)

/-- **… and the selection is made among exactly the eigenvalues of `A`, with multiplicities.**  Premise
`independent : IsUnit (colsM n n s.vecs)` — the computed `P` is invertible (linearly independent columns).  For the
general `Eig` rule this is NOT proved: it is part of the ASSUMED CONTRACT of `xnp.eig` (LAPACK `geev` returns a full
set of independent eigenvectors only for a diagonalisable input; for a defective matrix it returns dependent columns
and the premise fails); observed on every computed spectrum by `contract_check` (`smin(P) ≥ 1e-8`).  For the `Eigh`
rule it is PROVED from the unitarity of `P` (`C10_dense_eigh`).  Under it the computed values are, as a multiset, the
roots of the characteristic polynomial of `A` (`spectrumOf`), so for EVERY listing `l` of the spectrum of `A` the
returned values are the `k` members of `l` of largest / smallest magnitude.  Witness on a non-normal input with a
non-unitary `P`: `C10_dense_spectrum_witness`. -/
theorem C10_dense_spectrum (n : Nat) (A : MatF R) (key : R → κ) (k : Nat) (w : Which) (s : Spectrum R)
    (k_pos : 0 < k) (contract : DenseContract n A s) (independent : IsUnit (colsM n n s.vecs)) :
    spectrumOf n A = (s.vals : Multiset R) ∧
    ∀ l : List R, (l : Multiset R) = spectrumOf n A →
      IsExtreme w key k l (selectPath (fun a b => decide (a ≤ b)) key k w s).vals := by
  have hs := contract.spectrum independent
  refine ⟨hs, fun l hl => ?_⟩
  have hperm : s.vals.Perm l := by
    rw [hs] at hl
    exact (Multiset.coe_eq_coe.mp hl).symm
  exact (C10_dense_eig n A key k w s k_pos contract).2.2.2.perm hperm

/-- **`Eigh` rule** (the result is wrapped in `Stiefel`): CONTRACT `DenseContract` + `unitary` (`P` has orthonormal
columns).  Then everything of `C10_dense_eig` / `C10_dense_spectrum` holds — independence is derived, not assumed —
and the returned columns are orthonormal. -/
theorem C10_dense_eigh [StarRing R] (n : Nat) (A : MatF R) (key : R → κ) (k : Nat) (w : Which)
    (s : Spectrum R) (k_pos : 0 < k) (contract : DenseContract n A s)
    (unitary : OrthonormalCols n s.vecs) :
    let out := selectPath (fun a b => decide (a ≤ b)) key k w s
    out.vals.length = min k n ∧ out.vals.length = out.vecs.length ∧
    (∀ p ∈ out.vals.zip out.vecs, IsEigPair n A p.1 p.2) ∧ OrthonormalCols n out.vecs ∧
    spectrumOf n A = (s.vals : Multiset R) ∧
    ∀ l : List R, (l : Multiset R) = spectrumOf n A → IsExtreme w key k l out.vals := by
  intro out
  obtain ⟨h1, h2, h3, _⟩ := C10_dense_eig n A key k w s k_pos contract
  have hunit := orthonormalCols_isUnit n s.vecs (by rw [← contract.lengths, contract.count]) unitary
  obtain ⟨h5, h6⟩ := C10_dense_spectrum n A key k w s k_pos contract hunit
  exact ⟨h1, h2, h3, unitary.subperm (selectPath_subperm _ key k w s contract.lengths).2, h5, h6⟩

end dense

/-- `[[41, -12], [-12, 34]]`: eigenvalues `25`, `50`, orthonormal eigenvectors `(3/5, 4/5)`, `(-4/5, 3/5)` -/
noncomputable def denseExample : MatF ℝ := fun r c =>
  if r = 0 ∧ c = 0 then 41 else if r = 1 ∧ c = 1 then 34 else if r + c = 1 then -12 else 0

/-- the spectrum `eigh` computes for it (ascending) -/
noncomputable def denseExampleSpectrum : Spectrum ℝ := { vals := [25, 50], vecs := [[3 / 5, 4 / 5], [-4 / 5, 3 / 5]] }

/-- **the contract is satisfiable on a non-diagonal input, with a unitary `P`** -/
theorem C10_dense_contract_witness :
    DenseContract 2 denseExample denseExampleSpectrum ∧ OrthonormalCols 2 denseExampleSpectrum.vecs ∧
    denseExample 0 1 ≠ 0 := by
  refine ⟨⟨rfl, rfl, ?_, ?_, ?_⟩, ⟨?_, ?_⟩, by norm_num [denseExample]⟩
  · intro v hv
    simp [denseExampleSpectrum] at hv
    rcases hv with rfl | rfl <;> rfl
  · ext i j
    fin_cases i <;> fin_cases j <;>
      simp [Matrix.mul_apply, Fin.sum_univ_two, colsM, valsD, denseExample, denseExampleSpectrum,
        Matrix.diagonal_apply] <;> norm_num
  · intro c h
    fin_cases c
    · have := congrFun h 0
      simp [colsM, denseExampleSpectrum] at this
    · have := congrFun h 1
      simp [colsM, denseExampleSpectrum] at this
  · simp [denseExampleSpectrum, colDot, Finset.sum_range_succ]
    norm_num
  · intro v hv
    simp [denseExampleSpectrum] at hv
    rcases hv with rfl | rfl <;> simp [colDot, Finset.sum_range_succ] <;> norm_num

/-- **the bundle of `C10_dense_spectrum` (`DenseContract` + `independent`) is satisfiable on a general `eig` input**:
`A = [[1, 2], [3, 2]]` (not symmetric, not normal), computed spectrum `Λ = [4, -1]`, `P = [[2, 1], [3, -1]]` — the
columns are NOT orthogonal (`⟨(2,3), (1,-1)⟩ = -1`), `det P = -5`.  The theorem applied to it: the spectrum of `A`
(roots of the characteristic polynomial) is `{4, -1}`, `eig(A, 1, 'LM')` returns `4` with the eigenvector `(2, 3)`,
and `[4]` is the extreme selection of the differently ordered listing `[-1, 4]` of the spectrum. -/
theorem C10_dense_spectrum_witness :
    (DenseContract 2 nonNormalExample nonNormalSpectrum ∧ IsUnit (colsM 2 2 nonNormalSpectrum.vecs) ∧
      nonNormalExample 0 1 ≠ nonNormalExample 1 0 ∧ colDot 2 [2, 3] [1, -1] ≠ (0 : ℚ)) ∧
    spectrumOf 2 nonNormalExample = (([4, -1] : List ℚ) : Multiset ℚ) ∧
    (selectPath (fun a b => decide (a ≤ b)) (fun x : ℚ => |x|) 1 .LM nonNormalSpectrum).vals = [4] ∧
    IsExtreme .LM (fun x : ℚ => |x|) 1 [-1, 4] [4] ∧ IsEigPair 2 nonNormalExample 4 [2, 3] := by
  obtain ⟨hs, hl⟩ := C10_dense_spectrum 2 nonNormalExample (fun x : ℚ => |x|) 1 .LM nonNormalSpectrum Nat.one_pos
    nonNormal_contract nonNormal_independent
  have hsel := nonNormal_select
  refine ⟨⟨nonNormal_contract, nonNormal_independent, by norm_num [nonNormalExample],
    by rw [nonNormal_not_orthogonal]; norm_num⟩, hs, hsel.1, ?_, ?_⟩
  · have := hl [-1, 4] (by rw [hs]; exact Multiset.coe_eq_coe.mpr (List.Perm.swap _ _ _))
    rwa [hsel.1] at this
  · have := (C10_dense_eig 2 nonNormalExample (fun x : ℚ => |x|) 1 .LM nonNormalSpectrum Nat.one_pos
      nonNormal_contract).2.2.1 (4, [2, 3]) (by rw [hsel.1, hsel.2]; simp)
    exact this

section denseOp
variable {R κ : Type} [Field R] [StarRing R] [DecidableEq R] [LinearOrder κ]

/-- **`Eig` / `Eigh` rules on an operator tree.**  The code hands `A.to_dense()` (model `Op.td`) to LAPACK; by C01
(`Op.td_eq`, cited; its hypotheses `wellFormed`, `noDupSlice`, `hermOK` are C01's) that is `den A` on the window, so
the CONTRACT of LAPACK on what it was given yields eigenpairs of the REPRESENTED matrix `den A`, selected among
exactly the spectrum of `den A`. -/
theorem C10_dense_op (A : Op R) (wellFormed : A.wf = true) (noDupSlice : A.dupSlice = false)
    (hermOK : A.HermOK) (square : A.cols = A.rows) (key : R → κ) (k : Nat) (w : Which) (s : Spectrum R)
    (k_pos : 0 < k) (contract : DenseContract A.rows A.td.f s) :
    let out := selectPath (fun a b => decide (a ≤ b)) key k w s
    out.vals.length = min k A.rows ∧ out.vals.length = out.vecs.length ∧
    (∀ p ∈ out.vals.zip out.vecs, IsEigPair A.rows A.den.f p.1 p.2) ∧
    IsExtreme w key k s.vals out.vals ∧
    (IsUnit (colsM A.rows A.rows s.vecs) → ∀ l : List R, (l : Multiset R) = spectrumOf A.rows A.den.f →
      IsExtreme w key k l out.vals) := by
  intro out
  have heq : EqOn A.rows A.rows A.td.f A.den.f := by
    have := Op.td_eq A wellFormed noDupSlice hermOK
    rwa [square] at this
  have hc := contract.congr heq
  obtain ⟨h1, h2, h3, h4⟩ := C10_dense_eig A.rows A.den.f key k w s k_pos hc
  exact ⟨h1, h2, h3, h4, fun hu => (C10_dense_spectrum A.rows A.den.f key k w s k_pos hc hu).2⟩


end denseOp

open Classical in
/-- the operator-tree hypotheses of `C10_dense_op` are satisfiable: `cola.SelfAdjoint(Dense([[41,-12],[-12,34]]))` -/
example : (Op.annot .selfAdjoint (Op.dense .f64 2 2 denseExample) : Op ℝ).wf = true ∧
    (Op.annot .selfAdjoint (Op.dense .f64 2 2 denseExample) : Op ℝ).dupSlice = false ∧
    (Op.annot .selfAdjoint (Op.dense .f64 2 2 denseExample) : Op ℝ).HermOK ∧
    (Op.annot .selfAdjoint (Op.dense .f64 2 2 denseExample) : Op ℝ).cols =
      (Op.annot .selfAdjoint (Op.dense .f64 2 2 denseExample) : Op ℝ).rows := by
  refine ⟨by simp [Op.wf], by simp [Op.dupSlice], ?_, by simp [Op.rows, Op.cols]⟩
  have hsym : ∀ i j, i < 2 → j < 2 → denseExample i j = denseExample j i := by
    intro i j hi hj
    interval_cases i <;> interval_cases j <;> simp [denseExample]
  simp only [Op.HermOK, Op.HermNode]
  refine ⟨fun _ => ⟨by simp [Op.rows, Op.cols], fun i j hi hj => ?_⟩,
    fun _ => ⟨by simp [Op.rows, Op.cols], fun i j hi hj => ?_⟩⟩
  · simp only [Op.rows] at hi hj
    simp only [Op.den, MatV.of_f]
    exact hsym i j hi hj
  · simp only [Op.rows] at hi hj
    simp only [Op.den, MatV.of_f]
    exact hsym i j hi hj

/-! ## the structural rules against `den` -/

section structuralDen
variable {R : Type} [Field R] [StarRing R] [DecidableEq R]

/-- **`Identity` rule on an operator tree — no contract.**  For every operator whose class (through declaration
wrappers `cola.PSD(…)` etc.) is `Identity`, `structuralRule` (the model of `eig(A: Identity, …)`) returns `min(k, n)`
exact orthonormal eigenpairs of the REPRESENTED matrix `den A` on its own shape `A.rows`. -/
theorem C10_identity_den (le : R → R → Bool) (A : Op R) (dt : DType) (n : Nat)
    (core_is_identity : A.core = .eye dt n) (k : Nat) (w : Which) (k_pos : 0 < k) :
    ∃ out, structuralRule le A k w = some out ∧
      out.vals.length = min k A.rows ∧ out.vals.length = out.vecs.length ∧
      (∀ p ∈ out.vals.zip out.vecs, IsEigPair A.rows A.den.f p.1 p.2) ∧
      OrthonormalCols A.rows out.vecs := by
  obtain ⟨h1, h2, h3⟩ := structural_identity_den le A dt n core_is_identity k w
  rw [h1, h2, h3]
  exact ⟨_, rfl, C10_identity n k w k_pos⟩

/-- **`Diagonal` rule on an operator tree — no contract.**  Exact orthonormal eigenpairs of `den A`; the diagonal of
`den A` IS its spectrum (`spectrumOf` = roots of the characteristic polynomial, with multiplicities), and the
returned values are the `k` extreme-magnitude members of it. -/
theorem C10_diagonal_den {β : Type} [LinearOrder β] (mag : R → β) (A : Op R) (dt : DType) (n : Nat)
    (d : Nat → R) (core_is_diagonal : A.core = .diag dt n d) (k : Nat) (w : Which) (k_pos : 0 < k) :
    ∃ out, structuralRule (fun a b => decide (mag a ≤ mag b)) A k w = some out ∧
      out.vals.length = min k A.rows ∧ out.vals.length = out.vecs.length ∧
      (∀ p ∈ out.vals.zip out.vecs, IsEigPair A.rows A.den.f p.1 p.2) ∧
      OrthonormalCols A.rows out.vecs ∧
      spectrumOf A.rows A.den.f = (((List.range A.rows).map (fun p => A.den.f p p) : List R) : Multiset R) ∧
      IsExtreme w mag k ((List.range A.rows).map (fun p => A.den.f p p)) out.vals := by
  obtain ⟨h1, h2, h3⟩ := structural_diagonal_den (fun a b => decide (mag a ≤ mag b)) A dt n d
    core_is_diagonal k w
  rw [h1, h2, h3]
  obtain ⟨c1, c2, c3, c4, _⟩ := C10_diagonal (fun a b => decide (mag a ≤ mag b)) n d k w k_pos
  refine ⟨_, rfl, c1, c2, c3, c4, ?_, ?_⟩
  · exact spectrumOf_triangular n (diagM d) (Or.inl (fun r c _ hc => by
      have : r ≠ c := by omega
      simp [diagM, this]))
  · have hd : (List.range n).map (fun p => diagM d p p) = (List.range n).map d := by
      apply List.map_congr_left; intro p _; simp [diagM]
    rw [hd]
    exact C10_diagonal_select mag n d k w k_pos

/-- **`Triangular` rule on an operator tree — no contract.**  Input domain as in `C10_triangular`, stated on
`den A`: triangular DATA (upper, or vanishing strictly upper part — whatever `A.lower` says) with a simple
spectrum.  Then the rule succeeds, every returned pair is an exact eigenpair of `den A`, the diagonal of `den A` is
its spectrum with multiplicities, and the returned values are its `k` extreme-magnitude members.  (cola has NO
structural `eig` rule for `ScalarMul`, `Kronecker`, `BlockDiag`: `cola/linalg/eig/eigs.py` dispatches only on
`Identity`, `Triangular`, `Diagonal`.) -/
theorem C10_triangular_den {β : Type} [LinearOrder β] (mag : R → β) (A : Op R) (dt : DType) (n m : Nat)
    (lower : Bool) (L : MatF R) (core_is_triangular : A.core = .tri dt n m lower L) (k : Nat) (w : Which)
    (k_pos : 0 < k)
    (triangularData : (∀ r c, r < A.rows → c < r → A.den.f r c = 0) ∨
      (∀ r c, c < A.rows → r < c → A.den.f r c = 0))
    (distinctDiagonal : ∀ r i, r < i → i < A.rows → A.den.f r r ≠ A.den.f i i) :
    ∃ out, structuralRule (fun a b => decide (mag a ≤ mag b)) A k w = some out ∧
      out.vals.length = min k A.rows ∧ out.vals.length = out.vecs.length ∧
      (∀ p ∈ out.vals.zip out.vecs, IsEigPair A.rows A.den.f p.1 p.2) ∧
      spectrumOf A.rows A.den.f = (((List.range A.rows).map (fun p => A.den.f p p) : List R) : Multiset R) ∧
      IsExtreme w mag k ((List.range A.rows).map (fun p => A.den.f p p)) out.vals := by
  obtain ⟨h1, h2, h3⟩ := structural_triangular_den (fun a b => decide (mag a ≤ mag b)) A dt n m lower L
    core_is_triangular k w
  rw [h2, h3] at triangularData distinctDiagonal
  rw [h1, h2, h3]
  obtain ⟨cols, out, sel, hout, hsel, hnd, hlt, hvals, hvecs, hpairs, _⟩ :=
    C10_triangular (fun a b => decide (mag a ≤ mag b)) L n k w triangularData distinctDiagonal
  have hext := C10_triangular_select mag L n k w k_pos out hout
  have hlen : out.vals.length = out.vecs.length := by rw [hvals, hvecs, List.length_map, List.length_map]
  refine ⟨out, hout, ?_, hlen, ?_, spectrumOf_triangular n L triangularData, hext⟩
  · obtain ⟨_, _, hl, _⟩ := hext
    rw [hl, List.length_map, List.length_range]
  · intro p hp
    rw [hvals, hvecs, List.zip_map'] at hp
    obtain ⟨q, hq, rfl⟩ := List.mem_map.mp hp
    exact hpairs q hq

end structuralDen


/-! ## the Krylov rules, composed with C14 / C15 -/

section krylov
variable {𝕜 E κ : Type} [RCLike 𝕜] [NormedAddCommGroup E] [InnerProductSpace 𝕜 E] [LinearOrder κ]

open Arnoldi in
/-- **Arnoldi rule, composed with C15.**  The loop model is C15's (`Arnoldi.runE`: the cap `min(max_iters, n)` of
`arnoldi_fact` is part of it, so `M = max_iters` may exceed `n`); `s` = executed steps.  Hypotheses `noClip`,
`stopExact` are VERBATIM those of `C15_eigs_partial` (the recorded findings of C15; `stopExact` = the last
sub-diagonal entry vanishes: an invariant subspace was reached) and are discharged by citing it.  CONTRACT:
`xnp.eig` applied to the matrix `arnoldi_eigs` hands it (`eigsMatrix`: the leading `s × s` block of the executed
steps) satisfies `DenseContract`.  The rule returns `eig_vals[sel]` and the columns `sel` of the lazy product
`Q[:, :s] @ Y` (`ritzLift`).  Then `s ≤ min(max_iters, n)`, `min(k, s)` pairs are returned, their values are the
extreme-magnitude members of the computed Ritz values, and EVERY returned pair is an eigenpair of `A` with a
non-zero vector.  (`𝕜 = ℂ` for a real non-symmetric operator: its Ritz values are complex.) -/
theorem C10_arnoldi_path (A : E →ₗ[𝕜] E) (n M : Nat) (tol : ℝ) (tolPos : 0 < tol)
    (v : E) (startNonzero : v ≠ 0)
    (noClip : ∀ i, i + 1 < (runE A n M tol [v]).idx →
      tol / 2 ≤ (colAt A M tol v (runE A n M tol [v]).idx).beta i)
    (stopExact : 0 < (runE A n M tol [v]).idx ∧
      (colAt A M tol v (runE A n M tol [v]).idx).beta ((runE A n M tol [v]).idx - 1) = 0)
    (sp : Spectrum 𝕜)
    (eig_contract : DenseContract (runE A n M tol [v]).idx
      (rowsF (eigsMatrix trimPaddingInEigs M (runE A n M tol [v]).idx
        (colAt A M tol v (runE A n M tol [v]).idx))) sp)
    (key : 𝕜 → κ) (k : Nat) (w : Which) (k_pos : 0 < k) :
    let s := (runE A n M tol [v]).idx
    let q := (colAt A M tol v s).q
    let out := selectPath (fun a b => decide (a ≤ b)) key k w sp
    s ≤ min M n ∧ out.vals.length = min k s ∧ out.vals.length = out.vecs.length ∧
    IsExtreme w key k sp.vals out.vals ∧
    ∀ p ∈ out.vals.zip out.vecs, A (ritzLift q s p.2) = p.1 • ritzLift q s p.2 ∧ ritzLift q s p.2 ≠ 0 := by
  intro s q out
  obtain ⟨h1, h2, _, h4⟩ := C10_select key k w sp k_pos eig_contract.lengths
  refine ⟨(C15_model_invariant A n M tol tolPos [v] (by simpa using startNonzero)).1,
    by rw [h1, eig_contract.count], h2, h4, ?_⟩
  intro p hp
  exact arnoldi_pairs_lift A n M tol tolPos v startNonzero noClip stopExact sp eig_contract p
    ((C10_pairs_preserved _ key k w sp).2 p hp)

open Arnoldi in
/-- **Arnoldi rule with at least `n` iterations** (`n = dim E ≤ max_iters`, ANY cap above `n` included), a run that
was not stopped early (`ran_n_steps`) nor clipped: `stopExact` now holds by itself (cited: `C15_dimension_cap`),
every returned pair is an eigenpair of `A`, and every eigenvalue of `A` is an eigenvalue of the matrix handed to
`xnp.eig` (cited: `C15_eigs_complete`) — nothing of the spectrum of `A` is missing from what the selection sees
(as a set; multiplicities are not treated by C15).  The whole hypothesis bundle is satisfied by the 3 × 3 run of
`C10_arnoldi_full_witness`. -/
theorem C10_arnoldi_full [FiniteDimensional 𝕜 E] (A : E →ₗ[𝕜] E) (n M : Nat) (tol : ℝ) (tolPos : 0 < tol)
    (v : E) (startNonzero : v ≠ 0) (dimE : Module.finrank 𝕜 E = n) (n_pos : 0 < n) (cap_at_least_n : n ≤ M)
    (ran_n_steps : (runE A n M tol [v]).idx = n)
    (noClip : ∀ i, i + 1 < n → tol / 2 ≤ (colAt A M tol v n).beta i)
    (sp : Spectrum 𝕜)
    (eig_contract : DenseContract n (rowsF (eigsMatrix trimPaddingInEigs M n (colAt A M tol v n))) sp)
    (key : 𝕜 → κ) (k : Nat) (w : Which) (k_pos : 0 < k) :
    let q := (colAt A M tol v n).q
    let out := selectPath (fun a b => decide (a ≤ b)) key k w sp
    out.vals.length = min k n ∧ IsExtreme w key k sp.vals out.vals ∧
    (∀ p ∈ out.vals.zip out.vecs, A (ritzLift q n p.2) = p.1 • ritzLift q n p.2 ∧ ritzLift q n p.2 ≠ 0) ∧
    (∀ μ : 𝕜, Module.End.HasEigenvalue A μ → ∃ y : Nat → 𝕜, (∃ a, a < n ∧ y a ≠ 0) ∧ ∀ l, l < n →
      ∑ i ∈ range n, rowsF (eigsMatrix trimPaddingInEigs M n (colAt A M tol v n)) l i * y i = μ * y l) := by
  intro q out
  have hstop := arnoldi_stopExact_of_full A n M tol tolPos v startNonzero dimE n_pos cap_at_least_n
    ran_n_steps noClip
  have hpath := C10_arnoldi_path A n M tol tolPos v startNonzero (by rw [ran_n_steps]; exact noClip) hstop
    sp (by rw [ran_n_steps]; exact eig_contract) key k w k_pos
  simp only [ran_n_steps] at hpath
  obtain ⟨_, h2, _, h4, h5⟩ := hpath
  refine ⟨h2, h4, h5, ?_⟩
  intro μ hμ
  obtain ⟨x, hx⟩ := hμ.exists_hasEigenvector
  have hxe : A x = μ • x := Module.End.mem_eigenspace_iff.mp hx.1
  obtain ⟨c1, c2⟩ := C15_eigs_complete A n M tol tolPos v startNonzero dimE n_pos cap_at_least_n noClip
    μ x hx.2 hxe
  exact ⟨fun a => ⟪(colAt A M tol v n).q a, x⟫_𝕜, c1, c2⟩

end krylov

section lanczos
variable {𝕜 E κ : Type} [RCLike 𝕜] [NormedAddCommGroup E] [InnerProductSpace 𝕜 E] [LinearOrder κ]
open Lanczos
attribute [local instance] exactNum exactVec

/-- **Lanczos rule, composed with C14.**  The loop model is C14's (`Lanczos.lanczosExact`; cap
`min(max_iters, n)` inside, so `max_iters` may exceed `n`), `lanczosEigs` its model of `lanczos_eigs`; `eigh`
(LAPACK) is a parameter with the CONTRACT `eigh_contract` of `C14_lanczos_eigs` (verbatim, cited).  `exhausted`:
the last column of `A Q - Q T` vanishes (by `C14_grade`: iff the number of columns is the grade of the start
vector).  Then at most `min(max_iters, n)` Ritz pairs exist, `min(k, ·)` are returned, their values are the
extreme-magnitude members OF THE COMPUTED RITZ VALUES `res.1` — NOT of the spectrum of `A`: a run that stops at a
grade `g < n` computes only `g` of the `n` eigenvalues, and the eigenvalue of largest magnitude of `A` may be among
the missing ones (extremeness over the spectrum of `A` needs `g = n`: `C10_lanczos_spectrum`) — and EVERY returned
pair satisfies `A x = θ x`; if moreover `eigh` returns non-zero
columns (a clause `eigh_contract` of C14 lacks, so `C14_lanczos_eigs` cannot give it: supplied by
`lanczos_vectors_nonzero`, which unfolds the model and cites `C14_lanczos` for `Qᴴ Q = 1`) every returned vector is
non-zero. -/
theorem C10_lanczos_path (eigh : Array (Array 𝕜) → Array 𝕜 × Array (Array 𝕜))
    (A : E →ₗ[𝕜] E) (A_hermitian : A.IsSymmetric) (n max_iters : ℕ) (v : E) (tol : ℝ)
    (start_nonzero : v ≠ 0) (tol_nonneg : 0 ≤ tol) (cap_pos : 1 ≤ min max_iters n)
    (eigh_contract :
      let o := lanczosExact A n #[v] max_iters tol
      let e := eigh (tridiagDense (K := 𝕜) (o.alpha.getD 0 #[]) (o.beta.getD 0 #[]))
      e.1.size = o.iters ∧
      ∀ j a, j < o.iters → a < o.iters →
        ∑ c ∈ range o.iters, o.T 0 a c * (e.2.getD j #[]).getD c 0 =
          e.1.getD j 0 * (e.2.getD j #[]).getD a 0)
    (exhausted : (lanczosExact A n #[v] max_iters tol).resid A 0 = 0)
    (key : 𝕜 → κ) (k : Nat) (w : Which) (k_pos : 0 < k) :
    let o := lanczosExact A n #[v] max_iters tol
    let res := lanczosEigs (K := 𝕜) eigh (⇑A) n 0 v max_iters (tol : 𝕜)
    let out := selectPairs (fun a b => decide (a ≤ b)) key k w (res.1.toList.zip res.2.toList)
    o.iters ≤ min max_iters n ∧ out.length = min k o.iters ∧
    IsExtreme w key k res.1.toList (out.map (·.1)) ∧
    (∀ p ∈ out, A p.2 = p.1 • p.2) ∧
    ((∀ j, j < o.iters → ∃ a, a < o.iters ∧
        ((eigh (tridiagDense (K := 𝕜) (o.alpha.getD 0 #[]) (o.beta.getD 0 #[]))).2.getD j #[]).getD a 0 ≠ 0) →
      ∀ p ∈ out, p.2 ≠ 0) := by
  intro o res out
  obtain ⟨hl1, hl2, hpairs⟩ := lanczos_pairs eigh A A_hermitian n max_iters v tol start_nonzero
    tol_nonneg cap_pos eigh_contract exhausted
  obtain ⟨s1, s2, _, s4⟩ := selectPairs_spec key k w (res.1.toList.zip res.2.toList) k_pos
  have hzl : (res.1.toList.zip res.2.toList).length = o.iters := by
    rw [List.length_zip, ← hl2, Nat.min_self, hl1]
  refine ⟨(C14_lanczos A A_hermitian n max_iters v tol start_nonzero tol_nonneg cap_pos).1.2.1,
    by rw [s1, hzl], ?_, fun p hp => hpairs p (s2.subset hp), ?_⟩
  · rwa [List.map_fst_zip (le_of_eq hl2)] at s4
  · intro hnz p hp
    exact lanczos_vectors_nonzero eigh A A_hermitian n max_iters v tol start_nonzero tol_nonneg cap_pos
      eigh_contract.1 hnz p.2 (List.of_mem_zip (s2.subset hp)).2

/-- **Lanczos rule with as many columns as the dimension** (`max_iters ≥ n = dim E`, any cap above `n`, a run not
stopped early): the Krylov space is exhausted by itself (cited: `C14_lanczos`, orthonormal columns and `r ⟂ Q`).
The extremeness stated here is still AMONG THE RITZ VALUES `res.1`; that these are the whole spectrum of `A` in this
situation is `C10_lanczos_spectrum`. -/
theorem C10_lanczos_full [FiniteDimensional 𝕜 E] (eigh : Array (Array 𝕜) → Array 𝕜 × Array (Array 𝕜))
    (A : E →ₗ[𝕜] E) (A_hermitian : A.IsSymmetric) (n max_iters : ℕ) (v : E) (tol : ℝ)
    (start_nonzero : v ≠ 0) (tol_nonneg : 0 ≤ tol) (cap_pos : 1 ≤ min max_iters n)
    (eigh_contract :
      let o := lanczosExact A n #[v] max_iters tol
      let e := eigh (tridiagDense (K := 𝕜) (o.alpha.getD 0 #[]) (o.beta.getD 0 #[]))
      e.1.size = o.iters ∧
      ∀ j a, j < o.iters → a < o.iters →
        ∑ c ∈ range o.iters, o.T 0 a c * (e.2.getD j #[]).getD c 0 =
          e.1.getD j 0 * (e.2.getD j #[]).getD a 0)
    (ran_dim_steps : (lanczosExact A n #[v] max_iters tol).iters = Module.finrank 𝕜 E)
    (key : 𝕜 → κ) (k : Nat) (w : Which) (k_pos : 0 < k) :
    let res := lanczosEigs (K := 𝕜) eigh (⇑A) n 0 v max_iters (tol : 𝕜)
    let out := selectPairs (fun a b => decide (a ≤ b)) key k w (res.1.toList.zip res.2.toList)
    out.length = min k (Module.finrank 𝕜 E) ∧ IsExtreme w key k res.1.toList (out.map (·.1)) ∧
    ∀ p ∈ out, A p.2 = p.1 • p.2 := by
  intro res out
  have hex := lanczos_exhausted_of_full A A_hermitian n max_iters v tol start_nonzero tol_nonneg cap_pos
    ran_dim_steps
  obtain ⟨_, h2, h3, h4, _⟩ := C10_lanczos_path eigh A A_hermitian n max_iters v tol start_nonzero tol_nonneg
    cap_pos eigh_contract hex key k w k_pos
  exact ⟨by rw [h2, ran_dim_steps], h3, h4⟩

/-- **Lanczos rule, every iteration cap `max_iters ≥ n = dim E` (also far above `n`), `tol = 0`** — no hypothesis
about the run is left: the loop model stops exactly at the grade `g ≤ n` of the start vector (cited: `C14_grade`,
`C14_grade_exists`), where the Krylov space is exhausted, so every returned pair satisfies `A x = θ x` and the
selection is the extreme one AMONG THE `g` RITZ VALUES (for `g < n` these are only `g` of the eigenvalues of `A`;
`g = n`: `C10_lanczos_spectrum_of_grade`).  (This is the regime the seeded change `c10_m2` and the
generator's `lanczos+d@0` cases live in.) -/
theorem C10_lanczos_caps_above_n [FiniteDimensional 𝕜 E]
    (eigh : Array (Array 𝕜) → Array 𝕜 × Array (Array 𝕜))
    (A : E →ₗ[𝕜] E) (A_hermitian : A.IsSymmetric) (n max_iters : ℕ) (v : E)
    (start_nonzero : v ≠ 0) (dimE : Module.finrank 𝕜 E = n) (n_pos : 1 ≤ n) (cap_at_least_n : n ≤ max_iters)
    (eigh_contract :
      let o := lanczosExact A n #[v] max_iters 0
      let e := eigh (tridiagDense (K := 𝕜) (o.alpha.getD 0 #[]) (o.beta.getD 0 #[]))
      e.1.size = o.iters ∧
      ∀ j a, j < o.iters → a < o.iters →
        ∑ c ∈ range o.iters, o.T 0 a c * (e.2.getD j #[]).getD c 0 =
          e.1.getD j 0 * (e.2.getD j #[]).getD a 0)
    (key : 𝕜 → κ) (k : Nat) (w : Which) (k_pos : 0 < k) :
    let o := lanczosExact A n #[v] max_iters 0
    let res := lanczosEigs (K := 𝕜) eigh (⇑A) n 0 v max_iters ((0 : ℝ) : 𝕜)
    let out := selectPairs (fun a b => decide (a ≤ b)) key k w (res.1.toList.zip res.2.toList)
    o.iters = grade A v ∧ o.iters ≤ n ∧ out.length = min k o.iters ∧
    IsExtreme w key k res.1.toList (out.map (·.1)) ∧
    ∀ p ∈ out, A p.2 = p.1 • p.2 := by
  intro o res out
  have cap_pos : 1 ≤ min max_iters n := le_min (le_trans n_pos cap_at_least_n) n_pos
  obtain ⟨hg, hgle, _⟩ := C14_grade_exists A v
  obtain ⟨_, h0, _, hiff⟩ := C14_grade A A_hermitian n max_iters v 0 start_nonzero (le_refl _) cap_pos hg
  have hit : o.iters = grade A v := by
    rw [h0 rfl, min_eq_right cap_at_least_n]
    exact min_eq_right (dimE ▸ hgle)
  obtain ⟨_, h2, h3, h4, _⟩ := C10_lanczos_path eigh A A_hermitian n max_iters v 0 start_nonzero (le_refl _)
    cap_pos eigh_contract (hiff.mpr hit) key k w k_pos
  exact ⟨hit, by rw [hit]; exact dimE ▸ hgle, h2, h3, h4⟩


end lanczos

section ritzLanczos
open Matrix Lanczos
variable {𝕜 κ : Type} [RCLike 𝕜] [Fintype κ] [DecidableEq κ]

/-- **`C10_ritz` with its hypotheses DISCHARGED by C14** (cited: `C14_relation_matrix`): for a Hermitian matrix `M`
and the Lanczos loop model stopped at the grade of the start vector, `relation : M Q = Q T` and
`orthonormal : Qᴴ Q = 1` hold for the returned `Q` (`n × k`, `k ≤ min(max_iters, n)` columns — iteration caps above
`n` are NOT excluded: the cap is inside the loop model), so eigenpairs of `T` give eigenpairs of `M`.  The whole
hypothesis bundle (with an orthonormal `Y`) is satisfied by the run of `C10_ritz_lanczos_witness`. -/
theorem C10_ritz_lanczos {n : ℕ} (M : Matrix (Fin n) (Fin n) 𝕜) (M_hermitian : M.IsHermitian)
    (max_iters : ℕ) (v : EuclideanSpace 𝕜 (Fin n)) (tol : ℝ) (start_nonzero : v ≠ 0)
    (tol_nonneg : 0 ≤ tol) (cap_pos : 1 ≤ min max_iters n)
    (stopped_at_grade : IsGrade (Matrix.toEuclideanLin M) v
      (lanczosExact (Matrix.toEuclideanLin M) n #[v] max_iters tol).iters)
    (Y : Matrix (Fin (lanczosExact (Matrix.toEuclideanLin M) n #[v] max_iters tol).iters) κ 𝕜) (θ : κ → 𝕜)
    (projected_pairs :
      tMat ((lanczosExact (Matrix.toEuclideanLin M) n #[v] max_iters tol).T 0)
        (lanczosExact (Matrix.toEuclideanLin M) n #[v] max_iters tol).iters * Y = Y * diagonal θ) :
    let o := lanczosExact (Matrix.toEuclideanLin M) n #[v] max_iters tol
    let Q := qMat (o.q 0) o.iters
    o.iters ≤ min max_iters n ∧
    M * (Q * Y) = (Q * Y) * diagonal θ ∧
    (∀ j, (fun a => Y a j) ≠ 0 → Q *ᵥ (fun a => Y a j) ≠ 0) ∧
    (Yᴴ * Y = 1 → (Q * Y)ᴴ * (Q * Y) = 1) ∧
    (LinearIndependent 𝕜 (fun j => fun a => Y a j) →
      LinearIndependent 𝕜 (fun j => Q *ᵥ (fun a => Y a j))) := by
  intro o Q
  have hsym : (Matrix.toEuclideanLin M).IsSymmetric :=
    Matrix.isSymmetric_toEuclideanLin_iff.mpr M_hermitian
  obtain ⟨_, horth, _, _, hrel⟩ :=
    C14_relation_matrix M M_hermitian max_iters v tol start_nonzero tol_nonneg cap_pos
  exact ⟨(C14_lanczos (Matrix.toEuclideanLin M) hsym n max_iters v tol start_nonzero tol_nonneg
      cap_pos).1.2.1,
    C10_ritz M Q _ (hrel stopped_at_grade) horth Y θ projected_pairs⟩

end ritzLanczos

section lanczosSpectrum
open Lanczos
variable {𝕜 κ : Type} [RCLike 𝕜] [LinearOrder κ]
attribute [local instance] exactNum exactVec

/-- **Lanczos rule, a run of `n = dim` steps: the Ritz values ARE the spectrum of `A`, and the selection is extreme
over the spectrum of `A`.**  `A`: the Hermitian matrix on its `n × n` window (`MatF`, as in the dense theorems),
`L` its operator on `EuclideanSpace 𝕜 (Fin n)`.  Hypotheses: those of `C10_lanczos_full` (`eigh_contract` verbatim C14's;
`ran_n_steps`: the loop model returned `n` columns — by `C14_grade` this happens iff the grade of `v` is `n` and the
tolerance test did not stop the loop earlier; for `tol = 0` see `C10_lanczos_spectrum_of_grade`) plus
`eigh_independent`: the eigenvector matrix `eigh` returns for `T` is invertible (CONTRACT of LAPACK `heevd`, which
returns a unitary matrix; ASSUMED, `C14`'s `eigh_contract` lacks it).  Then the start vector has grade `n`
(`C14_grade`, `C14_grade_exists`), `A Q = Q T` with a SQUARE unitary `Q` (`C14_relation_matrix`), so
`charpoly A = charpoly T`, and the values `lanczos_eigs` returns are — as a multiset, with algebraic multiplicities —
the roots of the characteristic polynomial of `A` (`spectrumOf n A`); for EVERY listing `l` of the spectrum of `A` the
returned values are the `k` members of `l` of largest / smallest magnitude; every returned pair is an eigenpair. -/
theorem C10_lanczos_spectrum {n : ℕ} (eigh : Array (Array 𝕜) → Array 𝕜 × Array (Array 𝕜))
    (A : MatF 𝕜) (A_hermitian : (MatF.toMatrix n n A).IsHermitian)
    (max_iters : ℕ) (v : EuclideanSpace 𝕜 (Fin n)) (tol : ℝ) (start_nonzero : v ≠ 0)
    (tol_nonneg : 0 ≤ tol) (cap_pos : 1 ≤ min max_iters n)
    (eigh_contract :
      let o := lanczosExact (Matrix.toEuclideanLin (MatF.toMatrix n n A)) n #[v] max_iters tol
      let e := eigh (tridiagDense (K := 𝕜) (o.alpha.getD 0 #[]) (o.beta.getD 0 #[]))
      e.1.size = o.iters ∧
      ∀ j a, j < o.iters → a < o.iters →
        ∑ c ∈ range o.iters, o.T 0 a c * (e.2.getD j #[]).getD c 0 =
          e.1.getD j 0 * (e.2.getD j #[]).getD a 0)
    (eigh_independent :
      let o := lanczosExact (Matrix.toEuclideanLin (MatF.toMatrix n n A)) n #[v] max_iters tol
      IsUnit (eighVecs o.iters (eigh (tridiagDense (K := 𝕜) (o.alpha.getD 0 #[]) (o.beta.getD 0 #[]))).2))
    (ran_n_steps : (lanczosExact (Matrix.toEuclideanLin (MatF.toMatrix n n A)) n #[v] max_iters tol).iters = n)
    (key : 𝕜 → κ) (k : Nat) (w : Which) (k_pos : 0 < k) :
    let L := Matrix.toEuclideanLin (MatF.toMatrix n n A)
    let res := lanczosEigs (K := 𝕜) eigh (⇑L) n 0 v max_iters (tol : 𝕜)
    let out := selectPairs (fun a b => decide (a ≤ b)) key k w (res.1.toList.zip res.2.toList)
    IsGrade L v n ∧ (res.1.toList : Multiset 𝕜) = spectrumOf n A ∧ out.length = min k n ∧
    (∀ l : List 𝕜, (l : Multiset 𝕜) = spectrumOf n A → IsExtreme w key k l (out.map (·.1))) ∧
    ∀ p ∈ out, L p.2 = p.1 • p.2 := by
  intro L res out
  have hsym : L.IsSymmetric := Matrix.isSymmetric_toEuclideanLin_iff.mpr A_hermitian
  obtain ⟨hgr, hspec'⟩ := lanczos_full_spectrum eigh (MatF.toMatrix n n A) A_hermitian max_iters v tol
    start_nonzero tol_nonneg cap_pos eigh_contract eigh_independent ran_n_steps
  have hspec : (res.1.toList : Multiset 𝕜) = spectrumOf n A := hspec'
  have hfull : (lanczosExact L n #[v] max_iters tol).iters = Module.finrank 𝕜 (EuclideanSpace 𝕜 (Fin n)) := by
    rw [finrank_euclideanSpace_fin]; exact ran_n_steps
  obtain ⟨h1, h2, h3⟩ := C10_lanczos_full eigh L hsym n max_iters v tol start_nonzero tol_nonneg cap_pos
    eigh_contract hfull key k w k_pos
  refine ⟨hgr, hspec, by rw [h1, finrank_euclideanSpace_fin], ?_, h3⟩
  intro l hl
  have hperm : res.1.toList.Perm l := by
    rw [← hspec] at hl
    exact (Multiset.coe_eq_coe.mp hl).symm
  exact h2.perm hperm

/-- **… with the premise on the INPUTS only** (`tol = 0`, any cap `max_iters ≥ n`): if the start vector has grade `n`
(`full_grade : IsGrade L v n` — the Krylov space of `(A, v)` is the whole space; a condition on `(A, v)`, no hypothesis
about the run) the loop model makes exactly `n` steps (cited: `C14_grade`, `iters = min(min(max_iters, n), grade)` for
`tol = 0`) and everything of `C10_lanczos_spectrum` holds. -/
theorem C10_lanczos_spectrum_of_grade {n : ℕ} (eigh : Array (Array 𝕜) → Array 𝕜 × Array (Array 𝕜))
    (A : MatF 𝕜) (A_hermitian : (MatF.toMatrix n n A).IsHermitian)
    (max_iters : ℕ) (v : EuclideanSpace 𝕜 (Fin n)) (start_nonzero : v ≠ 0) (n_pos : 1 ≤ n)
    (cap_at_least_n : n ≤ max_iters)
    (full_grade : IsGrade (Matrix.toEuclideanLin (MatF.toMatrix n n A)) v n)
    (eigh_contract :
      let o := lanczosExact (Matrix.toEuclideanLin (MatF.toMatrix n n A)) n #[v] max_iters 0
      let e := eigh (tridiagDense (K := 𝕜) (o.alpha.getD 0 #[]) (o.beta.getD 0 #[]))
      e.1.size = o.iters ∧
      ∀ j a, j < o.iters → a < o.iters →
        ∑ c ∈ range o.iters, o.T 0 a c * (e.2.getD j #[]).getD c 0 =
          e.1.getD j 0 * (e.2.getD j #[]).getD a 0)
    (eigh_independent :
      let o := lanczosExact (Matrix.toEuclideanLin (MatF.toMatrix n n A)) n #[v] max_iters 0
      IsUnit (eighVecs o.iters (eigh (tridiagDense (K := 𝕜) (o.alpha.getD 0 #[]) (o.beta.getD 0 #[]))).2))
    (key : 𝕜 → κ) (k : Nat) (w : Which) (k_pos : 0 < k) :
    let L := Matrix.toEuclideanLin (MatF.toMatrix n n A)
    let res := lanczosEigs (K := 𝕜) eigh (⇑L) n 0 v max_iters ((0 : ℝ) : 𝕜)
    let out := selectPairs (fun a b => decide (a ≤ b)) key k w (res.1.toList.zip res.2.toList)
    (lanczosExact L n #[v] max_iters 0).iters = n ∧
    (res.1.toList : Multiset 𝕜) = spectrumOf n A ∧ out.length = min k n ∧
    (∀ l : List 𝕜, (l : Multiset 𝕜) = spectrumOf n A → IsExtreme w key k l (out.map (·.1))) ∧
    ∀ p ∈ out, L p.2 = p.1 • p.2 := by
  intro L res out
  have hsym : L.IsSymmetric := Matrix.isSymmetric_toEuclideanLin_iff.mpr A_hermitian
  have cap_pos : 1 ≤ min max_iters n := le_min (le_trans n_pos cap_at_least_n) n_pos
  obtain ⟨_, h0, _, _⟩ := C14_grade L hsym n max_iters v 0 start_nonzero (le_refl _) cap_pos full_grade
  have hit : (lanczosExact L n #[v] max_iters 0).iters = n := by
    rw [h0 rfl, min_eq_right cap_at_least_n, min_self]
  obtain ⟨_, c2, c3, c4, c5⟩ := C10_lanczos_spectrum eigh A A_hermitian max_iters v 0 start_nonzero (le_refl _)
    cap_pos eigh_contract eigh_independent hit key k w k_pos
  exact ⟨hit, c2, c3, c4, c5⟩

end lanczosSpectrum

/-! ## the hypothesis bundles of the Krylov theorems are satisfiable -/

/-- the clauses `noClip`, `stopExact` of `C10_arnoldi_path` hold on a run of two steps (rotation of the plane,
`tol = 1/10`; over `ℝ` this operator has no real Ritz values, so `DenseContract` cannot hold for it: the FULL bundle,
contract included, on a run of `n = 3` steps is `C10_arnoldi_full_witness`) -/
theorem C10_arnoldi_clauses_witness :
    (Arnoldi.runE (Arnoldi.rot 1) 2 2 (1 / 10) [(1 : ℂ)]).idx = 2 ∧
    (∀ i, i + 1 < (Arnoldi.runE (Arnoldi.rot 1) 2 2 (1 / 10) [(1 : ℂ)]).idx →
      (1 / 10 : ℝ) / 2 ≤ (Arnoldi.colAt (Arnoldi.rot 1) 2 (1 / 10) (1 : ℂ)
        (Arnoldi.runE (Arnoldi.rot 1) 2 2 (1 / 10) [(1 : ℂ)]).idx).beta i) ∧
    (0 < (Arnoldi.runE (Arnoldi.rot 1) 2 2 (1 / 10) [(1 : ℂ)]).idx ∧
      (Arnoldi.colAt (Arnoldi.rot 1) 2 (1 / 10) (1 : ℂ)
        (Arnoldi.runE (Arnoldi.rot 1) 2 2 (1 / 10) [(1 : ℂ)]).idx).beta
        ((Arnoldi.runE (Arnoldi.rot 1) 2 2 (1 / 10) [(1 : ℂ)]).idx - 1) = 0) :=
  arnoldi_clauses_witness

/-- **ALL hypotheses of `C10_arnoldi_path` hold together** on a non-trivial input: the plane with complex
conjugation (`diag(1, -1)`, not the identity), start vector the eigenvector `1`, `max_iters = 5 > n = 2`,
`tol = 1/10`: one executed step, `β₀ = 0` (`stopExact`), `noClip` vacuous, and the `1 × 1` projected matrix `[1]`
with the spectrum `([1], [[1]])` satisfies `DenseContract`.  (A run of TWO steps satisfying the clauses:
`C10_arnoldi_clauses_witness`.) -/
theorem C10_arnoldi_path_witness :
    (0 : ℝ) < 1 / 10 ∧ (1 : ℂ) ≠ 0 ∧
    (∀ i, i + 1 < (Arnoldi.runE conjOp 2 5 (1 / 10) [(1 : ℂ)]).idx →
      (1 / 10 : ℝ) / 2 ≤ (Arnoldi.colAt conjOp 5 (1 / 10) (1 : ℂ)
        (Arnoldi.runE conjOp 2 5 (1 / 10) [(1 : ℂ)]).idx).beta i) ∧
    (0 < (Arnoldi.runE conjOp 2 5 (1 / 10) [(1 : ℂ)]).idx ∧
      (Arnoldi.colAt conjOp 5 (1 / 10) (1 : ℂ) (Arnoldi.runE conjOp 2 5 (1 / 10) [(1 : ℂ)]).idx).beta
        ((Arnoldi.runE conjOp 2 5 (1 / 10) [(1 : ℂ)]).idx - 1) = 0) ∧
    DenseContract (Arnoldi.runE conjOp 2 5 (1 / 10) [(1 : ℂ)]).idx
      (rowsF (Arnoldi.eigsMatrix Arnoldi.trimPaddingInEigs 5 (Arnoldi.runE conjOp 2 5 (1 / 10) [(1 : ℂ)]).idx
        (Arnoldi.colAt conjOp 5 (1 / 10) (1 : ℂ) (Arnoldi.runE conjOp 2 5 (1 / 10) [(1 : ℂ)]).idx)))
      { vals := [1], vecs := [[1]] } :=
  arnoldi_path_witness

/-- **ALL hypotheses of `C10_arnoldi_full` hold together, and its conclusion on that input**: the non-symmetric
`A = [[1,1,0],[2,1,1],[0,3,1]]` on `ℝ³` (the system of `Lemmas/Hess3.lean`, also C15's witness), `v = e₀`,
`n = max_iters = 3 = dim` (`dimE`, `cap_at_least_n`), `tol = 1/100`: the run makes three steps (`ran_n_steps`; cited
`Hess3.idx_eq_cap`), the sub-diagonal entries `2, 3` are not clipped (`noClip`), the projected matrix is `A` itself
and the exact spectrum `hess3Spectrum` (`1, 1 - √5, 1 + √5`; eigenvector matrix not unitary) satisfies `DenseContract`
(`eig_contract`).  The theorem applied with `k = 1`, `'LM'`: the value `1 + √5` is returned, its lifted vector is a
non-zero eigenvector of `A`, and every eigenvalue of `A` is an eigenvalue of the projected matrix. -/
theorem C10_arnoldi_full_witness :
    let q := (Arnoldi.colAt Hess3.A 3 (1 / 100) (Hess3.e 0) 3).q
    let H := rowsF (Arnoldi.eigsMatrix Arnoldi.trimPaddingInEigs 3 3 (Arnoldi.colAt Hess3.A 3 (1 / 100) (Hess3.e 0) 3))
    let out := selectPath (fun a b => decide (a ≤ b)) (fun x : ℝ => |x|) 1 .LM hess3Spectrum
    ((0 : ℝ) < 1 / 100 ∧ Hess3.e 0 ≠ 0 ∧ Module.finrank ℝ Hess3.E3 = 3 ∧ 3 ≤ 3 ∧
      (Arnoldi.runE Hess3.A 3 3 (1 / 100) [Hess3.e 0]).idx = 3 ∧
      (∀ i, i + 1 < 3 → (1 / 100 : ℝ) / 2 ≤ (Arnoldi.colAt Hess3.A 3 (1 / 100) (Hess3.e 0) 3).beta i) ∧
      DenseContract 3 H hess3Spectrum) ∧
    out.vals = [1 + Real.sqrt 5] ∧
    (∀ p ∈ out.vals.zip out.vecs, Hess3.A (ritzLift q 3 p.2) = p.1 • ritzLift q 3 p.2 ∧ ritzLift q 3 p.2 ≠ 0) ∧
    (∀ μ : ℝ, Module.End.HasEigenvalue Hess3.A μ → ∃ y : Nat → ℝ, (∃ a, a < 3 ∧ y a ≠ 0) ∧ ∀ l, l < 3 →
      ∑ i ∈ range 3, H l i * y i = μ * y l) := by
  intro q H out
  obtain ⟨hidx, hnc⟩ := hess3_run
  obtain ⟨c1, c2, c3, c4⟩ := C10_arnoldi_full Hess3.A 3 3 (1 / 100) (by norm_num) (Hess3.e 0) Hess3.e0_ne
    Hess3.finrank_E3 (by norm_num) (le_refl _) hidx hnc hess3Spectrum hess3_contract (fun x : ℝ => |x|) 1 .LM
    Nat.one_pos
  refine ⟨⟨by norm_num, Hess3.e0_ne, Hess3.finrank_E3, le_refl _, hidx, hnc, hess3_contract⟩, ?_, c3, c4⟩
  obtain ⟨x, hx, hmem, hmax⟩ := c2.one (by simp [hess3Spectrum])
  have hx' : out.vals = [x] := hx
  rw [hx', hess3_dominant x hmem hmax]

section
open Lanczos
attribute [local instance] exactNum exactVec

/-- ALL hypotheses of `C10_lanczos_path` / `C10_lanczos_full` hold for `A = [[2,1],[1,2]]`, `v = e₀`, `n = 2`,
`max_iters = 5` (a cap above `n`), `tol = 0`, the exact eigensolver `eigh2` (cited: `C14_eigh_contract_witness`) -/
theorem C10_lanczos_path_witness :
    (Matrix.toEuclideanLin exM2).IsSymmetric ∧ exv2 ≠ 0 ∧ (0 : ℝ) ≤ 0 ∧ 1 ≤ min 5 2 ∧
    (let o := lanczosExact (Matrix.toEuclideanLin exM2) 2 #[exv2] 5 0
     let e := eigh2 (tridiagDense (K := ℝ) (o.alpha.getD 0 #[]) (o.beta.getD 0 #[]))
     e.1.size = o.iters ∧
     ∀ j a, j < o.iters → a < o.iters →
       ∑ c ∈ range o.iters, o.T 0 a c * (e.2.getD j #[]).getD c 0 =
         e.1.getD j 0 * (e.2.getD j #[]).getD a 0) ∧
    (lanczosExact (Matrix.toEuclideanLin exM2) 2 #[exv2] 5 0).iters =
      Module.finrank ℝ (EuclideanSpace ℝ (Fin 2)) ∧
    (lanczosExact (Matrix.toEuclideanLin exM2) 2 #[exv2] 5 0).resid (Matrix.toEuclideanLin exM2) 0 = 0 :=
  lanczos_path_witness

end

section lanczosWitnesses
open Lanczos Matrix
attribute [local instance] exactNum exactVec

/-- **ALL hypotheses of `C10_ritz_lanczos` hold together, and its conclusion on that input**: `M = [[2,1],[1,2]]`,
`v = e₀`, `max_iters = 5 > n = 2`, `tol = 0`; the run stops at the grade `2` of `e₀` (`stopped_at_grade`: cited
`C14_grade_witness`, run facts `Lanczos.ex2_run`), `T = [[2,1],[1,2]]`, and `Y = (1/√2)·[[1,1],[-1,1]]`, `θ = (1, 3)` are
exact ORTHONORMAL eigenpairs of `T` (`projected_pairs`, `Yᴴ Y = 1`).  The theorem applied: `Q Y = X := (1/√2)·[[1,1],[-1,1]]`
(here `Q = I`), `M X = X diag(1, 3)` and `Xᴴ X = 1` — orthonormal eigenvectors of `M`. -/
theorem C10_ritz_lanczos_witness :
    let o := lanczosExact (Matrix.toEuclideanLin exM2) 2 #[exv2] 5 0
    let X : Matrix (Fin 2) (Fin 2) ℝ := (Real.sqrt 2)⁻¹ • !![1, 1; -1, 1]
    (exM2.IsHermitian ∧ exv2 ≠ 0 ∧ (0 : ℝ) ≤ 0 ∧ 1 ≤ min 5 2 ∧
      IsGrade (Matrix.toEuclideanLin exM2) exv2 o.iters ∧
      tMat (o.T 0) o.iters * ex2Y o.iters = ex2Y o.iters * diagonal (![1, 3] : Fin 2 → ℝ) ∧
      (ex2Y o.iters)ᴴ * ex2Y o.iters = 1) ∧
    qMat (o.q 0) o.iters * ex2Y o.iters = X ∧
    exM2 * X = X * diagonal (![1, 3] : Fin 2 → ℝ) ∧ Xᴴ * X = 1 := by
  intro o X
  obtain ⟨hk, _, hq0, hq1, h00, h10, h01, h11, _⟩ := ex2_run
  obtain ⟨hsym, hv, _, hgr, _⟩ := C14_grade_witness
  have hherm : exM2.IsHermitian := Matrix.isSymmetric_toEuclideanLin_iff.mp hsym
  have hgrade : IsGrade (Matrix.toEuclideanLin exM2) exv2 o.iters := by
    rw [show o.iters = 2 from hk]; exact hgr
  have hpairs := ex2Y_pairs o.iters hk (o.T 0) h00 h10 h01 h11
  have horthY := ex2Y_orthonormal o.iters hk
  have hQY : qMat (o.q 0) o.iters * ex2Y o.iters = X := by
    rw [ex2_QY o.iters hk (o.q 0) hq0 hq1, ex2Y_two]
  obtain ⟨_, c1, _, c2, _⟩ := C10_ritz_lanczos exM2 hherm 5 exv2 0 hv (le_refl _) (by decide) hgrade
    (ex2Y o.iters) ![1, 3] hpairs
  have c2' := c2 horthY
  rw [hQY] at c1 c2'
  exact ⟨⟨hherm, hv, le_refl _, by decide, hgrade, hpairs, horthY⟩, hQY, c1, c2'⟩

/-- **ALL hypotheses of `C10_lanczos_spectrum_of_grade` / `C10_lanczos_spectrum` hold together, and the conclusion on
that input**: `A = [[2,1],[1,2]]` (`exA2`, as `MatF`), `v = e₀` of grade `2 = n` (cited: `C14_grade_witness`),
`max_iters = 5`, `tol = 0`, the exact eigensolver `eigh2` (`eigh_contract`: cited `C14_eigh_contract_witness`;
`eigh_independent`: `det [[1,1],[-1,1]] = 2`).  The theorem applied: the run makes `2` steps, the returned Ritz values
are the spectrum `{1, 3}` of `A` (roots of its characteristic polynomial), `eig(A, 1, 'LM', Lanczos(max_iters=5, tol=0))`
returns the value `3` — the eigenvalue of largest magnitude OF `A` — with an eigenvector. -/
theorem C10_lanczos_spectrum_witness :
    let L := Matrix.toEuclideanLin (MatF.toMatrix 2 2 exA2)
    let o := lanczosExact L 2 #[exv2] 5 0
    let res := lanczosEigs (K := ℝ) eigh2 (⇑L) 2 0 exv2 5 ((0 : ℝ) : ℝ)
    let out := selectPairs (fun a b => decide (a ≤ b)) (fun x : ℝ => |x|) 1 .LM (res.1.toList.zip res.2.toList)
    (MatF.toMatrix 2 2 exA2 = exM2 ∧ (MatF.toMatrix 2 2 exA2).IsHermitian ∧ exv2 ≠ 0 ∧ IsGrade L exv2 2 ∧
      IsUnit (eighVecs o.iters (eigh2 (tridiagDense (K := ℝ) (o.alpha.getD 0 #[]) (o.beta.getD 0 #[]))).2)) ∧
    o.iters = 2 ∧ spectrumOf 2 exA2 = (([1, 3] : List ℝ) : Multiset ℝ) ∧
    (res.1.toList : Multiset ℝ) = spectrumOf 2 exA2 ∧
    out.map (·.1) = [3] ∧ ∀ p ∈ out, L p.2 = p.1 • p.2 := by
  intro L o res out
  have hM : MatF.toMatrix 2 2 exA2 = exM2 := exA2_toMatrix
  obtain ⟨hherm, hgrade, hcon, hind, hvals⟩ := ex2_bundle (MatF.toMatrix 2 2 exA2) hM
  have hv := exv2_ne
  obtain ⟨c1, c2, c3, c4, c5⟩ := C10_lanczos_spectrum_of_grade eigh2 exA2 hherm 5 exv2 hv (by norm_num) (by norm_num)
    hgrade hcon hind (fun x : ℝ => |x|) 1 .LM Nat.one_pos
  have hspec : spectrumOf 2 exA2 = (([1, 3] : List ℝ) : Multiset ℝ) := by rw [← c2]; exact hvals
  refine ⟨⟨hM, hherm, hv, hgrade, hind⟩, c1, hspec, c2, ?_, c5⟩
  obtain ⟨x, hx, hmem, hmax⟩ := (c4 [1, 3] hspec.symm).one (by simp)
  have hx' : List.map (fun p => p.1) out = [x] := hx
  rw [hx']
  simp only [List.mem_cons, List.mem_nil_iff, or_false] at hmem
  rcases hmem with rfl | rfl
  · have := hmax 3 (by simp)
    norm_num at this
  · rfl

end lanczosWitnesses

/-! ## power iteration at exact arithmetic: one-step guarantees -/

section powerExact
variable {𝕜 E : Type} [RCLike 𝕜] [NormedAddCommGroup E] [InnerProductSpace 𝕜 E]

/-- **what power iteration guarantees for EVERY input, at exact arithmetic** (`exactPI A`: the law-free model
instantiated with exact real / complex arithmetic; `A` any linear operator).  Convergence is not a theorem; this
is: (1) the loop stops at the cap or with `|eigprev - eig| / |eig| ≤ tol`; (2) after at least two products the
returned value is the Rayleigh product `⟪vprev, A vprev⟫` at a UNIT vector `vprev` (or `0` after an exact breakdown
`A v = 0`), the returned vector is `A vprev / ‖A vprev‖`, `|value| ≤ ‖A vprev‖` (`≤ ‖A‖`), and the value is real when
`A` is Hermitian.  Checked on every real run (also those stopped by the cap) by `power_claims` in the harness. -/
theorem C10_power_rayleigh (A : E →ₗ[𝕜] E) (tol : 𝕜) (maxIter : Nat) (v0 : E) :
    let r := powerIteration (exactPI A) tol maxIter v0 10 1
    (r.i = maxIter ∨ ‖r.eigprev - r.eig‖ / ‖r.eig‖ ≤ RCLike.re tol) ∧
    (2 ≤ r.i →
      r.eig = ⟪r.vprev, A r.vprev⟫_𝕜 ∧ (‖r.vprev‖ = 1 ∨ r.vprev = 0) ∧
      r.v = unitize (𝕜 := 𝕜) (A r.vprev) ∧ ‖r.eig‖ ≤ ‖A r.vprev‖ ∧
      (A.IsSymmetric → ((RCLike.re r.eig : ℝ) : 𝕜) = r.eig)) := by
  intro r
  refine ⟨power_stop A tol maxIter v0, fun h2 => ?_⟩
  have hr : r = stateAt A v0 r.i := powerIteration_exact A tol maxIter v0
  have key : ∀ j, 2 ≤ j →
      (stateAt A v0 j).eig = ⟪(stateAt A v0 j).vprev, A (stateAt A v0 j).vprev⟫_𝕜 ∧
      (‖(stateAt A v0 j).vprev‖ = 1 ∨ (stateAt A v0 j).vprev = 0) ∧
      (stateAt A v0 j).v = unitize (𝕜 := 𝕜) (A (stateAt A v0 j).vprev) ∧
      ‖(stateAt A v0 j).eig‖ ≤ ‖A (stateAt A v0 j).vprev‖ ∧
      (A.IsSymmetric → ((RCLike.re (stateAt A v0 j).eig : ℝ) : 𝕜) = (stateAt A v0 j).eig) := by
    intro j hj
    have hnorm := stateAt_norm_le A v0 j hj
    obtain ⟨j', rfl⟩ : ∃ j', j = j' + 1 := ⟨j - 1, by omega⟩
    obtain ⟨e1, e2, e3, _⟩ := stateAt_succ A v0 j'
    refine ⟨by rw [e1, e3], by rw [e3]; exact stateAt_unit A v0 j' (by omega), by rw [e2, e3], hnorm, ?_⟩
    intro hsym
    rw [e1, ← hsym (stateAt A v0 j').v (stateAt A v0 j').v]
    exact hsym.coe_re_inner_apply_self _
  have := key r.i h2
  rw [← hr] at this
  exact this

/-- **Hermitian positive semi-definite `A`: the values never decrease** from the second one on, are non-negative
and stay below every bound `L` of the quadratic form (`λ_max` is the least one); the returned value is the largest
Rayleigh quotient the run formed.  All `max_iter`, all `tol`, all start vectors — including runs stopped by the
cap.  (Strict increase / convergence needs a spectral gap and a start vector not orthogonal to the dominant
eigenspace: not a theorem here.) -/
theorem C10_power_monotone (A : E →ₗ[𝕜] E) (A_psd : A.IsPositive) (L : ℝ) (L_nonneg : 0 ≤ L)
    (form_bound : ∀ x : E, RCLike.re ⟪x, A x⟫_𝕜 ≤ L * ‖x‖ ^ 2) (tol : 𝕜) (maxIter : Nat) (v0 : E) :
    let r := powerIteration (exactPI A) tol maxIter v0 10 1
    r = stateAt A v0 r.i ∧
    (∀ i j, 2 ≤ i → i ≤ j → RCLike.re (stateAt A v0 i).eig ≤ RCLike.re (stateAt A v0 j).eig) ∧
    (∀ j, 2 ≤ j → 0 ≤ RCLike.re (stateAt A v0 j).eig ∧ RCLike.re (stateAt A v0 j).eig ≤ L) ∧
    (∀ i, 2 ≤ i → i ≤ r.i → RCLike.re (stateAt A v0 i).eig ≤ RCLike.re r.eig) := by
  intro r
  have hr : r = stateAt A v0 r.i := powerIteration_exact A tol maxIter v0
  refine ⟨hr, stateAt_mono A A_psd v0, ?_, ?_⟩
  · intro j hj
    refine ⟨?_, stateAt_le A v0 L L_nonneg form_bound j hj⟩
    obtain ⟨j', rfl⟩ : ∃ j', j = j' + 1 := ⟨j - 1, by omega⟩
    rw [(stateAt_succ A v0 j').1]
    exact A_psd.re_inner_nonneg_right _
  · intro i hi hir
    have := stateAt_mono A A_psd v0 i r.i hi hir
    rwa [← hr] at this

/-- `A z = z + conj z = 2 Re z` on `ℂ` over `ℝ` -/
noncomputable def psdExample : ℂ →ₗ[ℝ] ℂ := LinearMap.id + Complex.conjAe.toLinearMap

/-- the hypotheses of `C10_power_monotone` are satisfiable on a non-trivial input: `A z = 2 Re z` on the plane is
positive semi-definite, not the identity (kernel `i`, eigenvalue `2` at `1`), quadratic form bounded by `L = 2` -/
theorem C10_power_psd_witness :
    psdExample.IsPositive ∧ psdExample ≠ LinearMap.id ∧ psdExample Complex.I = 0 ∧ psdExample 1 = 2 ∧
    ∀ x : ℂ, RCLike.re ⟪x, psdExample x⟫_ℝ ≤ 2 * ‖x‖ ^ 2 := by
  have hI : psdExample Complex.I = 0 := by simp [psdExample]
  have hform : ∀ x : ℂ, ⟪x, psdExample x⟫_ℝ = 2 * x.re ^ 2 := by
    intro x
    simp only [psdExample, LinearMap.add_apply, LinearMap.id_apply, AlgEquiv.toLinearMap_apply,
      Complex.conjAe_coe, Complex.inner]
    simp [Complex.mul_re]
    ring
  refine ⟨⟨?_, ?_⟩, ?_, hI, ?_, ?_⟩
  · intro z w
    simp only [psdExample, LinearMap.add_apply, LinearMap.id_apply, AlgEquiv.toLinearMap_apply,
      Complex.conjAe_coe, Complex.inner]
    simp [Complex.mul_re]
    ring
  · intro x
    rw [← real_inner_comm, hform]
    simp only [RCLike.re_to_real]
    positivity
  · intro h
    have := congrArg (fun f : ℂ →ₗ[ℝ] ℂ => f Complex.I) h
    simp only [hI, LinearMap.id_apply] at this
    exact Complex.I_ne_zero this.symm
  · simp [psdExample]; norm_num
  · intro x
    rw [hform]
    simp only [RCLike.re_to_real]
    have : x.re ^ 2 ≤ ‖x‖ ^ 2 := by
      rw [← Complex.normSq_eq_norm_sq, Complex.normSq_apply]
      nlinarith [mul_self_nonneg x.im]
    linarith

end powerExact

end C10

#print axioms C10.C10_select_sorted
#print axioms C10.C10_select
#print axioms C10.C10_select_all
#print axioms C10.C10_pairs_preserved
#print axioms C10.C10_eigmax_eigmin
#print axioms C10.C10_getSlice_positional_witness
#print axioms C10.C10_identity
#print axioms C10.C10_diagonal
#print axioms C10.C10_diagonal_select
#print axioms C10.C10_triangular
#print axioms C10.C10_triangular_select
#print axioms C10.C10_power_cap
#print axioms C10.C10_power_returns
#print axioms C10.C10_power_value
#print axioms C10.C10_power_conjugation_witness
#print axioms C10.C10_ritz
#print axioms C10.C10_auto
#print axioms C10.C10_select_positions
#print axioms C10.C10_dense_eig
#print axioms C10.C10_dense_spectrum
#print axioms C10.C10_dense_eigh
#print axioms C10.C10_dense_op
#print axioms C10.C10_dense_contract_witness
#print axioms C10.C10_identity_den
#print axioms C10.C10_diagonal_den
#print axioms C10.C10_triangular_den
#print axioms C10.C10_arnoldi_path
#print axioms C10.C10_arnoldi_full
#print axioms C10.C10_lanczos_path
#print axioms C10.C10_lanczos_full
#print axioms C10.C10_lanczos_caps_above_n
#print axioms C10.C10_ritz_lanczos
#print axioms C10.C10_arnoldi_clauses_witness
#print axioms C10.C10_arnoldi_path_witness
#print axioms C10.C10_lanczos_path_witness
#print axioms C10.C10_power_rayleigh
#print axioms C10.C10_power_monotone
#print axioms C10.C10_power_psd_witness
#print axioms C10.C10_lobpcg_partial
#print axioms C10.C10_lobpcg_clause_needed
#print axioms C10.C10_dense_spectrum_witness
#print axioms C10.C10_lanczos_spectrum
#print axioms C10.C10_lanczos_spectrum_of_grade
#print axioms C10.C10_arnoldi_full_witness
#print axioms C10.C10_ritz_lanczos_witness
#print axioms C10.C10_lanczos_spectrum_witness
