import ColaVerif.Properties.C12
import ColaVerif.Lemmas.Nystrom

/-!
# C12 / Nyström — the preconditioner of `cola/linalg/preconditioning/preconditioners.py` discharges the
preconditioner hypothesis of the CG optimality theorems

Objects (namespace `Nys`): the code model `Nys.applyCol` (`_matmat`), `Nys.createApprox`
(`_create_approx`), `Nys.inverse`, `Nys.sqrtP` (the dispatch rules) of `Model/Nystrom.lean`;
`Nys.sand U a = U diag(a) Uᴴ`, `Nys.lowRank U σ = I + U diag(σ) Uᴴ`,
`Nys.nysMat U num denom = lowRank U (num / denom - 1)` — the matrix an object with fields `U`,
`subspace_num`, `subspace_denom` applies (`conj(U).T` since /repo 67a8740).

Contract of `get_nys_approx` (hypotheses, checked numerically by the stream on every object built):
`contract_U : Uᴴ U = 1` (left singular vectors), `contract_Λ : 0 ≤ Λ i` (`clip(…, a_min=0)`); and `0 < amu`.
No further clause: real and complex dtypes alike.

Regression (`C12_nystrom_transpose_regression`): before 67a8740 the code applied `U.T` (plain transpose,
`Nys.lowRankT`); for a complex `U` with `Uᴴ U = 1` that matrix is complex SYMMETRIC, not Hermitian, hence not
a valid CG preconditioner (recorded in round 5 as the finding `nystrom-real-U`, now repaired); on the same
witness the repaired formula is positive definite.
-/

open CG
open scoped InnerProductSpace ComplexOrder
open Matrix

attribute [local instance] CG.rcOps

namespace C12

section field
variable {F : Type*} [Field F] [StarRing F] {n r : ℕ}

/-- **the rule `inverse`** (swap `subspace_num`, `subspace_denom`): `inverse(P) * P = 1`, any field,
`Uᴴ U = 1`, no zero among numerators and denominators -/
theorem C12_nystrom_inverse {U : Matrix (Fin n) (Fin r) F} (hU : Uᴴ * U = 1) {num denom : Fin r → F}
    (hn : ∀ i, num i ≠ 0) (hd : ∀ i, denom i ≠ 0) :
    Nys.nysMat U denom num * Nys.nysMat U num denom = 1 :=
  Nys.nys_inverse_mul hU hn hd

/-- **the rule `sqrt`** (element-wise square roots of `subspace_num`, `subspace_denom`):
`sqrt(P) * sqrt(P) = P` -/
theorem C12_nystrom_sqrt {U : Matrix (Fin n) (Fin r) F} (hU : Uᴴ * U = 1)
    {num denom sn sd : Fin r → F} (hsn : ∀ i, sn i * sn i = num i)
    (hsd : ∀ i, sd i * sd i = denom i) :
    Nys.nysMat U sn sd * Nys.nysMat U sn sd = Nys.nysMat U num denom :=
  Nys.nys_sqrt_mul_self hU hsn hsd

/-- **the preconditioned Nyström approximation**: with `subspace_num = λ + amu`,
`subspace_denom = Λ + amu` (what `_create_approx` stores; `λ = min Λ` there) and `Â = U diag(Λ) Uᴴ + amu I`:
`P Â = amu I + λ U Uᴴ`; every column of `U` is an eigenvector for `λ + amu`
(= `preconditioned_eigmax`), every `w` with `Uᴴ w = 0` one for `amu` (= `preconditioned_eigmin`). -/
theorem C12_nystrom_spectrum {U : Matrix (Fin n) (Fin r) F} (hU : Uᴴ * U = 1) (Lam : Fin r → F)
    (amu lmin : F) (hden : ∀ i, Lam i + amu ≠ 0) :
    let P := Nys.nysMat U (fun _ => lmin + amu) (fun i => Lam i + amu)
    let Ahat := Nys.sand U Lam + amu • (1 : Matrix (Fin n) (Fin n) F)
    P * Ahat = amu • (1 : Matrix (Fin n) (Fin n) F) + lmin • (U * Uᴴ) ∧
    P * Ahat * U = (lmin + amu) • U ∧
    ∀ w : Fin n → F, Uᴴ *ᵥ w = 0 → (P * Ahat) *ᵥ w = amu • w :=
  ⟨Nys.nys_mul_approx hU Lam amu lmin hden, Nys.nys_eig_range hU Lam amu lmin hden,
    Nys.nys_eig_perp hU Lam amu lmin hden⟩

end field

section rclike
variable {𝕜 : Type} [RCLike 𝕜] {n r m : ℕ}

/-- **the Nyström preconditioner is Hermitian positive definite** (𝕜 = ℝ or ℂ): contract of
`get_nys_approx`, `0 < amu`, `0 ≤ λ` (`λ = min Λ` in the code); no clause. -/
theorem C12_nystrom_posDef {U : Matrix (Fin n) (Fin r) 𝕜} (contract_U : Uᴴ * U = 1)
    (Λ : Fin r → ℝ) (contract_Λ : ∀ i, 0 ≤ Λ i) {amu lmin : ℝ} (hamu : 0 < amu)
    (hlmin : 0 ≤ lmin) :
    (Nys.nysMat U (fun _ => ((lmin + amu : ℝ) : 𝕜)) (fun i => ((Λ i + amu : ℝ) : 𝕜))).PosDef := by
  have h := Nys.lowRank_posDef contract_U (fun i => (lmin + amu) / (Λ i + amu))
    (fun i => div_pos (by linarith) (by linarith [contract_Λ i]))
  unfold Nys.nysMat
  simpa only [RCLike.ofReal_div] using h

/-- **composition: the preconditioner hypothesis `PrecPosDef` of `C12_optimal`, `C12_optimal_mask`,
`C12_optimal_single`, `C12_optimal_any`, `C12_residual_true_*` is discharged by a Nyström preconditioner** -/
theorem C12_nystrom_precond {U : Matrix (Fin n) (Fin r) 𝕜} (contract_U : Uᴴ * U = 1)
    (Λ : Fin r → ℝ) (contract_Λ : ∀ i, 0 ≤ Λ i) {amu lmin : ℝ} (hamu : 0 < amu)
    (hlmin : 0 ≤ lmin) :
    PrecPosDef (some (Nys.nysMat U (fun _ => ((lmin + amu : ℝ) : 𝕜))
      (fun i => ((Λ i + amu : ℝ) : 𝕜)))) := by
  intro M hM
  cases hM
  exact C12_nystrom_posDef contract_U Λ contract_Λ hamu hlmin

/-- **`cg(A, b, P = NystromPrecond(…))` returns the Krylov-optimal iterate of the Nyström-preconditioned
system** — `C12_optimal_any` with its preconditioner hypothesis discharged: `A` Hermitian positive definite,
the contract of `get_nys_approx`, `0 < amu`; every batch, `x0`, `max_iters`, `tol`. -/
theorem C12_nystrom_optimal_any {A : Matrix (Fin n) (Fin n) 𝕜} (hA : A.PosDef)
    {U : Matrix (Fin n) (Fin r) 𝕜} (contract_U : Uᴴ * U = 1) (Λ : Fin r → ℝ)
    (contract_Λ : ∀ i, 0 ≤ Λ i) {amu lmin : ℝ} (hamu : 0 < amu) (hlmin : 0 ≤ lmin)
    (B X0 : Fin m → EuclideanSpace 𝕜 (Fin n)) (maxIters : ℕ) (tol : 𝕜) (j : Fin m)
    (hb : B j ≠ 0) {xs : EuclideanSpace 𝕜 (Fin n)} (hxs : Matrix.toEuclideanLin A xs = B j) :
    let P : Option (Matrix (Fin n) (Fin n) 𝕜) :=
      some (Nys.nysMat U (fun _ => ((lmin + amu : ℝ) : 𝕜)) (fun i => ((Λ i + amu : ℝ) : 𝕜)))
    let k := (runBatchedCG (matArr A) (colsArr B) (colsArr X0) maxIters tol (P.map matArr)).k
    ∃ k', k' ≤ k ∧
      (k' = k ∨ ‖B j - Matrix.toEuclideanLin A (xOut A P B X0 maxIters tol j)‖ < smallR * ‖B j‖) ∧
      xOut A P B X0 maxIters tol j =
        (cgSeq (Matrix.toEuclideanLin A) (precLin P) (B j) (X0 j) k').x ∧
      xOut A P B X0 maxIters tol j - X0 j ∈ krylov (precLin P ∘ₗ Matrix.toEuclideanLin A)
        (precLin P (B j - Matrix.toEuclideanLin A (X0 j))) k' ∧
      (∀ y, y - X0 j ∈ krylov (precLin P ∘ₗ Matrix.toEuclideanLin A)
          (precLin P (B j - Matrix.toEuclideanLin A (X0 j))) k' →
        energy (Matrix.toEuclideanLin A) xs (xOut A P B X0 maxIters tol j) ≤
          energy (Matrix.toEuclideanLin A) xs y) ∧
      (∀ y, y - X0 j ∈ krylov (precLin P ∘ₗ Matrix.toEuclideanLin A)
          (precLin P (B j - Matrix.toEuclideanLin A (X0 j))) k' →
        energy (Matrix.toEuclideanLin A) xs y ≤
          energy (Matrix.toEuclideanLin A) xs (xOut A P B X0 maxIters tol j) →
        y = xOut A P B X0 maxIters tol j) :=
  C12_optimal_any hA (C12_nystrom_precond contract_U Λ contract_Λ hamu hlmin) B X0
    maxIters tol j hb hxs

/-- **the code model is the matrix the theorems talk about** (exact arithmetic): on the object
`_create_approx` builds from `(Λ, U)`, `_matmat` is what the CG model computes for `P @ r` when it is handed
the dense matrix `nysMat U num denom`; `inverse(P)._matmat` and `sqrt(P)._matmat` are the products with
`nysMat` of the swapped / square-rooted fields. -/
theorem C12_nystrom_model (U : Matrix (Fin n) (Fin r) 𝕜) (Λ : Fin r → 𝕜) (mu : 𝕜) (adj : Bool)
    (v : EuclideanSpace 𝕜 (Fin n)) :
    let ap := Nys.createApprox (Array.ofFn Λ) (Nys.rowsArr U) mu adj
    Nys.applyCol ap.P (toVec v) =
      applyP ((some (Nys.nysMat U (fun _ => ap.eigmax) (fun i => Λ i + ap.amu))).map matArr)
        (toVec v) ∧
    Nys.applyCol (Nys.inverse ap.P) (toVec v) =
      toVec (Matrix.toEuclideanLin (Nys.nysMat U (fun i => Λ i + ap.amu) (fun _ => ap.eigmax)) v) ∧
    Nys.applyCol (Nys.sqrtP ap.P) (toVec v) =
      toVec (Matrix.toEuclideanLin (Nys.nysMat U (fun _ => NumOps.sqrt ap.eigmax)
        (fun i => NumOps.sqrt (Λ i + ap.amu))) v) := by
  intro ap
  refine ⟨?_, ?_, ?_⟩
  · rw [applyP_toVec]
    exact Nys.applyCol_createApprox U Λ mu adj _
  · exact Nys.applyCol_inverse_createApprox U Λ mu adj _
  · exact Nys.applyCol_sqrt_createApprox U Λ mu adj _

/-- the model's `sqrt` of the stored (real, non-negative) fields squares back, so `C12_nystrom_sqrt` applies
to `Nys.sqrtP` -/
theorem C12_nystrom_sqrt_model {U : Matrix (Fin n) (Fin r) 𝕜} (hU : Uᴴ * U = 1) (Λ : Fin r → ℝ)
    (contract_Λ : ∀ i, 0 ≤ Λ i) {amu lmin : ℝ} (hamu : 0 ≤ amu) (hlmin : 0 ≤ lmin) :
    let S := Nys.nysMat U (fun _ => NumOps.sqrt ((lmin + amu : ℝ) : 𝕜))
      (fun i => NumOps.sqrt ((Λ i + amu : ℝ) : 𝕜))
    S * S = Nys.nysMat U (fun _ => ((lmin + amu : ℝ) : 𝕜)) (fun i => ((Λ i + amu : ℝ) : 𝕜)) :=
  Nys.nys_sqrt_mul_self hU (fun _ => Nys.rcSqrt_mul_self (by linarith))
    (fun i => Nys.rcSqrt_mul_self (by linarith [contract_Λ i]))

end rclike

/-- the hypotheses of `C12_nystrom_posDef` / `C12_nystrom_optimal_any` are satisfiable:
`U = e₀` (2 × 1, real), `Λ = (2)`, `amu = 1`, `λ = 2` -/
example : ∃ (U : Matrix (Fin 2) (Fin 1) ℝ) (Λ : Fin 1 → ℝ) (amu lmin : ℝ),
    Uᴴ * U = 1 ∧ (∀ i, 0 ≤ Λ i) ∧ 0 < amu ∧ 0 ≤ lmin := by
  refine ⟨!![1; 0], fun _ => 2, 1, 2, ?_, fun _ => by norm_num,
    by norm_num, by norm_num⟩
  ext i j
  fin_cases i; fin_cases j
  simp [Matrix.mul_apply, Fin.sum_univ_two]

/-- **regression witness of the repaired defect `nystrom-real-U`** (/repo 67a8740): the complex
`U = (3/5, 4i/5)ᵀ` satisfies the contract `Uᴴ U = 1` and `t = 1/2 > 0`; the PRE-FIX formula
`I + U diag(t - 1) Uᵀ` (`U.T`, `Nys.lowRankT`) is not Hermitian — entries `(0, 1)` and `(1, 0)` are both
`-(6/25) i` — hence not positive definite, while the repaired formula `I + U diag(t - 1) Uᴴ` is. -/
theorem C12_nystrom_transpose_regression :
    ∃ (U : Matrix (Fin 2) (Fin 1) ℂ) (t : Fin 1 → ℝ), Uᴴ * U = 1 ∧ (∀ i, 0 < t i) ∧
      ¬ (Nys.lowRankT U (fun i => ((t i : ℝ) : ℂ) - 1)).PosDef ∧
      (Nys.lowRank U (fun i => ((t i : ℝ) : ℂ) - 1)).PosDef := by
  have hU : (!![3 / 5; (4 / 5) * Complex.I] : Matrix (Fin 2) (Fin 1) ℂ)ᴴ *
      !![3 / 5; (4 / 5) * Complex.I] = 1 := by
    ext i j
    fin_cases i; fin_cases j
    simp [Matrix.mul_apply, Fin.sum_univ_two, Complex.conj_ofNat]
    linear_combination (-16 / 25 : ℂ) * Complex.I_mul_I
  refine ⟨!![3 / 5; (4 / 5) * Complex.I], fun _ => 1 / 2, hU, fun _ => by norm_num, ?_,
    Nys.lowRank_posDef hU (fun _ => (1 / 2 : ℝ)) (fun _ => by norm_num)⟩
  intro h
  have h01 := congrFun (congrFun h.isHermitian 0) 1
  rw [Matrix.conjTranspose_apply, Nys.lowRankT_apply, Nys.lowRankT_apply] at h01
  simp at h01
  have hI : Complex.I = 0 := by linear_combination (25 / 12 : ℂ) * h01
  exact Complex.I_ne_zero hI

end C12

#print axioms C12.C12_nystrom_inverse
#print axioms C12.C12_nystrom_sqrt
#print axioms C12.C12_nystrom_spectrum
#print axioms C12.C12_nystrom_posDef
#print axioms C12.C12_nystrom_precond
#print axioms C12.C12_nystrom_optimal_any
#print axioms C12.C12_nystrom_model
#print axioms C12.C12_nystrom_sqrt_model
#print axioms C12.C12_nystrom_transpose_regression
