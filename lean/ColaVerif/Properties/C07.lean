import ColaVerif.Lemmas.LogDetSL
import ColaVerif.Lemmas.LogDetKrylov
import ColaVerif.Lemmas.LogDetLanczos
import ColaVerif.Lemmas.KrylovCompose

/-!
# C07 — slogdet / logdet equal the determinant's phase and log-magnitude

Model (`Model/LogDet.lean`): `Op.slogdetG ops K log_alg trace_alg A` — the rules of
`cola/linalg/logdet/logdet.py` (rule selection by the class of the operator, Product rule only for
square factors, Auto resolved from the PSD annotation and the size, base cases LU / Cholesky /
Lanczos | Arnoldi with the numerical kernels `K` as parameters), written once over the operations
the rules perform on `(sign, logabs)` pairs and instantiated by
* `Op.slOps`  — the pair arithmetic of the code over `ℂ × ℝ` (real operators are complex
  operators with real entries): `slogdetG slOps` is the code model of `slogdet`;
* `Op.detOps` — exact arithmetic on the represented number: `Op.claimedDet`, what the drivers run.

Theorems:
* `C07_det`       — `claimedDet = Matrix.det (den A)` (any commutative star ring, so also the ℚ[i] the
                    driver computes in), by recursion over the structural rules;
* `C07_slogdet`   — `slogdet` returns `(s, l)` with `s * exp l = det`, and for `det ≠ 0`:
                    `|s| = 1`, `l = log |det|`, `s = det / |det|`;
* `C07_logdet`, `C07_real_sign`, `C07_logabs_sign`, and the combination lemmas
  `C07_combine_mul`, `C07_combine_pow`, `C07_cholesky`, `C07_kron_exponents`,
  `C07_bdiag_multiplicities`, `C07_perm_parity`.

* `C07_slogdet_krylov` — the same conclusion with the Lanczos | Arnoldi contract REDUCED to its
  parts (hypothesis `TrlogOfParts`): the kernel returns the exact trace (C08) of a matrix that is the logarithm of
  the represented matrix in the sense of C09; `C07_exp_trace_log` (`exp (tr log A) = det A` for every
  non-singular diagonalisable `A`), `C07_krylov_columns` (the matrix whose columns are the vectors
  `Qᵢ Pᵢ (f(θᵢ) ⊙ Pᵢ⁻¹ e₁)` returned for the identity probes IS `f(A)` when every factorisation is
  complete — which `Lemmas/KrylovCompose.lean` proves for the loop models of C14 / C15 run to Krylov
  exhaustion) — what remains a contract there is LAPACK's small eigendecomposition;
* round 3 — `C07_lanczos_kernel_parts`: for the Lanczos kernel DEFINED from the loop model of C14
  (`Op.lanczosKernels`, Lemmas/LogDetLanczos.lean) `TrlogOfParts` is a THEOREM (assumed: `EighContract`, the LAPACK
  contract of `eigh` on the small tridiagonal matrix, satisfiable); `C07_slogdet_lanczos`: C07 for every tree with
  that kernel; `C07_lanczos_kernel_answers`: it answers on every Hermitian non-singular operator for `tol = 0`,
  cap `≥ n`; witness `C07_lanczos_kernel_witness` (`[[2,1],[1,2]]`, determinant 3).  For Arnoldi `TrlogOfParts`
  stays a hypothesis (witness `diagLogKernels_parts`);
* `C07_phase_exponent_not_mod_two`, `C07_diag_sum_of_logs` — regression lemmas: the exponents of the
  Kronecker / BlockDiag rules act on a complex phase; the Diagonal / Triangular rule returns `Σ log |dᵢ|`.

Hypotheses: `A.wf`, `A.dupSlice = false`, `A.HermOK` (as in C01: `to_dense()` is the represented
matrix), `A.triTrue` (Triangular operators are triangular — the constructor's promise,
`C07_triTrue_needed`), `A.sqMembers` (members of Kronecker / BlockDiag nodes are square — true of
every non-singular operator, `C07_sqMembers_needed`), and the contracts of the numerical kernels
`Op.KernelsOK` (`L Lᴴ = A` with `L` lower; `A = L[p] U`; `exp(tr log A) = det A` —
`C07_kernel_contract_needed`; the recorded Krylov defects — `krylov-blockdiag-zero-probe` (zero probe
columns handed to a Krylov block) and `lanczos-batch-breakdown` (the batched Lanczos loop, C14) — are
violations of the last contract by the real kernels).
-/

namespace C07
open Op MatFun Matrix

section exact
variable {R : Type} [CommRing R] [StarRing R] [DecidableEq R]

/-- the determinant the rules claim is the determinant of the represented matrix: every operator
kind and nesting, every `(log_alg, trace_alg)`. -/
theorem C07_det (K : DetKernels R R) (hK : KernelsOK K) (la : LogAlg) (ta : TraceAlg) (A : Op R)
    (hwf : A.wf = true) (hnd : A.dupSlice = false) (hh : A.HermOK) (ht : A.triTrue = true)
    (hs : A.sqMembers = true) (d : R) (h : claimedDet K la ta A = .ok d) :
    d = Matrix.det (MatF.toMatrix A.rows A.rows A.den.f) :=
  claimedDet_eq_det K hK la ta A ⟨hwf, hnd, hh⟩ ht hs d h

/-- Kronecker rule: `det (A₁ ⊗ … ⊗ A_k) = ∏ det(Aᵢ) ^ (N / nᵢ)`, `N = ∏ nᵢ` (unequal sizes allowed) -/
theorem C07_kron_exponents (Ms : List (Op R)) (hsq : ∀ M ∈ Ms, M.rows = M.cols)
    (hpos : ∀ M ∈ Ms, 0 < M.cols) :
    Matrix.det (MatF.toMatrix (kron Ms).rows (kron Ms).rows (kron Ms).den.f)
      = (Ms.map (fun M => Matrix.det (MatF.toMatrix M.rows M.rows M.den.f)
          ^ ((Ms.map (·.cols)).prod / M.cols))).prod :=
  det_kron hsq hpos

/-- BlockDiag rule: `det (⊕ Aᵢ^{⊕ mᵢ}) = ∏ det(Aᵢ) ^ mᵢ` -/
theorem C07_bdiag_multiplicities (Ms : List (Op R)) (mults : List Nat)
    (hsq : ∀ M ∈ Ms, M.rows = M.cols) :
    Matrix.det (MatF.toMatrix (bdiag Ms mults).rows (bdiag Ms mults).rows (bdiag Ms mults).den.f)
      = (List.zipWith (fun v m => v ^ m)
          (Ms.map (fun M => Matrix.det (MatF.toMatrix M.rows M.rows M.den.f))) mults).prod :=
  det_bdiag hsq

omit [StarRing R] [DecidableEq R] in
/-- Permutation rule: the cycle-counting loop returns the determinant of the permutation matrix,
which is the sign of the permutation `i ↦ p[i]` -/
theorem C07_perm_parity (p : List Nat) (hlt : ∀ t ∈ p, t < p.length) (hnd : p.Nodup) :
    Matrix.det (MatF.toMatrix p.length p.length (permDen p : MatF R))
        = (if permEven p then 1 else -1) ∧
      Equiv.Perm.sign (listPerm p hlt hnd) = if permEven p then 1 else -1 :=
  ⟨detN_permDen p hlt hnd, PermProof.permEven_sign p (listPerm_apply p hlt hnd) rfl⟩

end exact

/-! ## the `(sign, logabs)` pairs of the code -/

/-- products of signs / sums of logs represent the product of the determinants -/
theorem C07_combine_mul (s s' : ℂ) (l l' : ℝ) (d d' : ℂ) (h : SLRel (s, l) d)
    (h' : SLRel (s', l') d') : SLRel (s * s', l + l') (d * d') := slrel_mul h h'

/-- `(sign ** k, logabs * k)` (Kronecker exponents `N / nᵢ`, BlockDiag multiplicities) represents
the `k`-th power -/
theorem C07_combine_pow (s : ℂ) (l : ℝ) (d : ℂ) (k : Nat) (h : SLRel (s, l) d) :
    SLRel (s ^ k, l * k) (d ^ k) := slrel_pow h k

/-- Cholesky rule: `(sign * conj(sign), 2 * logdet)` of `L` represents `det L * conj (det L)`,
which is `det (L Lᴴ)` -/
theorem C07_cholesky (s : ℂ) (l : ℝ) (d : ℂ) (h : SLRel (s, l) d) (n : Nat) (L : MatF ℂ)
    (hd : d = detN n L) :
    SLRel (s * star s, 2 * l) (detN n (mmul n L (conjM (transposeM L)))) := by
  rw [detN_mmul, detN_adjoint, ← hd]
  exact slOps_rel.cholComb _ _ h

section code
variable [DecidableEq ℂ]

/-- `cola.linalg.logdet` = second component of `slogdet` -/
noncomputable def logdetSL (K : DetKernels ℂ ℂ) (la : LogAlg) (ta : TraceAlg) (A : Op ℂ) :
    Except String ℝ := (slogdetG slOps K la ta A).map Prod.snd

/-- **C07**: `slogdet(A)` returns `(sign, logabs)` with `sign * exp(logabs) = det A`; for a
non-singular operator `|sign| = 1`, `logabs = log |det A|` and `sign = det A / |det A|`. -/
theorem C07_slogdet (K : DetKernels ℂ ℂ) (hK : KernelsOK K.expT) (la : LogAlg) (ta : TraceAlg)
    (A : Op ℂ) (hwf : A.wf = true) (hnd : A.dupSlice = false) (hh : A.HermOK)
    (ht : A.triTrue = true) (hs : A.sqMembers = true) (s : ℂ) (l : ℝ)
    (h : slogdetG slOps K la ta A = .ok (s, l)) :
    let d := Matrix.det (MatF.toMatrix A.rows A.rows A.den.f)
    s * ((Real.exp l : ℝ) : ℂ) = d ∧
      (d ≠ 0 → ‖s‖ = 1 ∧ l = Real.log ‖d‖ ∧ s = d / ((‖d‖ : ℝ) : ℂ)) := by
  intro d
  obtain ⟨h1, h2⟩ := slogdet_sound K hK la ta A ⟨hwf, hnd, hh⟩ ht hs s l h
  refine ⟨h1, fun hd => ?_⟩
  have hs1 : ‖s‖ = 1 := h2 hd
  have hn : ‖d‖ = Real.exp l := by
    show ‖detN A.rows A.den.f‖ = _
    rw [← h1, norm_mul, hs1, one_mul, Complex.norm_real, Real.norm_eq_abs, abs_of_pos (Real.exp_pos l)]
  refine ⟨hs1, ?_, ?_⟩
  · rw [hn, Real.log_exp]
  · rw [hn]
    have hne : ((Real.exp l : ℝ) : ℂ) ≠ 0 := by exact_mod_cast (Real.exp_pos l).ne'
    show s = detN A.rows A.den.f / _
    rw [← h1, mul_div_assoc, div_self hne, mul_one]

/-- `logdet(A)` returns `logabs = log |det A|` -/
theorem C07_logdet (K : DetKernels ℂ ℂ) (hK : KernelsOK K.expT) (la : LogAlg) (ta : TraceAlg)
    (A : Op ℂ) (hwf : A.wf = true) (hnd : A.dupSlice = false) (hh : A.HermOK)
    (ht : A.triTrue = true) (hs : A.sqMembers = true) (l : ℝ) (h : logdetSL K la ta A = .ok l)
    (hd : Matrix.det (MatF.toMatrix A.rows A.rows A.den.f) ≠ 0) :
    (∃ s, slogdetG slOps K la ta A = .ok (s, l)) ∧
      l = Real.log ‖Matrix.det (MatF.toMatrix A.rows A.rows A.den.f)‖ := by
  obtain ⟨⟨s, l'⟩, hsl, hl⟩ := except_map_ok h
  simp only at hl
  subst hl
  exact ⟨⟨s, hsl⟩, ((C07_slogdet K hK la ta A hwf hnd hh ht hs s l' hsl).2 hd).2.1⟩

end code

/-- real operators (real determinant): the sign is `+1` or `-1`, the sign of the determinant -/
theorem C07_real_sign (d : ℂ) (hd : d ≠ 0) (hre : d.im = 0) (s : ℂ) (h : s = d / ((‖d‖ : ℝ) : ℂ)) :
    (0 < d.re → s = 1) ∧ (d.re < 0 → s = -1) := by
  have hdr : d = (d.re : ℂ) := by
    apply Complex.ext <;> simp [hre]
  have hn : ‖d‖ = |d.re| := by rw [hdr, Complex.norm_real, Real.norm_eq_abs]; simp
  constructor
  · intro hp
    rw [h, hn, abs_of_pos hp, ← hdr, div_self hd]
  · intro hneg
    rw [h, hn, abs_of_neg hneg]
    push_cast
    rw [← hdr, div_neg, div_self hd]

/-- determinants smaller than one in magnitude give negative `logabs`, larger ones positive -/
theorem C07_logabs_sign (d : ℂ) (hd : d ≠ 0) (l : ℝ) (h : l = Real.log ‖d‖) :
    (‖d‖ < 1 → l < 0) ∧ (1 < ‖d‖ → 0 < l) := by
  have hpos : 0 < ‖d‖ := norm_pos_iff.mpr hd
  rw [h]
  exact ⟨fun h1 => Real.log_neg hpos h1, fun h1 => Real.log_pos h1⟩

/-! ## the hypotheses exclude real differences -/

/-- kernels that refuse every input satisfy the contracts vacuously (used by the witnesses,
whose trees do not reach a base case) -/
def noKernels : DetKernels ℤ ℤ :=
  ⟨fun _ _ => .error "none", fun _ _ => .error "none", fun _ _ _ => .error "none"⟩

theorem noKernels_ok : KernelsOK noKernels :=
  ⟨fun _ _ _ h => by simp [noKernels] at h, fun _ _ _ h => by simp [noKernels] at h,
    fun _ _ _ _ h => by simp [noKernels] at h⟩

/-- `triTrue` is needed: the Triangular rule multiplies the diagonal of the stored array; for
`Triangular([[2, 1], [5, -3]])` it claims `-6`, the determinant is `-11`. -/
theorem C07_triTrue_needed :
    let A : Op ℤ := .tri .f64 2 2 true (fun i j => if i = 0 then (if j = 0 then 2 else 1) else (if j = 0 then 5 else -3))
    claimedDet noKernels .auto .auto A = .ok (-6) ∧ A.rows = 2 ∧
      Matrix.det (MatF.toMatrix 2 2 A.den.f) = -11 ∧ A.triTrue = false := by
  refine ⟨?_, ?_, ?_, ?_⟩
  · simp [claimedDet, slogdetG, slogdetAt, SLOps.diagFold, SLOps.mulAll, detOps, List.range,
      List.range.loop]
  · simp [Op.rows]
  · simp [Op.den, Matrix.det_fin_two, MatF.toMatrix]
  · simp [Op.triTrue, List.range, List.range.loop]

/-- `sqMembers` is needed: for the (singular) Kronecker product of a `1 × 2` and a `2 × 1`
Triangular operator the rule claims `1`, the determinant is `0`. -/
theorem C07_sqMembers_needed :
    let A : Op ℤ := .kron [.tri .f64 1 2 false (fun _ _ => 1), .tri .f64 2 1 true (fun _ _ => 1)]
    claimedDet noKernels .auto .auto A = .ok 1 ∧ A.rows = 2 ∧ A.cols = 2 ∧
      Matrix.det (MatF.toMatrix 2 2 A.den.f) = 0 ∧ A.sqMembers = false := by
  refine ⟨?_, ?_, ?_, ?_, ?_⟩
  · simp [claimedDet, slogdetG, slogdetAt, allOk, Except.map, SLOps.diagFold, SLOps.mulAll,
      detOps, Op.cols, List.range, List.range.loop]
  · simp [Op.rows]
  · simp [Op.cols]
  · simp [Op.rows, Op.cols, Op.den, Matrix.det_fin_two, MatF.toMatrix, kronDen, kronEntry, unravel]
  · simp [Op.sqMembers, Op.rows, Op.cols]

/-- the kernel contracts are needed: a Krylov kernel that does not return `tr log A` makes the
rule claim a wrong determinant (this is the shape of the recorded Krylov defects
`lanczos-batch-breakdown` — the batched Lanczos loop breaks down for one probe — and
`krylov-blockdiag-zero-probe` — a zero probe block is normalised by 0.  The former `nan` of the
real logarithm for a leaf with negative eigenvalues is NOT such a defect any more: repaired in
/repo 3c4ea3a, the kernel takes the complex logarithm of the Ritz values). -/
theorem C07_kernel_contract_needed :
    let K : DetKernels ℤ ℤ := ⟨fun _ _ => .error "none", fun _ _ => .error "none", fun _ _ _ => .ok 0⟩
    let A : Op ℤ := .dense .f64 1 1 (fun _ _ => 2)
    claimedDet K .arnoldi .exact A = .ok 0 ∧ A.rows = 1 ∧
      Matrix.det (MatF.toMatrix 1 1 A.den.f) = 2 := by
  refine ⟨?_, ?_, ?_⟩
  · simp [claimedDet, slogdetG, slogdetAt, slogdetBase, resolveAuto, Op.rows, Op.cols, Except.map,
      detOps]
  · simp [Op.rows]
  · simp [Op.den, MatF.toMatrix]

/-- kernels with a genuine LU factorisation of `1 × 1` matrices (`p = [0]`, `L = 1`, `U = A`):
they satisfy the contracts non-vacuously -/
def oneKernels : DetKernels ℤ ℤ :=
  ⟨fun _ _ => .error "none",
   fun n M => if n = 1 then .ok ([0], (fun i j => if i = j then 1 else 0), M) else .error "none",
   fun _ _ _ => .error "none"⟩

theorem oneKernels_ok : KernelsOK oneKernels := by
  refine ⟨fun _ _ _ h => by simp [oneKernels] at h, ?_, fun _ _ _ _ h => by simp [oneKernels] at h⟩
  intro n M plu h
  simp only [oneKernels] at h
  split at h
  · rename_i hn
    subst hn
    simp only [Except.ok.injEq] at h
    subst h
    refine ⟨rfl, by simp, by simp, by intro i j hi hj hij; omega, by intro i j hi hj hij; omega, ?_⟩
    intro i j hi hj
    have hi0 : i = 0 := by omega
    have hj0 : j = 0 := by omega
    subst hi0 hj0
    simp [mmul, sumTo, permDen]
  · simp at h

/-- non-vacuity with a base case: Kronecker product (sizes 2 and 1) of an odd permutation and a
dense `1 × 1` leaf that goes through the LU rule: all hypotheses hold and the rules claim
`(-1)^1 · 3^2 = -9`. -/
example :
    let A : Op ℤ := .kron [.perm .f64 [1, 0], .dense .f64 1 1 (fun _ _ => 3)]
    A.wf = true ∧ A.dupSlice = false ∧ A.HermOK ∧ A.triTrue = true ∧ A.sqMembers = true ∧
      claimedDet oneKernels .auto .exact A = .ok (-9) := by
  refine ⟨?_, ?_, ?_, ?_, ?_, ?_⟩
  · simp [Op.wf]
  · simp [Op.dupSlice]
  · simp [Op.HermOK, Op.HermNode, Op.isa, Op.anns, AnnSet.isa, AnnSet.inter, AnnSet.interAll, Ann.sub]
  · simp [Op.triTrue]
  · simp [Op.sqMembers, Op.rows, Op.cols]
  · simp [claimedDet, slogdetG, slogdetAt, slogdetBase, resolveAuto, oneKernels, allOk, Except.map,
      SLOps.diagFold, SLOps.mulAll, detOps, Op.rows, Op.cols, Op.isa, Op.anns, AnnSet.isa, Op.td,
      permEven, permCycles, permLoop, permWalk, List.range, List.range.loop]

/-- non-vacuity: a nested tree (Kronecker with unequal factor sizes 2 and 3, a BlockDiag with
multiplicity 2, an odd permutation, a negative scalar of size 2) satisfying all hypotheses, on
which the rules claim `(-1)^3 · ((-2)² · 2)²` — evaluated: `claimedDet = ok (-64)`. -/
example :
    let A : Op ℤ := .kron [.perm .f64 [1, 0],
      .bdiag [.scalar .f64 (-2) 1, .tri .f64 1 1 true (fun _ _ => 2)] [2, 1]]
    A.wf = true ∧ A.dupSlice = false ∧ A.HermOK ∧ A.triTrue = true ∧ A.sqMembers = true ∧
      claimedDet noKernels .lu .auto A = .ok (-64) := by
  refine ⟨?_, ?_, ?_, ?_, ?_, ?_⟩
  · simp [Op.wf]
  · simp [Op.dupSlice]
  · simp [Op.HermOK, Op.HermNode, Op.isa, Op.anns, AnnSet.isa, AnnSet.inter, AnnSet.interAll, Ann.sub]
  · simp [Op.triTrue]
  · simp [Op.sqMembers, Op.rows, Op.cols, Op.dotSum]
  · simp [claimedDet, slogdetG, slogdetAt, allOk, Except.map, SLOps.diagFold, SLOps.mulAll, detOps,
      Op.cols, Op.dotSum, permEven, permCycles, permLoop, permWalk, List.range, List.range.loop]


/-! ## the Lanczos | Arnoldi rule as a theorem about its parts -/

/-- **`exp (tr log A) = det A`**: for every matrix function `L = lg(A)` (specification of C09) of a
scalar `lg` with `exp (lg a) = a` on the spectrum — in particular the principal logarithm on a
non-singular diagonalisable `A`. -/
theorem C07_exp_trace_log {ι : Type} [Fintype ι] [DecidableEq ι] {A L : Matrix ι ι ℂ}
    (h : IsMatFunOn {z : ℂ | z ≠ 0} Complex.log A L) : Complex.exp (Matrix.trace L) = Matrix.det A :=
  exp_trace_matFun Complex.log exp_clog h

/-- **the matrix the exact trace probes, column by column**: if for every identity probe `e_i` the
`i`-th column of `L` is the vector `Qᵢ Pᵢ (f(θᵢ) ⊙ Pᵢ⁻¹ (cᵢ e))` that `LanczosUnary` / `ArnoldiUnary`
return from a complete factorisation `A Qᵢ = Qᵢ Tᵢ` started from `e_i = cᵢ • Qᵢ e` (discharged from the
loop models of C14 / C15 by `KrylovCompose.lanczos_unary_exact` / `arnoldi_unary_exact`), with the small
eigendecomposition contract `Tᵢ Pᵢ = Pᵢ diag θᵢ`, `Pᵢ⁻¹ Pᵢ = 1`, then `L = f(A)`. -/
theorem C07_krylov_columns {n : ℕ} {S : Set ℂ} {A L : Matrix (Fin n) (Fin n) ℂ}
    (hA : DiagonalisableOn S A) (f : ℂ → ℂ)
    (hcol : ∀ i : Fin n, ∃ (m : ℕ) (Q : Matrix (Fin n) (Fin m) ℂ) (T P Pi : Matrix (Fin m) (Fin m) ℂ)
      (θ e : Fin m → ℂ) (c : ℂ), A * Q = Q * T ∧ Pi * P = 1 ∧ T * P = P * Matrix.diagonal θ ∧
        (_root_.Pi.single i (1 : ℂ) : Fin n → ℂ) = c • Q *ᵥ e ∧
        (fun a => L a i) = KrylovPoly.krylovVec Q P Pi θ f (c • e)) :
    IsMatFunOn S f A L := MatFun.matFun_of_krylov_columns hA f hcol

section code
variable [DecidableEq ℂ]

/-- **C07 with the Krylov contract reduced to its parts**: the same conclusion as `C07_slogdet`, where the
hypothesis on the Lanczos | Arnoldi kernel is not "`exp` of its result is the determinant" but
`TrlogOfParts`: its result is the trace (exact trace, C08) of a matrix that is the logarithm `lg` of
the represented matrix in the sense of C09 (`C07_krylov_columns` + C14 / C15 for the Krylov operators).
`lg` is any branch with `exp (lg a) = a` on `S` (`Complex.log` on `{z ≠ 0}`: `C07_exp_trace_log`).
`TrlogOfParts` is still a HYPOTHESIS here; for the Lanczos kernel defined from the loop model of C14 it is PROVED
(`C07_lanczos_kernel_parts`, `C07_slogdet_lanczos` below: only `EighContract` remains assumed); for Arnoldi it
remains assumed (satisfiable: `diagLogKernels_parts`). -/
theorem C07_slogdet_krylov (K : DetKernels ℂ ℂ) (lg : ℂ → ℂ) (S : Set ℂ)
    (hlg : ∀ a ∈ S, Complex.exp (lg a) = a)
    (hchol : ∀ (n : Nat) (M L : MatF ℂ), K.chol n M = .ok L →
      (∀ i j, i < n → j < n → M i j = star (M j i)) →
      (∀ i j, i < n → j < n → i < j → L i j = 0) ∧ EqOn n n (mmul n L (conjM (transposeM L))) M)
    (hlu : ∀ (n : Nat) (M : MatF ℂ) (plu : List Nat × MatF ℂ × MatF ℂ), K.lu n M = .ok plu →
      plu.1.length = n ∧ (∀ t ∈ plu.1, t < plu.1.length) ∧ plu.1.Nodup ∧
      (∀ i j, i < n → j < n → i < j → plu.2.1 i j = 0) ∧
      (∀ i j, i < n → j < n → j < i → plu.2.2 i j = 0) ∧
      EqOn n n (mmul n (permDen plu.1) (mmul n plu.2.1 plu.2.2)) M)
    (hparts : TrlogOfParts K lg S) (la : LogAlg) (ta : TraceAlg)
    (A : Op ℂ) (hwf : A.wf = true) (hnd : A.dupSlice = false) (hh : A.HermOK)
    (ht : A.triTrue = true) (hs : A.sqMembers = true) (s : ℂ) (l : ℝ)
    (h : slogdetG slOps K la ta A = .ok (s, l)) :
    let d := Matrix.det (MatF.toMatrix A.rows A.rows A.den.f)
    s * ((Real.exp l : ℝ) : ℂ) = d ∧
      (d ≠ 0 → ‖s‖ = 1 ∧ l = Real.log ‖d‖ ∧ s = d / ((‖d‖ : ℝ) : ℂ)) :=
  C07_slogdet K (kernelsOK_of_parts K lg S hlg hchol hlu hparts) la ta A hwf hnd hh ht hs s l h

/-- kernels whose Krylov part is genuinely "trace of the logarithm" on operators that represent a
non-singular DIAGONAL matrix (where the logarithm is computable without an eigensolver) -/
noncomputable def diagLogKernels : DetKernels ℂ ℂ :=
  ⟨fun _ _ => .error "none", fun _ _ => .error "none",
   fun _ _ A => open Classical in
     if (∀ i j, i < A.rows → j < A.rows → i ≠ j → A.den.f i j = 0) ∧ (∀ i, i < A.rows → A.den.f i i ≠ 0)
     then .ok (∑ i ∈ Finset.range A.rows, Complex.log (A.den.f i i)) else .error "none"⟩

/-- the hypotheses of `C07_slogdet_krylov` are satisfiable with a kernel that answers -/
theorem diagLogKernels_parts : TrlogOfParts diagLogKernels Complex.log {z : ℂ | z ≠ 0} := by
  intro la ta A t h _ _
  simp only [diagLogKernels] at h
  split at h
  · rename_i hc
    simp only [Except.ok.injEq] at h
    refine ⟨Matrix.diagonal (fun i : Fin A.rows => Complex.log (A.den.f i i)), ?_, ?_⟩
    · have hA : MatF.toMatrix A.rows A.rows A.den.f = Matrix.diagonal (fun i : Fin A.rows => A.den.f i i) := by
        ext i j
        by_cases hij : i = j
        · subst hij; simp [MatF.toMatrix_apply]
        · rw [Matrix.diagonal_apply_ne _ hij, MatF.toMatrix_apply]
          exact hc.1 i j i.isLt j.isLt (fun e => hij (Fin.ext e))
      rw [hA]
      exact IsMatFunOn.diagonal Complex.log _ (fun i => hc.2 i i.isLt)
    · rw [Matrix.trace_diagonal, ← h, Fin.sum_univ_eq_sum_range (fun i => Complex.log (A.den.f i i))]
  · simp at h

/-- … and it answers on a non-trivial input: the `2 × 2` operator `diag(2, -3)` given as a Dense
leaf goes to the Arnoldi base rule and the kernel returns `log 2 + log (-3)` -/
example :
    let A : Op ℂ := .dense .c128 2 2 (fun i j => if i = j then (if i = 0 then 2 else -3) else 0)
    slogdetG slOps diagLogKernels .arnoldi .exact A
      = .ok (slOps.ofTrLog (Complex.log 2 + Complex.log (-3))) := by
  intro A
  have hk : diagLogKernels.trlog .arnoldi .exact A = .ok (Complex.log 2 + Complex.log (-3)) := by
    simp only [diagLogKernels]
    rw [if_pos]
    · simp [A, Op.rows, Op.den, Finset.sum_range_succ]
    · constructor
      · intro i j hi hj hij
        simp [A, Op.den, hij]
      · intro i hi
        simp only [A, Op.rows] at hi
        interval_cases i <;> simp [A, Op.den]
  simp only [slogdetG, A, slogdetAt, slogdetBase, resolveAuto, Op.rows, Op.cols]
  simp only [bne_self_eq_false, Bool.false_eq_true, if_false]
  rw [show (Op.dense DType.c128 2 2 fun i j => if i = j then if i = 0 then (2:ℂ) else -3 else 0) = A from rfl, hk]
  rfl

end code

/-! ## regression lemmas for the exponents and the sum of logarithms -/

/-- the exponents of the Kronecker / BlockDiag rules act on the PHASE, not on a `±1` sign: for
`ScalarMul(i, 1) ⊗ I₂` the rule claims `i² · 1 = -1` (the determinant); taking the exponent modulo 2
would claim `i⁰ = 1`. -/
theorem C07_phase_exponent_not_mod_two :
    (SLOps.pow slOps (Complex.I, 0) 2).1 = -1 ∧ (SLOps.pow slOps (Complex.I, 0) (2 % 2)).1 = 1 ∧
      (-1 : ℂ) ≠ 1 := by
  refine ⟨?_, ?_, ?_⟩
  · simp [slOps]
  · simp [slOps]
  · norm_num

/-- second component of a product of pairs = the SUM of the second components -/
theorem mulAll_snd (vs : List (ℂ × ℝ)) : (SLOps.mulAll slOps vs).2 = (vs.map Prod.snd).sum := by
  unfold SLOps.mulAll
  have : ∀ (vs : List (ℂ × ℝ)) (a : ℂ × ℝ), (vs.foldl slOps.mul a).2 = a.2 + (vs.map Prod.snd).sum := by
    intro vs
    induction vs with
    | nil => intro a; simp
    | cons v vs ih =>
      intro a
      rw [List.foldl_cons, ih]
      simp only [slOps, List.map_cons, List.sum_cons]
      ring
  rw [this]
  simp [slOps]

/-- **the Diagonal / Triangular rule returns the SUM of the logarithms** `Σ log |dᵢ|` (it never forms
the product `Π |dᵢ|`, which leaves the floating-point range for long diagonals) -/
theorem C07_diag_sum_of_logs (n : Nat) (d : Nat → ℂ) :
    (SLOps.diagFold slOps n d).2 = ((List.range n).map (fun i => Real.log ‖d i‖)).sum := by
  unfold SLOps.diagFold
  rw [mulAll_snd, List.map_map]
  rfl

end C07

#print axioms C07.C07_det
#print axioms C07.C07_kron_exponents
#print axioms C07.C07_bdiag_multiplicities
#print axioms C07.C07_perm_parity
#print axioms C07.C07_combine_mul
#print axioms C07.C07_combine_pow
#print axioms C07.C07_cholesky
#print axioms C07.C07_slogdet
#print axioms C07.C07_logdet
#print axioms C07.C07_real_sign
#print axioms C07.C07_logabs_sign
#print axioms C07.C07_triTrue_needed
#print axioms C07.C07_sqMembers_needed
#print axioms C07.C07_kernel_contract_needed
#print axioms C07.C07_exp_trace_log
#print axioms C07.C07_krylov_columns
#print axioms C07.C07_slogdet_krylov
#print axioms C07.diagLogKernels_parts
#print axioms C07.C07_phase_exponent_not_mod_two
#print axioms C07.C07_diag_sum_of_logs

/-! ## round 3: the Lanczos kernel defined from the loop model of C14 — `TrlogOfParts` proved -/

namespace C07
open Op MatFun Matrix KrylovCompose

section lanczos
variable [DecidableEq ℂ]

/-- **`TrlogOfParts` is NOT a contract for the Lanczos kernel**: for the kernel DEFINED from the loop model of C14
(`Op.lanczosKernels`: `Lanczos.lanczosExact` on every identity probe, `eigh` of `T`, `Q P (log θ ⊙ Pᴴ e₁)`, exact trace)
it is a theorem — `KrylovCompose.lanczos_unary_exact` (= `C09_lanczos_path`) on every probe + `C07_krylov_columns`'s
content + C09's logarithm.  What remains ASSUMED: `EighContract eigh` (LAPACK `eigh` on the small tridiagonal matrix:
unitary `P`, `T P = P diag θ`), satisfiable for every size (`KrylovCompose.eighSpectral_contract`). -/
theorem C07_lanczos_kernel_parts (eigh : Eigh ℂ) (contract : EighContract eigh) (max_iters : ℕ) (tol : ℝ) :
    TrlogOfParts (lanczosKernels eigh max_iters tol) Complex.log {z : ℂ | z ≠ 0} :=
  lanczosKernels_parts eigh contract max_iters tol

/-- **C07 on the Lanczos path with no kernel hypothesis besides `EighContract`**: every tree, every `la`, `ta` -/
theorem C07_slogdet_lanczos (eigh : Eigh ℂ) (contract : EighContract eigh) (max_iters : ℕ) (tol : ℝ)
    (la : LogAlg) (ta : TraceAlg)
    (A : Op ℂ) (hwf : A.wf = true) (hnd : A.dupSlice = false) (hh : A.HermOK)
    (ht : A.triTrue = true) (hs : A.sqMembers = true) (s : ℂ) (l : ℝ)
    (h : slogdetG slOps (lanczosKernels eigh max_iters tol) la ta A = .ok (s, l)) :
    let d := Matrix.det (MatF.toMatrix A.rows A.rows A.den.f)
    s * ((Real.exp l : ℝ) : ℂ) = d ∧
      (d ≠ 0 → ‖s‖ = 1 ∧ l = Real.log ‖d‖ ∧ s = d / ((‖d‖ : ℝ) : ℂ)) :=
  C07_slogdet_krylov (lanczosKernels eigh max_iters tol) Complex.log {z : ℂ | z ≠ 0} exp_clog
    (fun n M L hc => by simp [lanczosKernels] at hc) (fun n M plu hc => by simp [lanczosKernels] at hc)
    (lanczosKernels_parts eigh contract max_iters tol) la ta A hwf hnd hh ht hs s l h

/-- the kernel answers on EVERY Hermitian non-singular operator for `tol = 0`, cap `≥ n` (no hypothesis about the runs:
`C14_grade`), and `exp` of its answer is the determinant -/
theorem C07_lanczos_kernel_answers (eigh : Eigh ℂ) (contract : EighContract eigh) (max_iters : ℕ) (la : LogAlg)
    (ta : TraceAlg) (A : Op ℂ) (sq : A.rows = A.cols)
    (herm : (MatF.toMatrix A.rows A.rows A.den.f).IsHermitian)
    (hdet : (MatF.toMatrix A.rows A.rows A.den.f).det ≠ 0) (hn : 1 ≤ A.rows) (hcap : A.rows ≤ max_iters) :
    ∃ t, (lanczosKernels eigh max_iters 0).trlog la ta A = .ok t ∧
      Complex.exp t = (MatF.toMatrix A.rows A.rows A.den.f).det :=
  lanczosKernels_answers eigh contract max_iters la ta A sq herm hdet hn hcap

/-- **witness on a non-diagonal input**: for `exH` with `Lanczos` (cap 5, `tol = 0`, `eigh` = the spectral theorem) the
rule recursion goes to the Lanczos base rule, the kernel answers, and the returned pair satisfies
`sign · exp(logabs) = det = 3` -/
theorem C07_lanczos_kernel_witness :
    EighContract (eighSpectral (𝕜 := ℂ)) ∧
    (MatF.toMatrix exH.rows exH.rows exH.den.f).det = 3 ∧
    ∃ s l, slogdetG slOps (lanczosKernels eighSpectral 5 0) .lanczos .exact exH = .ok (s, l) ∧
      s * ((Real.exp l : ℝ) : ℂ) = 3 := by
  have hr : exH.rows = 2 := by simp [exH, Op.rows]
  have hdet : (MatF.toMatrix exH.rows exH.rows exH.den.f).det = 3 := by
    rw [det_toMatrix_two _ hr]
    simp [exH, Op.den]
    norm_num
  have hherm : (MatF.toMatrix exH.rows exH.rows exH.den.f).IsHermitian := by
    apply Matrix.IsHermitian.ext
    intro i j
    show star (exH.den.f j.val i.val) = exH.den.f i.val j.val
    simp only [exH, Op.den]
    by_cases hij : i.val = j.val
    · simp [hij]
    · have h' : ¬ j.val = i.val := fun e => hij e.symm
      simp [hij, h']
  obtain ⟨t, ht, hexp⟩ := lanczosKernels_answers eighSpectral eighSpectral_contract 5 .lanczos .exact exH
    (by simp [exH, Op.rows, Op.cols]) hherm (by rw [hdet]; norm_num) (by rw [hr]; norm_num) (by rw [hr]; norm_num)
  have hrun : slogdetG slOps (lanczosKernels eighSpectral 5 0) .lanczos .exact exH = .ok (slOps.ofTrLog t) := by
    simp only [slogdetG, exH, slogdetAt, slogdetBase, resolveAuto, Op.rows, Op.cols]
    simp only [bne_self_eq_false, Bool.false_eq_true, if_false]
    rw [show (Op.annot Ann.selfAdjoint (Op.dense DType.c128 2 2 fun i j => if i = j then (2 : ℂ) else 1)) = exH from rfl, ht]
    rfl
  refine ⟨eighSpectral_contract, hdet, (slOps.ofTrLog t).1, (slOps.ofTrLog t).2, hrun, ?_⟩
  have hsymm : ∀ i j : ℕ, (if i = j then (2 : ℂ) else 1) = star (if j = i then (2 : ℂ) else 1) := by
    intro i j
    by_cases hij : i = j
    · simp [hij]
    · have h' : ¬ j = i := fun e => hij e.symm
      simp [hij, h']
  have hHerm : exH.HermOK := by
    simp only [exH, Op.HermOK, Op.HermNode]
    refine ⟨fun _ => ⟨by simp [Op.rows, Op.cols], fun i j _ _ => ?_⟩,
      fun _ => ⟨by simp [Op.rows, Op.cols], fun i j _ _ => ?_⟩⟩
    · simp only [Op.den, MatV.of_f]; exact hsymm i j
    · simp only [Op.den, MatV.of_f]; exact hsymm i j
  have := (C07_slogdet_lanczos eighSpectral eighSpectral_contract 5 0 .lanczos .exact exH
    (by simp [exH, Op.wf]) (by simp [exH, Op.dupSlice]) hHerm
    (by simp [exH, Op.triTrue]) (by simp [exH, Op.sqMembers]) (slOps.ofTrLog t).1 (slOps.ofTrLog t).2 hrun).1
  rw [hdet] at this
  exact this

end lanczos

end C07

#print axioms C07.C07_lanczos_kernel_parts
#print axioms C07.C07_slogdet_lanczos
#print axioms C07.C07_lanczos_kernel_answers
#print axioms C07.C07_lanczos_kernel_witness
