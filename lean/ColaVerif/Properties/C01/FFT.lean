import ColaVerif.Lemmas.FFTOp

/-!
# C01 — `cola.ops.FFT`: `A @ X` and `to_dense` are the DFT matrix at work

`FFT(n)` is not an `Op` constructor (its entries `e^{-2πi jk/n}/√n` are not Gaussian rationals);
like `Kernel` it is a stand-alone model (Model/FFTOp.lean) over an abstract commutative semiring
`K` with the root `ω` (`= e^{-2πi/n}`, the sign convention of `np.fft.fft`) and the scale `s`
(`= 1/√n`, `norm='ortho'`) as parameters.  The represented matrix is `fftDen n ω s`, entry
`s · ω^(j·k)`; the code model `fftMatmat` is the transform sum along axis 0 of every column with
the scale applied to the finished sum.  No hypothesis on `ω`, `s` is needed here (they enter for
`X @ A` and unitarity: Properties/C02/FFT.lean).  `harness/props/c01.py: fft_stream` ties
`fftMatmat` / `fftToDense` to `cola.ops.FFT` exactly for `n ∈ {1, 4}` (where `ω, s ∈ ℚ[i]`).
-/

namespace C01
variable {K : Type}

/-- **C01 (FFT).**  `FFT(n) @ X` — `fft(X, axis=0, norm='ortho')`, the sum
`s · Σ_j X[j, c] ω^(jk)` — is the represented matrix times `X`, for all `n`, all operands, every
number of columns. -/
theorem C01_fft_matmat [CommSemiring K] (n : Nat) (ω s : K) (b : Nat) (X : MatF K) :
    EqOn n b (fftMatmat n ω s b X).f (mmul n (fftDen n ω s) X) := by
  intro k c _ _
  rw [fftMatmat_eq]

/-- a 1-D operand is one column -/
theorem C01_fft_matvec [CommSemiring K] (n : Nat) (ω s : K) (x : Nat → K) (k : Nat) :
    (fftMatmat n ω s 1 (fun j _ => x j)).f k 0
      = ∑ j ∈ Finset.range n, fftDen n ω s k j * x j := by
  rw [fftMatmat_eq, mmul_apply]

/-- **C01 (FFT, `to_dense`).**  `A @ eye(n)` is the represented matrix. -/
theorem C01_fft_to_dense [CommSemiring K] (n : Nat) (ω s : K) :
    EqOn n n (fftToDense n ω s).f (fftDen n ω s) := fftToDense_eq n ω s

/-- the sign convention, on the exact instance `n = 4`, `ω = −i`, `s = 1/2`: entry `(1, 1)` of the
forward matrix is `−i/2` and entry `(1, 3)` is `+i/2` (`np.fft.fft(np.eye(4), norm='ortho')[1]
= [0.5, −0.5j, −0.5, +0.5j]`); with the other sign (`ω = +i`) the two are exchanged -/
theorem C01_fft_sign_convention :
    fftDen 4 (⟨0, -1⟩ : GRat) ⟨1 / 2, 0⟩ 1 1 = ⟨0, -1 / 2⟩ ∧
      fftDen 4 (⟨0, -1⟩ : GRat) ⟨1 / 2, 0⟩ 1 3 = ⟨0, 1 / 2⟩ ∧
      fftDen 4 (⟨0, 1⟩ : GRat) ⟨1 / 2, 0⟩ 1 1 = ⟨0, 1 / 2⟩ := by
  refine ⟨?_, ?_, ?_⟩ <;> ext <;> norm_num [fftDen, pow_succ]

/-- a non-trivial instance evaluated through the code model: the transform of the column
`(1, i, 0, 0)ᵀ` has second entry `s (1 + i·ω) = (1/2)(1 + 1) = 1` -/
theorem C01_fft_example :
    (fftMatmat 4 (⟨0, -1⟩ : GRat) ⟨1 / 2, 0⟩ 1
      (fun j _ => if j = 0 then 1 else if j = 1 then ⟨0, 1⟩ else 0)).f 1 0 = 1 := by
  rw [fftMatmat_eq, mmul_apply]
  ext <;> norm_num [fftDen, Finset.sum_range_succ, pow_succ]

end C01

#print axioms C01.C01_fft_matmat
#print axioms C01.C01_fft_matvec
#print axioms C01.C01_fft_to_dense
#print axioms C01.C01_fft_sign_convention
#print axioms C01.C01_fft_example
