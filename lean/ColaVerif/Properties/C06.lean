import ColaVerif.Lemmas.InvWell
import ColaVerif.Lemmas.InvNodes
import ColaVerif.Lemmas.InvOptions
import ColaVerif.Lemmas.InvInstances
import ColaVerif.Basic.GRat
import ColaVerif.Basic.GInt

/-!
# C06 — `inv` / `solve` return the solution of the linear system on every dispatch path

Model (`Model/Inv.lean`): `Inv.invRule E alg A : Except String (InvOp R)` mirrors the dispatch of
`cola/linalg/inverse/inv.py` — the class rules (Identity, ScalarMul, Permutation, Product with
square factors, BlockDiag, Kronecker, Diagonal, Triangular) before the algorithm rules (`Auto`
decision table, Cholesky → `inv(L.H) @ inv(L)`, LU → `inv(U) @ inv(L) @ inv(P)`, CG / GMRES →
`IterativeOperatorWInfo`), the conditional Unitary rule only for an algorithm object without a
rule of its own.  `InvOp.den E B` is the matrix the returned operator represents, `InvOp.mm E B b X`
the code model of `B @ X`; `Op.den A` is the matrix of `A` (specification).

`E : Inv.Ext R` carries the external parameters: the reciprocal of the scalar type, the dense
factorisations and the iterative solvers.  Hypotheses (`Inv.InvHyp E alg A`, collected along the
rules that fire):
* data of the structural leaves is invertible (`s · recip s = 1` for ScalarMul / Diagonal entries /
  the diagonal of a Triangular), permutations are permutations, a `Triangular` payload vanishes
  outside its declared triangle (constructor precondition), Products chain;
* at a node that falls to an algorithm: `A` is square, `Good A` (as in C01), and the CONTRACT of
  the external routine on that node: `P L U = A` / `L Lᴴ = A` with triangular factors and
  invertible diagonals (LAPACK), `A · alg(A, X) = X` (CG, GMRES), or — plain `Algorithm`
  object — the truth of the declaration `Unitary(A)`.

**What the contracts assume (read this before quoting a theorem of this file).**  Every contract is
an EXACT statement: exact factorisation, exact solve, exact reciprocal.  Nothing here is about
rounding or "backward stable".  About "the requested tolerance" the model says this much (round 3):
the algorithm objects carry their options (`Alg.cg o`, `Alg.gmres o`, `Alg.auto d`), and
`C06_solver_options` / `C06_auto_forwards_options` prove that every solver object `inv` builds holds
exactly the caller's `tol` / `max_iters` (`C06_cg_runs_with_options`, `C06_gmres_runs_with_options`
in the sub-files: the C12 / C13 solver models are then RUN with them).  That a run with tolerance
`tol` ends with a residual of that size is C12's / C13's stopping theorem and, on the real code, the
residual claim of the float-side stream (props/c06_float.py; n ≤ 200) and the exact stream (n ≤ 8).
Each contract has an instance on a concrete non-diagonal input over ℚ[i] (`C06_lu_instance`: exact LU
with a row swap; `C06_chol_instance`: exact Cholesky of a complex Hermitian matrix;
`C06_solve_contract_instance`: exact solver), through which the main theorems are applied.
For the two iterative solvers the exact-solve contract `SolveContract E alg A` is what the sibling
families prove for the solver MODELS when the iteration is run to the grade of the right-hand side:
* GMRES: `C13_exact_at_grade_input` / `C13_exact_at_grade_injective` / `C13_exact_at_dim`
  (Properties/C13.lean): for an injective operator, `b − A x₀ ≠ 0`, no earlier breakdown, the mask
  clause `maskExact` and a sound dense solver, the returned iterate satisfies `b − A x = 0` once
  `A^s r₀ ∈ K_s(A, r₀)` (in particular after `n = dim` steps).  Its hypotheses are per right-hand side
  (one column, `b − A x₀ ≠ 0`): the contract `∀ X` of this file is therefore NOT implied for a zero
  column — that is the recorded finding `gmres-zero-rhs-column` (`C06_solver_contract_needed`).
* CG: `C12_optimal_inputs` / `C12_optimal_hpd` (Properties/C12.lean): for a Hermitian positive
  definite operator and an admissible tolerance the returned iterate minimises the energy norm over
  `x₀ + K_k`, uniquely; hence it IS the solution as soon as `x⋆ − x₀ ∈ K_k` (`k` = grade).  Before
  the grade the iterate only satisfies the exit test (`C12_stop`), i.e. a residual bound, not `A x = b`.
`C06_solve_iter_call` below restates the solve theorem for an operator that falls to an iterative
algorithm with the contract required of THE ONE CALL that is made, which is the form in which the
C12 / C13 conclusions apply.
-/

namespace C06
open Inv
variable {R : Type} [CommRing R] [StarRing R] [DecidableEq R]

/-! ## `inv(A)` represents the inverse -/

/-- **`inv(A, alg)` is an operator of the shape of `A` whose dense form is a two-sided inverse of
the matrix of `A`**, whichever rule or algorithm is selected. -/
theorem C06_inv (E : Ext R) (alg : Alg) (A : Op R) (h : InvHyp E alg A) (B : InvOp R)
    (hB : invRule E alg A = .ok B) :
    A.cols = A.rows ∧ B.rows = A.rows ∧ B.cols = A.rows ∧
      EqOn A.rows A.rows (mmul A.rows (B.den E).f A.den.f) eyeM ∧
      EqOn A.rows A.rows (mmul A.rows A.den.f (B.den E).f) eyeM :=
  let s := invRule_sound E alg A h B hB
  ⟨s.sq, s.rows, s.cols, s.rinv.symm, s.rinv⟩

/-- the same through the Mathlib bridge: the window of `den B` is Mathlib's `⁻¹` of the window of
`den A`. -/
theorem C06_inv_matrix (E : Ext R) (alg : Alg) (A : Op R) (h : InvHyp E alg A) (B : InvOp R)
    (hB : invRule E alg A = .ok B) :
    MatF.toMatrix A.rows A.rows (B.den E).f = (MatF.toMatrix A.rows A.rows A.den.f)⁻¹ := by
  have s := (invRule_sound E alg A h B hB).rinv
  rw [rinv_iff] at s
  exact (Matrix.inv_eq_right_inv s).symm

/-- **`inv(A) @ X` multiplies by the inverse**: the product code of the returned operator
(substitution for `TriangularInv`, one solver run for `IterativeOperatorWInfo`, the loops of
Product / Kronecker / BlockDiag) agrees with the represented matrix, for any number of columns. -/
theorem C06_matmat (E : Ext R) (alg : Alg) (A : Op R) (h : InvHyp E alg A) (B : InvOp R)
    (hB : invRule E alg A = .ok B) (b : Nat) (X : MatF R) :
    EqOn A.rows b (B.mm E b X).f (mmul A.rows (B.den E).f X) := by
  have s := invRule_sound E alg A h B hB
  have := s.mm b X
  rw [s.rows, s.cols] at this
  exact this

/-! ## `solve(A, b, alg)` solves `A x = b` -/

/-- **`solve(A, X, alg) = inv(A, alg) @ X` satisfies `A · Y = X`** for a block of `b` columns. -/
theorem C06_solve (E : Ext R) (alg : Alg) (A : Op R) (h : InvHyp E alg A) (b : Nat) (X : MatF R)
    (Y : MatV R) (hY : solveRule E alg A b X = .ok Y) :
    EqOn A.rows b (mmul A.rows A.den.f Y.f) X := by
  unfold solveRule at hY
  cases hB : invRule E alg A with
  | error e => rw [hB] at hY; simp [Except.map] at hY
  | ok B =>
    rw [hB] at hY
    simp only [Except.map] at hY
    cases hY
    have s := invRule_sound E alg A h B hB
    exact (mmul_congr (EqOn.refl _ _ _) (C06_matmat E alg A h B hB b X)).trans (s.rinv.solves X)

/-- a 1-D right-hand side is one column: every entry of `A · x` is the entry of `b`. -/
theorem C06_solve_vec (E : Ext R) (alg : Alg) (A : Op R) (h : InvHyp E alg A) (x : Nat → R)
    (Y : MatV R) (hY : solveRule E alg A 1 (fun i _ => x i) = .ok Y) (i : Nat) (hi : i < A.rows) :
    ∑ q ∈ Finset.range A.rows, A.den.f i q * Y.f q 0 = x i := by
  have := C06_solve E alg A h 1 (fun i _ => x i) Y hY i 0 hi (by omega)
  rw [mmul_apply] at this
  exact this

/-- the solution is the only one: whatever solves `A · Z = X` on the window equals `solve`. -/
theorem C06_solve_unique (E : Ext R) (alg : Alg) (A : Op R) (h : InvHyp E alg A) (b : Nat)
    (X : MatF R) (Y : MatV R) (hY : solveRule E alg A b X = .ok Y) (Z : MatF R)
    (hZ : EqOn A.rows b (mmul A.rows A.den.f Z) X) : EqOn A.rows b Z Y.f := by
  unfold solveRule at hY
  cases hB : invRule E alg A with
  | error e => rw [hB] at hY; simp [Except.map] at hY
  | ok B =>
    rw [hB] at hY
    simp only [Except.map] at hY
    cases hY
    have s := invRule_sound E alg A h B hB
    exact (s.rinv.solve_unique hZ).trans (C06_matmat E alg A h B hB b X).symm

/-! ## the returned operator as an operator: left product, `to_dense`, transpose

`WellI E B` is the analogue, for the returned operator, of the hypotheses of C01 / C02 (`Good`,
`RealTyped` of the embedded ordinary operators; triangular payloads; the solver contract; and that
a `Product` / `Kronecker` / `BlockDiag` node which REPORTS SelfAdjoint is Hermitian — the default
left product and `.T` take their shortcuts on the report). -/

/-- **the side conditions follow from hypotheses on the input**: `InvHyp`, `Good A`, `A.RealTyped`
(as in C01 / C02), a reciprocal that commutes with conjugation, and — on the result — only that
its composite nodes which report SelfAdjoint are Hermitian (`NodesOK`; annotation soundness of the
result, cf. C05). -/
theorem C06_well (E : Ext R) (alg : Alg) (hstar : RecipStar E) (A : Op R) (h : InvHyp E alg A)
    (hg : Op.Good A) (hr : A.RealTyped) (B : InvOp R) (hB : invRule E alg A = .ok B)
    (hn : NodesOK E B) : WellI E B := invRule_well E alg hstar A h hg hr B hB hn

/-- **`X @ inv(A)` is `X` times the inverse** (explicit `_rmatmat` of `TriangularInv` — the
transposed substitution with the opposite `lower` — and of `Product`; the default left product
of the other kinds). -/
theorem C06_left (E : Ext R) (alg : Alg) (A : Op R) (h : InvHyp E alg A) (B : InvOp R)
    (hB : invRule E alg A = .ok B) (hw : WellI E B) (b : Nat) (X : MatF R) :
    EqOn b A.rows (B.rmm E b X).f (mmul A.rows X (B.den E).f) ∧
      EqOn b A.rows (mmul A.rows (B.rmm E b X).f A.den.f) X := by
  have s := invRule_sound E alg A h B hB
  have hr := (wellI_ok E B hw).rmm b X
  rw [s.rows, s.cols] at hr
  refine ⟨hr, ?_⟩
  have hl := s.rinv.symm
  rw [rinv_iff] at hl
  rw [← MatF.toMatrix_eq_iff] at hr ⊢
  rw [MatF.toMatrix_mmul] at hr ⊢
  rw [hr, Matrix.mul_assoc, hl, Matrix.mul_one]

/-- **`inv(A).to_dense()` is the inverse matrix.** -/
theorem C06_dense (E : Ext R) (alg : Alg) (A : Op R) (h : InvHyp E alg A) (B : InvOp R)
    (hB : invRule E alg A = .ok B) (hw : WellI E B) :
    EqOn A.rows A.rows (B.td E).f (B.den E).f ∧
      EqOn A.rows A.rows (mmul A.rows (B.td E).f A.den.f) eyeM := by
  have s := invRule_sound E alg A h B hB
  have ht := (wellI_ok E B hw).td
  unfold TdOKI at ht
  rw [s.rows, s.cols] at ht
  exact ⟨ht, (mmul_congr ht (EqOn.refl _ _ _)).trans s.rinv.symm⟩

/-- **`inv(A).T.to_dense()` is the transpose of the inverse** (= the inverse of the transpose). -/
theorem C06_transpose (E : Ext R) (alg : Alg) (A : Op R) (h : InvHyp E alg A) (B : InvOp R)
    (hB : invRule E alg A = .ok B) (hw : WellI E B) :
    EqOn A.rows A.rows (B.tdT E).f (transposeM (B.den E).f) ∧
      EqOn A.rows A.rows (mmul A.rows (B.tdT E).f (transposeM A.den.f)) eyeM := by
  have s := invRule_sound E alg A h B hB
  have ht := (wellI_ok E B hw).tdT
  unfold TdTOKI at ht
  rw [s.rows, s.cols] at ht
  refine ⟨ht, ?_⟩
  have hr := s.rinv
  rw [rinv_iff] at hr
  rw [← MatF.toMatrix_eq_iff] at ht ⊢
  rw [MatF.toMatrix_mmul, ht, MatF.toMatrix_transposeM, MatF.toMatrix_transposeM,
    ← Matrix.transpose_mul, hr, Matrix.transpose_one, MatF.toMatrix_eyeM]

/-! ## rule selection -/

/-- **the Auto decision table** (docstring of `inv(A, Auto)`): PSD & small → Cholesky, PSD & large →
CG, not PSD & small → LU, not PSD & large → GMRES; "small" = at most 10⁶ entries. -/
theorem C06_auto (d : Opts) (isPSD : Bool) (entries : Nat) :
    autoChoice d isPSD entries =
      (if isPSD then (if entries ≤ 1000000 then Alg.chol else Alg.cg (.ofDict d))
       else (if entries ≤ 1000000 then Alg.lu else Alg.gmres (.ofDict d))) := by
  unfold autoChoice
  by_cases h : entries ≤ 1000000 <;> cases isPSD <;> simp [h]

/-- both sides of the switch: 1000 × 1000 is small, 1001 × 1001 is large. -/
theorem C06_auto_switch (d : Opts) :
    autoChoice d true (1000 * 1000) = .chol ∧ autoChoice d true (1001 * 1001) = .cg (.ofDict d) ∧
      autoChoice d false (1000 * 1000) = .lu ∧
      autoChoice d false (1001 * 1001) = .gmres (.ofDict d) := by
  simp [autoChoice]

/-- an explicit algorithm object is used as given (with its options); `Auto(**d)` (and the omitted
argument, `d = {}`) resolves through the table. -/
theorem C06_effAlg (alg : Alg) (isPSD : Bool) (entries : Nat) :
    (∀ d, alg = .auto d → effAlg alg isPSD entries = autoChoice d isPSD entries) ∧
      (alg.isAuto = false → effAlg alg isPSD entries = alg) := by
  cases alg <;> simp [effAlg, Alg.isAuto]

/-- the conditional Unitary rule is dead for every algorithm that has a rule of its own: with
`Auto`, `LU`, `Cholesky`, `CG`, `GMRES` the algorithm rule never returns `Unitary(A.H)` (an `op`
result); only a plain `Algorithm` object reaches it. -/
theorem C06_unitary_rule_dead (E : Ext R) (alg : Alg) (A : Op R) (halg : alg ≠ .other) (X : Op R) :
    algRule E alg A ≠ .ok (.op X) := by
  unfold algRule
  have hne : effAlg alg (A.isa .psd) (A.rows * A.cols) ≠ .other := by
    unfold effAlg autoChoice
    cases alg <;> simp at halg ⊢
    split <;> simp
  generalize effAlg alg (A.isa .psd) (A.rows * A.cols) = ea at hne
  cases ea with
  | other => exact absurd rfl hne
  | auto d => simp
  | gmres o => simp
  | lu => simp
  | cg o => simp only; split <;> simp
  | chol => simp only; split <;> simp

/-! ## the hypotheses are needed / satisfiable -/

/-- the exact reciprocal of the driver's scalar type satisfies the reciprocal hypothesis. -/
theorem C06_grat_recip (a : GRat) (h : a ≠ 0) : a * GRat.inv a = 1 := by
  have hd : a.re * a.re + a.im * a.im ≠ 0 := by
    intro h0
    have h1 : a.re * a.re = 0 ∧ a.im * a.im = 0 := by
      constructor <;> nlinarith [mul_self_nonneg a.re, mul_self_nonneg a.im]
    apply h
    ext
    · simpa using h1.1
    · simpa using h1.2
  ext
  · simp only [GRat.mul_re, GRat.inv, GRat.one_re]
    have : a.re * (a.re / (a.re * a.re + a.im * a.im)) - a.im * (-a.im / (a.re * a.re + a.im * a.im))
        = (a.re * a.re + a.im * a.im) / (a.re * a.re + a.im * a.im) := by ring
    rw [this, div_self hd]
  · simp only [GRat.mul_im, GRat.inv, GRat.one_im]
    ring

/-- … and commutes with conjugation (`RecipStar`). -/
theorem C06_grat_recip_star (a : GRat) : star (GRat.inv a) = GRat.inv (star a) := by
  ext
  · simp [GRat.inv]
  · simp [GRat.inv]; ring

/-- a parameter set over ℤ: reciprocal of the units `±1`, unused factorisations / solver. -/
def unitExt : Ext Int :=
  { recip := id, chol := fun _ D => MatV.of D, lu := fun _ D => ([], MatV.of D, MatV.of D),
    solve := fun _ _ _ _ => MatV.of zeroM }

/-- the Triangular payload hypothesis is needed: `Triangular([[1, 1], [0, 1]], lower=True)`
multiplies by the full matrix, while `TriangularInv` reads the lower triangle only — the returned
operator is the identity, not the inverse. -/
theorem C06_triangular_payload_needed :
    let A : Op Int := .tri .f64 2 2 true (fun i j => if i = 1 ∧ j = 0 then 0 else 1)
    ∃ B, invRule unitExt (.auto {}) A = .ok B ∧
      mmul 2 A.den.f (B.den unitExt).f 0 1 ≠ (eyeM : MatF Int) 0 1 := by
  intro A
  refine ⟨.triInv .f64 2 true (fun i j => if i = 1 ∧ j = 0 then 0 else 1), by simp [A, invRule, invAux], ?_⟩
  simp [A, den_triInv, solvetri, solveLower, fwdList, mmul, sumTo, Op.den, eyeM, unitExt]

/-- the solver contract is needed: with a solver that does not solve (cola's GMRES returns NaN for a
zero right-hand-side column), `solve` does not satisfy `A x = b`. -/
theorem C06_solver_contract_needed (o : KOpts) :
    let A : Op Int := .dense .f64 1 1 (fun _ _ => 1)
    ∃ Y, solveRule unitExt (.gmres o) A 1 (fun _ _ => 1) = .ok Y ∧ mmul 1 A.den.f Y.f 0 0 ≠ 1 := by
  intro A
  refine ⟨MatV.of zeroM, by simp [A, solveRule, invRule, invAux, algRule, effAlg, Except.map, InvOp.mm, unitExt], ?_⟩
  simp [mmul, sumTo, zeroM]

/-- the truth of `Unitary(A)` is needed for the plain-`Algorithm` path: `Unitary(Dense([[2]]))` is
"inverted" to its adjoint `[[2]]`. -/
theorem C06_unitary_declaration_needed :
    let A : Op Int := .annot .unitary (.dense .f64 1 1 (fun _ _ => 2))
    ∃ B, invRule unitExt .other A = .ok B ∧ mmul 1 A.den.f (B.den unitExt).f 0 0 ≠ 1 := by
  intro A
  refine ⟨.op (.annot .unitary A.adjointRule), by simp [A, invRule, invAux, algRule, effAlg, Op.isa, Op.anns,
    AnnSet.isa, AnnSet.union, Ann.sub], ?_⟩
  simp [A, InvOp.den, Op.den, Op.adjointRule, Op.core, mmul, sumTo, conjM, transposeM]

/-- parameters over the Gaussian integers: the reciprocal of a unit `±1, ±i` is its conjugate -/
def gintExt : Ext GInt :=
  { recip := star, chol := fun _ D => MatV.of D, lu := fun _ D => ([], MatV.of D, MatV.of D),
    solve := fun _ _ _ _ => MatV.of zeroM }

/-- clause `scalar-times-annotated` (the recorded C05 defect, inside the result of `inv`): the
condition `NodesOK` of `C06_well` is needed.  `inv(Kronecker(Product(I, i·I)))` is
`Kronecker(Product((−i)·I, I))`; the Product inherits PSD / Unitary from its only non-scalar member,
the Kronecker node reports SelfAdjoint, and its default left product takes the conjugation
shortcut: `x @ inv(A)` is `+i·x` instead of `−i·x` (the inverse itself and `inv(A) @ x` are right). -/
theorem C06_scalar_times_annotated_clause_needed :
    let A : Op GInt := .kron [.prod [.eye .c128 1, .scalar .c128 GInt.I 1]]
    ∃ B, invRule gintExt (.auto {}) A = .ok B ∧ InvHyp gintExt (.auto {}) A ∧ B.scalarTimesAnn = true ∧
      (B.rmm gintExt 1 (fun _ _ => 1)).f 0 0 ≠ mmul 1 (fun _ _ => 1) (B.den gintExt).f 0 0 := by
  intro A
  have hB : invRule gintExt (.auto {}) A
      = .ok (.kron [.prod [.op (.scalar .c128 (star GInt.I) 1), .op (.eye .c128 1)]]) := by
    simp [A, invRule, invAux, allSquare, Op.rows, Op.cols, Inv.sequence, Except.map, gintExt]
  have hH : InvHyp gintExt (.auto {}) A := by
    simp [A, InvHyp, HypAux, allSquare, Op.rows, Op.cols, Op.chainOk, gintExt]
    decide
  refine ⟨_, hB, hH, ?_, ?_⟩
  · simp [InvOp.scalarTimesAnn, InvOp.isScalarMul, Op.isScalarMul, Op.core, InvOp.anns, Op.anns,
      Op.scalarTimesAnn]
  · have s := invRule_sound gintExt (.auto {}) A hH _ hB
    have hm := s.mm 1 (conjM (transposeM fun _ _ => (1 : GInt))) 0 0
      (by simp [InvOp.rows, Op.rows]) (by omega)
    have hd : (InvOp.den gintExt (InvOp.kron [InvOp.prod
        [InvOp.op (Op.scalar DType.c128 (star GInt.I) 1), InvOp.op (Op.eye DType.c128 1)]])).f 0 0
          = star GInt.I := by
      simp [InvOp.den, kronDen, kronEntry, unravel, InvOp.rows, InvOp.cols, Op.rows, Op.cols, Op.den,
        mmul, sumTo, eyeM]
    simp [InvOp.rmm, InvOp.defaultRmm, InvOp.isa, InvOp.anns, InvOp.isScalarMul, Op.isScalarMul,
      Op.core, Op.anns, AnnSet.isa, AnnSet.interAll, Ann.sub, InvOp.cols, Op.cols]
    simp only [conjM, transposeM] at hm ⊢
    rw [hm]
    simp only [mmul, sumTo, InvOp.cols, Op.cols, List.map_cons, List.map_nil, List.prod_cons,
      List.prod_nil, List.getLast?_cons_cons, List.getLast?_singleton, Option.getD_some, hd]
    decide

/-- non-vacuity: a nested tree with every structural kind satisfies the hypotheses, and the rule
returns the reversed product of the factor-wise inverses. -/
example :
    let T : Op Int := .tri .f64 2 2 true (fun i j => if i = j then 1 else if i = 1 ∧ j = 0 then 3 else 0)
    let A : Op Int := .prod [.kron [T, .scalar .f64 (-1) 1], .bdiag [.eye .f64 1] [2],
      .annot .unitary (.perm .f64 [1, 0]), .diag .f64 2 (fun _ => -1)]
    InvHyp unitExt (.auto {}) A := by
  intro T A
  simp [A, T, InvHyp, HypAux, allSquare, Op.rows, Op.cols, Op.chainOk, Op.dotSum, Inv.LowerTri, DiagUnit,
    unitExt]
  intro i j _ _ hij
  rw [if_neg (by omega), if_neg (by omega)]


/-! ## round 2: hypotheses on the INPUT only

`invRule … = .ok B` and `NodesOK E B` were hypotheses the caller had to supply.  They are now
derived: `C06_succeeds` characterises success by the declarations of the input (`Declared`), and
`C06_nodes` derives `NodesOK` from `ScalarsOK` (Lemmas/InvNodes.lean).  The `_total` theorems below
restate the main results with hypotheses about the input (and the contracts of the external
routines ON the input) only; the earlier statements follow from them and are kept. -/

/-- **`inv(A, alg)` returns an operator (raises nothing) exactly when the declarations asserted by
the selected rules are present**: `isa PSD` at every node where Cholesky / CG was requested
explicitly, `isa Unitary` where a plain `Algorithm` object reaches the conditional rule. -/
theorem C06_succeeds (E : Ext R) (alg : Alg) (A : Op R) :
    (∃ B, invRule E alg A = .ok B) ↔ Declared alg A := invRule_ok_iff E alg A

omit [CommRing R] [StarRing R] [DecidableEq R] in
private theorem atRules_of_forall {Palg : Op R → Prop} {Pprod : List (Op R) → Prop}
    (h1 : ∀ X, Palg X) (h2 : ∀ Ms, Pprod Ms) : ∀ (cur top : Op R), AtRules Palg Pprod top cur
  | .annot a A, top => by rw [AtRules]; exact atRules_of_forall h1 h2 A top
  | .eye .., _ => by rw [AtRules]; trivial
  | .scalar .., _ => by rw [AtRules]; trivial
  | .perm .., _ => by rw [AtRules]; trivial
  | .diag .., _ => by rw [AtRules]; trivial
  | .tri .., _ => by rw [AtRules]; trivial
  | .prod Ms, top => by
    rw [AtRules]
    split
    · exact ⟨h2 Ms, fun M _ => atRules_of_forall h1 h2 M M⟩
    · exact h1 top
  | .kron Ms, _ => by rw [AtRules]; exact fun M _ => atRules_of_forall h1 h2 M M
  | .bdiag Ms _, _ => by rw [AtRules]; exact fun M _ => atRules_of_forall h1 h2 M M
  | .dense .., top => by rw [AtRules]; exact h1 top
  | .sparse .., top => by rw [AtRules]; exact h1 top
  | .sum _, top => by rw [AtRules]; exact h1 top
  | .kronsum _, top => by rw [AtRules]; exact h1 top
  | .tridiag .., top => by rw [AtRules]; exact h1 top
  | .transpose _, top => by rw [AtRules]; exact h1 top
  | .adjoint _, top => by rw [AtRules]; exact h1 top
  | .sliced .., top => by rw [AtRules]; exact h1 top
  | .concat .., top => by rw [AtRules]; exact h1 top
  | .house .., top => by rw [AtRules]; exact h1 top
  | .generic _, top => by rw [AtRules]; exact h1 top
termination_by cur => sizeOf cur
decreasing_by
  all_goals simp_wf
  all_goals first
    | omega
    | (have := List.sizeOf_lt_of_mem ‹_ ∈ _›; omega)

/-- **with `Auto` (or the omitted argument), `LU` or `GMRES` the rule selection never fails**, on
any tree: the table selects Cholesky / CG only for a declared-PSD operator, LU / GMRES assert
nothing.  (An exception of the real call on these paths can only come from inside a kernel —
e.g. a singular matrix — i.e. from a violated contract / invertibility hypothesis.) -/
theorem C06_succeeds_auto_lu_gmres (E : Ext R) (alg : Alg)
    (halg : alg.isAuto = true ∨ alg = .lu ∨ alg.isGMRES = true) (A : Op R) :
    ∃ B, invRule E alg A = .ok B := by
  rw [C06_succeeds]
  apply atRules_of_forall (fun X => ?_) (fun _ => trivial)
  cases alg <;> simp [Alg.isAuto, Alg.isGMRES] at halg
  · exact algDeclared_auto _ X
  · simp [AlgDeclared, effAlg]
  · simp [AlgDeclared, effAlg]

/-- **C06, main statement with hypotheses on the input only**: if the data of `A` is invertible
along the selected rules (`InvHyp`, including the contract of the external routine at the nodes
that fall to an algorithm — the contracts say EXACT factorisation / EXACT solve, see the header)
and the asserted declarations are present, then `inv(A, alg)` returns an operator `B` of the shape
of `A` that represents the two-sided inverse and whose product code multiplies by it. -/
theorem C06_inv_total (E : Ext R) (alg : Alg) (A : Op R) (h : InvHyp E alg A)
    (hd : Declared alg A) :
    ∃ B, invRule E alg A = .ok B ∧ A.cols = A.rows ∧ B.rows = A.rows ∧ B.cols = A.rows ∧
      EqOn A.rows A.rows (mmul A.rows (B.den E).f A.den.f) eyeM ∧
      EqOn A.rows A.rows (mmul A.rows A.den.f (B.den E).f) eyeM ∧
      ∀ (b : Nat) (X : MatF R), EqOn A.rows b (B.mm E b X).f (mmul A.rows (B.den E).f X) := by
  obtain ⟨B, hB⟩ := (C06_succeeds E alg A).mpr hd
  obtain ⟨h1, h2, h3, h4, h5⟩ := C06_inv E alg A h B hB
  exact ⟨B, hB, h1, h2, h3, h4, h5, C06_matmat E alg A h B hB⟩

/-- **`solve(A, X, alg)` returns, and what it returns is the unique solution of `A · Y = X`** —
hypotheses on the input only. -/
theorem C06_solve_total (E : Ext R) (alg : Alg) (A : Op R) (h : InvHyp E alg A)
    (hd : Declared alg A) (b : Nat) (X : MatF R) :
    ∃ Y, solveRule E alg A b X = .ok Y ∧ EqOn A.rows b (mmul A.rows A.den.f Y.f) X ∧
      ∀ Z : MatF R, EqOn A.rows b (mmul A.rows A.den.f Z) X → EqOn A.rows b Z Y.f := by
  obtain ⟨B, hB⟩ := (C06_succeeds E alg A).mpr hd
  have hY : solveRule E alg A b X = .ok (B.mm E b X) := by
    unfold solveRule; rw [hB]; rfl
  exact ⟨_, hY, C06_solve E alg A h b X _ hY, fun Z hZ => C06_solve_unique E alg A h b X _ hY Z hZ⟩

/-- **`NodesOK` of the result is derived from the input**: under `ScalarsOK` (at a Product inverted
member-wise that has exactly one non-ScalarMul member, the scalars are real; the adjoint returned
by the conditional Unitary rule is not itself a ScalarMul) every composite node of `inv(A, alg)`
that reports SelfAdjoint is Hermitian.  `ScalarsOK` is the input-level form of "the recorded
defect `scalar-times-annotated` does not occur in the result". -/
theorem C06_nodes (E : Ext R) (alg : Alg) (hstar : RecipStar E) (A : Op R) (h : InvHyp E alg A)
    (hg : Op.Good A) (hr : A.RealTyped) (hsc : ScalarsOK alg A) (B : InvOp R)
    (hB : invRule E alg A = .ok B) : NodesOK E B := invRule_nodes E alg hstar A h hg hr hsc B hB

/-- **the returned operator as an operator, hypotheses on the input only**: `inv(A, alg)` returns
`B`, and `X @ B`, `B.to_dense()`, `B.T.to_dense()` are those of the inverse of `A`. -/
theorem C06_operator_total (E : Ext R) (alg : Alg) (hstar : RecipStar E) (A : Op R)
    (h : InvHyp E alg A) (hd : Declared alg A) (hg : Op.Good A) (hr : A.RealTyped)
    (hsc : ScalarsOK alg A) :
    ∃ B, invRule E alg A = .ok B ∧ WellI E B ∧
      (∀ (b : Nat) (X : MatF R), EqOn b A.rows (B.rmm E b X).f (mmul A.rows X (B.den E).f) ∧
        EqOn b A.rows (mmul A.rows (B.rmm E b X).f A.den.f) X) ∧
      (EqOn A.rows A.rows (B.td E).f (B.den E).f ∧
        EqOn A.rows A.rows (mmul A.rows (B.td E).f A.den.f) eyeM) ∧
      (EqOn A.rows A.rows (B.tdT E).f (transposeM (B.den E).f) ∧
        EqOn A.rows A.rows (mmul A.rows (B.tdT E).f (transposeM A.den.f)) eyeM) := by
  obtain ⟨B, hB⟩ := (C06_succeeds E alg A).mpr hd
  have hw := invRule_well_input E alg hstar A h hg hr hsc B hB
  exact ⟨B, hB, hw, fun b X => C06_left E alg A h B hB hw b X, C06_dense E alg A h B hB hw,
    C06_transpose E alg A h B hB hw⟩

/-- **iterative path, per call**: when the class of `A` has no rule of its own and CG / GMRES is
selected (`invRule … = .ok (.iterInv A alg')`), `solve(A, X, alg)` is the one call `alg'(A, X)`, and
it solves `A · Y = X` as soon as THAT call is exact — no contract for other operands is needed.
The hypothesis `hcall` is the conclusion of `C13_exact_at_grade_input` (GMRES run to the grade of
the column) resp. of `C12_optimal_inputs` with `x⋆ − x₀ ∈ K_k` (CG) for the solver models of
those families. -/
theorem C06_solve_iter_call (E : Ext R) (alg alg' : Alg) (A : Op R)
    (hB : invRule E alg A = .ok (.iterInv A alg')) (b : Nat) (X : MatF R)
    (hcall : EqOn A.rows b (mmul A.rows A.den.f (E.solve alg' A b X).f) X) :
    ∃ Y, solveRule E alg A b X = .ok Y ∧ Y = E.solve alg' A b X ∧
      EqOn A.rows b (mmul A.rows A.den.f Y.f) X := by
  refine ⟨E.solve alg' A b X, ?_, rfl, hcall⟩
  unfold solveRule
  rw [hB]
  simp [Except.map, InvOp.mm]

/-- … and such operators exist on every iterative path: a Dense operator with GMRES, a
PSD-declared Dense operator with CG (explicitly or — above 10⁶ entries — through `Auto`). -/
theorem C06_iter_paths (E : Ext R) (a : MatF R) (o : KOpts) (d : Opts) :
    invRule E (.gmres o) (.dense .f64 3 3 a) = .ok (.iterInv (.dense .f64 3 3 a) (.gmres o)) ∧
    invRule E (.cg o) (.annot .psd (.dense .f64 3 3 a))
      = .ok (.iterInv (.annot .psd (.dense .f64 3 3 a)) (.cg o)) ∧
    invRule E (.auto d) (.annot .psd (.dense .f64 1001 1001 a))
      = .ok (.iterInv (.annot .psd (.dense .f64 1001 1001 a)) (.cg (.ofDict d))) ∧
    invRule E (.auto d) (.dense .f64 1001 1001 a)
      = .ok (.iterInv (.dense .f64 1001 1001 a) (.gmres (.ofDict d))) := by
  refine ⟨?_, ?_, ?_, ?_⟩ <;>
    simp [invRule, invAux, algRule, effAlg, autoChoice, Op.isa, Op.anns, AnnSet.isa, AnnSet.union,
      Ann.sub, Op.rows, Op.cols]

/-- the declaration hypothesis is needed for success: `inv(Dense, Cholesky())` on an operator that
is not declared PSD raises (`assert A.isa(PSD)`), whatever the matrix is. -/
theorem C06_declared_needed (E : Ext R) (a : MatF R) :
    invRule E .chol (.dense .f64 2 2 a) = .error "error:AssertionError" ∧
      ¬ Declared .chol (.dense .f64 2 2 a : Op R) := by
  constructor
  · simp [invRule, invAux, algRule, effAlg, Op.isa, Op.anns, AnnSet.isa]
  · simp [Declared, AtRules, AlgDeclared, effAlg, Op.isa, Op.anns, AnnSet.isa]

/-- on the witness of `C06_scalar_times_annotated_clause_needed` it is `ScalarsOK` that fails (the
scalar `i` is not real and the Product has exactly one other member): the new input-level
hypothesis excludes the recorded defect.  (On that input the Product node of the INPUT already
reports PSD falsely — the same C05 defect — so `Op.Good` fails as well; `ScalarsOK` is a
sufficient condition that does not mention the result.) -/
theorem C06_scalarsOK_needed :
    ¬ ScalarsOK (.auto {}) (.kron [.prod [.eye .c128 1, .scalar .c128 GInt.I 1]] : Op GInt) := by
  intro h
  simp only [ScalarsOK] at h
  rw [AtRules] at h
  have h1 := h _ List.mem_cons_self
  rw [AtRules] at h1
  simp only [allSquare, Op.rows, Op.cols, List.map_cons, List.map_nil, List.all_cons, List.all_nil,
    beq_self_eq_true, Bool.and_self, id, if_true] at h1
  have := h1.1 (by simp [Op.isScalarMul, Op.core]) (.scalar .c128 GInt.I 1) (by simp) .c128 GInt.I 1 rfl
  revert this
  decide

/-- **witness for the input-only hypothesis bundle** (`C06_inv_total`, `C06_solve_total`,
`C06_operator_total`) on a nested 2 × 2 tree over ℤ containing every structural kind, a declaration
wrapper and a Product with exactly one non-ScalarMul member and a (real) ScalarMul member. -/
theorem C06_input_hypotheses_witness :
    let T : Op Int := .tri .f64 2 2 true (fun i j => if i = j then 1 else if i = 1 ∧ j = 0 then 3 else 0)
    let A : Op Int := .prod [.kron [T, .scalar .f64 (-1) 1],
      .annot .unitary (.perm .f64 [1, 0]), .prod [.scalar .f64 (-1) 2, .diag .f64 2 (fun _ => -1)]]
    InvHyp unitExt (.auto {}) A ∧ Declared (.auto {}) A ∧ Op.Good A ∧ A.RealTyped ∧
      ScalarsOK (.auto {}) A ∧
      RecipStar unitExt := by
  intro T A
  refine ⟨?_, ?_, ⟨?_, ?_, ?_⟩, ?_, ?_, ?_⟩
  · simp [A, T, InvHyp, HypAux, allSquare, Op.rows, Op.cols, Op.chainOk, Inv.LowerTri, DiagUnit, unitExt]
    intro i j _ _ hij
    rw [if_neg (by omega), if_neg (by omega)]
  · exact atRules_of_forall (fun X => algDeclared_auto _ X) (fun _ => trivial) _ _
  · simp [A, T, Op.wf, Op.rows, Op.cols, Op.chainOk]
  · simp [A, T, Op.dupSlice]
  · simp [A, T, Op.HermOK, Op.HermNode, Op.isa, Op.anns, AnnSet.isa, AnnSet.union, AnnSet.inter,
      AnnSet.interAll, Op.isScalarMul, Op.core, Op.isTA, Op.isT, Op.areTheSame, Ann.sub]
  · simp [A, T, Op.RealTyped]
  · simp only [A, T, ScalarsOK]
    rw [AtRules]
    simp [allSquare, Op.rows, Op.cols, AtRules, ProdScalarsReal, Op.isScalarMul, Op.core]
  · intro x; rfl

/-! ## round 3: the options of the algorithm object; instances of the contracts -/

/-- **the solver objects `inv` builds carry exactly the caller's options**: every
`IterativeOperatorWInfo` node inside `inv(A, alg)` — at any depth below Product / Kronecker /
BlockDiag — holds a CG or GMRES object whose `tol` / `max_iters` are `alg.requested`: the fields of
the caller's `CG(…)` / `GMRES(…)` object (which is then the very object, `a = alg`), resp. for
`Auto(**d)` what `CG(**d)` / `GMRES(**d)` make of `d`. -/
theorem C06_solver_options (E : Ext R) (alg : Alg) (A : Op R) (B : InvOp R)
    (hB : invRule E alg A = .ok B) :
    ∀ a ∈ B.solvers, (a.isCG = true ∨ a.isGMRES = true) ∧ a.kopts = alg.requested ∧
      (alg.isAuto = false → a = alg) := invRule_solvers E alg A B hB

/-- **`Auto` forwards its options** (what seeded change c06_m2 breaks): with `Auto(tol = t)` every
solver inside the result runs with `tol = t`, with `Auto(max_iters = m)` with `max_iters = m`; an
absent key leaves the class default (`1e-6`, `1000`). -/
theorem C06_auto_forwards_options (E : Ext R) (d : Opts) (A : Op R) (B : InvOp R)
    (hB : invRule E (.auto d) A = .ok B) :
    ∀ a ∈ B.solvers, ∃ o, a.kopts = some o ∧
      (∀ t, d.tol = some t → o.tol = t) ∧ (∀ m, d.maxIters = some m → o.maxIters = m) ∧
      (d.tol = none → o.tol = mkRat 1 1000000) ∧ (d.maxIters = none → o.maxIters = 1000) := by
  intro a ha
  obtain ⟨_, h, _⟩ := invRule_solvers E (.auto d) A B hB a ha
  refine ⟨.ofDict d, h, ?_, ?_, ?_, ?_⟩
  · intro t ht; simp [KOpts.ofDict, ht]
  · intro m hm; simp [KOpts.ofDict, hm]
  · intro ht; simp [KOpts.ofDict, ht, KOpts.default]
  · intro hm; simp [KOpts.ofDict, hm, KOpts.default]

/-- witness (nested): `inv(Kronecker(Dense 2×2, Dense 2×2), GMRES(tol = 1/10¹⁰, max_iters = 40))`
holds two solver objects, both with the caller's options; and `inv(PSD(Dense 1001×1001),
Auto(tol = 1/10¹⁰))` holds `CG(tol = 1/10¹⁰, max_iters = 1000)`. -/
theorem C06_options_witness (E : Ext R) (a : MatF R) :
    (∃ B, invRule E (.gmres ⟨mkRat 1 10000000000, 40⟩)
        (.kron [.dense .f64 2 2 a, .dense .f64 2 2 a]) = .ok B ∧
      B.solvers = [.gmres ⟨mkRat 1 10000000000, 40⟩, .gmres ⟨mkRat 1 10000000000, 40⟩]) ∧
    (∃ B, invRule E (.auto { tol := some (mkRat 1 10000000000) })
        (.annot .psd (.dense .f64 1001 1001 a)) = .ok B ∧
      B.solvers = [.cg ⟨mkRat 1 10000000000, 1000⟩]) := by
  refine ⟨⟨_, by simp [invRule, invAux, algRule, effAlg, Inv.sequence, Except.map]; rfl, ?_⟩, ?_⟩
  · simp [InvOp.solvers]
  · refine ⟨_, (C06_iter_paths E a default _).2.2.1, ?_⟩
    simp [InvOp.solvers, KOpts.ofDict, KOpts.default]

open ExactFactor in
/-- **`LUContract` instantiated, main theorem applied through it**: for
`A = Dense([[0,1,1],[2,1,0],[2,2,3]])` and the exact parameter set `gExt` (partially pivoted LU over
ℚ[i], evaluated: `p = [1,0,2]`, a row swap) the hypothesis bundle `InvHyp` holds for `LU()` and for
`Auto()`, `inv(A, LU())` returns, and `C06_inv_total` / `C06_solve_total` give the two-sided
inverse and `A · solve(A, X) = X` for every right-hand side. -/
theorem C06_lu_instance :
    LUContract gExt 3 luA3 ∧ InvHyp gExt .lu luOp ∧ InvHyp gExt (.auto {}) luOp ∧ luOp.rows = 3 ∧
    (∃ B, invRule gExt .lu luOp = .ok B ∧
      EqOn luOp.rows luOp.rows (mmul luOp.rows (B.den gExt).f luOp.den.f) eyeM ∧
      EqOn luOp.rows luOp.rows (mmul luOp.rows luOp.den.f (B.den gExt).f) eyeM) ∧
    ∀ (b : Nat) (X : MatF GRat), ∃ Y, solveRule gExt .lu luOp b X = .ok Y ∧
      EqOn luOp.rows b (mmul luOp.rows luOp.den.f Y.f) X := by
  have hH : InvHyp gExt .lu luOp := by
    simp only [luOp, InvHyp, HypAux, AlgHyp, effAlg, Op.rows, Op.cols, Op.td, MatV.of_f]
    exact ⟨trivial, good_luOp, luContract_luA3⟩
  have hHa : InvHyp gExt (.auto {}) luOp := by
    simp only [luOp, InvHyp, HypAux, AlgHyp, Op.rows, Op.cols, Op.td, MatV.of_f]
    refine ⟨trivial, good_luOp, ?_⟩
    have : effAlg (.auto {}) (Op.isa (.dense .f64 3 3 luA3 : Op GRat) .psd) (3 * 3) = .lu := by
      simp [effAlg, autoChoice, Op.isa, Op.anns, AnnSet.isa]
    rw [this]
    exact luContract_luA3
  have hD : Declared .lu luOp := (C06_succeeds gExt .lu luOp).mp
    (C06_succeeds_auto_lu_gmres gExt .lu (Or.inr (Or.inl rfl)) luOp)
  obtain ⟨B, hB, _, _, _, h1, h2, _⟩ := C06_inv_total gExt .lu luOp hH hD
  refine ⟨luContract_luA3, hH, hHa, by simp [luOp, Op.rows], ⟨B, hB, h1, h2⟩, fun b X => ?_⟩
  obtain ⟨Y, hY, hs, _⟩ := C06_solve_total gExt .lu luOp hH hD b X
  exact ⟨Y, hY, hs⟩

open ExactFactor in
/-- **`CholContract` instantiated, main theorem applied through it**: for
`A = PSD(Dense([[4, 2i], [-2i, 5]]))` (complex128) and `gExt` (exact Cholesky, evaluated:
`L = [[2, 0], [-i, 2]]`) `InvHyp` and `Declared` hold for `Cholesky()`, and `inv` / `solve` are the
inverse / the solution. -/
theorem C06_chol_instance :
    CholContract gExt 2 cholA2c ∧ InvHyp gExt .chol hpdOp ∧ Declared .chol hpdOp ∧ hpdOp.rows = 2 ∧
    (∃ B, invRule gExt .chol hpdOp = .ok B ∧
      EqOn hpdOp.rows hpdOp.rows (mmul hpdOp.rows (B.den gExt).f hpdOp.den.f) eyeM ∧
      EqOn hpdOp.rows hpdOp.rows (mmul hpdOp.rows hpdOp.den.f (B.den gExt).f) eyeM) ∧
    ∀ (b : Nat) (X : MatF GRat), ∃ Y, solveRule gExt .chol hpdOp b X = .ok Y ∧
      EqOn hpdOp.rows b (mmul hpdOp.rows hpdOp.den.f Y.f) X := by
  have hpsd : hpdOp.isa .psd = true := by
    simp [hpdOp, Op.isa, Op.anns, AnnSet.isa, AnnSet.union, Ann.sub]
  have hH : InvHyp gExt .chol hpdOp := by
    simp only [InvHyp, hpdOp, HypAux]
    refine ⟨by simp [Op.rows, Op.cols], good_hpdOp, ?_⟩
    simp only [effAlg, Op.rows, Op.td]
    exact cholContract_cholA2c
  have hD : Declared .chol hpdOp := by
    simp only [Declared, hpdOp, AtRules, AlgDeclared, effAlg]
    exact hpsd
  obtain ⟨B, hB, _, _, _, h1, h2, _⟩ := C06_inv_total gExt .chol hpdOp hH hD
  refine ⟨cholContract_cholA2c, hH, hD, by simp [hpdOp, Op.rows], ⟨B, hB, h1, h2⟩, fun b X => ?_⟩
  obtain ⟨Y, hY, hs, _⟩ := C06_solve_total gExt .chol hpdOp hH hD b X
  exact ⟨Y, hY, hs⟩

/-- **`SolveContract` (the `∀ b X` form) instantiated, main theorem applied through it**: with the
exact solver of `gExt`, for a `GMRES` object with ANY options on the non-symmetric `luOp` and a `CG`
object with any options on the Hermitian positive definite `hpdOp`, `InvHyp` holds and
`solve(A, X, alg)` satisfies `A · Y = X` for every block `X` (any number of columns, zero columns
included — unlike cola's GMRES: `C06_solver_contract_needed`). -/
theorem C06_solve_contract_instance (o : KOpts) :
    (SolveContract gExt (.gmres o) luOp ∧ InvHyp gExt (.gmres o) luOp ∧
      ∀ (b : Nat) (X : MatF GRat), ∃ Y, solveRule gExt (.gmres o) luOp b X = .ok Y ∧
        EqOn luOp.rows b (mmul luOp.rows luOp.den.f Y.f) X) ∧
    (SolveContract gExt (.cg o) hpdOp ∧ InvHyp gExt (.cg o) hpdOp ∧
      ∀ (b : Nat) (X : MatF GRat), ∃ Y, solveRule gExt (.cg o) hpdOp b X = .ok Y ∧
        EqOn hpdOp.rows b (mmul hpdOp.rows hpdOp.den.f Y.f) X) := by
  have hH1 : InvHyp gExt (.gmres o) luOp := by
    simp only [luOp, InvHyp, HypAux, AlgHyp, effAlg, Op.rows, Op.cols]
    exact ⟨trivial, good_luOp, solveContract_gmres o⟩
  have hD1 : Declared (.gmres o) luOp := (C06_succeeds gExt (.gmres o) luOp).mp
    (C06_succeeds_auto_lu_gmres gExt (.gmres o) (Or.inr (Or.inr rfl)) luOp)
  have hpsd : hpdOp.isa .psd = true := by
    simp [hpdOp, Op.isa, Op.anns, AnnSet.isa, AnnSet.union, Ann.sub]
  have hH2 : InvHyp gExt (.cg o) hpdOp := by
    simp only [InvHyp, hpdOp, HypAux]
    refine ⟨by simp [Op.rows, Op.cols], good_hpdOp, ?_⟩
    simp only [effAlg]
    exact solveContract_cg o
  have hD2 : Declared (.cg o) hpdOp := by
    simp only [Declared, hpdOp, AtRules, AlgDeclared, effAlg]
    exact hpsd
  refine ⟨⟨solveContract_gmres o, hH1, fun b X => ?_⟩, ⟨solveContract_cg o, hH2, fun b X => ?_⟩⟩
  · obtain ⟨Y, hY, hs, _⟩ := C06_solve_total gExt (.gmres o) luOp hH1 hD1 b X
    exact ⟨Y, hY, hs⟩
  · obtain ⟨Y, hY, hs, _⟩ := C06_solve_total gExt (.cg o) hpdOp hH2 hD2 b X
    exact ⟨Y, hY, hs⟩

end C06

#print axioms C06.C06_inv
#print axioms C06.C06_inv_matrix
#print axioms C06.C06_matmat
#print axioms C06.C06_solve
#print axioms C06.C06_solve_vec
#print axioms C06.C06_solve_unique
#print axioms C06.C06_well
#print axioms C06.C06_left
#print axioms C06.C06_dense
#print axioms C06.C06_transpose
#print axioms C06.C06_auto
#print axioms C06.C06_auto_switch
#print axioms C06.C06_effAlg
#print axioms C06.C06_unitary_rule_dead
#print axioms C06.C06_grat_recip
#print axioms C06.C06_grat_recip_star
#print axioms C06.C06_scalar_times_annotated_clause_needed
#print axioms C06.C06_triangular_payload_needed
#print axioms C06.C06_solver_contract_needed
#print axioms C06.C06_unitary_declaration_needed
#print axioms C06.C06_succeeds
#print axioms C06.C06_succeeds_auto_lu_gmres
#print axioms C06.C06_inv_total
#print axioms C06.C06_solve_total
#print axioms C06.C06_nodes
#print axioms C06.C06_operator_total
#print axioms C06.C06_solve_iter_call
#print axioms C06.C06_iter_paths
#print axioms C06.C06_declared_needed
#print axioms C06.C06_scalarsOK_needed
#print axioms C06.C06_input_hypotheses_witness
#print axioms C06.C06_solver_options
#print axioms C06.C06_auto_forwards_options
#print axioms C06.C06_options_witness
#print axioms C06.C06_lu_instance
#print axioms C06.C06_chol_instance
#print axioms C06.C06_solve_contract_instance
