import ColaVerif.Lemmas.InvWell
import ColaVerif.Basic.GRat
import ColaVerif.Basic.GInt

/-!
# C06 — `inv` / `solve` return the solution of the linear system on every dispatch path

Model (`Model/Inv.lean`): `Inv.invRule E alg A : Except String (InvOp R)` mirrors the dispatch of
`cola/linalg/inverse/inv.py` — the class rules (Identity, ScalarMul, Permutation, Product with
square factors, BlockDiag, Kronecker, Diagonal, Triangular) before the algorithm rules (`Auto`
decision table, Cholesky → `inv(L.H) @ inv(L)`, LU → `inv(U) @ inv(L) @ inv(P)`, CG / GMRES →
`IterativeOperatorWInfo`), the conditional Unitary rule only for an algorithm object without a
rule of its own.  `InvOp.den E B` is the matrix the returned operator represents, `InvOp.mm E B b X`
the code model of `B @ X`; `Op.den A` is the matrix of `A` (specification).

`E : Inv.Ext R` carries the external parameters: the reciprocal of the scalar type, the dense
factorisations and the iterative solvers.  Hypotheses (`Inv.InvHyp E alg A`, collected along the
rules that fire):
* data of the structural leaves is invertible (`s · recip s = 1` for ScalarMul / Diagonal entries /
  the diagonal of a Triangular), permutations are permutations, a `Triangular` payload vanishes
  outside its declared triangle (constructor precondition), Products chain;
* at a node that falls to an algorithm: `A` is square, `Good A` (as in C01), and the CONTRACT of
  the external routine on that node: `P L U = A` / `L Lᴴ = A` with triangular factors and
  invertible diagonals (LAPACK), `A · alg(A, X) = X` (CG: C12, GMRES: C13), or — plain `Algorithm`
  object — the truth of the declaration `Unitary(A)`.
-/

namespace C06
open Inv
variable {R : Type} [CommRing R] [StarRing R] [DecidableEq R]

/-! ## `inv(A)` represents the inverse -/

/-- **`inv(A, alg)` is an operator of the shape of `A` whose dense form is a two-sided inverse of
the matrix of `A`**, whichever rule or algorithm is selected. -/
theorem C06_inv (E : Ext R) (alg : Alg) (A : Op R) (h : InvHyp E alg A) (B : InvOp R)
    (hB : invRule E alg A = .ok B) :
    A.cols = A.rows ∧ B.rows = A.rows ∧ B.cols = A.rows ∧
      EqOn A.rows A.rows (mmul A.rows (B.den E).f A.den.f) eyeM ∧
      EqOn A.rows A.rows (mmul A.rows A.den.f (B.den E).f) eyeM :=
  let s := invRule_sound E alg A h B hB
  ⟨s.sq, s.rows, s.cols, s.rinv.symm, s.rinv⟩

/-- the same through the Mathlib bridge: the window of `den B` is Mathlib's `⁻¹` of the window of
`den A`. -/
theorem C06_inv_matrix (E : Ext R) (alg : Alg) (A : Op R) (h : InvHyp E alg A) (B : InvOp R)
    (hB : invRule E alg A = .ok B) :
    MatF.toMatrix A.rows A.rows (B.den E).f = (MatF.toMatrix A.rows A.rows A.den.f)⁻¹ := by
  have s := (invRule_sound E alg A h B hB).rinv
  rw [rinv_iff] at s
  exact (Matrix.inv_eq_right_inv s).symm

/-- **`inv(A) @ X` multiplies by the inverse**: the product code of the returned operator
(substitution for `TriangularInv`, one solver run for `IterativeOperatorWInfo`, the loops of
Product / Kronecker / BlockDiag) agrees with the represented matrix, for any number of columns. -/
theorem C06_matmat (E : Ext R) (alg : Alg) (A : Op R) (h : InvHyp E alg A) (B : InvOp R)
    (hB : invRule E alg A = .ok B) (b : Nat) (X : MatF R) :
    EqOn A.rows b (B.mm E b X).f (mmul A.rows (B.den E).f X) := by
  have s := invRule_sound E alg A h B hB
  have := s.mm b X
  rw [s.rows, s.cols] at this
  exact this

/-! ## `solve(A, b, alg)` solves `A x = b` -/

/-- **`solve(A, X, alg) = inv(A, alg) @ X` satisfies `A · Y = X`** for a block of `b` columns. -/
theorem C06_solve (E : Ext R) (alg : Alg) (A : Op R) (h : InvHyp E alg A) (b : Nat) (X : MatF R)
    (Y : MatV R) (hY : solveRule E alg A b X = .ok Y) :
    EqOn A.rows b (mmul A.rows A.den.f Y.f) X := by
  unfold solveRule at hY
  cases hB : invRule E alg A with
  | error e => rw [hB] at hY; simp [Except.map] at hY
  | ok B =>
    rw [hB] at hY
    simp only [Except.map] at hY
    cases hY
    have s := invRule_sound E alg A h B hB
    exact (mmul_congr (EqOn.refl _ _ _) (C06_matmat E alg A h B hB b X)).trans (s.rinv.solves X)

/-- a 1-D right-hand side is one column: every entry of `A · x` is the entry of `b`. -/
theorem C06_solve_vec (E : Ext R) (alg : Alg) (A : Op R) (h : InvHyp E alg A) (x : Nat → R)
    (Y : MatV R) (hY : solveRule E alg A 1 (fun i _ => x i) = .ok Y) (i : Nat) (hi : i < A.rows) :
    ∑ q ∈ Finset.range A.rows, A.den.f i q * Y.f q 0 = x i := by
  have := C06_solve E alg A h 1 (fun i _ => x i) Y hY i 0 hi (by omega)
  rw [mmul_apply] at this
  exact this

/-- the solution is the only one: whatever solves `A · Z = X` on the window equals `solve`. -/
theorem C06_solve_unique (E : Ext R) (alg : Alg) (A : Op R) (h : InvHyp E alg A) (b : Nat)
    (X : MatF R) (Y : MatV R) (hY : solveRule E alg A b X = .ok Y) (Z : MatF R)
    (hZ : EqOn A.rows b (mmul A.rows A.den.f Z) X) : EqOn A.rows b Z Y.f := by
  unfold solveRule at hY
  cases hB : invRule E alg A with
  | error e => rw [hB] at hY; simp [Except.map] at hY
  | ok B =>
    rw [hB] at hY
    simp only [Except.map] at hY
    cases hY
    have s := invRule_sound E alg A h B hB
    exact (s.rinv.solve_unique hZ).trans (C06_matmat E alg A h B hB b X).symm

/-! ## the returned operator as an operator: left product, `to_dense`, transpose

`WellI E B` is the analogue, for the returned operator, of the hypotheses of C01 / C02 (`Good`,
`RealTyped` of the embedded ordinary operators; triangular payloads; the solver contract; and that
a `Product` / `Kronecker` / `BlockDiag` node which REPORTS SelfAdjoint is Hermitian — the default
left product and `.T` take their shortcuts on the report). -/

/-- **the side conditions follow from hypotheses on the input**: `InvHyp`, `Good A`, `A.RealTyped`
(as in C01 / C02), a reciprocal that commutes with conjugation, and — on the result — only that
its composite nodes which report SelfAdjoint are Hermitian (`NodesOK`; annotation soundness of the
result, cf. C05). -/
theorem C06_well (E : Ext R) (alg : Alg) (hstar : RecipStar E) (A : Op R) (h : InvHyp E alg A)
    (hg : Op.Good A) (hr : A.RealTyped) (B : InvOp R) (hB : invRule E alg A = .ok B)
    (hn : NodesOK E B) : WellI E B := invRule_well E alg hstar A h hg hr B hB hn

/-- **`X @ inv(A)` is `X` times the inverse** (explicit `_rmatmat` of `TriangularInv` — the
transposed substitution with the opposite `lower` — and of `Product`; the default left product
of the other kinds). -/
theorem C06_left (E : Ext R) (alg : Alg) (A : Op R) (h : InvHyp E alg A) (B : InvOp R)
    (hB : invRule E alg A = .ok B) (hw : WellI E B) (b : Nat) (X : MatF R) :
    EqOn b A.rows (B.rmm E b X).f (mmul A.rows X (B.den E).f) ∧
      EqOn b A.rows (mmul A.rows (B.rmm E b X).f A.den.f) X := by
  have s := invRule_sound E alg A h B hB
  have hr := (wellI_ok E B hw).rmm b X
  rw [s.rows, s.cols] at hr
  refine ⟨hr, ?_⟩
  have hl := s.rinv.symm
  rw [rinv_iff] at hl
  rw [← MatF.toMatrix_eq_iff] at hr ⊢
  rw [MatF.toMatrix_mmul] at hr ⊢
  rw [hr, Matrix.mul_assoc, hl, Matrix.mul_one]

/-- **`inv(A).to_dense()` is the inverse matrix.** -/
theorem C06_dense (E : Ext R) (alg : Alg) (A : Op R) (h : InvHyp E alg A) (B : InvOp R)
    (hB : invRule E alg A = .ok B) (hw : WellI E B) :
    EqOn A.rows A.rows (B.td E).f (B.den E).f ∧
      EqOn A.rows A.rows (mmul A.rows (B.td E).f A.den.f) eyeM := by
  have s := invRule_sound E alg A h B hB
  have ht := (wellI_ok E B hw).td
  unfold TdOKI at ht
  rw [s.rows, s.cols] at ht
  exact ⟨ht, (mmul_congr ht (EqOn.refl _ _ _)).trans s.rinv.symm⟩

/-- **`inv(A).T.to_dense()` is the transpose of the inverse** (= the inverse of the transpose). -/
theorem C06_transpose (E : Ext R) (alg : Alg) (A : Op R) (h : InvHyp E alg A) (B : InvOp R)
    (hB : invRule E alg A = .ok B) (hw : WellI E B) :
    EqOn A.rows A.rows (B.tdT E).f (transposeM (B.den E).f) ∧
      EqOn A.rows A.rows (mmul A.rows (B.tdT E).f (transposeM A.den.f)) eyeM := by
  have s := invRule_sound E alg A h B hB
  have ht := (wellI_ok E B hw).tdT
  unfold TdTOKI at ht
  rw [s.rows, s.cols] at ht
  refine ⟨ht, ?_⟩
  have hr := s.rinv
  rw [rinv_iff] at hr
  rw [← MatF.toMatrix_eq_iff] at ht ⊢
  rw [MatF.toMatrix_mmul, ht, MatF.toMatrix_transposeM, MatF.toMatrix_transposeM,
    ← Matrix.transpose_mul, hr, Matrix.transpose_one, MatF.toMatrix_eyeM]

/-! ## rule selection -/

/-- **the Auto decision table** (docstring of `inv(A, Auto)`): PSD & small → Cholesky, PSD & large →
CG, not PSD & small → LU, not PSD & large → GMRES; "small" = at most 10⁶ entries. -/
theorem C06_auto (isPSD : Bool) (entries : Nat) :
    autoChoice isPSD entries =
      (if isPSD then (if entries ≤ 1000000 then Alg.chol else Alg.cg)
       else (if entries ≤ 1000000 then Alg.lu else Alg.gmres)) := by
  unfold autoChoice
  by_cases h : entries ≤ 1000000 <;> cases isPSD <;> simp [h]

/-- both sides of the switch: 1000 × 1000 is small, 1001 × 1001 is large. -/
theorem C06_auto_switch :
    autoChoice true (1000 * 1000) = .chol ∧ autoChoice true (1001 * 1001) = .cg ∧
      autoChoice false (1000 * 1000) = .lu ∧ autoChoice false (1001 * 1001) = .gmres := by
  simp [autoChoice]

/-- an explicit algorithm is used as given; `Auto` (and the omitted argument) resolves through
the table. -/
theorem C06_effAlg (alg : Alg) (isPSD : Bool) (entries : Nat) :
    effAlg alg isPSD entries = (if alg = .auto then autoChoice isPSD entries else alg) := rfl

/-- the conditional Unitary rule is dead for every algorithm that has a rule of its own: with
`Auto`, `LU`, `Cholesky`, `CG`, `GMRES` the algorithm rule never returns `Unitary(A.H)` (an `op`
result); only a plain `Algorithm` object reaches it. -/
theorem C06_unitary_rule_dead (E : Ext R) (alg : Alg) (A : Op R) (halg : alg ≠ .other) (X : Op R) :
    algRule E alg A ≠ .ok (.op X) := by
  unfold algRule
  have hne : effAlg alg (A.isa .psd) (A.rows * A.cols) ≠ .other := by
    unfold effAlg autoChoice
    split
    · split <;> simp
    · exact halg
  generalize effAlg alg (A.isa .psd) (A.rows * A.cols) = ea at hne
  cases ea with
  | other => exact absurd rfl hne
  | auto => simp
  | gmres => simp
  | lu => simp
  | cg => simp only; split <;> simp
  | chol => simp only; split <;> simp

/-! ## the hypotheses are needed / satisfiable -/

/-- the exact reciprocal of the driver's scalar type satisfies the reciprocal hypothesis. -/
theorem C06_grat_recip (a : GRat) (h : a ≠ 0) : a * GRat.inv a = 1 := by
  have hd : a.re * a.re + a.im * a.im ≠ 0 := by
    intro h0
    have h1 : a.re * a.re = 0 ∧ a.im * a.im = 0 := by
      constructor <;> nlinarith [mul_self_nonneg a.re, mul_self_nonneg a.im]
    apply h
    ext
    · simpa using h1.1
    · simpa using h1.2
  ext
  · simp only [GRat.mul_re, GRat.inv, GRat.one_re]
    have : a.re * (a.re / (a.re * a.re + a.im * a.im)) - a.im * (-a.im / (a.re * a.re + a.im * a.im))
        = (a.re * a.re + a.im * a.im) / (a.re * a.re + a.im * a.im) := by ring
    rw [this, div_self hd]
  · simp only [GRat.mul_im, GRat.inv, GRat.one_im]
    ring

/-- … and commutes with conjugation (`RecipStar`). -/
theorem C06_grat_recip_star (a : GRat) : star (GRat.inv a) = GRat.inv (star a) := by
  ext
  · simp [GRat.inv]
  · simp [GRat.inv]; ring

/-- a parameter set over ℤ: reciprocal of the units `±1`, unused factorisations / solver. -/
def unitExt : Ext Int :=
  { recip := id, chol := fun _ D => MatV.of D, lu := fun _ D => ([], MatV.of D, MatV.of D),
    solve := fun _ _ _ _ => MatV.of zeroM }

/-- the Triangular payload hypothesis is needed: `Triangular([[1, 1], [0, 1]], lower=True)`
multiplies by the full matrix, while `TriangularInv` reads the lower triangle only — the returned
operator is the identity, not the inverse. -/
theorem C06_triangular_payload_needed :
    let A : Op Int := .tri .f64 2 2 true (fun i j => if i = 1 ∧ j = 0 then 0 else 1)
    ∃ B, invRule unitExt .auto A = .ok B ∧
      mmul 2 A.den.f (B.den unitExt).f 0 1 ≠ (eyeM : MatF Int) 0 1 := by
  intro A
  refine ⟨.triInv .f64 2 true (fun i j => if i = 1 ∧ j = 0 then 0 else 1), by simp [A, invRule, invAux], ?_⟩
  simp [A, den_triInv, solvetri, solveLower, fwdList, mmul, sumTo, Op.den, eyeM, unitExt]

/-- the solver contract is needed: with a solver that does not solve (cola's GMRES returns NaN for a
zero right-hand-side column), `solve` does not satisfy `A x = b`. -/
theorem C06_solver_contract_needed :
    let A : Op Int := .dense .f64 1 1 (fun _ _ => 1)
    ∃ Y, solveRule unitExt .gmres A 1 (fun _ _ => 1) = .ok Y ∧ mmul 1 A.den.f Y.f 0 0 ≠ 1 := by
  intro A
  refine ⟨MatV.of zeroM, by simp [A, solveRule, invRule, invAux, algRule, effAlg, Except.map, InvOp.mm, unitExt], ?_⟩
  simp [mmul, sumTo, zeroM]

/-- the truth of `Unitary(A)` is needed for the plain-`Algorithm` path: `Unitary(Dense([[2]]))` is
"inverted" to its adjoint `[[2]]`. -/
theorem C06_unitary_declaration_needed :
    let A : Op Int := .annot .unitary (.dense .f64 1 1 (fun _ _ => 2))
    ∃ B, invRule unitExt .other A = .ok B ∧ mmul 1 A.den.f (B.den unitExt).f 0 0 ≠ 1 := by
  intro A
  refine ⟨.op (.annot .unitary A.adjointRule), by simp [A, invRule, invAux, algRule, effAlg, Op.isa, Op.anns,
    AnnSet.isa, AnnSet.union, Ann.sub], ?_⟩
  simp [A, InvOp.den, Op.den, Op.adjointRule, Op.core, mmul, sumTo, conjM, transposeM]

/-- parameters over the Gaussian integers: the reciprocal of a unit `±1, ±i` is its conjugate -/
def gintExt : Ext GInt :=
  { recip := star, chol := fun _ D => MatV.of D, lu := fun _ D => ([], MatV.of D, MatV.of D),
    solve := fun _ _ _ _ => MatV.of zeroM }

/-- clause `scalar-times-annotated` (the recorded C05 defect, inside the result of `inv`): the
condition `NodesOK` of `C06_well` is needed.  `inv(Kronecker(Product(I, i·I)))` is
`Kronecker(Product((−i)·I, I))`; the Product inherits PSD / Unitary from its only non-scalar member,
the Kronecker node reports SelfAdjoint, and its default left product takes the conjugation
shortcut: `x @ inv(A)` is `+i·x` instead of `−i·x` (the inverse itself and `inv(A) @ x` are right). -/
theorem C06_scalar_times_annotated_clause_needed :
    let A : Op GInt := .kron [.prod [.eye .c128 1, .scalar .c128 GInt.I 1]]
    ∃ B, invRule gintExt .auto A = .ok B ∧ InvHyp gintExt .auto A ∧ B.scalarTimesAnn = true ∧
      (B.rmm gintExt 1 (fun _ _ => 1)).f 0 0 ≠ mmul 1 (fun _ _ => 1) (B.den gintExt).f 0 0 := by
  intro A
  have hB : invRule gintExt .auto A
      = .ok (.kron [.prod [.op (.scalar .c128 (star GInt.I) 1), .op (.eye .c128 1)]]) := by
    simp [A, invRule, invAux, allSquare, Op.rows, Op.cols, Inv.sequence, Except.map, gintExt]
  have hH : InvHyp gintExt .auto A := by
    simp [A, InvHyp, HypAux, allSquare, Op.rows, Op.cols, Op.chainOk, gintExt]
    decide
  refine ⟨_, hB, hH, ?_, ?_⟩
  · simp [InvOp.scalarTimesAnn, InvOp.isScalarMul, Op.isScalarMul, Op.core, InvOp.anns, Op.anns,
      Op.scalarTimesAnn]
  · have s := invRule_sound gintExt .auto A hH _ hB
    have hm := s.mm 1 (conjM (transposeM fun _ _ => (1 : GInt))) 0 0
      (by simp [InvOp.rows, Op.rows]) (by omega)
    have hd : (InvOp.den gintExt (InvOp.kron [InvOp.prod
        [InvOp.op (Op.scalar DType.c128 (star GInt.I) 1), InvOp.op (Op.eye DType.c128 1)]])).f 0 0
          = star GInt.I := by
      simp [InvOp.den, kronDen, kronEntry, unravel, InvOp.rows, InvOp.cols, Op.rows, Op.cols, Op.den,
        mmul, sumTo, eyeM]
    simp [InvOp.rmm, InvOp.defaultRmm, InvOp.isa, InvOp.anns, InvOp.isScalarMul, Op.isScalarMul,
      Op.core, Op.anns, AnnSet.isa, AnnSet.interAll, Ann.sub, InvOp.cols, Op.cols]
    simp only [conjM, transposeM] at hm ⊢
    rw [hm]
    simp only [mmul, sumTo, InvOp.cols, Op.cols, List.map_cons, List.map_nil, List.prod_cons,
      List.prod_nil, List.getLast?_cons_cons, List.getLast?_singleton, Option.getD_some, hd]
    decide

/-- non-vacuity: a nested tree with every structural kind satisfies the hypotheses, and the rule
returns the reversed product of the factor-wise inverses. -/
example :
    let T : Op Int := .tri .f64 2 2 true (fun i j => if i = j then 1 else if i = 1 ∧ j = 0 then 3 else 0)
    let A : Op Int := .prod [.kron [T, .scalar .f64 (-1) 1], .bdiag [.eye .f64 1] [2],
      .annot .unitary (.perm .f64 [1, 0]), .diag .f64 2 (fun _ => -1)]
    InvHyp unitExt .auto A := by
  intro T A
  simp [A, T, InvHyp, HypAux, allSquare, Op.rows, Op.cols, Op.chainOk, Op.dotSum, LowerTri, DiagUnit,
    unitExt]
  intro i j _ _ hij
  rw [if_neg (by omega), if_neg (by omega)]

end C06

#print axioms C06.C06_inv
#print axioms C06.C06_inv_matrix
#print axioms C06.C06_matmat
#print axioms C06.C06_solve
#print axioms C06.C06_solve_vec
#print axioms C06.C06_solve_unique
#print axioms C06.C06_well
#print axioms C06.C06_left
#print axioms C06.C06_dense
#print axioms C06.C06_transpose
#print axioms C06.C06_auto
#print axioms C06.C06_auto_switch
#print axioms C06.C06_effAlg
#print axioms C06.C06_unitary_rule_dead
#print axioms C06.C06_grat_recip
#print axioms C06.C06_grat_recip_star
#print axioms C06.C06_scalar_times_annotated_clause_needed
#print axioms C06.C06_triangular_payload_needed
#print axioms C06.C06_solver_contract_needed
#print axioms C06.C06_unitary_declaration_needed
