import Mathlib.Analysis.Complex.Basic
import ColaVerif.Lemmas.LanczosOut
import ColaVerif.Lemmas.LanczosGrade
import ColaVerif.Lemmas.LanczosRelation
import ColaVerif.Lemmas.LanczosExample
import ColaVerif.Lemmas.LanczosEigsUnit
import ColaVerif.Lemmas.LanczosExample3

/-!
# C14 — Lanczos returns an orthonormal Krylov basis and the projected tridiagonal matrix

Property theorems about the code model `ColaVerif/Model/Lanczos.lean` (mirror of
`cola/linalg/decompositions/lanczos.py`) instantiated at EXACT arithmetic: scalars an `RCLike` field
`𝕜` (ℝ or ℂ), vectors an inner product space `E` over it, `A` a symmetric (Hermitian) operator.
`lanczosExact A n vs max_iters tol` is the model's `lanczos` run on the start vectors `vs`;
`o.q b c` is column `c` of member `b`'s returned `Q`, `o.T b a c` entry `(a, c)` of its returned
`T = Tridiagonal(alpha, beta, alpha).to_dense()`, `o.resid A b` the last column of `A Q - Q T`,
`o.iters` the common number of returned columns, `krylov A v j = span{v, A v, …, A^{j-1} v}`.

Input domain (hypotheses of every theorem, not defects): the start vector is non-zero (`v/‖v‖`
must exist), `tol ≥ 0`, `min(max_iters, n) ≥ 1`.

* `C14_lanczos` — FULL statement for one start vector (the 1-d `start_vector` path and a batch of 1).
* `C14_lanczos_eigs` — `lanczos_eigs`: ascending Ritz values and Ritz pairs, `eigh` (LAPACK) being a
  parameter whose contract is the hypothesis `eigh_contract`.
* `C14_batch_partial` — batched start vectors under the NAMED clause `no_member_breakdown`;
  `C14_batch_clause_needed` — the clause excludes a genuine defect of the code (a member whose
  Krylov space is exhausted while another member keeps the loop running is normalised by a zero
  norm: a zero column here, NaN / rounding noise in IEEE arithmetic).
* `C14_double_gram_is_single`, `C14_double_gram_noop`, `C14_body_is_three_term` — the two full
  Gram–Schmidt passes of the code against the whole buffer (zero columns included) are, in exact
  arithmetic, one projection, and they leave the three-term residual unchanged: the code's loop body
  IS the three-term Lanczos recurrence (bridge from the buffer model to the abstract recurrence).

Round 2 (end of the file) — conditions on the INPUTS instead of on outputs:
* `IsGrade A v g`, `grade A v`, `C14_grade_exists`: the grade of the start vector (dimension of the full
  Krylov space); `C14_grade`: `k ≤ min(cap, g)`, equality for `tol = 0` (the loop model stops exactly at
  the grade), all `β > 0` before it, `r = 0` iff `k = g`.
* `C14_relation` / `C14_relation_matrix`: the three-term relation `A Q = Q T + r e_kᵀ`, `Qᴴ Q = 1`,
  `T` real symmetric tridiagonal, `A Q = Q T` exactly at the grade — the theorem other families cite.
* `C14_batch_inputs`: the output clause `no_member_breakdown` follows from "no member's Krylov space
  stalls before `g`, and `cap ≤ g` or all members have grade `g`".
* `C14_eigh_contract_witness`: the contract `eigh_contract` holds for an exact eigensolver on the
  concrete run `A = [[2,1],[1,2]]`, `v = e₀`; `C14_grade_witness`.

Round 3 (end of the file) — `eigh_contract` lets zero columns through (then "Ritz pair" is vacuous):
* `C14_lanczos_eigs_nonzero` (contract `eigh_contract_nonzero`: no zero column ⇒ non-zero Ritz vectors,
  eigenpairs of `A` at `r = 0`) and `C14_lanczos_eigs_unit` (contract `eigh_contract_unit`: orthonormal columns ⇒
  orthonormal Ritz vectors, real Ritz values = Rayleigh quotients), both also position by position on the
  returned arrays; the old `C14_lanczos_eigs` is kept and follows from the new one (`example`).
* `C14_eigh_contract_unit_witness`: the whole bundle on the 3 × 3 run `A = [[2,1,0],[1,2,1],[0,1,2]]`, `v = e₀`
  with the exact solver `eigh3`.  That LAPACK's `eigh` meets these contracts is ASSUMED (witnessed exactly on
  the 2 × 2 and the 3 × 3 run; measured for the driver's Jacobi `eigh` on every run of the check).

Floating-point behaviour (loss of orthogonality, breakdown detection below the rounding level) is
outside these theorems; it is covered by the correspondence check `harness/props/c14.py`.
-/

open scoped InnerProductSpace ComplexConjugate
open Finset Lanczos

variable {𝕜 E : Type} [RCLike 𝕜] [NormedAddCommGroup E] [InnerProductSpace 𝕜 E]

-- the exact-arithmetic instance of the model's law-free operation classes
attribute [local instance] exactNum exactVec

/-- **C14, one start vector (full statement).** -/
theorem C14_lanczos (A : E →ₗ[𝕜] E) (A_hermitian : A.IsSymmetric) (n max_iters : ℕ) (v : E)
    (tol : ℝ) (start_nonzero : v ≠ 0) (tol_nonneg : 0 ≤ tol) (cap_pos : 1 ≤ min max_iters n) :
    let o := lanczosExact A n #[v] max_iters tol
    let k := o.iters
    let q := o.q 0
    let T := o.T 0
    let r := o.resid A 0
    -- shapes; at most `min(max_iters, n)` columns; `info['iterations']`
    (1 ≤ k ∧ k ≤ min max_iters n ∧ o.info.iterations = k + 1 ∧
      (o.Q.getD 0 #[]).size = k ∧ (o.beta.getD 0 #[]).size = k ∧ (o.alpha.getD 0 #[]).size = k - 1) ∧
    -- `Q` has orthonormal columns, the first one is `v / ‖v‖`
    Orthonormal 𝕜 (fun c : Fin k => q c) ∧ q 0 = (((‖v‖ : ℝ) : 𝕜))⁻¹ • v ∧
    -- the first `j` columns span the `j`-th Krylov space
    (∀ j, j ≤ k → Submodule.span 𝕜 (Set.range fun c : Fin j => q c) = krylov A v j) ∧
    -- `T` is real, symmetric, tridiagonal, with positive (hence non-negative) off-diagonal
    (∀ a c, a < k → c < k → ∃ x : ℝ, T a c = (x : 𝕜)) ∧
    (∀ a c, a < k → c < k → T a c = T c a) ∧
    (∀ a c, a < k → c < k → a + 1 < c → T a c = 0) ∧
    (∀ c, c + 1 < k → ∃ x : ℝ, 0 < x ∧ T (c + 1) c = (x : 𝕜)) ∧
    -- `T = Qᴴ A Q`
    (∀ a c, a < k → c < k → ⟪q a, A (q c)⟫_𝕜 = T a c) ∧
    -- `A Q - Q T` vanishes except in its last column `r`, which is orthogonal to `Q`
    (∀ c, c < k → A (q c) - ∑ a ∈ range k, T a c • q a = if c + 1 = k then r else 0) ∧
    (∀ a, a < k → ⟪q a, r⟫_𝕜 = 0) ∧
    -- exit: at the cap, or early because `‖r‖ = β_k ≤ tol * β_1` (`β_1 = T 1 0`; `= ‖r‖` if `k = 1`)
    (k = min max_iters n ∨
      ∃ β₁ : ℝ, (2 ≤ k → T 1 0 = (β₁ : 𝕜)) ∧ (k = 1 → β₁ = ‖r‖) ∧ ‖r‖ ≤ tol * β₁) ∧
    -- it stops no later than the Krylov space is exhausted: `dim K_k = k`, `k ≤ d` if `K_{d+1} = K_d`
    (Module.finrank 𝕜 (krylov A v k) = k ∧ ∀ d, krylov A v (d + 1) = krylov A v d → k ≤ d) ∧
    -- Ritz residual, and exact eigenvalues after an exit with an exhausted Krylov space (`r = 0`)
    (∀ (y : ℕ → 𝕜) (θ : 𝕜), (∀ a, a < k → ∑ c ∈ range k, T a c * y c = θ * y a) →
      A (∑ c ∈ range k, y c • q c) - θ • ∑ c ∈ range k, y c • q c = y (k - 1) • r) ∧
    (r = 0 → ∀ (y : ℕ → 𝕜) (θ : 𝕜), (∀ a, a < k → ∑ c ∈ range k, T a c * y c = θ * y a) →
      (∃ a, a < k ∧ y a ≠ 0) → Module.End.HasEigenvalue A θ) := by
  intro o k q T r
  obtain ⟨h1, h2, h3, h4, h5, h6, hs, hexit⟩ :=
    single_out A A_hermitian n max_iters v tol start_nonzero tol_nonneg cap_pos
  exact ⟨⟨h1, h2, h3, h4, h5, h6⟩, hs.orthonormal, hs.first, hs.span, hs.real, hs.symm, hs.tridiag,
    hs.offdiag_pos, hs.proj, hs.rel, hs.rorth, hexit, ⟨hs.finrank, hs.exhausted⟩, hs.ritz, hs.eigen⟩

/-- the hypotheses of `C14_lanczos` are satisfiable non-trivially: complex conjugation on `ℂ` as a
real inner product space (eigenvalues `1` and `-1`), start vector `1 + i`, `max_iters = 5 > n = 2` -/
example : ∃ (A : ℂ →ₗ[ℝ] ℂ) (v : ℂ) (tol : ℝ), A.IsSymmetric ∧ v ≠ 0 ∧ 0 ≤ tol ∧ 1 ≤ min 5 2 ∧
    ¬ ∃ c : ℝ, A v = c • v := by
  refine ⟨Complex.conjAe.toLinearMap, 1 + Complex.I, 1e-7, ?_, ?_, by norm_num, by decide, ?_⟩
  · intro z w
    simp only [AlgEquiv.toLinearMap_apply, Complex.conjAe_coe, Complex.inner]
    simp [Complex.mul_re]
  · intro h
    have := congrArg Complex.re h
    simp at this
  · rintro ⟨c, h⟩
    have h1 := congrArg Complex.re h
    have h2 := congrArg Complex.im h
    simp at h1 h2
    linarith

/-- **C14, `lanczos_eigs`.**  `eigh` is a parameter (LAPACK); its contract `eigh_contract` says that
it returns `k` values and, as columns, vectors `y_j` with `T y_j = θ_j y_j`.  Then `lanczos_eigs`
returns the pairs `(θ_j, Q y_j)` rearranged by a permutation `idx` of `0 … k-1` along which the
values ascend, and every pair satisfies the Ritz relation `A x - θ x = (y_j)_{k-1} • r` (an exact
eigenpair of `A` when the Krylov space is exhausted, `r = 0`).  NOTE: `eigh_contract` says nothing about
`y_j ≠ 0`, so a zero column passes and its "pair" is vacuous; `C14_lanczos_eigs_nonzero` /
`C14_lanczos_eigs_unit` (end of the file) exclude that and conclude non-zero / orthonormal Ritz vectors.
`eigh` (LAPACK) meeting any of these contracts is an assumed contract. -/
theorem C14_lanczos_eigs (eigh : Array (Array 𝕜) → Array 𝕜 × Array (Array 𝕜))
    (A : E →ₗ[𝕜] E) (A_hermitian : A.IsSymmetric) (n max_iters : ℕ) (v : E) (tol : ℝ)
    (start_nonzero : v ≠ 0) (tol_nonneg : 0 ≤ tol) (cap_pos : 1 ≤ min max_iters n)
    (eigh_contract :
      let o := lanczosExact A n #[v] max_iters tol
      let e := eigh (tridiagDense (K := 𝕜) (o.alpha.getD 0 #[]) (o.beta.getD 0 #[]))
      e.1.size = o.iters ∧
      ∀ j a, j < o.iters → a < o.iters →
        ∑ c ∈ range o.iters, o.T 0 a c * (e.2.getD j #[]).getD c 0 =
          e.1.getD j 0 * (e.2.getD j #[]).getD a 0) :
    let o := lanczosExact A n #[v] max_iters tol
    let res := lanczosEigs (K := 𝕜) eigh (⇑A) n 0 v max_iters (tol : 𝕜)
    ∃ (idx : List ℕ) (θ : ℕ → 𝕜) (y : ℕ → ℕ → 𝕜) (x : ℕ → E),
      idx.Perm (List.range o.iters) ∧
      res.1.toList = idx.map θ ∧ res.2.toList = idx.map x ∧
      (idx.map θ).Pairwise (fun a b => RCLike.re a ≤ RCLike.re b) ∧
      ∀ j, j < o.iters →
        x j = ∑ c ∈ range o.iters, y j c • o.q 0 c ∧
        A (x j) - θ j • x j = y j (o.iters - 1) • o.resid A 0 := by
  intro o res
  exact eigs_out eigh A A_hermitian n max_iters v tol start_nonzero tol_nonneg cap_pos
    eigh_contract.1 eigh_contract.2

/-- **C14, batched start vectors (partial).**  Clause `no_member_breakdown`: no returned
off-diagonal entry of any member's `T` is zero, i.e. no member's Krylov space was exhausted before
the common exit.  Under it every member satisfies the full single-vector statement (`OutSpec`: the
fields are exactly the conjuncts of `C14_lanczos`), with the common column count `o.iters`. -/
theorem C14_batch_partial (A : E →ₗ[𝕜] E) (A_hermitian : A.IsSymmetric) (n max_iters : ℕ)
    (vs : Array E) (tol : ℝ) (cap_pos : 1 ≤ min max_iters n) (batch_nonempty : 0 < vs.size)
    (starts_nonzero : ∀ (b : ℕ) (v : E), vs[b]? = some v → v ≠ 0)
    (no_member_breakdown :
      let o := lanczosExact A n vs max_iters tol
      ∀ b c, b < vs.size → c + 1 < o.iters → o.T b (c + 1) c ≠ 0) :
    let o := lanczosExact A n vs max_iters tol
    1 ≤ o.iters ∧ o.iters ≤ min max_iters n ∧ o.info.iterations = o.iters + 1 ∧
    ∀ b, b < vs.size →
      (o.Q.getD b #[]).size = o.iters ∧
      OutSpec A (vs.getD b 0) o.iters (o.q b) (o.T b) (o.resid A b) := by
  intro o
  exact batch_out A A_hermitian n max_iters vs tol cap_pos batch_nonempty starts_nonzero
    no_member_breakdown

/-- the clause `no_member_breakdown` is satisfiable non-trivially: it holds for EVERY batch of one
start vector, any cap and any tolerance (there the stopping test itself enforces it) -/
example (A : E →ₗ[𝕜] E) (A_hermitian : A.IsSymmetric) (n max_iters : ℕ) (v : E) (tol : ℝ)
    (start_nonzero : v ≠ 0) (tol_nonneg : 0 ≤ tol) (cap_pos : 1 ≤ min max_iters n) :
    let o := lanczosExact A n #[v] max_iters tol
    ∀ b c, b < (#[v] : Array E).size → c + 1 < o.iters → o.T b (c + 1) c ≠ 0 := by
  intro o b c hb hc
  have hb0 : b = 0 := by simpa using hb
  subst hb0
  obtain ⟨_, _, _, _, _, _, hs, _⟩ :=
    single_out A A_hermitian n max_iters v tol start_nonzero tol_nonneg cap_pos
  obtain ⟨x, hx, hT⟩ := hs.offdiag_pos c hc
  rw [hT]
  exact_mod_cast ne_of_gt hx

/-- **the clause is needed (modelled defect of the code).**  A batch `[v₁, v₂]` with `v₁` an
eigenvector of `A` and `v₂` not, `tol < 1`, `min(max_iters, n) ≥ 2`: at least two columns are
returned and member 1's second column is the ZERO vector (`0/‖0‖`; NaN in IEEE arithmetic) — its `Q`
does not have orthonormal columns. -/
theorem C14_batch_clause_needed (A : E →ₗ[𝕜] E) (A_hermitian : A.IsSymmetric) (n max_iters : ℕ)
    (v₁ v₂ : E) (a : 𝕜) (tol : ℝ) (hv₁ : v₁ ≠ 0) (hv₂ : v₂ ≠ 0) (eigenvector : A v₁ = a • v₁)
    (not_eigenvector : ∀ c : 𝕜, A v₂ ≠ c • v₂) (tol_lt_one : tol < 1)
    (cap_two : 2 ≤ min max_iters n) :
    let o := lanczosExact A n #[v₁, v₂] max_iters tol
    2 ≤ o.iters ∧ o.q 0 1 = 0 ∧ ¬ Orthonormal 𝕜 (fun c : Fin o.iters => o.q 0 c) := by
  intro o
  obtain ⟨h1, h2⟩ := batch_breakdown A A_hermitian n max_iters v₁ v₂ a tol hv₁ hv₂ eigenvector
    not_eigenvector tol_lt_one cap_two
  refine ⟨h1, h2, ?_⟩
  intro hon
  have := hon.1 ⟨1, Nat.lt_of_lt_of_le (by decide) h1⟩
  simp only at this
  have h0 : o.q 0 1 = 0 := h2
  rw [h0, norm_zero] at this
  exact zero_ne_one this

/-- the hypotheses of `C14_batch_clause_needed` are satisfiable: conjugation on `ℂ` over `ℝ`,
`v₁ = 1` (eigenvalue 1), `v₂ = 1 + i` -/
example : ∃ (A : ℂ →ₗ[ℝ] ℂ) (v₁ v₂ : ℂ) (a : ℝ), A.IsSymmetric ∧ v₁ ≠ 0 ∧ v₂ ≠ 0 ∧ A v₁ = a • v₁ ∧
    (∀ c : ℝ, A v₂ ≠ c • v₂) ∧ (1e-7 : ℝ) < 1 ∧ 2 ≤ min 7 2 := by
  refine ⟨Complex.conjAe.toLinearMap, 1, 1 + Complex.I, 1, ?_, one_ne_zero, ?_, by simp, ?_,
    by norm_num, by decide⟩
  · intro z w
    simp only [AlgEquiv.toLinearMap_apply, Complex.conjAe_coe, Complex.inner]
    simp [Complex.mul_re]
  · intro h
    have := congrArg Complex.re h
    simp at this
  · intro c h
    have h1 := congrArg Complex.re h
    have h2 := congrArg Complex.im h
    simp at h1 h2
    linarith

section gram

/-- against an orthonormal family plus zero columns (what the buffer holds) the second
Gram–Schmidt pass changes nothing: `do_double_gram = do_gram` in exact arithmetic, and the result
is orthogonal to every column of the buffer -/
theorem C14_double_gram_is_single (buf : Array E) (w : E)
    (buffer_orthonormal_or_zero : OrthoOrZero (𝕜 := 𝕜) buf.toList) :
    doubleGram (K := 𝕜) 0 buf w = gram (K := 𝕜) 0 buf w ∧
    (∀ c ∈ buf.toList, ⟪c, doubleGram (K := 𝕜) 0 buf w⟫_𝕜 = 0) ∧
    gram (K := 𝕜) 0 buf w = w - proj (𝕜 := 𝕜) buf.toList w := by
  refine ⟨doubleGram_eq_gram buf w buffer_orthonormal_or_zero, ?_, gram_eq_sub_proj buf w⟩
  intro c hc
  rw [doubleGram_eq_gram buf w buffer_orthonormal_or_zero]
  exact gram_orth buf w buffer_orthonormal_or_zero c hc

/-- a vector already orthogonal to the whole buffer is returned unchanged by both passes -/
theorem C14_double_gram_noop (buf : Array E) (w : E)
    (already_orthogonal : ∀ c ∈ buf.toList, ⟪c, w⟫_𝕜 = 0) :
    doubleGram (K := 𝕜) 0 buf w = w :=
  doubleGram_of_orth buf w already_orthogonal

example : OrthoOrZero (𝕜 := ℝ) (#[(0 : ℝ), 1, 0].toList) := by
  refine ⟨?_, ?_⟩
  · simp [List.pairwise_cons]
  · intro c hc
    simp at hc
    rcases hc with rfl | rfl | rfl
    · left; rfl
    · right; simp
    · left; rfl

/-- **bridge from the buffer model to the abstract recurrence**: on a state satisfying the
invariant (`j` completed steps, non-zero pending column) the vector the code writes to column
`j + 2` after the three-term subtraction AND the two Gram–Schmidt passes is exactly the three-term
residual `A q - α q - β_{j} q_{prev}`, and the step re-establishes the invariant -/
theorem C14_body_is_three_term (A : E →ₗ[𝕜] E) (A_hermitian : A.IsSymmetric) (m : ℕ) (v : E) (j : ℕ)
    (s : Mem 𝕜 E) (invariant : Inv A m v j s) (below_cap : j < m)
    (pending_nonzero : qc s (j + 1) ≠ 0) :
    u' (⇑A) (j + 1) s = u0' (⇑A) (j + 1) s ∧
    Inv A m v (j + 1) (bodyMem (K := 𝕜) (⇑A) 0 (j + 1) s) :=
  ⟨u'_eq_u0' invariant A_hermitian pending_nonzero,
   inv_step invariant A_hermitian below_cap pending_nonzero⟩

/-- the invariant is satisfiable: `init_lanczos` establishes it for every start vector -/
example (A : E →ₗ[𝕜] E) (m : ℕ) (v : E) : Inv A m v 0 (initMem (K := 𝕜) 0 m v) := inv_init A m v

end gram

/-! ## round 2: breakdown conditions on the inputs (the grade of the start vector) -/

/-- the grade exists in finite dimension: `grade A v` is the least index at which the Krylov space
stalls, it is at most `dim E`, it is the dimension of the full Krylov space, and it is unique -/
theorem C14_grade_exists [FiniteDimensional 𝕜 E] (A : E →ₗ[𝕜] E) (v : E) :
    IsGrade A v (grade A v) ∧ grade A v ≤ Module.finrank 𝕜 E ∧
    Module.finrank 𝕜 (krylov A v (grade A v)) = grade A v ∧
    (∀ j, grade A v ≤ j → krylov A v j = krylov A v (grade A v)) ∧
    ∀ g, IsGrade A v g → g = grade A v := by
  obtain ⟨h1, h2⟩ := isGrade_grade A v
  exact ⟨h1, h2, h1.finrank.1, h1.finrank.2, fun g hg => hg.unique h1⟩

/-- **C14, the loop stops exactly at the grade.**  One start vector `v ≠ 0` of grade `g` (`IsGrade`:
`K_{g+1} = K_g` and `K_{d+1} ≠ K_d` for `d < g` — a condition on `(A, v)` only), `tol ≥ 0`.  With `k` the
number of returned columns: `k ≤ min(min(max_iters, n), g)`; for `tol = 0` EQUALITY holds (the loop
model stops exactly at the grade, or at the cap); every sub-diagonal entry `β_c`, `c + 1 < k`, is
strictly positive (no breakdown before the grade); the last column `r` of `A Q - Q T` is zero iff
`k = g`. -/
theorem C14_grade (A : E →ₗ[𝕜] E) (A_hermitian : A.IsSymmetric) (n max_iters : ℕ) (v : E) (tol : ℝ)
    (start_nonzero : v ≠ 0) (tol_nonneg : 0 ≤ tol) (cap_pos : 1 ≤ min max_iters n) {g : ℕ}
    (grade_of_start : IsGrade A v g) :
    let o := lanczosExact A n #[v] max_iters tol
    o.iters ≤ min (min max_iters n) g ∧
    (tol = 0 → o.iters = min (min max_iters n) g) ∧
    (∀ c, c + 1 < o.iters → ∃ x : ℝ, 0 < x ∧ o.T 0 (c + 1) c = (x : 𝕜)) ∧
    (o.resid A 0 = 0 ↔ o.iters = g) := by
  intro o
  obtain ⟨h1, h2, h3⟩ := single_grade A A_hermitian n max_iters v tol start_nonzero tol_nonneg
    cap_pos grade_of_start
  obtain ⟨_, _, _, _, _, _, hs, _⟩ :=
    single_out A A_hermitian n max_iters v tol start_nonzero tol_nonneg cap_pos
  exact ⟨h1, h2, hs.offdiag_pos, h3⟩

/-- **C14_relation — the three-term (Lanczos) relation, in the form other families cite.**
The loop model run on one start vector `v ≠ 0` returns `k` columns `q_0 … q_{k-1}`, `T` and the last
column `r` of `A Q - Q T` with
* `A q_c = Σ_a T a c • q_a + [c = k-1] r` for every `c < k`     (`A Q_k = Q_k T_k + r e_kᵀ`),
* `Q_kᴴ Q_k = 1`, `q_0 = v/‖v‖`, `r ⟂ Q_k`,
* `T` real, symmetric, tridiagonal with strictly positive sub-diagonal,
* if `g` is the grade of `v`: `k ≤ g`, and `r = 0` iff `k = g` — at the grade `A Q = Q T` exactly.
(`r = β_k q_k` with `β_k = ‖r‖` the next off-diagonal entry and `q_k = r/‖r‖` the next basis vector
when `r ≠ 0`.)  Matrix form: `C14_relation_matrix`. -/
theorem C14_relation (A : E →ₗ[𝕜] E) (A_hermitian : A.IsSymmetric) (n max_iters : ℕ) (v : E)
    (tol : ℝ) (start_nonzero : v ≠ 0) (tol_nonneg : 0 ≤ tol) (cap_pos : 1 ≤ min max_iters n) :
    let o := lanczosExact A n #[v] max_iters tol
    let k := o.iters
    let q := o.q 0
    let T := o.T 0
    let r := o.resid A 0
    (∀ c, c < k → A (q c) = ∑ a ∈ range k, T a c • q a + if c + 1 = k then r else 0) ∧
    Orthonormal 𝕜 (fun c : Fin k => q c) ∧ q 0 = (((‖v‖ : ℝ) : 𝕜))⁻¹ • v ∧
    (∀ a, a < k → ⟪q a, r⟫_𝕜 = 0) ∧
    (∀ a c, a < k → c < k → ∃ x : ℝ, T a c = (x : 𝕜)) ∧
    (∀ a c, a < k → c < k → T a c = T c a) ∧
    (∀ a c, a < k → c < k → a + 1 < c → T a c = 0) ∧
    (∀ c, c + 1 < k → ∃ x : ℝ, 0 < x ∧ T (c + 1) c = (x : 𝕜)) ∧
    ∀ g, IsGrade A v g →
      k ≤ g ∧ (r = 0 ↔ k = g) ∧
      (k = g → ∀ c, c < k → A (q c) = ∑ a ∈ range k, T a c • q a) := by
  intro o k q T r
  obtain ⟨hk1, _, _, _, _, _, hs, _⟩ :=
    single_out A A_hermitian n max_iters v tol start_nonzero tol_nonneg cap_pos
  have hrel : ∀ c, c < k → A (q c) = ∑ a ∈ range k, T a c • q a + if c + 1 = k then r else 0 := by
    intro c hc
    rw [← hs.rel c hc]; abel
  refine ⟨hrel, hs.orthonormal, hs.first, hs.rorth, hs.real, hs.symm, hs.tridiag, hs.offdiag_pos, ?_⟩
  intro g hg
  have hiff := hs.resid_zero_iff_grade hk1 hg
  refine ⟨hs.le_grade hg, hiff, ?_⟩
  intro hkg c hc
  have hr0 : r = 0 := hiff.mpr hkg
  rw [hrel c hc, hr0]
  simp

/-- **C14_relation in matrix form**: `M` a Hermitian `n × n` matrix, `v ≠ 0`; with `Q` the `n × k`
matrix of the returned columns, `T` the returned `k × k` matrix and `r` the last column of `A Q - Q T`:
`M * Q = Q * T + r e_kᵀ`, `Qᴴ * Q = 1`, `Tᴴ = T`, `Q (‖v‖ e₀) = v`; and when `k` is the grade of `v`
(`IsGrade`), `M * Q = Q * T` exactly — the hypotheses `relation` / `orthonormal` of `C10_ritz` and
`hfac` / `hv` of `C09_krylov_base`. -/
theorem C14_relation_matrix {n : ℕ} (M : Matrix (Fin n) (Fin n) 𝕜) (M_hermitian : M.IsHermitian)
    (max_iters : ℕ) (v : EuclideanSpace 𝕜 (Fin n)) (tol : ℝ) (start_nonzero : v ≠ 0)
    (tol_nonneg : 0 ≤ tol) (cap_pos : 1 ≤ min max_iters n) :
    let o := lanczosExact (Matrix.toEuclideanLin M) n #[v] max_iters tol
    let k := o.iters
    let Q := qMat (o.q 0) k
    let T := tMat (o.T 0) k
    M * Q = Q * T + rMat (o.resid (Matrix.toEuclideanLin M) 0) k ∧
    Q.conjTranspose * Q = 1 ∧ T.conjTranspose = T ∧
    Q.mulVec (fun c : Fin k => if (c : ℕ) = 0 then ((‖v‖ : ℝ) : 𝕜) else 0) = WithLp.ofLp v ∧
    (IsGrade (Matrix.toEuclideanLin M) v k → M * Q = Q * T) := by
  intro o k Q T
  have hsym : (Matrix.toEuclideanLin M).IsSymmetric :=
    Matrix.isSymmetric_toEuclideanLin_iff.mpr M_hermitian
  obtain ⟨hk1, _, _, _, _, _, hs, _⟩ :=
    single_out (Matrix.toEuclideanLin M) hsym n max_iters v tol start_nonzero tol_nonneg cap_pos
  refine ⟨hs.matrix_rel, hs.matrix_orth, hs.matrix_herm, hs.matrix_first hk1 start_nonzero, ?_⟩
  intro hg
  have hr0 : o.resid (Matrix.toEuclideanLin M) 0 = 0 := (hs.resid_zero_iff_grade hk1 hg).mpr rfl
  have := hs.matrix_rel
  rw [hr0] at this
  rw [this]
  have hz : rMat (0 : EuclideanSpace 𝕜 (Fin n)) k = 0 := by
    ext i c; simp [rMat]
  rw [hz, add_zero]

/-- **C14, batched start vectors — condition on the INPUTS.**  No member's Krylov space stalls before
`g`, and either the cap `min(max_iters, n)` is at most `g` (every grade is at least the cap) or
`tol ≥ 0` and every member stalls at `g` (all start vectors have the same grade `g`).  Then the clause
`no_member_breakdown` of `C14_batch_partial` holds: at most `g` columns are returned and every member
satisfies the full single-vector statement `OutSpec`. -/
theorem C14_batch_inputs (A : E →ₗ[𝕜] E) (A_hermitian : A.IsSymmetric) (n max_iters : ℕ)
    (vs : Array E) (tol : ℝ) (cap_pos : 1 ≤ min max_iters n) (batch_nonempty : 0 < vs.size)
    (starts_nonzero : ∀ (b : ℕ) (v : E), vs[b]? = some v → v ≠ 0) (g : ℕ)
    (no_stall_before : ∀ b, b < vs.size → ∀ d < g, ¬ Stalls A (vs.getD b 0) d)
    (cap_or_common_grade :
      min max_iters n ≤ g ∨ (0 ≤ tol ∧ ∀ b, b < vs.size → Stalls A (vs.getD b 0) g)) :
    let o := lanczosExact A n vs max_iters tol
    o.iters ≤ g ∧ 1 ≤ o.iters ∧ o.iters ≤ min max_iters n ∧ o.info.iterations = o.iters + 1 ∧
    (∀ b c, b < vs.size → c + 1 < o.iters → o.T b (c + 1) c ≠ 0) ∧
    ∀ b, b < vs.size →
      (o.Q.getD b #[]).size = o.iters ∧
      OutSpec A (vs.getD b 0) o.iters (o.q b) (o.T b) (o.resid A b) := by
  intro o
  obtain ⟨h0, h1, h2, h3, h4⟩ := batch_out_of_grade A A_hermitian n max_iters vs tol cap_pos
    batch_nonempty starts_nonzero g no_stall_before cap_or_common_grade
  refine ⟨h0, h1, h2, h3, ?_, h4⟩
  intro b c hb hc
  obtain ⟨x, hx, hT⟩ := (h4 b hb).2.offdiag_pos c hc
  rw [hT]
  exact_mod_cast ne_of_gt hx

/-- the hypotheses of `C14_grade`, `C14_relation` (grade part) and `C14_batch_inputs` are satisfiable
on a non-diagonal matrix: `A = [[2,1],[1,2]]`, `e₀` and `e₁` both have grade `2`; the batch `[e₀, e₁]`
with `max_iters = 5`, `n = 2` has cap `2 ≤ g = 2` -/
theorem C14_grade_witness :
    (Matrix.toEuclideanLin exM2).IsSymmetric ∧ exv2 ≠ 0 ∧ exw2 ≠ 0 ∧
    IsGrade (Matrix.toEuclideanLin exM2) exv2 2 ∧ IsGrade (Matrix.toEuclideanLin exM2) exw2 2 ∧
    (∀ b, b < (#[exv2, exw2] : Array _).size → ∀ d < 2,
      ¬ Stalls (Matrix.toEuclideanLin exM2) ((#[exv2, exw2] : Array _).getD b 0) d) ∧
    min 5 2 ≤ 2 := by
  refine ⟨exM2_symm, exv2_ne, exw2_ne, ex2_grade, ex2_grade', ?_, by decide⟩
  intro b hb d hd
  have hb2 : b < 2 := by simpa using hb
  interval_cases b
  · exact ex2_grade.2 d hd
  · exact ex2_grade'.2 d hd

/-- **the `eigh` contract of `C14_lanczos_eigs` is witnessed on a concrete tridiagonal**: for
`A = [[2,1],[1,2]]`, `v = e₀`, `max_iters = 5`, `tol = 0` the model returns `T = [[2,1],[1,2]]`, and the
exact eigensolver `eigh2` (values `a ∓ b`, vectors `(1, ∓1)` for `[[a,b],[b,a]]`) satisfies
`eigh_contract`; all other hypotheses of `C14_lanczos_eigs` hold as well. -/
theorem C14_eigh_contract_witness :
    (Matrix.toEuclideanLin exM2).IsSymmetric ∧ exv2 ≠ 0 ∧ (0 : ℝ) ≤ 0 ∧ 1 ≤ min 5 2 ∧
    (let o := lanczosExact (Matrix.toEuclideanLin exM2) 2 #[exv2] 5 0
     let e := eigh2 (tridiagDense (K := ℝ) (o.alpha.getD 0 #[]) (o.beta.getD 0 #[]))
     e.1.size = o.iters ∧
     ∀ j a, j < o.iters → a < o.iters →
       ∑ c ∈ range o.iters, o.T 0 a c * (e.2.getD j #[]).getD c 0 =
         e.1.getD j 0 * (e.2.getD j #[]).getD a 0) ∧
    (let o := lanczosExact (Matrix.toEuclideanLin exM2) 2 #[exv2] 5 0
     o.iters = 2 ∧ o.T 0 0 0 = 2 ∧ o.T 0 1 0 = 1 ∧ o.T 0 0 1 = 1 ∧ o.T 0 1 1 = 2) := by
  refine ⟨exM2_symm, exv2_ne, le_refl _, by decide, ex2_eigh_contract, ?_⟩
  obtain ⟨h1, _, _, _, h2, h3, h4, h5, _⟩ := ex2_run
  exact ⟨h1, h2, h3, h4, h5⟩

/-! ## round 3: the `eigh` contract without the vacuous case -/

/-- **C14, `lanczos_eigs` — no zero eigen-column.**  `eigh_contract` of `C14_lanczos_eigs` lets `eigh` return zero
columns, for which "Ritz pair" says nothing.  Under the contract `eigh_contract_nonzero` (`k` values, columns
with `T y_j = θ_j y_j`, and NO column is zero on the first `k` entries) everything `C14_lanczos_eigs` states
holds, and moreover: every Ritz vector `x_j = Q y_j` is NON-ZERO; the returned arrays have `k` entries; entry `i`
of the returned vectors is non-zero and satisfies `A x - θ x ∈ span{r}` with entry `i` of the returned values;
the returned values ascend position by position; and after an exit with an exhausted Krylov space (`r = 0`)
every returned pair is a genuine eigenpair of `A` (`HasEigenvector`).  That `numpy.linalg.eigh` (LAPACK) meets
the contract is ASSUMED, not proved; it is witnessed exactly on a 2 × 2 and a 3 × 3 run
(`C14_eigh_contract_witness`, `C14_eigh_contract_unit_witness`) and measured on every run of the driver. -/
theorem C14_lanczos_eigs_nonzero (eigh : Array (Array 𝕜) → Array 𝕜 × Array (Array 𝕜))
    (A : E →ₗ[𝕜] E) (A_hermitian : A.IsSymmetric) (n max_iters : ℕ) (v : E) (tol : ℝ)
    (start_nonzero : v ≠ 0) (tol_nonneg : 0 ≤ tol) (cap_pos : 1 ≤ min max_iters n)
    (eigh_contract_nonzero :
      let o := lanczosExact A n #[v] max_iters tol
      let e := eigh (tridiagDense (K := 𝕜) (o.alpha.getD 0 #[]) (o.beta.getD 0 #[]))
      e.1.size = o.iters ∧
      (∀ j a, j < o.iters → a < o.iters →
        ∑ c ∈ range o.iters, o.T 0 a c * (e.2.getD j #[]).getD c 0 =
          e.1.getD j 0 * (e.2.getD j #[]).getD a 0) ∧
      ∀ j, j < o.iters → ∃ c, c < o.iters ∧ (e.2.getD j #[]).getD c 0 ≠ 0) :
    let o := lanczosExact A n #[v] max_iters tol
    let res := lanczosEigs (K := 𝕜) eigh (⇑A) n 0 v max_iters (tol : 𝕜)
    let k := o.iters
    let r := o.resid A 0
    ∃ (idx : List ℕ) (θ : ℕ → 𝕜) (y : ℕ → ℕ → 𝕜) (x : ℕ → E),
      -- the conclusion of `C14_lanczos_eigs`
      idx.Perm (List.range k) ∧
      res.1.toList = idx.map θ ∧ res.2.toList = idx.map x ∧
      (idx.map θ).Pairwise (fun a b => RCLike.re a ≤ RCLike.re b) ∧
      (∀ j, j < k → x j = ∑ c ∈ range k, y j c • o.q 0 c ∧ A (x j) - θ j • x j = y j (k - 1) • r) ∧
      -- new: no Ritz vector vanishes
      (∀ j, j < k → x j ≠ 0) ∧
      -- new: the returned arrays, position by position
      res.1.size = k ∧ res.2.size = k ∧
      (∀ i, i < k → res.2.getD i 0 ≠ 0 ∧
        ∃ c : 𝕜, A (res.2.getD i 0) - res.1.getD i 0 • res.2.getD i 0 = c • r) ∧
      (∀ i j, i < j → j < k → RCLike.re (res.1.getD i 0) ≤ RCLike.re (res.1.getD j 0)) ∧
      (r = 0 → ∀ i, i < k → Module.End.HasEigenvector A (res.1.getD i 0) (res.2.getD i 0)) :=
  eigs_out_nonzero eigh A n max_iters v tol A_hermitian start_nonzero tol_nonneg cap_pos
    { size := eigh_contract_nonzero.1, pair := eigh_contract_nonzero.2.1,
      nonzero := eigh_contract_nonzero.2.2 }

/-- **C14, `lanczos_eigs` — orthonormal eigen-columns (what `eigh` documents).**  Contract `eigh_contract_unit`:
`k` values, columns with `T y_j = θ_j y_j`, and the `k` columns are ORTHONORMAL (`Σ_c conj(y_i c) y_j c = δ_ij`,
hence non-zero).  Then everything `C14_lanczos_eigs` and `C14_lanczos_eigs_nonzero` state holds, and moreover
`⟪Q y_i, Q y_j⟫ = ⟪y_i, y_j⟫` (`Q` has orthonormal columns), the Ritz vectors are ORTHONORMAL, every Ritz value
is the Rayleigh quotient `⟪x, A x⟫` of its vector and is REAL; the same position by position for the returned
arrays: `k` orthonormal (non-zero) vectors, real ascending values, `A x - θ x ∈ span{r}`, eigenpairs of `A`
when `r = 0`.  That `numpy.linalg.eigh` (LAPACK) meets the contract is ASSUMED, not proved; it is witnessed
exactly on a 2 × 2 run (`C14_eigh_contract_witness`, pair part) and on a 3 × 3 run
(`C14_eigh_contract_unit_witness`, whole bundle), and its residual / orthonormality defect is measured on
every run of the correspondence check for the driver's Jacobi `eigh`. -/
theorem C14_lanczos_eigs_unit (eigh : Array (Array 𝕜) → Array 𝕜 × Array (Array 𝕜))
    (A : E →ₗ[𝕜] E) (A_hermitian : A.IsSymmetric) (n max_iters : ℕ) (v : E) (tol : ℝ)
    (start_nonzero : v ≠ 0) (tol_nonneg : 0 ≤ tol) (cap_pos : 1 ≤ min max_iters n)
    (eigh_contract_unit :
      let o := lanczosExact A n #[v] max_iters tol
      let e := eigh (tridiagDense (K := 𝕜) (o.alpha.getD 0 #[]) (o.beta.getD 0 #[]))
      e.1.size = o.iters ∧
      (∀ j a, j < o.iters → a < o.iters →
        ∑ c ∈ range o.iters, o.T 0 a c * (e.2.getD j #[]).getD c 0 =
          e.1.getD j 0 * (e.2.getD j #[]).getD a 0) ∧
      ∀ i j, i < o.iters → j < o.iters →
        ∑ c ∈ range o.iters, conj ((e.2.getD i #[]).getD c 0) * (e.2.getD j #[]).getD c 0 =
          if i = j then 1 else 0) :
    let o := lanczosExact A n #[v] max_iters tol
    let res := lanczosEigs (K := 𝕜) eigh (⇑A) n 0 v max_iters (tol : 𝕜)
    let k := o.iters
    let r := o.resid A 0
    ∃ (idx : List ℕ) (θ : ℕ → 𝕜) (y : ℕ → ℕ → 𝕜) (x : ℕ → E),
      -- the conclusion of `C14_lanczos_eigs`
      idx.Perm (List.range k) ∧
      res.1.toList = idx.map θ ∧ res.2.toList = idx.map x ∧
      (idx.map θ).Pairwise (fun a b => RCLike.re a ≤ RCLike.re b) ∧
      (∀ j, j < k → x j = ∑ c ∈ range k, y j c • o.q 0 c ∧ A (x j) - θ j • x j = y j (k - 1) • r) ∧
      -- new: `Q` is an isometry on coefficient vectors; the Ritz vectors are orthonormal
      (∀ i j, i < k → j < k → ⟪x i, x j⟫_𝕜 = ∑ c ∈ range k, conj (y i c) * y j c) ∧
      Orthonormal 𝕜 (fun j : Fin k => x j) ∧
      (∀ j, j < k → x j ≠ 0 ∧ θ j = ⟪x j, A (x j)⟫_𝕜 ∧ ∃ t : ℝ, θ j = (t : 𝕜)) ∧
      -- new: the returned arrays, position by position
      res.1.size = k ∧ res.2.size = k ∧
      Orthonormal 𝕜 (fun i : Fin k => res.2.getD i 0) ∧
      (∀ i, i < k → res.2.getD i 0 ≠ 0 ∧ (∃ t : ℝ, res.1.getD i 0 = (t : 𝕜)) ∧
        res.1.getD i 0 = ⟪res.2.getD i 0, A (res.2.getD i 0)⟫_𝕜 ∧
        ∃ c : 𝕜, A (res.2.getD i 0) - res.1.getD i 0 • res.2.getD i 0 = c • r) ∧
      (∀ i j, i < j → j < k → RCLike.re (res.1.getD i 0) ≤ RCLike.re (res.1.getD j 0)) ∧
      (r = 0 → ∀ i, i < k → Module.End.HasEigenvector A (res.1.getD i 0) (res.2.getD i 0)) :=
  eigs_out_unit eigh A n max_iters v tol A_hermitian start_nonzero tol_nonneg cap_pos
    { size := eigh_contract_unit.1, pair := eigh_contract_unit.2.1,
      orthonormal := eigh_contract_unit.2.2 }

/-- the old statement is a corollary of the new one: under `eigh_contract_unit` the conclusion of
`C14_lanczos_eigs` is the first part of the conclusion of `C14_lanczos_eigs_unit`, and `eigh_contract_unit`
implies both `eigh_contract` and `eigh_contract_nonzero` (`EighUnit.toNonzero`) -/
example (eigh : Array (Array 𝕜) → Array 𝕜 × Array (Array 𝕜))
    (A : E →ₗ[𝕜] E) (A_hermitian : A.IsSymmetric) (n max_iters : ℕ) (v : E) (tol : ℝ)
    (start_nonzero : v ≠ 0) (tol_nonneg : 0 ≤ tol) (cap_pos : 1 ≤ min max_iters n)
    (eigh_contract_unit :
      let o := lanczosExact A n #[v] max_iters tol
      let e := eigh (tridiagDense (K := 𝕜) (o.alpha.getD 0 #[]) (o.beta.getD 0 #[]))
      e.1.size = o.iters ∧
      (∀ j a, j < o.iters → a < o.iters →
        ∑ c ∈ range o.iters, o.T 0 a c * (e.2.getD j #[]).getD c 0 =
          e.1.getD j 0 * (e.2.getD j #[]).getD a 0) ∧
      ∀ i j, i < o.iters → j < o.iters →
        ∑ c ∈ range o.iters, conj ((e.2.getD i #[]).getD c 0) * (e.2.getD j #[]).getD c 0 =
          if i = j then 1 else 0) :
    let o := lanczosExact A n #[v] max_iters tol
    let res := lanczosEigs (K := 𝕜) eigh (⇑A) n 0 v max_iters (tol : 𝕜)
    ∃ (idx : List ℕ) (θ : ℕ → 𝕜) (y : ℕ → ℕ → 𝕜) (x : ℕ → E),
      idx.Perm (List.range o.iters) ∧
      res.1.toList = idx.map θ ∧ res.2.toList = idx.map x ∧
      (idx.map θ).Pairwise (fun a b => RCLike.re a ≤ RCLike.re b) ∧
      ∀ j, j < o.iters →
        x j = ∑ c ∈ range o.iters, y j c • o.q 0 c ∧
        A (x j) - θ j • x j = y j (o.iters - 1) • o.resid A 0 := by
  intro o res
  obtain ⟨idx, θ, y, x, h1, h2, h3, h4, h5, _⟩ := C14_lanczos_eigs_unit eigh A A_hermitian n max_iters v
    tol start_nonzero tol_nonneg cap_pos eigh_contract_unit
  exact ⟨idx, θ, y, x, h1, h2, h3, h4, h5⟩

/-- **the whole hypothesis bundle of `C14_lanczos_eigs_unit` is witnessed on a 3 × 3 run**: for the symmetric,
non-diagonal `A = [[2,1,0],[1,2,1],[0,1,2]]`, `v = e₀` (grade 3), `n = 3`, `max_iters = 5`, `tol = 0` the model
returns `k = 3` columns and `T = A`; the exact eigensolver `eigh3` (values `2 - √2, 2, 2 + √2`, orthonormal
eigenvector columns `(1, -√2, 1)/2`, `(1, 0, -1)/√2`, `(1, √2, 1)/2`) satisfies `eigh_contract_unit` — hence
also `eigh_contract_nonzero` and `eigh_contract` — and all other hypotheses hold as well. -/
theorem C14_eigh_contract_unit_witness :
    (Matrix.toEuclideanLin exM3).IsSymmetric ∧ exv3 ≠ 0 ∧ (0 : ℝ) ≤ 0 ∧ 1 ≤ min 5 3 ∧
    (let o := lanczosExact (Matrix.toEuclideanLin exM3) 3 #[exv3] 5 0
     let e := eigh3 (tridiagDense (K := ℝ) (o.alpha.getD 0 #[]) (o.beta.getD 0 #[]))
     e.1.size = o.iters ∧
     (∀ j a, j < o.iters → a < o.iters →
       ∑ c ∈ range o.iters, o.T 0 a c * (e.2.getD j #[]).getD c 0 =
         e.1.getD j 0 * (e.2.getD j #[]).getD a 0) ∧
     ∀ i j, i < o.iters → j < o.iters →
       ∑ c ∈ range o.iters, conj ((e.2.getD i #[]).getD c 0) * (e.2.getD j #[]).getD c 0 =
         if i = j then 1 else 0) ∧
    (let o := lanczosExact (Matrix.toEuclideanLin exM3) 3 #[exv3] 5 0
     o.iters = 3 ∧ o.resid (Matrix.toEuclideanLin exM3) 0 = 0 ∧
     ∀ a c, a < 3 → c < 3 → o.T 0 a c = if a = c then 2 else if a = c + 1 ∨ c = a + 1 then 1 else 0) := by
  refine ⟨exM3_symm, exv3_ne, le_refl _, by decide,
    ⟨ex3_eigh_unit.size, ex3_eigh_unit.pair, ex3_eigh_unit.orthonormal⟩, ?_⟩
  obtain ⟨h1, _, _, _, _, h2, h3⟩ := ex3_run
  exact ⟨h1, h3, h2⟩

#print axioms C14_lanczos
#print axioms C14_lanczos_eigs
#print axioms C14_batch_partial
#print axioms C14_batch_clause_needed
#print axioms C14_double_gram_is_single
#print axioms C14_double_gram_noop
#print axioms C14_body_is_three_term
#print axioms C14_grade_exists
#print axioms C14_grade
#print axioms C14_relation
#print axioms C14_relation_matrix
#print axioms C14_batch_inputs
#print axioms C14_grade_witness
#print axioms C14_eigh_contract_witness
#print axioms C14_lanczos_eigs_nonzero
#print axioms C14_lanczos_eigs_unit
#print axioms C14_eigh_contract_unit_witness
