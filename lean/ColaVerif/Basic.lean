def hello := "world"
