import ColaVerif.Model.Op

/-!
# The dtype of an operator tree and of its products — SPECIFICATION side

`Op.dtype` (Model/Op.lean) mirrors what each constructor of `cola/ops/operators.py` computes
(`reduce(promote_types, …)` for Product / Sum / Kronecker / KronSum / BlockDiag / Concatenated,
the parent's dtype for the wrappers).  The specification below does not follow the constructors:
it collects the dtypes of the payload-carrying leaves of the tree and states the NumPy promotion
lattice on the four floating dtypes directly —

* the result is complex iff some contributing dtype is complex,
* it has double precision (float64 / complex128) iff some contributing dtype has.

`Op.mmDtype` is the code side of the result dtype of `A @ X`, `X @ A` (every `_matmat` /
`_rmatmat` ends in a NumPy product or an explicit `promote_types(self.dtype, X.dtype)` buffer),
`Op.mmDtypeSpec` its specification (the operand is one more contributing dtype).
`Lemmas/OpDtype.lean` proves that the two sides agree for every tree.
-/

namespace Op
variable {R : Type}

/-- the dtypes of the payload-carrying leaves of the tree, left to right -/
def leafDtypes : Op R → List DType
  | dense dt _ _ _ => [dt]
  | tri dt _ _ _ _ => [dt]
  | sparse dt _ _ _ => [dt]
  | scalar dt _ _ => [dt]
  | eye dt _ => [dt]
  | prod Ms => (Ms.map (·.leafDtypes)).flatten
  | sum Ms => (Ms.map (·.leafDtypes)).flatten
  | kron Ms => (Ms.map (·.leafDtypes)).flatten
  | kronsum Ms => (Ms.map (·.leafDtypes)).flatten
  | bdiag Ms _ => (Ms.map (·.leafDtypes)).flatten
  | diag dt _ _ => [dt]
  | tridiag dt _ _ _ _ => [dt]
  | transpose A => A.leafDtypes
  | adjoint A => A.leafDtypes
  | sliced A _ _ => A.leafDtypes
  | perm dt _ => [dt]
  | concat _ Ms => (Ms.map (·.leafDtypes)).flatten
  | house dt _ _ _ => [dt]
  | generic A => A.leafDtypes
  | annot _ A => A.leafDtypes

end Op

namespace DType

/-- NumPy's promotion of a collection of floating dtypes, stated on the lattice: complex iff some
member is complex, double precision iff some member is (the empty collection gives float32, the
bottom of the lattice — no constructor of cola accepts an empty member list) -/
def join (l : List DType) : DType := mk (l.any isComplex) (l.any isDouble)

end DType

namespace Op
variable {R : Type}

/-- **specification** of the operator's dtype: the join of its leaf dtypes -/
def dtypeSpec (A : Op R) : DType := DType.join A.leafDtypes

/-- code side: dtype of the array `A @ X` / `X @ A` for an operand of dtype `xdt`
(`promote_types(self.dtype, X.dtype)`) -/
def mmDtype (A : Op R) (xdt : DType) : DType := DType.promote A.dtype xdt

/-- **specification** of the result dtype of a product with an array: the operand's dtype is one
more contributing dtype -/
def mmDtypeSpec (A : Op R) (xdt : DType) : DType := DType.join (A.leafDtypes ++ [xdt])

end Op
