import ColaVerif.Model.Wf

/-!
# The code model of `cholesky(A)` and `plu(A)` (C11)

`cola/linalg/decompositions/decompositions.py:147-211`, rule by rule; the rule is selected by the
class of the operator (`Op.core`: declaration wrappers such as `cola.PSD(A)` do not change it):

```
cholesky(A: LinearOperator) = Triangular(xnp.cholesky(A.to_dense()), lower=True)
cholesky(A: Identity)       = A
cholesky(A: Diagonal|ScalarMul) = sqrt(A, Auto()) -> pow(A, 0.5) -> apply_unary(x ↦ x**0.5, A)
      Diagonal  -> Diagonal(A.diag ** 0.5)
      ScalarMul -> (A.c ** 0.5) * I_like(A)  =  Product(ScalarMul(√c), Identity)
cholesky(A: Kronecker)      = Kronecker(*[cholesky(Ai) for Ai in A.Ms])
cholesky(A: BlockDiag)      = BlockDiag(*[cholesky(Ai) ...], multiplicities=A.multiplicities)

plu(A: LinearOperator) = Permutation(p), Triangular(L, lower), Triangular(U, upper)
                          with p, L, U = scipy.linalg.lu(A.to_dense(), p_indices=True)
plu(A: Identity)       = A, A, A
plu(A: Diagonal|ScalarMul) = I_like(A), I_like(A), A      (fix 7421396; was (I, √A, √A): NaN for
                                                            negative entries under a real dtype)
plu(A: Kronecker)      = Kronecker(*P), Kronecker(*L), Kronecker(*U)   factor-wise
plu(A: BlockDiag)      = BlockDiag(*P, mults), BlockDiag(*L, mults), BlockDiag(*U, mults)
```

The numerical primitives are PARAMETERS (`DecompParams`): the element-wise square root
`x ** 0.5` of a scalar of a given dtype (`.error "nan"` models a NaN result: NumPy does not raise,
the returned operator carries NaN entries), the dense Cholesky factorisation (LAPACK `potrf`;
`none` = `LinAlgError`) and the dense pivoted LU (`scipy.linalg.lu(a, p_indices=True)`).
Their contracts are stated in `Lemmas/DecompOp.lean`; `Model/DecompExec.lean` gives the exact
Gaussian-rational instance the driver runs.
-/

namespace Op
variable {R : Type}

/-- the numerical primitives the rules call -/
structure DecompParams (R : Type) where
  /-- `x ** 0.5` for a scalar of dtype `dt`; `.error "nan"` = the result is NaN -/
  sqrtS : DType → R → Except String R
  /-- `np.linalg.cholesky(a)` for the `n × n` window of `a`; `none` = `LinAlgError` -/
  cholDense : Nat → MatF R → Option (MatF R)
  /-- `scipy.linalg.lu(a, p_indices=True)` for the `n × n` window of `a`: `(p, L, U)` -/
  luDense : Nat → MatF R → Option (List Nat × MatF R × MatF R)

/-- all results of a list comprehension, or `none` if one of them is not a value -/
def collectOk {α : Type} : List (Except String α) → Option (List α)
  | [] => some []
  | .ok x :: rest => (collectOk rest).map (x :: ·)
  | .error _ :: _ => none

/-- what a failing list comprehension reports: the first exception raised; a NaN result does not
raise, so it is reported only if nothing raised -/
def firstErr {α : Type} (l : List (Except String α)) : String :=
  ((l.filterMap (fun r => match r with
    | .error e => if e = "nan" then none else some e
    | .ok _ => none)).head?).getD "nan"

def seqE {α : Type} (l : List (Except String α)) : Except String (List α) :=
  match collectOk l with
  | some xs => .ok xs
  | none => .error (firstErr l)

/-- element-wise `d ** 0.5` of a vector of `n` entries -/
def sqrtVec [Zero R] (P : DecompParams R) (dt : DType) (n : Nat) (d : Nat → R) :
    Except String (Nat → R) :=
  match seqE ((List.range n).map (fun i => P.sqrtS dt (d i))) with
  | .ok xs => .ok (fun i => xs.getD i 0)
  | .error e => .error e

/-- `(c ** 0.5) * I_like(A)` = `Product(ScalarMul(c ** 0.5), Identity)` (cola/fns.py `mul`) -/
def sqrtScalarOp (dt : DType) (t : R) (n : Nat) : Op R := prod [scalar dt t n, eye dt n]

variable [CommRing R] [StarRing R] [DecidableEq R]

/-- the generic rule: dense Cholesky of `A.to_dense()` -/
def cholFallback (P : DecompParams R) (A : Op R) : Except String (Op R) :=
  if A.rows = A.cols then
    match P.cholDense A.rows A.td.f with
    | some L => .ok (tri A.dtype A.rows A.rows true L)
    | none => .error "linalg-error"
  else .error "linalg-error"

/-- `cholesky(A)` -/
def cholRule (P : DecompParams R) : Op R → Except String (Op R)
  | annot a A =>
      match A.core with
      | eye _ _ => .ok (annot a A)          -- `return A`: the declared object itself
      | _ => cholRule P A                   -- every other rule builds fresh operators
  | eye dt n => .ok (eye dt n)
  | diag dt n d =>
      match sqrtVec P dt n d with
      | .ok s => .ok (diag dt n s)
      | .error e => .error e
  | scalar dt c n =>
      match P.sqrtS dt c with
      | .ok t => .ok (sqrtScalarOp dt t n)
      | .error e => .error e
  | kron Ms =>
      match seqE (Ms.map (fun M => cholRule P M)) with
      | .ok Ls => .ok (kron Ls)
      | .error e => .error e
  | bdiag Ms mults =>
      match seqE (Ms.map (fun M => cholRule P M)) with
      | .ok Ls => .ok (bdiag Ls mults)
      | .error e => .error e
  | dense dt r c a => cholFallback P (dense dt r c a)
  | tri dt r c l a => cholFallback P (tri dt r c l a)
  | sparse dt r c e => cholFallback P (sparse dt r c e)
  | prod Ms => cholFallback P (prod Ms)
  | sum Ms => cholFallback P (sum Ms)
  | kronsum Ms => cholFallback P (kronsum Ms)
  | tridiag dt n al be ga => cholFallback P (tridiag dt n al be ga)
  | transpose A => cholFallback P (transpose A)
  | adjoint A => cholFallback P (adjoint A)
  | sliced A s0 s1 => cholFallback P (sliced A s0 s1)
  | perm dt p => cholFallback P (perm dt p)
  | concat ax Ms => cholFallback P (concat ax Ms)
  | house dt n v beta => cholFallback P (house dt n v beta)
  | generic A => cholFallback P (generic A)

/-- the generic rule: `Permutation(p), Triangular(L, lower=True), Triangular(U, lower=False)`;
`Permutation(p)` is built without a dtype and therefore is `float32` whatever `A.dtype` is -/
def pluFallback (P : DecompParams R) (A : Op R) : Except String (Op R × Op R × Op R) :=
  if A.rows = A.cols then
    match P.luDense A.rows A.td.f with
    | some (p, L, U) =>
        .ok (perm .f32 p, tri A.dtype A.rows A.rows true L, tri A.dtype A.rows A.rows false U)
    | none => .error "model-lu-failed"
  else .error "not-square"

/-- `plu(A)` -/
def pluRule (P : DecompParams R) : Op R → Except String (Op R × Op R × Op R)
  | annot a A =>
      match A.core with
      | eye _ _ => .ok (annot a A, annot a A, annot a A)
      -- `Id, Id, A`: the upper factor is the declared object itself
      | diag dt n _ => .ok (eye dt n, eye dt n, annot a A)
      | scalar dt _ n => .ok (eye dt n, eye dt n, annot a A)
      | _ => pluRule P A
  | eye dt n => .ok (eye dt n, eye dt n, eye dt n)
  | diag dt n d => .ok (eye dt n, eye dt n, diag dt n d)
  | scalar dt c n => .ok (eye dt n, eye dt n, scalar dt c n)
  | kron Ms =>
      match seqE (Ms.map (fun M => pluRule P M)) with
      | .ok Fs => .ok (kron (Fs.map (·.1)), kron (Fs.map (·.2.1)), kron (Fs.map (·.2.2)))
      | .error e => .error e
  | bdiag Ms mults =>
      match seqE (Ms.map (fun M => pluRule P M)) with
      | .ok Fs => .ok (bdiag (Fs.map (·.1)) mults, bdiag (Fs.map (·.2.1)) mults,
          bdiag (Fs.map (·.2.2)) mults)
      | .error e => .error e
  | dense dt r c a => pluFallback P (dense dt r c a)
  | tri dt r c l a => pluFallback P (tri dt r c l a)
  | sparse dt r c e => pluFallback P (sparse dt r c e)
  | prod Ms => pluFallback P (prod Ms)
  | sum Ms => pluFallback P (sum Ms)
  | kronsum Ms => pluFallback P (kronsum Ms)
  | tridiag dt n al be ga => pluFallback P (tridiag dt n al be ga)
  | transpose A => pluFallback P (transpose A)
  | adjoint A => pluFallback P (adjoint A)
  | sliced A s0 s1 => pluFallback P (sliced A s0 s1)
  | perm dt p => pluFallback P (perm dt p)
  | concat ax Ms => pluFallback P (concat ax Ms)
  | house dt n v beta => pluFallback P (house dt n v beta)
  | generic A => pluFallback P (generic A)

/-! ## "the factors keep the structure of the input" -/

/-- kind trees (class names and sizes only, no payload) -/
inductive Skel where
  | eye (n : Nat)
  | diag (n : Nat)
  | scalar (n : Nat)
  /-- `Product(ScalarMul, Identity)`: what `c * I_like(A)` builds -/
  | scalarEye (n : Nat)
  | kron (l : List Skel)
  | bdiag (l : List Skel) (mults : List Nat)
  | tri (lower : Bool) (n : Nat)
  | perm (n : Nat)
  | other

/-- the kind tree of an operator (declaration wrappers are not nodes) -/
def skelOf : Op R → Skel
  | annot _ A => skelOf A
  | eye _ n => .eye n
  | diag _ n _ => .diag n
  | scalar _ _ n => .scalar n
  | prod Ms =>
      match Ms with
      | [scalar _ _ n, eye _ n'] => if n = n' then .scalarEye n else .other
      | _ => .other
  | kron Ms => .kron (Ms.map (fun M => skelOf M))
  | bdiag Ms mults => .bdiag (Ms.map (fun M => skelOf M)) mults
  | tri _ r _ l _ => .tri l r
  | perm _ p => .perm p.length
  | _ => .other

/-- the kind tree the structural rules promise for the Cholesky factor of the input `A`:
Identity ↦ Identity, Diagonal ↦ Diagonal of the same size, ScalarMul ↦ scalar · Identity,
Kronecker ↦ Kronecker factor-wise, BlockDiag ↦ BlockDiag block-wise with the SAME
multiplicities; every other class ↦ one `Triangular` with the flag `lower` -/
def promisedSkel (lower : Bool) : Op R → Skel
  | annot _ A => promisedSkel lower A
  | eye _ n => .eye n
  | diag _ n _ => .diag n
  | scalar _ _ n => .scalarEye n
  | kron Ms => .kron (Ms.map (fun M => promisedSkel lower M))
  | bdiag Ms mults => .bdiag (Ms.map (fun M => promisedSkel lower M)) mults
  | A => .tri lower A.rows

/-- the kind tree promised for the lower factor of `plu`: Identity on every structured leaf -/
def promisedLSkel : Op R → Skel
  | annot _ A => promisedLSkel A
  | eye _ n => .eye n
  | diag _ n _ => .eye n
  | scalar _ _ n => .eye n
  | kron Ms => .kron (Ms.map (fun M => promisedLSkel M))
  | bdiag Ms mults => .bdiag (Ms.map (fun M => promisedLSkel M)) mults
  | A => .tri true A.rows

/-- the kind tree promised for the upper factor of `plu`: a structured leaf is its own upper
factor -/
def promisedUSkel : Op R → Skel
  | annot _ A => promisedUSkel A
  | eye _ n => .eye n
  | diag _ n _ => .diag n
  | scalar _ _ n => .scalar n
  | kron Ms => .kron (Ms.map (fun M => promisedUSkel M))
  | bdiag Ms mults => .bdiag (Ms.map (fun M => promisedUSkel M)) mults
  | A => .tri false A.rows

/-- the kind tree promised for the permutation factor of `plu` -/
def promisedPermSkel : Op R → Skel
  | annot _ A => promisedPermSkel A
  | eye _ n => .eye n
  | diag _ n _ => .eye n
  | scalar _ _ n => .eye n
  | kron Ms => .kron (Ms.map (fun M => promisedPermSkel M))
  | bdiag Ms mults => .bdiag (Ms.map (fun M => promisedPermSkel M)) mults
  | A => .perm A.rows

/-- the tree contains no dense array (`Dense` / `Triangular` / `Sparse`) -/
def denseFree : Op R → Bool
  | eye .. => true
  | scalar .. => true
  | diag .. => true
  | perm .. => true
  | prod Ms => (Ms.map (·.denseFree)).all id
  | kron Ms => (Ms.map (·.denseFree)).all id
  | bdiag Ms _ => (Ms.map (·.denseFree)).all id
  | annot _ A => A.denseFree
  | _ => false

/-- the tree is built from the structured kinds only, so that no rule falls back to a dense
factorisation: Identity, Diagonal, ScalarMul, Kronecker, BlockDiag (and declarations) -/
def structOnly : Op R → Bool
  | eye .. => true
  | scalar .. => true
  | diag .. => true
  | kron Ms => (Ms.map (·.structOnly)).all id
  | bdiag Ms _ => (Ms.map (·.structOnly)).all id
  | annot _ A => A.structOnly
  | _ => false

end Op
