import ColaVerif.Model.Expr

/-!
# `svd` and `pinv` (C16): selection / assembly logic and rule selection

Code model of `cola/linalg/svd/svd.py`, `cola/linalg/inverse/pinv.py` and
`cola/linalg/decompositions/decompositions.py:get_slice`.

What is modelled (executable, exact over any `[CommRing R] [StarRing R]`):
* `getSlice`, `positions` — `get_slice(k, which)` and the positions `np.arange(n)[slice]` it selects;
* `argsort` — `xnp.argsort(·, axis=-1)` (ascending; insertion sort, stable);
* `svdRule` — which rule the dispatcher ends in (class of the operator through `Op.core`, then the
  class of the algorithm; `Auto` decides by `prod(shape) <= 1e6`);
* `svdDense` — `DenseSVD`: `xnp.svd(A.to_dense(), full_matrices=True)`, `idx = argsort(Sigma)`,
  `U[:, idx]`, `Sigma[idx]`, `V[:, idx]` (`idx` has `min(m, n)` entries, so the factors are thin);
* `svdKrylov` — `Lanczos` / `LOBPCG`: which Gram operator is built (`A.H @ A` when `n <= m`, else
  `A @ A.H`; LOBPCG always `A.H @ A`), `V[:, eig_slice]`, `sqrt(eig_vals[eig_slice])`, and the
  back-substitution `U = (A @ V @ inv(Sigma)).to_dense()` /
  `V = ((inv(Sigma) @ U.H @ A).to_dense()).conj().T` as operator products (`Ex.dotRule`) whose
  `to_dense` is the code model `Op.td`; `backsubU` / `backsubV` are the same formulas as matrix
  expressions (the SPEC side of the driver, and what `Lemmas/SvdBridge.lean` turns into Mathlib
  matrices);
* `svdIdentity`, `svdDiagonal` — the structural rules (`Diagonal`: magnitudes as `Sigma`, phases in `U`);
* `pinvStructural`, `pinvCG`, `pinv` — rule selection of `pinv` and the operator each rule builds
  (`LSTSQSolve(A)`; `PSD(IterativeOperatorWInfo(A.H @ A, CG) + cons * I) @ A.H` with
  `cons = get_precision(dtype) * max(shape)` — the regulariser is added to the INVERSE, it is not a
  Tikhonov term inside the solve; reciprocal rules for Identity / ScalarMul / Diagonal /
  Permutation).

* `lstsqApply` — what `LSTSQSolve(A) @ B` computes (`xnp.lstsq(A.to_dense(), B)`; the solver is a
  parameter with the contract `lstsq_contract` of `C16_pinv_lstsq`);
* `lobpcgClauses` — the named clause (recorded finding `lobpcg-k-ge-n`) of the `LOBPCG` path; `sigmaDt` — the dtype of
  `Sigma` (`lanczos_eigs`: real eigenvalues of `eigh(T)`; `lobpcg`: cast to `A.dtype`);
* `KrylovOut.lazyBack` — the lazy product whose `to_dense()` the Krylov rules take
  (`Lemmas/SvdLink.lean` proves that `to_dense` of it IS the matrix formula: `C16_svd_krylov_link`).

PARAMETERS (`Params`): LAPACK `svd`, `lanczos_eigs` / `lobpcg` on the Gram operator, `sqrt`, `abs`,
the reciprocal, the order on real scalars, the table of `get_precision`.  Their contracts are hypotheses of the
theorems in `Properties/C16.lean`.
-/

namespace Svd

/-! ## selection -/

inductive Which | LM | SM | other
deriving DecidableEq, Repr, Inhabited

/-- `get_slice(num, which)` (`num` is an `int` by the signature of `svd`) -/
def getSlice (k : Int) (w : Which) : Except String Ix :=
  if k = -1 then .error "error:ValueError"
  else match w with
    | .SM => .ok (.slice (some 0) (some k) none)
    | .LM => .ok (.slice (some (-k)) none none)
    | .other => .error "not-implemented"

/-- positions selected from an array of length `n` by `get_slice(k, which)` -/
def positions (n : Nat) (k : Int) (w : Which) : Except String (List Nat) :=
  match getSlice k w with
  | .error e => .error e
  | .ok sl =>
    match Ix.resolve n sl with
    | some l => .ok l
    | none => .error "index-error"

section sort
variable {α : Type}

/-- insertion of index `j` into a list of indices ascending by key (behind equal keys) -/
def insertIdx (lt : α → α → Bool) (key : Nat → α) (j : Nat) : List Nat → List Nat
  | [] => [j]
  | k :: ks => if lt (key j) (key k) then j :: k :: ks else k :: insertIdx lt key j ks

/-- `argsort(key[0..n))`, ascending -/
def argsort (lt : α → α → Bool) (n : Nat) (key : Nat → α) : List Nat :=
  (List.range n).foldl (fun acc j => insertIdx lt key j acc) []

end sort

variable {R : Type}

/-- `A[:, idx]` -/
def selCols (A : MatF R) (idx : List Nat) : MatF R := fun i j => A i (idx.getD j 0)
/-- `v[idx]` -/
def selVec (v : Nat → R) (idx : List Nat) : Nat → R := fun j => v (idx.getD j 0)

/-- the dtype of the singular values LAPACK / `eigh` return -/
def realDt : DType → DType
  | .c64 => .f32
  | .c128 => .f64
  | d => d

/-! ## parameters -/

/-- `xnp.svd(·, full_matrices=True)`: `U` is `m × m`, `s` has `min(m, n)` entries, `V` is `n × n`
(the backend already returns `V = VH.T.conj()`) -/
structure SvdFull (R : Type) where
  U : MatF R
  s : Nat → R
  V : MatF R

/-- `lanczos_eigs(G, …)` / `lobpcg(G, …)`: eigenvalue approximations (ascending) and the operator
of the eigenvector approximations (`W.cols` of them) -/
structure Eigs (R : Type) where
  vals : Nat → R
  W : Op R

structure Params (R : Type) where
  lapackSvd : Nat → Nat → MatF R → SvdFull R
  lanczosEigs : Op R → Eigs R
  /-- `lobpcg(G, max_iters, largest)`: the first argument is `largest` (the rule passes `which == "LM"`) -/
  lobpcgEigs : Bool → Op R → Eigs R
  sqrt : R → R
  inv : R → R
  /-- `a < b` on real scalars -/
  lt : R → R → Bool
  /-- real part (what storing a scalar into a real array keeps) -/
  re : R → R
  /-- `xnp.abs` (modulus, as a scalar of the same type) -/
  abs : R → R
  /-- `get_precision(xnp, dtype)`: 1e-6 for float32 / complex64, 1e-15 for float64 / complex128 -/
  precision : DType → R

/-! ## svd -/

structure Triple (R : Type) where
  U : Op R
  S : Op R
  V : Op R

inductive Alg | omitted | auto | dense | lanczos | lobpcg
deriving DecidableEq, Repr, Inhabited

inductive Rule | identity | diagonal | dense | lanczos | lobpcg
deriving DecidableEq, Repr, Inhabited

def Rule.toString : Rule → String
  | .identity => "identity" | .diagonal => "diagonal" | .dense => "dense"
  | .lanczos => "lanczos" | .lobpcg => "lobpcg"

/-- `np.prod(A.shape) <= 1e6` -/
def small (rows cols : Nat) : Bool := rows * cols ≤ 1000000

/-- the rule `svd(A, k, which, alg)` ends in -/
def svdRule (A : Op R) (alg : Alg) : Rule :=
  match A.core with
  | .eye .. => .identity
  | .diag .. => .diagonal
  | _ =>
    match alg with
    | .omitted => if small A.rows A.cols then .dense else .lanczos
    | .auto => if small A.rows A.cols then .dense else .lanczos
    | .dense => .dense
    | .lanczos => .lanczos
    | .lobpcg => .lobpcg

/-- `Orthonormal(obj)`: `Unitary` if square else `Stiefel` -/
def orthonormal (A : Op R) : Op R :=
  if A.rows = A.cols then .annot .unitary A else .annot .stiefel A

variable [CommRing R] [StarRing R] [DecidableEq R]

/-- `svd(A: Identity, …)` -/
def svdIdentity (A : Op R) : Triple R :=
  ⟨.annot .unitary (.eye A.dtype A.rows), .diag A.dtype A.rows (fun _ => 1),
   .annot .unitary (.eye A.dtype A.rows)⟩

/-- `svd(A: Diagonal, …)`: the singular values are the magnitudes `abs(diag)` (cast back to the
operator's dtype), the signs / phases go into the left factor
`phase = where(mag > 0, diag / where(mag > 0, mag, 1), 1)`, `V = I` -/
def svdDiagonal (P : Params R) (A : Op R) : Triple R :=
  match A.core with
  | .diag _ n d =>
      let mag : Nat → R := fun i => P.abs (d i)
      let phase : Nat → R := fun i => if mag i = 0 then 1 else d i * P.inv (mag i)
      ⟨.annot .unitary (.diag A.dtype n phase), .diag A.dtype n mag,
       .annot .unitary (.eye A.dtype A.rows)⟩
  | _ => ⟨A, A, A⟩   -- not reached: the rule is selected for `Diagonal` only

/-- `DenseSVD` -/
def svdDense (P : Params R) (A : Op R) : List Nat × Triple R :=
  let m := A.rows
  let n := A.cols
  let r := min m n
  let D := A.td
  let o := P.lapackSvd m n D.f
  let idx := argsort P.lt r o.s
  let U := forceV m r (selCols o.U idx)
  let V := forceV n r (selCols o.V idx)
  (idx, ⟨orthonormal (.dense A.dtype m r U.f), .diag (realDt A.dtype) r (selVec o.s idx),
    orthonormal (.dense A.dtype n r V.f)⟩)

def asOp : Except String (Val R) → Except String (Op R)
  | .ok (.op A) => .ok A
  | .ok (.arr ..) => .error "unsupported"
  | .error e => .error e

/-- `X[:, sl]` on an operator -/
def sliceCols (X : Op R) (sl : Ix) : Except String (Op R) :=
  match X.getitem [.ix Op.fullSlice, .ix sl] with
  | .op B => .ok B
  | .err e => .error e
  | _ => .error "unsupported"

/-- `U = A V Σ⁻¹` as a matrix expression (`A : m × n`, `V : n × k`) -/
def backsubU (n k : Nat) (A V : MatF R) (sinv : Nat → R) : MatF R :=
  mmul k (mmul n A V) (diagM sinv)

/-- `V = (Σ⁻¹ Uᴴ A)ᴴ` as a matrix expression (`A : m × n`, `U : m × k`) -/
def backsubV (m k : Nat) (A U : MatF R) (sinv : Nat → R) : MatF R :=
  conjM (transposeM (mmul m (mmul k (diagM sinv) (conjM (transposeM U))) A))

/-- trace of the Krylov rules -/
structure KrylovOut (R : Type) where
  /-- the Gram operator is `A.H @ A` (else `A @ A.H`) -/
  tall : Bool
  G : Op R
  /-- number of eigenpairs the eigensolver returned -/
  j : Nat
  pos : List Nat
  triple : Triple R
  /-- the back-substituted factor by the formula, on the represented matrices -/
  specBack : MatV R
  /-- the lazy product whose `to_dense()` the rule takes: `A @ V @ inv(Sigma)` resp.
  `inv(Sigma) @ U.H @ A` -/
  lazyBack : Op R

/-- dtype of `Sigma` in the Krylov rules: `lanczos_eigs` returns the (real) eigenvalues of `eigh(T)`;
`lobpcg` (`lobpcgRule = true`) casts its eigenvalues to `A.dtype` -/
def sigmaDt (lobpcgRule : Bool) (dt : DType) : DType :=
  match lobpcgRule with
  | true => dt
  | false => realDt dt

/-- the Krylov rules (`Lanczos`; `LOBPCG` = always the `A.H @ A` branch) -/
def svdKrylov (P : Params R) (eigs : Op R → Eigs R) (forceTall : Bool) (A : Op R) (k : Int)
    (w : Which) : Except String (KrylovOut R) := do
  let sl ← getSlice k w
  let dtR := sigmaDt forceTall A.dtype
  if forceTall || A.cols ≤ A.rows then
    let G ← asOp (Ex.dotRule A.adjointRule A)
    let e := eigs G
    let V0 ← sliceCols e.W sl
    let V := orthonormal V0
    let pos := (Ix.resolve e.W.cols sl).getD []
    let kk := pos.length
    let sig : Nat → R := fun t => P.sqrt (e.vals (pos.getD t 0))
    let sinv : Nat → R := fun t => P.inv (sig t)
    let AV ← asOp (Ex.dotRule A V)
    let Pr ← asOp (Ex.dotRule AV (.diag dtR kk sinv))
    let D := Pr.td
    let U := orthonormal (.dense Pr.dtype Pr.rows Pr.cols D.f)
    let spec := forceV A.rows kk (backsubU A.cols kk A.den.f V.den.f sinv)
    pure ⟨true, G, e.W.cols, pos, ⟨U, .diag dtR kk sig, V⟩, spec, Pr⟩
  else
    let G ← asOp (Ex.dotRule A A.adjointRule)
    let e := eigs G
    let U0 ← sliceCols e.W sl
    let U := orthonormal U0
    let pos := (Ix.resolve e.W.cols sl).getD []
    let kk := pos.length
    let sig : Nat → R := fun t => P.sqrt (e.vals (pos.getD t 0))
    let sinv : Nat → R := fun t => P.inv (sig t)
    let SU ← asOp (Ex.dotRule (.diag dtR kk sinv) U.adjointRule)
    let Pr ← asOp (Ex.dotRule SU A)
    let D := Pr.td
    let Vm := forceV Pr.cols Pr.rows (conjM (transposeM D.f))
    let V := orthonormal (.dense Pr.dtype Pr.cols Pr.rows Vm.f)
    let spec := forceV A.cols kk (backsubV A.rows kk A.den.f U.den.f sinv)
    pure ⟨false, G, e.W.cols, pos, ⟨U, .diag dtR kk sig, V⟩, spec, Pr⟩

/-- Named clause of the `LOBPCG` rule (recorded in `known_findings.json`; the eigensolver is a PARAMETER
of the model, this is the argument class on which the real eigensolver cannot meet the request):
`lobpcg-k-ge-n` — `lobpcg` holds `min(n - 1, max_iters)` eigenpairs of the `n × n` Gram operator, so
`k ≥ n` returns fewer than `k` triplets (pinned by the test-suite of /repo).
(The former clauses `lobpcg-complex-operator` and `lobpcg-sm-not-smallest` were repaired in /repo
7c689b5: complex work dtype, `largest = (which == "LM")`.) -/
def lobpcgClauses (A : Op R) (k : Int) : List String :=
  if (A.cols : Int) ≤ k then ["lobpcg-k-ge-n"] else []

/-- `svd(A, k, which, alg)` -/
def svd (P : Params R) (A : Op R) (k : Int) (w : Which) (alg : Alg) : Except String (Triple R) :=
  match svdRule A alg with
  | .identity => .ok (svdIdentity A)
  | .diagonal => .ok (svdDiagonal P A)
  | .dense => .ok (svdDense P A).2
  | .lanczos => (svdKrylov P P.lanczosEigs false A k w).map (·.triple)
  | .lobpcg => (svdKrylov P (P.lobpcgEigs (match w with | .LM => true | _ => false)) true A k w).map (·.triple)

/-! ## pinv -/

inductive PAlg | omitted | auto | lstsq | cg
deriving DecidableEq, Repr, Inhabited

/-- `argsort(perm)` -/
def argsortNat (p : List Nat) : List Nat :=
  argsort (fun a b => decide (a < b)) p.length (fun t => p.getD t 0)

/-- the reciprocal rules (`Identity` returns the operator itself) -/
def pinvStructural (inv : R → R) (A : Op R) : Option (Op R) :=
  match A.core with
  | .eye .. => some A
  | .scalar dt c n => some (.scalar dt (inv c) n)
  | .diag dt n d => some (.diag dt n (fun i => inv (d i)))
  | .perm dt p => some (.perm dt (argsortNat p))
  | _ => none

/-- `PSD(IterativeOperatorWInfo(M, CG) + reg) @ A.H`: the members of the outer product after the
PSD-declared sum (`dot` flattens a `Product` on the right and drops an `Identity`) -/
structure CgPinv (R : Type) where
  /-- `M = A.H @ A`, the operand of `IterativeOperatorWInfo(M, alg)` -/
  M : Op R
  /-- `cons`, the scalar of the regulariser -/
  cons : R
  /-- `cons * I_like(M)` -/
  reg : Op R
  /-- `A.H` -/
  AH : Op R
  /-- members of the outer `Product` behind the sum (empty: the sum itself is returned) -/
  tail : List (Op R)

inductive PinvOut (R : Type) where
  | op (B : Op R)
  | lstsq (A : Op R)
  | cg (c : CgPinv R)
  | err (e : String)

/-- `pinv(A, alg: CG)` -/
def pinvCG (P : Params R) (A : Op R) : PinvOut R :=
  let AH := A.adjointRule
  match asOp (Ex.dotRule AH A) with
  | .error e => .err e
  | .ok M =>
    let cons : R := P.precision A.dtype * ((max A.rows A.cols : Nat) : R)
    match asOp (Ex.mulRule P.re (.eye M.dtype M.rows) ⟨cons, 0, .pyfloat, false⟩) with
    | .error e => .err e
    | .ok reg =>
      if M.rows != M.cols || M.cols != AH.rows then .err "error:AssertionError" else
      -- `dot` drops an `Identity` right operand only when the left operand already has the promoted
      -- dtype (/repo 9457777); here it always has: the sum's dtype is that of `M = A.H @ A`, i.e. of `A.H`
      let tail := if Ex.isIdentity AH then [] else (Ex.prodMembers AH).getD [AH]
      .cg ⟨M, cons, reg, AH, tail⟩

inductive PRule | structural | lstsq | cg
deriving DecidableEq, Repr, Inhabited

def pinvRule (A : Op R) (alg : PAlg) : PRule :=
  match A.core with
  | .eye .. => .structural
  | .scalar .. => .structural
  | .diag .. => .structural
  | .perm .. => .structural
  | _ =>
    match alg with
    | .omitted => if small A.rows A.cols then .lstsq else .cg
    | .auto => if small A.rows A.cols then .lstsq else .cg
    | .lstsq => .lstsq
    | .cg => .cg

/-- `pinv(A, alg)` -/
def pinv (P : Params R) (A : Op R) (alg : PAlg) : PinvOut R :=
  match pinvRule A alg with
  | .structural =>
    match pinvStructural P.inv A with
    | some B => .op B
    | none => .err "unreachable"
  | .lstsq => .lstsq A
  | .cg => pinvCG P A

/-- what the LSTSQ rule computes on a right-hand side `B` (`rows × nb`): `LSTSQSolve.__init__` stores
`A.to_dense()`, `_matmat(X) = xnp.lstsq(self.A, X)`.  `lstsq m n M nb B` is the PARAMETER
`np.linalg.lstsq(M, B, rcond=None)[0]` (`M : m × n`, `B : m × nb`, result `n × nb`); its contract
(hypothesis `lstsq_contract` of `C16_pinv_lstsq`): every column of the result is the minimum-norm
least-squares solution for the corresponding column of `B`. -/
def lstsqApply (lstsq : Nat → Nat → MatF R → Nat → MatF R → MatF R) (A : Op R) (nb : Nat)
    (B : MatF R) : MatF R :=
  lstsq A.rows A.cols A.td.f nb B

/-- what the CG rule computes on a right-hand side `B` (`rows × b`), given the solver:
`cg(M, A.H B) + cons · (A.H B)` -/
def cgPinvApply (solve : MatF R → MatF R) (n rows b : Nat) (AH : MatF R) (cons : R) (B : MatF R) :
    MatF R :=
  let rhs := forceV n b (mmul rows AH B)
  let x := solve rhs.f
  addM x (smulM cons rhs.f)

end Svd
