import ColaVerif.Model.Wf

/-!
# Code model of `cola.linalg.slogdet` / `logdet` (`cola/linalg/logdet/logdet.py`)

`slogdet(A, log_alg, trace_alg)` returns a pair `(sign, logabs)`.  Every rule of the file builds
its pair from a handful of operations on pairs (products of signs / sums of logs, powers /
multiples, `sign * conj(sign)` / `2 * logdet`, phase / log-magnitude of one entry, …).  The model
is written ONCE over an abstract record `SLOps` of exactly these operations, and instantiated
twice:

* `detOps`  (this file, executable, any commutative star ring — the drivers use ℚ[i]):
  a pair is represented by the number `sign * exp(logabs)` it stands for, so the model computes
  the *claimed determinant* exactly (a product of natural powers);
* `slOps`   (`Lemmas/LogDetSL.lean`, over `ℝ`/`ℂ`): the pair itself, with the arithmetic of the
  Python code (`z / |z|`, `log |z|`, `s ** k`, `l * k`, `exp(t - Re t)`, …).

`Lemmas/LogDetSL.lean` proves that evaluation `(s, l) ↦ s * exp l` maps the second instance to the
first (so the same recursion, rule selection included, is what both compute), and
`Lemmas/LogDetDet.lean` that the first is `Matrix.det` of the represented matrix.

Rule selection is the dispatcher's: the class of the operator (`annot` wrappers do not change
it); the `Product` rule only if all factors are square; every other class goes to the base
cases, selected by `log_alg` (`Auto` resolved from the PSD annotation and the size).  The
numerical kernels of the base cases (`xnp.cholesky`, `xnp.lu`, and the whole
`trace(log(A, Lanczos|Arnoldi), trace_alg)` pipeline) are PARAMETERS (`DetKernels`) with
contracts stated in the theorems.
-/

namespace Op

/-- `log_alg` -/
inductive LogAlg | auto | chol | lu | lanczos | arnoldi
deriving DecidableEq, Repr, Inhabited

/-- `trace_alg` (deterministic choices: `Auto()` resolves to `Exact()` below ~3·10⁵ rows) -/
inductive TraceAlg | auto | exact
deriving DecidableEq, Repr, Inhabited

/-- the operations the rules of logdet.py perform on `(sign, logabs)` pairs (`V`), on entries of
the operator (`R`) and on the Krylov trace `tr log A` (`T`) -/
structure SLOps (R T V : Type) where
  /-- Identity rule: `(1. + zero, zero)` -/
  one : V
  /-- one diagonal entry: `(z / |z|, log |z|)` (Diagonal, Triangular) -/
  entry : R → V
  /-- `(s * s', l + l')` (`product(signs)`, `sum(logdets)`, `xnp.prod(phase)`, `xnp.sum(log(mag))`) -/
  mul : V → V → V
  /-- `(s ** k, l * k)` (Kronecker `prod / sizes[i]`, BlockDiag multiplicities) -/
  pow : V → Nat → V
  /-- ScalarMul rule: `((c / |c|) ** n, n * log |c|)` -/
  scalarPow : R → Nat → V
  /-- Permutation rule: `(1. | -1., 0)` from the parity (`true` = even) -/
  parity : Bool → V
  /-- Cholesky rule: `(s * conj(s), 2 * l)` -/
  cholComb : V → V
  /-- Lanczos | Arnoldi rule from `t = tr log A`: `(exp(t - Re t), Re t)` -/
  ofTrLog : T → V

/-- numerical kernels of the base cases -/
structure DetKernels (R T : Type) where
  /-- `xnp.cholesky(A.to_dense())` (LinAlgError → error) -/
  chol : Nat → MatF R → Except String (MatF R)
  /-- `xnp.lu(A.to_dense())` = scipy `lu(a, p_indices=True)`: `(p, L, U)` with `A = L[p] @ U` -/
  lu : Nat → MatF R → Except String (List Nat × MatF R × MatF R)
  /-- `trace(log(A, log_alg), trace_alg)` (works through `A @ ·`, hence takes the operator;
  the `assert A.isa(SelfAdjoint)` of the Lanczos path is inside) -/
  trlog : LogAlg → TraceAlg → Op R → Except String T

/-! ## the cycle count of the Permutation rule

```
seen, cycles = [False] * len(perm), 0
for start in range(len(perm)):
    if not seen[start]:
        cycles += 1
        j = start
        while not seen[j]:
            seen[j] = True
            j = perm[j]
sign = 1. if (len(perm) - cycles) % 2 == 0 else -1.
```
`seen` is kept as the list of marked positions; the `while` loop gets `len(perm) + 1` units of
fuel (it marks a new position in every round, so it never runs out — proved in
`Lemmas/LogDetPerm.lean`). -/

/-- the `while not seen[j]` loop -/
def permWalk (p : List Nat) : Nat → Nat → List Nat → List Nat
  | 0, _, seen => seen
  | fuel + 1, j, seen =>
      if seen.contains j then seen else permWalk p fuel (p.getD j 0) (j :: seen)

/-- the `for start in range(len(perm))` loop; state = (seen, cycles) -/
def permLoop (p : List Nat) : List Nat → List Nat → Nat → Nat
  | [], _, cycles => cycles
  | start :: rest, seen, cycles =>
      if seen.contains start then permLoop p rest seen cycles
      else permLoop p rest (permWalk p (p.length + 1) start seen) (cycles + 1)

def permCycles (p : List Nat) : Nat := permLoop p (List.range p.length) [] 0

/-- `(len(perm) - cycles) % 2 == 0` -/
def permEven (p : List Nat) : Bool := (p.length - permCycles p) % 2 == 0

/-! ## the rules -/

section
variable {R T V : Type}

/-- `product(xs)` on signs together with Python's `sum(xs)` on logs (both left folds from the
neutral element) -/
def SLOps.mulAll (ops : SLOps R T V) (vs : List V) : V := vs.foldl ops.mul ops.one

/-- `(xnp.prod(phase), xnp.sum(xnp.log(mag)))` for the first `n` diagonal entries of `a` -/
def SLOps.diagFold (ops : SLOps R T V) (n : Nat) (d : Nat → R) : V :=
  ops.mulAll ((List.range n).map (fun i => ops.entry (d i)))

/-- list comprehension `[slogdet(Ai, …) for Ai in A.Ms]`: the first exception propagates -/
def allOk : List (Except String V) → Except String (List V)
  | [] => .ok []
  | .ok v :: rest => (allOk rest).map (v :: ·)
  | .error e :: _ => .error e

variable [CommRing R] [StarRing R] [DecidableEq R]

/-- the `Auto` base rule: `is_PSD = A.isa(PSD)`, `small = np.prod(A.shape) <= 1e6` -/
def resolveAuto (la : LogAlg) (A : Op R) : LogAlg :=
  match la with
  | .auto =>
      let psd := A.isa .psd
      let small := decide (A.rows * A.cols ≤ 1000000)
      if psd && small then .chol
      else if !psd && small then .lu
      else if psd then .lanczos
      else .arnoldi
  | a => a

/-- the base cases (`precedence=-1` rules for `LinearOperator`) -/
def slogdetBase (ops : SLOps R T V) (K : DetKernels R T) (la : LogAlg) (ta : TraceAlg)
    (A : Op R) : Except String V :=
  if A.rows != A.cols then .error "nonsquare" else
  match resolveAuto la A with
  | .chol =>
      -- assert A.isa(PSD); L = cholesky(A); sign, logdet = slogdet(L) (Triangular rule);
      -- return sign * conj(sign), 2 * logdet
      if !A.isa .psd then .error "assert" else
        (K.chol A.rows A.td.f).map (fun L => ops.cholComb (ops.diagFold A.rows (fun i => L i i)))
  | .lu =>
      -- P, L, U = plu(A); slogdet(P @ L @ U): Product rule over Permutation, Triangular, Triangular
      (K.lu A.rows A.td.f).map (fun plu =>
        ops.mulAll [ops.parity (permEven plu.1), ops.diagFold A.rows (fun i => plu.2.1 i i),
          ops.diagFold A.rows (fun i => plu.2.2 i i)])
  | .auto => .error "unreachable"
  | la' =>
      -- trlogA = trace(log(A, log_alg), trace_alg); logabs = trlogA.real; phase = exp(trlogA - logabs)
      (K.trlog la' ta A).map ops.ofTrLog

/-- `slogdet` on the object `top` whose declaration wrappers have been peeled down to the second
argument (the class of `top`) -/
def slogdetAt (ops : SLOps R T V) (K : DetKernels R T) (la : LogAlg) (ta : TraceAlg)
    (top : Op R) : Op R → Except String V
  | annot _ A => slogdetAt ops K la ta top A
  | prod Ms =>
      -- cond: all factors square
      if (Ms.map (fun M => M.rows == M.cols)).all id then
        (allOk (Ms.map (fun M => slogdetAt ops K la ta M M))).map ops.mulAll
      else slogdetBase ops K la ta top
  | eye _ _ => .ok ops.one
  | scalar _ c n => .ok (ops.scalarPow c n)
  | diag _ n d => .ok (ops.diagFold n d)
  | kron Ms =>
      -- sizes = [Ai.shape[-1]]; prod = product(sizes); logdets[i] * prod / sizes[i]; signs[i] ** (prod / sizes[i])
      match allOk (Ms.map (fun M => slogdetAt ops K la ta M M)) with
      | .error e => .error e
      | .ok vs =>
        if (Ms.map (fun M => M.cols == 0)).any id then .error "zero-division"
        else .ok (ops.mulAll (List.zipWith (fun v s => ops.pow v ((Ms.map (·.cols)).prod / s)) vs (Ms.map (·.cols))))
  | bdiag Ms mults =>
      (allOk (Ms.map (fun M => slogdetAt ops K la ta M M))).map
        (fun vs => ops.mulAll (List.zipWith ops.pow vs mults))
  | tri _ r c _ a => .ok (ops.diagFold (min r c) (fun i => a i i))
  | perm _ p => .ok (ops.parity (permEven p))
  | _ => slogdetBase ops K la ta top

/-- `cola.linalg.slogdet(A, log_alg, trace_alg)` -/
def slogdetG (ops : SLOps R T V) (K : DetKernels R T) (la : LogAlg) (ta : TraceAlg) (A : Op R) :
    Except String V := slogdetAt ops K la ta A A

/-- pairs represented by the number they stand for: the rules then compute the claimed
determinant -/
def detOps : SLOps R R R where
  one := 1
  entry := id
  mul := (· * ·)
  pow := (· ^ ·)
  scalarPow := fun c n => c ^ n
  parity := fun b => if b then 1 else -1
  cholComb := fun v => v * star v
  ofTrLog := id

/-- the determinant `slogdet` claims: `sign * exp(logabs)` of its result, computed exactly -/
def claimedDet (K : DetKernels R R) (la : LogAlg) (ta : TraceAlg) (A : Op R) : Except String R :=
  slogdetG detOps K la ta A

/-! ## input preconditions and out-of-domain shapes (reported by the driver) -/

/-- every `Triangular` node really is triangular on its window (the constructor's promise) -/
def triTrue : Op R → Bool
  | tri _ r c lower a =>
      (List.range r).all fun i => (List.range c).all fun j =>
        if lower then (i < j → a i j = 0) else (j < i → a i j = 0)
  | prod Ms => (Ms.map (·.triTrue)).all id
  | sum Ms => (Ms.map (·.triTrue)).all id
  | kron Ms => (Ms.map (·.triTrue)).all id
  | kronsum Ms => (Ms.map (·.triTrue)).all id
  | bdiag Ms _ => (Ms.map (·.triTrue)).all id
  | concat _ Ms => (Ms.map (·.triTrue)).all id
  | transpose A => A.triTrue
  | adjoint A => A.triTrue
  | sliced A _ _ => A.triTrue
  | generic A => A.triTrue
  | annot _ A => A.triTrue
  | _ => true

/-- the nodes the structural rules recurse through have square members (always the case for a
non-singular operator) and positive multiplicity lists of the right length -/
def sqMembers : Op R → Bool
  | annot _ A => A.sqMembers
  | prod Ms =>
      if (Ms.map (fun M => M.rows == M.cols)).all id then (Ms.map (·.sqMembers)).all id else true
  | kron Ms => (Ms.map (fun M => M.rows == M.cols)).all id && (Ms.map (·.sqMembers)).all id
  | bdiag Ms _ => (Ms.map (fun M => M.rows == M.cols)).all id && (Ms.map (·.sqMembers)).all id
  | tri _ r c _ _ => r == c
  | _ => true

end

end Op
