import ColaVerif.Lemmas.InvSound

/-!
# A solver node INSIDE a structural node: the calls it receives (C06, round 5)

`SolveContract E alg A` (Lemmas/InvSound.lean) asks the iterative solver to be exact for EVERY operand.
The solver models of C12 / C13 are exact only on operands whose columns are run to their grade, so
for a solver node below a Kronecker / Product node the contract is replaced by the exactness of
THE CALLS THAT ARE MADE.  This file names the operand such a node receives (`kronOperand₁`: what
`Kronecker([A₁, A₂])._matmat(X)` hands to its first factor; for a `Product` the operand is the
product of the members to the right) and provides the device by which the unconditional theorems
of `Lemmas/InvSound.lean` are reused:

`guardExt E Ai` answers like `E`, except that a call of the solver that is NOT exact is answered
by multiplying with the matrix `Ai`.  With `Ai` a right inverse of the solver node's operator the
guarded parameter set satisfies `SolveContract` for every operand (`solveContract_guard`), so
`kron_sound` / `prod_sound` apply to it; and when the calls that are made are exact, the guarded and
the unguarded evaluation of `B @ X` coincide (`kron2_mm_guard`, `prod2_mm_guard_*`): the guard is a
proof device, it never fires.
-/

namespace Inv
variable {R : Type} [CommRing R] [StarRing R] [DecidableEq R]

/-- the ONE call `alg(A, X)` (`X` with `b` columns) returns a solution of `A Y = X` -/
def SolveOn (E : Ext R) (alg : Alg) (A : Op R) (b : Nat) (X : MatF R) : Prop :=
  EqOn A.rows b (mmul A.rows A.den.f (E.solve alg A b X).f) X

omit [DecidableEq R] in
theorem solveContract_iff (E : Ext R) (alg : Alg) (A : Op R) :
    SolveContract E alg A ↔ ∀ b X, SolveOn E alg A b X := Iff.rfl

open Classical in
/-- `E`, except that a solver call that is not exact is answered by `Ai · X` -/
noncomputable def guardExt (E : Ext R) (Ai : MatF R) : Ext R :=
  { E with solve := fun alg A b X =>
      if SolveOn E alg A b X then E.solve alg A b X else MatV.of (mmul A.rows Ai X) }

omit [DecidableEq R] in
theorem guard_solve_pos (E : Ext R) (Ai : MatF R) (alg : Alg) (A : Op R) (b : Nat) (X : MatF R)
    (h : SolveOn E alg A b X) : (guardExt E Ai).solve alg A b X = E.solve alg A b X := by
  simp only [guardExt]
  rw [if_pos h]

/-- with a right inverse of `A` as the fall-back the guarded solver is exact on every operand -/
theorem solveContract_guard (E : Ext R) (Ai : MatF R) (alg : Alg) (A : Op R)
    (hinv : RInv A.rows A.den.f Ai) : SolveContract (guardExt E Ai) alg A := by
  intro b X
  by_cases h : SolveOn E alg A b X
  · rw [guard_solve_pos E Ai alg A b X h]
    exact h
  · simp only [guardExt]
    rw [if_neg h]
    exact hinv.solves X

/-- an ordinary operator as a result does not consult the parameter set -/
theorem isInverse_op_ext (E E' : Ext R) (A A' : Op R) (h : IsInverse E A (.op A')) :
    IsInverse E' A (.op A') := by
  obtain ⟨h1, h2, h3, h4, h5⟩ := h
  refine ⟨h1, h2, h3, ?_, ?_⟩
  · rw [InvOp.den] at h4 ⊢
    exact h4
  · intro b X
    have := h5 b X
    rw [InvOp.mm, InvOp.den] at this ⊢
    exact this

/-- a solver node whose solver is exact on every operand is the inverse -/
theorem isInverse_iterInv (E : Ext R) (alg : Alg) (A : Op R) (hsq : A.cols = A.rows)
    (hc : SolveContract E alg A) : IsInverse E A (.iterInv A alg) := by
  refine ⟨hsq, by simp only [InvOp.rows], by simp only [InvOp.cols]; exact hsq, ?_,
    mmOKI_iterInv E alg A hsq hc⟩
  rw [InvOp.den, hsq]
  exact hc A.rows eyeM

/-! ## the operand of the first Kronecker factor -/

/-- `Kronecker([A₁, A₂])._matmat(X)`, `X : (c₁ c₂) × b`: the operand handed to `A₁`, the
`c₁ × (c₂ b)` matrix `X.reshape(c₁, c₂, b)` flattened along its last two axes -/
def kronOperand₁ (c1 c2 b : Nat) (X : MatF R) : MatF R :=
  toMat (moveToFront (reshapeIn [c1, c2] b X) 0)

/-- entry `(i, j₂ b + c)` (`c < b`) of the operand is entry `(i c₂ + j₂, c)` of `X` -/
theorem kronOperand₁_apply (c1 c2 b : Nat) (X : MatF R) (i f : Nat) :
    kronOperand₁ c1 c2 b X i f = X (i * c2 + f / b) (f % b) := by
  simp [kronOperand₁, toMat, moveToFront, reshapeIn, insertAt, unravel, ravel]

/-- **the guard never fires** (two-factor Kronecker, solver node first, an ordinary operator second):
if the one call the Kronecker product makes to the solver is exact, the guarded and the unguarded
evaluation of `B @ X` are the same -/
theorem kron2_mm_guard (E : Ext R) (Ai : MatF R) (alg : Alg) (S D' : Op R) (b : Nat) (X : MatF R)
    (hcall : SolveOn E alg S (D'.cols * b) (kronOperand₁ S.cols D'.cols b X)) :
    (InvOp.kron [.iterInv S alg, .op D']).mm (guardExt E Ai) b X
      = (InvOp.kron [.iterInv S alg, .op D']).mm E b X := by
  have hk : (moveToFront (reshapeIn [S.cols, D'.cols] b X) 0).shape.tail.prod = D'.cols * b := by
    simp [moveToFront, reshapeIn]
  have key : (guardExt E Ai).solve alg S
      ((moveToFront (reshapeIn [S.cols, D'.cols] b X) 0).shape.tail.prod)
      (toMat (moveToFront (reshapeIn [S.cols, D'.cols] b X) 0))
      = E.solve alg S ((moveToFront (reshapeIn [S.cols, D'.cols] b X) 0).shape.tail.prod)
        (toMat (moveToFront (reshapeIn [S.cols, D'.cols] b X) 0)) := by
    apply guard_solve_pos
    rw [hk]
    exact hcall
  simp only [InvOp.mm, List.map_cons, List.map_nil, kronMatmatV, kronLoopV, kronStepV,
    InvOp.rows, InvOp.cols, key]

/-! ## Product and BlockDiag -/

/-- `inv(Product([S, D])) = Product([inv D, inv S])`: the solver node receives the caller's operand -/
theorem prod2_mm_guard_first (E : Ext R) (Ai : MatF R) (alg : Alg) (S D' : Op R) (b : Nat) (X : MatF R)
    (hcall : SolveOn E alg S b X) :
    (InvOp.prod [.op D', .iterInv S alg]).mm (guardExt E Ai) b X
      = (InvOp.prod [.op D', .iterInv S alg]).mm E b X := by
  simp only [InvOp.mm, List.foldr_cons, List.foldr_nil, MatV.of_f,
    guard_solve_pos E Ai alg S b X hcall]

/-- `inv(Product([D, S])) = Product([inv S, inv D])`: the solver node receives `inv(D) @ X` -/
theorem prod2_mm_guard_last (E : Ext R) (Ai : MatF R) (alg : Alg) (S D' : Op R) (b : Nat) (X : MatF R)
    (hcall : SolveOn E alg S b (D'.mm b X).f) :
    (InvOp.prod [.iterInv S alg, .op D']).mm (guardExt E Ai) b X
      = (InvOp.prod [.iterInv S alg, .op D']).mm E b X := by
  simp only [InvOp.mm, List.foldr_cons, List.foldr_nil, MatV.of_f,
    guard_solve_pos E Ai alg S b (D'.mm b X).f hcall]

/-- `BlockDiag([A₁, A₂], multiplicities=[m₁, m₂])._matmat(X)`: the operand handed to `A₁`, the
`c₁ × (b m₁)` matrix made of the first `m₁ c₁` rows of `X` (copy `t` of the block, column `c` of `X`
↦ column `c m₁ + t`) -/
def bdiagOperand₁ (c1 m1 : Nat) (X : MatF R) : MatF R :=
  transposeM (reshape2 (m1 * c1) c1 (transposeM (rowsFrom 0 X)))

/-- two-member BlockDiag, solver node first -/
theorem bdiag2_mm_guard (E : Ext R) (Ai : MatF R) (alg : Alg) (S D' : Op R) (m1 m2 b : Nat) (X : MatF R)
    (hcall : SolveOn E alg S (b * m1) (bdiagOperand₁ S.cols m1 X)) :
    (InvOp.bdiag [.iterInv S alg, .op D'] [m1, m2]).mm (guardExt E Ai) b X
      = (InvOp.bdiag [.iterInv S alg, .op D'] [m1, m2]).mm E b X := by
  have key := guard_solve_pos E Ai alg S (b * m1) (bdiagOperand₁ S.cols m1 X) hcall
  unfold bdiagOperand₁ at key
  simp only [InvOp.mm, List.map_cons, List.map_nil, List.zip_cons_cons, List.zip_nil_right,
    bdiagMatmatV, bdiagBlocksV, bdiagBlockV, InvOp.rows, InvOp.cols, key]

end Inv
