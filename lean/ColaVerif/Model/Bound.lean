import ColaVerif.Basic.GRat
import ColaVerif.Model.Matmat

/-!
# Magnitude bound for exact comparison (execution support, no theorem depends on it)

`absOp A` replaces every payload entry `z` by `|re z| + |im z|` (and the Householder factor by
`-|β|`, so that its subtraction becomes an addition).  Running the *same* code model on `absOp A`
and `|X|` bounds the magnitude of every intermediate real number of the computation on `A`, `X`
(the L¹ modulus is sub-multiplicative).  The harness compares floating-point results with the
exact model only when this bound (times the power of two that clears the dyadic denominators) is
below 2²⁴ (float32 involved) resp. 2⁵³.
-/

namespace Op

def mapPayload {R : Type} (f : R → R) (g : R → R) : Op R → Op R
  | dense d r c a => dense d r c (fun i j => f (a i j))
  | tri d r c l a => tri d r c l (fun i j => f (a i j))
  | sparse d r c e => sparse d r c (e.map fun t => (t.1, t.2.1, f t.2.2))
  | scalar d s n => scalar d (f s) n
  | eye d n => eye d n
  | prod Ms => prod (Ms.map (mapPayload f g))
  | sum Ms => sum (Ms.map (mapPayload f g))
  | kron Ms => kron (Ms.map (mapPayload f g))
  | kronsum Ms => kronsum (Ms.map (mapPayload f g))
  | bdiag Ms m => bdiag (Ms.map (mapPayload f g)) m
  | diag d n v => diag d n (fun i => f (v i))
  | tridiag d n a b c => tridiag d n (fun i => f (a i)) (fun i => f (b i)) (fun i => f (c i))
  | transpose A => transpose (mapPayload f g A)
  | adjoint A => adjoint (mapPayload f g A)
  | sliced A s t => sliced (mapPayload f g A) s t
  | perm d p => perm d p
  | concat x Ms => concat x (Ms.map (mapPayload f g))
  | house d n v b => house d n (fun i => f (v i)) (g b)
  | generic A => generic (mapPayload f g A)
  | annot a A => annot a (mapPayload f g A)

def absZ (z : GRat) : GRat := ⟨z.absL1, 0⟩
def absOp (A : Op GRat) : Op GRat := mapPayload absZ (fun b => -(absZ b)) A

end Op
