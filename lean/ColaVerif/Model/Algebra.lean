import ColaVerif.Model.Wf

/-!
# Rewriting rules of `cola/fns.py`: transpose / adjoint (C02)

Rule selection follows the dispatcher (most specific class first; the conditional
`isa SelfAdjoint` rule beats the generic `LinearOperator` rule through its precedence bonus but
loses against any class-specific rule).  Annotation wrappers do not change the class.
-/

namespace Op
variable {R : Type}

variable [CommRing R] [StarRing R] [DecidableEq R]

/-- `cola.fns.transpose(A)` = `A.T` -/
def transposeRule (A : Op R) : Op R :=
  match A.core with
  | transpose B => B
  | dense dt r c a => dense dt c r (transposeM a)
  | tri dt r c l a => tri dt c r (!l) (transposeM a)
  | sparse dt r c e => sparse dt c r (e.map fun t => (t.2.1, t.1, t.2.2))
  | _ => if A.isa .selfAdjoint && !A.dtype.isComplex then A else transpose A

/-- `cola.fns.adjoint(A)` = `A.H` -/
def adjointRule (A : Op R) : Op R :=
  match A.core with
  | adjoint B => B
  | dense dt r c a => dense dt c r (conjM (transposeM a))
  | tri dt r c l a => tri dt c r (!l) (conjM (transposeM a))
  | _ => if A.isa .selfAdjoint then A else adjoint A

/-- a tower of `.T` / `.H` applications, innermost first (`true` = `.T`, `false` = `.H`) -/
def tower (A : Op R) : List Bool → Op R
  | [] => A
  | t :: ts => tower (if t then A.transposeRule else A.adjointRule) ts

/-- the matrix a tower must represent -/
def towerDen (D : MatF R) : List Bool → MatF R
  | [] => D
  | t :: ts => towerDen (if t then transposeM D else conjM (transposeM D)) ts

end Op
