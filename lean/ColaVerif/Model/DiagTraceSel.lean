import ColaVerif.Model.DiagTrace

/-!
# Rule selection of `cola.linalg.diag` / `cola.linalg.trace` (C08): the model's rule table

`diagRuleTable` / `traceRuleTable` list the registered methods of `diag` / `trace` the code model
`diagCode` / `traceCode` has a counterpart for, as signature strings
`<class of A>|int|<hint of alg>` (`<class of A>|<hint of alg>` for `trace`); a union hint lists its
members sorted by name, joined by `,`.  `diagRuleSig alg A` / `traceRuleSig alg A` is the method the
model applies to `A` for an algorithm object of class `alg`.

harness/props/c08.py (stream D) reads the LIVE table of the dispatcher of /repo on every run: every
live method must be in the model's table and vice versa, and for every operator kind of the case
language × every algorithm class the method the live resolver selects must be the one named here.
-/

namespace Op
variable {R : Type}

/-- class of the algorithm object of the call (`omitted` = `Auto()`) -/
inductive AlgK | auto | exact | hutch | hutchpp
deriving DecidableEq, Repr

def clsLinOp : String := "cola.ops.operator_base.LinearOperator"
def hintAlgorithm : String := "cola.linalg.algorithm_base.Algorithm"
def hintAuto : String := "cola.linalg.algorithm_base.Auto"
/-- `Hutch | HutchPP | Exact` -/
def hintEstimators : String :=
  "cola.linalg.trace.diagonal_estimation.Exact,cola.linalg.trace.diagonal_estimation.Hutch,cola.linalg.trace.diagonal_estimation.HutchPP"

/-- the methods of `diag` in `cola/linalg/trace/diag_trace.py` the model has a counterpart for -/
def diagRuleTable : List String :=
  [clsLinOp ++ "|int|" ++ hintAuto,                                  -- precedence -1: the Auto decision
   clsLinOp ++ "|int|" ++ hintEstimators,                            -- precedence -1: `alg(A, k)`
   "cola.ops.operators.Dense|int|" ++ hintAlgorithm,
   "cola.ops.operators.Identity|int|" ++ hintAlgorithm,
   "cola.ops.operators.Diagonal|int|" ++ hintAlgorithm,
   "cola.ops.operators.Sum|int|" ++ hintAlgorithm,
   "cola.ops.operators.BlockDiag|int|" ++ hintAlgorithm,
   "cola.ops.operators.ScalarMul|int|" ++ hintAlgorithm,
   "cola.ops.operators.Kronecker|int|" ++ hintAlgorithm,
   "cola.ops.operators.KronSum|int|" ++ hintAlgorithm]

/-- the methods of `trace` -/
def traceRuleTable : List String :=
  [clsLinOp ++ "|" ++ hintAlgorithm, "cola.ops.operators.Kronecker|" ++ hintAlgorithm]

/-- the method of `diag` the model applies to `A` with an algorithm object of class `alg` -/
def diagRuleSig (alg : AlgK) (A : Op R) : String :=
  if A.diagRuleClass = clsLinOp then
    clsLinOp ++ "|int|" ++ (if alg = .auto then hintAuto else hintEstimators)
  else A.diagRuleClass ++ "|int|" ++ hintAlgorithm

/-- the method of `trace` the model applies to `A` (the same for every algorithm class) -/
def traceRuleSig (_alg : AlgK) (A : Op R) : String := A.traceRuleClass ++ "|" ++ hintAlgorithm

end Op
