import ColaVerif.Model.Arnoldi

/-!
# Code model of `cola/linalg/inverse/gmres.py` (`gmres`, `gmres_fwd`, default path)

`gmres_fwd` with `use_householder = False`, `use_triangular = False`, `P = None`:

1. `res = rhs - A @ x0` (one product with the operator per column);
2. batched Arnoldi on `res` (`Model/Arnoldi.lean`; at most `min(max_iters, n)` further products
   per column);
3. `Q = Q[:, :, :-1]` — the last column of `Q` is dropped, `H` keeps its `M+1` rows (switch
   `drop = false`; the old code also dropped the last row of `H`: `drop = true`);
4. the padding mask: `largest_vals = max(|H|, axis=-2)` (per **column**; per row in the old code),
   `overall_max`, `zero_thresh = 10 * tol * overall_max`, `padding = largest_vals < zero_thresh`;
5. regularised normal equations `y = solve(Hᴴ H + diag(padding), Hᴴ[:, 0]) * beta`,
   `y = where(padding, 0, y)`;
6. `soln = x0 + Q @ y`.

The dense `solve` (LAPACK `gesv`) is a parameter of the model; its contract
(`G y = r` for invertible `G`) is a hypothesis of the theorems.  `gaussSolve` is the executable
stand-in used by the driver.
-/

namespace GMRES

open Arnoldi

variable {α V : Type}

/-- Switch for (former) defect (b).  `false` mirrors /repo since commit 9a9bf4d ("GMRES solves the
(m+1) x m least-squares problem instead of the square Galerkin system"): `Q = Q[:, :, :-1]`, all `M+1`
rows of `H` kept, padding mask per **column** (`largest_vals = max(|H|, axis=-2)`): `y` is the
least-squares solution of `min ‖β e₁ − H̃ y‖`, the residual minimiser.  `true` is the old behaviour
(`Q, H = Q[:, :, :-1], H[:, :-1, :]`, square `H`, row-wise mask: the Galerkin / FOM iterate), kept as a
variant for the lemmas `C13_dropped_row_is_FOM`, `C13_dropped_row_witness`. -/
def dropLastRow : Bool := false  -- mirrors /repo: cola/linalg/inverse/gmres.py `Q = Q[:, :, :-1]` (H kept whole), `largest_vals = xnp.max(xnp.abs(H), -2)`

section
variable [Num α]

/-- `Σ_{i<n} f i`, accumulated from zero in index order -/
def sumRange (n : Nat) (f : Nat → α) : α :=
  (List.range n).foldl (fun acc i => Num.add acc (f i)) Num.zero

/-- `np.max` of `f 0 .. f (n-1)` (real scalars), `n ≥ 1` -/
def maxRange (n : Nat) (f : Nat → α) : α :=
  (List.range n).foldl (fun acc i => Num.max acc (f i)) (f 0)

/-- number of rows of `H` that enter the normal equations -/
def hRows (drop : Bool) (M : Nat) : Nat := if drop then M else M + 1

/-- `largest_vals[j]`: per row of the square `H` (code as is) / per column of the full `H̃` (repair) -/
def largestVals (drop : Bool) (M : Nat) (c : Col α V) : Array α :=
  Array.ofFn (n := M) fun j =>
    if drop then maxRange M (fun i => Num.abs (c.h j.val i))
    else maxRange (M + 1) (fun r => Num.abs (c.h r j.val))

/-- `padding` as booleans: `largest_vals < 10 * tol * overall_max` -/
def padding (drop : Bool) (M : Nat) (tol : α) (c : Col α V) : Array Bool :=
  let L := largestVals drop M c
  let overall := maxRange M (fun j => L.getD j Num.zero)
  let thresh := Num.mul (Num.mul Num.ten tol) overall
  L.map (fun l => Num.lt l thresh)

/-- `Hᴴ H + diag(padding)` (array of rows) -/
def normalMatrix (drop : Bool) (M : Nat) (pad : Array Bool) (c : Col α V) : Array (Array α) :=
  Array.ofFn (n := M) fun a => Array.ofFn (n := M) fun b =>
    Num.add (sumRange (hRows drop M) fun r => Num.mul (Num.conj (c.h r a.val)) (c.h r b.val))
      (if a.val = b.val then Num.ofBool (pad.getD a.val false) else Num.zero)

/-- `Hᴴ[:, 0]` = conjugate of row 0 of `H` -/
def normalRhs (M : Nat) (c : Col α V) : Array α :=
  Array.ofFn (n := M) fun a => Num.conj (c.h 0 a.val)

/-- the coefficient vector `y` of one column -/
def coeffs (solve : Array (Array α) → Array α → Array α) (drop : Bool) (M : Nat) (tol beta : α)
    (c : Col α V) : Array α :=
  let pad := padding drop M tol c
  let y0 := solve (normalMatrix drop M pad c) (normalRhs M c)
  Array.ofFn (n := M) fun j =>
    if pad.getD j.val false then Num.zero else Num.mul (y0.getD j.val Num.zero) beta

variable [VecOps α V]

/-- `Q[:, :M] @ y` -/
def combine (M : Nat) (c : Col α V) (y : Array α) : V :=
  (List.range M).foldl (fun acc l => VecOps.add α acc (VecOps.smul (y.getD l Num.zero) (c.q l))) c.z

/-- result of `gmres` -/
structure Result (α V : Type) where
  soln : List V
  ys : List (Array α)
  arn : State α V
  /-- products with the operator per column: one for the residual plus one per Arnoldi step -/
  products : Nat

/-- `gmres_fwd` with an explicit switch -/
def gmresCore (solve : Array (Array α) → Array α → Array α) (drop : Bool) (A : V → V) (n M : Nat)
    (tol : α) (rhs x0 : List V) : Result α V :=
  let res := List.zipWith (fun b x => VecOps.sub α b (A x)) rhs x0
  let s := Arnoldi.run A n M tol res
  let betas : List α := res.map VecOps.norm
  let ys := List.zipWith (fun c beta => coeffs solve drop M tol beta c) s.cols betas
  let preds := List.zipWith (fun c y => combine M c y) s.cols ys
  { soln := List.zipWith (fun x p => VecOps.add α x p) x0 preds
    ys := ys
    arn := s
    products := 1 + s.idx }

/-- `gmres` as the code is -/
def gmres (solve : Array (Array α) → Array α → Array α) (A : V → V) (n M : Nat)
    (tol : α) (rhs x0 : List V) : Result α V :=
  gmresCore solve dropLastRow A n M tol rhs x0

/-! ### executable stand-in for `np.linalg.solve`: Gaussian elimination with partial pivoting -/

/-- eliminate column `k` below/above using the pivot row; `aug` is the augmented matrix -/
def gaussStep (m : Nat) (aug : Array (Array α)) (k : Nat) : Array (Array α) :=
  -- pivot search
  let p := (List.range m).foldl (fun best r =>
      if r < k then best
      else if Num.lt (Num.abs ((aug.getD best #[]).getD k Num.zero)) (Num.abs ((aug.getD r #[]).getD k Num.zero))
      then r else best) k
  let rowk := aug.getD p #[]
  let aug := (aug.setIfInBounds p (aug.getD k #[])).setIfInBounds k rowk
  let piv := rowk.getD k Num.zero
  aug.mapIdx fun r row =>
    if r = k then row
    else
      let f := Num.div (row.getD k Num.zero) piv
      Array.zipWith (fun x y => Num.sub x (Num.mul f y)) row rowk

/-- Gauss–Jordan solve of `G y = r` -/
def gaussSolve (G : Array (Array α)) (r : Array α) : Array α :=
  let m := G.size
  let aug := G.mapIdx fun i row => row.push (r.getD i Num.zero)
  let aug := (List.range m).foldl (gaussStep m) aug
  aug.mapIdx fun i row => Num.div (row.getD m Num.zero) (row.getD i Num.zero)

end

end GMRES
