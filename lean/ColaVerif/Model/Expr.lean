import ColaVerif.Model.Index
import ColaVerif.Model.Dtype

/-!
# Operator algebra (C03): the Python overloads of `operator_base.py:119-145` and the rewriting
rules of `cola/fns.py` (dot / add / mul / kron / kronsum, lazify / densify / no_dispatch,
block_diag, built-in `sum`)

`Ex R` is the language of algebraic expressions; `eval` builds what cola builds (an operator
tree, or a plain array where cola returns one) or the error class it raises; `meaning` is the
matrix expression itself.
-/

inductive ScalKind | pyint | pyfloat | pycomplex | npscalar | arr0
deriving DecidableEq, Repr, Inhabited

/-- a scalar literal: its value, its reciprocal (supplied by the harness; used by `x / c`), and
the Python type it was written with -/
structure Scal (R : Type) where
  v : R
  inv : R
  kind : ScalKind
  /-- the literal has a complex Python/NumPy type (`complex`, `np.complex128`) -/
  cplx : Bool

inductive Ex (R : Type) : Type where
  | op (A : Op R)
  | arr (dt : DType) (r c : Nat) (a : MatF R)
  | add (x y : Ex R)
  | sub (x y : Ex R)
  | neg (x : Ex R)
  | smul (c : Scal R) (x : Ex R)      -- c * x
  | muls (x : Ex R) (c : Scal R)      -- x * c
  | divs (x : Ex R) (c : Scal R)      -- x / c
  | sdiv (c : Scal R) (x : Ex R)      -- c / x
  | addz (x : Ex R)                   -- x + 0   (Python int 0)
  | matmul (x y : Ex R)
  | kron (x y : Ex R)
  | kronsum (x y : Ex R)
  | bdiag (xs : List (Ex R))
  | sumList (xs : List (Ex R))
  | lazify (x : Ex R)
  | densify (x : Ex R)
  | nodispatch (x : Ex R)

/-- what an expression evaluates to -/
inductive Val (R : Type) where
  | op (A : Op R)
  | arr (dt : DType) (r c : Nat) (a : MatF R)

namespace Val
variable {R : Type}
def rows : Val R → Nat | op A => A.rows | arr _ r _ _ => r
def cols : Val R → Nat | op A => A.cols | arr _ _ c _ => c
def dtype : Val R → DType | op A => A.dtype | arr dt _ _ _ => dt
end Val

namespace Ex
variable {R : Type} [CommRing R] [StarRing R] [DecidableEq R]


/-- `cola.lazify` -/
def lazifyV : Val R → Op R
  | .op A => A
  | .arr dt r c a => .dense dt r c a

def isIdentity (A : Op R) : Bool := match A.core with | .eye .. => true | _ => false
def prodMembers (A : Op R) : Option (List (Op R)) := match A.core with | .prod Ms => some Ms | _ => none
def sumMembers (A : Op R) : Option (List (Op R)) := match A.core with | .sum Ms => some Ms | _ => none
def kronMembers (A : Op R) : Option (List (Op R)) := match A.core with | .kron Ms => some Ms | _ => none
def kronsumMembers (A : Op R) : Option (List (Op R)) := match A.core with | .kronsum Ms => some Ms | _ => none
def diagOf (A : Op R) : Option (DType × Nat × (Nat → R)) :=
  match A.core with | .diag dt n d => some (dt, n, d) | _ => none

/-- `Product(*Ms)` with its shape validation -/
def mkProd (Ms : List (Op R)) : Except String (Val R) :=
  if Op.chainOk (Ms.map (fun M => (M.rows, M.cols))) then .ok (.op (.prod Ms)) else .error "error:ValueError"

/-- `Sum(*Ms)` with its shape validation -/
def mkSum (Ms : List (Op R)) : Except String (Val R) :=
  match Ms with
  | [] => .error "error:IndexError"
  | M :: _ =>
    if Ms.all (fun N => N.rows == M.rows && N.cols == M.cols) then .ok (.op (.sum Ms)) else .error "error:ValueError"

/-- `KronSum(*Ms)` with its squareness validation -/
def mkKronSum (Ms : List (Op R)) : Except String (Val R) :=
  if Ms.all (fun N => N.rows == N.cols) then .ok (.op (.kronsum Ms)) else .error "error:ValueError"

/-- `_absorbs(A, I)` of `cola/fns.py`: dropping the identity factor `I` does not lose the promoted
dtype of the product (`promote_types(A.dtype, I.dtype) == A.dtype`) -/
def absorbs (A I : Op R) : Bool := DType.promote A.dtype I.dtype == A.dtype

/-- `cola.fns.dot(A, B)` (after `__matmul__`'s shape assertion).  The three `Identity` rules
(precedence 1) drop the identity only when the other operand already has the promoted dtype;
otherwise they call the `Product` constructor on the two operands as they are (no flattening),
and for two identities build a fresh `Identity(B.shape, promoted dtype)`. -/
def dotRule (A B : Op R) : Except String (Val R) :=
  if A.cols != B.rows then .error "error:AssertionError" else
  if isIdentity A then
    if isIdentity B then                       -- (Identity, Identity)
      if absorbs B A then .ok (.op B) else .ok (.op (.eye (DType.promote A.dtype B.dtype) B.rows))
    else                                       -- (Identity, LinearOperator)
      if absorbs B A then .ok (.op B) else mkProd [A, B]
  else if isIdentity B then                    -- (LinearOperator, Identity)
    if absorbs A B then .ok (.op A) else mkProd [A, B]
  else
    match prodMembers A, prodMembers B with
    | some Ms, some Ns => mkProd (Ms ++ Ns)
    | some Ms, none => mkProd (Ms ++ [B])
    | none, some Ns => mkProd (A :: Ns)
    | none, none => mkProd [A, B]

/-- `cola.fns.add(A, B)` on operators -/
def addRule (A B : Op R) : Except String (Val R) :=
  match sumMembers A, sumMembers B with
  | some Ms, some Ns => mkSum (Ms ++ Ns)
  | some Ms, none => mkSum (Ms ++ [B])
  | none, some Ns => mkSum (A :: Ns)
  | none, none => mkSum [A, B]

/-- `cola.fns.mul(A, c)`.  The scalar is stored with `xnp.array(c, dtype=A.dtype)`: a complex
scalar on a real operator raises TypeError when it is a Python `complex` and silently loses its
imaginary part (`re`) when it is a NumPy scalar / 0-d array or the product with a `ScalarMul`'s
own array (recorded finding `complex-scalar-real-operator`). -/
def mulRule (re : R → R) (A : Op R) (c : Scal R) : Except String (Val R) :=
  let lossy := c.cplx && !A.dtype.isComplex
  match A.core with
  | .scalar dt s n => .ok (.op (.scalar dt (if lossy then re (s * c.v) else s * c.v) n))
  | _ =>
    if lossy && c.kind == .pycomplex then .error "error:TypeError"
    else .ok (.op (.prod [.scalar A.dtype (if lossy then re c.v else c.v) A.rows, A]))

/-- dtype of `array * scalar` under NumPy's promotion (Python scalars are weak, NumPy scalars
and 0-d arrays are float64 / complex128) -/
def arrScalDtype (dt : DType) (c : Scal R) : DType :=
  match c.kind with
  | .pyint => dt
  | .pyfloat => dt
  | .pycomplex => DType.mk true dt.isDouble
  | _ => DType.promote dt (if c.cplx then .c128 else .f64)

def kronRule (A B : Op R) : Except String (Val R) :=
  match diagOf A, diagOf B with
  | some (dt, n, d), some (_, m, e) =>
      -- `(A.diag[:, None] * B.diag[None, :]).reshape(-1)`; dtype of the product array
      .ok (.op (.diag (DType.promote dt (B.dtype)) (n * m) (fun t => d (t / m) * e (t % m))))
  | _, _ =>
    match kronMembers A, kronMembers B with
    | some Ms, some Ns => .ok (.op (.kron (Ms ++ Ns)))
    | some Ms, none => .ok (.op (.kron (Ms ++ [B])))
    | none, some Ns => .ok (.op (.kron (A :: Ns)))
    | none, none => .ok (.op (.kron [A, B]))

def kronsumRule (A B : Op R) : Except String (Val R) :=
  match kronsumMembers A, kronsumMembers B with
  | some Ms, some Ns => mkKronSum (Ms ++ Ns)
  | some Ms, none => mkKronSum (Ms ++ [B])
  | none, some Ns => mkKronSum (A :: Ns)
  | none, none => mkKronSum [A, B]

def negArr : Val R → Val R
  | .arr dt r c a => .arr dt r c (fun i j => -(a i j))
  | v => v

/-- `x + y` for evaluated operands -/
def addV (x y : Val R) : Except String (Val R) :=
  match x, y with
  | .arr dx r c a, .arr dy r' c' b =>
      -- two plain arrays are added by NumPy alone: equal shapes entrywise; shapes that NumPy would BROADCAST
      -- (an extent 1 against any extent) are outside the model (`unsupported`); anything else raises ValueError
      if r == r' && c == c' then .ok (.arr (DType.promote dx dy) r c (addM a b))
      else if (r == r' || r == 1 || r' == 1) && (c == c' || c == 1 || c' == 1) then .error "unsupported"
      else .error "error:ValueError"
  | .op A, y => addRule A (lazifyV y)            -- A.__add__(y) -> add(A, y)
  | .arr dx r c a, .op B => addRule B (.dense dx r c a)   -- B.__radd__(x) -> B.__add__(x)

def negV (re : R → R) (x : Val R) : Except String (Val R) :=
  match x with
  | .op A => mulRule re A ⟨-1, -1, .pyint, false⟩        -- -1 * self
  | v => .ok (negArr v)

/-- `x @ y` -/
def matmulV (x y : Val R) : Except String (Val R) :=
  match x, y with
  | .op A, .op B => dotRule A B
  | .op A, .arr dy r c b =>
      if A.cols != r then .error "error:AssertionError"
      else .ok (.arr (DType.promote A.dtype dy) A.rows c (A.mm c b).f)
  | .arr dx r c a, .op B =>
      if c != B.rows then .error "error:AssertionError"
      else .ok (.arr (DType.promote dx B.dtype) r B.cols (B.rmm r a).f)
  | .arr dx r c a, .arr dy r' c' b =>
      if c == r' then .ok (.arr (DType.promote dx dy) r c' (forceV r c' (mmul c a b)).f) else .error "error:ValueError"

def eval (re : R → R) : Ex R → Except String (Val R)
  | op A => .ok (.op A)
  | arr dt r c a => .ok (.arr dt r c a)
  | add x y => do addV (← eval re x) (← eval re y)
  | sub x y => do
      let vx ← eval re x
      let vy ← eval re y
      match vx with
      | .op _ => addV vx (← negV re vy)              -- self.__add__(-y)
      | .arr .. =>
        match vy with
        | .op B => do addV (← negV re (.op B)) vx    -- B.__rsub__(x) = (-B).__add__(x)
        | .arr .. => addV vx (negArr vy)
  | neg x => do negV re (← eval re x)
  | smul c x => do
      match ← eval re x with
      | .op A => mulRule re A c
      | .arr dt r cc a => .ok (.arr (arrScalDtype dt c) r cc (smulM c.v a))
  | muls x c => do
      match ← eval re x with
      | .op A => mulRule re A c
      | .arr dt r cc a => .ok (.arr (arrScalDtype dt c) r cc (smulM c.v a))
  | divs x c => do
      match ← eval re x with
      | .op A => mulRule re A ⟨c.inv, c.v, if c.kind == .pyint then .pyfloat else c.kind, c.cplx⟩   -- self * (1 / c)
      | .arr dt r cc a => .ok (.arr (arrScalDtype dt c) r cc (smulM c.inv a))
  | sdiv c x => do
      match ← eval re x with
      | .op A => mulRule re A ⟨c.inv, c.v, if c.kind == .pyint then .pyfloat else c.kind, c.cplx⟩   -- __rtruediv__: also self * (1 / c)
      | .arr .. => .error "unsupported"
  | addz x => eval re x                               -- `other == 0` shortcut (arrays: x + 0 = x)
  | matmul x y => do matmulV (← eval re x) (← eval re y)
  | kron x y => do kronRule (lazifyV (← eval re x)) (lazifyV (← eval re y))
  | kronsum x y => do kronsumRule (lazifyV (← eval re x)) (lazifyV (← eval re y))
  | bdiag xs => do
      let vs ← xs.mapM (eval re)
      match vs with
      | [] => .error "error:IndexError"        -- BlockDiag() indexes self.Ms[0]
      | _ => .ok (.op (.bdiag (vs.map lazifyV) (vs.map fun _ => 1)))
  | sumList xs => do
      let vs ← xs.mapM (eval re)
      match vs with
      | [] => .error "unsupported"
      | v :: rest => rest.foldlM (fun acc w => addV acc w) v     -- 0 + x1 = x1, then + x2 …
  | lazify x => do pure (.op (lazifyV (← eval re x)))
  | densify x => do
      match ← eval re x with
      | .op A => .ok (.arr A.dtype A.rows A.cols A.td.f)
      | v => .ok v
  | nodispatch x => do
      match ← eval re x with
      | .op A => .ok (.op (.generic A))
      | _ => .error "unsupported"

/-- the matrix expression: `(rows, cols, entries)` or `none` when the shapes do not fit -/
def meaning : Ex R → Option (Nat × Nat × MatF R)
  | op A => some (A.rows, A.cols, A.den.f)
  | arr _ r c a => some (r, c, a)
  | add x y => do
      let (r, c, a) ← meaning x
      let (r', c', b) ← meaning y
      if r == r' && c == c' then some (r, c, addM a b) else none
  | sub x y => do
      let (r, c, a) ← meaning x
      let (r', c', b) ← meaning y
      if r == r' && c == c' then some (r, c, fun i j => a i j - b i j) else none
  | neg x => do
      let (r, c, a) ← meaning x
      some (r, c, fun i j => -(a i j))
  | smul s x => do
      let (r, c, a) ← meaning x
      some (r, c, smulM s.v a)
  | muls x s => do
      let (r, c, a) ← meaning x
      some (r, c, smulM s.v a)
  | divs x s => do
      let (r, c, a) ← meaning x
      some (r, c, smulM s.inv a)
  | sdiv _ _ => none     -- c / A = c · A⁻¹ is not a ring expression: no meaning HERE (so `meaning (sdiv ..) = none` is
                         -- definitional).  Its meaning is relational: `Ex.IsScalarOverOp` (Lemmas/ExprSdiv.lean;
                         -- `C03_sdiv_meaning`: the code's `c⁻¹ · A` has it iff `A · A = c² · 1`).  The harness (c03.py
                         -- `sdiv_oracle`) computes c · A⁻¹ exactly and substitutes it as a leaf before asking for the meaning
  | addz x => meaning x
  | matmul x y => do
      let (r, c, a) ← meaning x
      let (r', c', b) ← meaning y
      if c == r' then some (r, c', mmul c a b) else none
  | kron x y => do
      let (r, c, a) ← meaning x
      let (r', c', b) ← meaning y
      some (r * r', c * c', kron2 r' c' a b)
  | kronsum x y => do
      let (r, c, a) ← meaning x
      let (r', c', b) ← meaning y
      if r == c && r' == c' then some (r * r', c * c', addM (kron2 r' c' a eyeM) (kron2 r' c' eyeM b)) else none
  | bdiag xs => do
      let ms ← xs.mapM meaning
      some ((ms.map (·.1)).sum, (ms.map (·.2.1)).sum, blockDiagM ms)
  | sumList xs => do
      let ms ← xs.mapM meaning
      match ms with
      | [] => none
      | (r, c, _) :: _ =>
        if ms.all (fun m => m.1 == r && m.2.1 == c) then some (r, c, (ms.map (·.2.2)).foldr addM zeroM) else none
  | lazify x => meaning x
  | densify x => meaning x
  | nodispatch x => meaning x

mutual
/-- some node of the expression satisfies `p` -/
def anyNode (p : Ex R → Bool) : Ex R → Bool
  | op A => p (op A)
  | arr dt r c a => p (arr dt r c a)
  | add x y => p (add x y) || anyNode p x || anyNode p y
  | sub x y => p (sub x y) || anyNode p x || anyNode p y
  | neg x => p (neg x) || anyNode p x
  | smul c x => p (smul c x) || anyNode p x
  | muls x c => p (muls x c) || anyNode p x
  | divs x c => p (divs x c) || anyNode p x
  | sdiv c x => p (sdiv c x) || anyNode p x
  | addz x => p (addz x) || anyNode p x
  | matmul x y => p (matmul x y) || anyNode p x || anyNode p y
  | kron x y => p (kron x y) || anyNode p x || anyNode p y
  | kronsum x y => p (kronsum x y) || anyNode p x || anyNode p y
  | bdiag xs => p (bdiag xs) || anyNodeL p xs
  | sumList xs => p (sumList xs) || anyNodeL p xs
  | lazify x => p (lazify x) || anyNode p x
  | densify x => p (densify x) || anyNode p x
  | nodispatch x => p (nodispatch x) || anyNode p x
def anyNodeL (p : Ex R → Bool) : List (Ex R) → Bool
  | [] => false
  | x :: xs => anyNode p x || anyNodeL p xs
end

/-- the node is a `c / A` (clause `scalar-divided-by-operator`) -/
def isSdiv : Ex R → Bool
  | sdiv _ _ => true
  | _ => false

/-- at this node `mul(A, c)` is invoked with a complex scalar on a real-dtype operator (clause
`complex-scalar-real-operator`) -/
def lossyNode (re : R → R) : Ex R → Bool
  | smul c x => match eval re x with | .ok (.op A) => c.cplx && !A.dtype.isComplex | _ => false
  | muls x c => match eval re x with | .ok (.op A) => c.cplx && !A.dtype.isComplex | _ => false
  | divs x c => match eval re x with | .ok (.op A) => c.cplx && !A.dtype.isComplex | _ => false
  | sdiv c x => match eval re x with | .ok (.op A) => c.cplx && !A.dtype.isComplex | _ => false
  | _ => false

/-- the named clauses (recorded findings of C03) the expression runs into; `[]` iff the clause
hypotheses `NoScalarOverOp`, `NoLossyComplex` of `C03_sound_partial` hold
(`Ex.clauses_nil_iff`, Lemmas/ExprSound.lean) -/
def clauses (re : R → R) (e : Ex R) : List String :=
  (if anyNode isSdiv e then ["scalar-divided-by-operator"] else []) ++
  (if anyNode (lossyNode re) e then ["complex-scalar-real-operator"] else [])

/-- the clauses the ROOT node of the expression is an instance of (not its sub-expressions): the
harness attributes a code/spec disagreement to a clause only at the sub-expression where the
disagreement first appears, and only if that node is an instance (`rootClauses_sub`:
Lemmas/ExprClauses.lean) -/
def rootClauses (re : R → R) (e : Ex R) : List String :=
  (if isSdiv e then ["scalar-divided-by-operator"] else []) ++
  (if lossyNode re e then ["complex-scalar-real-operator"] else [])

mutual
/-- does the expression denote a plain array (computed by NumPy) rather than an operator?
Purely syntactic: operator ∘ array products and `to_dense` give arrays, every cola combinator
gives an operator, `+`/`-` give an array only for two arrays. -/
def yieldsArr : Ex R → Bool
  | op _ => false
  | arr .. => true
  | add x y => yieldsArr x && yieldsArr y
  | sub x y => yieldsArr x && yieldsArr y
  | neg x => yieldsArr x
  | smul _ x => yieldsArr x
  | muls x _ => yieldsArr x
  | divs x _ => yieldsArr x
  | sdiv _ x => yieldsArr x
  | addz x => yieldsArr x
  | matmul x y => yieldsArr x || yieldsArr y
  | kron _ _ => false
  | kronsum _ _ => false
  | bdiag _ => false
  | sumList xs => yieldsArrL xs
  | lazify _ => false
  | densify _ => true
  | nodispatch _ => false
def yieldsArrL : List (Ex R) → Bool
  | [] => true
  | x :: xs => yieldsArr x && yieldsArrL xs
end

mutual
/-- the dtype of the matrix expression (SPECIFICATION, written without reference to `eval`):
an operator leaf contributes the join of its leaf dtypes (`Op.dtypeSpec`); binary forms take the
NumPy promotion of the operand dtypes; a scalar multiple or quotient of an operator keeps the
operator's dtype, of a plain array it follows NumPy's array-times-scalar promotion
(`arrScalDtype`: Python scalars are weak, NumPy scalars / 0-d arrays are float64 / complex128) -/
def dtypeSpec : Ex R → DType
  | op A => A.dtypeSpec
  | arr dt _ _ _ => dt
  | add x y => DType.promote (dtypeSpec x) (dtypeSpec y)
  | sub x y => DType.promote (dtypeSpec x) (dtypeSpec y)
  | neg x => dtypeSpec x
  | smul c x => if yieldsArr x then arrScalDtype (dtypeSpec x) c else dtypeSpec x
  | muls x c => if yieldsArr x then arrScalDtype (dtypeSpec x) c else dtypeSpec x
  | divs x c => if yieldsArr x then arrScalDtype (dtypeSpec x) c else dtypeSpec x
  | sdiv _ x => dtypeSpec x
  | addz x => dtypeSpec x
  | matmul x y => DType.promote (dtypeSpec x) (dtypeSpec y)
  | kron x y => DType.promote (dtypeSpec x) (dtypeSpec y)
  | kronsum x y => DType.promote (dtypeSpec x) (dtypeSpec y)
  | bdiag xs => dtypeSpecL xs
  | sumList xs => dtypeSpecL xs
  | lazify x => dtypeSpec x
  | densify x => dtypeSpec x
  | nodispatch x => dtypeSpec x
def dtypeSpecL : List (Ex R) → DType
  | [] => .f32
  | x :: xs => DType.promote (dtypeSpec x) (dtypeSpecL xs)
end

end Ex
